package token

// Verification harness (overlay, never written to /repo): C12, login tokens.
// Issues REAL tokens with the real authenticator (Init + GenSecret), presents every member of the mutation
// classes named by spec/Auth.tla (TokenClasses, delivered through VERIF_IN) to the real Authenticate and
// records (class, position, presented bytes, the issued bytes they derive from, configuration, clock,
// REAL outcome).  Nothing is judged here: spec/Monitor_C12.tla decides.

import (
	"bufio"
	"bytes"
	"crypto/hmac"
	"crypto/sha256"
	"encoding/base64"
	"encoding/binary"
	"encoding/json"
	"errors"
	"fmt"
	"math/rand"
	"os"
	"strconv"
	"testing"
	"time"

	"github.com/tinode/chat/server/auth"
	"github.com/tinode/chat/server/store/types"
)

type verifC12Issued struct {
	tok     []byte
	key     string // key id
	serial  int    // serial number of the configuration that issued it
	uid     uint64
	lvl     int
	feat    int
	crafted bool // signed by the harness with the same HMAC construction instead of GenSecret
}

type verifC12Handler struct {
	a      *authenticator
	key    string
	serial int
}

func verifC12Err(err error) string {
	switch {
	case err == nil:
		return ""
	case errors.Is(err, types.ErrMalformed):
		return "malformed"
	case errors.Is(err, types.ErrFailed):
		return "failed"
	case errors.Is(err, types.ErrExpired):
		return "expired"
	}
	return "other:" + err.Error()
}

func verifC12Ints(b []byte) []int {
	out := make([]int, len(b))
	for i, x := range b {
		out[i] = int(x)
	}
	return out
}

// a time in seconds as two 16-bit limbs (TLC integers are 32-bit)
func verifC12Limbs(sec int64) []int {
	if sec < 0 {
		sec = 0
	}
	return []int{int(sec >> 16), int(sec & 0xffff)}
}

func TestVerifC12Token(t *testing.T) {
	outPath := os.Getenv("VERIF_OUT")
	if outPath == "" {
		t.Skip("VERIF_OUT not set")
	}
	thorough := os.Getenv("VERIF_TIER") == "thorough"
	seed, _ := strconv.ParseInt(os.Getenv("VERIF_SEED"), 10, 64)
	rng := rand.New(rand.NewSource(seed*7919 + 12))
	selftest := os.Getenv("VERIF_C12_SELFTEST")

	// the classes the specification wants concretised
	classes := map[string]bool{}
	if in := os.Getenv("VERIF_IN"); in != "" {
		fh, err := os.Open(in)
		if err != nil {
			t.Fatal(err)
		}
		sc := bufio.NewScanner(fh)
		for sc.Scan() {
			var c struct {
				Cls string `json:"cls"`
			}
			if err := json.Unmarshal(sc.Bytes(), &c); err != nil {
				t.Fatal(err)
			}
			classes[c.Cls] = true
		}
		fh.Close()
	} else {
		t.Fatal("VERIF_IN (token classes emitted by TLC) not set")
	}
	known := map[string]bool{"none": true, "field-bit": true, "signature-bit": true, "multi-bit": true, "truncated": true,
		"extended": true, "spliced": true, "foreign-key": true, "wrong-serial": true, "expired": true,
		"level-above-root": true, "random": true}
	for c := range classes {
		if !known[c] {
			t.Fatalf("the specification names a token class this recorder cannot concretise: %q", c)
		}
	}

	fh, err := os.Create(outPath)
	if err != nil {
		t.Fatal(err)
	}
	defer fh.Close()
	w := bufio.NewWriterSize(fh, 1<<20)
	defer w.Flush()
	enc := json.NewEncoder(w)

	keys := map[string][]byte{}
	mkKey := func(id string, n int) {
		k := make([]byte, n)
		rng.Read(k)
		keys[id] = k
	}
	mkKey("k1", 32)
	mkKey("k2", 32)
	mkKey("k3", 80) // longer than the HMAC block
	// k1 with one bit flipped, and k1 with one more (non-zero) byte.  NOT k1 + 0x00: HMAC pads short keys with
	// zeros, so that is the same HMAC key (a property of the trusted primitive, see the assumptions of the check).
	keys["k1f"] = append([]byte{}, keys["k1"]...)
	keys["k1f"][31] ^= 0x01
	keys["k1x"] = append(append([]byte{}, keys["k1"]...), 0x01)

	// nil: the real Init refuses this configuration (then there is no such server and nothing to present)
	tryHandler := func(key string, serial int, expireIn int) *verifC12Handler {
		a := &authenticator{}
		conf := fmt.Sprintf(`{"key":%q,"serial_num":%d,"expire_in":%d}`, base64.StdEncoding.EncodeToString(keys[key]), serial, expireIn)
		if err := a.Init(json.RawMessage(conf), "token"); err != nil {
			return nil
		}
		return &verifC12Handler{a: a, key: key, serial: serial}
	}
	newHandler := func(key string, serial int, expireIn int) *verifC12Handler {
		h := tryHandler(key, serial, expireIn)
		if h == nil {
			t.Fatalf("Init refused key %s serial %d", key, serial)
		}
		return h
	}

	issue := func(h *verifC12Handler, uid uint64, lvl, feat int, life time.Duration) *verifC12Issued {
		tok, _, err := h.a.GenSecret(&auth.Rec{Uid: types.Uid(uid), AuthLevel: auth.Level(lvl), Features: auth.Feature(feat), Lifetime: auth.Duration(life)})
		if err != nil {
			t.Fatalf("GenSecret: %v", err)
		}
		return &verifC12Issued{tok: tok, key: h.key, serial: h.serial, uid: uid, lvl: lvl, feat: feat}
	}
	// the same construction as GenSecret, with fields GenSecret cannot be asked for (expiry in the past)
	craft := func(key string, serial int, uid uint64, lvl, feat int, expires int64) *verifC12Issued {
		tl := tokenLayout{Uid: uid, Expires: uint32(expires), AuthLevel: uint16(lvl), SerialNumber: uint16(serial), Features: uint16(feat)}
		buf := new(bytes.Buffer)
		binary.Write(buf, binary.LittleEndian, &tl)
		hasher := hmac.New(sha256.New, keys[key])
		hasher.Write(buf.Bytes())
		buf.Write(hasher.Sum(nil))
		return &verifC12Issued{tok: buf.Bytes(), key: key, serial: serial, uid: uid, lvl: lvl, feat: feat, crafted: true}
	}

	nrec, refusedConfigs := 0, 0
	perClass := map[string]int{}
	present := func(cur *verifC12Handler, cls string, pos int, tok []byte, ref *verifC12Issued) {
		if !classes[cls] {
			return
		}
		before := time.Now()
		rec, challenge, err := cur.a.Authenticate(tok, "127.0.0.1")
		after := time.Now()
		out := map[string]any{"op": "token", "cls": cls, "pos": pos, "tok": verifC12Ints(tok),
			"curKey": cur.key, "curSerial": cur.serial,
			"nowLo": verifC12Limbs(before.Unix()), "nowHi": verifC12Limbs(after.Unix() + 1),
			"ok": err == nil && rec != nil, "err": verifC12Err(err), "challenge": challenge != nil,
			"ruid": "", "rlvl": -1, "rfeat": -1, "rexp": []int{0, 0}}
		if ref != nil {
			out["ref"] = verifC12Ints(ref.tok)
			out["refKey"], out["refSerial"], out["crafted"] = ref.key, ref.serial, ref.crafted
			out["iuid"], out["ilvl"], out["ifeat"] = strconv.FormatUint(ref.uid, 10), ref.lvl, ref.feat
		} else {
			out["ref"], out["refKey"], out["refSerial"], out["crafted"] = []int{}, "", 0, false
			out["iuid"], out["ilvl"], out["ifeat"] = "", -1, -1
		}
		if err == nil && rec != nil {
			out["ruid"] = strconv.FormatUint(uint64(rec.Uid), 10)
			out["rlvl"], out["rfeat"] = int(rec.AuthLevel), int(rec.Features)
			// absolute expiry the returned lifetime stands for (whole seconds in the token)
			exp := after.Add(time.Duration(rec.Lifetime))
			out["rexp"] = verifC12Limbs(exp.Round(time.Second).Unix())
		}
		nrec++
		perClass[cls]++
		if selftest == "token" && cls == "field-bit" && pos == 77 && ref != nil {
			// self-test of the binding: pretend the real code accepted a token with a flipped data bit
			out["ok"], out["err"] = true, ""
			out["ruid"], out["rlvl"], out["rfeat"] = out["iuid"], ref.lvl, ref.feat
		}
		if selftest == "tokendiv" && cls == "truncated" && pos == 10 {
			out["err"] = "failed"
		}
		if err := enc.Encode(out); err != nil {
			t.Fatal(err)
		}
	}

	flip := func(tok []byte, bit int) []byte {
		m := append([]byte{}, tok...)
		m[bit/8] ^= 1 << uint(bit%8)
		return m
	}

	type cfgT struct {
		key    string
		serial int
	}
	configs := []cfgT{{"k1", 1}}
	if thorough {
		configs = append(configs, cfgT{"k3", 65535}, cfgT{"k2", 0})
	}
	uids := []uint64{1, 0x0102030405060708, ^uint64(0), 0, uint64(rng.Int63()), 1 << 63, 255, 256}
	lvls := []int{20, 10, 30, 0, 20, 15}
	feats := []int{0, 2, 1, 3, 0xffff, 0x8000}
	lives := []time.Duration{0, time.Hour, 24 * 365 * 10 * time.Hour, 3 * time.Second, 14 * 24 * time.Hour, 40 * time.Second}
	ntok := 6
	nmulti := 60
	nrandom := 300
	if thorough {
		ntok, nmulti, nrandom = 14, 150, 3000
	}

	var shortLived []*verifC12Issued // authenticated once more after their lifetime has passed
	var shortCur []*verifC12Handler

	for ci, c := range configs {
		cur := newHandler(c.key, c.serial, 1209600)
		var issued []*verifC12Issued
		for i := 0; i < ntok; i++ {
			k := i + ci*ntok
			issued = append(issued, issue(cur, uids[k%len(uids)], lvls[k%len(lvls)], feats[(k/2)%len(feats)], lives[k%len(lives)]))
		}
		for i, it := range issued {
			present(cur, "none", 0, it.tok, it)
			for bit := 0; bit < len(it.tok)*8; bit++ {
				cls := "field-bit"
				if bit >= 18*8 {
					cls = "signature-bit"
				}
				present(cur, cls, bit, flip(it.tok, bit), it)
			}
			for n := 0; n < len(it.tok); n++ {
				present(cur, "truncated", n, it.tok[:n], it)
			}
			// extensions: the issued bytes plus a suffix
			other := issued[(i+1)%len(issued)]
			junk := make([]byte, 1+rng.Intn(64))
			rng.Read(junk)
			for j, suffix := range [][]byte{{0}, {0xff}, junk, other.tok, it.tok} {
				present(cur, "extended", j, append(append([]byte{}, it.tok...), suffix...), it)
			}
			// several bits at once, anywhere
			for j := 0; j < nmulti; j++ {
				m := append([]byte{}, it.tok...)
				nb := 2 + rng.Intn(7)
				for b := 0; b < nb; b++ {
					bit := rng.Intn(len(m) * 8)
					m[bit/8] ^= 1 << uint(bit%8)
				}
				if bytes.Equal(m, it.tok) {
					continue
				}
				present(cur, "multi-bit", j, m, it)
			}
			// data of one issued token, signature of another (both ways), each 2-byte field swapped in from another
			if !bytes.Equal(other.tok[:18], it.tok[:18]) {
				present(cur, "spliced", 0, append(append([]byte{}, it.tok[:18]...), other.tok[18:]...), it)
				present(cur, "spliced", 1, append(append([]byte{}, other.tok[:18]...), it.tok[18:]...), it)
				for _, f := range [][2]int{{0, 8}, {8, 12}, {12, 14}, {14, 16}, {16, 18}} {
					m := append([]byte{}, it.tok...)
					copy(m[f[0]:f[1]], other.tok[f[0]:f[1]])
					if !bytes.Equal(m, it.tok) {
						present(cur, "spliced", 2+f[0], m, it)
					}
				}
			}
			// the same record issued by a server holding another key (same serial), and the same data re-signed
			for _, fk := range []string{"k1", "k2", "k3", "k1f", "k1x"} {
				if fk == c.key {
					continue
				}
				foreign := newHandler(fk, c.serial, 1209600)
				ft := issue(foreign, it.uid, it.lvl, it.feat, time.Hour)
				present(cur, "foreign-key", 0, ft.tok, ft)
				tl := tokenLayout{}
				binary.Read(bytes.NewReader(it.tok), binary.LittleEndian, &tl)
				rs := craft(fk, c.serial, tl.Uid, int(tl.AuthLevel), int(tl.Features), int64(tl.Expires))
				present(cur, "foreign-key", 1, rs.tok, rs)
			}
			// issued under the same key and another serial number
			for _, s := range []int{c.serial + 1, c.serial - 1, c.serial + 65536, c.serial - 65536, c.serial + 256, (c.serial + 32768) % 65536} {
				if s == c.serial {
					continue
				}
				oh := tryHandler(c.key, s, 1209600)
				if oh == nil {
					refusedConfigs++
					continue
				}
				wt := issue(oh, it.uid, it.lvl, it.feat, time.Hour)
				present(cur, "wrong-serial", s, wt.tok, wt)
			}
			// correctly signed, expiry not in the future / barely in the future
			now := time.Now().Unix()
			for _, d := range []int64{-86400 * 365, -3600, -2, -1, 0, 1, 2, 3, 60} {
				ct := craft(c.key, c.serial, it.uid, it.lvl, it.feat, now+d)
				cls := "expired"
				if d > 0 {
					cls = "none"
				}
				present(cur, cls, int(d), ct.tok, ct)
			}
			for _, e := range []int64{0, 1, 0x7fffffff} {
				if e < now {
					ct := craft(c.key, c.serial, it.uid, it.lvl, it.feat, e)
					present(cur, "expired", int(e&0xffff), ct.tok, ct)
				}
			}
			// a lifetime that does not fit the 32-bit expiry field (wraps around)
			wr := issue(cur, it.uid, it.lvl, it.feat, 24*365*100*time.Hour)
			present(cur, "expired", -1, wr.tok, wr)
			// correctly signed, level above root: asked of GenSecret itself
			for _, lv := range []int{31, 40, 255, 256, 65535} {
				lt := issue(cur, it.uid, lv, it.feat, time.Hour)
				present(cur, "level-above-root", lv, lt.tok, lt)
			}
			// short-lived real tokens, presented again after they have expired
			if i < 3 {
				for _, life := range []time.Duration{1500 * time.Millisecond, 2500 * time.Millisecond} {
					st := issue(cur, it.uid, it.lvl, it.feat, life)
					present(cur, "none", int(life/time.Millisecond), st.tok, st)
					shortLived = append(shortLived, st)
					shortCur = append(shortCur, cur)
				}
			}
		}
		// arbitrary byte strings
		for j := 0; j < nrandom; j++ {
			n := 50
			if j%5 == 4 {
				n = rng.Intn(120)
			}
			b := make([]byte, n)
			rng.Read(b)
			if j%7 == 6 && n >= 50 {
				// plausible fields, random signature
				copy(b, issued[j%len(issued)].tok[:18])
			}
			present(cur, "random", j, b, nil)
		}
	}

	// wait until every short-lived token is past its expiry, then present them again
	time.Sleep(3600 * time.Millisecond)
	for i, st := range shortLived {
		present(shortCur[i], "expired", -2, st.tok, st)
	}

	w.Flush()
	for c := range classes {
		if perClass[c] == 0 {
			t.Fatalf("token class %q of the specification was not exercised", c)
		}
	}
	t.Logf("C12 token: %d records %v; %d other-serial configurations refused by Init", nrec, perClass, refusedConfigs)
}
