package memadp

import (
	"sort"
	"time"

	t "github.com/tinode/chat/server/store/types"
)

// Snapshot is a deep copy of all tables in a JSON-marshalable form. All slices are sorted deterministically.
// User ids are given both as the numeric types.Uid value and as the 'usrXXX' string
// (empty string for the zero uid).
type Snapshot struct {
	Users     []UserSnap
	Topics    []TopicSnap
	Subs      []SubSnap
	Messages  []MessageSnap
	DelLog    []DelLogSnap
	Creds     []CredSnap
	Auth      []AuthSnap
	Devices   []DeviceSnap
	Files     []FileSnap
	FileLinks []FileLinkSnap
	PCache    []PCacheSnap
}

// UserSnap is a row of 'users' with the user's rows of 'usertags'. Sorted by Uid.
type UserSnap struct {
	Uid        uint64
	UserId     string
	CreatedAt  time.Time
	UpdatedAt  time.Time
	State      string
	StateAt    *time.Time
	AccessAuth string
	AccessAnon string
	LastSeen   *time.Time
	UserAgent  string
	Public     any
	Trusted    any
	// The 'tags' column.
	Tags []string
	// The 'usertags' index, sorted.
	TagIndex []string
}

// TopicSnap is a row of 'topics' with the topic's rows of 'topictags'. Sorted by Name.
type TopicSnap struct {
	Name       string
	CreatedAt  time.Time
	UpdatedAt  time.Time
	State      string
	StateAt    *time.Time
	TouchedAt  time.Time
	UseBt      bool
	Owner      uint64
	OwnerId    string
	AccessAuth string
	AccessAnon string
	SeqId      int
	DelId      int
	Public     any
	Trusted    any
	// The 'tags' column.
	Tags []string
	// The 'topictags' index, sorted.
	TagIndex []string
}

// SubSnap is a row of 'subscriptions'. Sorted by Topic, then by User.
type SubSnap struct {
	RowId     int
	Topic     string
	User      uint64
	UserId    string
	CreatedAt time.Time
	UpdatedAt time.Time
	DeletedAt *time.Time
	DelId     int
	RecvSeqId int
	ReadSeqId int
	ModeWant  string
	ModeGiven string
	Private   any
}

// MessageSnap is a row of 'messages'. Sorted by Topic, then by SeqId.
type MessageSnap struct {
	RowId     int64
	Topic     string
	SeqId     int
	CreatedAt time.Time
	UpdatedAt time.Time
	DeletedAt *time.Time
	DelId     int
	From      uint64
	FromId    string
	Head      map[string]any
	Content   any
}

// DelLogSnap is a row of 'dellog'. Sorted by Topic, DelId, RowId.
type DelLogSnap struct {
	RowId int
	Topic string
	// Zero for hard-deleted messages.
	DeletedFor   uint64
	DeletedForId string
	DelId        int
	// The range is [Low, Hi), Hi is always greater than Low.
	Low int
	Hi  int
}

// CredSnap is a row of 'credentials'. Sorted by User, Method, Value, RowId.
type CredSnap struct {
	RowId     int
	User      uint64
	UserId    string
	CreatedAt time.Time
	UpdatedAt time.Time
	DeletedAt *time.Time
	Method    string
	Value     string
	Synthetic string
	Resp      string
	Done      bool
	Retries   int
}

// AuthSnap is a row of 'auth'. Sorted by User, then by Scheme.
type AuthSnap struct {
	RowId   int
	Uname   string
	User    uint64
	UserId  string
	Scheme  string
	AuthLvl int
	Secret  []byte
	Expires *time.Time
}

// DeviceSnap is a row of 'devices'. Sorted by User, then by DeviceId.
type DeviceSnap struct {
	RowId    int
	User     uint64
	UserId   string
	DeviceId string
	Platform string
	LastSeen time.Time
	Lang     string
}

// FileSnap is a row of 'fileuploads'. Sorted by Id.
type FileSnap struct {
	Id        uint64
	Fid       string
	CreatedAt time.Time
	UpdatedAt time.Time
	User      uint64
	UserId    string
	Status    int
	MimeType  string
	Size      int64
	Location  string
}

// FileLinkSnap is a row of 'filemsglinks'. Sorted by RowId.
type FileLinkSnap struct {
	RowId     int
	CreatedAt time.Time
	File      uint64
	Fid       string
	// Exactly one of MsgId (MessageSnap.RowId), Topic, User is set.
	MsgId  int64
	Topic  string
	User   uint64
	UserId string
}

// PCacheSnap is a row of 'kvmeta'. Sorted by Key.
type PCacheSnap struct {
	Key       string
	CreatedAt time.Time
	Value     string
}

func copyStrings(src []string) []string {
	if src == nil {
		return nil
	}
	return append([]string{}, src...)
}

// Dump returns a deep copy of all data.
func (a *Adapter) Dump() *Snapshot {
	a.mu.Lock()
	defer a.mu.Unlock()
	return a.DumpNoLock()
}

// DumpNoLock is the same as Dump but it does not take the adapter lock.
// It's meant to be called from inside the Hook only.
func (a *Adapter) DumpNoLock() *Snapshot {
	snap := &Snapshot{
		Users:     []UserSnap{},
		Topics:    []TopicSnap{},
		Subs:      []SubSnap{},
		Messages:  []MessageSnap{},
		DelLog:    []DelLogSnap{},
		Creds:     []CredSnap{},
		Auth:      []AuthSnap{},
		Devices:   []DeviceSnap{},
		Files:     []FileSnap{},
		FileLinks: []FileLinkSnap{},
		PCache:    []PCacheSnap{},
	}

	for _, u := range a.users {
		snap.Users = append(snap.Users, UserSnap{
			Uid:        uint64(u.id),
			UserId:     u.id.UserId(),
			CreatedAt:  u.createdAt,
			UpdatedAt:  u.updatedAt,
			State:      u.state.String(),
			StateAt:    copyTimePtr(u.stateAt),
			AccessAuth: u.access.Auth.String(),
			AccessAnon: u.access.Anon.String(),
			LastSeen:   copyTimePtr(u.lastSeen),
			UserAgent:  u.userAgent,
			Public:     fromJSON(u.public),
			Trusted:    fromJSON(u.trusted),
			Tags:       copyStrings(u.tags),
			TagIndex:   sortedTags(u.tagIdx),
		})
	}
	sort.Slice(snap.Users, func(i, j int) bool { return snap.Users[i].Uid < snap.Users[j].Uid })

	for _, r := range a.topics {
		snap.Topics = append(snap.Topics, TopicSnap{
			Name:       r.name,
			CreatedAt:  r.createdAt,
			UpdatedAt:  r.updatedAt,
			State:      r.state.String(),
			StateAt:    copyTimePtr(r.stateAt),
			TouchedAt:  r.touchedAt,
			UseBt:      r.useBt,
			Owner:      uint64(r.owner),
			OwnerId:    r.owner.UserId(),
			AccessAuth: r.access.Auth.String(),
			AccessAnon: r.access.Anon.String(),
			SeqId:      r.seqId,
			DelId:      r.delId,
			Public:     fromJSON(r.public),
			Trusted:    fromJSON(r.trusted),
			Tags:       copyStrings(r.tags),
			TagIndex:   sortedTags(r.tagIdx),
		})
	}
	sort.Slice(snap.Topics, func(i, j int) bool { return snap.Topics[i].Name < snap.Topics[j].Name })

	for _, s := range a.subsSelect(func(*subRow) bool { return true }) {
		snap.Subs = append(snap.Subs, SubSnap{
			RowId:     s.id,
			Topic:     s.topic,
			User:      uint64(s.user),
			UserId:    s.user.UserId(),
			CreatedAt: s.createdAt,
			UpdatedAt: s.updatedAt,
			DeletedAt: copyTimePtr(s.deletedAt),
			DelId:     s.delId,
			RecvSeqId: s.recvSeqId,
			ReadSeqId: s.readSeqId,
			ModeWant:  s.modeWant.String(),
			ModeGiven: s.modeGiven.String(),
			Private:   fromJSON(s.private),
		})
	}

	for _, m := range a.messages {
		var head map[string]any
		if h, ok := fromJSON(m.head).(map[string]any); ok {
			head = h
		}
		snap.Messages = append(snap.Messages, MessageSnap{
			RowId:     m.id,
			Topic:     m.topic,
			SeqId:     m.seqId,
			CreatedAt: m.createdAt,
			UpdatedAt: m.updatedAt,
			DeletedAt: copyTimePtr(m.deletedAt),
			DelId:     m.delId,
			From:      uint64(m.from),
			FromId:    m.from.UserId(),
			Head:      head,
			Content:   fromJSON(m.content),
		})
	}
	sort.SliceStable(snap.Messages, func(i, j int) bool {
		if snap.Messages[i].Topic != snap.Messages[j].Topic {
			return snap.Messages[i].Topic < snap.Messages[j].Topic
		}
		return snap.Messages[i].SeqId < snap.Messages[j].SeqId
	})

	for _, d := range a.dellog {
		snap.DelLog = append(snap.DelLog, DelLogSnap{
			RowId:        d.id,
			Topic:        d.topic,
			DeletedFor:   uint64(d.deletedFor),
			DeletedForId: d.deletedFor.UserId(),
			DelId:        d.delId,
			Low:          d.low,
			Hi:           d.hi,
		})
	}
	sort.SliceStable(snap.DelLog, func(i, j int) bool {
		if snap.DelLog[i].Topic != snap.DelLog[j].Topic {
			return snap.DelLog[i].Topic < snap.DelLog[j].Topic
		}
		return snap.DelLog[i].DelId < snap.DelLog[j].DelId
	})

	for _, c := range a.creds {
		snap.Creds = append(snap.Creds, CredSnap{
			RowId:     c.id,
			User:      uint64(c.user),
			UserId:    c.user.UserId(),
			CreatedAt: c.createdAt,
			UpdatedAt: c.updatedAt,
			DeletedAt: copyTimePtr(c.deletedAt),
			Method:    c.method,
			Value:     c.value,
			Synthetic: c.synthetic,
			Resp:      c.resp,
			Done:      c.done,
			Retries:   c.retries,
		})
	}
	sort.SliceStable(snap.Creds, func(i, j int) bool {
		ci, cj := &snap.Creds[i], &snap.Creds[j]
		if ci.User != cj.User {
			return ci.User < cj.User
		}
		if ci.Method != cj.Method {
			return ci.Method < cj.Method
		}
		return ci.Value < cj.Value
	})

	for _, r := range a.auth {
		snap.Auth = append(snap.Auth, AuthSnap{
			RowId:   r.id,
			Uname:   r.uname,
			User:    uint64(r.user),
			UserId:  r.user.UserId(),
			Scheme:  r.scheme,
			AuthLvl: int(r.authLvl),
			Secret:  copyBytes(r.secret),
			Expires: copyTimePtr(r.expires),
		})
	}
	sort.SliceStable(snap.Auth, func(i, j int) bool {
		if snap.Auth[i].User != snap.Auth[j].User {
			return snap.Auth[i].User < snap.Auth[j].User
		}
		return snap.Auth[i].Scheme < snap.Auth[j].Scheme
	})

	for _, d := range a.devices {
		snap.Devices = append(snap.Devices, DeviceSnap{
			RowId:    d.id,
			User:     uint64(d.user),
			UserId:   d.user.UserId(),
			DeviceId: d.deviceId,
			Platform: d.platform,
			LastSeen: d.lastSeen,
			Lang:     d.lang,
		})
	}
	sort.SliceStable(snap.Devices, func(i, j int) bool {
		if snap.Devices[i].User != snap.Devices[j].User {
			return snap.Devices[i].User < snap.Devices[j].User
		}
		return snap.Devices[i].DeviceId < snap.Devices[j].DeviceId
	})

	for _, f := range a.files {
		snap.Files = append(snap.Files, FileSnap{
			Id:        uint64(f.id),
			Fid:       f.id.String(),
			CreatedAt: f.createdAt,
			UpdatedAt: f.updatedAt,
			User:      uint64(f.user),
			UserId:    f.user.UserId(),
			Status:    f.status,
			MimeType:  f.mimeType,
			Size:      f.size,
			Location:  f.location,
		})
	}
	sort.Slice(snap.Files, func(i, j int) bool { return snap.Files[i].Id < snap.Files[j].Id })

	for _, l := range a.links {
		snap.FileLinks = append(snap.FileLinks, FileLinkSnap{
			RowId:     l.id,
			CreatedAt: l.createdAt,
			File:      uint64(l.file),
			Fid:       l.file.String(),
			MsgId:     l.msgId,
			Topic:     l.topic,
			User:      uint64(l.user),
			UserId:    l.user.UserId(),
		})
	}

	for _, p := range a.pcache {
		snap.PCache = append(snap.PCache, PCacheSnap{Key: p.key, CreatedAt: p.createdAt, Value: p.value})
	}
	sort.Slice(snap.PCache, func(i, j int) bool { return snap.PCache[i].Key < snap.PCache[j].Key })

	return snap
}

// Compile-time check that uids convert to uint64 losslessly.
var _ = uint64(t.ZeroUid)
