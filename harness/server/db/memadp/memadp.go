// Package memadp is a deterministic in-memory implementation of the tinode database adapter.
//
// It is a reference store for the model-based verification harness: the real server code
// (hub, topics, sessions, store mapper) runs on top of it. The observable behaviour mirrors
// server/db/mysql/adapter.go (schema version 113) running against a real MySQL, statement by
// statement, including transaction rollback on error, unique and foreign key constraints,
// JSON round-tripping of Public/Trusted/Private/Content/Head and DATETIME precision.
//
// All state lives in plain maps and slices guarded by a single mutex which every method holds
// for its whole duration, i.e. every adapter call is atomic.
package memadp

import (
	"encoding/json"
	"errors"
	"runtime"
	"strings"
	"sync"
	"time"

	adapter "github.com/tinode/chat/server/db"
	"github.com/tinode/chat/server/store"
	t "github.com/tinode/chat/server/store/types"
)

const (
	// Same DB schema version as the mysql adapter.
	adpVersion = 113

	adapterName = "memadp"

	defaultMaxResults = 1024
	// This is capped by the Session's send queue limit (128).
	defaultMaxMessageResults = 100
)

// Hook is the fault-injection / observation seam. When non-nil it is called by every data method
// (UserCreate and everything below it in the adapter interface) as the very first action after
// the adapter lock has been taken, with the exact interface method name and the call arguments
// (variadic arguments are passed as one slice). If it returns a non-nil error, the method returns
// that error (with zero values) without touching the data. The hook may panic (simulated crash):
// the lock is released by a deferred unlock and the adapter stays usable.
//
// The hook runs with the adapter lock held: it must not call adapter methods (Dump included).
// Use (*Adapter).DumpNoLock from inside the hook if a snapshot is needed.
var Hook func(method string, args ...any) error

// CreateSysTopic controls if Reset/CreateDb insert the 'sys' topic like mysql's CreateDb does.
var CreateSysTopic = true

var (
	// ErrDupKey is returned where mysql would return a raw driver error 1062 (duplicate entry for a unique key),
	// i.e. where the mysql adapter does not convert the error to types.ErrDuplicate.
	ErrDupKey = errors.New("memadp: Error 1062: duplicate entry for unique key")
	// ErrForeignKey is returned where mysql would fail with error 1452 (foreign key constraint fails).
	ErrForeignKey = errors.New("memadp: Error 1452: cannot add or update a child row: a foreign key constraint fails")
	// ErrEmptyIn is returned where sqlx.In would fail on an empty list and the mysql adapter would
	// then send an empty query to the database.
	ErrEmptyIn = errors.New("memadp: empty slice passed to 'in' query")
	// ErrBadUpdate is the base error for an update map with an unknown key or a value of a wrong type.
	ErrBadUpdate = errors.New("memadp: invalid update")
)

// Adapter is the in-memory adapter.
type Adapter struct {
	mu hookMutex

	open bool
	// Maximum number of records to return
	maxResults int
	// Maximum number of message records to return
	maxMessageResults int

	tables
}

// All tables of the database.
type tables struct {
	users    map[t.Uid]*userRow
	topics   map[string]*topicRow
	subs     map[subKey]*subRow
	messages []*msgRow // ordered by row id
	dellog   []*dellogRow
	creds    []*credRow
	auth     []*authRow
	devices  []*deviceRow
	files    map[t.Uid]*fileRow
	links    []*linkRow
	pcache   map[string]*pcacheRow

	// AUTO_INCREMENT counters.
	nextSubId, nextDellogId, nextCredId, nextAuthId, nextDeviceId, nextLinkId int
	nextMsgId                                                                 int64
}

var singleton = newAdapter()

var _ adapter.Adapter = (*Adapter)(nil)

func newAdapter() *Adapter {
	a := &Adapter{maxResults: defaultMaxResults, maxMessageResults: defaultMaxMessageResults}
	a.reset()
	return a
}

// Get returns the registered adapter singleton.
func Get() *Adapter {
	return singleton
}

// Reset wipes all data (and re-creates the 'sys' topic unless CreateSysTopic is false).
func (a *Adapter) Reset() {
	a.mu.Lock()
	defer a.mu.Unlock()
	a.reset()
}

func (a *Adapter) reset() {
	a.tables = tables{
		users:  make(map[t.Uid]*userRow),
		topics: make(map[string]*topicRow),
		subs:   make(map[subKey]*subRow),
		files:  make(map[t.Uid]*fileRow),
		pcache: make(map[string]*pcacheRow),
	}
	if CreateSysTopic {
		a.createSystemTopic()
	}
}

func (a *Adapter) createSystemTopic() {
	if _, ok := a.topics["sys"]; ok {
		return
	}
	now := t.TimeNow()
	a.topics["sys"] = &topicRow{
		name:      "sys",
		createdAt: now,
		updatedAt: now,
		state:     t.StateOK,
		touchedAt: now,
		access:    t.DefaultAccess{Auth: t.ModeNone, Anon: t.ModeNone},
		public:    []byte(`{"fn": "System"}`),
		tagIdx:    map[string]struct{}{},
	}
}

// PreHook, when set, is called with the adapter method's name BEFORE the adapter lock is taken: a harness can run
// another request to completion at this store-call boundary (an interleaving gate). It must not be re-entered.
var PreHook func(method string)

// hookMutex is the adapter lock; taking it reports the calling adapter method to PreHook first.
type hookMutex struct{ sync.Mutex }

func (m *hookMutex) Lock() {
	if h := PreHook; h != nil {
		if pc, _, _, ok := runtime.Caller(1); ok {
			name := runtime.FuncForPC(pc).Name()
			if i := strings.LastIndex(name, "."); i >= 0 {
				name = name[i+1:]
			}
			h(name)
		}
	}
	m.Mutex.Lock()
}

func (a *Adapter) hook(method string, args ...any) error {
	if h := Hook; h != nil {
		return h(method, args...)
	}
	return nil
}

func (a *Adapter) maxRes() int {
	if a.maxResults <= 0 {
		return defaultMaxResults
	}
	return a.maxResults
}

func (a *Adapter) maxMsgRes() int {
	if a.maxMessageResults <= 0 {
		return defaultMaxMessageResults
	}
	return a.maxMessageResults
}

// General

// Open accepts and ignores any config. The data survives Close/Open (like a database survives a server restart).
func (a *Adapter) Open(jsonconfig json.RawMessage) error {
	a.mu.Lock()
	defer a.mu.Unlock()

	if a.open {
		return errors.New("memadp adapter is already connected")
	}
	if a.maxResults <= 0 {
		a.maxResults = defaultMaxResults
	}
	if a.maxMessageResults <= 0 {
		a.maxMessageResults = defaultMaxMessageResults
	}
	a.open = true
	return nil
}

// Close marks the adapter as closed. Data is retained.
func (a *Adapter) Close() error {
	a.mu.Lock()
	defer a.mu.Unlock()
	a.open = false
	return nil
}

// IsOpen returns true if the adapter has been opened.
func (a *Adapter) IsOpen() bool {
	a.mu.Lock()
	defer a.mu.Unlock()
	return a.open
}

// GetDbVersion returns current database version.
func (a *Adapter) GetDbVersion() (int, error) {
	return adpVersion, nil
}

// CheckDbVersion checks whether the actual DB version matches the expected version of this adapter.
func (a *Adapter) CheckDbVersion() error {
	return nil
}

// Version returns adapter version.
func (a *Adapter) Version() int {
	return adpVersion
}

// Stats returns nil: there is no DB connection.
func (a *Adapter) Stats() any {
	return nil
}

// GetName returns string that adapter uses to register itself with store.
func (a *Adapter) GetName() string {
	return adapterName
}

// SetMaxResults configures how many results can be returned in a single DB call.
func (a *Adapter) SetMaxResults(val int) error {
	a.mu.Lock()
	defer a.mu.Unlock()
	if val <= 0 {
		a.maxResults = defaultMaxResults
	} else {
		a.maxResults = val
	}
	return nil
}

// CreateDb initializes the storage. If reset is true all data is dropped first.
func (a *Adapter) CreateDb(reset bool) error {
	a.mu.Lock()
	defer a.mu.Unlock()
	if reset {
		a.reset()
	} else if CreateSysTopic {
		a.createSystemTopic()
	}
	return nil
}

// UpgradeDb is a no-op.
func (a *Adapter) UpgradeDb() error {
	return nil
}

// Helpers

// DATETIME(3) column.
func ms(tm time.Time) time.Time {
	if tm.IsZero() {
		return time.Time{}
	}
	return tm.UTC().Round(time.Millisecond)
}

// Nullable DATETIME(3) column.
func msPtr(tm *time.Time) *time.Time {
	if tm == nil {
		return nil
	}
	v := ms(*tm)
	return &v
}

// DATETIME column (MySQL rounds fractional seconds).
func sec(tm time.Time) time.Time {
	if tm.IsZero() {
		return time.Time{}
	}
	return tm.UTC().Round(time.Second)
}

func copyTimePtr(tm *time.Time) *time.Time {
	if tm == nil {
		return nil
	}
	v := *tm
	return &v
}

func copyBytes(b []byte) []byte {
	if b == nil {
		return nil
	}
	return append([]byte{}, b...)
}

func copyTags(tags t.StringSlice) t.StringSlice {
	if tags == nil {
		return nil
	}
	return append(t.StringSlice{}, tags...)
}

// Access mode as it survives a round trip through a CHAR(8)/JSON column.
func normMode(m t.AccessMode) t.AccessMode {
	return m & t.ModeBitmask
}

func normAccess(da t.DefaultAccess) t.DefaultAccess {
	return t.DefaultAccess{Auth: normMode(da.Auth), Anon: normMode(da.Anon)}
}

// Convert to JSON before storing to JSON field.
func toJSON(src any) []byte {
	if src == nil {
		return nil
	}
	jval, _ := json.Marshal(src)
	return jval
}

// Deserialize JSON data from DB: every call produces a fresh value.
func fromJSON(src []byte) any {
	if src == nil {
		return nil
	}
	var out any
	json.Unmarshal(src, &out)
	return out
}

func hasDups(tags []string) bool {
	seen := make(map[string]struct{}, len(tags))
	for _, tag := range tags {
		if _, ok := seen[tag]; ok {
			return true
		}
		seen[tag] = struct{}{}
	}
	return false
}

func tagSet(tags []string) map[string]struct{} {
	set := make(map[string]struct{}, len(tags))
	for _, tag := range tags {
		set[tag] = struct{}{}
	}
	return set
}

func init() {
	store.RegisterAdapter(singleton)
}
