package memadp

import (
	"encoding/json"
	"errors"
	"os"
	"reflect"
	"testing"
	"time"

	"github.com/tinode/chat/server/auth"
	"github.com/tinode/chat/server/store"
	t "github.com/tinode/chat/server/store/types"
)

const storeConfig = `{"uid_key":"la6YsO+bNX/+XIkOqc5Svw==","max_results":0,"use_adapter":"memadp","adapters":{"memadp":{}}}`

func TestMain(m *testing.M) {
	if err := store.Store.Open(1, json.RawMessage(storeConfig)); err != nil {
		panic(err)
	}
	os.Exit(m.Run())
}

func fresh(tb testing.TB) *Adapter {
	tb.Helper()
	Hook = nil
	a := Get()
	a.Reset()
	return a
}

func must(tb testing.TB, err error) {
	tb.Helper()
	if err != nil {
		tb.Fatalf("unexpected error: %v", err)
	}
}

func mkUser(tb testing.TB, public any, tags ...string) *t.User {
	tb.Helper()
	user := &t.User{Public: public, Tags: tags}
	user.Access = t.DefaultAccess{Auth: t.ModeCAuth, Anon: t.ModeNone}
	u, err := store.Users.Create(user, map[string]any{"note": "private"})
	must(tb, err)
	return u
}

func mkGroup(tb testing.TB, owner t.Uid, tags ...string) string {
	tb.Helper()
	name := "grp" + store.Store.GetUidString()
	topic := &t.Topic{ObjHeader: t.ObjHeader{Id: name}, Public: map[string]any{"fn": name}, Tags: tags}
	topic.Access = t.DefaultAccess{Auth: t.ModeCPublic, Anon: t.ModeCReadOnly}
	topic.GiveAccess(owner, t.ModeCFull, t.ModeCFull)
	must(tb, store.Topics.Create(topic, owner, "owner-private"))
	return name
}

func mkP2P(tb testing.TB, u1, u2 t.Uid) string {
	tb.Helper()
	name := u1.P2PName(u2)
	must(tb, store.Topics.CreateP2P(
		&t.Subscription{User: u1.String(), Topic: name, ModeWant: t.ModeCP2P, ModeGiven: t.ModeCP2P, Private: "one"},
		&t.Subscription{User: u2.String(), Topic: name, ModeWant: t.ModeCP2P, ModeGiven: t.ModeCP2P, Private: "two"}))
	return name
}

func saveMsg(tb testing.TB, topic string, from t.Uid, seq int) *t.Message {
	tb.Helper()
	msg := &t.Message{SeqId: seq, Topic: topic, From: from.String(),
		Head: t.MessageHeaders{"mime": "text/plain"}, Content: map[string]any{"txt": "hello", "n": seq}}
	err, _ := store.Messages.Save(msg, nil, true)
	must(tb, err)
	return msg
}

func seqIds(msgs []t.Message) []int {
	ids := []int{}
	for _, m := range msgs {
		ids = append(ids, m.SeqId)
	}
	return ids
}

func TestGeneral(tt *testing.T) {
	a := fresh(tt)
	if a.GetName() != "memadp" || a.Version() != 113 || !a.IsOpen() || a.Stats() != nil {
		tt.Fatal("general info is wrong")
	}
	if v, err := a.GetDbVersion(); v != 113 || err != nil {
		tt.Fatal(v, err)
	}
	must(tt, a.CheckDbVersion())
	must(tt, a.UpgradeDb())
	if store.Store.GetAdapterName() != "memadp" || store.Store.GetAdapter() != a {
		tt.Fatal("adapter is not registered")
	}
	if err := a.Open(nil); err == nil {
		tt.Fatal("second Open must fail")
	}
	if a.maxRes() != 1024 {
		tt.Fatal("maxResults", a.maxRes())
	}
	must(tt, a.SetMaxResults(5))
	if a.maxRes() != 5 {
		tt.Fatal("maxResults", a.maxRes())
	}
	must(tt, a.SetMaxResults(0))

	mkUser(tt, "pub")
	must(tt, a.Close())
	if a.IsOpen() {
		tt.Fatal("must be closed")
	}
	must(tt, a.Open(json.RawMessage(`{"anything": 1}`)))
	if len(a.Dump().Users) != 1 {
		tt.Fatal("data must survive Close/Open")
	}
	must(tt, a.CreateDb(true))
	snap := a.Dump()
	if len(snap.Users) != 0 || len(snap.Subs) != 0 || len(snap.Topics) != 1 || snap.Topics[0].Name != "sys" {
		tt.Fatalf("unexpected content after CreateDb: %+v", snap)
	}
	if _, err := json.Marshal(snap); err != nil {
		tt.Fatal(err)
	}
	top, err := store.Topics.Get("sys")
	must(tt, err)
	if top == nil || top.Access.Auth != t.ModeNone || !reflect.DeepEqual(top.Public, map[string]any{"fn": "System"}) {
		tt.Fatalf("sys topic: %+v", top)
	}
}

func TestUsers(tt *testing.T) {
	a := fresh(tt)
	type pub struct {
		Fn string `json:"fn"`
	}
	src := &pub{Fn: "Alice"}
	alice := mkUser(tt, src, "alice", "email:alice@example.com")
	bob := mkUser(tt, nil)

	// No aliasing + JSON round trip.
	src.Fn = "changed"
	got, err := store.Users.Get(alice.Uid())
	must(tt, err)
	if !reflect.DeepEqual(got.Public, map[string]any{"fn": "Alice"}) {
		tt.Fatalf("public: %#v", got.Public)
	}
	if got.Uid() != alice.Uid() || got.Id != alice.Id || got.State != t.StateOK || got.StateAt != nil || got.LastSeen != nil ||
		!got.CreatedAt.Equal(alice.CreatedAt) || got.Access.Auth != t.ModeCAuth {
		tt.Fatalf("user: %+v", got)
	}
	got.Tags[0] = "mutated"
	got.Public.(map[string]any)["fn"] = "mutated"
	got, _ = store.Users.Get(alice.Uid())
	if got.Tags[0] != "alice" || got.Public.(map[string]any)["fn"] != "Alice" {
		tt.Fatal("stored data is aliased")
	}

	// Duplicate.
	if err := a.UserCreate(alice); err != t.ErrDuplicate {
		tt.Fatal(err)
	}
	dup := &t.User{Tags: []string{"x", "x"}}
	dup.SetUid(store.Store.GetUid())
	if err := a.UserCreate(dup); err != t.ErrDuplicate {
		tt.Fatal(err)
	}
	if u, _ := a.UserGet(dup.Uid()); u != nil {
		tt.Fatal("failed create must not leave a record")
	}

	// Missing.
	if u, err := store.Users.Get(store.Store.GetUid()); u != nil || err != nil {
		tt.Fatal(u, err)
	}

	// 'me' and 'fnd' subscriptions.
	subs, err := store.Users.GetSubs(alice.Uid())
	must(tt, err)
	if len(subs) != 2 || subs[0].Topic != alice.Uid().FndName() || subs[1].Topic != alice.Uid().UserId() || subs[0].Private != nil {
		tt.Fatalf("subs: %+v", subs)
	}
	sub, err := store.Subs.Get(alice.Uid().UserId(), alice.Uid(), false)
	must(tt, err)
	if !reflect.DeepEqual(sub.Private, map[string]any{"note": "private"}) || sub.ModeWant != t.ModeCSelf {
		tt.Fatalf("sub: %+v", sub)
	}
	// me & fnd are not reported as topics.
	if subs, err = store.Users.GetTopics(alice.Uid(), nil); err != nil || len(subs) != 0 {
		tt.Fatal(subs, err)
	}

	// GetAll: sorted, missing skipped.
	users, err := store.Users.GetAll(bob.Uid(), alice.Uid(), store.Store.GetUid())
	must(tt, err)
	if len(users) != 2 || users[0].Uid() >= users[1].Uid() {
		tt.Fatalf("users: %+v", users)
	}
	if _, err = store.Users.GetAll(); err == nil {
		tt.Fatal("empty IN list must fail")
	}

	// Update.
	when := time.Date(2024, 1, 2, 3, 4, 5, 600e6, time.UTC)
	must(tt, store.Users.UpdateLastSeen(alice.Uid(), "ua/1.0", when))
	must(tt, store.Users.Update(alice.Uid(), map[string]any{
		"Public":  map[string]any{"fn": "Alice 2"},
		"Trusted": map[string]any{"verified": true},
		"Access":  t.DefaultAccess{Auth: t.ModeCP2P, Anon: t.ModeUnset},
		"Tags":    t.StringSlice{"alice2"},
	}))
	got, _ = store.Users.Get(alice.Uid())
	if got.UserAgent != "ua/1.0" || !got.LastSeen.Equal(when.Round(time.Second)) || got.Access.Auth != t.ModeCP2P ||
		got.Access.Anon != t.ModeNone || !reflect.DeepEqual([]string(got.Tags), []string{"alice2"}) ||
		!reflect.DeepEqual(got.Trusted, map[string]any{"verified": true}) || !got.UpdatedAt.After(alice.UpdatedAt.Add(-time.Second)) {
		tt.Fatalf("updated user: %+v", got)
	}
	if found, _ := a.FindUsers(bob.Uid(), nil, []string{"alice"}, false); len(found) != 0 {
		tt.Fatal("old tag must be gone from the index")
	}
	if found, _ := a.FindUsers(bob.Uid(), nil, []string{"alice2"}, false); len(found) != 1 {
		tt.Fatal("new tag must be indexed")
	}
	if err = a.UserUpdate(alice.Uid(), map[string]any{"NoSuchColumn": 1}); !errors.Is(err, ErrBadUpdate) {
		tt.Fatal(err)
	}
	if err = a.UserUpdate(alice.Uid(), map[string]any{"UserAgent": 1}); !errors.Is(err, ErrBadUpdate) {
		tt.Fatal(err)
	}
	if err = a.UserUpdate(alice.Uid(), map[string]any{"State": 10, "UserAgent": "x"}); err != t.ErrMalformed {
		tt.Fatal(err)
	}
	if got, _ = store.Users.Get(alice.Uid()); got.UserAgent != "ua/1.0" {
		tt.Fatal("failed update must be rolled back")
	}
	if err = a.UserUpdate(alice.Uid(), map[string]any{"Tags": t.StringSlice{"a", "a"}, "UserAgent": "x"}); err != t.ErrDuplicate {
		tt.Fatal(err)
	}

	// Tags.
	tags, err := store.Users.UpdateTags(alice.Uid(), []string{"b", "a", "alice2"}, []string{"zz"}, nil)
	must(tt, err)
	if !reflect.DeepEqual(tags, []string{"a", "alice2", "b"}) {
		tt.Fatal(tags)
	}
	tags, err = store.Users.UpdateTags(alice.Uid(), nil, []string{"a"}, nil)
	must(tt, err)
	if !reflect.DeepEqual(tags, []string{"alice2", "b"}) {
		tt.Fatal(tags)
	}
	if _, err = store.Users.UpdateTags(alice.Uid(), nil, nil, []string{"r", "r"}); err != t.ErrDuplicate {
		tt.Fatal(err)
	}
	tags, err = store.Users.UpdateTags(alice.Uid(), []string{"ignored"}, []string{"r1"}, []string{"r2", "r1"})
	must(tt, err)
	if !reflect.DeepEqual(tags, []string{"r1", "r2"}) {
		tt.Fatal(tags)
	}
	if got, _ = store.Users.Get(alice.Uid()); !reflect.DeepEqual([]string(got.Tags), []string{"r1", "r2"}) {
		tt.Fatal(got.Tags)
	}
	if tags, err = store.Users.UpdateTags(alice.Uid(), nil, nil, []string{}); err != nil || tags != nil {
		tt.Fatal(tags, err)
	}
	if _, err = store.Users.UpdateTags(store.Store.GetUid(), []string{"x"}, nil, nil); err != ErrForeignKey {
		tt.Fatal(err)
	}
}

func TestUserStateAndUnread(tt *testing.T) {
	a := fresh(tt)
	alice, bob, carol := mkUser(tt, "A"), mkUser(tt, "B"), mkUser(tt, "C")
	grp := mkGroup(tt, alice.Uid())
	p2p := mkP2P(tt, alice.Uid(), bob.Uid())
	must(tt, store.Subs.Create(&t.Subscription{User: bob.Uid().String(), Topic: grp, ModeWant: t.ModeCPublic, ModeGiven: t.ModeCPublic}))
	must(tt, store.Subs.Create(&t.Subscription{User: carol.Uid().String(), Topic: grp, ModeWant: t.ModeCPublic, ModeGiven: t.ModeJoin | t.ModeWrite}))

	for i := 1; i <= 5; i++ {
		saveMsg(tt, grp, alice.Uid(), i)
	}
	saveMsg(tt, p2p, alice.Uid(), 1)
	saveMsg(tt, p2p, alice.Uid(), 2)
	must(tt, store.Subs.Update(grp, bob.Uid(), map[string]any{"ReadSeqId": 2, "RecvSeqId": 3}))

	counts, err := store.Users.GetUnreadCount(alice.Uid(), bob.Uid(), carol.Uid())
	must(tt, err)
	// alice has read her own messages; bob: 3 in grp + 2 in p2p; carol has no R permission.
	if counts[alice.Uid()] != 0 || counts[bob.Uid()] != 5 || counts[carol.Uid()] != 0 || len(counts) != 3 {
		tt.Fatal(counts)
	}

	// Suspend alice: her topics and p2p topics are suspended too.
	must(tt, store.Users.UpdateState(alice.Uid(), t.StateSuspended))
	for _, name := range []string{grp, p2p} {
		top, _ := store.Topics.Get(name)
		if top.State != t.StateSuspended || top.StateAt == nil {
			tt.Fatalf("%s: %+v", name, top)
		}
	}
	if u, _ := store.Users.Get(alice.Uid()); u.State != t.StateSuspended || u.StateAt == nil {
		tt.Fatal("user state")
	}
	if found, _ := a.FindUsers(bob.Uid(), nil, []string{"none"}, true); len(found) != 0 {
		tt.Fatal(found)
	}
	must(tt, store.Users.UpdateState(alice.Uid(), t.StateOK))

	// Unvalidated users.
	future := time.Now().Add(time.Hour)
	must(tt, store.Users.UpdateLastSeen(bob.Uid(), "ua", time.Now()))
	_, err = store.Users.UpsertCred(&t.Credential{User: carol.Uid().String(), Method: "email", Value: "c@example.com", Done: true})
	must(tt, err)
	uids, err := store.Users.GetUnvalidated(future, 10)
	must(tt, err)
	if len(uids) != 1 || uids[0] != alice.Uid() {
		tt.Fatal(uids)
	}
	if uids, _ = store.Users.GetUnvalidated(alice.UpdatedAt.Add(-time.Hour), 10); len(uids) != 0 {
		tt.Fatal(uids)
	}
	if uids, _ = store.Users.GetUnvalidated(future, 0); len(uids) != 0 {
		tt.Fatal(uids)
	}
}

func TestUserDelete(tt *testing.T) {
	a := fresh(tt)
	alice, bob, carol := mkUser(tt, "A", "alice"), mkUser(tt, "B"), mkUser(tt, "C")
	grpA := mkGroup(tt, alice.Uid(), "grpa")
	grpB := mkGroup(tt, bob.Uid())
	p2pAB := mkP2P(tt, alice.Uid(), bob.Uid())
	p2pBC := mkP2P(tt, bob.Uid(), carol.Uid())
	share := func(topic string, uid t.Uid) {
		must(tt, store.Subs.Create(&t.Subscription{User: uid.String(), Topic: topic, ModeWant: t.ModeCPublic, ModeGiven: t.ModeCPublic}))
	}
	share(grpA, bob.Uid())
	share(grpB, alice.Uid())
	saveMsg(tt, grpA, alice.Uid(), 1)
	saveMsg(tt, grpB, alice.Uid(), 1)
	saveMsg(tt, p2pAB, alice.Uid(), 1)
	must(tt, store.Messages.DeleteList(grpB, 1, alice.Uid(), []t.Range{{Low: 1}}))
	must(tt, store.Users.AddAuthRecord(alice.Uid(), auth.LevelAuth, "basic", "alice", []byte("secret"), time.Time{}))
	_, err := store.Users.UpsertCred(&t.Credential{User: alice.Uid().String(), Method: "email", Value: "a@example.com", Done: true})
	must(tt, err)
	must(tt, store.Devices.Update(alice.Uid(), "", &t.DeviceDef{DeviceId: "dev-a", Platform: "web", LastSeen: time.Now()}))

	// Soft delete.
	must(tt, store.Users.Delete(alice.Uid(), false))
	if u, _ := store.Users.Get(alice.Uid()); u != nil {
		tt.Fatal("soft-deleted user must not be returned")
	}
	if subs, _ := store.Users.GetSubs(alice.Uid()); len(subs) != 0 {
		tt.Fatal(subs)
	}
	for name, want := range map[string]t.ObjState{grpA: t.StateDeleted, p2pAB: t.StateDeleted, grpB: t.StateOK, p2pBC: t.StateOK} {
		if top, _ := store.Topics.Get(name); top == nil || top.State != want {
			tt.Fatalf("%s: %+v", name, top)
		}
	}
	// Bob's subscriptions to alice's group and to the p2p topic with alice are gone, others are intact.
	subs, _ := store.Users.GetSubs(bob.Uid())
	names := map[string]bool{}
	for _, s := range subs {
		names[s.Topic] = true
	}
	if names[grpA] || names[p2pAB] || !names[grpB] || !names[p2pBC] || len(subs) != 4 {
		tt.Fatal(names)
	}
	if s, _ := store.Subs.Get(p2pAB, bob.Uid(), true); s == nil || s.DeletedAt == nil {
		tt.Fatal("subscription must be soft-deleted")
	}
	snap := a.Dump()
	if len(snap.Auth) != 1 || len(snap.Creds) != 1 || len(snap.Devices) != 1 || len(snap.Messages) != 3 || len(snap.DelLog) != 1 {
		tt.Fatal("soft delete must keep auth, credentials, devices, messages")
	}
	if users, _ := a.FindUsers(bob.Uid(), nil, []string{"alice"}, true); len(users) != 0 {
		tt.Fatal("deleted user found by activeOnly search")
	}
	if users, _ := a.FindUsers(bob.Uid(), nil, []string{"alice"}, false); len(users) != 1 {
		tt.Fatal("deleted user must be found by a search with activeOnly=false")
	}

	// Hard delete.
	must(tt, store.Users.Delete(alice.Uid(), true))
	snap = a.Dump()
	if len(snap.Users) != 2 || len(snap.Auth) != 0 || len(snap.Creds) != 0 || len(snap.Devices) != 0 || len(snap.DelLog) != 0 {
		tt.Fatalf("hard delete: %+v", snap)
	}
	if top, _ := store.Topics.Get(grpA); top != nil {
		tt.Fatal("owned topic must be deleted")
	}
	if top, _ := store.Topics.Get(p2pAB); top == nil {
		tt.Fatal("p2p topic stays")
	}
	for _, s := range snap.Subs {
		if s.User == uint64(alice.Uid()) || s.Topic == grpA {
			tt.Fatalf("subscription must be deleted: %+v", s)
		}
	}
	// Messages in the owned topic are gone, messages sent by the user to other topics stay.
	if len(snap.Messages) != 2 {
		tt.Fatalf("messages: %+v", snap.Messages)
	}
	if s, _ := store.Subs.Get(p2pAB, bob.Uid(), true); s == nil {
		tt.Fatal("other user's p2p subscription stays")
	}
	// Deleting again is not an error.
	must(tt, store.Users.Delete(alice.Uid(), true))
}
