package memadp

import (
	"encoding/json"
	"errors"
	"sort"
	"strings"
	"time"

	t "github.com/tinode/chat/server/store/types"
)

// Table 'messages'.
type msgRow struct {
	// AUTO_INCREMENT id, used by filemsglinks.msgid.
	id        int64
	createdAt time.Time
	updatedAt time.Time
	deletedAt *time.Time
	delId     int
	seqId     int
	topic     string
	from      t.Uid
	head      []byte
	content   []byte
}

// Table 'dellog'.
type dellogRow struct {
	id         int
	topic      string
	deletedFor t.Uid
	delId      int
	low        int
	hi         int
}

// Table 'fileuploads'.
type fileRow struct {
	id        t.Uid
	createdAt time.Time
	updatedAt time.Time
	user      t.Uid
	status    int
	mimeType  string
	size      int64
	location  string
}

// Table 'filemsglinks'.
type linkRow struct {
	id        int
	createdAt time.Time
	file      t.Uid
	// Exactly one of the following is set.
	msgId int64
	topic string
	user  t.Uid
}

// Table 'kvmeta'.
type pcacheRow struct {
	key       string
	createdAt time.Time
	value     string
}

func (a *Adapter) messageFind(topic string, seqId int) *msgRow {
	for _, m := range a.messages {
		if m.topic == topic && m.seqId == seqId {
			return m
		}
	}
	return nil
}

// MessageSave saves message to database.
func (a *Adapter) MessageSave(msg *t.Message) error {
	a.mu.Lock()
	defer a.mu.Unlock()
	if err := a.hook("MessageSave", msg); err != nil {
		return err
	}

	// UNIQUE INDEX messages_topic_seqid(topic, seqid)
	if a.messageFind(msg.Topic, msg.SeqId) != nil {
		return ErrDupKey
	}
	// FOREIGN KEY(topic) REFERENCES topics(name)
	if _, ok := a.topics[msg.Topic]; !ok {
		return ErrForeignKey
	}

	head, _ := json.Marshal(msg.Head)
	a.nextMsgId++
	a.messages = append(a.messages, &msgRow{
		id:        a.nextMsgId,
		createdAt: ms(msg.CreatedAt),
		updatedAt: ms(msg.UpdatedAt),
		seqId:     msg.SeqId,
		topic:     msg.Topic,
		from:      t.ParseUid(msg.From),
		head:      head,
		content:   toJSON(msg.Content),
	})
	// Replacing ID given by store by ID given by the DB.
	msg.SetUid(t.Uid(a.nextMsgId))
	return nil
}

// MessageGetAll returns messages matching the query.
func (a *Adapter) MessageGetAll(topic string, forUser t.Uid, opts *t.QueryOpt) ([]t.Message, error) {
	a.mu.Lock()
	defer a.mu.Unlock()
	if err := a.hook("MessageGetAll", topic, forUser, opts); err != nil {
		return nil, err
	}

	var limit = a.maxMsgRes()
	var lower = 0
	var upper = 1<<31 - 1

	if opts != nil {
		if opts.Since > 0 {
			lower = opts.Since
		}
		if opts.Before > 0 {
			// MySQL BETWEEN is inclusive-inclusive, Tinode API requires inclusive-exclusive, thus -1
			upper = opts.Before - 1
		}

		if opts.Limit > 0 && opts.Limit < limit {
			limit = opts.Limit
		}
	}

	// Soft-deletions for this user (LEFT JOIN dellog ... d.deletedfor=? ... WHERE d.deletedfor IS NULL).
	var dellog []*dellogRow
	for _, d := range a.dellog {
		if d.topic == topic && d.deletedFor == forUser {
			dellog = append(dellog, d)
		}
	}

	var rows []*msgRow
	for _, m := range a.messages {
		if m.delId != 0 || m.topic != topic || m.seqId < lower || m.seqId > upper {
			continue
		}
		deleted := false
		for _, d := range dellog {
			if m.seqId >= d.low && m.seqId <= d.hi-1 {
				deleted = true
				break
			}
		}
		if !deleted {
			rows = append(rows, m)
		}
	}
	// ORDER BY m.seqid DESC LIMIT ?
	sort.Slice(rows, func(i, j int) bool { return rows[i].seqId > rows[j].seqId })
	if len(rows) > limit {
		rows = rows[:limit]
	}

	msgs := make([]t.Message, 0, limit)
	for _, m := range rows {
		var msg t.Message
		msg.CreatedAt = m.createdAt
		msg.UpdatedAt = m.updatedAt
		msg.DeletedAt = copyTimePtr(m.deletedAt)
		msg.DelId = m.delId
		msg.SeqId = m.seqId
		msg.Topic = m.topic
		msg.From = m.from.String()
		if m.head != nil {
			json.Unmarshal(m.head, &msg.Head)
		}
		msg.Content = fromJSON(m.content)
		msgs = append(msgs, msg)
	}
	return msgs, nil
}

// MessageGetDeleted returns ranges of deleted messages.
func (a *Adapter) MessageGetDeleted(topic string, forUser t.Uid, opts *t.QueryOpt) ([]t.DelMessage, error) {
	a.mu.Lock()
	defer a.mu.Unlock()
	if err := a.hook("MessageGetDeleted", topic, forUser, opts); err != nil {
		return nil, err
	}

	var limit = a.maxRes()
	var lower = 0
	var upper = 1<<31 - 1

	if opts != nil {
		if opts.Since > 0 {
			lower = opts.Since
		}
		if opts.Before > 1 {
			// DelRange is inclusive-exclusive, while BETWEEN is inclusive-inclisive.
			upper = opts.Before - 1
		}

		if opts.Limit > 0 && opts.Limit < limit {
			limit = opts.Limit
		}
	}

	// Fetch log of deletions
	var rows []*dellogRow
	for _, d := range a.dellog {
		if d.topic == topic && d.delId >= lower && d.delId <= upper && (d.deletedFor.IsZero() || d.deletedFor == forUser) {
			rows = append(rows, d)
		}
	}
	// ORDER BY delid LIMIT ? (rows of the same delid in the order of insertion).
	sort.SliceStable(rows, func(i, j int) bool { return rows[i].delId < rows[j].delId })
	if len(rows) > limit {
		// The limit applies to the log entries (ranges), not to the resulting DelMessages.
		rows = rows[:limit]
	}

	var dmsgs []t.DelMessage
	var dmsg t.DelMessage
	for _, d := range rows {
		if d.delId != dmsg.DelId {
			if dmsg.DelId > 0 {
				dmsgs = append(dmsgs, dmsg)
			}
			dmsg.DelId = d.delId
			dmsg.Topic = d.topic
			if !d.deletedFor.IsZero() {
				dmsg.DeletedFor = d.deletedFor.String()
			} else {
				dmsg.DeletedFor = ""
			}
			dmsg.SeqIdRanges = nil
		}
		hi := d.hi
		if hi <= d.low+1 {
			hi = 0
		}
		dmsg.SeqIdRanges = append(dmsg.SeqIdRanges, t.Range{Low: d.low, Hi: hi})
	}
	if dmsg.DelId > 0 {
		dmsgs = append(dmsgs, dmsg)
	}

	return dmsgs, nil
}

// Delete all messages and the deletion log of the topic.
func (a *Adapter) messageDeleteAll(topic string) {
	// Whole topic is being deleted, thus also deleting all messages.
	a.dellogDelete(func(d *dellogRow) bool { return d.topic == topic })
	// filemsglinks will be deleted because of ON DELETE CASCADE
	a.messagesDelete(func(m *msgRow) bool { return m.topic == topic })
}

// MessageDeleteList deletes messages in the given topic with seqIds from the list
func (a *Adapter) MessageDeleteList(topic string, toDel *t.DelMessage) error {
	a.mu.Lock()
	defer a.mu.Unlock()
	if err := a.hook("MessageDeleteList", topic, toDel); err != nil {
		return err
	}

	if toDel == nil {
		a.messageDeleteAll(topic)
		return nil
	}

	// Only some messages are being deleted
	hard := toDel.DeletedFor == ""
	if hard && len(toDel.SeqIdRanges) == 0 {
		// The mysql adapter panics (index out of range).
		return errors.New("memadp: hard-deleting an empty list of messages")
	}
	if len(toDel.SeqIdRanges) > 0 {
		// FOREIGN KEY(topic) REFERENCES topics(name)
		if _, ok := a.topics[topic]; !ok {
			return ErrForeignKey
		}
	}

	// Start with making log entries
	forUser := t.ParseUid(toDel.DeletedFor)
	for _, rng := range toDel.SeqIdRanges {
		if rng.Hi == 0 {
			// Dellog must contain valid Low and *Hi*.
			rng.Hi = rng.Low + 1
		}
		a.nextDellogId++
		a.dellog = append(a.dellog, &dellogRow{
			id:         a.nextDellogId,
			topic:      topic,
			deletedFor: forUser,
			delId:      toDel.DelId,
			low:        rng.Low,
			hi:         rng.Hi,
		})
	}

	if hard {
		// Hard-deleting messages requires updates to the messages table
		inRanges := func(seqId int) bool {
			for _, r := range toDel.SeqIdRanges {
				if r.Hi == 0 {
					if seqId == r.Low {
						return true
					}
				} else if seqId >= r.Low && seqId < r.Hi {
					return true
				}
			}
			return false
		}

		now := t.TimeNow()
		affected := make(map[int64]struct{})
		for _, m := range a.messages {
			if m.topic == topic && m.deletedAt == nil && inRanges(m.seqId) {
				affected[m.id] = struct{}{}
				m.deletedAt = copyTimePtr(&now)
				m.delId = toDel.DelId
				m.head = nil
				m.content = nil
			}
		}
		// Drop links to attachments of the deleted messages.
		if len(affected) > 0 {
			a.linksDelete(func(l *linkRow) bool {
				if l.msgId == 0 {
					return false
				}
				_, ok := affected[l.msgId]
				return ok
			})
		}
	}

	return nil
}

// File upload records

func (f *fileRow) out() *t.FileDef {
	var fd t.FileDef
	fd.SetUid(f.id)
	fd.CreatedAt = f.createdAt
	fd.UpdatedAt = f.updatedAt
	fd.User = f.user.String()
	fd.Status = f.status
	fd.MimeType = f.mimeType
	fd.Size = f.size
	fd.Location = f.location
	return &fd
}

// Delete a row from fileuploads; filemsglinks.fileid is ON DELETE CASCADE.
func (a *Adapter) fileRowDelete(id t.Uid) {
	if _, ok := a.files[id]; !ok {
		return
	}
	delete(a.files, id)
	a.linksDelete(func(l *linkRow) bool { return l.file == id })
}

// FileStartUpload initializes a file upload
func (a *Adapter) FileStartUpload(fd *t.FileDef) error {
	a.mu.Lock()
	defer a.mu.Unlock()
	if err := a.hook("FileStartUpload", fd); err != nil {
		return err
	}

	id := fd.Uid()
	if _, ok := a.files[id]; ok {
		return ErrDupKey
	}
	a.files[id] = &fileRow{
		id:        id,
		createdAt: ms(fd.CreatedAt),
		updatedAt: ms(fd.UpdatedAt),
		user:      t.ParseUid(fd.User),
		status:    fd.Status,
		mimeType:  fd.MimeType,
		size:      fd.Size,
		location:  fd.Location,
	}
	return nil
}

// FileFinishUpload marks file upload as completed, successfully or otherwise.
// Like the mysql adapter, it updates and returns the fd it was given.
func (a *Adapter) FileFinishUpload(fd *t.FileDef, success bool, size int64) (*t.FileDef, error) {
	a.mu.Lock()
	defer a.mu.Unlock()
	if err := a.hook("FileFinishUpload", fd, success, size); err != nil {
		return nil, err
	}

	now := t.TimeNow()
	if success {
		if row := a.files[fd.Uid()]; row != nil {
			row.updatedAt = now
			row.status = t.UploadCompleted
			row.size = size
		}

		fd.Status = t.UploadCompleted
		fd.Size = size
	} else {
		// Deleting the record: there is no value in keeping it in the DB.
		a.fileRowDelete(fd.Uid())

		fd.Status = t.UploadFailed
		fd.Size = 0
	}
	fd.UpdatedAt = now

	return fd, nil
}

// FileGet fetches a record of a specific file
func (a *Adapter) FileGet(fid string) (*t.FileDef, error) {
	a.mu.Lock()
	defer a.mu.Unlock()
	if err := a.hook("FileGet", fid); err != nil {
		return nil, err
	}

	id := t.ParseUid(fid)
	if id.IsZero() {
		return nil, t.ErrMalformed
	}

	row := a.files[id]
	if row == nil {
		return nil, nil
	}
	return row.out(), nil
}

// FileDeleteUnused deletes file upload records which are not linked to anything.
func (a *Adapter) FileDeleteUnused(olderThan time.Time, limit int) ([]string, error) {
	a.mu.Lock()
	defer a.mu.Unlock()
	if err := a.hook("FileDeleteUnused", olderThan, limit); err != nil {
		return nil, err
	}

	linked := make(map[t.Uid]struct{})
	for _, l := range a.links {
		linked[l.file] = struct{}{}
	}

	// Garbage collecting entries which lack references.
	var ids []t.Uid
	for id, f := range a.files {
		if _, ok := linked[id]; ok {
			continue
		}
		if !olderThan.IsZero() && !f.updatedAt.Before(olderThan) {
			continue
		}
		ids = append(ids, id)
	}
	sortUids(ids)
	if limit > 0 && len(ids) > limit {
		ids = ids[:limit]
	}

	var locations []string
	for _, id := range ids {
		if loc := a.files[id].location; loc != "" {
			locations = append(locations, loc)
		}
		a.fileRowDelete(id)
	}

	return locations, nil
}

// FileLinkAttachments connects given topic or message to the file record IDs from the list.
func (a *Adapter) FileLinkAttachments(topic string, userId, msgId t.Uid, fids []string) error {
	a.mu.Lock()
	defer a.mu.Unlock()
	if err := a.hook("FileLinkAttachments", topic, userId, msgId, fids); err != nil {
		return err
	}

	if len(fids) == 0 || (topic == "" && msgId.IsZero() && userId.IsZero()) {
		return t.ErrMalformed
	}
	now := t.TimeNow()

	link := linkRow{createdAt: now}
	if !msgId.IsZero() {
		link.msgId = int64(msgId)
	} else if topic != "" {
		link.topic = topic
		// Only one attachment per topic is permitted at this time.
		fids = fids[0:1]
	} else {
		link.user = userId
		// Only one attachment per user is permitted at this time.
		fids = fids[0:1]
	}

	// Decoded ids
	var dids []t.Uid
	for _, fid := range fids {
		id := t.ParseUid(fid)
		if id.IsZero() {
			return t.ErrMalformed
		}
		dids = append(dids, id)
	}

	// Foreign keys of filemsglinks: if INSERT fails the whole transaction is rolled back.
	for _, id := range dids {
		if _, ok := a.files[id]; !ok {
			return ErrForeignKey
		}
	}
	if link.msgId != 0 {
		found := false
		for _, m := range a.messages {
			if m.id == link.msgId {
				found = true
				break
			}
		}
		if !found {
			return ErrForeignKey
		}
	} else if link.topic != "" {
		if _, ok := a.topics[link.topic]; !ok {
			return ErrForeignKey
		}
	} else if _, ok := a.users[link.user]; !ok {
		return ErrForeignKey
	}

	// Unlink earlier uploads on the same topic or user allowing them to be garbage-collected.
	if msgId.IsZero() {
		a.linksDelete(func(l *linkRow) bool {
			if link.topic != "" {
				return l.topic == link.topic
			}
			return !l.user.IsZero() && l.user == link.user
		})
	}

	for _, id := range dids {
		a.nextLinkId++
		l := link
		l.id = a.nextLinkId
		l.file = id
		a.links = append(a.links, &l)
	}

	return nil
}

// Persistent cache

// PCacheGet reads a persistet cache entry.
func (a *Adapter) PCacheGet(key string) (string, error) {
	a.mu.Lock()
	defer a.mu.Unlock()
	if err := a.hook("PCacheGet", key); err != nil {
		return "", err
	}

	if row := a.pcache[key]; row != nil {
		return row.value, nil
	}
	return "", t.ErrNotFound
}

// PCacheUpsert creates or updates a persistent cache entry.
func (a *Adapter) PCacheUpsert(key string, value string, failOnDuplicate bool) error {
	a.mu.Lock()
	defer a.mu.Unlock()
	if err := a.hook("PCacheUpsert", key, value, failOnDuplicate); err != nil {
		return err
	}

	if strings.Contains(key, "%") {
		// Do not allow % in keys: it interferes with LIKE query.
		return t.ErrMalformed
	}

	if _, ok := a.pcache[key]; ok && failOnDuplicate {
		return t.ErrDuplicate
	}
	// INSERT or REPLACE
	a.pcache[key] = &pcacheRow{key: key, createdAt: t.TimeNow(), value: value}
	return nil
}

// PCacheDelete deletes one persistent cache entry.
func (a *Adapter) PCacheDelete(key string) error {
	a.mu.Lock()
	defer a.mu.Unlock()
	if err := a.hook("PCacheDelete", key); err != nil {
		return err
	}

	delete(a.pcache, key)
	return nil
}

// PCacheExpire expires old entries with the given key prefix.
func (a *Adapter) PCacheExpire(keyPrefix string, olderThan time.Time) error {
	a.mu.Lock()
	defer a.mu.Unlock()
	if err := a.hook("PCacheExpire", keyPrefix, olderThan); err != nil {
		return err
	}

	if keyPrefix == "" {
		return t.ErrMalformed
	}

	pattern := []rune(keyPrefix + "%")
	for key, row := range a.pcache {
		if likeMatch(pattern, []rune(key)) && row.createdAt.Before(olderThan) {
			delete(a.pcache, key)
		}
	}
	return nil
}

// SQL LIKE: '%' is any sequence of characters, '_' is any single character, '\' is the escape character.
func likeMatch(pattern, str []rune) bool {
	for len(pattern) > 0 {
		switch pattern[0] {
		case '%':
			for len(pattern) > 0 && pattern[0] == '%' {
				pattern = pattern[1:]
			}
			if len(pattern) == 0 {
				return true
			}
			for i := 0; i <= len(str); i++ {
				if likeMatch(pattern, str[i:]) {
					return true
				}
			}
			return false
		case '_':
			if len(str) == 0 {
				return false
			}
		case '\\':
			if len(pattern) > 1 {
				pattern = pattern[1:]
			}
			fallthrough
		default:
			if len(str) == 0 || str[0] != pattern[0] {
				return false
			}
		}
		pattern = pattern[1:]
		str = str[1:]
	}
	return len(str) == 0
}
