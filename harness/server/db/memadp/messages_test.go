package memadp

import (
	"errors"
	"reflect"
	"testing"
	"time"

	"github.com/tinode/chat/server/auth"
	"github.com/tinode/chat/server/store"
	t "github.com/tinode/chat/server/store/types"
)

func TestMessages(tt *testing.T) {
	a := fresh(tt)
	alice, bob := mkUser(tt, "A"), mkUser(tt, "B")
	grp := mkGroup(tt, alice.Uid())
	must(tt, store.Subs.Create(&t.Subscription{User: bob.Uid().String(), Topic: grp, ModeWant: t.ModeCPublic, ModeGiven: t.ModeCPublic}))

	var first *t.Message
	for i := 1; i <= 10; i++ {
		m := saveMsg(tt, grp, alice.Uid(), i)
		if i == 1 {
			first = m
		}
	}
	// The message id is replaced by the database row id.
	if first.Uid() != 1 {
		tt.Fatal(first.Uid())
	}
	top, _ := store.Topics.Get(grp)
	if top.SeqId != 10 || !top.TouchedAt.Equal(ms(top.TouchedAt)) {
		tt.Fatalf("topic: %+v", top)
	}
	if sub, _ := store.Subs.Get(grp, alice.Uid(), false); sub.ReadSeqId != 10 || sub.RecvSeqId != 10 {
		tt.Fatalf("sender's sub: %+v", sub)
	}

	// Unique (topic, seqid); topic must exist.
	if err := a.MessageSave(&t.Message{Topic: grp, SeqId: 3}); err != ErrDupKey {
		tt.Fatal(err)
	}
	if err := a.MessageSave(&t.Message{Topic: "grpMissing", SeqId: 1}); err != ErrForeignKey {
		tt.Fatal(err)
	}

	msgs, err := store.Messages.GetAll(grp, bob.Uid(), nil)
	must(tt, err)
	if !reflect.DeepEqual(seqIds(msgs), []int{10, 9, 8, 7, 6, 5, 4, 3, 2, 1}) {
		tt.Fatal(seqIds(msgs))
	}
	m := msgs[9]
	if m.Id != "" || m.From != alice.Uid().String() || m.Topic != grp || m.DeletedAt != nil || m.DelId != 0 ||
		!reflect.DeepEqual(m.Content, map[string]any{"txt": "hello", "n": float64(1)}) ||
		!reflect.DeepEqual(m.Head, t.MessageHeaders{"mime": "text/plain"}) || !m.CreatedAt.Equal(first.CreatedAt) {
		tt.Fatalf("message: %+v", m)
	}
	// Returned values are copies.
	m.Head["mime"] = "mutated"
	m.Content.(map[string]any)["txt"] = "mutated"
	msgs, _ = store.Messages.GetAll(grp, bob.Uid(), &t.QueryOpt{Since: 1, Before: 2})
	if len(msgs) != 1 || msgs[0].Head["mime"] != "text/plain" || msgs[0].Content.(map[string]any)["txt"] != "hello" {
		tt.Fatalf("aliased: %+v", msgs)
	}

	// Ranges: [Since, Before), limit, newest first.
	for _, tc := range []struct {
		opts *t.QueryOpt
		want []int
	}{
		{&t.QueryOpt{Since: 3, Before: 6}, []int{5, 4, 3}},
		{&t.QueryOpt{Since: 8}, []int{10, 9, 8}},
		{&t.QueryOpt{Before: 3}, []int{2, 1}},
		{&t.QueryOpt{Limit: 2}, []int{10, 9}},
		{&t.QueryOpt{Since: 2, Before: 9, Limit: 3}, []int{8, 7, 6}},
		{&t.QueryOpt{Since: 11}, []int{}},
		{&t.QueryOpt{}, []int{10, 9, 8, 7, 6, 5, 4, 3, 2, 1}},
	} {
		msgs, err = store.Messages.GetAll(grp, bob.Uid(), tc.opts)
		must(tt, err)
		if !reflect.DeepEqual(seqIds(msgs), tc.want) {
			tt.Fatalf("%+v: got %v, want %v", tc.opts, seqIds(msgs), tc.want)
		}
	}

	// Soft-delete for bob: 2, [4,6); for alice: 9. Hard: [6,8), 1.
	must(tt, store.Messages.DeleteList(grp, 1, bob.Uid(), []t.Range{{Low: 2}, {Low: 4, Hi: 6}}))
	must(tt, store.Messages.DeleteList(grp, 2, alice.Uid(), []t.Range{{Low: 9}}))
	must(tt, store.Messages.DeleteList(grp, 3, t.ZeroUid, []t.Range{{Low: 6, Hi: 8}, {Low: 1}}))
	// Single range optimization.
	must(tt, store.Messages.DeleteList(grp, 4, t.ZeroUid, []t.Range{{Low: 10, Hi: 11}}))

	msgs, _ = store.Messages.GetAll(grp, bob.Uid(), nil)
	if !reflect.DeepEqual(seqIds(msgs), []int{9, 8, 3}) {
		tt.Fatal("bob", seqIds(msgs))
	}
	msgs, _ = store.Messages.GetAll(grp, alice.Uid(), nil)
	if !reflect.DeepEqual(seqIds(msgs), []int{8, 5, 4, 3, 2}) {
		tt.Fatal("alice", seqIds(msgs))
	}
	msgs, _ = store.Messages.GetAll(grp, t.ZeroUid, nil)
	if !reflect.DeepEqual(seqIds(msgs), []int{9, 8, 5, 4, 3, 2}) {
		tt.Fatal("nobody", seqIds(msgs))
	}

	snap := a.Dump()
	if len(snap.DelLog) != 6 || len(snap.Messages) != 10 {
		tt.Fatalf("dellog: %+v", snap.DelLog)
	}
	for _, ms := range snap.Messages {
		hard := ms.SeqId == 1 || ms.SeqId == 6 || ms.SeqId == 7 || ms.SeqId == 10
		if hard != (ms.DelId != 0) || hard != (ms.DeletedAt != nil) || hard != (ms.Content == nil) || hard != (ms.Head == nil) {
			tt.Fatalf("message: %+v", ms)
		}
	}
	if snap.DelLog[0].Low != 2 || snap.DelLog[0].Hi != 3 || snap.DelLog[0].DeletedFor != uint64(bob.Uid()) ||
		snap.DelLog[0].DeletedForId != bob.Uid().UserId() {
		tt.Fatalf("dellog: %+v", snap.DelLog[0])
	}
	top, _ = store.Topics.Get(grp)
	if top.DelId != 4 {
		tt.Fatal(top.DelId)
	}
	if sub, _ := store.Subs.Get(grp, bob.Uid(), false); sub.DelId != 4 {
		tt.Fatal(sub.DelId)
	}

	// Deletion log, grouped by DelId.
	dmsgs, err := a.MessageGetDeleted(grp, bob.Uid(), nil)
	must(tt, err)
	want := []t.DelMessage{
		{Topic: grp, DeletedFor: bob.Uid().String(), DelId: 1, SeqIdRanges: []t.Range{{Low: 2}, {Low: 4, Hi: 6}}},
		{Topic: grp, DelId: 3, SeqIdRanges: []t.Range{{Low: 6, Hi: 8}, {Low: 1}}},
		{Topic: grp, DelId: 4, SeqIdRanges: []t.Range{{Low: 10}}},
	}
	if !reflect.DeepEqual(dmsgs, want) {
		tt.Fatalf("deleted for bob: %+v", dmsgs)
	}
	dmsgs, _ = a.MessageGetDeleted(grp, alice.Uid(), &t.QueryOpt{Since: 2, Before: 4})
	if len(dmsgs) != 2 || dmsgs[0].DelId != 2 || dmsgs[0].DeletedFor != alice.Uid().String() || dmsgs[1].DelId != 3 {
		tt.Fatalf("deleted for alice: %+v", dmsgs)
	}
	// The limit is on log entries, not on DelMessages.
	dmsgs, _ = a.MessageGetDeleted(grp, bob.Uid(), &t.QueryOpt{Limit: 3})
	if len(dmsgs) != 2 || len(dmsgs[1].SeqIdRanges) != 1 {
		tt.Fatalf("limited: %+v", dmsgs)
	}
	ranges, maxId, err := store.Messages.GetDeleted(grp, bob.Uid(), nil)
	must(tt, err)
	if maxId != 4 || len(ranges) == 0 || ranges[0].Low != 1 {
		tt.Fatal(ranges, maxId)
	}
	tt.Logf("store.Messages.GetDeleted ranges after RangeSorter.Normalize: %+v", ranges)
	if dmsgs, _ = a.MessageGetDeleted("grpMissing", bob.Uid(), nil); dmsgs != nil {
		tt.Fatal(dmsgs)
	}

	// Hard-deleting again does not touch already deleted messages.
	must(tt, store.Messages.DeleteList(grp, 5, t.ZeroUid, []t.Range{{Low: 1, Hi: 4}}))
	for _, ms := range a.Dump().Messages {
		if want := map[int]int{1: 3, 2: 5, 3: 5}[ms.SeqId]; ms.SeqId <= 3 && ms.DelId != want {
			tt.Fatalf("message: %+v", ms)
		}
	}

	if err = a.MessageDeleteList("grpMissing", &t.DelMessage{DelId: 1, SeqIdRanges: []t.Range{{Low: 1}}}); err != ErrForeignKey {
		tt.Fatal(err)
	}
	if err = a.MessageDeleteList(grp, &t.DelMessage{DelId: 9}); err == nil {
		tt.Fatal("hard-deleting an empty list must fail")
	}

	// Delete all.
	must(tt, store.Messages.DeleteList(grp, 0, t.ZeroUid, nil))
	if snap = a.Dump(); len(snap.Messages) != 0 || len(snap.DelLog) != 0 {
		tt.Fatal("messages must be gone")
	}
}

func TestCredentials(tt *testing.T) {
	a := fresh(tt)
	alice, bob := mkUser(tt, "A"), mkUser(tt, "B")
	cred := func(u *t.User, value string, done bool) *t.Credential {
		return &t.Credential{User: u.Uid().String(), Method: "email", Value: value, Resp: "123456", Done: done}
	}

	ins, err := store.Users.UpsertCred(cred(alice, "a@example.com", false))
	if !ins || err != nil {
		tt.Fatal(ins, err)
	}
	active, err := store.Users.GetActiveCred(alice.Uid(), "email")
	must(tt, err)
	if active == nil || active.Value != "a@example.com" || active.Done || active.Retries != 0 || active.User != alice.Uid().String() || active.Resp != "123456" {
		tt.Fatalf("active: %+v", active)
	}
	if active, err = store.Users.GetActiveCred(alice.Uid(), "tel"); active != nil || err != nil {
		tt.Fatal(active, err)
	}
	// Not validated: not searchable.
	if uid, _ := store.Users.GetByCred("email", "a@example.com"); !uid.IsZero() {
		tt.Fatal(uid)
	}
	must(tt, store.Users.FailCred(alice.Uid(), "email"))
	must(tt, store.Users.FailCred(alice.Uid(), "email"))

	// Another unvalidated value: the first one is soft-deleted.
	if ins, err = store.Users.UpsertCred(cred(alice, "a2@example.com", false)); !ins || err != nil {
		tt.Fatal(ins, err)
	}
	if active, _ = store.Users.GetActiveCred(alice.Uid(), "email"); active.Value != "a2@example.com" {
		tt.Fatalf("active: %+v", active)
	}
	if all, _ := store.Users.GetAllCreds(alice.Uid(), "", false); len(all) != 1 {
		tt.Fatal(all)
	}
	// Back to the first one: updated, not inserted; retries are retained.
	c := cred(alice, "a@example.com", false)
	c.Resp = "654321"
	if ins, err = store.Users.UpsertCred(c); ins || err != nil {
		tt.Fatal(ins, err)
	}
	if active, _ = store.Users.GetActiveCred(alice.Uid(), "email"); active.Value != "a@example.com" || active.Retries != 2 || active.Resp != "654321" {
		tt.Fatalf("active: %+v", active)
	}
	// Cannot delete a credential with failed attempts: mysql rolls the soft-deletion back.
	before := a.Dump()
	if err = store.Users.DelCred(alice.Uid(), "email", "a@example.com"); err != t.ErrNotFound {
		tt.Fatal(err)
	}
	if !reflect.DeepEqual(before, a.Dump()) {
		tt.Fatal("state changed")
	}

	// Bob has the same unvalidated address, validates it first.
	if ins, err = store.Users.UpsertCred(cred(bob, "a@example.com", false)); !ins || err != nil {
		tt.Fatal(ins, err)
	}
	if err = store.Users.ConfirmCred(bob.Uid(), "tel"); err != t.ErrNotFound {
		tt.Fatal(err)
	}
	must(tt, store.Users.ConfirmCred(bob.Uid(), "email"))
	if uid, _ := store.Users.GetByCred("email", "a@example.com"); uid != bob.Uid() {
		tt.Fatal(uid)
	}
	if err = store.Users.ConfirmCred(bob.Uid(), "email"); err != t.ErrNotFound {
		tt.Fatal(err)
	}
	// Alice cannot confirm now.
	if err = store.Users.ConfirmCred(alice.Uid(), "email"); err != t.ErrDuplicate {
		tt.Fatal(err)
	}
	// And cannot request it again.
	if ins, err = store.Users.UpsertCred(cred(alice, "a@example.com", false)); ins || err != t.ErrDuplicate {
		tt.Fatal(ins, err)
	}
	if ins, err = store.Users.UpsertCred(cred(alice, "a@example.com", true)); !ins || err != t.ErrDuplicate {
		tt.Fatal(ins, err)
	}
	if all, _ := store.Users.GetAllCreds(bob.Uid(), "email", true); len(all) != 1 || !all[0].Done {
		tt.Fatal(all)
	}
	if all, _ := store.Users.GetAllCreds(alice.Uid(), "email", true); all != nil {
		tt.Fatal(all)
	}

	// Adding a validated credential directly replaces the unvalidated one.
	if ins, err = store.Users.UpsertCred(cred(alice, "a2@example.com", true)); !ins || err != nil {
		tt.Fatal(ins, err)
	}
	for _, c := range a.Dump().Creds {
		if c.Value == "a2@example.com" && (!c.Done || c.Synthetic != "email:a2@example.com") {
			tt.Fatalf("cred: %+v", c)
		}
	}
}

func TestCredDelAndAuth(tt *testing.T) {
	a := fresh(tt)
	alice, bob := mkUser(tt, "A"), mkUser(tt, "B")

	_, err := store.Users.UpsertCred(&t.Credential{User: alice.Uid().String(), Method: "email", Value: "a@example.com", Done: true})
	must(tt, err)
	_, err = store.Users.UpsertCred(&t.Credential{User: alice.Uid().String(), Method: "tel", Value: "+1", Done: false})
	must(tt, err)
	if _, err = store.Users.UpsertCred(&t.Credential{User: store.Store.GetUidString(), Method: "tel", Value: "+2"}); err != ErrForeignKey {
		tt.Fatal(err)
	}
	must(tt, store.Users.DelCred(alice.Uid(), "email", "a@example.com"))
	if err = store.Users.DelCred(alice.Uid(), "email", ""); err != t.ErrNotFound {
		tt.Fatal(err)
	}
	must(tt, store.Users.DelCred(alice.Uid(), "", ""))
	if err = store.Users.DelCred(alice.Uid(), "", ""); err != t.ErrNotFound {
		tt.Fatal(err)
	}
	if len(a.Dump().Creds) != 0 {
		tt.Fatal("credentials must be deleted")
	}

	// Auth records.
	expires := time.Date(2030, 1, 1, 0, 0, 0, 0, time.UTC)
	secret := []byte("secret")
	must(tt, store.Users.AddAuthRecord(alice.Uid(), auth.LevelAuth, "basic", "alice", secret, expires))
	secret[0] = 'X'
	if err = store.Users.AddAuthRecord(bob.Uid(), auth.LevelAuth, "basic", "alice", []byte("x"), time.Time{}); err != t.ErrDuplicate {
		tt.Fatal(err)
	}
	if err = store.Users.AddAuthRecord(alice.Uid(), auth.LevelAuth, "basic", "alice2", []byte("x"), time.Time{}); err != t.ErrDuplicate {
		tt.Fatal(err)
	}
	if err = store.Users.AddAuthRecord(store.Store.GetUid(), auth.LevelAuth, "basic", "ghost", []byte("x"), time.Time{}); err != ErrForeignKey {
		tt.Fatal(err)
	}
	must(tt, store.Users.AddAuthRecord(bob.Uid(), auth.LevelAnon, "basic", "bob", []byte("bobsecret"), time.Time{}))

	uid, lvl, sec, exp, err := store.Users.GetAuthUniqueRecord("basic", "alice")
	if uid != alice.Uid() || lvl != auth.LevelAuth || string(sec) != "secret" || !exp.Equal(expires) || err != nil {
		tt.Fatal(uid, lvl, string(sec), exp, err)
	}
	uid, lvl, sec, exp, err = store.Users.GetAuthUniqueRecord("basic", "nobody")
	if !uid.IsZero() || lvl != 0 || sec != nil || !exp.IsZero() || err != nil {
		tt.Fatal(uid, lvl, sec, exp, err)
	}
	uname, lvl, sec, exp, err := store.Users.GetAuthRecord(bob.Uid(), "basic")
	if uname != "bob" || lvl != auth.LevelAnon || string(sec) != "bobsecret" || !exp.IsZero() || err != nil {
		tt.Fatal(uname, lvl, string(sec), exp, err)
	}
	if _, _, _, _, err = store.Users.GetAuthRecord(bob.Uid(), "token"); err != t.ErrNotFound {
		tt.Fatal(err)
	}

	// Update.
	must(tt, store.Users.UpdateAuthRecord(bob.Uid(), auth.LevelAuth, "basic", "bobby", nil, time.Time{}))
	uname, lvl, sec, _, _ = store.Users.GetAuthRecord(bob.Uid(), "basic")
	if uname != "bobby" || lvl != auth.LevelAuth || string(sec) != "bobsecret" {
		tt.Fatal(uname, lvl, string(sec))
	}
	if err = store.Users.UpdateAuthRecord(bob.Uid(), auth.LevelAuth, "basic", "alice", nil, time.Time{}); err != t.ErrDuplicate {
		tt.Fatal(err)
	}
	// Nothing changes: mysql reports zero affected rows.
	if err = store.Users.UpdateAuthRecord(bob.Uid(), auth.LevelAuth, "basic", "bobby", nil, time.Time{}); err != t.ErrNotFound {
		tt.Fatal(err)
	}
	if err = store.Users.UpdateAuthRecord(bob.Uid(), auth.LevelAuth, "token", "bobby", nil, time.Time{}); err != t.ErrNotFound {
		tt.Fatal(err)
	}

	// Delete.
	must(tt, store.Users.DelAuthRecords(bob.Uid(), "token"))
	must(tt, store.Users.DelAuthRecords(bob.Uid(), "basic"))
	if n, err := a.AuthDelAllRecords(bob.Uid()); n != 0 || err != nil {
		tt.Fatal(n, err)
	}
	if n, err := a.AuthDelAllRecords(alice.Uid()); n != 1 || err != nil {
		tt.Fatal(n, err)
	}
}

func TestDevices(tt *testing.T) {
	a := fresh(tt)
	alice, bob := mkUser(tt, "A"), mkUser(tt, "B")
	seen := time.Date(2024, 5, 6, 7, 8, 9, 0, time.UTC)
	must(tt, store.Devices.Update(alice.Uid(), "", &t.DeviceDef{DeviceId: "d1", Platform: "ios", LastSeen: seen, Lang: "en"}))
	must(tt, store.Devices.Update(alice.Uid(), "", &t.DeviceDef{DeviceId: "d2", Platform: "web", LastSeen: seen}))
	// The same device is now used by bob.
	must(tt, store.Devices.Update(bob.Uid(), "", &t.DeviceDef{DeviceId: "d1", Platform: "ios", LastSeen: seen, Lang: "fr"}))
	if err := a.DeviceUpsert(store.Store.GetUid(), &t.DeviceDef{DeviceId: "d2"}); err != ErrForeignKey {
		tt.Fatal(err)
	}

	devs, count, err := store.Devices.GetAll(alice.Uid(), bob.Uid())
	must(tt, err)
	want := map[t.Uid][]t.DeviceDef{
		alice.Uid(): {{DeviceId: "d2", Platform: "web", LastSeen: seen}},
		bob.Uid():   {{DeviceId: "d1", Platform: "ios", LastSeen: seen, Lang: "fr"}},
	}
	if count != 2 || !reflect.DeepEqual(devs, want) {
		tt.Fatal(count, devs)
	}
	if _, _, err = store.Devices.GetAll(); err == nil {
		tt.Fatal("empty IN list must fail")
	}

	// Replace d2 by d3.
	must(tt, store.Devices.Update(alice.Uid(), "d2", &t.DeviceDef{DeviceId: "d3", LastSeen: seen}))
	if devs, count, _ = store.Devices.GetAll(alice.Uid()); count != 1 || devs[alice.Uid()][0].DeviceId != "d3" {
		tt.Fatal(count, devs)
	}
	if err = store.Devices.Delete(alice.Uid(), "d2"); err != t.ErrNotFound {
		tt.Fatal(err)
	}
	if err = store.Devices.Delete(alice.Uid(), "d1"); err != t.ErrNotFound {
		tt.Fatal(err)
	}
	must(tt, store.Devices.Delete(alice.Uid(), ""))
	if err = store.Devices.Delete(alice.Uid(), ""); err != t.ErrNotFound {
		tt.Fatal(err)
	}
	if len(a.Dump().Devices) != 1 {
		tt.Fatal("bob's device must stay")
	}
}

func TestFiles(tt *testing.T) {
	a := fresh(tt)
	alice := mkUser(tt, "A")
	grp := mkGroup(tt, alice.Uid())
	msg := saveMsg(tt, grp, alice.Uid(), 1)

	start := func(loc string) *t.FileDef {
		fd := &t.FileDef{User: alice.Uid().String(), MimeType: "image/png", Location: loc}
		fd.SetUid(store.Store.GetUid())
		fd.InitTimes()
		must(tt, store.Files.StartUpload(fd))
		return fd
	}
	f1, f2, f3, f4 := start("loc1"), start("loc2"), start("loc3"), start("")
	if err := store.Files.StartUpload(f1); err != ErrDupKey {
		tt.Fatal(err)
	}
	got, err := store.Files.Get(f1.Id)
	must(tt, err)
	if got.Id != f1.Id || got.Uid() != f1.Uid() || got.User != alice.Uid().String() || got.Status != t.UploadStarted ||
		got.MimeType != "image/png" || got.Location != "loc1" || got.Size != 0 {
		tt.Fatalf("file: %+v", got)
	}
	if got, err = store.Files.Get(store.Store.GetUidString()); got != nil || err != nil {
		tt.Fatal(got, err)
	}
	if _, err = store.Files.Get("bogus"); err != t.ErrMalformed {
		tt.Fatal(err)
	}

	fd, err := store.Files.FinishUpload(f1, true, 1234)
	must(tt, err)
	if fd != f1 || fd.Status != t.UploadCompleted || fd.Size != 1234 {
		tt.Fatalf("finished: %+v", fd)
	}
	if got, _ = store.Files.Get(f1.Id); got.Status != t.UploadCompleted || got.Size != 1234 {
		tt.Fatalf("file: %+v", got)
	}
	// Failed upload: the record is deleted.
	f5 := start("loc5")
	if fd, err = store.Files.FinishUpload(f5, false, 0); err != nil || fd.Status != t.UploadFailed {
		tt.Fatal(fd, err)
	}
	if got, _ = store.Files.Get(f5.Id); got != nil {
		tt.Fatal("record of a failed upload must be deleted")
	}

	// Links.
	if err = a.FileLinkAttachments("", t.ZeroUid, t.ZeroUid, []string{f1.Id}); err != t.ErrMalformed {
		tt.Fatal(err)
	}
	if err = a.FileLinkAttachments(grp, t.ZeroUid, t.ZeroUid, nil); err != t.ErrMalformed {
		tt.Fatal(err)
	}
	if err = a.FileLinkAttachments(grp, t.ZeroUid, t.ZeroUid, []string{"bogus"}); err != t.ErrMalformed {
		tt.Fatal(err)
	}
	must(tt, a.FileLinkAttachments("", t.ZeroUid, msg.Uid(), []string{f1.Id, f2.Id}))
	must(tt, a.FileLinkAttachments(grp, t.ZeroUid, t.ZeroUid, []string{f3.Id, f4.Id}))
	if snap := a.Dump(); len(snap.FileLinks) != 3 || snap.FileLinks[0].MsgId != 1 || snap.FileLinks[2].Topic != grp || snap.FileLinks[2].File != uint64(f3.Uid()) {
		tt.Fatalf("links: %+v", snap.FileLinks)
	}
	// Unknown file, message: foreign key; the old topic link is not removed.
	if err = a.FileLinkAttachments(grp, t.ZeroUid, t.ZeroUid, []string{store.Store.GetUidString()}); err != ErrForeignKey {
		tt.Fatal(err)
	}
	if err = a.FileLinkAttachments("", t.ZeroUid, t.Uid(77), []string{f1.Id}); err != ErrForeignKey {
		tt.Fatal(err)
	}
	if len(a.Dump().FileLinks) != 3 {
		tt.Fatal("links must be intact")
	}
	// Topic avatar is replaced: f3 becomes unused; f4 was never linked (one link per topic).
	must(tt, a.FileLinkAttachments(grp, t.ZeroUid, t.ZeroUid, []string{f2.Id}))
	// User avatar.
	must(tt, a.FileLinkAttachments("", alice.Uid(), t.ZeroUid, []string{f2.Id}))

	locs, err := a.FileDeleteUnused(f3.UpdatedAt, 0)
	if err != nil || locs != nil {
		tt.Fatal(locs, err)
	}
	locs, err = a.FileDeleteUnused(time.Now().Add(time.Hour), 1)
	must(tt, err)
	if len(a.Dump().Files) != 3 {
		tt.Fatal("exactly one file must be deleted")
	}
	more, err := a.FileDeleteUnused(time.Time{}, 0)
	must(tt, err)
	locs = append(locs, more...)
	if !reflect.DeepEqual(locs, []string{"loc3"}) {
		tt.Fatal(locs)
	}
	if snap := a.Dump(); len(snap.Files) != 2 || len(snap.FileLinks) != 4 {
		tt.Fatalf("files: %+v", snap)
	}

	// Hard-deleting the message drops its links.
	must(tt, store.Messages.DeleteList(grp, 1, t.ZeroUid, []t.Range{{Low: 1}}))
	if snap := a.Dump(); len(snap.FileLinks) != 2 {
		tt.Fatalf("links: %+v", snap.FileLinks)
	}
	// Deleting the topic and the user drops the rest.
	must(tt, store.Topics.Delete(grp, false, true))
	if snap := a.Dump(); len(snap.FileLinks) != 1 || snap.FileLinks[0].User != uint64(alice.Uid()) {
		tt.Fatalf("links: %+v", snap.FileLinks)
	}
	must(tt, store.Users.Delete(alice.Uid(), true))
	if locs, _ = a.FileDeleteUnused(time.Time{}, 0); !reflect.DeepEqual(locs, []string{"loc1", "loc2"}) && !reflect.DeepEqual(locs, []string{"loc2", "loc1"}) {
		tt.Fatal(locs)
	}
}

func TestPCache(tt *testing.T) {
	a := fresh(tt)
	if _, err := store.PCache.Get("k1"); err != t.ErrNotFound {
		tt.Fatal(err)
	}
	must(tt, store.PCache.Upsert("k1", "v1", true))
	if err := store.PCache.Upsert("k1", "v2", true); err != t.ErrDuplicate {
		tt.Fatal(err)
	}
	if v, _ := store.PCache.Get("k1"); v != "v1" {
		tt.Fatal(v)
	}
	must(tt, store.PCache.Upsert("k1", "v3", false))
	if v, _ := store.PCache.Get("k1"); v != "v3" {
		tt.Fatal(v)
	}
	if err := store.PCache.Upsert("k%", "v", false); err != t.ErrMalformed {
		tt.Fatal(err)
	}
	must(tt, store.PCache.Upsert("k2", "v", false))
	must(tt, store.PCache.Upsert("other", "v", false))
	if err := store.PCache.Expire("", time.Now()); err != t.ErrMalformed {
		tt.Fatal(err)
	}
	must(tt, store.PCache.Expire("k", time.Now().Add(-time.Hour)))
	if len(a.Dump().PCache) != 3 {
		tt.Fatal("nothing is old enough")
	}
	must(tt, store.PCache.Expire("k", time.Now().Add(time.Hour)))
	if snap := a.Dump(); len(snap.PCache) != 1 || snap.PCache[0].Key != "other" {
		tt.Fatalf("pcache: %+v", snap.PCache)
	}
	must(tt, store.PCache.Delete("other"))
	must(tt, store.PCache.Delete("other"))
	if len(a.Dump().PCache) != 0 {
		tt.Fatal("not deleted")
	}
	if !likeMatch([]rune("a_c%"), []rune("abcdef")) || likeMatch([]rune("a_c%"), []rune("ac")) || !likeMatch([]rune(`a\_%`), []rune("a_x")) ||
		likeMatch([]rune(`a\_%`), []rune("abx")) {
		tt.Fatal("LIKE")
	}
}

func TestHook(tt *testing.T) {
	a := fresh(tt)
	alice, bob := mkUser(tt, "A"), mkUser(tt, "B")
	grp := mkGroup(tt, alice.Uid())
	saveMsg(tt, grp, alice.Uid(), 1)
	defer func() { Hook = nil }()

	before := a.Dump()
	boom := errors.New("injected")
	var calls []string
	Hook = func(method string, args ...any) error {
		calls = append(calls, method)
		return boom
	}

	user := &t.User{}
	if _, err := store.Users.Create(user, nil); err != boom {
		tt.Fatal(err)
	}
	if err := store.Subs.Create(&t.Subscription{User: bob.Uid().String(), Topic: grp}); err != boom {
		tt.Fatal(err)
	}
	if err := store.Subs.Update(grp, alice.Uid(), map[string]any{"ReadSeqId": 1}); err != boom {
		tt.Fatal(err)
	}
	if err, _ := store.Messages.Save(&t.Message{Topic: grp, SeqId: 2, From: alice.Uid().String()}, nil, true); err != boom {
		tt.Fatal(err)
	}
	if err := store.Messages.DeleteList(grp, 1, t.ZeroUid, []t.Range{{Low: 1}}); err != boom {
		tt.Fatal(err)
	}
	if err := store.Topics.Delete(grp, false, true); err != boom {
		tt.Fatal(err)
	}
	if err := store.Users.Delete(alice.Uid(), true); err != boom {
		tt.Fatal(err)
	}
	if u, err := store.Users.Get(alice.Uid()); u != nil || err != boom {
		tt.Fatal(u, err)
	}
	if msgs, err := store.Messages.GetAll(grp, alice.Uid(), nil); msgs != nil || err != boom {
		tt.Fatal(msgs, err)
	}
	if counts, err := store.Users.GetUnreadCount(alice.Uid()); counts != nil || err != boom {
		tt.Fatal(counts, err)
	}
	if ins, err := store.Users.UpsertCred(&t.Credential{User: alice.Uid().String(), Method: "email", Value: "x"}); ins || err != boom {
		tt.Fatal(ins, err)
	}
	if err := store.PCache.Upsert("k", "v", false); err != boom {
		tt.Fatal(err)
	}
	wantCalls := []string{"UserCreate", "TopicShare", "SubsUpdate", "TopicUpdateOnMessage", "MessageDeleteList", "TopicDelete",
		"UserDelete", "UserGet", "MessageGetAll", "UserUnreadCount", "CredUpsert", "PCacheUpsert"}
	if !reflect.DeepEqual(calls, wantCalls) {
		tt.Fatal(calls)
	}
	Hook = nil
	if !reflect.DeepEqual(before, a.Dump()) {
		tt.Fatal("state changed by a failed call")
	}

	// Arguments are passed to the hook; failure of the second statement of store.Messages.Save.
	Hook = func(method string, args ...any) error {
		if method == "MessageSave" {
			if msg, ok := args[0].(*t.Message); !ok || msg.SeqId != 2 {
				tt.Errorf("args: %+v", args)
			}
			return boom
		}
		if method == "SubsUpdate" {
			if args[0] != grp || args[1] != alice.Uid() || args[2].(map[string]any)["ReadSeqId"] != 2 {
				tt.Errorf("args: %+v", args)
			}
		}
		return nil
	}
	if err, _ := store.Messages.Save(&t.Message{Topic: grp, SeqId: 2, From: alice.Uid().String()}, nil, true); err != boom {
		tt.Fatal(err)
	}
	Hook = nil
	// The topic's SeqId is ahead of the messages: that's what a crash between the two calls produces.
	if top, _ := store.Topics.Get(grp); top.SeqId != 2 {
		tt.Fatal(top.SeqId)
	}
	if msgs, _ := store.Messages.GetAll(grp, alice.Uid(), nil); len(msgs) != 1 {
		tt.Fatal(msgs)
	}

	// A panicking hook (simulated crash) leaves the adapter usable.
	Hook = func(method string, args ...any) error { panic("crash") }
	func() {
		defer func() {
			if r := recover(); r != "crash" {
				tt.Fatal(r)
			}
		}()
		store.Subs.Delete(grp, alice.Uid())
	}()
	Hook = nil
	if sub, err := store.Subs.Get(grp, alice.Uid(), false); sub == nil || err != nil {
		tt.Fatal(sub, err)
	}

	// DumpNoLock from inside the hook.
	var inside *Snapshot
	Hook = func(method string, args ...any) error {
		inside = a.DumpNoLock()
		return nil
	}
	must(tt, store.Subs.Delete(grp, alice.Uid()))
	Hook = nil
	if inside == nil || len(inside.Subs) != len(before.Subs) {
		tt.Fatal("snapshot from the hook")
	}
	for _, s := range inside.Subs {
		if s.DeletedAt != nil {
			tt.Fatal("the snapshot must be taken before the change")
		}
	}
}
