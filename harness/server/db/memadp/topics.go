package memadp

import (
	"sort"
	"strings"
	"time"

	"github.com/tinode/chat/server/db/common"
	t "github.com/tinode/chat/server/store/types"
)

// Table 'topics' + 'topictags'.
type topicRow struct {
	name      string
	createdAt time.Time
	updatedAt time.Time
	state     t.ObjState
	stateAt   *time.Time
	touchedAt time.Time
	useBt     bool
	owner     t.Uid
	access    t.DefaultAccess
	seqId     int
	delId     int
	public    []byte
	trusted   []byte
	// Column topics.tags
	tags t.StringSlice
	// Table topictags
	tagIdx map[string]struct{}
}

// UNIQUE INDEX subscriptions_topic_userid(topic, userid)
type subKey struct {
	topic string
	user  t.Uid
}

// Table 'subscriptions'.
type subRow struct {
	id        int
	createdAt time.Time
	updatedAt time.Time
	deletedAt *time.Time
	user      t.Uid
	topic     string
	delId     int
	recvSeqId int
	readSeqId int
	modeWant  t.AccessMode
	modeGiven t.AccessMode
	private   []byte
}

func (r *topicRow) out() *t.Topic {
	tt := new(t.Topic)
	tt.Id = r.name
	tt.CreatedAt = r.createdAt
	tt.UpdatedAt = r.updatedAt
	tt.State = r.state
	tt.StateAt = copyTimePtr(r.stateAt)
	tt.TouchedAt = r.touchedAt
	tt.UseBt = r.useBt
	tt.Owner = r.owner.String()
	tt.Access = r.access
	tt.SeqId = r.seqId
	tt.DelId = r.delId
	tt.Public = fromJSON(r.public)
	tt.Trusted = fromJSON(r.trusted)
	tt.Tags = copyTags(r.tags)
	return tt
}

func (r *subRow) out(withPrivate bool) t.Subscription {
	var sub t.Subscription
	sub.CreatedAt = r.createdAt
	sub.UpdatedAt = r.updatedAt
	sub.DeletedAt = copyTimePtr(r.deletedAt)
	sub.User = r.user.String()
	sub.Topic = r.topic
	sub.DelId = r.delId
	sub.RecvSeqId = r.recvSeqId
	sub.ReadSeqId = r.readSeqId
	sub.ModeWant = r.modeWant
	sub.ModeGiven = r.modeGiven
	if withPrivate {
		sub.Private = fromJSON(r.private)
	}
	return sub
}

// Select subscription rows, ordered by topic name then by user id.
func (a *Adapter) subsSelect(pred func(s *subRow) bool) []*subRow {
	var rows []*subRow
	for _, s := range a.subs {
		if pred(s) {
			rows = append(rows, s)
		}
	}
	sort.Slice(rows, func(i, j int) bool {
		if rows[i].topic != rows[j].topic {
			return rows[i].topic < rows[j].topic
		}
		return rows[i].user < rows[j].user
	})
	return rows
}

// topicCreate inserts a row into topics and topictags. Nothing is changed on error.
func (a *Adapter) topicCreate(topic *t.Topic) error {
	if _, ok := a.topics[topic.Id]; ok {
		// UNIQUE INDEX topics_name(name): raw driver error.
		return ErrDupKey
	}
	// Save topic's tags to a separate table to make topic findable.
	if hasDups(topic.Tags) {
		return t.ErrDuplicate
	}

	a.topics[topic.Id] = &topicRow{
		name:      topic.Id,
		createdAt: ms(topic.CreatedAt),
		updatedAt: ms(topic.UpdatedAt),
		touchedAt: ms(topic.TouchedAt),
		state:     topic.State,
		useBt:     topic.UseBt,
		owner:     t.ParseUid(topic.Owner),
		access:    normAccess(topic.Access),
		public:    toJSON(topic.Public),
		trusted:   toJSON(topic.Trusted),
		tags:      copyTags(topic.Tags),
		tagIdx:    tagSet(topic.Tags),
	}
	return nil
}

// TopicCreate saves topic object to database.
func (a *Adapter) TopicCreate(topic *t.Topic) error {
	a.mu.Lock()
	defer a.mu.Unlock()
	if err := a.hook("TopicCreate", topic); err != nil {
		return err
	}

	return a.topicCreate(topic)
}

// Check if the subscription can be inserted: FOREIGN KEY(userid) REFERENCES users(id).
func (a *Adapter) subscriptionCheck(sub *t.Subscription) error {
	if _, ok := a.users[t.ParseUid(sub.User)]; !ok {
		return ErrForeignKey
	}
	return nil
}

// INSERT ... or, on duplicate key, un-delete and reset the existing row.
// The naming is as in the mysql adapter: with undelete == true 'private' of an existing row is retained,
// otherwise it's overwritten.
func (a *Adapter) createSubscription(sub *t.Subscription, undelete bool) {
	isOwner := (sub.ModeGiven & sub.ModeWant).IsOwner()

	jpriv := toJSON(sub.Private)
	uid := t.ParseUid(sub.User)
	key := subKey{topic: sub.Topic, user: uid}
	if row := a.subs[key]; row == nil {
		a.nextSubId++
		a.subs[key] = &subRow{
			id:        a.nextSubId,
			createdAt: ms(sub.CreatedAt),
			updatedAt: ms(sub.UpdatedAt),
			user:      uid,
			topic:     sub.Topic,
			modeWant:  normMode(sub.ModeWant),
			modeGiven: normMode(sub.ModeGiven),
			private:   jpriv,
		}
	} else {
		row.createdAt = ms(sub.CreatedAt)
		row.updatedAt = ms(sub.UpdatedAt)
		row.deletedAt = nil
		row.modeWant = normMode(sub.ModeWant)
		row.modeGiven = normMode(sub.ModeGiven)
		row.delId = 0
		row.recvSeqId = 0
		row.readSeqId = 0
		if !undelete {
			row.private = jpriv
		}
	}

	if isOwner {
		if top := a.topics[sub.Topic]; top != nil {
			top.owner = uid
		}
	}
}

// TopicCreateP2P given two users creates a p2p topic
func (a *Adapter) TopicCreateP2P(initiator, invited *t.Subscription) error {
	a.mu.Lock()
	defer a.mu.Unlock()
	if err := a.hook("TopicCreateP2P", initiator, invited); err != nil {
		return err
	}

	// Everything is in one transaction: check for all possible failures first.
	if err := a.subscriptionCheck(initiator); err != nil {
		return err
	}
	if err := a.subscriptionCheck(invited); err != nil {
		return err
	}
	if _, ok := a.topics[initiator.Topic]; ok {
		return ErrDupKey
	}

	a.createSubscription(initiator, false)
	a.createSubscription(invited, true)

	topic := &t.Topic{ObjHeader: t.ObjHeader{Id: initiator.Topic}}
	topic.ObjHeader.MergeTimes(&initiator.ObjHeader)
	topic.TouchedAt = initiator.GetTouchedAt()
	return a.topicCreate(topic)
}

// TopicGet loads a single topic by name, if it exists. If the topic does not exist the call returns (nil, nil)
func (a *Adapter) TopicGet(topic string) (*t.Topic, error) {
	a.mu.Lock()
	defer a.mu.Unlock()
	if err := a.hook("TopicGet", topic); err != nil {
		return nil, err
	}

	row := a.topics[topic]
	if row == nil {
		return nil, nil
	}
	return row.out(), nil
}

// TopicsForUser loads user's contact list: p2p and grp topics, except for 'me' & 'fnd' subscriptions.
// Reads and denormalizes Public value.
func (a *Adapter) TopicsForUser(uid t.Uid, keepDeleted bool, opts *t.QueryOpt) ([]t.Subscription, error) {
	a.mu.Lock()
	defer a.mu.Unlock()
	if err := a.hook("TopicsForUser", uid, keepDeleted, opts); err != nil {
		return nil, err
	}

	maxResults := a.maxRes()

	// Fetch ALL user's subscriptions, even those which has not been modified recently.
	rows := a.subsSelect(func(s *subRow) bool {
		if s.user != uid {
			return false
		}
		if !keepDeleted && s.deletedAt != nil {
			return false
		}
		if opts != nil && opts.Topic != "" && s.topic != opts.Topic {
			return false
		}
		return true
	})

	limit := 0
	ims := time.Time{}
	if opts != nil {
		// Apply the limit only when the client does not manage the cache (or cold start).
		// Otherwise have to get all subscriptions and do a manual join with users/topics.
		if opts.IfModifiedSince == nil {
			if opts.Limit > 0 && opts.Limit < maxResults {
				limit = opts.Limit
			} else {
				limit = maxResults
			}
		} else {
			ims = *opts.IfModifiedSince
		}
	} else {
		limit = maxResults
	}

	if limit > 0 && len(rows) > limit {
		rows = rows[:limit]
	}

	// Fetch subscriptions. Two queries are needed: users table (p2p) and topics table (grp).
	// Prepare a list of separate subscriptions to users vs topics
	join := make(map[string]t.Subscription) // Keeping these to make a join with table for .private and .access
	topq := make(map[string]struct{})
	usrq := make(map[t.Uid]struct{})
	for _, row := range rows {
		sub := row.out(true)
		tname := sub.Topic
		sub.User = uid.String()
		tcat := t.GetTopicCat(tname)

		if tcat == t.TopicCatMe || tcat == t.TopicCatFnd {
			// One of 'me', 'fnd' subscriptions, skip. Don't skip 'sys' subscription.
			continue
		} else if tcat == t.TopicCatP2P {
			// P2P subscription, find the other user to get user.Public and user.Trusted.
			uid1, uid2, _ := t.ParseP2P(tname)
			if uid1 == uid {
				usrq[uid2] = struct{}{}
				sub.SetWith(uid2.UserId())
			} else {
				usrq[uid1] = struct{}{}
				sub.SetWith(uid1.UserId())
			}
			topq[tname] = struct{}{}
		} else {
			// Group or 'sys' subscription.
			if tcat == t.TopicCatGrp {
				// Maybe convert channel name to topic name.
				tname = t.ChnToGrp(tname)
			}
			topq[tname] = struct{}{}
		}
		join[tname] = sub
	}

	var subs []t.Subscription
	if len(join) == 0 {
		return subs, nil
	}

	// Fetch grp topics and join to subscriptions.
	for tname := range topq {
		top := a.topics[tname]
		if top == nil {
			continue
		}
		if !keepDeleted && top.state == t.StateDeleted {
			// Optionally skip deleted topics.
			continue
		}
		if !ims.IsZero() && !top.touchedAt.After(ims) {
			// Use cache timestamp if provided: get newer entries only.
			continue
		}

		sub := join[tname]
		// Check if sub.UpdatedAt needs to be adjusted to earlier or later time.
		sub.UpdatedAt = common.SelectLatestTime(sub.UpdatedAt, top.updatedAt)
		sub.SetState(top.state)
		sub.SetTouchedAt(top.touchedAt)
		sub.SetSeqId(top.seqId)
		if t.GetTopicCat(sub.Topic) == t.TopicCatGrp {
			sub.SetPublic(fromJSON(top.public))
			sub.SetTrusted(fromJSON(top.trusted))
		}
		// Put back the updated value of a subsription, will process further below
		join[tname] = sub
	}

	// Fetch p2p users and join to p2p subscriptions.
	for uid2 := range usrq {
		usr2 := a.users[uid2]
		if usr2 == nil {
			continue
		}
		if !keepDeleted && usr2.state == t.StateDeleted {
			// Optionally skip deleted users.
			continue
		}

		// Ignoring ims: we need all users to get LastSeen and UserAgent.

		joinOn := uid.P2PName(uid2)
		if sub, ok := join[joinOn]; ok {
			sub.UpdatedAt = common.SelectLatestTime(sub.UpdatedAt, usr2.updatedAt)
			sub.SetState(usr2.state)
			sub.SetPublic(fromJSON(usr2.public))
			sub.SetTrusted(fromJSON(usr2.trusted))
			sub.SetDefaultAccess(usr2.access.Auth, usr2.access.Anon)
			sub.SetLastSeenAndUA(copyTimePtr(usr2.lastSeen), usr2.userAgent)
			join[joinOn] = sub
		}
	}

	// mysql returns the map in random order; sort by name to be reproducible.
	names := make([]string, 0, len(join))
	for tname := range join {
		names = append(names, tname)
	}
	sort.Strings(names)
	subs = make([]t.Subscription, 0, len(join))
	for _, tname := range names {
		subs = append(subs, join[tname])
	}

	return common.SelectEarliestUpdatedSubs(subs, opts, maxResults), nil
}

// UsersForTopic loads users subscribed to the given topic.
// The difference between UsersForTopic vs SubsForTopic is that the former loads user.Public,
// the latter does not.
func (a *Adapter) UsersForTopic(topic string, keepDeleted bool, opts *t.QueryOpt) ([]t.Subscription, error) {
	a.mu.Lock()
	defer a.mu.Unlock()
	if err := a.hook("UsersForTopic", topic, keepDeleted, opts); err != nil {
		return nil, err
	}

	tcat := t.GetTopicCat(topic)

	limit := a.maxRes()
	var oneUser t.Uid
	var filterUser t.Uid
	if opts != nil {
		// Ignore IfModifiedSince: loading all entries because a topic cannot have too many subscribers.
		// Those unmodified will be stripped of Public & Private.

		if !opts.User.IsZero() {
			// For p2p topics we have to fetch both users otherwise public cannot be swapped.
			if tcat != t.TopicCatP2P {
				filterUser = opts.User
			}
			oneUser = opts.User
		}
		if opts.Limit > 0 && opts.Limit < limit {
			limit = opts.Limit
		}
	}

	// Fetch all subscribed users (JOIN users AS u ON s.userid=u.id).
	rows := a.subsSelect(func(s *subRow) bool {
		if s.topic != topic {
			return false
		}
		user := a.users[s.user]
		if user == nil {
			return false
		}
		if !keepDeleted {
			// Filter out rows with users deleted
			if user.state == t.StateDeleted {
				return false
			}
			// For p2p topics we must load all subscriptions including deleted.
			// Otherwise it will be impossible to swipe Public values.
			if tcat != t.TopicCatP2P && s.deletedAt != nil {
				// Filter out deleted subscriptions.
				return false
			}
		}
		if !filterUser.IsZero() && s.user != filterUser {
			return false
		}
		return true
	})
	if len(rows) > limit {
		rows = rows[:limit]
	}

	// Fetch subscriptions
	var subs []t.Subscription
	for _, row := range rows {
		user := a.users[row.user]
		sub := row.out(true)
		sub.SetPublic(fromJSON(user.public))
		sub.SetTrusted(fromJSON(user.trusted))
		sub.SetLastSeenAndUA(copyTimePtr(user.lastSeen), user.userAgent)
		subs = append(subs, sub)
	}

	if tcat == t.TopicCatP2P && len(subs) > 0 {
		// Swap public & lastSeen values of P2P topics as expected.
		if len(subs) == 1 {
			// The other user is deleted, nothing we can do.
			subs[0].SetPublic(nil)
			subs[0].SetTrusted(nil)
			subs[0].SetLastSeenAndUA(nil, "")
		} else {
			tmp := subs[0].GetPublic()
			subs[0].SetPublic(subs[1].GetPublic())
			subs[1].SetPublic(tmp)

			tmp = subs[0].GetTrusted()
			subs[0].SetTrusted(subs[1].GetTrusted())
			subs[1].SetTrusted(tmp)

			lastSeen := subs[0].GetLastSeen()
			userAgent := subs[0].GetUserAgent()
			subs[0].SetLastSeenAndUA(subs[1].GetLastSeen(), subs[1].GetUserAgent())
			subs[1].SetLastSeenAndUA(lastSeen, userAgent)
		}

		// Remove deleted and unneeded subscriptions
		if !keepDeleted || !oneUser.IsZero() {
			var xsubs []t.Subscription
			for i := range subs {
				if (subs[i].DeletedAt != nil && !keepDeleted) || (!oneUser.IsZero() && subs[i].Uid() != oneUser) {
					continue
				}
				xsubs = append(xsubs, subs[i])
			}
			subs = xsubs
		}
	}

	return subs, nil
}

// OwnTopics loads a slice of topic names where the user is the owner.
func (a *Adapter) OwnTopics(uid t.Uid) ([]string, error) {
	a.mu.Lock()
	defer a.mu.Unlock()
	if err := a.hook("OwnTopics", uid); err != nil {
		return nil, err
	}

	var names []string
	for name, top := range a.topics {
		if top.owner == uid {
			names = append(names, name)
		}
	}
	sort.Strings(names)
	return names, nil
}

// ChannelsForUser loads a slice of topic names where the user is a channel reader and notifications (P) are enabled.
func (a *Adapter) ChannelsForUser(uid t.Uid) ([]string, error) {
	a.mu.Lock()
	defer a.mu.Unlock()
	if err := a.hook("ChannelsForUser", uid); err != nil {
		return nil, err
	}

	var names []string
	for _, s := range a.subsSelect(func(s *subRow) bool {
		return s.user == uid && strings.HasPrefix(s.topic, "chn") &&
			s.modeWant.IsPresencer() && s.modeGiven.IsPresencer() && s.deletedAt == nil
	}) {
		names = append(names, s.topic)
	}
	return names, nil
}

// TopicShare creates topic subscriptions.
func (a *Adapter) TopicShare(shares []*t.Subscription) error {
	a.mu.Lock()
	defer a.mu.Unlock()
	if err := a.hook("TopicShare", shares); err != nil {
		return err
	}

	// One transaction: if any of the inserts fails, none are applied.
	for _, sub := range shares {
		if err := a.subscriptionCheck(sub); err != nil {
			return err
		}
	}
	for _, sub := range shares {
		a.createSubscription(sub, true)
	}
	return nil
}

// TopicDelete deletes specified topic.
func (a *Adapter) TopicDelete(topic string, isChan, hard bool) error {
	a.mu.Lock()
	defer a.mu.Unlock()
	if err := a.hook("TopicDelete", topic, isChan, hard); err != nil {
		return err
	}

	// If the topic is a channel, must try to delete subscriptions under both grpXXX and chnXXX names.
	names := map[string]struct{}{topic: {}}
	if isChan {
		names[t.GrpToChn(topic)] = struct{}{}
	}

	if hard {
		// Delete subscriptions. If this is a channel, delete both group subscriptions and channel subscriptions.
		for key := range a.subs {
			if _, ok := names[key.topic]; ok {
				delete(a.subs, key)
			}
		}

		a.messageDeleteAll(topic)

		// Delete topic tags and the topic.
		a.topicRowDelete(topic)
	} else {
		now := t.TimeNow()

		for key, sub := range a.subs {
			if _, ok := names[key.topic]; ok {
				sub.updatedAt = now
				sub.deletedAt = copyTimePtr(&now)
			}
		}

		if top := a.topics[topic]; top != nil {
			top.updatedAt = now
			top.touchedAt = now
			top.state = t.StateDeleted
			top.stateAt = copyTimePtr(&now)
		}
	}
	return nil
}

// TopicUpdateOnMessage updates topic's SeqId value and TouchedAt timestamp.
func (a *Adapter) TopicUpdateOnMessage(topic string, msg *t.Message) error {
	a.mu.Lock()
	defer a.mu.Unlock()
	if err := a.hook("TopicUpdateOnMessage", topic, msg); err != nil {
		return err
	}

	if top := a.topics[topic]; top != nil {
		top.seqId = msg.SeqId
		top.touchedAt = ms(msg.CreatedAt)
	}
	return nil
}

// TopicUpdate updates topic record.
func (a *Adapter) TopicUpdate(topic string, update map[string]any) error {
	a.mu.Lock()
	defer a.mu.Unlock()
	if err := a.hook("TopicUpdate", topic, update); err != nil {
		return err
	}

	// Like the mysql adapter, this modifies the caller's map.
	if touched, updated := update["TouchedAt"], update["UpdatedAt"]; touched == nil && updated != nil {
		update["TouchedAt"] = updated
	}

	const table = "topics"
	if len(update) == 0 {
		return badKey(table, "")
	}

	var set []func(r *topicRow)
	for key, val := range update {
		val := val
		ok := true
		switch key {
		case "CreatedAt":
			var v time.Time
			if v, ok = asTime(val); ok {
				set = append(set, func(r *topicRow) { r.createdAt = ms(v) })
			}
		case "UpdatedAt":
			var v time.Time
			if v, ok = asTime(val); ok {
				set = append(set, func(r *topicRow) { r.updatedAt = ms(v) })
			}
		case "TouchedAt":
			var v time.Time
			if v, ok = asTime(val); ok {
				set = append(set, func(r *topicRow) { r.touchedAt = ms(v) })
			}
		case "State":
			var v t.ObjState
			if v, ok = asState(val); ok {
				set = append(set, func(r *topicRow) { r.state = v })
			}
		case "StateAt":
			var v *time.Time
			if v, ok = asTimePtr(val); ok {
				set = append(set, func(r *topicRow) { r.stateAt = msPtr(v) })
			}
		case "UseBt":
			var v bool
			if v, ok = asBool(val); ok {
				set = append(set, func(r *topicRow) { r.useBt = v })
			}
		case "Access":
			var v t.DefaultAccess
			if v, ok = asAccess(val); ok {
				set = append(set, func(r *topicRow) { r.access = v })
			}
		case "SeqId":
			var v int
			if v, ok = asInt(val); ok {
				set = append(set, func(r *topicRow) { r.seqId = v })
			}
		case "DelId":
			var v int
			if v, ok = asInt(val); ok {
				set = append(set, func(r *topicRow) { r.delId = v })
			}
		case "Public":
			v := toJSON(val)
			set = append(set, func(r *topicRow) { r.public = copyBytes(v) })
		case "Trusted":
			v := toJSON(val)
			set = append(set, func(r *topicRow) { r.trusted = copyBytes(v) })
		case "Tags":
			var v t.StringSlice
			if v, ok = asTags(val); ok {
				set = append(set, func(r *topicRow) { r.tags = copyTags(v) })
			}
		default:
			return badKey(table, key)
		}
		if !ok {
			return badValue(table, key, val)
		}
	}

	tags := extractTags(update)
	if tags != nil && hasDups(tags) {
		// The transaction is rolled back.
		return t.ErrDuplicate
	}

	row := a.topics[topic]
	if row == nil {
		if len(tags) > 0 {
			// FOREIGN KEY(topic) REFERENCES topics(name) in topictags.
			return ErrForeignKey
		}
		return nil
	}

	for _, fn := range set {
		fn(row)
	}

	// Tags are also stored in a separate table
	if tags != nil {
		row.tagIdx = tagSet(tags)
	}

	return nil
}

// TopicOwnerChange updates topic's owner
func (a *Adapter) TopicOwnerChange(topic string, newOwner t.Uid) error {
	a.mu.Lock()
	defer a.mu.Unlock()
	if err := a.hook("TopicOwnerChange", topic, newOwner); err != nil {
		return err
	}

	if top := a.topics[topic]; top != nil {
		top.owner = newOwner
	}
	return nil
}

// SubscriptionGet reads a subscription of a user to a topic.
func (a *Adapter) SubscriptionGet(topic string, user t.Uid, keepDeleted bool) (*t.Subscription, error) {
	a.mu.Lock()
	defer a.mu.Unlock()
	if err := a.hook("SubscriptionGet", topic, user, keepDeleted); err != nil {
		return nil, err
	}

	row := a.subs[subKey{topic: topic, user: user}]
	if row == nil {
		return nil, nil
	}
	if !keepDeleted && row.deletedAt != nil {
		return nil, nil
	}
	sub := row.out(true)
	return &sub, nil
}

// SubsForUser loads all user's subscriptions. Does NOT load Public or Private values and does
// not load deleted subscriptions.
func (a *Adapter) SubsForUser(forUser t.Uid) ([]t.Subscription, error) {
	a.mu.Lock()
	defer a.mu.Unlock()
	if err := a.hook("SubsForUser", forUser); err != nil {
		return nil, err
	}

	var subs []t.Subscription
	for _, row := range a.subsSelect(func(s *subRow) bool { return s.user == forUser && s.deletedAt == nil }) {
		subs = append(subs, row.out(false))
	}
	return subs, nil
}

// SubsForTopic fetches all subsciptions for a topic. Does NOT load Public value.
// The difference between UsersForTopic vs SubsForTopic is that the former loads user.public+trusted,
// the latter does not.
func (a *Adapter) SubsForTopic(topic string, keepDeleted bool, opts *t.QueryOpt) ([]t.Subscription, error) {
	a.mu.Lock()
	defer a.mu.Unlock()
	if err := a.hook("SubsForTopic", topic, keepDeleted, opts); err != nil {
		return nil, err
	}

	limit := a.maxRes()
	var oneUser t.Uid
	if opts != nil {
		// Ignore IfModifiedSince - we must return all entries
		// Those unmodified will be stripped of Public & Private.
		oneUser = opts.User
		if opts.Limit > 0 && opts.Limit < limit {
			limit = opts.Limit
		}
	}

	var subs []t.Subscription
	for _, row := range a.subsSelect(func(s *subRow) bool {
		if s.topic != topic {
			return false
		}
		if !keepDeleted && s.deletedAt != nil {
			// Filter out deleted rows.
			return false
		}
		return oneUser.IsZero() || s.user == oneUser
	}) {
		if len(subs) >= limit {
			break
		}
		subs = append(subs, row.out(true))
	}
	return subs, nil
}

// SubsUpdate updates one or multiple subscriptions to a topic.
func (a *Adapter) SubsUpdate(topic string, user t.Uid, update map[string]any) error {
	a.mu.Lock()
	defer a.mu.Unlock()
	if err := a.hook("SubsUpdate", topic, user, update); err != nil {
		return err
	}

	const table = "subscriptions"
	if len(update) == 0 {
		return badKey(table, "")
	}

	var set []func(s *subRow)
	for key, val := range update {
		val := val
		ok := true
		switch key {
		case "CreatedAt":
			var v time.Time
			if v, ok = asTime(val); ok {
				set = append(set, func(s *subRow) { s.createdAt = ms(v) })
			}
		case "UpdatedAt":
			var v time.Time
			if v, ok = asTime(val); ok {
				set = append(set, func(s *subRow) { s.updatedAt = ms(v) })
			}
		case "DeletedAt":
			var v *time.Time
			if v, ok = asTimePtr(val); ok {
				set = append(set, func(s *subRow) { s.deletedAt = msPtr(v) })
			}
		case "DelId":
			var v int
			if v, ok = asInt(val); ok {
				set = append(set, func(s *subRow) { s.delId = v })
			}
		case "RecvSeqId":
			var v int
			if v, ok = asInt(val); ok {
				set = append(set, func(s *subRow) { s.recvSeqId = v })
			}
		case "ReadSeqId":
			var v int
			if v, ok = asInt(val); ok {
				set = append(set, func(s *subRow) { s.readSeqId = v })
			}
		case "ModeWant":
			var v t.AccessMode
			if v, ok = asMode(val); ok {
				set = append(set, func(s *subRow) { s.modeWant = v })
			}
		case "ModeGiven":
			var v t.AccessMode
			if v, ok = asMode(val); ok {
				set = append(set, func(s *subRow) { s.modeGiven = v })
			}
		case "Private":
			v := toJSON(val)
			set = append(set, func(s *subRow) { s.private = copyBytes(v) })
		default:
			return badKey(table, key)
		}
		if !ok {
			return badValue(table, key, val)
		}
	}

	// No filter on deletedat: soft-deleted subscriptions are updated too.
	for key, row := range a.subs {
		if key.topic != topic {
			continue
		}
		// Zero user: update all subscriptions of the topic.
		if !user.IsZero() && key.user != user {
			continue
		}
		for _, fn := range set {
			fn(row)
		}
	}

	return nil
}

// SubsDelete marks subscription as deleted.
func (a *Adapter) SubsDelete(topic string, user t.Uid) error {
	a.mu.Lock()
	defer a.mu.Unlock()
	if err := a.hook("SubsDelete", topic, user); err != nil {
		return err
	}

	row := a.subs[subKey{topic: topic, user: user}]
	if row == nil || row.deletedAt != nil {
		return t.ErrNotFound
	}

	now := t.TimeNow()
	row.updatedAt = now
	row.deletedAt = &now

	// Remove records of messages soft-deleted by this user.
	a.dellogDelete(func(d *dellogRow) bool { return d.topic == topic && d.deletedFor == user })

	return nil
}

// Search

// Tag matching shared by FindUsers and FindTopics.
type tagQuery struct {
	// All tags of the query: required and optional.
	index map[string]struct{}
	// Non-empty groups of required tags.
	req []map[string]struct{}
}

func newTagQuery(req [][]string, opt []string) *tagQuery {
	q := &tagQuery{index: make(map[string]struct{})}
	for _, group := range req {
		if len(group) == 0 {
			continue
		}
		set := make(map[string]struct{}, len(group))
		for _, tag := range group {
			set[tag] = struct{}{}
			q.index[tag] = struct{}{}
		}
		q.req = append(q.req, set)
	}
	for _, tag := range opt {
		q.index[tag] = struct{}{}
	}
	return q
}

// Returns the number of indexed tags matching the query (COUNT(*) AS matches) or zero if the
// row does not satisfy the query.
func (q *tagQuery) match(tagIdx map[string]struct{}) int {
	// WHERE tag IN (all tags)
	matches := 0
	for tag := range tagIdx {
		if _, ok := q.index[tag]; ok {
			matches++
		}
	}
	if matches == 0 {
		return 0
	}
	// HAVING COUNT(tag IN (group) OR NULL)>=1 AND ...
	for _, group := range q.req {
		found := false
		for tag := range group {
			if _, ok := tagIdx[tag]; ok {
				found = true
				break
			}
		}
		if !found {
			return 0
		}
	}
	return matches
}

func (q *tagQuery) foundTags(tags t.StringSlice) []string {
	foundTags := make([]string, 0, 1)
	for _, tag := range tags {
		if _, ok := q.index[tag]; ok {
			foundTags = append(foundTags, tag)
		}
	}
	return foundTags
}

// FindUsers returns a list of users who match given tags, such as "email:jdoe@example.com" or "tel:+18003287448".
func (a *Adapter) FindUsers(uid t.Uid, req [][]string, opt []string, activeOnly bool) ([]t.Subscription, error) {
	a.mu.Lock()
	defer a.mu.Unlock()
	if err := a.hook("FindUsers", uid, req, opt, activeOnly); err != nil {
		return nil, err
	}

	q := newTagQuery(req, opt)
	if len(t.FlattenDoubleSlice(req))+len(opt) == 0 {
		// The mysql adapter panics in strings.Repeat with a negative count.
		return nil, ErrEmptyIn
	}

	type match struct {
		user    *userRow
		matches int
	}
	var found []match
	for _, user := range a.users {
		if activeOnly && user.state != t.StateOK {
			continue
		}
		if m := q.match(user.tagIdx); m > 0 {
			found = append(found, match{user, m})
		}
	}
	// ORDER BY matches DESC LIMIT ?
	sort.Slice(found, func(i, j int) bool {
		if found[i].matches != found[j].matches {
			return found[i].matches > found[j].matches
		}
		return found[i].user.id < found[j].user.id
	})
	if limit := a.maxRes(); len(found) > limit {
		found = found[:limit]
	}

	var subs []t.Subscription
	for _, m := range found {
		if m.user.id == uid {
			// Skip the callee
			continue
		}
		var sub t.Subscription
		sub.CreatedAt = m.user.createdAt
		sub.UpdatedAt = m.user.updatedAt
		sub.User = m.user.id.String()
		sub.SetPublic(fromJSON(m.user.public))
		sub.SetTrusted(fromJSON(m.user.trusted))
		sub.SetDefaultAccess(m.user.access.Auth, m.user.access.Anon)
		sub.Private = q.foundTags(m.user.tags)
		subs = append(subs, sub)
	}
	return subs, nil
}

// FindTopics returns a list of topics with matching tags.
func (a *Adapter) FindTopics(req [][]string, opt []string, activeOnly bool) ([]t.Subscription, error) {
	a.mu.Lock()
	defer a.mu.Unlock()
	if err := a.hook("FindTopics", req, opt, activeOnly); err != nil {
		return nil, err
	}

	q := newTagQuery(req, opt)
	if len(t.FlattenDoubleSlice(req))+len(opt) == 0 {
		// The mysql adapter panics in strings.Repeat with a negative count.
		return nil, ErrEmptyIn
	}

	type match struct {
		topic   *topicRow
		matches int
	}
	var found []match
	for _, top := range a.topics {
		if activeOnly && top.state != t.StateOK {
			continue
		}
		if m := q.match(top.tagIdx); m > 0 {
			found = append(found, match{top, m})
		}
	}
	// ORDER BY matches DESC LIMIT ?
	sort.Slice(found, func(i, j int) bool {
		if found[i].matches != found[j].matches {
			return found[i].matches > found[j].matches
		}
		return found[i].topic.name < found[j].topic.name
	})
	if limit := a.maxRes(); len(found) > limit {
		found = found[:limit]
	}

	var subs []t.Subscription
	for _, m := range found {
		var sub t.Subscription
		sub.CreatedAt = m.topic.createdAt
		sub.UpdatedAt = m.topic.updatedAt
		sub.Topic = m.topic.name
		if m.topic.useBt {
			sub.Topic = t.GrpToChn(sub.Topic)
		}
		sub.SetPublic(fromJSON(m.topic.public))
		sub.SetTrusted(fromJSON(m.topic.trusted))
		sub.SetDefaultAccess(m.topic.access.Auth, m.topic.access.Anon)
		sub.Private = q.foundTags(m.topic.tags)
		subs = append(subs, sub)
	}
	return subs, nil
}
