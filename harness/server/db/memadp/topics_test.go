package memadp

import (
	"errors"
	"reflect"
	"testing"
	"time"

	"github.com/tinode/chat/server/store"
	t "github.com/tinode/chat/server/store/types"
)

func TestTopicsAndSubs(tt *testing.T) {
	a := fresh(tt)
	alice, bob, carol := mkUser(tt, map[string]any{"fn": "Alice"}), mkUser(tt, map[string]any{"fn": "Bob"}), mkUser(tt, "C")
	grp := mkGroup(tt, alice.Uid(), "cats", "dogs")

	top, err := store.Topics.Get(grp)
	must(tt, err)
	if top.Id != grp || top.Owner != alice.Uid().String() || top.Access.Anon != t.ModeCReadOnly || top.SeqId != 0 ||
		!top.TouchedAt.Equal(top.CreatedAt) || !reflect.DeepEqual([]string(top.Tags), []string{"cats", "dogs"}) {
		tt.Fatalf("topic: %+v", top)
	}
	if top, err = store.Topics.Get("grpMissing"); top != nil || err != nil {
		tt.Fatal(top, err)
	}
	// Duplicate topic.
	if err = a.TopicCreate(&t.Topic{ObjHeader: t.ObjHeader{Id: grp}}); err != ErrDupKey {
		tt.Fatal(err)
	}
	if err = a.TopicCreate(&t.Topic{ObjHeader: t.ObjHeader{Id: "grpDupTags"}, Tags: []string{"a", "a"}}); err != t.ErrDuplicate {
		tt.Fatal(err)
	}
	if top, _ = store.Topics.Get("grpDupTags"); top != nil {
		tt.Fatal("failed create must be rolled back")
	}
	owned, _ := store.Users.GetOwnTopics(alice.Uid())
	if !reflect.DeepEqual(owned, []string{grp}) {
		tt.Fatal(owned)
	}

	// Subscription to a topic by a non-existent user: foreign key. Nothing is inserted.
	err = store.Subs.Create(
		&t.Subscription{User: bob.Uid().String(), Topic: grp, ModeWant: t.ModeCPublic, ModeGiven: t.ModeCPublic},
		&t.Subscription{User: store.Store.GetUidString(), Topic: grp})
	if err != ErrForeignKey {
		tt.Fatal(err)
	}
	if sub, _ := store.Subs.Get(grp, bob.Uid(), true); sub != nil {
		tt.Fatal("TopicShare must be atomic")
	}

	priv := map[string]any{"comment": "bob's"}
	must(tt, store.Subs.Create(&t.Subscription{User: bob.Uid().String(), Topic: grp,
		ModeWant: t.ModeCPublic, ModeGiven: t.ModeCPublic, Private: priv}))
	priv["comment"] = "changed"
	sub, err := store.Subs.Get(grp, bob.Uid(), false)
	must(tt, err)
	if sub.User != bob.Uid().String() || sub.Topic != grp || sub.ModeWant != t.ModeCPublic || sub.DeletedAt != nil ||
		!reflect.DeepEqual(sub.Private, map[string]any{"comment": "bob's"}) || sub.Id != "" {
		tt.Fatalf("sub: %+v", sub)
	}
	if sub, err = store.Subs.Get(grp, carol.Uid(), true); sub != nil || err != nil {
		tt.Fatal(sub, err)
	}

	// Updates.
	must(tt, store.Subs.Update(grp, bob.Uid(), map[string]any{
		"ModeWant": t.ModeCReadOnly, "ModeGiven": t.ModeCPublic | t.ModeApprove, "ReadSeqId": 3, "RecvSeqId": 4, "DelId": 1,
		"Private": map[string]any{"comment": "new"}}))
	sub, _ = store.Subs.Get(grp, bob.Uid(), false)
	if sub.ModeWant != t.ModeCReadOnly || sub.ModeGiven != t.ModeCPublic|t.ModeApprove || sub.ReadSeqId != 3 || sub.RecvSeqId != 4 ||
		sub.DelId != 1 || !reflect.DeepEqual(sub.Private, map[string]any{"comment": "new"}) {
		tt.Fatalf("sub: %+v", sub)
	}
	must(tt, store.Subs.Update(grp, bob.Uid(), map[string]any{"Private": nil}))
	if sub, _ = store.Subs.Get(grp, bob.Uid(), false); sub.Private != nil {
		tt.Fatal(sub.Private)
	}
	if err = store.Subs.Update(grp, bob.Uid(), map[string]any{"Bogus": 1}); !errors.Is(err, ErrBadUpdate) {
		tt.Fatal(err)
	}
	if err = store.Subs.Update(grp, bob.Uid(), map[string]any{"ModeWant": 1.5}); !errors.Is(err, ErrBadUpdate) {
		tt.Fatal(err)
	}
	// Zero uid: all subscriptions of the topic.
	must(tt, store.Subs.Update(grp, t.ZeroUid, map[string]any{"DelId": 7}))
	subs, err := store.Topics.GetSubs(grp, nil)
	must(tt, err)
	if len(subs) != 2 || subs[0].DelId != 7 || subs[1].DelId != 7 || subs[0].Uid() != t.ZeroUid {
		tt.Fatalf("subs: %+v", subs)
	}
	if subs, _ = store.Topics.GetSubs(grp, &t.QueryOpt{User: bob.Uid()}); len(subs) != 1 || subs[0].User != bob.Uid().String() {
		tt.Fatal(subs)
	}
	if subs, _ = store.Topics.GetSubs(grp, &t.QueryOpt{Limit: 1}); len(subs) != 1 {
		tt.Fatal(subs)
	}

	// Users of the topic.
	must(tt, store.Users.UpdateLastSeen(bob.Uid(), "bob-ua", time.Now()))
	subs, err = store.Topics.GetUsers(grp, nil)
	must(tt, err)
	if len(subs) != 2 {
		tt.Fatal(subs)
	}
	for _, s := range subs {
		if s.User == bob.Uid().String() {
			if !reflect.DeepEqual(s.GetPublic(), map[string]any{"fn": "Bob"}) || s.GetUserAgent() != "bob-ua" || s.GetLastSeen() == nil {
				tt.Fatalf("bob: %+v", s)
			}
		} else if !reflect.DeepEqual(s.GetPublic(), map[string]any{"fn": "Alice"}) || s.GetLastSeen() != nil || s.Private != "owner-private" {
			tt.Fatalf("alice: %+v", s)
		}
	}

	// Topic update.
	now := t.TimeNow().Add(time.Minute)
	upd := map[string]any{"UpdatedAt": now, "Public": map[string]any{"fn": "Renamed"}, "Tags": t.StringSlice{"birds"},
		"Access": t.DefaultAccess{Auth: t.ModeCReadOnly, Anon: t.ModeNone}}
	must(tt, store.Topics.Update(grp, upd))
	top, _ = store.Topics.Get(grp)
	if !top.UpdatedAt.Equal(now) || !top.TouchedAt.Equal(now) || top.Access.Auth != t.ModeCReadOnly ||
		!reflect.DeepEqual(top.Public, map[string]any{"fn": "Renamed"}) || !reflect.DeepEqual([]string(top.Tags), []string{"birds"}) {
		tt.Fatalf("topic: %+v", top)
	}
	if upd["TouchedAt"] != now {
		tt.Fatal("mysql adds TouchedAt to the caller's map")
	}
	if err = store.Topics.Update(grp, map[string]any{"Owner": "x"}); !errors.Is(err, ErrBadUpdate) {
		tt.Fatal(err)
	}
	must(tt, store.Topics.Update("grpMissing", map[string]any{"SeqId": 5}))

	// Search.
	found, err := a.FindTopics([][]string{{"birds", "cats"}}, nil, true)
	must(tt, err)
	if len(found) != 1 || found[0].Topic != grp || !reflect.DeepEqual(found[0].Private, []string{"birds"}) ||
		found[0].GetDefaultAccess().Auth != t.ModeCReadOnly || !reflect.DeepEqual(found[0].GetPublic(), map[string]any{"fn": "Renamed"}) {
		tt.Fatalf("found: %+v", found)
	}
	if found, _ = a.FindTopics(nil, []string{"cats"}, false); len(found) != 0 {
		tt.Fatal("old tags must be removed from the index")
	}

	// Owner change.
	must(tt, store.Topics.OwnerChange(grp, bob.Uid()))
	if top, _ = store.Topics.Get(grp); top.Owner != bob.Uid().String() {
		tt.Fatal(top.Owner)
	}

	// Soft delete of a subscription and restoring it by re-sharing.
	saveMsg(tt, grp, alice.Uid(), 1)
	must(tt, store.Messages.DeleteList(grp, 8, bob.Uid(), []t.Range{{Low: 1}}))
	must(tt, store.Subs.Update(grp, bob.Uid(), map[string]any{"Private": "keep me"}))
	before := a.Dump()
	must(tt, store.Subs.Delete(grp, bob.Uid()))
	if err = store.Subs.Delete(grp, bob.Uid()); err != t.ErrNotFound {
		tt.Fatal(err)
	}
	if err = store.Subs.Delete(grp, carol.Uid()); err != t.ErrNotFound {
		tt.Fatal(err)
	}
	if sub, _ = store.Subs.Get(grp, bob.Uid(), false); sub != nil {
		tt.Fatal("deleted subscription returned")
	}
	if sub, _ = store.Subs.Get(grp, bob.Uid(), true); sub == nil || sub.DeletedAt == nil || sub.DelId != 8 {
		tt.Fatalf("sub: %+v", sub)
	}
	if len(before.DelLog) != 1 || len(a.Dump().DelLog) != 0 {
		tt.Fatal("SubsDelete must remove user's soft-deletion log")
	}
	if subs, _ = store.Topics.GetSubs(grp, nil); len(subs) != 1 {
		tt.Fatal(subs)
	}
	if subs, _ = store.Topics.GetSubsAny(grp, nil); len(subs) != 2 {
		tt.Fatal(subs)
	}
	if subs, _ = store.Topics.GetUsers(grp, nil); len(subs) != 1 {
		tt.Fatal(subs)
	}
	if subs, _ = store.Topics.GetUsersAny(grp, nil); len(subs) != 2 {
		tt.Fatal(subs)
	}
	created := t.TimeNow().Add(time.Hour)
	must(tt, store.Subs.Create(&t.Subscription{ObjHeader: t.ObjHeader{CreatedAt: created}, User: bob.Uid().String(), Topic: grp,
		ModeWant: t.ModeCReadOnly, ModeGiven: t.ModeCReadOnly, Private: "ignored"}))
	sub, _ = store.Subs.Get(grp, bob.Uid(), false)
	if sub == nil || sub.DeletedAt != nil || !sub.CreatedAt.Equal(created) || !sub.UpdatedAt.Equal(created) || sub.DelId != 0 ||
		sub.ReadSeqId != 0 || sub.RecvSeqId != 0 || sub.ModeWant != t.ModeCReadOnly || sub.ModeGiven != t.ModeCReadOnly ||
		sub.Private != "keep me" {
		tt.Fatalf("restored sub: %+v", sub)
	}
	for _, s := range a.Dump().Subs {
		if s.Topic == grp && s.User == uint64(bob.Uid()) {
			for _, s0 := range before.Subs {
				if s0.Topic == grp && s0.User == s.User && s0.RowId != s.RowId {
					tt.Fatal("the row must be reused")
				}
			}
		}
	}
}

func TestP2P(tt *testing.T) {
	a := fresh(tt)
	alice, bob := mkUser(tt, map[string]any{"fn": "Alice"}), mkUser(tt, map[string]any{"fn": "Bob"})
	must(tt, store.Users.Update(bob.Uid(), map[string]any{"Trusted": map[string]any{"staff": true}}))
	must(tt, store.Users.UpdateLastSeen(bob.Uid(), "bob-ua", time.Now()))

	// Invited user does not exist: nothing is created.
	ghost := store.Store.GetUid()
	gname := alice.Uid().P2PName(ghost)
	err := store.Topics.CreateP2P(&t.Subscription{User: alice.Uid().String(), Topic: gname},
		&t.Subscription{User: ghost.String(), Topic: gname})
	if err != ErrForeignKey {
		tt.Fatal(err)
	}
	if snap := a.Dump(); len(snap.Subs) != 4 || len(snap.Topics) != 1 {
		tt.Fatal("failed p2p creation must be rolled back")
	}

	// The invited user has a stale deleted subscription: it's undeleted, private is retained.
	p2p := alice.Uid().P2PName(bob.Uid())
	must(tt, store.Subs.Create(&t.Subscription{User: bob.Uid().String(), Topic: p2p, ModeWant: t.ModeNone, ModeGiven: t.ModeNone, Private: "stale"}))
	must(tt, store.Subs.Update(p2p, bob.Uid(), map[string]any{"ReadSeqId": 9}))
	must(tt, store.Subs.Delete(p2p, bob.Uid()))
	if p2p != mkP2P(tt, alice.Uid(), bob.Uid()) {
		tt.Fatal("name")
	}
	sub, _ := store.Subs.Get(p2p, bob.Uid(), false)
	if sub == nil || sub.Private != "stale" || sub.ModeWant != t.ModeCP2P || sub.ReadSeqId != 0 {
		tt.Fatalf("invited: %+v", sub)
	}
	if sub, _ = store.Subs.Get(p2p, alice.Uid(), false); sub == nil || sub.Private != "one" {
		tt.Fatalf("initiator: %+v", sub)
	}
	top, _ := store.Topics.Get(p2p)
	if top == nil || top.Owner != "" || top.Access.Auth != t.ModeNone || top.Public != nil || top.Tags != nil ||
		!top.CreatedAt.Equal(sub.CreatedAt) || !top.TouchedAt.Equal(sub.CreatedAt) {
		tt.Fatalf("p2p topic: %+v", top)
	}
	// Second creation fails on the unique topic name, subscriptions are not reset.
	must(tt, store.Subs.Update(p2p, alice.Uid(), map[string]any{"ReadSeqId": 5}))
	err = store.Topics.CreateP2P(
		&t.Subscription{User: alice.Uid().String(), Topic: p2p, ModeWant: t.ModeCP2P, ModeGiven: t.ModeCP2P},
		&t.Subscription{User: bob.Uid().String(), Topic: p2p, ModeWant: t.ModeCP2P, ModeGiven: t.ModeCP2P})
	if err != ErrDupKey {
		tt.Fatal(err)
	}
	if sub, _ = store.Subs.Get(p2p, alice.Uid(), false); sub.ReadSeqId != 5 || sub.Private != "one" {
		tt.Fatalf("must be rolled back: %+v", sub)
	}

	// Users of the p2p topic: public and last seen are swapped.
	subs, err := store.Topics.GetUsers(p2p, nil)
	must(tt, err)
	if len(subs) != 2 {
		tt.Fatal(subs)
	}
	for _, s := range subs {
		if s.User == alice.Uid().String() {
			if !reflect.DeepEqual(s.GetPublic(), map[string]any{"fn": "Bob"}) || s.GetUserAgent() != "bob-ua" ||
				!reflect.DeepEqual(s.GetTrusted(), map[string]any{"staff": true}) || s.Private != "one" {
				tt.Fatalf("alice's: %+v", s)
			}
		} else if !reflect.DeepEqual(s.GetPublic(), map[string]any{"fn": "Alice"}) || s.GetLastSeen() != nil || s.GetTrusted() != nil {
			tt.Fatalf("bob's: %+v", s)
		}
	}

	// Contact lists.
	saveMsg(tt, p2p, alice.Uid(), 1)
	grp := mkGroup(tt, bob.Uid())
	chn := t.GrpToChn(grp)
	must(tt, store.Topics.Update(grp, map[string]any{"UseBt": true}))
	must(tt, store.Subs.Create(&t.Subscription{User: alice.Uid().String(), Topic: chn, ModeWant: t.ModeCChnReader, ModeGiven: t.ModeCChnReader}))
	subs, err = store.Users.GetTopics(alice.Uid(), nil)
	must(tt, err)
	if len(subs) != 2 || subs[0].Topic != chn || subs[1].Topic != p2p {
		tt.Fatalf("contacts: %+v", subs)
	}
	if s := subs[1]; s.GetWith() != bob.Uid().UserId() || s.GetSeqId() != 1 || !reflect.DeepEqual(s.GetPublic(), map[string]any{"fn": "Bob"}) ||
		s.GetDefaultAccess() == nil || s.GetDefaultAccess().Auth != t.ModeCAuth || s.GetUserAgent() != "bob-ua" ||
		s.GetState() != t.StateOK || s.GetTouchedAt().IsZero() || s.User != alice.Uid().String() || s.ReadSeqId != 1 {
		tt.Fatalf("p2p contact: %+v", s)
	}
	if s := subs[0]; !reflect.DeepEqual(s.GetPublic(), map[string]any{"fn": grp}) || s.GetWith() != "" || s.GetDefaultAccess() != nil {
		tt.Fatalf("chn contact: %+v", s)
	}
	if chans, _ := store.Users.GetChannels(alice.Uid()); !reflect.DeepEqual(chans, []string{chn}) {
		tt.Fatal(chans)
	}
	if subs, _ = store.Users.GetTopics(alice.Uid(), &t.QueryOpt{Topic: p2p}); len(subs) != 1 || subs[0].Topic != p2p {
		tt.Fatal(subs)
	}
	if subs, _ = store.Users.GetTopics(alice.Uid(), &t.QueryOpt{Limit: 1}); len(subs) != 1 {
		tt.Fatal(subs)
	}
	// If-modified-since.
	future := t.TimeNow().Add(time.Hour)
	if subs, _ = store.Users.GetTopics(alice.Uid(), &t.QueryOpt{IfModifiedSince: &future}); len(subs) != 0 {
		tt.Fatal(subs)
	}
	later := t.TimeNow().Add(2 * time.Hour)
	must(tt, a.TopicUpdateOnMessage(p2p, &t.Message{ObjHeader: t.ObjHeader{CreatedAt: later}, SeqId: 2}))
	if subs, _ = store.Users.GetTopics(alice.Uid(), &t.QueryOpt{IfModifiedSince: &future}); len(subs) != 1 || subs[0].Topic != p2p ||
		subs[0].GetSeqId() != 2 || !subs[0].GetTouchedAt().Equal(later) {
		tt.Fatalf("ims: %+v", subs)
	}

	// Deleted subscriptions: GetTopics vs GetTopicsAny.
	must(tt, store.Subs.Delete(chn, alice.Uid()))
	if subs, _ = store.Users.GetTopics(alice.Uid(), nil); len(subs) != 1 {
		tt.Fatal(subs)
	}
	if subs, _ = store.Users.GetTopicsAny(alice.Uid(), nil); len(subs) != 2 || subs[0].DeletedAt == nil {
		tt.Fatal(subs)
	}
	if chans, _ := store.Users.GetChannels(alice.Uid()); len(chans) != 0 {
		tt.Fatal(chans)
	}

	// The other user is soft-deleted.
	must(tt, store.Users.Delete(bob.Uid(), false))
	if subs, _ = store.Topics.GetUsers(p2p, nil); len(subs) != 0 {
		tt.Fatal(subs)
	}
	if subs, _ = store.Topics.GetUsersAny(p2p, nil); len(subs) != 2 || subs[0].DeletedAt == nil || subs[1].DeletedAt == nil {
		tt.Fatal(subs)
	}
	if subs, _ = store.Users.GetTopicsAny(alice.Uid(), &t.QueryOpt{Topic: p2p}); len(subs) != 1 || subs[0].GetState() != t.StateDeleted {
		tt.Fatalf("deleted p2p: %+v", subs)
	}
}

func TestTopicDelete(tt *testing.T) {
	a := fresh(tt)
	alice, bob := mkUser(tt, "A"), mkUser(tt, "B")
	grp := mkGroup(tt, alice.Uid(), "tag")
	chn := t.GrpToChn(grp)
	must(tt, store.Subs.Create(&t.Subscription{User: bob.Uid().String(), Topic: chn, ModeWant: t.ModeCChnReader, ModeGiven: t.ModeCChnReader}))
	saveMsg(tt, grp, alice.Uid(), 1)
	saveMsg(tt, grp, alice.Uid(), 2)
	must(tt, store.Messages.DeleteList(grp, 1, t.ZeroUid, []t.Range{{Low: 1}}))

	// Soft, not a channel: chn subscription is not touched.
	must(tt, store.Topics.Delete(grp, false, false))
	top, _ := store.Topics.Get(grp)
	if top == nil || top.State != t.StateDeleted || top.StateAt == nil {
		tt.Fatalf("topic: %+v", top)
	}
	if sub, _ := store.Subs.Get(grp, alice.Uid(), false); sub != nil {
		tt.Fatal("subscription must be deleted")
	}
	if sub, _ := store.Subs.Get(chn, bob.Uid(), false); sub == nil {
		tt.Fatal("channel subscription must stay")
	}
	must(tt, store.Topics.Delete(grp, true, false))
	if sub, _ := store.Subs.Get(chn, bob.Uid(), false); sub != nil {
		tt.Fatal("channel subscription must be deleted")
	}
	if found, _ := a.FindTopics(nil, []string{"tag"}, true); len(found) != 0 {
		tt.Fatal(found)
	}
	if found, _ := a.FindTopics(nil, []string{"tag"}, false); len(found) != 1 {
		tt.Fatal(found)
	}
	if snap := a.Dump(); len(snap.Messages) != 2 || len(snap.DelLog) != 1 {
		tt.Fatal("soft delete keeps messages")
	}

	// Hard.
	must(tt, store.Topics.Delete(grp, true, true))
	snap := a.Dump()
	if len(snap.Messages) != 0 || len(snap.DelLog) != 0 || len(snap.Topics) != 1 || len(snap.Subs) != 4 {
		tt.Fatalf("hard delete: %+v", snap)
	}
	must(tt, store.Topics.Delete(grp, true, true))
}

func TestFind(tt *testing.T) {
	a := fresh(tt)
	u1 := mkUser(tt, "1", "a", "b", "c")
	u2 := mkUser(tt, "2", "a", "b")
	u3 := mkUser(tt, "3", "a", "x")
	me := mkUser(tt, "me", "a", "b", "c", "x")

	found, err := a.FindUsers(me.Uid(), nil, []string{"a", "b", "c"}, true)
	must(tt, err)
	if len(found) != 3 || found[0].User != u1.Uid().String() || found[1].User != u2.Uid().String() || found[2].User != u3.Uid().String() {
		tt.Fatalf("found: %+v", found)
	}
	if !reflect.DeepEqual(found[0].Private, []string{"a", "b", "c"}) || !reflect.DeepEqual(found[2].Private, []string{"a"}) ||
		found[0].GetPublic() != "1" || found[0].GetDefaultAccess().Auth != t.ModeCAuth || !found[0].CreatedAt.Equal(u1.CreatedAt) {
		tt.Fatalf("found: %+v", found[0])
	}
	// (b OR x) AND (c OR x), optional a.
	found, err = a.FindUsers(me.Uid(), [][]string{{"b", "x"}, {}, {"c", "x"}}, []string{"a"}, true)
	must(tt, err)
	if len(found) != 2 || found[0].User != u1.Uid().String() || found[1].User != u3.Uid().String() {
		tt.Fatalf("found: %+v", found)
	}
	// The limit is applied before the caller is excluded.
	must(tt, a.SetMaxResults(1))
	if found, _ = a.FindUsers(me.Uid(), nil, []string{"a", "b", "c", "x"}, true); len(found) != 0 {
		tt.Fatal(found)
	}
	must(tt, a.SetMaxResults(0))
	if _, err = a.FindUsers(me.Uid(), nil, nil, true); err == nil {
		tt.Fatal("empty query must fail")
	}
	if _, err = a.FindTopics([][]string{{}}, nil, true); err == nil {
		tt.Fatal("empty query must fail")
	}

	subs, err := store.Users.FindSubs(me.Uid(), [][]string{{"x"}}, nil, true)
	must(tt, err)
	if len(subs) != 1 || subs[0].User != u3.Uid().String() || subs[0].ModeWant != t.ModeUnset {
		tt.Fatal(subs)
	}
}
