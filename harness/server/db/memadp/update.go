package memadp

import (
	"fmt"
	"time"

	t "github.com/tinode/chat/server/store/types"
)

// Conversion of update map values to column values. The mysql adapter hands the values to the
// driver as is, so only the types which the driver (or the Valuer interface) accepts are supported.

func badKey(table, key string) error {
	return fmt.Errorf("%w: unknown column '%s' in %s", ErrBadUpdate, key, table)
}

func badValue(table, key string, val any) error {
	return fmt.Errorf("%w: unsupported value type %T for column '%s' in %s", ErrBadUpdate, val, key, table)
}

// NOT NULL time column.
func asTime(val any) (time.Time, bool) {
	switch v := val.(type) {
	case time.Time:
		return v, true
	case *time.Time:
		if v != nil {
			return *v, true
		}
	}
	return time.Time{}, false
}

// Nullable time column.
func asTimePtr(val any) (*time.Time, bool) {
	switch v := val.(type) {
	case nil:
		return nil, true
	case time.Time:
		return &v, true
	case *time.Time:
		return copyTimePtr(v), true
	}
	return nil, false
}

func asInt(val any) (int, bool) {
	switch v := val.(type) {
	case int:
		return v, true
	case int8:
		return int(v), true
	case int16:
		return int(v), true
	case int32:
		return int(v), true
	case int64:
		return int(v), true
	case uint:
		return int(v), true
	case uint8:
		return int(v), true
	case uint16:
		return int(v), true
	case uint32:
		return int(v), true
	case uint64:
		return int(v), true
	}
	return 0, false
}

func asMode(val any) (t.AccessMode, bool) {
	switch v := val.(type) {
	case t.AccessMode:
		return normMode(v), true
	case *t.AccessMode:
		if v != nil {
			return normMode(*v), true
		}
	case string:
		var m t.AccessMode
		if err := m.UnmarshalText([]byte(v)); err == nil {
			return m, true
		}
	}
	return t.ModeNone, false
}

func asState(val any) (t.ObjState, bool) {
	switch v := val.(type) {
	case t.ObjState:
		return v, true
	}
	if i, ok := asInt(val); ok {
		return t.ObjState(i), true
	}
	return t.StateOK, false
}

func asAccess(val any) (t.DefaultAccess, bool) {
	switch v := val.(type) {
	case t.DefaultAccess:
		return normAccess(v), true
	case *t.DefaultAccess:
		if v != nil {
			return normAccess(*v), true
		}
	}
	return t.DefaultAccess{}, false
}

func asString(val any) (string, bool) {
	switch v := val.(type) {
	case string:
		return v, true
	case []byte:
		return string(v), true
	}
	return "", false
}

func asBool(val any) (bool, bool) {
	switch v := val.(type) {
	case bool:
		return v, true
	}
	if i, ok := asInt(val); ok {
		return i != 0, true
	}
	return false, false
}

// Tags column: only types.StringSlice implements driver.Valuer; []string is rejected by database/sql.
func asTags(val any) (t.StringSlice, bool) {
	switch v := val.(type) {
	case nil:
		return nil, true
	case t.StringSlice:
		return copyTags(v), true
	}
	return nil, false
}

// If Tags field is updated, get the tags so tags table can be updated too.
// Mirrors mysql's extractTags: returns nil if the tags index must not be touched.
func extractTags(update map[string]any) []string {
	var tags t.StringSlice
	if val := update["Tags"]; val != nil {
		tags, _ = val.(t.StringSlice)
	}
	return []string(tags)
}
