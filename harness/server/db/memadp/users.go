package memadp

import (
	"sort"
	"strings"
	"time"

	"github.com/tinode/chat/server/auth"
	t "github.com/tinode/chat/server/store/types"
)

// Table 'users' + 'usertags'.
type userRow struct {
	id        t.Uid
	createdAt time.Time
	updatedAt time.Time
	state     t.ObjState
	stateAt   *time.Time
	access    t.DefaultAccess
	lastSeen  *time.Time
	userAgent string
	public    []byte
	trusted   []byte
	// Column users.tags
	tags t.StringSlice
	// Table usertags.
	tagIdx map[string]struct{}
}

// Table 'credentials'.
type credRow struct {
	id        int
	createdAt time.Time
	updatedAt time.Time
	deletedAt *time.Time
	method    string
	value     string
	synthetic string
	user      t.Uid
	resp      string
	done      bool
	retries   int
}

// Table 'auth'.
type authRow struct {
	id      int
	uname   string
	user    t.Uid
	scheme  string
	authLvl auth.Level
	secret  []byte
	expires *time.Time
}

// Table 'devices'.
type deviceRow struct {
	id       int
	user     t.Uid
	deviceId string
	platform string
	lastSeen time.Time
	lang     string
}

func (u *userRow) out() t.User {
	var user t.User
	user.SetUid(u.id)
	user.CreatedAt = u.createdAt
	user.UpdatedAt = u.updatedAt
	user.State = u.state
	user.StateAt = copyTimePtr(u.stateAt)
	user.Access = u.access
	user.LastSeen = copyTimePtr(u.lastSeen)
	user.UserAgent = u.userAgent
	user.Public = fromJSON(u.public)
	user.Trusted = fromJSON(u.trusted)
	user.Tags = copyTags(u.tags)
	return user
}

func sortedTags(set map[string]struct{}) []string {
	if len(set) == 0 {
		return nil
	}
	tags := make([]string, 0, len(set))
	for tag := range set {
		tags = append(tags, tag)
	}
	sort.Strings(tags)
	return tags
}

func sortUids(uids []t.Uid) {
	sort.Slice(uids, func(i, j int) bool { return uids[i] < uids[j] })
}

// UserCreate creates a new user.
func (a *Adapter) UserCreate(user *t.User) error {
	a.mu.Lock()
	defer a.mu.Unlock()
	if err := a.hook("UserCreate", user); err != nil {
		return err
	}

	uid := user.Uid()
	if _, ok := a.users[uid]; ok {
		// mysql returns a raw driver error 1062 here.
		return t.ErrDuplicate
	}
	// Duplicate tags violate UNIQUE INDEX usertags_userid_tag, transaction is rolled back.
	if hasDups(user.Tags) {
		return t.ErrDuplicate
	}

	// INSERT INTO users(id,createdat,updatedat,state,access,public,trusted,tags)
	a.users[uid] = &userRow{
		id:        uid,
		createdAt: ms(user.CreatedAt),
		updatedAt: ms(user.UpdatedAt),
		state:     user.State,
		access:    normAccess(user.Access),
		public:    toJSON(user.Public),
		trusted:   toJSON(user.Trusted),
		tags:      copyTags(user.Tags),
		tagIdx:    tagSet(user.Tags),
	}
	return nil
}

// UserGet fetches a single user by user id. If user is not found it returns (nil, nil)
func (a *Adapter) UserGet(uid t.Uid) (*t.User, error) {
	a.mu.Lock()
	defer a.mu.Unlock()
	if err := a.hook("UserGet", uid); err != nil {
		return nil, err
	}

	row := a.users[uid]
	if row == nil || row.state == t.StateDeleted {
		return nil, nil
	}
	user := row.out()
	return &user, nil
}

// UserGetAll returns user records for a given list of user IDs.
func (a *Adapter) UserGetAll(ids ...t.Uid) ([]t.User, error) {
	a.mu.Lock()
	defer a.mu.Unlock()
	if err := a.hook("UserGetAll", ids); err != nil {
		return nil, err
	}

	if len(ids) == 0 {
		return nil, ErrEmptyIn
	}

	want := make(map[t.Uid]struct{}, len(ids))
	for _, id := range ids {
		want[id] = struct{}{}
	}
	uids := make([]t.Uid, 0, len(want))
	for id := range want {
		uids = append(uids, id)
	}
	sortUids(uids)

	users := []t.User{}
	for _, id := range uids {
		if row := a.users[id]; row != nil && row.state != t.StateDeleted {
			users = append(users, row.out())
		}
	}
	return users, nil
}

// Delete all file links which satisfy the predicate.
func (a *Adapter) linksDelete(pred func(l *linkRow) bool) {
	kept := a.links[:0]
	for _, l := range a.links {
		if !pred(l) {
			kept = append(kept, l)
		}
	}
	for i := len(kept); i < len(a.links); i++ {
		a.links[i] = nil
	}
	a.links = kept
}

// Delete messages which satisfy the predicate; filemsglinks.msgid is ON DELETE CASCADE.
func (a *Adapter) messagesDelete(pred func(m *msgRow) bool) {
	deleted := make(map[int64]struct{})
	kept := a.messages[:0]
	for _, m := range a.messages {
		if pred(m) {
			deleted[m.id] = struct{}{}
		} else {
			kept = append(kept, m)
		}
	}
	for i := len(kept); i < len(a.messages); i++ {
		a.messages[i] = nil
	}
	a.messages = kept
	if len(deleted) > 0 {
		a.linksDelete(func(l *linkRow) bool {
			if l.msgId == 0 {
				return false
			}
			_, ok := deleted[l.msgId]
			return ok
		})
	}
}

func (a *Adapter) dellogDelete(pred func(d *dellogRow) bool) {
	kept := a.dellog[:0]
	for _, d := range a.dellog {
		if !pred(d) {
			kept = append(kept, d)
		}
	}
	for i := len(kept); i < len(a.dellog); i++ {
		a.dellog[i] = nil
	}
	a.dellog = kept
}

// Delete a row from topics; filemsglinks.topic is ON DELETE CASCADE.
func (a *Adapter) topicRowDelete(name string) {
	if _, ok := a.topics[name]; !ok {
		return
	}
	delete(a.topics, name)
	a.linksDelete(func(l *linkRow) bool { return l.topic == name })
}

// UserDelete deletes specified user: wipes completely (hard-delete) or marks as deleted.
func (a *Adapter) UserDelete(uid t.Uid, hard bool) error {
	a.mu.Lock()
	defer a.mu.Unlock()
	if err := a.hook("UserDelete", uid, hard); err != nil {
		return err
	}

	now := t.TimeNow()

	// Topics where the user is the owner.
	owned := make(map[string]struct{})
	for name, top := range a.topics {
		if top.owner == uid {
			owned[name] = struct{}{}
		}
	}

	if hard {
		// Delete user's devices.
		a.devicesDelete(uid, "")

		// Delete user's subscriptions in all topics.
		for key, sub := range a.subs {
			if sub.user == uid {
				delete(a.subs, key)
			}
		}

		// Delete records of messages soft-deleted for the user.
		a.dellogDelete(func(d *dellogRow) bool { return d.deletedFor == uid })

		// Delete topics where the user is the owner: first dellog and messages in those topics,
		a.dellogDelete(func(d *dellogRow) bool { _, ok := owned[d.topic]; return ok })
		a.messagesDelete(func(m *msgRow) bool { _, ok := owned[m.topic]; return ok })
		// then all subscriptions (joined on topics.name=sub.topic, i.e. 'chn' subscriptions are not matched),
		for key := range a.subs {
			if _, ok := owned[key.topic]; ok {
				delete(a.subs, key)
			}
		}
		// then topic tags and finally the topics.
		for name := range owned {
			a.topicRowDelete(name)
		}

		// Delete user's authentication records.
		a.authDelete(func(r *authRow) bool { return r.user == uid })

		// Delete all credentials.
		a.credsDelete(func(c *credRow) bool { return c.user == uid })

		// Delete user tags and the user; filemsglinks.userid is ON DELETE CASCADE.
		if _, ok := a.users[uid]; ok {
			delete(a.users, uid)
			a.linksDelete(func(l *linkRow) bool { return !l.user.IsZero() && l.user == uid })
		}
		return nil
	}

	// Disable all user's subscriptions. That includes p2p subscriptions.
	for _, sub := range a.subs {
		if sub.user == uid && sub.deletedAt == nil {
			sub.updatedAt = now
			sub.deletedAt = copyTimePtr(&now)
		}
	}

	// Disable all subscriptions to topics where the user is the owner.
	for key, sub := range a.subs {
		if _, ok := owned[key.topic]; ok {
			sub.updatedAt = now
			sub.deletedAt = copyTimePtr(&now)
		}
	}

	// Disable group topics where the user is the owner.
	for name := range owned {
		top := a.topics[name]
		top.updatedAt = now
		top.touchedAt = now
		top.state = t.StateDeleted
		top.stateAt = copyTimePtr(&now)
	}

	// Disable p2p topics with the user (p2p topic's owner is 0): all ownerless topics where
	// the user has a subscription, deleted or not.
	for key := range a.subs {
		if key.user != uid {
			continue
		}
		if top := a.topics[key.topic]; top != nil && top.owner.IsZero() {
			top.updatedAt = now
			top.touchedAt = now
			top.state = t.StateDeleted
			top.stateAt = copyTimePtr(&now)
		}
	}

	// Disable the other user's subscription to a disabled p2p topic (actually both subscriptions).
	p2p := make(map[string]struct{})
	for key := range a.subs {
		if key.user == uid && strings.HasPrefix(key.topic, "p2p") {
			p2p[key.topic] = struct{}{}
		}
	}
	for key, sub := range a.subs {
		if _, ok := p2p[key.topic]; ok {
			sub.updatedAt = now
			sub.deletedAt = copyTimePtr(&now)
		}
	}

	// Disable user.
	if user := a.users[uid]; user != nil {
		user.updatedAt = now
		user.state = t.StateDeleted
		user.stateAt = copyTimePtr(&now)
	}

	return nil
}

// topicStateForUser is called by UserUpdate when the update contains state change.
func (a *Adapter) topicStateForUser(uid t.Uid, now time.Time, state t.ObjState) {
	if now.IsZero() {
		now = t.TimeNow()
	}
	now = ms(now)

	// Change state of all topics where the user is the owner.
	for _, top := range a.topics {
		if top.owner == uid && top.state != t.StateDeleted {
			top.state = state
			top.stateAt = copyTimePtr(&now)
		}
	}

	// Change state of p2p topics with the user (p2p topic's owner is 0)
	for key := range a.subs {
		if key.user != uid {
			continue
		}
		if top := a.topics[key.topic]; top != nil && top.owner.IsZero() && top.state != t.StateDeleted {
			top.state = state
			top.stateAt = copyTimePtr(&now)
		}
	}
}

// UserUpdate updates user object.
func (a *Adapter) UserUpdate(uid t.Uid, update map[string]any) error {
	a.mu.Lock()
	defer a.mu.Unlock()
	if err := a.hook("UserUpdate", uid, update); err != nil {
		return err
	}

	const table = "users"
	if len(update) == 0 {
		// UPDATE users SET WHERE id=? is a syntax error.
		return badKey(table, "")
	}

	var set []func(u *userRow)
	for key, val := range update {
		val := val
		ok := true
		switch key {
		case "CreatedAt":
			var v time.Time
			if v, ok = asTime(val); ok {
				set = append(set, func(u *userRow) { u.createdAt = ms(v) })
			}
		case "UpdatedAt":
			var v time.Time
			if v, ok = asTime(val); ok {
				set = append(set, func(u *userRow) { u.updatedAt = ms(v) })
			}
		case "State":
			var v t.ObjState
			if v, ok = asState(val); ok {
				set = append(set, func(u *userRow) { u.state = v })
			}
		case "StateAt":
			var v *time.Time
			if v, ok = asTimePtr(val); ok {
				set = append(set, func(u *userRow) { u.stateAt = msPtr(v) })
			}
		case "Access":
			var v t.DefaultAccess
			if v, ok = asAccess(val); ok {
				set = append(set, func(u *userRow) { u.access = v })
			}
		case "LastSeen":
			var v *time.Time
			if v, ok = asTimePtr(val); ok {
				set = append(set, func(u *userRow) {
					if v == nil {
						u.lastSeen = nil
					} else {
						// DATETIME, no fractional seconds.
						s := sec(*v)
						u.lastSeen = &s
					}
				})
			}
		case "UserAgent":
			var v string
			if v, ok = asString(val); ok {
				set = append(set, func(u *userRow) { u.userAgent = v })
			}
		case "Public":
			v := toJSON(val)
			set = append(set, func(u *userRow) { u.public = copyBytes(v) })
		case "Trusted":
			v := toJSON(val)
			set = append(set, func(u *userRow) { u.trusted = copyBytes(v) })
		case "Tags":
			var v t.StringSlice
			if v, ok = asTags(val); ok {
				set = append(set, func(u *userRow) { u.tags = copyTags(v) })
			}
		default:
			return badKey(table, key)
		}
		if !ok {
			return badValue(table, key, val)
		}
	}

	var newState t.ObjState
	stateVal, stateChange := update["State"]
	if stateChange {
		var ok bool
		if newState, ok = stateVal.(t.ObjState); !ok {
			// The transaction is rolled back.
			return t.ErrMalformed
		}
	}

	tags := extractTags(update)
	if tags != nil && hasDups(tags) {
		// The transaction is rolled back.
		return t.ErrDuplicate
	}

	user := a.users[uid]
	if user == nil && len(tags) > 0 {
		// FOREIGN KEY(userid) REFERENCES users(id) in usertags.
		return ErrForeignKey
	}

	if user != nil {
		for _, fn := range set {
			fn(user)
		}
	}

	if stateChange {
		now, _ := update["StateAt"].(time.Time)
		a.topicStateForUser(uid, now, newState)
	}

	// Tags are also stored in a separate table
	if tags != nil && user != nil {
		user.tagIdx = tagSet(tags)
	}

	return nil
}

// UserUpdateTags adds or resets user's tags
func (a *Adapter) UserUpdateTags(uid t.Uid, add, remove, reset []string) ([]string, error) {
	a.mu.Lock()
	defer a.mu.Unlock()
	if err := a.hook("UserUpdateTags", uid, add, remove, reset); err != nil {
		return nil, err
	}

	user := a.users[uid]

	var idx map[string]struct{}
	if reset != nil {
		// Delete all tags first if resetting.
		idx = make(map[string]struct{})
		add = reset
		remove = nil
	} else {
		idx = make(map[string]struct{})
		if user != nil {
			for tag := range user.tagIdx {
				idx[tag] = struct{}{}
			}
		}
	}

	// Now insert new tags. Ignore duplicates if not resetting.
	ignoreDups := reset == nil
	for _, tag := range add {
		if user == nil {
			// FOREIGN KEY(userid) REFERENCES users(id)
			return nil, ErrForeignKey
		}
		if _, ok := idx[tag]; ok {
			if ignoreDups {
				continue
			}
			return nil, t.ErrDuplicate
		}
		idx[tag] = struct{}{}
	}

	// Delete tags.
	for _, tag := range remove {
		delete(idx, tag)
	}

	allTags := sortedTags(idx)
	if user != nil {
		user.tagIdx = idx
		user.tags = copyTags(t.StringSlice(allTags))
	}

	return allTags, nil
}

// UserGetByCred returns user ID for the given validated credential.
func (a *Adapter) UserGetByCred(method, value string) (t.Uid, error) {
	a.mu.Lock()
	defer a.mu.Unlock()
	if err := a.hook("UserGetByCred", method, value); err != nil {
		return t.ZeroUid, err
	}

	synth := method + ":" + value
	for _, c := range a.creds {
		if c.synthetic == synth {
			return c.user, nil
		}
	}
	return t.ZeroUid, nil
}

// UserUnreadCount returns the total number of unread messages in all topics with
// the R permission.
func (a *Adapter) UserUnreadCount(ids ...t.Uid) (map[t.Uid]int, error) {
	a.mu.Lock()
	defer a.mu.Unlock()
	if err := a.hook("UserUnreadCount", ids); err != nil {
		return nil, err
	}

	counts := make(map[t.Uid]int, len(ids))
	for _, id := range ids {
		// Ensure all original uids are always present.
		counts[id] = 0
	}
	if len(ids) == 0 {
		return counts, ErrEmptyIn
	}

	// SUM(t.seqid)-SUM(s.readseqid) ... WHERE t.name=s.topic AND s.deletedat IS NULL AND t.state!=deleted AND
	// INSTR(s.modewant, 'R')>0 AND INSTR(s.modegiven, 'R')>0 GROUP BY s.userid
	for key, sub := range a.subs {
		if _, ok := counts[key.user]; !ok {
			continue
		}
		top := a.topics[key.topic]
		if top == nil || top.state == t.StateDeleted || sub.deletedAt != nil {
			continue
		}
		if !sub.modeWant.IsReader() || !sub.modeGiven.IsReader() {
			continue
		}
		counts[key.user] += top.seqId - sub.readSeqId
	}

	return counts, nil
}

// UserGetUnvalidated returns a list of uids which have never logged in, have no
// validated credentials and haven't been updated since lastUpdatedBefore.
func (a *Adapter) UserGetUnvalidated(lastUpdatedBefore time.Time, limit int) ([]t.Uid, error) {
	a.mu.Lock()
	defer a.mu.Unlock()
	if err := a.hook("UserGetUnvalidated", lastUpdatedBefore, limit); err != nil {
		return nil, err
	}

	done := make(map[t.Uid]int)
	for _, c := range a.creds {
		if c.done {
			done[c.user]++
		}
	}

	var rows []*userRow
	for _, user := range a.users {
		if user.lastSeen == nil && user.updatedAt.Before(lastUpdatedBefore) && done[user.id] == 0 {
			rows = append(rows, user)
		}
	}
	sort.Slice(rows, func(i, j int) bool {
		if !rows[i].updatedAt.Equal(rows[j].updatedAt) {
			return rows[i].updatedAt.Before(rows[j].updatedAt)
		}
		return rows[i].id < rows[j].id
	})

	var uids []t.Uid
	for _, user := range rows {
		if len(uids) >= limit {
			break
		}
		uids = append(uids, user.id)
	}
	return uids, nil
}

// Credential management

func (a *Adapter) credsDelete(pred func(c *credRow) bool) int {
	count := 0
	kept := a.creds[:0]
	for _, c := range a.creds {
		if pred(c) {
			count++
		} else {
			kept = append(kept, c)
		}
	}
	for i := len(kept); i < len(a.creds); i++ {
		a.creds[i] = nil
	}
	a.creds = kept
	return count
}

func (a *Adapter) credBySynthetic(synth string) *credRow {
	for _, c := range a.creds {
		if c.synthetic == synth {
			return c
		}
	}
	return nil
}

func (c *credRow) out() t.Credential {
	var cred t.Credential
	cred.CreatedAt = c.createdAt
	cred.UpdatedAt = c.updatedAt
	cred.User = c.user.String()
	cred.Method = c.method
	cred.Value = c.value
	cred.Resp = c.resp
	cred.Done = c.done
	cred.Retries = c.retries
	return cred
}

// CredUpsert adds or updates a validation record. Returns true if inserted, false if updated.
// 1. if credential is validated:
// 1.1 Hard-delete unconfirmed equivalent record, if exists.
// 1.2 Insert new. Report error if duplicate.
// 2. if credential is not validated:
// 2.1 Check if validated equivalent exist. If so, report an error.
// 2.2 Soft-delete all unvalidated records of the same method.
// 2.3 Undelete existing credential. Return if successful.
// 2.4 Insert new credential record.
func (a *Adapter) CredUpsert(cred *t.Credential) (bool, error) {
	a.mu.Lock()
	defer a.mu.Unlock()
	if err := a.hook("CredUpsert", cred); err != nil {
		return false, err
	}

	now := t.TimeNow()
	userId := t.ParseUid(cred.User)

	// Enforce uniqueness: if credential is confirmed, "method:value" must be unique.
	// if credential is not yet confirmed, "userid:method:value" is unique.
	synth := cred.Method + ":" + cred.Value
	_, userExists := a.users[userId]

	if !cred.Done {
		// Check if this credential is already validated.
		if a.credBySynthetic(synth) != nil {
			return false, t.ErrDuplicate
		}
		// We are going to insert new record.
		synth = cred.User + ":" + synth

		existing := a.credBySynthetic(synth)
		if existing == nil && !userExists {
			// INSERT below fails on FOREIGN KEY(userid), the transaction is rolled back.
			return true, ErrForeignKey
		}

		// Adding new unvalidated credential. Deactivate all unvalidated records of this user and method.
		for _, c := range a.creds {
			if c.user == userId && c.method == cred.Method && !c.done {
				c.deletedAt = copyTimePtr(&now)
			}
		}
		// Assume that the record exists and try to update it: undelete, update timestamp and response value.
		if existing != nil {
			existing.updatedAt = ms(cred.UpdatedAt)
			existing.deletedAt = nil
			existing.resp = cred.Resp
			existing.done = false
			return false, nil
		}
	} else {
		if a.credBySynthetic(synth) != nil {
			// Duplicate on INSERT, the transaction is rolled back.
			return true, t.ErrDuplicate
		}
		if !userExists {
			return true, ErrForeignKey
		}
		// Hard-deleting unconfirmed record if it exists.
		unconf := cred.User + ":" + synth
		a.credsDelete(func(c *credRow) bool { return c.synthetic == unconf })
	}

	// Add new record.
	a.nextCredId++
	a.creds = append(a.creds, &credRow{
		id:        a.nextCredId,
		createdAt: ms(cred.CreatedAt),
		updatedAt: ms(cred.UpdatedAt),
		method:    cred.Method,
		value:     cred.Value,
		synthetic: synth,
		user:      userId,
		resp:      cred.Resp,
		done:      cred.Done,
	})
	return true, nil
}

// CredDel deletes either credentials of the given user. If method is blank all
// credentials are removed. If value is blank all credentials of the given the
// method are removed.
func (a *Adapter) CredDel(uid t.Uid, method, value string) error {
	a.mu.Lock()
	defer a.mu.Unlock()
	if err := a.hook("CredDel", uid, method, value); err != nil {
		return err
	}

	if method == "" {
		// Case 1: hard-delete all records of the user.
		if a.credsDelete(func(c *credRow) bool { return c.user == uid }) == 0 {
			return t.ErrNotFound
		}
		return nil
	}

	match := func(c *credRow) bool {
		return c.user == uid && c.method == method && (value == "" || c.value == value)
	}

	// Case 2.1: delete it if it's validated or if there were no attempts at validation.
	if a.credsDelete(func(c *credRow) bool { return match(c) && (c.done || c.retries == 0) }) > 0 {
		return nil
	}

	// Case 2.2: mysql marks the matching records as soft-deleted, then unconditionally
	// (count >= 0) reports ErrNotFound which rolls the transaction back: no change.
	return t.ErrNotFound
}

// CredConfirm marks given credential method as confirmed.
func (a *Adapter) CredConfirm(uid t.Uid, method string) error {
	a.mu.Lock()
	defer a.mu.Unlock()
	if err := a.hook("CredConfirm", uid, method); err != nil {
		return err
	}

	var rows []*credRow
	for _, c := range a.creds {
		if c.user == uid && c.method == method && c.deletedAt == nil && !c.done {
			rows = append(rows, c)
		}
	}
	if len(rows) == 0 {
		return t.ErrNotFound
	}

	// synthetic=CONCAT(method,':',value) must stay unique.
	newSynth := make(map[string]struct{})
	for _, c := range rows {
		synth := c.method + ":" + c.value
		if _, ok := newSynth[synth]; ok {
			return t.ErrDuplicate
		}
		newSynth[synth] = struct{}{}
		if other := a.credBySynthetic(synth); other != nil && other != c {
			return t.ErrDuplicate
		}
	}

	now := t.TimeNow()
	for _, c := range rows {
		c.updatedAt = now
		c.done = true
		c.synthetic = c.method + ":" + c.value
	}
	return nil
}

// CredFail increments failure count of the given validation method.
func (a *Adapter) CredFail(uid t.Uid, method string) error {
	a.mu.Lock()
	defer a.mu.Unlock()
	if err := a.hook("CredFail", uid, method); err != nil {
		return err
	}

	now := t.TimeNow()
	for _, c := range a.creds {
		if c.user == uid && c.method == method && !c.done {
			c.updatedAt = now
			c.retries++
		}
	}
	return nil
}

// CredGetActive returns currently active unvalidated credential of the given user and method.
func (a *Adapter) CredGetActive(uid t.Uid, method string) (*t.Credential, error) {
	a.mu.Lock()
	defer a.mu.Unlock()
	if err := a.hook("CredGetActive", uid, method); err != nil {
		return nil, err
	}

	for _, c := range a.creds {
		if c.user == uid && c.deletedAt == nil && c.method == method && !c.done {
			cred := c.out()
			return &cred, nil
		}
	}
	return nil, nil
}

// CredGetAll returns credential records for the given user and method, all or validated only.
func (a *Adapter) CredGetAll(uid t.Uid, method string, validatedOnly bool) ([]t.Credential, error) {
	a.mu.Lock()
	defer a.mu.Unlock()
	if err := a.hook("CredGetAll", uid, method, validatedOnly); err != nil {
		return nil, err
	}

	var credentials []t.Credential
	for _, c := range a.creds {
		if c.user != uid || c.deletedAt != nil {
			continue
		}
		if method != "" && c.method != method {
			continue
		}
		if validatedOnly && !c.done {
			continue
		}
		credentials = append(credentials, c.out())
	}
	return credentials, nil
}

// Authentication records

func (a *Adapter) authDelete(pred func(r *authRow) bool) int {
	count := 0
	kept := a.auth[:0]
	for _, r := range a.auth {
		if pred(r) {
			count++
		} else {
			kept = append(kept, r)
		}
	}
	for i := len(kept); i < len(a.auth); i++ {
		a.auth[i] = nil
	}
	a.auth = kept
	return count
}

// AuthAddRecord adds user's authentication record.
func (a *Adapter) AuthAddRecord(uid t.Uid, scheme, unique string, authLvl auth.Level,
	secret []byte, expires time.Time) error {

	a.mu.Lock()
	defer a.mu.Unlock()
	if err := a.hook("AuthAddRecord", uid, scheme, unique, authLvl, secret, expires); err != nil {
		return err
	}

	for _, r := range a.auth {
		// UNIQUE INDEX auth_userid_scheme(userid, scheme), UNIQUE INDEX auth_uname(uname)
		if r.uname == unique || (r.user == uid && r.scheme == scheme) {
			return t.ErrDuplicate
		}
	}
	if _, ok := a.users[uid]; !ok {
		return ErrForeignKey
	}

	var exp *time.Time
	if !expires.IsZero() {
		// DATETIME, no fractional seconds.
		e := sec(expires)
		exp = &e
	}
	a.nextAuthId++
	a.auth = append(a.auth, &authRow{
		id:      a.nextAuthId,
		uname:   unique,
		user:    uid,
		scheme:  scheme,
		authLvl: authLvl,
		secret:  copyBytes(secret),
		expires: exp,
	})
	return nil
}

// AuthDelScheme deletes an existing authentication scheme for the user.
func (a *Adapter) AuthDelScheme(user t.Uid, scheme string) error {
	a.mu.Lock()
	defer a.mu.Unlock()
	if err := a.hook("AuthDelScheme", user, scheme); err != nil {
		return err
	}

	a.authDelete(func(r *authRow) bool { return r.user == user && r.scheme == scheme })
	return nil
}

// AuthDelAllRecords deletes all authentication records for the user.
func (a *Adapter) AuthDelAllRecords(user t.Uid) (int, error) {
	a.mu.Lock()
	defer a.mu.Unlock()
	if err := a.hook("AuthDelAllRecords", user); err != nil {
		return 0, err
	}

	return a.authDelete(func(r *authRow) bool { return r.user == user }), nil
}

// AuthUpdRecord updates user's authentication unique, secret, auth level.
func (a *Adapter) AuthUpdRecord(uid t.Uid, scheme, unique string, authLvl auth.Level,
	secret []byte, expires time.Time) error {

	a.mu.Lock()
	defer a.mu.Unlock()
	if err := a.hook("AuthUpdRecord", uid, scheme, unique, authLvl, secret, expires); err != nil {
		return err
	}

	var rec *authRow
	for _, r := range a.auth {
		if r.user == uid && r.scheme == scheme {
			rec = r
			break
		}
	}
	if rec == nil {
		return t.ErrNotFound
	}

	if unique != "" && unique != rec.uname {
		for _, r := range a.auth {
			if r != rec && r.uname == unique {
				return t.ErrDuplicate
			}
		}
	}

	// The mysql driver reports the number of rows actually changed (CLIENT_FOUND_ROWS is off by default):
	// an update which does not change any value is reported by the mysql adapter as ErrNotFound.
	changed := false
	if rec.authLvl != authLvl {
		rec.authLvl = authLvl
		changed = true
	}
	if unique != "" && rec.uname != unique {
		rec.uname = unique
		changed = true
	}
	if len(secret) > 0 && string(rec.secret) != string(secret) {
		rec.secret = copyBytes(secret)
		changed = true
	}
	if !expires.IsZero() {
		e := sec(expires)
		if rec.expires == nil || !rec.expires.Equal(e) {
			rec.expires = &e
			changed = true
		}
	}
	if !changed {
		return t.ErrNotFound
	}
	return nil
}

// AuthGetRecord retrieves user's authentication record.
func (a *Adapter) AuthGetRecord(uid t.Uid, scheme string) (string, auth.Level, []byte, time.Time, error) {
	a.mu.Lock()
	defer a.mu.Unlock()
	var expires time.Time
	if err := a.hook("AuthGetRecord", uid, scheme); err != nil {
		return "", 0, nil, expires, err
	}

	for _, r := range a.auth {
		if r.user == uid && r.scheme == scheme {
			if r.expires != nil {
				expires = *r.expires
			}
			return r.uname, r.authLvl, copyBytes(r.secret), expires, nil
		}
	}
	// Nothing found - use standard error.
	return "", 0, nil, expires, t.ErrNotFound
}

// AuthGetUniqueRecord retrieves user's authentication record by the unique value (login).
func (a *Adapter) AuthGetUniqueRecord(unique string) (t.Uid, auth.Level, []byte, time.Time, error) {
	a.mu.Lock()
	defer a.mu.Unlock()
	var expires time.Time
	if err := a.hook("AuthGetUniqueRecord", unique); err != nil {
		return t.ZeroUid, 0, nil, expires, err
	}

	for _, r := range a.auth {
		if r.uname == unique {
			if r.expires != nil {
				expires = *r.expires
			}
			return r.user, r.authLvl, copyBytes(r.secret), expires, nil
		}
	}
	// Nothing found - clear the error
	return t.ZeroUid, 0, nil, expires, nil
}

// Devices (for push notifications)

// Delete all devices of the user (deviceID == "") or one device of the user. Returns the number of deleted rows.
func (a *Adapter) devicesDelete(uid t.Uid, deviceID string) int {
	count := 0
	kept := a.devices[:0]
	for _, d := range a.devices {
		if d.user == uid && (deviceID == "" || d.deviceId == deviceID) {
			count++
		} else {
			kept = append(kept, d)
		}
	}
	for i := len(kept); i < len(a.devices); i++ {
		a.devices[i] = nil
	}
	a.devices = kept
	return count
}

// DeviceUpsert creates or updates a device record.
func (a *Adapter) DeviceUpsert(uid t.Uid, def *t.DeviceDef) error {
	a.mu.Lock()
	defer a.mu.Unlock()
	if err := a.hook("DeviceUpsert", uid, def); err != nil {
		return err
	}

	if _, ok := a.users[uid]; !ok {
		// The transaction (DELETE by hash) is rolled back.
		return ErrForeignKey
	}

	// Ensure uniqueness of the device ID: delete all records of the device ID
	kept := a.devices[:0]
	for _, d := range a.devices {
		if d.deviceId != def.DeviceId {
			kept = append(kept, d)
		}
	}
	for i := len(kept); i < len(a.devices); i++ {
		a.devices[i] = nil
	}
	a.devices = kept

	// Actually add/update DeviceId for the new user
	a.nextDeviceId++
	a.devices = append(a.devices, &deviceRow{
		id:       a.nextDeviceId,
		user:     uid,
		deviceId: def.DeviceId,
		platform: def.Platform,
		lastSeen: sec(def.LastSeen),
		lang:     def.Lang,
	})
	return nil
}

// DeviceGetAll returns all devices for a given set of users.
func (a *Adapter) DeviceGetAll(uids ...t.Uid) (map[t.Uid][]t.DeviceDef, int, error) {
	a.mu.Lock()
	defer a.mu.Unlock()
	if err := a.hook("DeviceGetAll", uids); err != nil {
		return nil, 0, err
	}

	if len(uids) == 0 {
		return nil, 0, ErrEmptyIn
	}

	want := make(map[t.Uid]struct{}, len(uids))
	for _, uid := range uids {
		want[uid] = struct{}{}
	}

	result := make(map[t.Uid][]t.DeviceDef)
	count := 0
	for _, d := range a.devices {
		if _, ok := want[d.user]; !ok {
			continue
		}
		result[d.user] = append(result[d.user], t.DeviceDef{
			DeviceId: d.deviceId,
			Platform: d.platform,
			LastSeen: d.lastSeen,
			Lang:     d.lang,
		})
		count++
	}
	return result, count, nil
}

// DeviceDelete deletes a device record (all user's devices if deviceID is empty).
func (a *Adapter) DeviceDelete(uid t.Uid, deviceID string) error {
	a.mu.Lock()
	defer a.mu.Unlock()
	if err := a.hook("DeviceDelete", uid, deviceID); err != nil {
		return err
	}

	if a.devicesDelete(uid, deviceID) == 0 {
		return t.ErrNotFound
	}
	return nil
}
