// Package pgfake is a verification-harness-only fake PostgreSQL backend (overlay, never written to /repo).
//
// pgxpool has no database/sql seam, so the fake speaks the wire protocol (github.com/jackc/pgproto3/v2, already a
// dependency of the repository) over an in-process net.Pipe handed to pgx through ConnConfig.DialFunc.
// It records the same events as sqlfake (BEGIN / STMT / COMMIT / ROLLBACK / LOST / CLOSE per connection), injects
// one fault at the k-th round trip (BEGIN, every executed statement, COMMIT are counted; the implicit
// Parse/Describe that pgx issues before the first execution of a statement text is plumbing and is not counted:
// from the adapter's side it is the same tx.Exec call), and keeps PostgreSQL's transaction semantics:
//
//   - any error inside a transaction block puts the block into the aborted state: every further statement fails
//     with 25P02 until ROLLBACK or ROLLBACK TO SAVEPOINT; COMMIT of an aborted block answers ROLLBACK;
//   - SAVEPOINT / ROLLBACK TO SAVEPOINT / RELEASE SAVEPOINT are understood (one level is enough for the adapter).
//
// Fault kinds: err (ErrorResponse XX000), connloss (the backend closes the connection instead of answering),
// outage (connloss + every later connection attempt fails), deadline (the backend never answers: the client's
// context expires, pgx closes the connection).
package pgfake

import (
	"context"
	"database/sql/driver"
	"encoding/binary"
	"errors"
	"fmt"
	"net"
	"strconv"
	"strings"
	"sync"

	"github.com/jackc/pgproto3/v2"
	"github.com/tinode/chat/server/db/sqlfake"
)

type Event = sqlfake.Event
type Fault = sqlfake.Fault
type Rule = sqlfake.Rule

// Recorder is one fake database server.
type Recorder struct {
	mu      sync.Mutex
	events  []Event
	pos     int
	fault   Fault
	applied bool
	rules   []Rule
	seen    []int
	conns   []*conn
	down    bool
}

// New makes a fake server with the given fault and canned results.
func New(f Fault, rules []Rule) *Recorder {
	return &Recorder{fault: f, rules: append([]Rule(nil), rules...), seen: make([]int, len(rules))}
}

func (r *Recorder) Events() []Event {
	r.mu.Lock()
	defer r.mu.Unlock()
	return append([]Event(nil), r.events...)
}

func (r *Recorder) Applied() bool {
	r.mu.Lock()
	defer r.mu.Unlock()
	return r.applied
}

// OpenTx is the server's own view: live connections inside a transaction block (active or aborted).
func (r *Recorder) OpenTx() int {
	r.mu.Lock()
	defer r.mu.Unlock()
	n := 0
	for _, c := range r.conns {
		if c.status != 'I' && !c.gone {
			n++
		}
	}
	return n
}

// Dial is a pgconn.DialFunc.
func (r *Recorder) Dial(ctx context.Context, network, addr string) (net.Conn, error) {
	r.mu.Lock()
	defer r.mu.Unlock()
	if r.down {
		return nil, errors.New("verif: connection refused (database is down)")
	}
	cl, sv := net.Pipe()
	c := &conn{r: r, id: len(r.conns) + 1, nc: sv, status: 'I', stmts: map[string]string{}}
	r.conns = append(r.conns, c)
	go c.serve()
	return cl, nil
}

// Lookup is a pgconn.LookupFunc.
func (r *Recorder) Lookup(ctx context.Context, host string) ([]string, error) {
	return []string{"127.0.0.1"}, nil
}

type conn struct {
	r       *Recorder
	id      int
	nc      net.Conn
	status  byte // I idle, T in transaction, E aborted transaction
	gone    bool
	counted bool // a real session (startup completed), not a cancel request
	stmts   map[string]string
	sp      bool // a savepoint exists
	out     []byte
	skip    bool   // extended protocol: an error was sent, discard until Sync
	portal  string // SQL bound to the unnamed portal
	rfmt    []int16
}

func (c *conn) send(m pgproto3.BackendMessage) {
	c.out, _ = m.Encode(c.out)
}

func (c *conn) flush() bool {
	if len(c.out) == 0 {
		return true
	}
	_, err := c.nc.Write(c.out)
	c.out = c.out[:0]
	return err == nil
}

// closeConn: r.mu held.
func (c *conn) closeLocked(ev string) {
	if c.gone {
		return
	}
	c.gone = true
	if c.counted {
		c.r.events = append(c.r.events, Event{Conn: c.id, E: ev, InTx: c.status != 'I'})
	}
	c.status = 'I'
}

func (c *conn) serve() {
	defer func() {
		c.nc.Close()
		c.r.mu.Lock()
		c.closeLocked("CLOSE")
		c.r.mu.Unlock()
	}()
	be := pgproto3.NewBackend(pgproto3.NewChunkReader(c.nc), c.nc)
	sm, err := be.ReceiveStartupMessage()
	if err != nil {
		return
	}
	if _, ok := sm.(*pgproto3.StartupMessage); !ok {
		return // CancelRequest (sent by pgx on a fresh connection when a context expires) or SSLRequest: just hang up
	}
	c.r.mu.Lock()
	c.counted = true
	c.r.mu.Unlock()
	c.send(&pgproto3.AuthenticationOk{})
	for _, kv := range [][2]string{{"server_version", "14.0"}, {"client_encoding", "UTF8"}, {"standard_conforming_strings", "on"},
		{"integer_datetimes", "on"}, {"DateStyle", "ISO, MDY"}, {"TimeZone", "UTC"}} {
		c.send(&pgproto3.ParameterStatus{Name: kv[0], Value: kv[1]})
	}
	c.send(&pgproto3.BackendKeyData{ProcessID: uint32(c.id), SecretKey: 1})
	c.send(&pgproto3.ReadyForQuery{TxStatus: 'I'})
	if !c.flush() {
		return
	}
	for {
		msg, err := be.Receive()
		if err != nil {
			return
		}
		switch m := msg.(type) {
		case *pgproto3.Query:
			if !c.simple(m.String) {
				return
			}
		case *pgproto3.Parse:
			if c.skip {
				continue
			}
			c.stmts[m.Name] = m.Query
			c.send(&pgproto3.ParseComplete{})
		case *pgproto3.Describe:
			if c.skip {
				continue
			}
			if m.ObjectType == 'S' {
				q := c.stmts[m.Name]
				c.send(&pgproto3.ParameterDescription{ParameterOIDs: make([]uint32, nparams(q))})
				c.describeRows(q, nil)
			} else {
				c.describeRows(c.portal, c.rfmt)
			}
		case *pgproto3.Bind:
			if c.skip {
				continue
			}
			c.portal = c.stmts[m.PreparedStatement]
			c.rfmt = m.ResultFormatCodes
			c.send(&pgproto3.BindComplete{})
		case *pgproto3.Execute:
			if c.skip {
				continue
			}
			if !c.statement(c.portal, true) {
				return
			}
		case *pgproto3.Sync:
			c.skip = false
			c.send(&pgproto3.ReadyForQuery{TxStatus: c.status})
			if !c.flush() {
				return
			}
		case *pgproto3.Close:
			if !c.skip {
				c.send(&pgproto3.CloseComplete{})
			}
		case *pgproto3.Flush:
			if !c.flush() {
				return
			}
		case *pgproto3.Terminate:
			return
		}
	}
}

func nparams(q string) int {
	n := 0
	for i := 0; i+1 < len(q); i++ {
		if q[i] == '$' {
			j := i + 1
			for j < len(q) && q[j] >= '0' && q[j] <= '9' {
				j++
			}
			if v, err := strconv.Atoi(q[i+1 : j]); err == nil && v > n {
				n = v
			}
		}
	}
	return n
}

// returning gives the column names of a RETURNING clause (nil if there is none).
func returning(q string) []string {
	i := strings.Index(strings.ToUpper(q), " RETURNING ")
	if i < 0 {
		return nil
	}
	var out []string
	for _, f := range strings.Split(q[i+len(" RETURNING "):], ",") {
		out = append(out, strings.ToLower(strings.TrimSpace(strings.TrimSuffix(strings.TrimSpace(f), ";"))))
	}
	return out
}

func oidOf(v driver.Value) uint32 {
	switch v.(type) {
	case bool:
		return 16
	case int64, int:
		return 20
	}
	return 25
}

// describeRows answers the row description of q (NoData for statements that return nothing).
func (c *conn) describeRows(q string, rfmt []int16) {
	verb, _ := sqlfake.Classify(q)
	if ret := returning(q); ret != nil {
		// INSERT ... RETURNING col: one int8 column per returned name
		var fds []pgproto3.FieldDescription
		for i, name := range ret {
			f := int16(0)
			if len(rfmt) == 1 {
				f = rfmt[0]
			} else if i < len(rfmt) {
				f = rfmt[i]
			}
			fds = append(fds, pgproto3.FieldDescription{Name: []byte(name), DataTypeOID: 20, DataTypeSize: 8, TypeModifier: -1, Format: f})
		}
		c.send(&pgproto3.RowDescription{Fields: fds})
		return
	}
	if verb != "SELECT" {
		c.send(&pgproto3.NoData{})
		return
	}
	cols := sqlfake.Columns(q)
	var sample []driver.Value
	c.r.mu.Lock()
	for i := range c.r.rules {
		if strings.Contains(q, c.r.rules[i].Match) && len(c.r.rules[i].Rows) > 0 {
			sample = c.r.rules[i].Rows[0]
			break
		}
	}
	c.r.mu.Unlock()
	var fds []pgproto3.FieldDescription
	for i, name := range cols {
		oid := uint32(25)
		if i < len(sample) {
			oid = oidOf(sample[i])
		}
		f := int16(0)
		if len(rfmt) == 1 {
			f = rfmt[0]
		} else if i < len(rfmt) {
			f = rfmt[i]
		}
		fds = append(fds, pgproto3.FieldDescription{Name: []byte(name), DataTypeOID: oid, DataTypeSize: -1, TypeModifier: -1, Format: f})
	}
	c.send(&pgproto3.RowDescription{Fields: fds})
}

func encodeValue(v driver.Value, binaryFmt bool) []byte {
	switch x := v.(type) {
	case nil:
		return nil
	case bool:
		if binaryFmt {
			if x {
				return []byte{1}
			}
			return []byte{0}
		}
		if x {
			return []byte("t")
		}
		return []byte("f")
	case int64:
		if binaryFmt {
			b := make([]byte, 8)
			binary.BigEndian.PutUint64(b, uint64(x))
			return b
		}
		return []byte(strconv.FormatInt(x, 10))
	case int:
		return encodeValue(int64(x), binaryFmt)
	case string:
		return []byte(x)
	case []byte:
		return x
	}
	return []byte(fmt.Sprint(v))
}

func (r *Recorder) match(q string) *Rule {
	var hit *Rule
	for i := range r.rules {
		if strings.Contains(q, r.rules[i].Match) {
			r.seen[i]++
			if hit == nil && (r.rules[i].Nth == 0 || r.rules[i].Nth == r.seen[i]) {
				hit = &r.rules[i]
			}
		}
	}
	return hit
}

// decide assigns the position of a faultable round trip and the fault outcome. r.mu held.
// returns: position, kind of failure ("" none, "err", "lose", "hang")
func (c *conn) decide() (int, string) {
	r := c.r
	r.pos++
	p := r.pos
	if r.fault.K != p {
		return p, ""
	}
	switch r.fault.Kind {
	case "err":
		r.applied = true
		return p, "err"
	case "connloss", "outage":
		r.applied = true
		if r.fault.Kind == "outage" {
			r.down = true
		}
		return p, "lose"
	case "deadline":
		r.applied = true
		return p, "hang"
	}
	return p, ""
}

func (c *conn) errorResponse(code, msg string) {
	c.send(&pgproto3.ErrorResponse{Severity: "ERROR", Code: code, Message: msg})
}

// lose closes the connection instead of answering (and, with an outage, every other connection).
func (c *conn) lose(hang bool) bool {
	if hang {
		// never answer: wait until the client gives up and closes the connection
		buf := make([]byte, 64)
		for {
			if _, err := c.nc.Read(buf); err != nil {
				break
			}
		}
	}
	r := c.r
	r.mu.Lock()
	c.closeLocked("LOST")
	var others []*conn
	if r.down {
		for _, o := range r.conns {
			if o != c && !o.gone {
				others = append(others, o)
			}
		}
	}
	r.mu.Unlock()
	for _, o := range others {
		o.nc.Close()
	}
	return false
}

// simple handles a simple-protocol Query message: transaction control, savepoints, or a parameterless statement.
func (c *conn) simple(q string) bool {
	lq := strings.ToLower(strings.TrimSpace(strings.TrimSuffix(strings.TrimSpace(q), ";")))
	r := c.r
	switch {
	case strings.HasPrefix(lq, "begin") || strings.HasPrefix(lq, "start transaction"):
		r.mu.Lock()
		p, f := c.decide()
		ok := f == ""
		res := "ok"
		if !ok {
			res = "fault"
			if f == "hang" {
				res = "late"
			}
		}
		r.events = append(r.events, Event{Conn: c.id, E: "BEGIN", Pos: p, InTx: c.status != 'I', Ok: ok, Res: res})
		if ok {
			c.status = 'T'
			c.sp = false
		}
		r.mu.Unlock()
		if f == "lose" || f == "hang" {
			return c.lose(f == "hang")
		}
		if f == "err" {
			c.errorResponse("XX000", "verif: injected statement failure")
		} else {
			c.send(&pgproto3.CommandComplete{CommandTag: []byte("BEGIN")})
		}
	case lq == "commit" || lq == "end":
		r.mu.Lock()
		p, f := c.decide()
		in := c.status != 'I'
		ok, res, tag := f == "", "ok", "COMMIT"
		if !ok {
			res = "fault"
			if f == "hang" {
				res = "late"
			}
		} else if c.status == 'E' {
			ok, res, tag = false, "rolledback", "ROLLBACK" // COMMIT of an aborted transaction rolls it back
		}
		r.events = append(r.events, Event{Conn: c.id, E: "COMMIT", Pos: p, InTx: in, Ok: ok, Res: res})
		if f != "lose" && f != "hang" {
			c.status = 'I' // a failed COMMIT ends the transaction too (nothing becomes durable)
		}
		r.mu.Unlock()
		if f == "lose" || f == "hang" {
			return c.lose(f == "hang")
		}
		if f == "err" {
			c.errorResponse("XX000", "verif: injected commit failure")
		} else {
			c.send(&pgproto3.CommandComplete{CommandTag: []byte(tag)})
		}
	case lq == "rollback" || lq == "abort":
		r.mu.Lock()
		r.events = append(r.events, Event{Conn: c.id, E: "ROLLBACK", InTx: c.status != 'I', Ok: true, Res: "ok"})
		c.status = 'I'
		r.mu.Unlock()
		c.send(&pgproto3.CommandComplete{CommandTag: []byte("ROLLBACK")})
	default:
		if !c.statement(q, false) {
			return false
		}
	}
	c.send(&pgproto3.ReadyForQuery{TxStatus: c.status})
	return c.flush()
}

func classify(q string) (string, string) {
	lq := strings.ToLower(strings.TrimSpace(q))
	switch {
	case strings.HasPrefix(lq, "savepoint"):
		return "SAVEPOINT", ""
	case strings.HasPrefix(lq, "rollback to"):
		return "ROLLBACK_TO", ""
	case strings.HasPrefix(lq, "release"):
		return "RELEASE", ""
	}
	return sqlfake.Classify(q)
}

// statement executes one statement (extended Execute or simple Query); returns false when the connection is gone.
func (c *conn) statement(q string, extended bool) bool {
	r := c.r
	verb, tbl := classify(q)
	r.mu.Lock()
	p, f := c.decide()
	in := c.status != 'I'
	ok, res := true, "ok"
	var code, msg string
	var rule *Rule
	switch {
	case f == "err":
		ok, res, code, msg = false, "fault", "XX000", "verif: injected statement failure"
	case f == "lose":
		ok, res = false, "fault"
	case f == "hang":
		ok, res = false, "late"
	case c.status == 'E' && verb != "ROLLBACK_TO":
		ok, res, code, msg = false, "aborted", "25P02", "current transaction is aborted, commands ignored until end of transaction block"
	case verb == "ROLLBACK_TO" && !c.sp:
		ok, res, code, msg = false, "aborted", "3B001", "savepoint does not exist"
	case verb == "RELEASE" && !c.sp:
		ok, res, code, msg = false, "aborted", "3B001", "savepoint does not exist"
	case verb == "SAVEPOINT" && c.status == 'I':
		ok, res, code, msg = false, "aborted", "25P01", "SAVEPOINT can only be used in transaction blocks"
	default:
		rule = r.match(q)
		if rule != nil && rule.Dupe {
			ok, res, code, msg = false, "dupe", "23505", "duplicate key value violates unique constraint (verif)"
		}
	}
	ret := returning(q)
	isq := verb == "SELECT" || ret != nil
	r.events = append(r.events, Event{Conn: c.id, E: "STMT", Pos: p, Verb: verb, Tbl: tbl, Q: verb == "SELECT", InTx: in, Ok: ok, Res: res, SQL: q})
	if ok {
		switch verb {
		case "SAVEPOINT":
			c.sp = true
		case "ROLLBACK_TO":
			c.status = 'T'
		case "RELEASE":
			c.sp = false
		}
	} else if f != "lose" && f != "hang" && c.status == 'T' {
		c.status = 'E'
	}
	var data [][]driver.Value
	aff := int64(1)
	if ret != nil {
		row := make([]driver.Value, len(ret))
		for i := range row {
			row[i] = int64(1)
		}
		data = [][]driver.Value{row}
	}
	if rule != nil && ret == nil {
		data = rule.Rows
	}
	if rule != nil {
		if rule.SetAff {
			aff = rule.Affected
		}
	}
	r.mu.Unlock()
	if f == "lose" || f == "hang" {
		return c.lose(f == "hang")
	}
	if !ok {
		c.errorResponse(code, msg)
		if extended {
			c.skip = true
		}
		return true
	}
	if isq {
		if !extended {
			c.describeRows(q, nil)
		}
		for _, row := range data {
			vals := make([][]byte, len(row))
			for i, v := range row {
				bin := false
				if extended && len(c.rfmt) == 1 {
					bin = c.rfmt[0] == 1
				} else if extended && i < len(c.rfmt) {
					bin = c.rfmt[i] == 1
				}
				vals[i] = encodeValue(v, bin)
			}
			c.send(&pgproto3.DataRow{Values: vals})
		}
		if ret != nil {
			c.send(&pgproto3.CommandComplete{CommandTag: []byte("INSERT 0 1")})
		} else {
			c.send(&pgproto3.CommandComplete{CommandTag: []byte("SELECT " + strconv.Itoa(len(data)))})
		}
		return true
	}
	tag := verb + " " + strconv.FormatInt(aff, 10)
	switch verb {
	case "INSERT":
		tag = "INSERT 0 " + strconv.FormatInt(aff, 10)
	case "SAVEPOINT":
		tag = "SAVEPOINT"
	case "ROLLBACK_TO":
		tag = "ROLLBACK"
	case "RELEASE":
		tag = "RELEASE"
	}
	c.send(&pgproto3.CommandComplete{CommandTag: []byte(tag)})
	return true
}
