//go:build postgres
// +build postgres

package postgres

// Verification harness (overlay, never written to /repo): C18 — multi-row store updates are all-or-nothing.
//
// PostgreSQL twin of server/db/mysql/zz_verif_c18_test.go (same cases, same record format, dialect "pg").
// Drives EVERY transactional method of the real PostgreSQL adapter (and the mapper-level compositions of
// server/store/store.go on top of it) over a fake PostgreSQL backend (server/db/pgfake, wire protocol over an
// in-process pipe handed to pgxpool through DialFunc) that records BEGIN / statement / COMMIT / ROLLBACK per
// connection, keeps PostgreSQL's aborted-transaction semantics, and injects one fault per run.
// Each operation branch is run once fault-free to learn its n round trips, then once per position k in 1..n
// and per fault kind. The test only RECORDS (ndjson to VERIF_OUT); the verdict is TLC's (spec/Monitor_C18.tla).

import (
	"bufio"
	"context"
	"database/sql/driver"
	"encoding/json"
	"fmt"
	"io"
	"log"
	"math/rand"
	"os"
	"runtime"
	"sort"
	"strconv"
	"strings"
	"sync"
	"testing"
	"time"

	"github.com/jackc/pgx/v4/pgxpool"
	"github.com/tinode/chat/server/auth"
	"github.com/tinode/chat/server/db/pgfake"
	"github.com/tinode/chat/server/db/sqlfake"
	"github.com/tinode/chat/server/store"
	t "github.com/tinode/chat/server/store/types"
)

// verifC18Params are the branch parameters; the TLA+ program table (TxCore!Prog) is a function of them.
type verifC18Params struct {
	Tags   int      `json:"tags"` // number of tags, -1 = the update has no Tags key
	Dup    int      `json:"dup"`  // which tag INSERT hits a duplicate key (0 = none)
	Hard   bool     `json:"hard"`
	State  bool     `json:"state"`
	Reset  bool     `json:"reset"`
	Add    int      `json:"add"`
	Rem    int      `json:"rem"`
	Subs   [][2]int `json:"subs"` // per subscription: [INSERT hits a duplicate, subscriber is the owner]
	Ranges int      `json:"ranges"`
	Mode   string   `json:"mode"`
	Aff    int      `json:"aff"`  // rows affected reported for the statement the branch depends on
	Rows   int      `json:"rows"` // rows returned by the SELECT the branch depends on
	Chan   bool     `json:"chan"`
}

func verifC18P() verifC18Params {
	return verifC18Params{Tags: -1, Subs: [][2]int{}, Mode: "-", Aff: 1}
}

func (p verifC18Params) branch() string {
	d := verifC18P()
	var s []string
	if p.Mode != d.Mode {
		s = append(s, "mode="+p.Mode)
	}
	if p.Tags != d.Tags {
		s = append(s, "tags="+strconv.Itoa(p.Tags))
	}
	if p.Dup != 0 {
		s = append(s, "dup="+strconv.Itoa(p.Dup))
	}
	if p.Hard {
		s = append(s, "hard")
	}
	if p.State {
		s = append(s, "state")
	}
	if p.Reset {
		s = append(s, "reset")
	}
	if p.Add != 0 {
		s = append(s, "add="+strconv.Itoa(p.Add))
	}
	if p.Rem != 0 {
		s = append(s, "rem="+strconv.Itoa(p.Rem))
	}
	if len(p.Subs) > 0 {
		x := "subs="
		for _, e := range p.Subs {
			x += fmt.Sprintf("%d%d.", e[0], e[1])
		}
		s = append(s, x)
	}
	if p.Ranges != 0 {
		s = append(s, "ranges="+strconv.Itoa(p.Ranges))
	}
	if p.Aff != d.Aff {
		s = append(s, "aff="+strconv.Itoa(p.Aff))
	}
	if p.Rows != 0 {
		s = append(s, "rows="+strconv.Itoa(p.Rows))
	}
	if p.Chan {
		s = append(s, "chan")
	}
	if len(s) == 0 {
		return "-"
	}
	return strings.Join(s, ",")
}

type verifC18Case struct {
	Op    string
	Level string // adapter (transactional adapter method) | single (one auto-commit statement) | store (mapper composition)
	P     verifC18Params
	Rules []sqlfake.Rule
	Run   func(a *adapter) error
}

const (
	verifC18U1 = t.Uid(0x1A2B3C4D5E6F)
	verifC18U2 = t.Uid(0x2B3C4D5E6F70)
	verifC18U3 = t.Uid(0x3C4D5E6F7081)
)

func verifC18Tags(n int) t.StringSlice {
	out := t.StringSlice{}
	for i := 0; i < n; i++ {
		out = append(out, "tag"+strconv.Itoa(i))
	}
	return out
}

func verifC18DupRule(match string, nth int) []sqlfake.Rule {
	if nth <= 0 {
		return nil
	}
	return []sqlfake.Rule{{Match: match, Nth: nth, Dupe: true}}
}

func verifC18Aff(match string, n int) sqlfake.Rule {
	return sqlfake.Rule{Match: match, SetAff: true, Affected: int64(n)}
}

func verifC18Sub(user t.Uid, topic string, own bool) *t.Subscription {
	now := t.TimeNow()
	s := &t.Subscription{User: user.String(), Topic: topic, ModeWant: t.ModeCP2P, ModeGiven: t.ModeCP2P,
		Private: map[string]any{"note": "x"}}
	s.CreatedAt, s.UpdatedAt = now, now
	if own {
		s.ModeWant, s.ModeGiven = t.ModeCFull, t.ModeCFull
	}
	return s
}

func verifC18SubRules(subs [][2]int) []sqlfake.Rule {
	var rules []sqlfake.Rule
	for i, e := range subs {
		if e[0] != 0 {
			rules = append(rules, sqlfake.Rule{Match: "INSERT INTO subscriptions", Nth: i + 1, Dupe: true})
		}
	}
	return rules
}

func verifC18Ranges(n int) []t.Range {
	var out []t.Range
	for i := 0; i < n; i++ {
		if i%2 == 0 {
			out = append(out, t.Range{Low: 10*i + 1, Hi: 10*i + 4})
		} else {
			out = append(out, t.Range{Low: 10*i + 1})
		}
	}
	return out
}

// ---------------------------------------------------------------- case constructors (one per adapter method)

func verifC18UserCreate(tags, dup int) verifC18Case {
	p := verifC18P()
	p.Tags, p.Dup = tags, dup
	return verifC18Case{Op: "UserCreate", Level: "adapter", P: p, Rules: verifC18DupRule("INSERT INTO usertags", dup),
		Run: func(a *adapter) error {
			u := &t.User{Tags: verifC18Tags(tags), Public: map[string]any{"fn": "x"}}
			u.SetUid(verifC18U1)
			u.InitTimes()
			return a.UserCreate(u)
		}}
}

func verifC18UserDelete(hard bool, aff int) verifC18Case {
	p := verifC18P()
	p.Hard, p.Aff = hard, aff
	return verifC18Case{Op: "UserDelete", Level: "adapter", P: p,
		Rules: []sqlfake.Rule{verifC18Aff("DELETE FROM devices", aff), verifC18Aff("DELETE FROM credentials", aff)},
		Run:   func(a *adapter) error { return a.UserDelete(verifC18U1, hard) }}
}

func verifC18UserUpdate(state bool, tags, dup int) verifC18Case {
	p := verifC18P()
	p.State, p.Tags, p.Dup = state, tags, dup
	return verifC18Case{Op: "UserUpdate", Level: "adapter", P: p, Rules: verifC18DupRule("INSERT INTO usertags", dup),
		Run: func(a *adapter) error {
			upd := map[string]any{"UpdatedAt": t.TimeNow(), "Public": map[string]any{"fn": "y"}}
			if state {
				upd["State"] = t.StateSuspended
				upd["StateAt"] = t.TimeNow()
			}
			if tags >= 0 {
				upd["Tags"] = verifC18Tags(tags)
			}
			return a.UserUpdate(verifC18U1, upd)
		}}
}

func verifC18UserUpdateTags(reset bool, add, rem, dup, rows int) verifC18Case {
	p := verifC18P()
	p.Reset, p.Add, p.Rem, p.Dup, p.Rows = reset, add, rem, dup, rows
	rules := verifC18DupRule("INSERT INTO usertags", dup)
	var data [][]driver.Value
	for i := 0; i < rows; i++ {
		data = append(data, []driver.Value{"tag" + strconv.Itoa(i)})
	}
	rules = append(rules, sqlfake.Rule{Match: "SELECT tag FROM usertags", Rows: data})
	return verifC18Case{Op: "UserUpdateTags", Level: "adapter", P: p, Rules: rules,
		Run: func(a *adapter) error {
			var addT, remT, resetT []string
			if reset {
				resetT = []string(verifC18Tags(add))
			} else {
				if add > 0 {
					addT = []string(verifC18Tags(add))
				}
				for i := 0; i < rem; i++ {
					remT = append(remT, "old"+strconv.Itoa(i))
				}
			}
			_, err := a.UserUpdateTags(verifC18U1, addT, remT, resetT)
			return err
		}}
}

func verifC18TopicCreate(tags, dup int) verifC18Case {
	p := verifC18P()
	p.Tags, p.Dup = tags, dup
	return verifC18Case{Op: "TopicCreate", Level: "adapter", P: p, Rules: verifC18DupRule("INSERT INTO topictags", dup),
		Run: func(a *adapter) error {
			tp := &t.Topic{ObjHeader: t.ObjHeader{Id: "grpVerifC18"}, Owner: verifC18U1.String(), Tags: verifC18Tags(tags)}
			tp.InitTimes()
			tp.TouchedAt = tp.CreatedAt
			return a.TopicCreate(tp)
		}}
}

func verifC18TopicCreateP2P(s1, s2 [2]int) verifC18Case {
	p := verifC18P()
	p.Subs = [][2]int{s1, s2}
	return verifC18Case{Op: "TopicCreateP2P", Level: "adapter", P: p, Rules: verifC18SubRules(p.Subs),
		Run: func(a *adapter) error {
			name := verifC18U1.P2PName(verifC18U2)
			return a.TopicCreateP2P(verifC18Sub(verifC18U1, name, s1[1] != 0), verifC18Sub(verifC18U2, name, s2[1] != 0))
		}}
}

func verifC18TopicShare(subs [][2]int) verifC18Case {
	p := verifC18P()
	p.Subs = subs
	return verifC18Case{Op: "TopicShare", Level: "adapter", P: p, Rules: verifC18SubRules(subs),
		Run: func(a *adapter) error {
			var ss []*t.Subscription
			for i, e := range subs {
				ss = append(ss, verifC18Sub(verifC18U1+t.Uid(i), "grpVerifC18", e[1] != 0))
			}
			return a.TopicShare(ss)
		}}
}

func verifC18TopicDelete(isChan, hard bool) verifC18Case {
	p := verifC18P()
	p.Chan, p.Hard = isChan, hard
	return verifC18Case{Op: "TopicDelete", Level: "adapter", P: p,
		Run: func(a *adapter) error { return a.TopicDelete("grpVerifC18", isChan, hard) }}
}

func verifC18TopicUpdate(tags, dup int) verifC18Case {
	p := verifC18P()
	p.Tags, p.Dup = tags, dup
	return verifC18Case{Op: "TopicUpdate", Level: "adapter", P: p, Rules: verifC18DupRule("INSERT INTO topictags", dup),
		Run: func(a *adapter) error {
			upd := map[string]any{"UpdatedAt": t.TimeNow(), "Public": map[string]any{"fn": "z"}}
			if tags >= 0 {
				upd["Tags"] = verifC18Tags(tags)
			}
			return a.TopicUpdate("grpVerifC18", upd)
		}}
}

func verifC18SubsUpdate(mode string) verifC18Case {
	p := verifC18P()
	p.Mode = mode
	return verifC18Case{Op: "SubsUpdate", Level: "adapter", P: p,
		Run: func(a *adapter) error {
			u := verifC18U1
			if mode == "all" {
				u = t.ZeroUid
			}
			return a.SubsUpdate("grpVerifC18", u, map[string]any{"DelId": 7, "UpdatedAt": t.TimeNow()})
		}}
}

func verifC18SubsDelete(aff int) verifC18Case {
	p := verifC18P()
	p.Aff = aff
	return verifC18Case{Op: "SubsDelete", Level: "adapter", P: p,
		Rules: []sqlfake.Rule{verifC18Aff("UPDATE subscriptions SET updatedat=$1,deletedat=$2 WHERE topic", aff)},
		Run:   func(a *adapter) error { return a.SubsDelete("grpVerifC18", verifC18U1) }}
}

func verifC18SubsDelForUser(hard bool) verifC18Case {
	p := verifC18P()
	p.Hard = hard
	return verifC18Case{Op: "SubsDelForUser", Level: "adapter", P: p,
		Run: func(a *adapter) error { return a.SubsDelForUser(verifC18U1, hard) }}
}

func verifC18DelMessage(mode string, ranges int) *t.DelMessage {
	if mode == "all" {
		return nil
	}
	d := &t.DelMessage{Topic: "grpVerifC18", DelId: 3, SeqIdRanges: verifC18Ranges(ranges)}
	if mode == "soft" {
		d.DeletedFor = verifC18U1.String()
	}
	return d
}

func verifC18MessageDeleteList(mode string, ranges int) verifC18Case {
	p := verifC18P()
	p.Mode, p.Ranges = mode, ranges
	return verifC18Case{Op: "MessageDeleteList", Level: "adapter", P: p,
		Run: func(a *adapter) error { return a.MessageDeleteList("grpVerifC18", verifC18DelMessage(mode, ranges)) }}
}

func verifC18DeviceUpsert() verifC18Case {
	return verifC18Case{Op: "DeviceUpsert", Level: "adapter", P: verifC18P(),
		Run: func(a *adapter) error {
			return a.DeviceUpsert(verifC18U1, &t.DeviceDef{DeviceId: "dev1", Platform: "web", LastSeen: t.TimeNow(), Lang: "en"})
		}}
}

func verifC18DeviceDelete(mode string, aff int) verifC18Case {
	p := verifC18P()
	p.Mode, p.Aff = mode, aff
	return verifC18Case{Op: "DeviceDelete", Level: "adapter", P: p,
		Rules: []sqlfake.Rule{verifC18Aff("DELETE FROM devices", aff)},
		Run: func(a *adapter) error {
			id := "dev1"
			if mode == "all" {
				id = ""
			}
			return a.DeviceDelete(verifC18U1, id)
		}}
}

func verifC18CredUpsert(mode string) verifC18Case {
	p := verifC18P()
	p.Mode = mode
	var rules []sqlfake.Rule
	switch mode {
	case "done_dupe", "insert_dupe":
		rules = append(rules, sqlfake.Rule{Match: "INSERT INTO credentials", Dupe: true})
	case "validated":
		rules = append(rules, sqlfake.Rule{Match: "SELECT done FROM credentials", Rows: [][]driver.Value{{true}}})
	}
	if mode == "insert" || mode == "insert_dupe" {
		rules = append(rules, verifC18Aff("UPDATE credentials SET updatedat=$1,deletedat=NULL", 0))
	}
	return verifC18Case{Op: "CredUpsert", Level: "adapter", P: p, Rules: rules,
		Run: func(a *adapter) error {
			c := &t.Credential{User: verifC18U1.String(), Method: "email", Value: "a@example.com", Resp: "123456",
				Done: strings.HasPrefix(mode, "done")}
			c.InitTimes()
			_, err := a.CredUpsert(c)
			return err
		}}
}

func verifC18CredDel(mode string, aff int) verifC18Case {
	p := verifC18P()
	p.Mode, p.Aff = mode, aff
	return verifC18Case{Op: "CredDel", Level: "adapter", P: p,
		Rules: []sqlfake.Rule{verifC18Aff("DELETE FROM credentials", aff)},
		Run: func(a *adapter) error {
			if mode == "all" {
				return a.CredDel(verifC18U1, "", "")
			}
			return a.CredDel(verifC18U1, "email", "a@example.com")
		}}
}

func verifC18FileFinishUpload(mode string) verifC18Case {
	p := verifC18P()
	p.Mode = mode
	return verifC18Case{Op: "FileFinishUpload", Level: "adapter", P: p,
		Run: func(a *adapter) error {
			fd := &t.FileDef{User: verifC18U1.String(), MimeType: "image/png", Location: "loc"}
			fd.SetUid(verifC18U3)
			fd.InitTimes()
			_, err := a.FileFinishUpload(fd, mode == "success", 1234)
			return err
		}}
}

func verifC18FileDeleteUnused(rows int) verifC18Case {
	p := verifC18P()
	p.Rows = rows
	var data [][]driver.Value
	for i := 0; i < rows; i++ {
		data = append(data, []driver.Value{int64(100 + i), "loc" + strconv.Itoa(i)})
	}
	return verifC18Case{Op: "FileDeleteUnused", Level: "adapter", P: p,
		Rules: []sqlfake.Rule{{Match: "SELECT fu.id,fu.location", Rows: data}},
		Run: func(a *adapter) error {
			_, err := a.FileDeleteUnused(time.Now().Add(-time.Hour), 10)
			return err
		}}
}

func verifC18FileLink(mode string, n int) verifC18Case {
	p := verifC18P()
	p.Mode, p.Add = mode, n
	return verifC18Case{Op: "FileLinkAttachments", Level: "adapter", P: p,
		Run: func(a *adapter) error {
			var fids []string
			for i := 0; i < n; i++ {
				fids = append(fids, (verifC18U3 + t.Uid(i)).String())
			}
			switch mode {
			case "msg":
				return a.FileLinkAttachments("", t.ZeroUid, t.Uid(77), fids)
			case "topic":
				return a.FileLinkAttachments("grpVerifC18", t.ZeroUid, t.ZeroUid, fids)
			case "user":
				return a.FileLinkAttachments("", verifC18U1, t.ZeroUid, fids)
			}
			return a.FileLinkAttachments("", t.ZeroUid, t.ZeroUid, fids) // malformed: rejected before BEGIN
		}}
}

// Single-statement (auto-commit) writers: recorded so that NoWriteOutsideTx is evaluated over ALL writers.
func verifC18Singles() []verifC18Case {
	mk := func(mode string, rules []sqlfake.Rule, run func(a *adapter) error) verifC18Case {
		p := verifC18P()
		p.Mode = mode
		return verifC18Case{Op: "Single", Level: "single", P: p, Rules: rules, Run: run}
	}
	return []verifC18Case{
		mk("AuthAddRecord", nil, func(a *adapter) error {
			return a.AuthAddRecord(verifC18U1, "basic", "basic:alice", auth.LevelAuth, []byte("s"), time.Time{})
		}),
		mk("AuthDelScheme", nil, func(a *adapter) error { return a.AuthDelScheme(verifC18U1, "basic") }),
		mk("AuthDelAllRecords", nil, func(a *adapter) error { _, err := a.AuthDelAllRecords(verifC18U1); return err }),
		mk("AuthUpdRecord", nil, func(a *adapter) error {
			return a.AuthUpdRecord(verifC18U1, "basic", "basic:alice", auth.LevelAuth, []byte("s"), time.Time{})
		}),
		mk("MessageSave", nil, func(a *adapter) error {
			m := &t.Message{Topic: "grpVerifC18", From: verifC18U1.String(), SeqId: 5, Content: "hi"}
			m.InitTimes()
			return a.MessageSave(m)
		}),
		mk("TopicUpdateOnMessage", nil, func(a *adapter) error {
			m := &t.Message{Topic: "grpVerifC18", SeqId: 5}
			m.InitTimes()
			return a.TopicUpdateOnMessage("grpVerifC18", m)
		}),
		mk("TopicOwnerChange", nil, func(a *adapter) error { return a.TopicOwnerChange("grpVerifC18", verifC18U2) }),
		mk("CredConfirm", nil, func(a *adapter) error { return a.CredConfirm(verifC18U1, "email") }),
		mk("CredFail", nil, func(a *adapter) error { return a.CredFail(verifC18U1, "email") }),
		mk("FileStartUpload", nil, func(a *adapter) error {
			fd := &t.FileDef{User: verifC18U1.String(), MimeType: "image/png", Location: "loc"}
			fd.SetUid(verifC18U3)
			fd.InitTimes()
			return a.FileStartUpload(fd)
		}),
		mk("PCacheUpsert", nil, func(a *adapter) error { return a.PCacheUpsert("k", "v", false) }),
		mk("PCacheDelete", nil, func(a *adapter) error { return a.PCacheDelete("k") }),
		mk("PCacheExpire", nil, func(a *adapter) error { return a.PCacheExpire("k", time.Now()) }),
	}
}

// ---------------------------------------------------------------- the domain

func verifC18Canonical() []verifC18Case {
	var cs []verifC18Case
	for _, td := range [][2]int{{0, 0}, {1, 0}, {2, 0}, {3, 0}, {1, 1}, {2, 1}, {2, 2}, {3, 3}} {
		cs = append(cs, verifC18UserCreate(td[0], td[1]))
	}
	for _, hard := range []bool{false, true} {
		cs = append(cs, verifC18UserDelete(hard, 1))
	}
	cs = append(cs, verifC18UserDelete(true, 0))
	for _, state := range []bool{false, true} {
		for _, td := range [][2]int{{-1, 0}, {0, 0}, {2, 0}, {2, 1}, {2, 2}} {
			cs = append(cs, verifC18UserUpdate(state, td[0], td[1]))
		}
	}
	for add := 0; add <= 2; add++ {
		for rem := 0; rem <= 2; rem++ {
			cs = append(cs, verifC18UserUpdateTags(false, add, rem, 0, add))
		}
		cs = append(cs, verifC18UserUpdateTags(true, add, 0, 0, add))
	}
	cs = append(cs, verifC18UserUpdateTags(false, 2, 1, 1, 2), verifC18UserUpdateTags(false, 2, 0, 2, 2),
		verifC18UserUpdateTags(true, 2, 0, 1, 0), verifC18UserUpdateTags(true, 2, 0, 2, 0))
	for _, td := range [][2]int{{0, 0}, {1, 0}, {2, 0}, {2, 1}, {2, 2}} {
		cs = append(cs, verifC18TopicCreate(td[0], td[1]))
	}
	for i := 0; i < 16; i++ {
		cs = append(cs, verifC18TopicCreateP2P([2]int{i & 1, (i >> 1) & 1}, [2]int{(i >> 2) & 1, (i >> 3) & 1}))
	}
	for i := 0; i < 4; i++ {
		cs = append(cs, verifC18TopicShare([][2]int{{i & 1, (i >> 1) & 1}}))
	}
	cs = append(cs, verifC18TopicShare([][2]int{{0, 0}, {0, 0}}), verifC18TopicShare([][2]int{{0, 1}, {1, 0}}),
		verifC18TopicShare([][2]int{{1, 1}, {0, 0}, {1, 0}}))
	for i := 0; i < 4; i++ {
		cs = append(cs, verifC18TopicDelete(i&1 != 0, i&2 != 0))
	}
	for _, td := range [][2]int{{-1, 0}, {0, 0}, {2, 0}, {2, 1}, {2, 2}} {
		cs = append(cs, verifC18TopicUpdate(td[0], td[1]))
	}
	cs = append(cs, verifC18SubsUpdate("one"), verifC18SubsUpdate("all"))
	cs = append(cs, verifC18SubsDelete(1), verifC18SubsDelete(0))
	cs = append(cs, verifC18SubsDelForUser(false), verifC18SubsDelForUser(true))
	cs = append(cs, verifC18MessageDeleteList("all", 0))
	for r := 1; r <= 3; r++ {
		cs = append(cs, verifC18MessageDeleteList("soft", r), verifC18MessageDeleteList("hard", r))
	}
	cs = append(cs, verifC18DeviceUpsert())
	for _, m := range []string{"all", "one"} {
		cs = append(cs, verifC18DeviceDelete(m, 1), verifC18DeviceDelete(m, 0))
		cs = append(cs, verifC18CredDel(m, 1), verifC18CredDel(m, 0))
	}
	for _, m := range []string{"done", "done_dupe", "validated", "updated", "insert", "insert_dupe"} {
		cs = append(cs, verifC18CredUpsert(m))
	}
	cs = append(cs, verifC18FileFinishUpload("success"), verifC18FileFinishUpload("failure"))
	cs = append(cs, verifC18FileDeleteUnused(0), verifC18FileDeleteUnused(2))
	for n := 1; n <= 3; n++ {
		cs = append(cs, verifC18FileLink("msg", n))
	}
	cs = append(cs, verifC18FileLink("topic", 2), verifC18FileLink("user", 1), verifC18FileLink("malformed", 0))
	cs = append(cs, verifC18Singles()...)
	return cs
}

// verifC18Seeded draws further argument shapes of the parametric operations.
func verifC18Seeded(rng *rand.Rand, n int) []verifC18Case {
	var cs []verifC18Case
	tagsDup := func(max int) (int, int) {
		tg := rng.Intn(max + 1)
		dup := 0
		if tg > 0 && rng.Intn(3) == 0 {
			dup = 1 + rng.Intn(tg)
		}
		return tg, dup
	}
	for i := 0; i < n; i++ {
		switch rng.Intn(9) {
		case 0:
			tg, dup := tagsDup(6)
			cs = append(cs, verifC18UserCreate(tg, dup))
		case 1:
			tg, dup := tagsDup(6)
			cs = append(cs, verifC18UserUpdate(rng.Intn(2) == 0, tg, dup))
		case 2:
			add, dup := tagsDup(5)
			reset := rng.Intn(2) == 0
			rem := 0
			if !reset {
				rem = rng.Intn(4)
			}
			cs = append(cs, verifC18UserUpdateTags(reset, add, rem, dup, rng.Intn(4)))
		case 3:
			tg, dup := tagsDup(6)
			cs = append(cs, verifC18TopicCreate(tg, dup))
		case 4:
			var subs [][2]int
			for j, m := 0, 1+rng.Intn(5); j < m; j++ {
				subs = append(subs, [2]int{rng.Intn(2), rng.Intn(2)})
			}
			cs = append(cs, verifC18TopicShare(subs))
		case 5:
			tg, dup := tagsDup(6)
			cs = append(cs, verifC18TopicUpdate(tg, dup))
		case 6:
			cs = append(cs, verifC18MessageDeleteList([]string{"soft", "hard"}[rng.Intn(2)], 1+rng.Intn(6)))
		case 7:
			cs = append(cs, verifC18FileLink("msg", 1+rng.Intn(5)))
		case 8:
			cs = append(cs, verifC18FileDeleteUnused(rng.Intn(5)))
		}
	}
	return cs
}

// ---------------------------------------------------------------- one run

type verifC18Job struct {
	c     *verifC18Case
	cfg   string // notimeout: sql_timeout unset (contexts without deadline); timeout: sql_timeout set
	fault sqlfake.Fault
	n     int    // round trips of the fault-free run of this branch
	nw    int    // successful data-modifying statements of the fault-free run
	at    string // what the fault position is in the fault-free run
	out   map[string]any
}

// Deadline runs use a short, wall-clock sql_timeout. verifC18DeadlineMs is raised and the run repeated when the machine is so
// loaded that the transaction expires before the chosen position is reached (see verifC18RunAdapter).
const verifC18DeadlineMs = 80

// verifC18Grace is how long a run may take to release its connection after the call returned before it counts as leaked;
// a run that looks leaked is repeated (a real leak is deterministic, a slow machine is not).
const verifC18Grace = 1200 * time.Millisecond

func verifC18NewAdapter(r *pgfake.Recorder, cfg string, kind string) *adapter {
	return verifC18NewAdapterT(r, cfg, kind, verifC18DeadlineMs)
}

func verifC18NewAdapterT(r *pgfake.Recorder, cfg string, kind string, ms_ int) *adapter {
	pc, err := pgxpool.ParseConfig("postgresql://u:p@fake:5432/tinode?sslmode=disable")
	if err != nil {
		panic(err)
	}
	pc.ConnConfig.DialFunc = r.Dial
	pc.ConnConfig.LookupFunc = r.Lookup
	pc.LazyConnect = true
	pc.MaxConns = 4
	pc.HealthCheckPeriod = time.Hour
	pool, err := pgxpool.ConnectConfig(context.Background(), pc)
	if err != nil {
		panic(err)
	}
	a := &adapter{db: pool, dbName: "tinode", maxResults: 1024, maxMessageResults: 100, version: adpVersion}
	if cfg == "timeout" {
		a.sqlTimeout, a.txTimeout = 10*time.Second, 15*time.Second
		if kind == "deadline" {
			a.sqlTimeout, a.txTimeout = time.Duration(ms_)*time.Millisecond, time.Duration(ms_)*1500*time.Microsecond
		}
	}
	return a
}

// verifC18ClosePool: pgxpool.Close blocks until every acquired connection is released; a leaked transaction never
// releases its connection, so the pool is closed in the background.
func verifC18ClosePool(p *pgxpool.Pool) { go p.Close() }

func verifC18Call(run func(a *adapter) error, a *adapter) (err error, panicked string) {
	defer func() {
		if x := recover(); x != nil {
			panicked = fmt.Sprint(x)
		}
	}()
	return run(a), ""
}

// verifC18Quiesce waits until the pool has no connection acquired and the server sees no open transaction (pgx closes a
// connection whose context expired in the background) or the grace period is over (a leaked transaction).
func verifC18Quiesce(db *pgxpool.Pool, r *pgfake.Recorder) int {
	deadline := time.Now().Add(verifC18Grace)
	for {
		n := int(db.Stat().AcquiredConns())
		if (n == 0 && r.OpenTx() == 0) || time.Now().After(deadline) {
			return n
		}
		time.Sleep(200 * time.Microsecond)
	}
}

func verifC18Record(c *verifC18Case, cfg string, f sqlfake.Fault, r *pgfake.Recorder, err error, panicked string, inuse int) map[string]any {
	evs := r.Events()
	if evs == nil {
		evs = []sqlfake.Event{}
	}
	errtext := ""
	if err != nil {
		errtext = err.Error()
	}
	sqls := []string{}
	for _, e := range evs {
		if e.SQL != "" {
			sqls = append(sqls, e.SQL)
		}
	}
	kind := f.Kind
	if kind == "" {
		kind = "none"
	}
	return map[string]any{"dialect": "pg", "op": c.Op, "level": c.Level, "branch": c.P.branch(), "params": c.P, "cfg": cfg,
		"k": f.K, "fault": kind, "applied": r.Applied(), "events": evs, "returned_err": err != nil || panicked != "",
		"errtext": errtext, "panicked": panicked != "", "open_tx_after": r.OpenTx(), "inuse_after": inuse, "sql": sqls}
}

// verifC18Mistimed: a deadline run is only meaningful if the context expired AT position k: not before it was reached
// (slow machine) and without the adapter's next statement slipping in before database/sql noticed the expiry.
func verifC18Mistimed(j *verifC18Job, r *pgfake.Recorder) bool {
	if j.fault.Kind != "deadline" {
		return false
	}
	reached, after := false, false
	for _, e := range r.Events() {
		if e.Pos == j.fault.K {
			reached = true
		}
		if e.Pos > j.fault.K && j.at != "COMMIT" {
			after = true
		}
	}
	return !reached || (r.Applied() && after)
}

func verifC18RunAdapter(j *verifC18Job) {
	var r *pgfake.Recorder
	var a *adapter
	var err error
	var panicked string
	var inuse int
	for attempt, ms_ := 0, verifC18DeadlineMs; ; attempt, ms_ = attempt+1, ms_*3 {
		r = pgfake.New(j.fault, j.c.Rules)
		a = verifC18NewAdapterT(r, j.cfg, j.fault.Kind, ms_)
		err, panicked = verifC18Call(j.c.Run, a)
		inuse = verifC18Quiesce(a.db, r)
		leaked := inuse > 0 || r.OpenTx() > 0
		if attempt >= 3 || (!verifC18Mistimed(j, r) && !(leaked && attempt < 2)) {
			break
		}
		verifC18ClosePool(a.db)
	}
	rec := verifC18Record(j.c, j.cfg, j.fault, r, err, panicked, inuse)
	rec["n"], rec["nw"], rec["at"] = j.n, j.nw, j.at
	if os.Getenv("VERIF_C18_SELFTEST") == "1" && j.c.Op == "TopicDelete" && j.fault.Kind == "err" && j.fault.K == 2 {
		// self-test of the binding: pretend the real adapter did not roll back / did not report
		rec["returned_err"] = false
	}
	if os.Getenv("VERIF_C18_SELFTEST") == "2" && j.c.Op == "DeviceUpsert" && j.fault.Kind == "none" {
		evs := rec["events"].([]sqlfake.Event)
		if len(evs) > 2 {
			evs[1].Tbl = "users" // corrupt one observed statement: must show up as a DIVERGENCE
		}
	}
	j.out = rec
	verifC18ClosePool(a.db)
}

func verifC18Baseline(evs []sqlfake.Event) (n, nw int, at map[int]string, isq map[int]bool) {
	at, isq = map[int]string{}, map[int]bool{}
	for _, e := range evs {
		if e.Pos > 0 {
			if e.Pos > n {
				n = e.Pos
			}
			at[e.Pos] = e.E
			isq[e.Pos] = e.Q
		}
		if e.E == "STMT" && e.Ok && (e.Verb == "INSERT" || e.Verb == "UPDATE" || e.Verb == "DELETE" || e.Verb == "REPLACE") {
			nw++
		}
	}
	return
}

func verifC18Parallel(jobs []*verifC18Job, f func(*verifC18Job)) {
	var wg sync.WaitGroup
	ch := make(chan *verifC18Job)
	for w := 0; w < runtime.GOMAXPROCS(0)*4; w++ {
		wg.Add(1)
		go func() {
			defer wg.Done()
			for j := range ch {
				f(j)
			}
		}()
	}
	for _, j := range jobs {
		ch <- j
	}
	close(ch)
	wg.Wait()
}

var verifC18Once sync.Once

func verifC18InitStore(tb testing.TB) {
	log.SetOutput(io.Discard) // the adapter logs every ignored SAVEPOINT error
	// Fails for lack of a server, but initialises the uid generator that store.DecodeUid needs and selects the adapter.
	cfg := `{"uid_key":"la6YsO+bNX/+XIkOqc5Svw==","use_adapter":"postgres","adapters":{"postgres":{"dsn":"postgresql://u:p@127.0.0.1:1/tinode?sslmode=disable&connect_timeout=1"}}}`
	verifC18Once.Do(func() {
		if err := store.Store.Open(1, json.RawMessage(cfg)); err == nil {
			tb.Fatal("store.Open unexpectedly succeeded: a PostgreSQL server is reachable?")
		}
	})
}

func verifC18Write(tb testing.TB, path string, recs []map[string]any) {
	fh, err := os.Create(path)
	if err != nil {
		tb.Fatal(err)
	}
	defer fh.Close()
	w := bufio.NewWriterSize(fh, 1<<20)
	defer w.Flush()
	enc := json.NewEncoder(w)
	for _, r := range recs {
		if err := enc.Encode(r); err != nil {
			tb.Fatal(err)
		}
	}
}

func verifC18Dedupe(cs []verifC18Case) []verifC18Case {
	seen := map[string]bool{}
	var out []verifC18Case
	for _, c := range cs {
		key := c.Op + "/" + c.P.branch()
		if !seen[key] {
			seen[key] = true
			out = append(out, c)
		}
	}
	return out
}

// TestVerifC18PgAdapter records every transactional adapter method x branch x config x fault position x fault kind.
func TestVerifC18PgAdapter(tt *testing.T) {
	outPath := os.Getenv("VERIF_OUT")
	if outPath == "" {
		tt.Skip("VERIF_OUT not set")
	}
	outPath += ".pg"
	seed, _ := strconv.ParseInt(os.Getenv("VERIF_SEED"), 10, 64)
	nvar, _ := strconv.Atoi(os.Getenv("VERIF_C18_VARIANTS"))
	verifC18InitStore(tt)

	cases := verifC18Canonical()
	cases = append(cases, verifC18Seeded(rand.New(rand.NewSource(seed)), nvar)...)
	cases = verifC18Dedupe(cases)

	cfgs := []string{"notimeout", "timeout"}
	// pass 1: fault-free runs
	var base []*verifC18Job
	for i := range cases {
		for _, cfg := range cfgs {
			base = append(base, &verifC18Job{c: &cases[i], cfg: cfg, fault: sqlfake.Fault{Kind: "none"}})
		}
	}
	verifC18Parallel(base, verifC18RunAdapter)
	// pass 2: one fault per position and kind
	var jobs []*verifC18Job
	for _, b := range base {
		evs := b.out["events"].([]sqlfake.Event)
		n, nw, at, isq := verifC18Baseline(evs)
		b.out["n"], b.out["nw"], b.out["at"] = n, nw, "-"
		kinds := []string{"err", "connloss"}
		if b.cfg == "timeout" {
			kinds = append(kinds, "deadline")
		}
		if b.c.Level == "single" {
			kinds = []string{"err"}
		}
		for k := 1; k <= n; k++ {
			for _, kind := range kinds {
				if kind == "rowserr" && !isq[k] {
					continue
				}
				jobs = append(jobs, &verifC18Job{c: b.c, cfg: b.cfg, fault: sqlfake.Fault{K: k, Kind: kind}, n: n, nw: nw, at: at[k]})
			}
		}
	}
	verifC18Parallel(jobs, verifC18RunAdapter)
	var recs []map[string]any
	for _, j := range append(base, jobs...) {
		recs = append(recs, j.out)
	}
	sort.SliceStable(recs, func(i, j int) bool {
		a, b := recs[i], recs[j]
		ka := fmt.Sprintf("%s/%s/%s/%s/%03d", a["op"], a["branch"], a["cfg"], a["fault"], a["k"])
		kb := fmt.Sprintf("%s/%s/%s/%s/%03d", b["op"], b["branch"], b["cfg"], b["fault"], b["k"])
		return ka < kb
	})
	verifC18Write(tt, outPath, recs)
	tt.Logf("C18 pg adapter: %d branches, %d runs", len(cases), len(recs))
}

// ---------------------------------------------------------------- mapper level (server/store/store.go)

func verifC18StoreCases(rng *rand.Rand, nvar int) []verifC18Case {
	var cs []verifC18Case
	usersCreate := func(tags int) verifC18Case {
		p := verifC18P()
		p.Tags = tags
		return verifC18Case{Op: "Users.Create", Level: "store", P: p, Run: func(a *adapter) error {
			u := &t.User{Tags: verifC18Tags(tags), Public: map[string]any{"fn": "x"}}
			_, err := store.Users.Create(u, map[string]any{"comment": "p"})
			return err
		}}
	}
	topicsCreate := func(tags int, owner bool, own int) verifC18Case {
		p := verifC18P()
		p.Tags = tags
		if owner {
			p.Subs = [][2]int{{0, own}}
		}
		return verifC18Case{Op: "Topics.Create", Level: "store", P: p, Run: func(a *adapter) error {
			tp := &t.Topic{ObjHeader: t.ObjHeader{Id: "grpVerifC18"}, Tags: verifC18Tags(tags)}
			o := t.ZeroUid
			if owner {
				o = verifC18U1
				if own != 0 {
					tp.GiveAccess(o, t.ModeCFull, t.ModeCFull)
				}
			}
			return store.Topics.Create(tp, o, nil)
		}}
	}
	deleteList := func(mode string, ranges int) verifC18Case {
		p := verifC18P()
		p.Mode, p.Ranges = mode, ranges
		return verifC18Case{Op: "Messages.DeleteList", Level: "store", P: p, Run: func(a *adapter) error {
			switch mode {
			case "all":
				return store.Messages.DeleteList("grpVerifC18", 0, t.ZeroUid, nil)
			case "soft":
				return store.Messages.DeleteList("grpVerifC18", 3, verifC18U1, verifC18Ranges(ranges))
			}
			return store.Messages.DeleteList("grpVerifC18", 3, t.ZeroUid, verifC18Ranges(ranges))
		}}
	}
	for tags := 0; tags <= 2; tags++ {
		cs = append(cs, usersCreate(tags))
	}
	cs = append(cs, topicsCreate(0, true, 1), topicsCreate(2, true, 1), topicsCreate(1, true, 0), topicsCreate(1, false, 0))
	cs = append(cs, deleteList("all", 0), deleteList("soft", 1), deleteList("soft", 2), deleteList("hard", 1), deleteList("hard", 3))
	for i := 0; i < nvar; i++ {
		switch rng.Intn(3) {
		case 0:
			cs = append(cs, usersCreate(rng.Intn(6)))
		case 1:
			cs = append(cs, topicsCreate(rng.Intn(6), true, rng.Intn(2)))
		case 2:
			cs = append(cs, deleteList([]string{"soft", "hard"}[rng.Intn(2)], 1+rng.Intn(5)))
		}
	}
	return verifC18Dedupe(cs)
}

// TestVerifC18PgStore drives the real store mappers (Users.Create, Topics.Create, Messages.DeleteList) over the real
// MySQL adapter registered with the store, whose connection pool is replaced by the fake driver for every run.
func TestVerifC18PgStore(tt *testing.T) {
	outPath := os.Getenv("VERIF_OUT")
	if outPath == "" {
		tt.Skip("VERIF_OUT not set")
	}
	outPath += ".pgstore"
	seed, _ := strconv.ParseInt(os.Getenv("VERIF_SEED"), 10, 64)
	nvar, _ := strconv.Atoi(os.Getenv("VERIF_C18_STORE_VARIANTS"))
	verifC18InitStore(tt)
	glob, ok := store.Store.GetAdapter().(*adapter)
	if !ok {
		tt.Fatal("the store did not select the postgres adapter")
	}
	if glob.db != nil {
		verifC18ClosePool(glob.db)
	}
	cases := verifC18StoreCases(rand.New(rand.NewSource(seed+1000)), nvar)
	run := func(c *verifC18Case, cfg string, f sqlfake.Fault) map[string]any {
		for attempt := 0; ; attempt++ {
			r := pgfake.New(f, c.Rules)
			a := verifC18NewAdapter(r, cfg, f.Kind)
			glob.db, glob.sqlTimeout, glob.txTimeout = a.db, a.sqlTimeout, a.txTimeout
			glob.maxResults, glob.maxMessageResults, glob.version, glob.dbName = a.maxResults, a.maxMessageResults, a.version, a.dbName
			err, panicked := verifC18Call(c.Run, glob)
			inuse := verifC18Quiesce(a.db, r)
			rec := verifC18Record(c, cfg, f, r, err, panicked, inuse)
			verifC18ClosePool(a.db)
			if (inuse == 0 && r.OpenTx() == 0) || attempt >= 2 {
				return rec
			}
		}
	}
	var recs []map[string]any
	for i := range cases {
		c := &cases[i]
		for _, cfg := range []string{"notimeout", "timeout"} {
			b := run(c, cfg, sqlfake.Fault{Kind: "none"})
			n, nw, at, _ := verifC18Baseline(b["events"].([]sqlfake.Event))
			b["n"], b["nw"], b["at"] = n, nw, "-"
			recs = append(recs, b)
			for k := 1; k <= n; k++ {
				for _, kind := range []string{"err", "connloss", "outage"} {
					rec := run(c, cfg, sqlfake.Fault{K: k, Kind: kind})
					rec["n"], rec["nw"], rec["at"] = n, nw, at[k]
					recs = append(recs, rec)
				}
			}
		}
	}
	glob.db = nil
	verifC18Write(tt, outPath, recs)
	tt.Logf("C18 pg store: %d branches, %d runs", len(cases), len(recs))
}
