// Package sqlfake is a verification-harness-only fake database/sql driver (overlay, never written to /repo).
//
// It records, per connection, every round trip that a SQL adapter makes: BEGIN, PREPARE, every statement
// (Exec / Query, prepared or not), COMMIT, ROLLBACK, connection loss and close. It can inject exactly one
// fault at the k-th round trip of a run (k counts BEGIN, PREP, STMT, COMMIT in global order):
//
//	err       the round trip returns an error; the connection stays healthy; a failed statement leaves the
//	          transaction open (MySQL semantics); a failed BEGIN opens nothing; a failed COMMIT aborts the tx.
//	connloss  the round trip returns LossErr and the connection is dead from then on (every later round trip on
//	          it returns driver.ErrBadConn, IsValid()==false); the server side transaction is gone (event LOST).
//	outage    connloss + the database is down: every connection is dead, Connect() fails.
//	deadline  the round trip blocks until the governing context (the statement's own context, else the context
//	          the transaction was begun with) is done; a statement with its own context then fails with ctx.Err(),
//	          otherwise it completes late and successfully. If no context has a deadline the fault is recorded
//	          as not applied and the round trip proceeds normally.
//	rowserr   (Query only) the call returns a Rows whose first Next() fails; the connection stays healthy.
//
// Results are canned: Exec returns RowsAffected=1/LastInsertId=1 unless a Rule says otherwise; Query returns
// zero rows (columns parsed from the SELECT list, so sqlx scanning works) unless a Rule supplies rows.
// The package only RECORDS; whether a recorded trace is acceptable is decided by TLC (spec/Monitor_C18.tla).
package sqlfake

import (
	"context"
	"database/sql/driver"
	"errors"
	"io"
	"strings"
	"sync"
	"time"
)

// Event is one observed driver round trip (or connection life-cycle event).
type Event struct {
	Conn int    `json:"c"`
	E    string `json:"e"`    // BEGIN PREP STMT COMMIT ROLLBACK LOST CLOSE
	Pos  int    `json:"pos"`  // 1-based ordinal among faultable round trips (BEGIN PREP STMT COMMIT); 0 otherwise
	Verb string `json:"verb"` // SELECT INSERT UPDATE DELETE REPLACE OTHER, "" for non statements
	Tbl  string `json:"tbl"`  // first table named by the statement
	Q    bool   `json:"q"`    // Query (true) or Exec (false)
	InTx bool   `json:"intx"` // the connection was inside BEGIN..COMMIT/ROLLBACK when the round trip arrived
	Ok   bool   `json:"ok"`   // the round trip succeeded
	Res  string `json:"res"`  // ok | fault | dupe | dead | late
	SQL  string `json:"-"`
}

// Rule cans the result of the Nth (1-based; 0 = every) statement whose text contains Match.
type Rule struct {
	Match    string
	Nth      int
	Affected int64 // used when SetAffected
	SetAff   bool
	Dupe     bool // return DupErr() (a handled "duplicate key" error), connection and tx unaffected
	Rows     [][]driver.Value
	seen     int
}

// Fault is the single fault of a run. K==0 or Kind=="none": no fault.
type Fault struct {
	K    int
	Kind string
}

// ErrInjected is what a statement failing with kind "err" returns.
var ErrInjected = errors.New("verif: injected statement failure")

// ErrRows is what Rows.Next returns with kind "rowserr".
var ErrRows = errors.New("verif: injected result-set failure")

// Recorder is the shared state of one run: one fake database.
type Recorder struct {
	mu      sync.Mutex
	events  []Event
	pos     int
	fault   Fault
	applied bool
	rules   []*Rule
	conns   []*conn
	down    bool
	// DupErr makes the adapter-specific "duplicate key" error; LossErr the adapter-specific lost-connection error.
	DupErr  func() error
	LossErr error
	// Settle is how long a "deadline" round trip keeps blocking after the context is done (lets database/sql's
	// own rollback-on-cancel goroutine win the race deterministically).
	Settle time.Duration
}

// New makes a recorder with the given fault and rules.
func New(f Fault, rules []Rule) *Recorder {
	r := &Recorder{fault: f, LossErr: errors.New("invalid connection"), Settle: 5 * time.Millisecond}
	r.DupErr = func() error { return errors.New("duplicate") }
	for i := range rules {
		rc := rules[i]
		r.rules = append(r.rules, &rc)
	}
	return r
}

// Events returns a copy of the recorded events.
func (r *Recorder) Events() []Event {
	r.mu.Lock()
	defer r.mu.Unlock()
	return append([]Event(nil), r.events...)
}

// Applied reports whether the fault was actually injected.
func (r *Recorder) Applied() bool {
	r.mu.Lock()
	defer r.mu.Unlock()
	return r.applied
}

// OpenTx is the driver's own view: number of live connections currently inside a transaction.
func (r *Recorder) OpenTx() int {
	r.mu.Lock()
	defer r.mu.Unlock()
	n := 0
	for _, c := range r.conns {
		if c.inTx && !c.dead && !c.closed {
			n++
		}
	}
	return n
}

// Positions returns the number of faultable round trips seen so far.
func (r *Recorder) Positions() int {
	r.mu.Lock()
	defer r.mu.Unlock()
	return r.pos
}

// ---------------------------------------------------------------- connector

type connector struct{ r *Recorder }

// Connector returns a driver.Connector for sql.OpenDB.
func (r *Recorder) Connector() driver.Connector { return connector{r} }

func (c connector) Driver() driver.Driver { return drv{} }

func (c connector) Connect(ctx context.Context) (driver.Conn, error) {
	r := c.r
	r.mu.Lock()
	defer r.mu.Unlock()
	if r.down {
		return nil, errors.New("verif: connection refused (database is down)")
	}
	cn := &conn{r: r, id: len(r.conns) + 1}
	r.conns = append(r.conns, cn)
	return cn, nil
}

type drv struct{}

func (drv) Open(string) (driver.Conn, error) { return nil, errors.New("sqlfake: use sql.OpenDB") }

// ---------------------------------------------------------------- connection

type conn struct {
	r      *Recorder
	id     int
	dead   bool
	closed bool
	inTx   bool
	txCtx  context.Context
}

// decision of the fault injector for one round trip
type verdict struct {
	fail  bool   // return an error
	err   error  // the error
	res   string // Event.Res
	rows  bool   // rowserr
	waitc []context.Context
	own   context.Context
}

// step is called with r.mu held at the arrival of a faultable round trip; it assigns the position and
// decides the fault. A nil waitc means "answer at once".
func (c *conn) step(kind string, own context.Context, isQuery bool) (int, verdict) {
	r := c.r
	r.pos++
	p := r.pos
	if c.dead {
		return p, verdict{fail: true, err: driver.ErrBadConn, res: "dead"}
	}
	if r.fault.K != p || r.fault.Kind == "" || r.fault.Kind == "none" {
		return p, verdict{res: "ok"}
	}
	switch r.fault.Kind {
	case "err":
		r.applied = true
		return p, verdict{fail: true, err: ErrInjected, res: "fault"}
	case "connloss", "outage":
		r.applied = true
		c.dead = true
		if r.fault.Kind == "outage" {
			r.down = true
			for _, o := range r.conns {
				o.dead = true
			}
		}
		return p, verdict{fail: true, err: r.LossErr, res: "fault"}
	case "rowserr":
		if isQuery {
			r.applied = true
			return p, verdict{rows: true, res: "fault"}
		}
		return p, verdict{res: "ok"}
	case "deadline":
		var w []context.Context
		if own != nil {
			if _, ok := own.Deadline(); ok {
				w = append(w, own)
			}
		}
		if c.inTx && c.txCtx != nil {
			if _, ok := c.txCtx.Deadline(); ok {
				w = append(w, c.txCtx)
			}
		}
		if len(w) == 0 {
			return p, verdict{res: "ok"} // nothing can expire here: fault not applied
		}
		r.applied = true
		return p, verdict{waitc: w, own: own, res: "late"}
	}
	return p, verdict{res: "ok"}
}

// wait blocks (without the lock) until one of the contexts is done; returns the error the round trip must
// fail with (own context expired) or nil (completes late).
func (r *Recorder) wait(v verdict) error {
	if len(v.waitc) == 0 {
		return nil
	}
	if len(v.waitc) == 1 {
		<-v.waitc[0].Done()
	} else {
		select {
		case <-v.waitc[0].Done():
		case <-v.waitc[1].Done():
		}
	}
	time.Sleep(r.Settle)
	if v.own != nil && v.own.Err() != nil {
		return v.own.Err()
	}
	return nil
}

func (c *conn) lost() {
	// r.mu held
	c.r.events = append(c.r.events, Event{Conn: c.id, E: "LOST", InTx: c.inTx})
	c.inTx = false
	c.txCtx = nil
}

func (c *conn) BeginTx(ctx context.Context, opts driver.TxOptions) (driver.Tx, error) {
	r := c.r
	r.mu.Lock()
	p, v := c.step("BEGIN", ctx, false)
	wasIn := c.inTx
	if len(v.waitc) > 0 {
		r.mu.Unlock()
		werr := r.wait(v)
		r.mu.Lock()
		if werr != nil {
			v.fail, v.err = true, werr
		}
	}
	ev := Event{Conn: c.id, E: "BEGIN", Pos: p, InTx: wasIn, Ok: !v.fail, Res: v.res}
	r.events = append(r.events, ev)
	if v.fail {
		if c.dead && v.res == "fault" {
			c.lost()
		}
		r.mu.Unlock()
		return nil, v.err
	}
	c.inTx = true
	c.txCtx = ctx
	r.mu.Unlock()
	return &tx{c}, nil
}

func (c *conn) Begin() (driver.Tx, error) { return c.BeginTx(context.Background(), driver.TxOptions{}) }

type tx struct{ c *conn }

func (t *tx) Commit() error {
	c, r := t.c, t.c.r
	r.mu.Lock()
	p, v := c.step("COMMIT", nil, false)
	wasIn := c.inTx
	if len(v.waitc) > 0 {
		r.mu.Unlock()
		r.wait(v)
		r.mu.Lock()
	}
	r.events = append(r.events, Event{Conn: c.id, E: "COMMIT", Pos: p, InTx: wasIn, Ok: !v.fail, Res: v.res})
	if v.fail {
		if c.dead && v.res == "fault" {
			c.lost()
		}
		// A COMMIT that fails aborts the transaction (nothing becomes durable).
		c.inTx = false
		c.txCtx = nil
		r.mu.Unlock()
		return v.err
	}
	c.inTx = false
	c.txCtx = nil
	r.mu.Unlock()
	return nil
}

func (t *tx) Rollback() error {
	c, r := t.c, t.c.r
	r.mu.Lock()
	defer r.mu.Unlock()
	if c.dead {
		r.events = append(r.events, Event{Conn: c.id, E: "ROLLBACK", InTx: c.inTx, Ok: false, Res: "dead"})
		return driver.ErrBadConn
	}
	r.events = append(r.events, Event{Conn: c.id, E: "ROLLBACK", InTx: c.inTx, Ok: true, Res: "ok"})
	c.inTx = false
	c.txCtx = nil
	return nil
}

func (c *conn) Close() error {
	r := c.r
	r.mu.Lock()
	defer r.mu.Unlock()
	if !c.closed {
		c.closed = true
		r.events = append(r.events, Event{Conn: c.id, E: "CLOSE", InTx: c.inTx})
		c.inTx = false
	}
	return nil
}

func (c *conn) Ping(ctx context.Context) error {
	c.r.mu.Lock()
	defer c.r.mu.Unlock()
	if c.dead {
		return driver.ErrBadConn
	}
	return nil
}

func (c *conn) ResetSession(ctx context.Context) error {
	c.r.mu.Lock()
	defer c.r.mu.Unlock()
	if c.dead {
		return driver.ErrBadConn
	}
	return nil
}

func (c *conn) IsValid() bool {
	c.r.mu.Lock()
	defer c.r.mu.Unlock()
	return !c.dead
}

// CheckNamedValue converts arguments the way the real MySQL driver does: driver.Valuer is honoured (so
// Value() errors surface), uint64 with the high bit set is accepted.
func (c *conn) CheckNamedValue(nv *driver.NamedValue) error {
	v, err := driver.DefaultParameterConverter.ConvertValue(nv.Value)
	if err != nil {
		if u, ok := nv.Value.(uint64); ok {
			nv.Value = u
			return nil
		}
		return err
	}
	nv.Value = v
	return nil
}

// statement is the common path of Exec and Query, prepared or not.
func (c *conn) statement(ctx context.Context, query string, isQuery bool) (driver.Result, driver.Rows, error) {
	r := c.r
	verb, tbl := Classify(query)
	r.mu.Lock()
	p, v := c.step("STMT", ctx, isQuery)
	wasIn := c.inTx
	var rule *Rule
	if !v.fail && !v.rows {
		rule = r.match(query)
		if rule != nil && rule.Dupe {
			v.fail, v.err, v.res = true, r.DupErr(), "dupe"
		}
	}
	if len(v.waitc) > 0 {
		r.mu.Unlock()
		werr := r.wait(v)
		r.mu.Lock()
		if werr != nil {
			v.fail, v.err = true, werr
		}
	}
	ok := !v.fail && !v.rows
	r.events = append(r.events, Event{Conn: c.id, E: "STMT", Pos: p, Verb: verb, Tbl: tbl, Q: isQuery, InTx: wasIn, Ok: ok, Res: v.res, SQL: query})
	if v.fail && c.dead && v.res == "fault" {
		c.lost()
	}
	r.mu.Unlock()
	if v.fail {
		return nil, nil, v.err
	}
	if isQuery {
		rows := &rows{cols: Columns(query)}
		if v.rows {
			rows.fail = true
		} else if rule != nil {
			rows.data = rule.Rows
		}
		return nil, rows, nil
	}
	aff := int64(1)
	if rule != nil && rule.SetAff {
		aff = rule.Affected
	}
	return result{aff}, nil, nil
}

func (r *Recorder) match(q string) *Rule {
	var hit *Rule
	for _, ru := range r.rules {
		if strings.Contains(q, ru.Match) {
			ru.seen++
			if hit == nil && (ru.Nth == 0 || ru.Nth == ru.seen) {
				hit = ru
			}
		}
	}
	return hit
}

func (c *conn) ExecContext(ctx context.Context, query string, args []driver.NamedValue) (driver.Result, error) {
	res, _, err := c.statement(ctx, query, false)
	return res, err
}

func (c *conn) QueryContext(ctx context.Context, query string, args []driver.NamedValue) (driver.Rows, error) {
	_, rows, err := c.statement(ctx, query, true)
	return rows, err
}

func (c *conn) Prepare(query string) (driver.Stmt, error) {
	return c.PrepareContext(context.Background(), query)
}

func (c *conn) PrepareContext(ctx context.Context, query string) (driver.Stmt, error) {
	r := c.r
	verb, tbl := Classify(query)
	r.mu.Lock()
	p, v := c.step("PREP", ctx, false)
	wasIn := c.inTx
	if len(v.waitc) > 0 {
		r.mu.Unlock()
		werr := r.wait(v)
		r.mu.Lock()
		if werr != nil {
			v.fail, v.err = true, werr
		}
	}
	r.events = append(r.events, Event{Conn: c.id, E: "PREP", Pos: p, Verb: verb, Tbl: tbl, InTx: wasIn, Ok: !v.fail, Res: v.res, SQL: query})
	if v.fail && c.dead && v.res == "fault" {
		c.lost()
	}
	r.mu.Unlock()
	if v.fail {
		return nil, v.err
	}
	return &stmt{c: c, q: query}, nil
}

type stmt struct {
	c *conn
	q string
}

func (s *stmt) Close() error  { return nil }
func (s *stmt) NumInput() int { return -1 }
func (s *stmt) Exec(args []driver.Value) (driver.Result, error) {
	res, _, err := s.c.statement(context.Background(), s.q, false)
	return res, err
}
func (s *stmt) Query(args []driver.Value) (driver.Rows, error) {
	_, rows, err := s.c.statement(context.Background(), s.q, true)
	return rows, err
}
func (s *stmt) ExecContext(ctx context.Context, args []driver.NamedValue) (driver.Result, error) {
	res, _, err := s.c.statement(ctx, s.q, false)
	return res, err
}
func (s *stmt) QueryContext(ctx context.Context, args []driver.NamedValue) (driver.Rows, error) {
	_, rows, err := s.c.statement(ctx, s.q, true)
	return rows, err
}
func (s *stmt) CheckNamedValue(nv *driver.NamedValue) error { return s.c.CheckNamedValue(nv) }

type result struct{ aff int64 }

func (r result) LastInsertId() (int64, error) { return 1, nil }
func (r result) RowsAffected() (int64, error) { return r.aff, nil }

type rows struct {
	cols []string
	data [][]driver.Value
	i    int
	fail bool
}

func (r *rows) Columns() []string { return r.cols }
func (r *rows) Close() error      { return nil }
func (r *rows) Next(dest []driver.Value) error {
	if r.fail {
		return ErrRows
	}
	if r.i >= len(r.data) {
		return io.EOF
	}
	copy(dest, r.data[r.i])
	r.i++
	return nil
}

// ---------------------------------------------------------------- SQL text helpers

// Classify returns the verb and the first table of a statement.
func Classify(q string) (string, string) {
	f := strings.Fields(strings.NewReplacer("(", " ( ", ")", " ) ", ",", " , ", "`", "").Replace(q))
	if len(f) == 0 {
		return "OTHER", ""
	}
	verb := strings.ToUpper(f[0])
	after := func(kw string) string {
		for i := 0; i+1 < len(f); i++ {
			if strings.EqualFold(f[i], kw) {
				return strings.ToLower(f[i+1])
			}
		}
		return ""
	}
	switch verb {
	case "SELECT":
		return verb, after("FROM")
	case "INSERT", "REPLACE":
		return verb, after("INTO")
	case "UPDATE":
		if len(f) > 1 {
			return verb, strings.ToLower(f[1])
		}
	case "DELETE":
		return verb, after("FROM")
	}
	if verb == "UPDATE" {
		return verb, ""
	}
	return "OTHER", ""
}

// Columns parses the column names (aliases) out of the SELECT list.
func Columns(q string) []string {
	up := strings.ToUpper(q)
	i := strings.Index(up, "SELECT")
	if i < 0 {
		return nil
	}
	body := q[i+6:]
	upb := up[i+6:]
	depth, end := 0, -1
	for j := 0; j < len(body); j++ {
		switch body[j] {
		case '(':
			depth++
		case ')':
			depth--
		}
		if depth == 0 && strings.HasPrefix(upb[j:], " FROM ") || depth == 0 && strings.HasPrefix(upb[j:], "\nFROM ") ||
			depth == 0 && strings.HasPrefix(upb[j:], "\tFROM ") {
			end = j
			break
		}
	}
	if end < 0 {
		end = len(body)
	}
	list := body[:end]
	var parts []string
	depth = 0
	cur := ""
	for _, ch := range list {
		switch ch {
		case '(':
			depth++
		case ')':
			depth--
		}
		if ch == ',' && depth == 0 {
			parts = append(parts, cur)
			cur = ""
			continue
		}
		cur += string(ch)
	}
	parts = append(parts, cur)
	var cols []string
	for _, p := range parts {
		p = strings.TrimSpace(strings.ReplaceAll(p, "`", ""))
		flds := strings.Fields(p)
		name := p
		if len(flds) >= 3 && strings.EqualFold(flds[len(flds)-2], "AS") {
			name = flds[len(flds)-1]
		} else if k := strings.LastIndex(p, "."); k >= 0 && !strings.ContainsAny(p, "( ") {
			name = p[k+1:]
		}
		cols = append(cols, strings.ToLower(name))
	}
	return cols
}
