package fcm

// C13 recorder (overlay), notification previews: every Drafty content of the C13 input set (VERIF_IN: ndjson
// {"i":n,"cls":label,"content":<json>}) is rendered the way the push adapter renders a message into a notification:
// the REAL payloadToData (drafty.PlainText + drafty.Preview). A panic here is a panic of the push goroutine of the
// server (no recover anywhere): recorded with its site; Monitor_C13 decides.

import (
	"bufio"
	"bytes"
	"encoding/json"
	"fmt"
	"os"
	"regexp"
	"runtime/debug"
	"strings"
	"testing"
	"time"

	"github.com/tinode/chat/server/push"
)

var verifC13FrameRe = regexp.MustCompile(`(?m)^(github\.com/tinode/chat/server\S*)\(.*\n\s+(\S+?):(\d+)`)

func verifC13Site(stack string) string {
	var sites []string
	for _, m := range verifC13FrameRe.FindAllStringSubmatch(stack, -1) {
		fn, file := m[1], m[2]
		if strings.Contains(file, "zz_verif_") || strings.Contains(fn, "verif") {
			continue
		}
		fn = strings.TrimPrefix(strings.TrimPrefix(fn, "github.com/tinode/chat/server"), "/")
		sites = append(sites, fn)
		if len(sites) == 2 {
			break
		}
	}
	if len(sites) == 0 {
		return "unknown"
	}
	return strings.Join(sites, "<")
}

func TestVerifC13Preview(t *testing.T) {
	in, outp := os.Getenv("VERIF_IN"), os.Getenv("VERIF_OUT")
	if in == "" || outp == "" {
		t.Skip("VERIF_IN / VERIF_OUT not set")
	}
	fin, err := os.Open(in)
	if err != nil {
		t.Fatal(err)
	}
	defer fin.Close()
	fout, err := os.Create(outp)
	if err != nil {
		t.Fatal(err)
	}
	defer fout.Close()
	bw := bufio.NewWriterSize(fout, 1<<20)
	defer bw.Flush()
	selftest := os.Getenv("VERIF_C13_SELFTEST")
	sc := bufio.NewScanner(fin)
	sc.Buffer(make([]byte, 1<<20), 1<<28)
	for sc.Scan() {
		line := bytes.TrimSpace(sc.Bytes())
		if len(line) == 0 {
			continue
		}
		var x struct {
			I       int    `json:"i"`
			Cls     string `json:"cls"`
			Content any    `json:"content"`
		}
		if err := json.Unmarshal(line, &x); err != nil {
			t.Fatalf("bad line: %v", err)
		}
		rec := map[string]any{"op": "preview", "i": x.I, "cls": x.Cls, "panic": false, "site": "", "panicv": "", "err": "", "hung": false}
		done := make(chan struct{})
		go func() {
			defer close(done)
			defer func() {
				if p := recover(); p != nil {
					rec["panic"] = true
					rec["panicv"] = fmt.Sprint(p)
					rec["site"] = verifC13Site(string(debug.Stack()))
				}
			}()
			pl := &push.Payload{What: push.ActMsg, Silent: false, Topic: "grpVerif", From: "usrVerif", Timestamp: time.Now(), SeqId: 1,
				ContentType: "text/x-drafty", Content: x.Content}
			if _, err := payloadToData(pl); err != nil {
				rec["err"] = err.Error()
			}
		}()
		select {
		case <-done:
		case <-time.After(20 * time.Second):
			rec["hung"] = true
		}
		if strings.Contains(selftest, "preview") && x.I%40 == 3 {
			rec["panic"] = true
			rec["site"] = "selftest"
		}
		b, _ := json.Marshal(rec)
		bw.Write(append(b, '\n'))
	}
}
