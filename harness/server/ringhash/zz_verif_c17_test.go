package ringhash

// Verification harness (overlay): C17, ring half. Records what the REAL ring does:
// for a hash function injected through New(replicas, fn) as a table lookup on the hashed string
// (mode "table"), and for the default CRC32 ring (mode "crc"), the real sorted replica list
// (ring.keys), Get(key) for every key and Signature() for several listings (subsets, permutations,
// a listing with a duplicate, the empty listing) of one node universe per case.
// TLC (Monitor_C17R) evaluates the laws of the property on these outputs and compares them with
// the prediction of spec/RingRef.tla. Nothing is decided here.

import (
	"bufio"
	"encoding/json"
	"hash/crc32"
	"math/rand"
	"os"
	"sort"
	"strconv"
	"testing"
)

type verifC17Tab struct {
	S []int  `json:"s"`
	H [2]int `json:"h"`
}

type verifC17Elem struct {
	H [2]int `json:"h"`
	K []int  `json:"k"`
}

type verifC17Ring struct {
	Nodes [][]int        `json:"nodes"`
	Dup   bool           `json:"dup"`
	Sig   string         `json:"sig"`
	Elems []verifC17Elem `json:"elems"`
	Get   [][]int        `json:"get"`
}

type verifC17Case struct {
	Op    string         `json:"op"`
	Mode  string         `json:"mode"`
	R     int            `json:"r"`
	Tab   []verifC17Tab  `json:"tab"`
	Keys  [][]int        `json:"keys"`
	Rings []verifC17Ring `json:"rings"`
}

func verifC17Bytes(s string) []int {
	out := make([]int, 0, len(s))
	for i := 0; i < len(s); i++ {
		out = append(out, int(s[i]))
	}
	return out
}

func verifC17HL(h uint32) [2]int { return [2]int{int(h >> 16), int(h & 0xffff)} }

// one case: universe, replicas, keys, listings; hash = table (nil table => default CRC32 ring)
func verifC17Run(t *testing.T, mode string, replicas int, table map[string]uint32, keys []string, listings [][]string) verifC17Case {
	var fn Hash
	missing := ""
	if table != nil {
		fn = func(data []byte) uint32 {
			v, ok := table[string(data)]
			if !ok {
				missing = string(data)
			}
			return v
		}
	}
	c := verifC17Case{Op: "ring", Mode: mode, R: replicas}
	hashed := map[string]bool{}
	addTab := func(s string) {
		if hashed[s] {
			return
		}
		hashed[s] = true
		var h uint32
		if table != nil {
			h = table[s]
		} else {
			h = crc32.ChecksumIEEE([]byte(s))
		}
		c.Tab = append(c.Tab, verifC17Tab{S: verifC17Bytes(s), H: verifC17HL(h)})
	}
	for _, k := range keys {
		c.Keys = append(c.Keys, verifC17Bytes(k))
		addTab(k)
	}
	for _, l := range listings {
		seen := map[string]bool{}
		dup := false
		ring := New(replicas, fn)
		if len(l) > 0 {
			ring.Add(l...)
		}
		r := verifC17Ring{Nodes: [][]int{}, Elems: []verifC17Elem{}, Get: [][]int{}}
		for _, n := range l {
			r.Nodes = append(r.Nodes, verifC17Bytes(n))
			if seen[n] {
				dup = true
			}
			seen[n] = true
			for i := 0; i < replicas; i++ {
				addTab(strconv.Itoa(i) + n)
			}
		}
		r.Dup = dup
		r.Sig = ring.Signature()
		for _, e := range ring.keys {
			r.Elems = append(r.Elems, verifC17Elem{H: verifC17HL(e.hash), K: verifC17Bytes(e.key)})
		}
		for _, k := range keys {
			got := ring.Get(k)
			if os.Getenv("VERIF_C17_SELFTEST") == "ring" && len(l) > 1 && got == l[0] && len(k) > 0 && k[0] == 'c' {
				got = l[1] // self-test of the binding only: corrupt one real output
			}
			r.Get = append(r.Get, verifC17Bytes(got))
		}
		c.Rings = append(c.Rings, r)
	}
	if missing != "" {
		t.Fatalf("harness: hash table has no entry for %q", missing)
	}
	return c
}

func verifC17Subsets(u []string) [][]string {
	out := [][]string{}
	for m := 1; m < 1<<uint(len(u)); m++ {
		s := []string{}
		for i := range u {
			if m&(1<<uint(i)) != 0 {
				s = append(s, u[i])
			}
		}
		out = append(out, s)
	}
	return out
}

func verifC17Rev(l []string) []string {
	o := make([]string, len(l))
	for i := range l {
		o[len(l)-1-i] = l[i]
	}
	return o
}

func verifC17Shuffle(rng *rand.Rand, l []string) []string {
	o := append([]string{}, l...)
	rng.Shuffle(len(o), func(i, j int) { o[i], o[j] = o[j], o[i] })
	return o
}

// listings of a universe: every non-empty subset; reversed and shuffled orders of the subsets with
// more than one node (all of them when `allperm`), one listing with a duplicate, the empty listing.
func verifC17Listings(rng *rand.Rand, u []string, allperm bool) [][]string {
	out := [][]string{}
	for _, s := range verifC17Subsets(u) {
		out = append(out, s)
		if len(s) > 1 && (allperm || len(s) == len(u) || rng.Intn(3) == 0) {
			out = append(out, verifC17Rev(s))
			if len(s) > 2 {
				out = append(out, verifC17Shuffle(rng, s))
			}
		}
	}
	out = append(out, append(append([]string{}, u...), u[rng.Intn(len(u))]))
	out = append(out, []string{})
	return out
}

func TestVerifC17Ring(t *testing.T) {
	outPath := os.Getenv("VERIF_OUT")
	if outPath == "" {
		t.Skip("VERIF_OUT not set")
	}
	seed, _ := strconv.ParseInt(os.Getenv("VERIF_SEED"), 10, 64)
	nTable, _ := strconv.Atoi(os.Getenv("VERIF_C17_TABLES"))
	nCrc, _ := strconv.Atoi(os.Getenv("VERIF_C17_CRC"))
	exhStep, _ := strconv.Atoi(os.Getenv("VERIF_C17_EXHSTEP"))
	if exhStep <= 0 {
		exhStep = 1
	}
	rng := rand.New(rand.NewSource(seed))

	fh, err := os.Create(outPath)
	if err != nil {
		t.Fatal(err)
	}
	defer fh.Close()
	w := bufio.NewWriterSize(fh, 1<<20)
	defer w.Flush()
	enc := json.NewEncoder(w)

	// keys around a set of names: for every hash value v one key sorting below / between / above the
	// names, the names themselves, their replica strings and "" (hash values from `pick`)
	mkKeys := func(names []string, replicas, hmax int, table map[string]uint32, pick func() uint32) []string {
		keys := []string{}
		add := func(s string, h uint32) {
			if _, ok := table[s]; !ok {
				table[s] = h
			}
			for _, k := range keys {
				if k == s {
					return
				}
			}
			keys = append(keys, s)
		}
		sorted := append([]string{}, names...)
		sort.Strings(sorted)
		for v := 0; v <= hmax; v++ {
			add("\x01"+strconv.Itoa(v), uint32(v)) // below every name used here
			for _, n := range sorted {
				add(n+"\x01"+strconv.Itoa(v), uint32(v)) // just above n
			}
			add("\xf0"+strconv.Itoa(v), uint32(v)) // above every name
		}
		for _, n := range names {
			add(n, pick())
			for i := 0; i < replicas; i++ {
				add(strconv.Itoa(i)+n, pick())
			}
		}
		add("", pick())
		return keys
	}

	// Part 1: universe {"b","d"}, 2 replicas, EVERY hash table 0..7 on the four replica strings
	// (every exhStep-th in the quick tier, offset by the seed)
	n := 0
	for code := int(seed) % exhStep; code < 8*8*8*8; code += exhStep {
		u := []string{"b", "d"}
		table := map[string]uint32{"0b": uint32(code & 7), "1b": uint32(code >> 3 & 7), "0d": uint32(code >> 6 & 7), "1d": uint32(code >> 9 & 7)}
		keys := mkKeys(u, 2, 7, table, func() uint32 { return uint32(rng.Intn(8)) })
		c := verifC17Run(t, "table", 2, table, keys, [][]string{{"b"}, {"d"}, {"b", "d"}, {"d", "b"}, {}})
		if err := enc.Encode(c); err != nil {
			t.Fatal(err)
		}
		n++
	}

	// Part 2: seeded random tables: universe of 1..4 names from a pool with awkward members
	// ("" and names that collide with replica prefixes), 1..3 replicas, hash space 0..hmax
	pool := []string{"b", "d", "f", "h", "", "0", "1", "10", "b0", "0b", "d\x01", "é"}
	for i := 0; i < nTable; i++ {
		size := 1 + rng.Intn(4)
		perm := rng.Perm(len(pool))
		u := []string{}
		for _, j := range perm[:size] {
			u = append(u, pool[j])
		}
		replicas := 1 + rng.Intn(3)
		hmax := []int{1, 3, 7, 7}[rng.Intn(4)]
		table := map[string]uint32{}
		pick := func() uint32 { return uint32(rng.Intn(hmax + 1)) }
		for _, nm := range u {
			for r := 0; r < replicas; r++ {
				s := strconv.Itoa(r) + nm
				if _, ok := table[s]; !ok {
					table[s] = pick()
				}
			}
		}
		keys := mkKeys(u, replicas, hmax, table, pick)
		c := verifC17Run(t, "table", replicas, table, keys, verifC17Listings(rng, u, size <= 3))
		if err := enc.Encode(c); err != nil {
			t.Fatal(err)
		}
		n++
	}

	// Part 3: the default CRC32 ring on seeded random name sets (1..8 nodes) and random keys
	alphabet := []string{"a", "b", "z", "0", "1", "9", "-", "_", ".", " ", "é", "节", "N", "\x00", "\xff"}
	randName := func(maxLen int) string {
		s := ""
		for l := rng.Intn(maxLen + 1); l > 0; l-- {
			s += alphabet[rng.Intn(len(alphabet))]
		}
		return s
	}
	topicChars := "ABCDEFGHIJKLMNOPQRSTUVWXYZabcdefghijklmnopqrstuvwxyz0123456789-_"
	for i := 0; i < nCrc; i++ {
		size := 1 + rng.Intn(8)
		seen := map[string]bool{}
		u := []string{}
		for len(u) < size {
			nm := randName(5)
			if rng.Intn(4) == 0 {
				nm = "node" + strconv.Itoa(rng.Intn(12))
			}
			if !seen[nm] {
				seen[nm] = true
				u = append(u, nm)
			}
		}
		replicas := []int{1, 2, 3, 20}[rng.Intn(4)]
		keys := []string{""}
		for len(keys) < 16 {
			k := []string{"usr", "grp", "chn", "p2p", ""}[rng.Intn(5)]
			for l := rng.Intn(12); l > 0; l-- {
				k += string(topicChars[rng.Intn(len(topicChars))])
			}
			keys = append(keys, k)
		}
		keys = append(keys, u[0], "0"+u[0], randName(8))
		listings := [][]string{u, verifC17Rev(u), verifC17Shuffle(rng, u)}
		for j := range u {
			less := append(append([]string{}, u[:j]...), u[j+1:]...)
			if len(less) > 0 {
				listings = append(listings, verifC17Shuffle(rng, less))
			}
		}
		listings = append(listings, append(append([]string{}, u...), u[rng.Intn(len(u))]), []string{})
		c := verifC17Run(t, "crc", replicas, nil, keys, listings)
		if err := enc.Encode(c); err != nil {
			t.Fatal(err)
		}
		n++
	}
	t.Logf("C17 ring: %d cases", n)
}
