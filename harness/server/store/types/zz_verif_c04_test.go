package types

// Verification harness (overlay): C04 pure part — the REAL sort.Sort(RangeSorter) + Normalize on every list of
// up to N ranges over a small id space, in every order. Records only; the TLA+ monitor (spec/Monitor_C04R.tla) decides.

import (
	"bufio"
	"encoding/json"
	"os"
	"sort"
	"strconv"
	"testing"
)

func TestVerifC04Ranges(t *testing.T) {
	outPath := os.Getenv("VERIF_OUT")
	if outPath == "" {
		t.Skip("VERIF_OUT not set")
	}
	maxLen, _ := strconv.Atoi(os.Getenv("VERIF_C04_MAXLEN"))
	if maxLen == 0 {
		maxLen = 2
	}
	stride, _ := strconv.Atoi(os.Getenv("VERIF_C04_STRIDE"))
	if stride == 0 {
		stride = 1
	}
	const maxID = 6
	fh, err := os.Create(outPath)
	if err != nil {
		t.Fatal(err)
	}
	defer fh.Close()
	w := bufio.NewWriterSize(fh, 1<<20)
	defer w.Flush()
	enc := json.NewEncoder(w)
	type rg struct {
		Low int `json:"low"`
		Hi  int `json:"hi"`
	}
	var all []Range
	for lo := 0; lo <= maxID; lo++ {
		for hi := 0; hi <= maxID+1; hi++ {
			if hi != 0 && hi < lo {
				continue // inverted ranges never reach Normalize: replyDelMsg rejects them
			}
			all = append(all, Range{Low: lo, Hi: hi})
		}
	}
	conv := func(rs []Range) []rg {
		out := make([]rg, 0, len(rs))
		for _, r := range rs {
			out = append(out, rg{r.Low, r.Hi})
		}
		return out
	}
	n := 0
	var rec func(cur []Range)
	rec = func(cur []Range) {
		if len(cur) > 0 {
			n++
			if len(cur) < 3 || n%stride == 0 {
				raw := append([]Range(nil), cur...)
				srt := append([]Range(nil), cur...)
				sort.Sort(RangeSorter(srt))
				sorted := append([]Range(nil), srt...)
				out := RangeSorter(srt).Normalize()
				if err := enc.Encode(map[string]any{"op": "norm", "raw": conv(raw), "sorted": conv(sorted), "out": conv(out)}); err != nil {
					t.Fatal(err)
				}
			}
		}
		if len(cur) == maxLen {
			return
		}
		for _, r := range all {
			rec(append(cur, r))
		}
	}
	rec(nil)
}
