package types

// Verification harness (overlay, never written to /repo): C05 access-mode algebra.
// Runs the REAL AccessMode functions over an exhaustively enumerated finite domain and records
// (input, real output) vectors; the TLA+ monitors (spec/Monitor_C05.tla) decide.

import (
	"bufio"
	"encoding/json"
	"os"
	"strconv"
	"strings"
	"testing"
)

var verifLetters = []string{"J", "R", "W", "P", "A", "S", "D", "O"}

func verifModeArr(m AccessMode) []string {
	out := []string{}
	for i, l := range verifLetters {
		if m&(1<<uint(i)) != 0 {
			out = append(out, l)
		}
	}
	if m&ModeUnset != 0 {
		out = append(out, "U")
	}
	if m&ModeInvalid != 0 {
		out = append(out, "I")
	}
	return out
}

func verifChars(s string) []string {
	out := []string{}
	for _, r := range s {
		out = append(out, string(r))
	}
	return out
}

type verifRec map[string]any

func verifStrings(alphabet []string, maxLen int, f func(string)) {
	var rec func(prefix string, n int)
	rec = func(prefix string, n int) {
		f(prefix)
		if n == 0 {
			return
		}
		for _, a := range alphabet {
			rec(prefix+a, n-1)
		}
	}
	rec("", maxLen)
}

func TestVerifC05Vectors(t *testing.T) {
	outPath := os.Getenv("VERIF_OUT")
	if outPath == "" {
		t.Skip("VERIF_OUT not set")
	}
	maxLen, _ := strconv.Atoi(os.Getenv("VERIF_C05_MAXLEN"))
	if maxLen == 0 {
		maxLen = 3
	}
	pairStep, _ := strconv.Atoi(os.Getenv("VERIF_C05_PAIRSTEP"))
	if pairStep == 0 {
		pairStep = 1
	}
	fh, err := os.Create(outPath)
	if err != nil {
		t.Fatal(err)
	}
	defer fh.Close()
	w := bufio.NewWriterSize(fh, 1<<20)
	defer w.Flush()
	enc := json.NewEncoder(w)
	emit := func(r verifRec) {
		if err := enc.Encode(r); err != nil {
			t.Fatal(err)
		}
	}

	specials := []AccessMode{ModeUnset, ModeInvalid, ModeUnset | ModeJoin}
	// 1. text forms and round trips through every representation, all 256 modes (+ specials for text)
	for i := 0; i < 256; i++ {
		m := AccessMode(i)
		txt, terr := m.MarshalText()
		back, perr := ParseAcs(txt)
		var viaText AccessMode = ModeInvalid
		uerr := viaText.UnmarshalText(txt)
		js, jerr := json.Marshal(m)
		var viaJSON AccessMode = ModeInvalid
		juerr := json.Unmarshal(js, &viaJSON)
		val, verr := m.Value()
		var viaDB AccessMode = ModeInvalid
		var serr error
		if s, ok := val.(string); ok {
			serr = viaDB.Scan([]byte(s))
		} else {
			serr = os.ErrInvalid
		}
		lower := strings.ToLower(string(txt))
		var viaLower AccessMode = ModeInvalid
		lerr := viaLower.UnmarshalText([]byte(lower))
		emit(verifRec{"op": "repr", "m": verifModeArr(m), "text": verifChars(string(txt)), "str": verifChars(m.String()),
			"err": terr != nil || perr != nil || uerr != nil || jerr != nil || juerr != nil || verr != nil || serr != nil || lerr != nil,
			"parsed": verifModeArr(back), "viaText": verifModeArr(viaText), "json": verifChars(string(js)),
			"viaJSON": verifModeArr(viaJSON), "viaDB": verifModeArr(viaDB), "viaLower": verifModeArr(viaLower)})
	}
	for _, m := range specials {
		txt, terr := m.MarshalText()
		emit(verifRec{"op": "text", "m": verifModeArr(m), "text": verifChars(string(txt)), "err": terr != nil})
	}

	// 2. every short string through ParseAcs / UnmarshalText / ApplyDelta / ApplyMutation
	alphabet := []string{"J", "R", "W", "P", "A", "S", "D", "O", "j", "N", "n", "+", "-", "x", " "}
	if maxLen >= 5 {
		alphabet = []string{"J", "R", "O", "N", "+", "-", "x", "j"}
	}
	pres := []AccessMode{ModeNone, ModeCPublic, ModeCFull}
	verifStrings(alphabet, maxLen, func(s string) {
		pm, perr := ParseAcs([]byte(s))
		emit(verifRec{"op": "parse", "s": verifChars(s), "ok": perr == nil, "m": verifModeArr(pm)})
		for _, pre := range pres {
			m := pre
			e1 := m.UnmarshalText([]byte(s))
			emit(verifRec{"op": "unmarshal", "s": verifChars(s), "pre": verifModeArr(pre), "ok": e1 == nil, "post": verifModeArr(m)})
			m = pre
			e2 := m.ApplyDelta(s)
			emit(verifRec{"op": "applydelta", "s": verifChars(s), "pre": verifModeArr(pre), "ok": e2 == nil, "post": verifModeArr(m)})
			m = pre
			e3 := m.ApplyMutation(s)
			emit(verifRec{"op": "mutation", "s": verifChars(s), "pre": verifModeArr(pre), "ok": e3 == nil, "post": verifModeArr(m)})
		}
	})

	// 2b. structured multi-chunk deltas: [sign chunk]{2,3} with valid, empty, junk and N chunks
	chunks := []string{"", "J", "O", "W", "x", "N", "JO", "Jx", "NJ", "n", "jr"}
	signs := []string{"+", "-"}
	seen := map[string]bool{}
	var multi func(prefix string, n int)
	multi = func(prefix string, n int) {
		if n == 0 {
			if seen[prefix] {
				return
			}
			seen[prefix] = true
			for _, pre := range pres {
				m := pre
				e2 := m.ApplyDelta(prefix)
				emit(verifRec{"op": "applydelta", "s": verifChars(prefix), "pre": verifModeArr(pre), "ok": e2 == nil, "post": verifModeArr(m)})
				m = pre
				e3 := m.ApplyMutation(prefix)
				emit(verifRec{"op": "mutation", "s": verifChars(prefix), "pre": verifModeArr(pre), "ok": e3 == nil, "post": verifModeArr(m)})
			}
			return
		}
		for _, sg := range signs {
			for _, c := range chunks {
				multi(prefix+sg+c, n-1)
			}
		}
	}
	multi("", 2)
	if maxLen >= 4 {
		multi("", 3)
	}

	// 3. every pair of modes: delta then apply (both entry points), and the comparison helpers
	for a := 0; a < 256; a++ {
		for b := (a * 7) % pairStep; b < 256; b += pairStep {
			o, n := AccessMode(a), AccessMode(b)
			d := o.Delta(n)
			m1 := o
			e1 := m1.ApplyDelta(d)
			m2 := o
			e2 := m2.ApplyMutation(d)
			emit(verifRec{"op": "deltaapply", "a": verifModeArr(o), "b": verifModeArr(n), "d": verifChars(d),
				"ok": e1 == nil && e2 == nil, "post": verifModeArr(m1), "postMut": verifModeArr(m2),
				"bt": o.BetterThan(n), "be": o.BetterEqual(n)})
		}
	}
}
