package types

// Verification harness (overlay, never written to /repo): C20 identifier and topic-name codecs.
// Calls the REAL Uid / P2P / grp-chn functions over boundary, seeded-random and malformed inputs and records
// (input, real output) vectors; the TLA+ monitors (spec/Monitor_C20.tla over spec/Codec.tla) decide.

import (
	"bufio"
	"encoding/base64"
	"encoding/binary"
	"encoding/json"
	"math/rand"
	"os"
	"strconv"
	"strings"
	"testing"
)

type verifC20Rec map[string]any

func verifC20Chars(s string) []string {
	out := []string{}
	for _, r := range s {
		out = append(out, string(r))
	}
	return out
}

// numeric form -> little-endian byte values, computed arithmetically (independent of the code under test)
func verifC20Bytes(u Uid) []int {
	out := make([]int, 8)
	for i := 0; i < 8; i++ {
		out[i] = int((uint64(u) >> (8 * uint(i))) & 0xff)
	}
	return out
}

func verifC20RawBytes(b []byte) []int {
	out := make([]int, len(b))
	for i := range b {
		out[i] = int(b[i])
	}
	return out
}

const verifC20Other = Uid(0xAAAAAAAAAAAAAAAA) // what a decode target holds beforehand

func verifC20BoundaryIds() []Uid {
	seen := map[Uid]bool{}
	out := []Uid{}
	add := func(u Uid) {
		if !seen[u] {
			seen[u] = true
			out = append(out, u)
		}
	}
	add(0)
	add(1)
	add(2)
	for k := uint(1); k < 64; k++ {
		p := Uid(1) << k
		add(p - 1)
		add(p)
		add(p + 1)
	}
	add(^Uid(0))
	add(^Uid(0) - 1)
	add(0xAAAAAAAAAAAAAAAA)
	add(0x5555555555555555)
	add(0x0123456789ABCDEF)
	add(0xFEDCBA9876543210)
	for i := uint(0); i < 8; i++ {
		add(Uid(0xFF) << (8 * i))
		add(^(Uid(0xFF) << (8 * i)))
		add(Uid(0x80) << (8 * i))
		add(Uid(0x01) << (8 * i))
	}
	// ids whose texts end in every possible last character (the pad-bit carrier)
	for v := 0; v < 16; v++ {
		add(Uid(v)<<56 | 7)
	}
	return out
}

func verifC20Open(t *testing.T) (func(verifC20Rec), func()) {
	outPath := os.Getenv("VERIF_OUT")
	if outPath == "" {
		t.Skip("VERIF_OUT not set")
	}
	fh, err := os.Create(outPath)
	if err != nil {
		t.Fatal(err)
	}
	w := bufio.NewWriterSize(fh, 1<<20)
	enc := json.NewEncoder(w)
	enc.SetEscapeHTML(false)
	emit := func(r verifC20Rec) {
		if err := enc.Encode(r); err != nil {
			t.Fatal(err)
		}
	}
	return emit, func() { w.Flush(); fh.Close() }
}

func verifC20Env(name string, def int) int {
	if v, err := strconv.Atoi(os.Getenv(name)); err == nil && v > 0 {
		return v
	}
	return def
}

const verifC20B64 = "ABCDEFGHIJKLMNOPQRSTUVWXYZabcdefghijklmnopqrstuvwxyz0123456789-_"
const verifC20B32 = "abcdefghijklmnopqrstuvwxyz234567"

func TestVerifC20Codec(t *testing.T) {
	emit, done := verifC20Open(t)
	defer done()
	seed, _ := strconv.ParseInt(os.Getenv("VERIF_SEED"), 10, 64)
	rng := rand.New(rand.NewSource(seed*7919 + 20))
	nRandom := verifC20Env("VERIF_C20_RANDOM", 1500)
	nBases := verifC20Env("VERIF_C20_BASES", 10)
	nPairs := verifC20Env("VERIF_C20_PAIRS", 400)
	selftest := os.Getenv("VERIF_C20_SELFTEST")

	var gen UidGenerator
	if err := gen.Init(1, []byte("la6YsO+bNX/+XIkO")); err != nil {
		t.Fatal(err)
	}

	ids := verifC20BoundaryIds()
	nBoundary := len(ids)
	for i := 0; i < nRandom; i++ {
		ids = append(ids, Uid(rng.Uint64()))
	}

	// ---------------------------------------------------------------- 1. every form of every id, and back
	for k, u := range ids {
		uu := u
		text, terr := uu.MarshalText()
		js, jerr := json.Marshal(&uu)
		bin, berr := u.MarshalBinary()
		s32 := u.String32()
		userid := u.UserId()

		viaText := verifC20Other
		uterr := viaText.UnmarshalText(text)
		viaJSON := verifC20Other
		ujerr := json.Unmarshal(js, &viaJSON)
		var viaBin Uid = verifC20Other
		uberr := viaBin.UnmarshalBinary(bin)
		var h ObjHeader
		h.SetUid(u)
		h2 := ObjHeader{Id: h.Id}
		dbv := gen.DecodeUid(u)
		if selftest == "uid" && k == 7 {
			viaText ^= 1 << 40 // self-test of the binding: flip one bit of a real output
		}
		emit(verifC20Rec{"op": "uid", "n": verifC20Bytes(u), "boundary": k < nBoundary,
			"text": verifC20Chars(string(text)), "str": verifC20Chars(u.String()), "json": verifC20Chars(string(js)),
			"s32": verifC20Chars(s32), "userid": verifC20Chars(userid), "fnd": verifC20Chars(u.FndName()),
			"grpid": verifC20Chars(u.PrefixId("grp")), "bin": verifC20RawBytes(bin),
			"encErr": terr != nil || jerr != nil || berr != nil,
			"viaText": verifC20Bytes(viaText), "viaTextOk": uterr == nil,
			"viaParse": verifC20Bytes(ParseUid(u.String())),
			"viaJSON": verifC20Bytes(viaJSON), "viaJSONOk": ujerr == nil,
			"via32": verifC20Bytes(ParseUid32(s32)),
			"viaUser": verifC20Bytes(ParseUserId(userid)),
			"viaBin": verifC20Bytes(viaBin), "viaBinOk": uberr == nil,
			"viaHdr": verifC20Bytes(h2.Uid()),
			"dbdec": verifC20Bytes(Uid(uint64(dbv))), "viaDb": verifC20Bytes(gen.EncodeInt64(dbv)),
		})
	}
	// database direction: every int64 the database may hand back maps to an id and returns
	dbvals := []int64{0, 1, 2, 1 << 31, 1<<31 - 1, 1 << 32, 1<<62 + 5, 1<<63 - 1}
	for i := 0; i < nRandom/4; i++ {
		dbvals = append(dbvals, rng.Int63())
	}
	for _, v := range dbvals {
		u := gen.EncodeInt64(v)
		emit(verifC20Rec{"op": "dbint", "v": verifC20Bytes(Uid(uint64(v))), "enc": verifC20Bytes(u),
			"back": verifC20Bytes(Uid(uint64(gen.DecodeUid(u))))})
	}

	// distinct ids have distinct texts (one record, a small set)
	{
		rows := []any{}
		for _, u := range ids[:60] {
			rows = append(rows, []any{verifC20Bytes(u), verifC20Chars(u.String()), verifC20Chars(u.String32()), verifC20Chars(u.UserId())})
		}
		emit(verifC20Rec{"op": "uidinj", "rows": rows})
	}

	// ---------------------------------------------------------------- 2. texts offered as ids
	dec := func(fn, cls, s string) {
		r := verifC20Rec{"op": "dec", "fn": fn, "cls": cls, "s": verifC20Chars(s)}
		switch fn {
		case "UnmarshalText":
			target := verifC20Other
			err := target.UnmarshalText([]byte(s))
			r["out"], r["ok"] = verifC20Bytes(target), err == nil
		case "ParseUid":
			r["out"], r["ok"] = verifC20Bytes(ParseUid(s)), true
		case "ParseUserId":
			r["out"], r["ok"] = verifC20Bytes(ParseUserId(s)), true
		case "ParseUid32":
			r["out"], r["ok"] = verifC20Bytes(ParseUid32(s)), true
		case "UnmarshalJSON":
			target := verifC20Other
			err := target.UnmarshalJSON([]byte(s))
			r["out"], r["ok"] = verifC20Bytes(target), err == nil
		case "JsonDecode": // through encoding/json, the way a session or a REST authenticator decodes
			target := verifC20Other
			err := json.Unmarshal([]byte(s), &target)
			r["out"], r["ok"] = verifC20Bytes(target), err == nil
		}
		if selftest == "dec" && cls == "too_short" && fn == "ParseUid" {
			r["out"] = verifC20Bytes(1) // self-test of the binding
			selftest = ""
		}
		emit(r)
	}
	bases := []Uid{1, 2, 0x0123456789ABCDEF, ^Uid(0), 1 << 63, 0xFF00000000000001}
	for v := 0; v < 16; v += 5 {
		bases = append(bases, Uid(v)<<56|9)
	}
	for i := 0; i < nBases; i++ {
		bases = append(bases, Uid(rng.Uint64()))
	}
	badChars := []string{"=", "+", "/", "*", " ", "\n", "\r", ".", "%", "\x00", "é"}
	for _, u := range bases {
		txt := u.String()
		b64variants := [][2]string{{"valid", txt}}
		last := strings.IndexByte(verifC20B64, txt[10])
		for d := 1; d < 4; d++ {
			b64variants = append(b64variants, [2]string{"trailing_bits", txt[:10] + string(verifC20B64[last^d])})
		}
		for _, n := range []int{0, 1, 5, 10} {
			b64variants = append(b64variants, [2]string{"too_short", txt[:n]})
		}
		b64variants = append(b64variants, [2]string{"too_long", txt + "A"}, [2]string{"too_long", txt + txt},
			[2]string{"too_long", "A" + txt}, [2]string{"padding", txt + "="}, [2]string{"padding", txt[:10] + "="},
			[2]string{"padding", txt + "=="})
		for _, pos := range []int{0, 5, 10} {
			for _, c := range badChars {
				b64variants = append(b64variants, [2]string{"bad_alphabet", txt[:pos] + c + txt[pos+1:]})
			}
		}
		for _, v := range b64variants {
			dec("UnmarshalText", v[0], v[1])
			dec("ParseUid", v[0], v[1])
			dec("ParseUserId", v[0], "usr"+v[1])
			dec("UnmarshalJSON", v[0], "\""+v[1]+"\"")
			if !strings.ContainsAny(v[1], "\n\r\x00") {
				dec("JsonDecode", v[0], "\""+v[1]+"\"")
			}
		}
		for _, p := range []string{"USR", "Usr", "uSr", "usR", "us", "u", "", "usr ", " usr", "grp", "fnd", "p2p", "chn", "usrusr", "rsu"} {
			dec("ParseUserId", "bad_prefix", p+txt)
		}
		dec("ParseUserId", "bad_prefix", "usr")
		dec("ParseUserId", "bad_prefix", "")
		for _, s := range []string{txt, "'" + txt + "'", "\"" + txt, txt + "\"", "\"" + txt + "\" ", "null", "12345678901", "1234567890123",
			"{\"" + txt[:8] + "\"}", "[\"" + txt[:7] + "\"]", "\"\"" + txt} {
			dec("UnmarshalJSON", "bad_json", s)
		}
		for _, s := range []string{"null", "1", "{}", "[]", "\"" + txt[:10] + "\"", "\"" + txt + "A\""} {
			dec("JsonDecode", "bad_json", s)
		}

		// base32
		s32 := u.String32()
		up := strings.ToUpper(s32)
		mixed := strings.ToUpper(s32[:6]) + s32[6:]
		l32 := strings.IndexByte(verifC20B32, s32[12])
		b32variants := [][2]string{{"lower_canonical", s32}, {"upper", up}, {"mixed_case", mixed},
			{"trailing_bits", s32[:12] + string(verifC20B32[l32^1])}, {"trailing_bits", up[:12] + strings.ToUpper(string(verifC20B32[l32^1]))},
			{"too_short", ""}, {"too_short", s32[:12]}, {"too_short", up[:12]}, {"too_short", up[:8]}, {"too_short", up[:1]},
			{"too_long", s32 + "a"}, {"too_long", up + "A"}, {"too_long", up + "AA"}, {"too_long", up + "AAA"}, {"too_long", s32 + "aaa"},
			{"too_long", up + up}, {"too_long", "A" + up},
			{"padding", s32 + "==="}, {"padding", up + "==="}, {"padding", up + "="},
			{"newline", up[:5] + "\n" + up[5:]}, {"newline", up + "\n"}, {"newline", up[:5] + "\r\n" + up[5:]}, {"newline", s32 + "\n"},
		}
		for _, pos := range []int{0, 6, 12} {
			for _, c := range []string{"0", "1", "8", "9", "-", "_", "=", " ", "*", "é"} {
				b32variants = append(b32variants, [2]string{"bad_alphabet", up[:pos] + c + up[pos+1:]},
					[2]string{"bad_alphabet", s32[:pos] + c + s32[pos+1:]})
			}
		}
		for _, v := range b32variants {
			dec("ParseUid32", v[0], v[1])
		}
	}
	// the zero id's own texts
	for _, s := range []string{"", "AAAAAAAAAAA"} {
		dec("ParseUid", "zero_forms", s)
		dec("UnmarshalText", "zero_forms", s)
		dec("ParseUserId", "zero_forms", "usr"+s)
		dec("UnmarshalJSON", "zero_forms", "\""+s+"\"")
		dec("JsonDecode", "zero_forms", "\""+s+"\"")
	}
	dec("ParseUid32", "zero_forms", "aaaaaaaaaaaaa")
	dec("ParseUid32", "zero_forms", "AAAAAAAAAAAAA")

	// ---------------------------------------------------------------- 3. p2p names
	small := []Uid{0, 1, 2, 3, 255, 256, 257, 1 << 31, 1 << 32, 1<<32 + 1, 1<<63 - 1, 1 << 63, 1<<63 + 1, ^Uid(0) - 1, ^Uid(0),
		0x0123456789ABCDEF, 0xFEDCBA9876543210, 0x00000000000000FF, 0xFF00000000000000, 0x0100000000000000}
	for i := 0; i < 4; i++ {
		small = append(small, Uid(rng.Uint64()))
	}
	type pair struct{ a, b Uid }
	pairs := []pair{}
	for _, a := range small {
		for _, b := range small {
			pairs = append(pairs, pair{a, b})
		}
	}
	for i := 0; i < nPairs; i++ {
		a, b := Uid(rng.Uint64()), Uid(rng.Uint64())
		switch i % 8 {
		case 0: // neighbours: differ in one bit
			b = a ^ (Uid(1) << uint(rng.Intn(64)))
		case 1: // same high half
			b = a&0xFFFFFFFF00000000 | Uid(rng.Uint32())
		case 2: // byte-swapped
			b = Uid(binary.BigEndian.Uint64(verifC20LE(a)))
		}
		pairs = append(pairs, pair{a, b})
	}
	third := Uid(0x7777777777777777)
	for k, p := range pairs {
		ab, ba := p.a.P2PName(p.b), p.b.P2PName(p.a)
		u1, u2, err := ParseP2P(ab)
		forA, errA := P2PNameForUser(p.a, ab)
		forB, errB := P2PNameForUser(p.b, ab)
		forC, errC := P2PNameForUser(third, ab)
		if selftest == "p2p" && k == 30 {
			forA = p.a.UserId()
		}
		emit(verifC20Rec{"op": "p2p", "a": verifC20Bytes(p.a), "b": verifC20Bytes(p.b),
			"ua": verifC20Chars(p.a.UserId()), "ub": verifC20Chars(p.b.UserId()),
			"ab": verifC20Chars(ab), "ba": verifC20Chars(ba),
			"ok": err == nil, "u1": verifC20Bytes(u1), "u2": verifC20Bytes(u2),
			"forA": verifC20Chars(forA), "forAok": errA == nil, "forB": verifC20Chars(forB), "forBok": errB == nil,
			"forC": verifC20Chars(forC), "forCok": errC == nil})
	}
	// different pairs have different names (one record over the small set)
	{
		rows := []any{}
		for i, a := range small {
			for _, b := range small[i+1:] {
				if a != 0 && b != 0 {
					rows = append(rows, []any{verifC20Bytes(a), verifC20Bytes(b), verifC20Chars(a.P2PName(b))})
				}
			}
		}
		emit(verifC20Rec{"op": "p2pinj", "rows": rows})
	}
	// texts offered as p2p names
	p2pdec := func(cls, s string, who Uid) {
		u1, u2, err := ParseP2P(s)
		name, nerr := P2PNameForUser(who, s)
		emit(verifC20Rec{"op": "p2pdec", "cls": cls, "s": verifC20Chars(s), "ok": err == nil,
			"u1": verifC20Bytes(u1), "u2": verifC20Bytes(u2), "who": verifC20Bytes(who),
			"name": verifC20Chars(name), "nameOk": nerr == nil})
	}
	raw := func(a, b Uid) string {
		return "p2p" + base64.URLEncoding.WithPadding(base64.NoPadding).EncodeToString(append(verifC20LE(a), verifC20LE(b)...))
	}
	p2pBases := []pair{{1, 2}, {0x0123456789ABCDEF, 0xFEDCBA9876543210}, {1 << 63, ^Uid(0)}, {3, 1 << 60}}
	for i := 0; i < nBases/2+1; i++ {
		a, b := Uid(rng.Uint64()), Uid(rng.Uint64())
		if a > b {
			a, b = b, a
		}
		if a != b && a != 0 {
			p2pBases = append(p2pBases, pair{a, b})
		}
	}
	for _, p := range p2pBases {
		nm := p.a.P2PName(p.b)
		body := nm[3:]
		p2pdec("valid", nm, p.a)
		last := strings.IndexByte(verifC20B64, body[21])
		for d := 1; d < 16; d += 3 {
			p2pdec("trailing_bits", "p2p"+body[:21]+string(verifC20B64[last^d]), p.a)
		}
		p2pdec("swapped", raw(p.b, p.a), p.a)
		p2pdec("self", raw(p.a, p.a), p.a)
		p2pdec("zero_member", raw(0, p.b), p.b)
		p2pdec("zero_member", raw(p.a, 0), p.a)
		p2pdec("zero_member", raw(0, 0), p.a)
		for _, n := range []int{0, 1, 11, 21} {
			p2pdec("too_short", "p2p"+body[:n], p.a)
		}
		p2pdec("too_long", nm+"A", p.a)
		p2pdec("too_long", nm+body, p.a)
		p2pdec("padding", nm+"==", p.a)
		p2pdec("padding", "p2p"+body[:20]+"==", p.a)
		for _, pos := range []int{0, 11, 21} {
			for _, c := range []string{"=", "+", "/", "*", " ", "\n", "é"} {
				p2pdec("bad_alphabet", "p2p"+body[:pos]+c+body[pos+1:], p.a)
			}
		}
		for _, pf := range []string{"P2P", "p2P", "P2p", "p2", "", "usr", "grp", "p2p ", " p2p", "p2pp2p"} {
			p2pdec("bad_prefix", pf+body, p.a)
		}
		p2pdec("bad_prefix", p.a.UserId(), p.a)
	}

	// ---------------------------------------------------------------- 4. grp <-> chn spellings
	bodies := []string{"", "A", "grp", "chn", "grpgrp", "chnchn", "xgrpx", "chngrp", "grpchn", "AbCdEf123-_", Uid(77).String(),
		"gr", "pgr", "nch", "GRP", "grpAgrpBgrp", "  ", "é"}
	for i := 0; i < nBases; i++ {
		bodies = append(bodies, Uid(rng.Uint64()).String())
	}
	names := []string{"", "g", "gr", "ch", "me", "fnd", "sys", "new", "nch", "newabc", "nchabc", "GRPabc", "Grpabc", "CHNabc", "usr" + Uid(5).String(),
		Uid(5).P2PName(6), "xgrpabc", " grpabc", "grp", "chn"}
	for _, b := range bodies {
		names = append(names, "grp"+b, "chn"+b)
	}
	for k, s := range names {
		g2c, c2g := GrpToChn(s), ChnToGrp(s)
		if selftest == "grpchn" && k == 25 {
			g2c = strings.Replace(g2c, "grp", "chn", -1)
			c2g += "x"
		}
		emit(verifC20Rec{"op": "grpchn", "s": verifC20Chars(s), "g2c": verifC20Chars(g2c), "c2g": verifC20Chars(c2g),
			"isChan": IsChannel(s), "g2c2g": verifC20Chars(ChnToGrp(GrpToChn(s))), "c2g2c": verifC20Chars(GrpToChn(ChnToGrp(s)))})
	}
}

func verifC20LE(u Uid) []byte {
	b := make([]byte, 8)
	for i := 0; i < 8; i++ {
		b[i] = byte(uint64(u) >> (8 * uint(i)))
	}
	return b
}
