package main

// Verification harness (overlay): C05, change notifications replayed through the REAL
// Topic.notifySubChange (authoritative side) and Topic.updateAcsFromPresMsg (cluster-proxy follower).

import (
	"bufio"
	"encoding/json"
	"math/rand"
	"os"
	"strconv"
	"testing"

	"github.com/tinode/chat/server/store/types"
)

var verifLetters = []string{"J", "R", "W", "P", "A", "S", "D", "O"}

func verifModeArr(m types.AccessMode) []string {
	out := []string{}
	for i, l := range verifLetters {
		if m&(1<<uint(i)) != 0 {
			out = append(out, l)
		}
	}
	if m&types.ModeUnset != 0 {
		out = append(out, "U")
	}
	if m&types.ModeInvalid != 0 {
		out = append(out, "I")
	}
	return out
}

func verifChars(s string) []string {
	out := []string{}
	for _, r := range s {
		out = append(out, string(r))
	}
	return out
}

type verifTrackStep struct {
	Ow []string `json:"ow"`
	Og []string `json:"og"`
	Nw []string `json:"nw"`
	Ng []string `json:"ng"`
	Dw []string `json:"dw"`
	Dg []string `json:"dg"`
	Fw []string `json:"fw"`
	Fg []string `json:"fg"`
	N  int      `json:"nmsgs"`
}

func TestVerifC05Tracker(t *testing.T) {
	outPath := os.Getenv("VERIF_OUT")
	if outPath == "" {
		t.Skip("VERIF_OUT not set")
	}
	stride, _ := strconv.Atoi(os.Getenv("VERIF_C05_STRIDE"))
	if stride == 0 {
		stride = 1
	}
	walks, _ := strconv.Atoi(os.Getenv("VERIF_C05_WALKS"))
	seed, _ := strconv.ParseInt(os.Getenv("VERIF_SEED"), 10, 64)
	rng := rand.New(rand.NewSource(seed))

	fh, err := os.Create(outPath)
	if err != nil {
		t.Fatal(err)
	}
	defer fh.Close()
	w := bufio.NewWriterSize(fh, 1<<20)
	defer w.Flush()
	enc := json.NewEncoder(w)

	hub := &Hub{routeSrv: make(chan *ServerComMessage, 256), routeCli: make(chan *ClientComMessage, 16)}
	savedHub := globals.hub
	globals.hub = hub
	defer func() { globals.hub = savedHub }()

	target, admin := types.Uid(1001), types.Uid(1002)
	master := &Topic{name: "grpVerifC05", xoriginal: "grpVerifC05", cat: types.TopicCatGrp, status: topicStatusLoaded,
		perUser: map[types.Uid]perUserData{}, sessions: map[*Session]perSessionData{}, owner: admin}
	follower := &Topic{name: "grpVerifC05", xoriginal: "grpVerifC05", cat: types.TopicCatGrp, isProxy: true,
		perUser: map[types.Uid]perUserData{}, sessions: map[*Session]perSessionData{}}

	step := func(ow, og, nw, ng types.AccessMode, resetFollower bool) verifTrackStep {
		master.perUser[admin] = perUserData{modeWant: types.ModeCFull, modeGiven: types.ModeCFull}
		master.perUser[target] = perUserData{modeWant: nw & types.ModeBitmask, modeGiven: ng & types.ModeBitmask}
		if resetFollower {
			follower.perUser[target] = perUserData{modeWant: ow & types.ModeBitmask, modeGiven: og & types.ModeBitmask}
		}
		master.notifySubChange(target, admin, false, ow, og, nw, ng, "")
		var acs *MsgAccessMode
		n := 0
		consistent := true
	drain:
		for {
			select {
			case m := <-hub.routeSrv:
				if m.Pres != nil && m.Pres.What == "acs" {
					n++
					if acs == nil {
						acs = m.Pres.Acs
					} else if m.Pres.Acs == nil || *m.Pres.Acs != *acs {
						consistent = false
					}
				}
			default:
				break drain
			}
		}
		st := verifTrackStep{Ow: verifModeArr(ow), Og: verifModeArr(og), Nw: verifModeArr(nw), Ng: verifModeArr(ng), N: n,
			Dw: []string{}, Dg: []string{}}
		if acs != nil {
			st.Dw, st.Dg = verifChars(acs.Want), verifChars(acs.Given)
			follower.updateAcsFromPresMsg(&MsgServerPres{Topic: "grpVerifC05", What: "acs", Src: target.UserId(), Acs: acs})
		}
		if !consistent {
			st.Dw = append(st.Dw, "!inconsistent!")
		}
		pud := follower.perUser[target]
		st.Fw, st.Fg = verifModeArr(pud.modeWant), verifModeArr(pud.modeGiven)
		return st
	}

	values := []types.AccessMode{}
	for i := 0; i < 256; i++ {
		values = append(values, types.AccessMode(i))
	}
	values = append(values, types.ModeUnset)

	emit := func(steps []verifTrackStep) {
		if err := enc.Encode(map[string]any{"op": "tracker", "steps": steps}); err != nil {
			t.Fatal(err)
		}
	}
	// every (old, new) pair on the want side and on the given side, follower starting equal to the master
	for oi := 0; oi < len(values); oi++ {
		var sw, sg []verifTrackStep
		for ni := (oi * 5) % stride; ni < len(values); ni += stride {
			o, n := values[oi], values[ni]
			// an unsubscribe announces both sides as unset together
			og := types.ModeCPublic
			ng := og
			if n == types.ModeUnset {
				ng = types.ModeUnset
			}
			sw = append(sw, step(o, og, n, ng, true))
			sg = append(sg, step(og, o, ng, n, true))
		}
		emit(sw)
		emit(sg)
	}
	// random walks, follower state carried from step to step
	for k := 0; k < walks; k++ {
		cw, cg := types.AccessMode(rng.Intn(256)), types.AccessMode(rng.Intn(256))
		var ws []verifTrackStep
		for i := 0; i < 100; i++ {
			nw, ng := cw, cg
			switch rng.Intn(3) {
			case 0:
				nw = types.AccessMode(rng.Intn(256))
			case 1:
				ng = types.AccessMode(rng.Intn(256))
			default:
				nw, ng = types.AccessMode(rng.Intn(256)), types.AccessMode(rng.Intn(256))
			}
			ws = append(ws, step(cw, cg, nw, ng, i == 0))
			cw, cg = nw, ng
		}
		emit(ws)
	}
}
