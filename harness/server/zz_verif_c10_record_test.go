package main

// Verification harness (overlay) for C10 — presence converges to the truth and never leaks.
// Extends the World through its registries only (compiled only into the C10 check):
//   * action  ConnectBg{sess, force}: a NEW connection of abstract session s whose handshake declares {hi bkg:true}
//     (the documented way to ask for deferred presence). With force=true the harness additionally sets the session's
//     `background` flag when the handshake did not (that is what cluster.go does for proxied sessions), so that the
//     deferred-notification paths of the topic actor (sessToForeground, handleLeaveRequest accounting) can be driven.
//   * actions IdleFire{t}, BgExpire{s}: the World's Unload / BgFire made robust against scheduling delays (same real timers).
//   * record  rec["c10"]: for every user the contact table of the loaded 'me' topic (perSubs: abstract name, online,
//     enabled) with its loaded/announced flags, for every projected loaded topic its announced flag (isLoaded) and the
//     attached sessions with the server-side background flag and the DECLARED background status, and the per-session flags.
// All topic fields are read inside the record callback only (the runner calls it at quiescence).
// Go only records; the TLA+ monitors (spec/Monitor_C10.tla) decide.

import (
	"encoding/base64"
	"fmt"
	"os"
	"sort"
	"strings"
	"time"

	"github.com/tinode/chat/server/auth"
	"github.com/tinode/chat/server/store"
)

// declared background status per abstract session of the behaviour being replayed:
// true from a ConnectBg until the background timer expiry (BgFire step), a Disconnect or a plain Connect.
var verifC10Decl = map[string]bool{}

// observation made by the last IdleFire step: the topic was loaded with no session attached; was its idle timer armed?
var verifC10Idle map[string]any

// sessions whose flag was forced by the harness (labels only)
var verifC10Forced = map[string]bool{}

func verifC10ConnectBg(r *verifRunner, a map[string]any) (string, error) {
	w := r.w
	// the session is named by field "sess" (not "s"): the runner drops steps whose "s" names a dead session
	name := verifStr(a, "sess")
	if old := w.sess[name]; old != nil && !old.dead {
		return "", nil // already connected: no-op, like Connect
	}
	user := r.b.Cfg.Sess[name]
	uid, ok := w.users[user]
	if !ok {
		return "", fmt.Errorf("ConnectBg: unknown user of session %s", name)
	}
	vs := w.rawSession(name, user)
	w.sess[name] = vs
	if err := w.send(vs, map[string]any{"hi": map[string]any{"id": w.id(), "ver": "0.22", "ua": "verif/1.0 (test)", "bkg": true}}, true); err != nil {
		return "", err
	}
	al := auth.LevelAuth
	switch r.b.Cfg.Users[user] {
	case "root":
		al = auth.LevelRoot
	case "anon":
		al = auth.LevelAnon
	}
	tok, _, err := store.Store.GetLogicalAuthHandler("token").GenSecret(&auth.Rec{Uid: uid, AuthLevel: al, Lifetime: auth.Duration(time.Hour)})
	if err != nil {
		return "", err
	}
	if err := w.send(vs, map[string]any{"login": map[string]any{"id": w.id(), "scheme": "token", "secret": base64.StdEncoding.EncodeToString(tok)}}, true); err != nil {
		return "", err
	}
	if vs.s.uid != uid {
		return "", fmt.Errorf("ConnectBg: login for %s failed", user)
	}
	if err := w.quiesce(); err != nil {
		return "", err
	}
	// The handshake arms the 5 s timer; the harness fires it explicitly (BgFire), never by wall clock.
	vs.s.bkgTimer.Stop()
	verifC10Forced[name] = false
	if verifBool(a, "force") && !vs.s.background {
		vs.s.background = true
		verifC10Forced[name] = true
	}
	vs.take()
	verifC10Decl[name] = true
	return "", nil
}

// IdleFire{t}: the World's Unload (fires the topic's REAL idle timer when no session is attached); it records whether the
// timer had been armed by the server (an idle topic whose timer is not armed never unloads in production), and waits until the
// hub has actually dropped the topic before the step is declared quiescent: on a loaded machine the timer goroutine
// can be scheduled after the World's fixed 200 us pause, which would book the unload on the NEXT step.
func verifC10IdleFire(r *verifRunner, a map[string]any) (string, error) {
	w := r.w
	cn := w.canon(verifStr(a, "t"))
	if tp := w.hub.topicGet(cn); tp != nil && cn != "" && !tp.isInactive() && len(tp.sessions) == 0 {
		// Timer.Reset reports whether the timer was active: was the idle timer of this idle topic armed at all?
		armed := tp.killTimer.Reset(time.Nanosecond)
		verifC10Idle = map[string]any{"t": verifStr(a, "t"), "idle": true, "armed": armed}
		deadline := time.Now().Add(3 * time.Second)
		for w.hub.topicGet(cn) == tp && time.Now().Before(deadline) {
			time.Sleep(100 * time.Microsecond)
		}
	}
	return "", w.quiesce()
}

// BgExpire{s}: the World's BgFire (expiry of the session's background timer), waiting until the session's write loop
// has taken the tick.
func verifC10BgExpire(r *verifRunner, a map[string]any) (string, error) {
	w := r.w
	vs := w.sess[verifStr(a, "s")]
	if vs != nil && !vs.dead && vs.s.background {
		vs.s.bkgTimer.Reset(time.Nanosecond)
		deadline := time.Now().Add(3 * time.Second)
		for vs.s.background && time.Now().Before(deadline) {
			time.Sleep(100 * time.Microsecond)
		}
	}
	return "", w.quiesce()
}

func verifC10AbsContact(w *verifWorld, key string) string {
	if strings.HasPrefix(key, "usr") {
		if u, ok := w.uname[key]; ok {
			return u
		}
		return ""
	}
	if a, ok := w.tname[key]; ok {
		return a
	}
	return ""
}

func verifC10Record(r *verifRunner, rec map[string]any) {
	w := r.w
	act, _ := rec["act"].(map[string]any)
	switch verifStr(act, "a") {
	case "Init":
		for k := range verifC10Decl {
			delete(verifC10Decl, k)
		}
		for k := range verifC10Forced {
			delete(verifC10Forced, k)
		}
	case "BgFire", "BgExpire":
		// expiry of the background timer: the session is a foreground session from now on
		delete(verifC10Decl, verifStr(act, "s"))
	case "Disconnect":
		// (a later Connect / ConnectBg only acts on a dead session and makes a new declaration)
		delete(verifC10Decl, verifStr(act, "s"))
		delete(verifC10Forced, verifStr(act, "s"))
	}
	users := r.sortedKeys(r.b.Cfg.Users)
	me := map[string]any{}
	for _, u := range users {
		e := map[string]any{"loaded": false, "ann": false, "ps": map[string]any{}}
		if uid, ok := w.users[u]; ok {
			if tp := w.hub.topicGet(uid.UserId()); tp != nil && !tp.isInactive() {
				ps := map[string]any{}
				for k, v := range tp.perSubs {
					if a := verifC10AbsContact(w, k); a != "" {
						ps[a] = map[string]any{"on": v.online, "en": v.enabled}
					}
				}
				e = map[string]any{"loaded": true, "ann": tp.isLoaded(), "ps": ps}
			}
		}
		me[u] = e
	}
	att := map[string]any{}
	tann := map[string]any{}
	tsupd := map[string]any{}
	for _, tn := range r.b.Cfg.Topics {
		l := []map[string]any{}
		cn := w.canon(tn)
		tann[tn] = false
		tsupd[tn] = false
		if tp := w.hub.topicGet(cn); tp != nil && cn != "" && !tp.isInactive() {
			tann[tn] = tp.isLoaded()
			tsupd[tn] = tp.supd != nil // set once by the topic's initialiser, before the actor starts
			for s, pssd := range tp.sessions {
				name := ""
				for n, vs := range w.sess {
					if vs.s == s {
						name = n
					}
				}
				if name == "" {
					continue
				}
				l = append(l, map[string]any{"s": name, "u": w.absUser(pssd.uid.UserId()), "bg": s.background, "dbg": verifC10Decl[name]})
			}
			sort.Slice(l, func(i, j int) bool { return verifSessNum(fmt.Sprint(l[i]["s"])) < verifSessNum(fmt.Sprint(l[j]["s"])) })
		}
		att[tn] = l
	}
	// p2p topics: subscribers whose cached entry has no topic name (Topic.original(uid) == ""): every notification the topic
	// addresses to such a user carries an empty source
	noname := map[string]any{}
	for _, tn := range r.b.Cfg.Topics {
		l := []string{}
		cn := w.canon(tn)
		if tp := w.hub.topicGet(cn); tp != nil && cn != "" && !tp.isInactive() && strings.HasPrefix(cn, "p2p") {
			for uid, pud := range tp.perUser {
				if !pud.deleted && pud.topicName == "" {
					if u := w.absUser(uid.UserId()); !strings.HasPrefix(u, "?") {
						l = append(l, u)
					}
				}
			}
			sort.Strings(l)
		}
		noname[tn] = l
	}
	sb := map[string]any{}
	for _, s := range r.sortedKeys(r.b.Cfg.Sess) {
		e := map[string]any{"live": false, "bg": false, "dbg": false, "forced": false}
		if vs := w.sess[s]; vs != nil && !vs.dead {
			e = map[string]any{"live": true, "bg": vs.s.background, "dbg": verifC10Decl[s], "forced": verifC10Forced[s]}
		}
		sb[s] = e
	}
	idle := map[string]any{"t": "", "idle": false, "armed": false}
	if verifC10Idle != nil {
		idle = verifC10Idle
		verifC10Idle = nil
	}
	c10 := map[string]any{"idle": idle, "me": me, "att": att, "sess": sb, "ann": tann, "supd": tsupd, "noname": noname}
	if os.Getenv("VERIF_C10_SELFTEST") == "1" {
		// self-test of the binding (never set by tools/props/c10.py in normal runs): corrupt one recorded observation —
		// the online counter of the first attached user of every loaded group topic is reported one too high.
		if st, ok := rec["st"].(map[string]any); ok {
			if cache, ok := st["cache"].(map[string]any); ok {
				for tn, cv := range cache {
					c, _ := cv.(map[string]any)
					if c == nil || c["loaded"] != true || !strings.HasPrefix(tn, "g") {
						continue
					}
					per, _ := c["per"].(map[string]any)
					for _, u := range users {
						if p, ok := per[u].(map[string]any); ok && p["in"] == true {
							if n, ok := p["online"].(int); ok && n > 0 {
								p["online"] = n + 1
								break
							}
						}
					}
				}
			}
		}
	}
	rec["c10"] = c10
}

func init() {
	verifExtraActions["ConnectBg"] = verifC10ConnectBg
	verifExtraActions["IdleFire"] = verifC10IdleFire
	verifExtraActions["BgExpire"] = verifC10BgExpire
	verifExtraRecord = append(verifExtraRecord, verifC10Record)
}
