package main

// Verification harness (overlay) shared by C11 and C13: the session-level environment on top of the World.
//   * real accounts with real `basic` auth records, real tokens from the real token handler, a harness credential
//     validator ("verifv", store-backed like the e-mail validator but sending nothing), a group topic with an attached
//     reader session and a p2p topic;
//   * concretisation of the ABSTRACT client messages of spec/Session.tla into real client JSON;
//   * one-step driver: journal the input, Session.dispatchRaw on the calling goroutine, run the server to quiescence,
//     collect the frames the session (and the reader) received, project ver/uid/authLvl/attachments.
// Nothing is decided here: Monitor_C11.tla / Monitor_C13.tla decide on the recorded observations.

import (
	"encoding/base64"
	"encoding/json"
	"errors"
	"fmt"
	"os"
	"regexp"
	"runtime"
	"runtime/debug"
	"sort"
	"strconv"
	"strings"
	"sync"
	"sync/atomic"
	"testing"
	"time"

	"golang.org/x/crypto/bcrypt"

	"github.com/tinode/chat/server/auth"
	"github.com/tinode/chat/server/store"
	"github.com/tinode/chat/server/store/types"
)

// ---------------------------------------------------------------- harness credential validator

type verifC11Validator struct{}

const verifC11Vname = "verifv"

func (verifC11Validator) Init(string) error      { return nil }
func (verifC11Validator) IsInitialized() bool    { return true }
func (verifC11Validator) PreCheck(cred string, _ map[string]interface{}) (string, error) {
	if !strings.Contains(cred, "@") {
		return "", types.ErrMalformed
	}
	return verifC11Vname + ":" + strings.ToLower(cred), nil
}
func (verifC11Validator) Request(user types.Uid, cred, lang, resp string, tmpToken []byte) (bool, error) {
	// like a captcha-style validator: the expected response may come with the request
	if resp != "" && resp != "123456" {
		return false, types.ErrCredentials
	}
	isNew, err := store.Users.UpsertCred(&types.Credential{User: user.String(), Method: verifC11Vname, Value: strings.ToLower(cred), Resp: "123456"})
	if err == nil && resp != "" {
		err = store.Users.ConfirmCred(user, verifC11Vname)
		isNew = true
	}
	return isNew, err
}
func (verifC11Validator) ResetSecret(cred, scheme, lang string, tmpToken []byte, params map[string]interface{}) error {
	return nil
}
func (verifC11Validator) Check(user types.Uid, resp string) (string, error) {
	cred, err := store.Users.GetActiveCred(user, verifC11Vname)
	if err != nil {
		return "", err
	}
	if cred == nil {
		return "", types.ErrNotFound
	}
	if resp == "" {
		return "", types.ErrCredentials
	}
	if cred.Resp == resp {
		return cred.Value, store.Users.ConfirmCred(user, verifC11Vname)
	}
	store.Users.FailCred(user, verifC11Vname)
	return "", types.ErrCredentials
}
func (verifC11Validator) Remove(user types.Uid, value string) error {
	return store.Users.DelCred(user, verifC11Vname, value)
}
func (verifC11Validator) Delete(user types.Uid) error { return store.Users.DelCred(user, verifC11Vname, "") }
func (verifC11Validator) TempAuthScheme() (string, error) { return "code", nil }

var verifC11ValOnce sync.Once

// ---------------------------------------------------------------- environment

type verifC11Cfg struct {
	Validators bool // credential validator "verifv" required for level auth
	Calls      bool
	Media      bool // a media handler is configured (the real `fs` handler in a scratch directory)
}

type verifC11Env struct {
	t       testing.TB
	w       *verifWorld
	cfg     verifC11Cfg
	uid     map[string]types.Uid // alice bob root susp gone needy exp
	tok     map[string][]byte    // right rightroot wrong expired suspended deleted nologin needscred bob
	grp     string               // concrete name of the group topic (owner alice, reader bob attached)
	reader  *verifSess // bob: owner of grp, attached to it, never acted upon by the inputs
	act     *verifC11Actors
	nact    int64
	nid     int64
	nacc    int64
	nmark   int64
	selfID  string // C13: user id of the session under test ("$SELF" in mutation values)
	journal *os.File
	pw      map[string][]byte // cheap bcrypt hashes by password
}

const verifC11Pw = "pw12345"

func (e *verifC11Env) hash(pw string) []byte {
	if h, ok := e.pw[pw]; ok {
		return h
	}
	// bcrypt.MinCost: the cost is part of the stored hash, the REAL basic authenticator verifies it at that cost
	// (the default cost of 10 is ~60 ms per comparison, unaffordable for 10^5 login attempts).
	h, err := bcrypt.GenerateFromPassword([]byte(pw), bcrypt.MinCost)
	if err != nil {
		panic(err)
	}
	e.pw[pw] = h
	return h
}

func (e *verifC11Env) mkUser(name string, lvl auth.Level, expires time.Time, cred bool) types.Uid {
	return e.mkUserAs(name, name, lvl, expires, cred)
}

// mkUserAs creates an account with basic login `login`, known to the projection under the abstract name `name`.
func (e *verifC11Env) mkUserAs(name, login string, lvl auth.Level, expires time.Time, cred bool) types.Uid {
	u := &types.User{Access: types.DefaultAccess{Auth: types.ModeCAuth, Anon: types.ModeNone}, Public: map[string]any{"fn": name}}
	u.State = types.StateOK
	if _, err := store.Users.Create(u, nil); err != nil {
		e.t.Fatalf("verif env: create %s: %v", name, err)
	}
	uid := u.Uid()
	if err := store.Users.AddAuthRecord(uid, lvl, "basic", login, e.hash(verifC11Pw), expires); err != nil {
		e.t.Fatalf("verif env: auth record %s: %v", name, err)
	}
	if _, err := store.Users.UpdateTags(uid, []string{"basic:" + login}, nil, nil); err != nil {
		e.t.Fatalf("verif env: tags %s: %v", name, err)
	}
	if cred {
		if _, err := store.Users.UpsertCred(&types.Credential{User: uid.String(), Method: verifC11Vname, Value: login + "@example.com", Resp: "123456"}); err != nil {
			e.t.Fatalf("verif env: cred %s: %v", name, err)
		}
		if err := store.Users.ConfirmCred(uid, verifC11Vname); err != nil {
			e.t.Fatalf("verif env: confirm cred %s: %v", name, err)
		}
	}
	e.uid[name] = uid
	e.w.users[name] = uid
	e.w.uname[uid.UserId()] = name
	return uid
}

func (e *verifC11Env) token(uid types.Uid, lvl auth.Level, life time.Duration, f auth.Feature) []byte {
	tok, _, err := store.Store.GetLogicalAuthHandler("token").GenSecret(&auth.Rec{Uid: uid, AuthLevel: lvl, Lifetime: auth.Duration(life), Features: f})
	if err != nil {
		e.t.Fatalf("verif env: token: %v", err)
	}
	return tok
}

func verifC11NewEnv(t testing.TB, cfg verifC11Cfg) *verifC11Env {
	verifProcessInit()
	verifC11ValOnce.Do(func() { store.RegisterValidator(verifC11Vname, verifC11Validator{}) })
	if cfg.Validators {
		globals.validators = map[string]credValidator{verifC11Vname: {requiredAuthLvl: []auth.Level{auth.LevelAuth}, addToTags: false}}
		globals.authValidators = map[auth.Level][]string{auth.LevelAuth: {verifC11Vname}}
		globals.validatorClientConfig = map[string][]string{"auth": {verifC11Vname}}
	} else {
		globals.validators = nil
		globals.authValidators = nil
		globals.validatorClientConfig = nil
	}
	w := verifNewWorld(t, verifConfig{MaxSubs: 1 << 20, Calls: cfg.Calls}, false)
	e := &verifC11Env{t: t, w: w, cfg: cfg, uid: map[string]types.Uid{}, tok: map[string][]byte{}, pw: map[string][]byte{}}
	// shared accounts: nothing an input can do changes them (they cannot log in / are only read)
	e.mkUser("bob", auth.LevelAuth, time.Time{}, true)
	e.mkUser("susp", auth.LevelAuth, time.Time{}, true)
	e.mkUser("gone", auth.LevelAuth, time.Time{}, true)
	e.mkUser("needy", auth.LevelAuth, time.Time{}, false)
	e.mkUser("exp", auth.LevelAuth, time.Now().Add(-time.Hour), true)
	hour := time.Hour
	e.tok["bob"] = e.token(e.uid["bob"], auth.LevelAuth, hour, auth.FeatureValidated)
	e.tok["suspended"] = e.token(e.uid["susp"], auth.LevelAuth, hour, auth.FeatureValidated)
	e.tok["deleted"] = e.token(e.uid["gone"], auth.LevelAuth, hour, auth.FeatureValidated)
	e.tok["needscred"] = e.token(e.uid["needy"], auth.LevelAuth, hour, 0)

	// the reader (bob) creates the group topic and stays attached to it.
	var err error
	if e.reader, err = w.connect("reader", "bob", "auth"); err != nil {
		t.Fatalf("verif env: reader: %v", err)
	}
	id := e.id()
	f := e.must(e.reader, map[string]any{"sub": map[string]any{"id": id, "topic": "new" + id,
		"set": map[string]any{"desc": map[string]any{"public": map[string]any{"fn": "grp"}, "defacs": map[string]any{"auth": "JRWPS", "anon": "N"}}}}}, id)
	e.grp = f["ctrl"].(map[string]any)["topic"].(string)
	w.topics["g1"] = e.grp
	w.tname[e.grp] = "g1"
	id = e.id()
	e.must(e.reader, map[string]any{"pub": map[string]any{"id": id, "topic": e.grp, "content": "first"}}, id)

	// account states (after the topics exist, so that nothing above depends on them)
	if err := store.Users.UpdateState(e.uid["susp"], types.StateSuspended); err != nil {
		t.Fatalf("verif env: suspend: %v", err)
	}
	if err := store.Users.Delete(e.uid["gone"], false); err != nil {
		t.Fatalf("verif env: soft delete: %v", err)
	}
	if err := w.quiesce(); err != nil {
		t.Fatalf("verif env: %v", err)
	}
	e.reader.take()
	verifPush.take()
	e.newActors()
	return e
}

func (e *verifC11Env) must(vs *verifSess, m map[string]any, id string) verifFrame {
	if err := e.w.send(vs, m, true); err != nil {
		e.t.Fatalf("verif env: %v: %v", m, err)
	}
	for _, f := range vs.take() {
		if c, ok := f["ctrl"].(map[string]any); ok && c["id"] == id {
			if code, _ := c["code"].(float64); code >= 300 {
				e.t.Fatalf("verif env: %v -> %v", m, c)
			}
			return f
		}
	}
	e.t.Fatalf("verif env: no reply to %v", m)
	return nil
}

// verifC11Actors: the accounts an input sequence can act as or upon. They are created FRESH for every sequence so that no
// sequence sees what an earlier one did: alice (level auth), root (level root), carol (the target of extra.obo and of
// p2p addressing). Projected under the abstract names "alice", "root", "carol".
type verifC11Actors struct {
	n                   int64
	alice, root, carol  types.Uid
	tok                 map[string][]byte
	// lastTok: params.token (base64 text, as received) of the most recent reply of THIS sequence that carried one; the
	// secret of {login scheme=token secret=prev}. Taken from the recorded reply, never from the table above.
	lastTok string
	// lastNoLogin: lastTok was handed out in reply to a login that presented a restricted (no-login) token (by history)
	lastNoLogin bool
}

func (e *verifC11Env) newActors() *verifC11Actors {
	n := atomic.AddInt64(&e.nact, 1)
	a := &verifC11Actors{n: n, tok: map[string][]byte{}}
	a.alice = e.mkUserAs("alice", fmt.Sprintf("alice%d", n), auth.LevelAuth, time.Time{}, true)
	a.root = e.mkUserAs("root", fmt.Sprintf("root%d", n), auth.LevelRoot, time.Time{}, false)
	a.carol = e.mkUserAs("carol", fmt.Sprintf("carol%d", n), auth.LevelAuth, time.Time{}, true)
	hour := time.Hour
	a.tok["right"] = e.token(a.alice, auth.LevelAuth, hour, auth.FeatureValidated)
	a.tok["rightroot"] = e.token(a.root, auth.LevelRoot, hour, auth.FeatureValidated)
	a.tok["expired"] = e.token(a.alice, auth.LevelAuth, time.Nanosecond, auth.FeatureValidated)
	a.tok["nologin"] = e.token(a.alice, auth.LevelAuth, hour, auth.FeatureValidated|auth.FeatureNoLogin)
	wrong := append([]byte{}, a.tok["right"]...)
	wrong[len(wrong)-1] ^= 0x40
	a.tok["wrong"] = wrong
	for _, k := range []string{"suspended", "deleted", "needscred"} {
		a.tok[k] = e.tok[k]
	}
	e.act = a
	return a
}

// unloadIdle fires the REAL idle timer of every loaded topic that has no session attached (the topics of earlier
// sequences), so that the number of live topic actors stays small.
func (e *verifC11Env) unloadIdle() error {
	n := 0
	e.w.hub.topics.Range(func(_, v any) bool {
		t := v.(*Topic)
		if t.name != "sys" && t.name != e.grp && !t.isInactive() && len(t.sessions) == 0 {
			t.killTimer.Reset(time.Nanosecond)
			n++
		}
		return true
	})
	if n == 0 {
		return nil
	}
	runtime.Gosched()
	return e.quiesce()
}

func (e *verifC11Env) id() string {
	return "q" + strconv.FormatInt(atomic.AddInt64(&e.nid, 1), 10)
}

func (e *verifC11Env) close() {
	e.w.close()
}

// fresh session of the World, un-handshaken and un-authenticated, visible to quiesce() through w.sess.
func (e *verifC11Env) fresh(name string) *verifSess {
	vs := e.w.rawSession(name, "")
	e.w.sess[name] = vs
	return vs
}

func (e *verifC11Env) drop(vs *verifSess) {
	e.w.kill(vs)
	delete(e.w.sess, vs.name)
}

// ---------------------------------------------------------------- abstract -> concrete

func verifC11B64(b []byte) string { return base64.StdEncoding.EncodeToString(b) }

func verifC11S(m map[string]any, k string) string {
	s, _ := m[k].(string)
	return s
}

// topic maps an abstract topic class to the name a client would write.
func (e *verifC11Env) topic(cls string) string {
	switch cls {
	case "me", "fnd", "sys":
		return cls
	case "grp":
		return e.grp
	case "nogrp":
		return "grpVerifNoSuchTopic1"
	case "usr":
		return e.act.carol.UserId()
	case "nousr":
		return "usrVerifNoSuch"
	case "new":
		return "new" + e.id()
	case "empty":
		return ""
	case "bad":
		return "zz"
	case "bad3":
		return "grp"
	case "bad6":
		return "zzzzzz"
	}
	return cls
}

// concretise builds the client JSON of one abstract message (a flat record of strings, see Session.tla `Msgs`).
// Returns the JSON text and the request id ("" for notes).
func (e *verifC11Env) concretise(m map[string]any) ([]byte, string) {
	msg, id := e.concretiseMap(m)
	b, err := json.Marshal(msg)
	if err != nil {
		panic(err)
	}
	return b, id
}

// concretiseMap: the client message as a JSON object (so that C13 can mutate single fields before it is serialised).
func (e *verifC11Env) concretiseMap(m map[string]any) (map[string]any, string) {
	k := verifC11S(m, "k")
	id := e.id()
	body := map[string]any{"id": id}
	switch k {
	case "conn":
		// the handshake of a fresh connection (the caller has replaced the session)
		k = "hi"
		body["ver"] = "0.22"
		body["ua"] = "verif/1.0 (test)"
	case "hi":
		switch verifC11S(m, "v") {
		case "A":
			body["ver"] = "0.22"
		case "B":
			body["ver"] = "0.23"
		case "old":
			body["ver"] = "0.15"
		case "bad":
			body["ver"] = "xyz"
		case "empty":
		}
		body["ua"] = "verif/1.0 (test)"
	case "login":
		sch, sec := verifC11S(m, "sch"), verifC11S(m, "sec")
		switch sch {
		case "basic":
			body["scheme"] = "basic"
			n := strconv.FormatInt(e.act.n, 10)
			who := map[string]string{"right": "alice" + n, "rightroot": "root" + n, "wrong": "alice" + n, "expired": "exp", "suspended": "susp",
				"deleted": "gone", "needscred": "needy", "nouser": "nobody"}[sec]
			pw := verifC11Pw
			if sec == "wrong" {
				pw = "not-the-password"
			}
			if sec == "malformed" {
				body["secret"] = verifC11B64([]byte("no-colon-here"))
			} else {
				body["secret"] = verifC11B64([]byte(who + ":" + pw))
			}
		case "token":
			body["scheme"] = "token"
			if sec == "malformed" {
				body["secret"] = verifC11B64([]byte("short"))
			} else if sec == "prev" {
				if e.act.lastTok != "" {
					body["secret"] = e.act.lastTok
				} else {
					body["secret"] = verifC11B64([]byte("short")) // the client was never given a token
				}
			} else {
				body["secret"] = verifC11B64(e.act.tok[sec])
			}
		case "reset":
			body["scheme"] = "reset"
			switch sec {
			case "known":
				// carol is fresh per sequence: the reset code of the `code` authenticator is keyed by the credential
				body["secret"] = verifC11B64([]byte(fmt.Sprintf("basic:%s:carol%d@example.com", verifC11Vname, e.act.n)))
			case "unknown":
				body["secret"] = verifC11B64([]byte("basic:" + verifC11Vname + ":nobody@example.com"))
			case "malformed":
				body["secret"] = verifC11B64([]byte("basic"))
			default: // unsupported validator
				body["secret"] = verifC11B64([]byte("basic:nosuchmethod:x"))
			}
		default:
			body["scheme"] = "verifnosuchscheme"
			body["secret"] = verifC11B64([]byte("alice:" + verifC11Pw))
		}
	case "acc":
		switch verifC11S(m, "usr") {
		case "new":
			body["user"] = "new" + id
		case "self":
		case "other":
			body["user"] = e.act.carol.UserId()
		case "bad":
			body["user"] = "usrZZ"
		}
		if verifC11S(m, "lg") == "T" {
			body["login"] = true
		}
		switch verifC11S(m, "sch") {
		case "basic", "basicR":
			body["scheme"] = "basic"
			if verifC11S(m, "usr") == "new" {
				n := atomic.AddInt64(&e.nacc, 1)
				body["secret"] = verifC11B64([]byte(fmt.Sprintf("nu%d:%s", n, verifC11Pw)))
				cr := map[string]any{"meth": verifC11Vname, "val": fmt.Sprintf("nu%d@example.com", n)}
				if verifC11S(m, "sch") == "basicR" {
					cr["resp"] = "123456" // the credential is validated on the spot
				}
				body["cred"] = []any{cr}
				body["desc"] = map[string]any{"public": map[string]any{"fn": "new"}}
			} else {
				// existing account: change the password to the same password (keeps the environment intact)
				body["secret"] = verifC11B64([]byte(":" + verifC11Pw))
			}
		case "dup":
			body["scheme"] = "basic"
			body["secret"] = verifC11B64([]byte("bob:" + verifC11Pw))
			body["cred"] = []any{map[string]any{"meth": verifC11Vname, "val": "dup@example.com"}}
		case "malformed":
			body["scheme"] = "basic"
			body["secret"] = verifC11B64([]byte("nocolon"))
		case "unknown":
			body["scheme"] = "verifnosuchscheme"
			body["secret"] = verifC11B64([]byte("x:y"))
		case "none":
		}
		switch verifC11S(m, "tmp") {
		case "tokR":
			body["tmpscheme"] = "token"
			body["tmpsecret"] = verifC11B64(e.act.tok["right"])
		case "tokW":
			body["tmpscheme"] = "token"
			body["tmpsecret"] = verifC11B64(e.act.tok["wrong"])
		case "code":
			body["tmpscheme"] = "code"
			body["tmpsecret"] = verifC11B64([]byte("000000:" + verifC11Vname + ":alice@example.com"))
		case "unknown":
			body["tmpscheme"] = "verifnosuchscheme"
			body["tmpsecret"] = verifC11B64([]byte("x"))
		}
		if verifC11S(m, "st") == "T" {
			body["status"] = "ok"
		}
	default:
		body["topic"] = e.topic(verifC11S(m, "t"))
		w := verifC11S(m, "w")
		switch k {
		case "sub":
			if w == "mode" {
				body["set"] = map[string]any{"sub": map[string]any{"mode": "JRWPS"}}
			}
		case "leave":
			if w == "unsub" {
				body["unsub"] = true
			}
		case "pub":
			body["content"] = "c" + id
			if w == "forged" {
				body["head"] = map[string]any{"sender": e.uid["bob"].UserId(), "mime": "text/x-verif"}
			}
		case "get":
			body["what"] = w
			if w == "data" {
				body["data"] = map[string]any{"limit": 4}
			}
		case "set":
			switch w {
			case "desc":
				body["desc"] = map[string]any{"private": map[string]any{"note": id}}
			case "sub":
				body["sub"] = map[string]any{"mode": "JRWPS"}
			case "tags":
				body["tags"] = []any{"verif" + id}
			case "none":
			}
		case "del":
			body["what"] = w
			switch w {
			case "msg":
				body["delseq"] = []any{map[string]any{"low": 1}}
			case "sub":
				body["user"] = e.act.carol.UserId()
			case "user":
				delete(body, "topic")
				body["user"] = "usrVerifNoSuch"
			}
		case "note":
			delete(body, "id")
			id = ""
			body["what"] = w
			switch w {
			case "read", "recv":
				body["seq"] = 1
			case "call":
				body["seq"] = 1
				body["event"] = "ringing"
			}
		}
	}
	msg := map[string]any{k: body}
	ex := map[string]any{}
	switch verifC11S(m, "o") {
	case "valid":
		ex["obo"] = e.act.carol.UserId()
	case "validroot":
		ex["obo"] = e.act.carol.UserId()
		ex["authlevel"] = "root"
	case "bad":
		ex["obo"] = "usrZZ"
	case "lvl":
		ex["authlevel"] = "root"
	}
	if len(ex) > 0 {
		msg["extra"] = ex
	}
	return msg, id
}

// ---------------------------------------------------------------- one step

type verifC11Obs struct {
	Frames  []verifFrame // everything the session received
	Reader  []verifFrame // everything the reader (bob) received
	Panic   string       // "" or the panic value
	Site    string       // first tinode frame of the panic stack
	Infra   string       // harness-level problem (dispatch blocked, no quiescence)
	Ver     int
	Uid     string // abstract user name, "" = none, "?usrXXX" = not in the population
	Lvl     string
	Att     []string // topics the session is attached to (abstract)
	Term    bool
}

var verifC11FrameRe = regexp.MustCompile(`(?m)^(github\.com/tinode/chat/server\S*)\(.*\n\s+(\S+?):(\d+)`)

// panicSite: the first frame of a Go stack that lies in tinode code and is not harness code, e.g. "store/types.GetTopicCat"
// or "(*Hub).topicUnreg"; when the panic is raised in a callee of the session/hub/topic code the first TWO such frames
// are joined ("store/types.GetTopicCat<(*Hub).topicUnreg") so that the signature names the reachable entry as well.
func verifC11PanicSite(stack string) string {
	var sites []string
	for _, m := range verifC11FrameRe.FindAllStringSubmatch(stack, -1) {
		fn, file := m[1], m[2]
		if strings.Contains(file, "zz_verif_") || strings.Contains(fn, "verif") || strings.Contains(fn, "Verif") {
			continue
		}
		fn = strings.TrimPrefix(fn, "github.com/tinode/chat/server")
		fn = strings.TrimPrefix(fn, "/")
		fn = strings.TrimPrefix(fn, ".")
		sites = append(sites, fn)
		if len(sites) == 3 || strings.Contains(fn, "(*") || (len(sites) > 1 && !strings.Contains(fn, "/")) {
			break
		}
	}
	if len(sites) == 0 {
		return "unknown"
	}
	return strings.Join(sites, "<")
}

func (e *verifC11Env) journalWrite(tag string, raw []byte) {
	if e.journal != nil {
		line, _ := json.Marshal(map[string]any{"tag": tag, "raw": base64.StdEncoding.EncodeToString(raw)})
		e.journal.Write(append(line, '\n'))
	}
}

// step sends raw bytes on the session exactly like the websocket read loop does (dispatchRaw on the calling goroutine).
// recoverPanic=false reproduces the real read loop (no recover: the process dies); with recoverPanic the panic value and
// its site are recorded and the caller decides what to do with the (now undefined) session.
func (e *verifC11Env) step(vs *verifSess, tag string, raw []byte, recoverPanic bool) *verifC11Obs {
	return e.stepID(vs, tag, raw, recoverPanic, "")
}

// stepID: rid != "" names the request id whose reply is awaited for a short while when the server is quiescent and
// nothing has arrived: the hub answers some requests from goroutines it spawns (`go replyOfflineTopicGetDesc`, ...) which
// no probe can order after; silence is only recorded after that wait.
func (e *verifC11Env) stepID(vs *verifSess, tag string, raw []byte, recoverPanic bool, rid string) *verifC11Obs {
	e.journalWrite(tag, raw)
	o := &verifC11Obs{}
	done := make(chan struct{})
	go func() {
		defer close(done)
		if recoverPanic {
			defer func() {
				if p := recover(); p != nil {
					o.Panic = fmt.Sprint(p)
					o.Site = verifC11PanicSite(string(debug.Stack()))
				}
			}()
		}
		vs.s.dispatchRaw(raw)
	}()
	select {
	case <-done:
	case <-time.After(30 * time.Second):
		buf := make([]byte, 1<<20)
		buf = buf[:runtime.Stack(buf, true)]
		o.Infra = "dispatch blocked for 30s\n" + string(buf)
		return o
	}
	tq := time.Now()
	if err := e.quiesce(); err != nil {
		o.Infra = err.Error()
	}
	if !e.flush(vs) || !e.flush(e.reader) {
		o.Infra = "session writer did not drain"
	}
	if rid != "" && o.Panic == "" && o.Infra == "" && !e.answered(vs, rid) {
		wait := verifC11SilenceWait
		if rid == verifC11NoID {
			// a request without id whose (id-less) answer may still be on its way: a short grace period, so that a late
			// answer is not attributed to the next input
			wait = verifC11NoIDWait
			rid = ""
		}
		verifC11Spin(time.Now().Add(wait), func() bool { return e.answered(vs, rid) })
		if err := e.quiesce(); err != nil {
			o.Infra = err.Error()
		}
		if !e.flush(vs) || !e.flush(e.reader) {
			o.Infra = "session writer did not drain"
		}
	}
	verifC11Tq += time.Since(tq)
	verifC11Nq++
	o.Frames = e.takeFrames(vs)
	o.Reader = e.takeFrames(e.reader)
	e.project(vs, o)
	return o
}

func (e *verifC11Env) project(vs *verifSess, o *verifC11Obs) {
	s := vs.s
	o.Ver = s.ver
	o.Uid = ""
	if !s.uid.IsZero() {
		o.Uid = e.abs(s.uid.UserId())
	}
	o.Lvl = s.authLvl.String()
	o.Term = atomic.LoadInt32(&s.terminating) != 0
	o.Att = []string{}
	s.subsLock.RLock()
	for tn := range s.subs {
		o.Att = append(o.Att, e.absTopicName(tn))
	}
	s.subsLock.RUnlock()
	sort.Strings(o.Att)
}

// abs: abstract name of a user id; accounts created by the inputs themselves ({acc}) are all called "new".
func (e *verifC11Env) abs(id string) string {
	if id == "" {
		return ""
	}
	if u, ok := e.w.uname[id]; ok {
		return u
	}
	return "new"
}

// absTopicName: canonical (hub) topic name -> abstract name: "me:alice", "fnd:alice", "g1", "p2p:alice,bob", "?name".
func (e *verifC11Env) absTopicName(tn string) string {
	switch {
	case tn == e.grp:
		return "g1"
	case tn == "sys":
		return "sys"
	case strings.HasPrefix(tn, "usr"):
		return "me:" + e.abs(tn)
	case strings.HasPrefix(tn, "fnd"):
		return "fnd:" + e.abs("usr"+tn[3:])
	case strings.HasPrefix(tn, "p2p"):
		if u1, u2, err := types.ParseP2P(tn); err == nil {
			a, b := e.abs(u1.UserId()), e.abs(u2.UserId())
			if a > b {
				a, b = b, a
			}
			return "p2p:" + a + "," + b
		}
	case strings.HasPrefix(tn, "grp"):
		return "newgrp"
	}
	return "?" + tn
}

// tokenOf: the token a reply handed out: (base64 text, code, abstract user, level) of the first {ctrl} with params.token.
func (e *verifC11Env) tokenOf(frames []verifFrame) (string, int, string, string, bool) {
	for _, f := range frames {
		c, ok := f["ctrl"].(map[string]any)
		if !ok {
			continue
		}
		p, ok := c["params"].(map[string]any)
		if !ok {
			continue
		}
		tok, ok := p["token"].(string)
		if !ok || tok == "" {
			continue
		}
		code, _ := c["code"].(float64)
		u, _ := p["user"].(string)
		l, _ := p["authlvl"].(string)
		return tok, int(code), e.abs(u), l, true
	}
	return "", 0, "", "", false
}

// tokenFeatures decodes the feature bits of a token of the real token authenticator (auth/token tokenLayout, little endian:
// uid uint64, expires uint32, authLevel uint16, serial uint16, features uint16, then the HMAC): (validated, nologin, ok).
func verifC11TokenFeatures(b64tok string) (bool, bool, bool) {
	b, err := base64.StdEncoding.DecodeString(b64tok)
	if err != nil || len(b) < 18 {
		return false, false, false
	}
	f := auth.Feature(uint16(b[16]) | uint16(b[17])<<8)
	return f&auth.FeatureValidated != 0, f&auth.FeatureNoLogin != 0, true
}

// abstract view of the frames of one step: ctrl codes/ids, meta ids + whose desc, data from/sender.
func (e *verifC11Env) absFrames(frames []verifFrame) []map[string]any {
	out := []map[string]any{}
	for _, f := range frames {
		switch {
		case f["ctrl"] != nil:
			c := f["ctrl"].(map[string]any)
			code, _ := c["code"].(float64)
			id, _ := c["id"].(string)
			tp, _ := c["topic"].(string)
			r := map[string]any{"k": "ctrl", "code": int(code), "id": id, "topic": tp, "user": "", "lvl": "", "tok": false}
			if p, ok := c["params"].(map[string]any); ok {
				if u, ok := p["user"].(string); ok {
					r["user"] = e.abs(u)
				}
				if l, ok := p["authlvl"].(string); ok {
					r["lvl"] = l
				}
				_, r["tok"] = p["token"]
			}
			out = append(out, r)
		case f["meta"] != nil:
			c := f["meta"].(map[string]any)
			id, _ := c["id"].(string)
			tp, _ := c["topic"].(string)
			r := map[string]any{"k": "meta", "code": 200, "id": id, "topic": tp, "fn": ""}
			if d, ok := c["desc"].(map[string]any); ok {
				if p, ok := d["public"].(map[string]any); ok {
					r["fn"], _ = p["fn"].(string)
				}
			}
			out = append(out, r)
		case f["data"] != nil:
			c := f["data"].(map[string]any)
			fr, _ := c["from"].(string)
			tp, _ := c["topic"].(string)
			r := map[string]any{"k": "data", "code": 0, "id": "", "topic": e.absTopicName(tp), "from": e.abs(fr), "sender": "-", "content": fmt.Sprint(c["content"])}
			if h, ok := c["head"].(map[string]any); ok {
				if sd, ok := h["sender"]; ok {
					if s, ok := sd.(string); ok {
						r["sender"] = e.abs(s)
					} else {
						r["sender"] = "?nonstring"
					}
				}
			}
			out = append(out, r)
		case f["pres"] != nil:
			out = append(out, map[string]any{"k": "pres", "code": 0, "id": ""})
		case f["info"] != nil:
			out = append(out, map[string]any{"k": "info", "code": 0, "id": ""})
		default:
			out = append(out, map[string]any{"k": "raw", "code": 0, "id": "", "raw": fmt.Sprint(f)})
		}
	}
	return out
}

// verifC11NoID: passed as rid for a well-formed request that carries no id (see stepID)
const verifC11NoID = "\x00noid"

var verifC11NoIDWait = 60 * time.Millisecond

// how long a request with an id may stay unanswered on a quiescent server before the harness records silence
var verifC11SilenceWait = 2 * time.Second

// answered: some {ctrl}/{meta} frame carrying the id, or a {ctrl} without any id (replies built before the id is known).
func (e *verifC11Env) answered(vs *verifSess, rid string) bool {
	vs.mu.Lock()
	defer vs.mu.Unlock()
	for _, f := range vs.frames {
		for _, k := range []string{"ctrl", "meta"} {
			if m, ok := f[k].(map[string]any); ok {
				if id, _ := m["id"].(string); id == rid || id == "" {
					return true
				}
			}
		}
	}
	return false
}

var verifC11Tq time.Duration
var verifC11Nq int

var verifC11ErrInfra = errors.New("verif: infrastructure")
