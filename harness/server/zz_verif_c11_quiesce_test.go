package main

// Verification harness (overlay), C11/C13: the World's quiescence procedure (probe round-trips through hub, topics and the
// user cache, two stable rounds — see verifWorld.quiesce) with the polling waits done by yielding instead of sleeping:
// time.Sleep has a granularity of 0.4–1 ms in the sandbox, which made one quiescence cost ~6 ms; the C11/C13 recorders
// run 10^5–10^6 steps. Same conditions, same probes.

import (
	"errors"
	"fmt"
	"runtime"
	"sync/atomic"
	"time"

	"github.com/tinode/chat/server/auth"
	"github.com/tinode/chat/server/store/types"
)

func verifC11Spin(deadline time.Time, cond func() bool) bool {
	for i := 0; ; i++ {
		if cond() {
			return true
		}
		if i&0xff == 0xff && time.Now().After(deadline) {
			return false
		}
		if i < 4000 {
			runtime.Gosched()
		} else {
			time.Sleep(50 * time.Microsecond) // the machine is busy: stop burning the CPU the server goroutines need
		}
	}
}

func (e *verifC11Env) waitFrameFast(vs *verifSess, id string, d time.Duration) bool {
	return verifC11Spin(time.Now().Add(d), func() bool {
		vs.mu.Lock()
		defer vs.mu.Unlock()
		for _, f := range vs.frames {
			for _, k := range []string{"ctrl", "meta"} {
				if m, ok := f[k].(map[string]any); ok && m["id"] == id {
					return true
				}
			}
		}
		return false
	})
}

func (e *verifC11Env) usersBarrierFast() bool {
	deadline := time.Now().Add(time.Second)
	if !verifC11Spin(deadline, func() bool { return len(globals.usersUpdate) == 0 }) {
		return false
	}
	before := atomic.LoadInt64(&verifUsersUpdRecv)
	select {
	case globals.usersUpdate <- &UserCacheReq{UserId: types.Uid(0x7fffffffffff), Gone: true}:
	default:
		return false
	}
	return verifC11Spin(deadline, func() bool { return atomic.LoadInt64(&verifUsersUpdRecv) > before })
}

func (e *verifC11Env) usersQuietFast() bool {
	for i := 0; i < 3; i++ {
		if !e.usersBarrierFast() {
			return false
		}
		if atomic.LoadInt64(&verifUsersIOStart) != atomic.LoadInt64(&verifUsersIORecv) {
			runtime.Gosched()
			return false
		}
	}
	return e.usersBarrierFast() && len(verifPush.ch) == 0
}

func (e *verifC11Env) probeAllFast() bool {
	w := e.w
	w.nextID++
	id := fmt.Sprintf("probe%d", w.nextID)
	w.hub.routeCli <- &ClientComMessage{Id: id, RcptTo: "grpVerifNoSuchTopic", Original: "grpVerifNoSuchTopic",
		Pub: &MsgClientPub{Id: id, Topic: "grpVerifNoSuchTopic"}, sess: w.probe.s, Timestamp: time.Now()}
	if !e.waitFrameFast(w.probe, id, time.Second) {
		return false
	}
	var ids []string
	w.hub.topics.Range(func(_, v any) bool {
		t := v.(*Topic)
		if t.isInactive() {
			return true
		}
		w.nextID++
		id := fmt.Sprintf("probe%d", w.nextID)
		msg := &ClientComMessage{Id: id, RcptTo: t.name, Original: t.name, AsUser: types.Uid(1).UserId(), AuthLvl: int(auth.LevelRoot),
			Get: &MsgClientGet{Id: id, Topic: t.name, MsgGetQuery: MsgGetQuery{What: "tags"}}, MetaWhat: constMsgMetaTags,
			sess: w.probe.s, Timestamp: time.Now(), init: true}
		select {
		case t.meta <- msg:
			ids = append(ids, id)
		default:
		}
		return true
	})
	for _, id := range ids {
		if !e.waitFrameFast(w.probe, id, time.Second) {
			return false
		}
	}
	w.probe.take()
	return true
}

// quiesce: two consecutive stable rounds of (channels empty -> probe every actor -> user cache quiet -> channels empty,
// no new frames on any user session).
func (e *verifC11Env) quiesce() error {
	w := e.w
	deadline := time.Now().Add(20 * time.Second)
	stable := 0
	var last int64 = -1
	for stable < 2 {
		if time.Now().After(deadline) {
			return errors.New("world did not quiesce within 20s")
		}
		// a session whose write loop has ended (evicted, account deleted) no longer drains its queue: it is gone
		for _, vs := range w.sess {
			if !vs.dead {
				select {
				case <-vs.done:
					vs.dead = true
				default:
				}
			}
		}
		if !w.chansEmpty() {
			stable = 0
			runtime.Gosched()
			continue
		}
		if !e.probeAllFast() {
			stable = 0
			continue
		}
		if !e.usersQuietFast() || !w.chansEmpty() {
			stable = 0
			continue
		}
		var userFrames int64
		for _, vs := range w.sess {
			userFrames += atomic.LoadInt64(&vs.nfr)
		}
		if stable > 0 && userFrames != last {
			stable = 0
		}
		last = userFrames
		stable++
	}
	return nil
}

type verifC11Mark string

// flush: everything queued on the session's send channel so far has been recorded by its (sequential) writer:
// a marker is pushed through the same channel and awaited. Marker frames are dropped by takeFrames.
func (e *verifC11Env) flush(vs *verifSess) bool {
	if vs == nil || vs.dead || atomic.LoadInt32(&vs.s.terminating) != 0 {
		return true
	}
	e.nmark++
	mark := verifC11Mark(fmt.Sprintf("verifmark-%d", e.nmark))
	select {
	case vs.s.send <- mark:
	default:
		return false
	}
	want := string(mark)
	return verifC11Spin(time.Now().Add(2*time.Second), func() bool {
		select {
		case <-vs.done:
			return true
		default:
		}
		vs.mu.Lock()
		defer vs.mu.Unlock()
		for i := len(vs.frames) - 1; i >= 0; i-- {
			if r, ok := vs.frames[i]["raw"].(string); ok && r == want {
				return true
			}
		}
		return false
	})
}

func (e *verifC11Env) takeFrames(vs *verifSess) []verifFrame {
	var out []verifFrame
	for _, f := range vs.take() {
		if r, ok := f["raw"].(string); ok && len(r) > 10 && r[:10] == "verifmark-" {
			continue
		}
		out = append(out, f)
	}
	return out
}
