package main

// C13 recorder, history class "replies under interleaving keep their own id": session A's {sub} is held INSIDE the first
// store call of topicInit (memadp.PreHook parks the topicInit goroutine before the adapter lock is taken) while the topic
// is registered in the hub as loading; session B then sends its request(s) for the same topic; the gate is released and
// the server run to quiescence. Recorded: the {ctrl}/{meta} frames of A and of B with their ids. Monitor_C13 decides.

import (
	"encoding/json"
	"fmt"
	"runtime"
	"strings"
	"sync"
	"time"

	"github.com/tinode/chat/server/auth"
	"github.com/tinode/chat/server/db/memadp"
	"github.com/tinode/chat/server/store/types"
)

func (e *verifC11Env) c13Login(name string, tok []byte) (*verifSess, error) {
	vs := e.fresh(name)
	for _, m := range []map[string]any{
		{"hi": map[string]any{"id": e.id(), "ver": "0.22", "ua": "verif/1.0 (test)"}},
		{"login": map[string]any{"id": e.id(), "scheme": "token", "secret": verifC11B64(tok)}},
	} {
		raw, _ := json.Marshal(m)
		if o := e.stepID(vs, "", raw, true, ""); o.Infra != "" || o.Panic != "" {
			return nil, fmt.Errorf("race setup: %s %s", o.Infra, o.Panic)
		}
	}
	if vs.s.uid.IsZero() {
		return nil, fmt.Errorf("race setup: login failed")
	}
	return vs, nil
}

// c13Request: one request of session B of the given kind for topic `tp`; returns JSON and the id ("" for a note).
func (e *verifC11Env) c13Request(kind, tp string) ([]byte, string) {
	id := e.id()
	var m map[string]any
	switch kind {
	case "sub":
		m = map[string]any{"sub": map[string]any{"id": id, "topic": tp}}
	case "leave":
		m = map[string]any{"leave": map[string]any{"id": id, "topic": tp}}
	case "pub":
		m = map[string]any{"pub": map[string]any{"id": id, "topic": tp, "content": "x"}}
	case "getdesc":
		m = map[string]any{"get": map[string]any{"id": id, "topic": tp, "what": "desc"}}
	case "setdesc":
		m = map[string]any{"set": map[string]any{"id": id, "topic": tp, "desc": map[string]any{"private": map[string]any{"n": id}}}}
	case "deltopic":
		m = map[string]any{"del": map[string]any{"id": id, "topic": tp, "what": "topic"}}
	case "delmsg":
		m = map[string]any{"del": map[string]any{"id": id, "topic": tp, "what": "msg", "delseq": []any{map[string]any{"low": 1}}}}
	case "note":
		id = ""
		m = map[string]any{"note": map[string]any{"topic": tp, "what": "recv", "seq": 1}}
	}
	raw, _ := json.Marshal(m)
	return raw, id
}

var verifC13RaceKinds = []string{"sub", "leave", "pub", "getdesc", "setdesc", "deltopic", "delmsg", "note"}

// c13Race runs one interleaving; the returned record has op="race".
func (e *verifC11Env) c13Race(tag, cse, bkind string, recoverPanics bool) (map[string]any, error) {
	act := e.newActors()
	A, err := e.c13Login("raceA"+tag, act.tok["right"])
	if err != nil {
		return nil, err
	}
	B, err := e.c13Login("raceB"+tag, e.token(act.carol, auth.LevelAuth, time.Hour, auth.FeatureValidated))
	if err != nil {
		return nil, err
	}
	defer func() {
		e.drop(A)
		e.drop(B)
		e.quiesce()
		e.unloadIdle()
	}()
	// the topic A subscribes to, as A names it and as B names it
	nameA, nameB := "", ""
	switch cse {
	case "nogrp":
		nameA = "grpVerifRaceNoSuch" + tag
		nameB = nameA
	case "p2pmissing":
		nameA = types.Uid(0x5eed0000 + uint64(e.nid)).UserId() // well-formed id of no user
		nameB = nameA
	case "load", "softdel":
		// alice creates a group on another session, leaves; the topic is unloaded (real idle timer); softdel: she deletes it softly
		h, err := e.c13Login("raceH"+tag, act.tok["right"])
		if err != nil {
			return nil, err
		}
		id := e.id()
		raw, _ := json.Marshal(map[string]any{"sub": map[string]any{"id": id, "topic": "new" + id,
			"set": map[string]any{"desc": map[string]any{"public": map[string]any{"fn": "race"}, "defacs": map[string]any{"auth": "JRWPS"}}}}})
		o := e.stepID(h, "", raw, true, id)
		for _, f := range o.Frames {
			if c, ok := f["ctrl"].(map[string]any); ok && c["id"] == id {
				nameA, _ = c["topic"].(string)
			}
		}
		if !strings.HasPrefix(nameA, "grp") {
			return nil, fmt.Errorf("race setup: group not created: %v", o.Frames)
		}
		nameB = nameA
		if cse == "softdel" {
			id = e.id()
			raw, _ = json.Marshal(map[string]any{"del": map[string]any{"id": id, "topic": nameA, "what": "topic", "hard": false}})
			e.stepID(h, "", raw, true, id)
		}
		e.drop(h)
		if err := e.quiesce(); err != nil {
			return nil, err
		}
		for i := 0; i < 50 && e.w.hub.topicGet(nameA) != nil; i++ {
			e.unloadIdle()
			time.Sleep(time.Millisecond)
		}
		if e.w.hub.topicGet(nameA) != nil {
			return nil, fmt.Errorf("race setup: topic %s did not unload", nameA)
		}
	}
	e.takeFrames(A)
	e.takeFrames(B)

	// the gate: park the first adapter call made from topicInit
	var mu sync.Mutex
	parked := false
	parkedCh, release := make(chan struct{}), make(chan struct{})
	memadp.PreHook = func(method string) {
		mu.Lock()
		if parked {
			mu.Unlock()
			return
		}
		buf := make([]byte, 8192)
		buf = buf[:runtime.Stack(buf, false)]
		if !strings.Contains(string(buf), ".topicInit(") {
			mu.Unlock()
			return
		}
		parked = true
		mu.Unlock()
		close(parkedCh)
		<-release
	}
	released := false
	doRelease := func() {
		if !released {
			released = true
			memadp.PreHook = nil
			close(release)
		}
	}
	defer doRelease()

	rec := map[string]any{"op": "race", "case": cse, "bkind": bkind, "alive": true, "panic": false, "site": "", "panicv": "", "hung": false, "parked": false}
	dispatch := func(vs *verifSess, raw []byte) {
		e.journalWrite("race/"+tag, raw)
		done := make(chan struct{})
		go func() {
			defer close(done)
			if recoverPanics {
				defer func() {
					if p := recover(); p != nil {
						rec["panic"], rec["panicv"] = true, fmt.Sprint(p)
					}
				}()
			}
			vs.s.dispatchRaw(raw)
		}()
		select {
		case <-done:
		case <-time.After(30 * time.Second):
			rec["hung"] = true
		}
	}
	aid := e.id()
	araw, _ := json.Marshal(map[string]any{"sub": map[string]any{"id": aid, "topic": nameA}})
	dispatch(A, araw)
	select {
	case <-parkedCh:
		rec["parked"] = true
	case <-time.After(3 * time.Second):
	}
	kinds := []string{bkind}
	if bkind == "all" {
		kinds = verifC13RaceKinds
	}
	brids := []string{}
	var inputs []string
	inputs = append(inputs, string(araw))
	for _, k := range kinds {
		raw, id := e.c13Request(k, nameB)
		inputs = append(inputs, string(raw))
		if id != "" {
			brids = append(brids, id)
		}
		dispatch(B, raw)
	}
	// let the hub take B's requests while the topic is still loading
	h := e.w.hub
	verifC11Spin(time.Now().Add(time.Second), func() bool {
		return len(h.join)+len(h.unreg)+len(h.meta)+len(h.routeCli) == 0
	})
	for i := 0; i < 200; i++ {
		runtime.Gosched()
	}
	doRelease()
	if err := e.quiesce(); err != nil {
		rec["hung"] = true
	}
	e.flush(A)
	e.flush(B)
	for _, id := range append([]string{aid}, brids...) {
		vs := B
		if id == aid {
			vs = A
		}
		rid := id
		if !e.answeredID(vs, rid) {
			verifC11Spin(time.Now().Add(verifC11SilenceWait), func() bool { return e.answeredID(vs, rid) })
			e.quiesce()
			e.flush(vs)
		}
	}
	rec["arid"] = aid
	rec["afr"] = verifC13Frames(e, e.takeFrames(A))
	rec["brids"] = brids
	rec["bfr"] = verifC13Frames(e, e.takeFrames(B))
	rec["input"] = strings.Join(inputs, " || ")
	return rec, nil
}

// answeredID: a {ctrl}/{meta} frame carrying exactly this id has arrived.
func (e *verifC11Env) answeredID(vs *verifSess, rid string) bool {
	vs.mu.Lock()
	defer vs.mu.Unlock()
	for _, f := range vs.frames {
		for _, k := range []string{"ctrl", "meta"} {
			if m, ok := f[k].(map[string]any); ok {
				if id, _ := m["id"].(string); id == rid {
					return true
				}
			}
		}
	}
	return false
}
