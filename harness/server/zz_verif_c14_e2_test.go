package main

// Verification harness (overlay, never written to /repo): engine E2 for property C14.
//
// N client goroutines drive the REAL hub / topicInit / topic / session / session-store code of an in-process
// server (the World) CONCURRENTLY with seeded randomized request programs: subscribe, leave, leave-unsub, publish,
// disconnect (+ reconnect), slow-consumer stall, idle unload (the real kill timer, re-armed with a short delay at a
// quiescent point), topic deletion by the owner, account deletion.  The test only RECORDS: per-session request/reply
// histories with per-session and global sequence numbers, the attachment tables at every quiescent point (end of a
// round), goroutine dumps.  The TLA+ monitors (spec/Monitor_C14.tla) decide.
//
// Roles, exactly as in the server:
//   client goroutine  = Session.readLoop: calls dispatchRaw for one message after the other and, when the client
//                       disconnects or the write loop has closed the socket, Session.cleanUp(false).
//   writer goroutine  = Session.writeLoop (hdl_websock.go) for a socket-less session: drains send, applies detach,
//                       honours stop, gives up when the outbound queue exceeds sendQueueLimit; a "blocked socket write"
//                       is a gate the chaos goroutine holds while it plays the client that stopped reading.

import (
	"bufio"
	"encoding/base64"
	"encoding/json"
	"fmt"
	"math/rand"
	"os"
	"regexp"
	"runtime"
	"sort"
	"strconv"
	"strings"
	"sync"
	"sync/atomic"
	"testing"
	"time"

	"github.com/gorilla/websocket"
	"github.com/tinode/chat/server/auth"
	"github.com/tinode/chat/server/db/memadp"
	"github.com/tinode/chat/server/store"
	"github.com/tinode/chat/server/store/types"
)

var verifC14Gseq int64 // global sequence number of recorded events (atomic)

type verifC14Event map[string]any

type verifC14Sess struct {
	vs     *verifSess
	name   string
	user   string
	client int
	seq    int64 // per-session sequence number (atomic)
	mu     sync.Mutex
	ev     []verifC14Event
	gate   sync.Mutex // held by the chaos goroutine while the socket write "blocks"
	clean  int32      // 0 = cleanUp not called, 1 = running, 2 = returned
	termV  atomic.Value // how the session ended ("" = alive)
	deadV  int32
	inDisp int32      // 1 while the reader is inside dispatchRaw
	curReq atomic.Value
}

func (cs *verifC14Sess) add(e verifC14Event) {
	e["seq"] = atomic.AddInt64(&cs.seq, 1)
	e["g"] = atomic.AddInt64(&verifC14Gseq, 1)
	cs.mu.Lock()
	cs.ev = append(cs.ev, e)
	cs.mu.Unlock()
}

func (cs *verifC14Sess) term() string {
	v, _ := cs.termV.Load().(string)
	return v
}

func (cs *verifC14Sess) writerDone() bool {
	select {
	case <-cs.vs.done:
		return true
	default:
		return false
	}
}

type verifC14World struct {
	w       *verifWorld
	t       *testing.T
	mu      sync.Mutex // guards sess, byPtr
	sess    []*verifC14Sess
	byPtr   map[*Session]*verifC14Sess
	grp     map[string]string // abstract group name -> concrete
	grpRev  map[string]string
	tokens  map[string]string // user -> base64 token
	gone    map[string]bool   // user -> account deleted (guarded by mu)
	nid     int64
	connSeq int64
}

func (cw *verifC14World) id() string { return "q" + strconv.FormatInt(atomic.AddInt64(&cw.nid, 1), 10) }

// absTopicFor: abstract name of a topic as session `cs` sees it in a frame.
func (cw *verifC14World) absTopicFor(cs *verifC14Sess, name string) string {
	switch {
	case name == "" || name == "me" || name == "fnd" || name == "sys":
		return name
	case strings.HasPrefix(name, "grp"):
		if a, ok := cw.grpRev[name]; ok {
			return a
		}
	case strings.HasPrefix(name, "usr"):
		if o, ok := cw.w.uname[name]; ok {
			a, b := cs.user[1:], o[1:]
			if a > b {
				a, b = b, a
			}
			return "p" + a + b
		}
	}
	return "?" + name
}

// absCanon: abstract name of a canonical (hub) topic name.
func (cw *verifC14World) absCanon(name string) string {
	if a, ok := cw.grpRev[name]; ok {
		return a
	}
	if strings.HasPrefix(name, "usr") {
		if u, ok := cw.w.uname[name]; ok {
			return "me:" + u
		}
	}
	if strings.HasPrefix(name, "p2p") {
		us := make([]string, 0, len(cw.w.users))
		for u := range cw.w.users {
			us = append(us, u)
		}
		sort.Strings(us)
		for i, a := range us {
			for _, b := range us[i+1:] {
				if cw.w.users[a].P2PName(cw.w.users[b]) == name {
					return "p" + a[1:] + b[1:]
				}
			}
		}
	}
	return "?" + name
}

// addr: how session cs addresses abstract topic t.
func (cw *verifC14World) addr(cs *verifC14Sess, t string) string {
	switch {
	case t == "me":
		return "me"
	case strings.HasPrefix(t, "g"):
		return cw.grp[t]
	case strings.HasPrefix(t, "p"):
		a, b := "u"+t[1:2], "u"+t[2:3]
		o := a
		if cs.user == a {
			o = b
		}
		return cw.w.users[o].UserId()
	}
	return t
}

// ---------------------------------------------------------------- write loop (Session.writeLoop, socket-less)

var verifC14Filler = []byte(`{"filler":1}`)

func (cw *verifC14World) writer(cs *verifC14Sess) {
	defer close(cs.vs.done) // closeWS: the reader's ReadMessage fails from now on
	s := cs.vs.s
	sendMessage := func(data any) bool {
		if len(s.send) > sendQueueLimit {
			return false // "ws: outbound queue limit exceeded"
		}
		cs.gate.Lock() // wsWrite blocks while the client is not reading
		cs.gate.Unlock()
		cw.recordFrame(cs, data)
		return true
	}
	for {
		select {
		case msg, ok := <-s.send:
			if !ok {
				return
			}
			switch v := msg.(type) {
			case []*ServerComMessage:
				for _, m := range v {
					_, data := s.serialize(m)
					if !sendMessage(data) {
						return
					}
				}
			case *ServerComMessage:
				_, data := s.serialize(v)
				if !sendMessage(data) {
					return
				}
			default:
				if !sendMessage(v) {
					return
				}
			}
		case <-s.bkgTimer.C:
			if s.background {
				s.background = false
				s.onBackgroundTimer()
			}
		case msg := <-s.stop:
			if msg != nil {
				cw.recordFrame(cs, msg)
			}
			return
		case topic := <-s.detach:
			s.delSub(topic)
		}
	}
}

func (cw *verifC14World) recordFrame(cs *verifC14Sess, data any) {
	b, ok := data.([]byte)
	if !ok {
		return
	}
	var f map[string]any
	if json.Unmarshal(b, &f) != nil {
		return
	}
	atomic.AddInt64(&cs.vs.nfr, 1) // the World's quiescence test counts frames
	if c, ok := f["ctrl"].(map[string]any); ok {
		code, _ := c["code"].(float64)
		id, _ := c["id"].(string)
		text, _ := c["text"].(string)
		tn, _ := c["topic"].(string)
		e := verifC14Event{"e": "ctrl", "id": id, "code": int(code), "text": text, "t": cw.absTopicFor(cs, tn)}
		cs.add(e)
	} else if p, ok := f["pres"].(map[string]any); ok {
		what, _ := p["what"].(string)
		if what == "gone" {
			tn, _ := p["topic"].(string)
			src, _ := p["src"].(string)
			cs.add(verifC14Event{"e": "pres", "t": cw.absTopicFor(cs, tn), "what": what, "src": cw.absTopicFor(cs, src)})
		}
	}
}

var verifC14Setup int32

// ---------------------------------------------------------------- connect / terminate

func (cw *verifC14World) connect(client int, user string) (*verifC14Sess, bool) {
	w := cw.w
	n := atomic.AddInt64(&cw.connSeq, 1)
	name := fmt.Sprintf("c%d#%d", client, n)
	sid := fmt.Sprintf("vc14_%d_%d", verifWorldSeq, n)
	s, _ := globals.sessionStore.NewSession((*websocket.Conn)(nil), sid)
	s.remoteAddr = "127.0.0.1"
	vs := &verifSess{name: name, user: user, s: s, done: make(chan struct{})}
	cs := &verifC14Sess{vs: vs, name: name, user: user, client: client}
	cw.mu.Lock()
	cw.sess = append(cw.sess, cs)
	cw.byPtr[s] = cs
	tok := cw.tokens[user]
	cw.mu.Unlock()
	go cw.writer(cs)
	hi, _ := json.Marshal(map[string]any{"hi": map[string]any{"id": cw.id(), "ver": "0.22", "ua": "verif/1.0 (c14)"}})
	s.dispatchRaw(hi)
	lg, _ := json.Marshal(map[string]any{"login": map[string]any{"id": cw.id(), "scheme": "token", "secret": tok}})
	s.dispatchRaw(lg)
	ok := s.uid == w.users[user]
	cs.add(verifC14Event{"e": "conn", "ok": ok})
	return cs, ok
}

// terminate = the end of readLoop: cleanUp(false) on the reader's goroutine.
func (cw *verifC14World) terminate(cs *verifC14Sess, how string) {
	if cs.term() != "" {
		return
	}
	cs.termV.Store(how)
	cs.add(verifC14Event{"e": "term", "how": how})
	atomic.StoreInt32(&cs.clean, 1)
	cs.vs.s.cleanUp(false)
	atomic.StoreInt32(&cs.clean, 2)
	cs.vs.dead = true
	select {
	case <-cs.vs.done:
	case <-time.After(2 * time.Second):
	}
}

// request: one client message through Session.dispatchRaw (the reader's goroutine).
func (cw *verifC14World) request(cs *verifC14Sess, kind, t string, hard bool, px ...string) string {
	id := cw.id()
	var m map[string]any
	ta := ""
	if t != "" {
		ta = cw.addr(cs, t)
	}
	switch kind {
	case "sub":
		m = map[string]any{"sub": map[string]any{"id": id, "topic": ta}}
	case "leave":
		m = map[string]any{"leave": map[string]any{"id": id, "topic": ta}}
	case "unsub":
		m = map[string]any{"leave": map[string]any{"id": id, "topic": ta, "unsub": true}}
	case "pub":
		m = map[string]any{"pub": map[string]any{"id": id, "topic": ta, "content": "x", "noecho": true}}
	case "deltopic":
		m = map[string]any{"del": map[string]any{"id": id, "topic": ta, "what": "topic", "hard": hard}}
	case "deluser":
		m = map[string]any{"del": map[string]any{"id": id, "what": "user", "hard": hard}}
	}
	b, _ := json.Marshal(m)
	ev := verifC14Event{"e": "req", "k": kind, "t": t, "id": id, "hard": hard}
	if len(px) > 0 {
		ev["px"] = px[0] // probe after a store fault: the class of reply the property demands
	}
	cs.add(ev)
	cs.curReq.Store(kind + ":" + t)
	atomic.StoreInt32(&cs.inDisp, 1)
	func() {
		defer func() {
			if p := recover(); p != nil {
				cs.add(verifC14Event{"e": "panic", "what": fmt.Sprint(p)})
			}
		}()
		cs.vs.s.dispatchRaw(b)
	}()
	atomic.StoreInt32(&cs.inDisp, 0)
	cs.add(verifC14Event{"e": "ret", "id": id}) // dispatch came back to the read loop
	return id
}

// ---------------------------------------------------------------- programs

type verifC14Op struct {
	K    string // sub leave unsub pub deltopic deluser disc reconn yield
	T    string
	Hard bool
	RV   *verifC14RV // rendezvous before the op
	Nap  int         // microseconds of pause after the op (0 = none, -1 = Gosched)
}

// rendezvous of n parties with a timeout (a party may have lost its session meanwhile)
type verifC14RV struct {
	n   int32
	cnt int32
	ch  chan struct{}
}

func (r *verifC14RV) arrive() {
	if atomic.AddInt32(&r.cnt, 1) == r.n {
		close(r.ch)
		return
	}
	select {
	case <-r.ch:
	case <-time.After(3 * time.Millisecond):
	}
}

type verifC14Client struct {
	idx  int
	user string
	cur  *verifC14Sess
	done chan struct{}
	opAt atomic.Value // description of the op being executed
	goid int64
}

func verifC14Goid() int64 {
	buf := make([]byte, 64)
	n := runtime.Stack(buf, false)
	m := verifC14GoHdr.FindStringSubmatch(strings.SplitN(string(buf[:n]), "\n", 2)[0] + ":")
	if m == nil {
		f := strings.Fields(string(buf[:n]))
		if len(f) > 1 {
			v, _ := strconv.ParseInt(f[1], 10, 64)
			return v
		}
		return 0
	}
	v, _ := strconv.ParseInt(m[1], 10, 64)
	return v
}

func (cw *verifC14World) runProgram(c *verifC14Client, prog []verifC14Op) {
	defer close(c.done)
	atomic.StoreInt64(&c.goid, verifC14Goid())
	for i, op := range prog {
		c.opAt.Store(fmt.Sprintf("%d:%s:%s", i, op.K, op.T))
		cs := c.cur
		if cs != nil && cs.term() == "" && cs.writerDone() {
			cw.terminate(cs, "writer_exit") // socket closed under the reader
		}
		if op.RV != nil {
			op.RV.arrive()
		}
		alive := cs != nil && cs.term() == ""
		switch op.K {
		case "reconn":
			if !alive {
				cw.mu.Lock()
				gone := cw.gone[c.user]
				cw.mu.Unlock()
				if !gone {
					ncs, ok := cw.connect(c.idx, c.user)
					c.cur = ncs
					if !ok {
						cw.terminate(ncs, "login_refused")
					}
				}
			}
		case "disc":
			if alive {
				cw.terminate(cs, "disconnect")
			}
		case "yield":
			runtime.Gosched()
		default:
			if alive {
				if op.K == "deluser" {
					cw.mu.Lock()
					cw.gone[c.user] = true
					cw.mu.Unlock()
				}
				cw.request(cs, op.K, op.T, op.Hard)
			}
		}
		if op.Nap > 0 {
			time.Sleep(time.Duration(op.Nap) * time.Microsecond)
		} else if op.Nap < 0 {
			runtime.Gosched()
		}
	}
	c.opAt.Store("end")
}

// ---------------------------------------------------------------- snapshot at a quiescent point

func (cw *verifC14World) snapshot() map[string]any {
	w := cw.w
	sess := map[string]any{}
	for _, cs := range cw.sess {
		e := map[string]any{"user": cs.user, "client": cs.client, "live": cs.term() == "", "term": cs.term(),
			"clean": atomic.LoadInt32(&cs.clean), "subs": []string{}, "stuck": atomic.LoadInt32(&cs.inDisp) == 1}
		if cs.term() == "" {
			sl := []string{}
			cs.vs.s.subsLock.RLock()
			for tn := range cs.vs.s.subs {
				sl = append(sl, cw.absCanon(tn))
			}
			cs.vs.s.subsLock.RUnlock()
			sort.Strings(sl)
			e["subs"] = sl
			e["terminating"] = atomic.LoadInt32(&cs.vs.s.terminating) != 0
		}
		sess[cs.name] = e
	}
	topics := map[string]any{}
	w.hub.topics.Range(func(k, v any) bool {
		t := v.(*Topic)
		a := cw.absCanon(k.(string))
		if strings.HasPrefix(a, "?") {
			return true
		}
		if t.isInactive() {
			topics[a] = map[string]any{"loaded": true, "active": false, "att": []string{}, "online": map[string]int{}, "attu": map[string]int{}}
			return true
		}
		att := []string{}
		attu := map[string]int{}
		for s, pssd := range t.sessions {
			n := "?"
			if cs, ok := cw.byPtr[s]; ok {
				n = cs.name
			}
			att = append(att, n)
			if !s.background {
				attu[w.absUser(pssd.uid.UserId())]++
			}
		}
		sort.Strings(att)
		online := map[string]int{}
		for uid, pud := range t.perUser {
			u := w.absUser(uid.UserId())
			if pud.online != 0 || attu[u] != 0 {
				online[u] = pud.online
			}
		}
		for u := range attu {
			if _, ok := online[u]; !ok {
				online[u] = 0
			}
		}
		for u := range online {
			if _, ok := attu[u]; !ok {
				attu[u] = 0
			}
		}
		topics[a] = map[string]any{"loaded": true, "active": true, "att": att, "online": online, "attu": attu}
		return true
	})
	// store rows of the group topics and accounts
	d := memadp.Get().Dump()
	rows := map[string]any{}
	for a, c := range cw.grp {
		ex := false
		for _, t := range d.Topics {
			if t.Name == c && t.State != "del" && t.State != "deleted" {
				ex = true
			}
		}
		rows[a] = ex
	}
	reg := []string{}
	globals.sessionStore.Range(func(sid string, s *Session) bool {
		if cs, ok := cw.byPtr[s]; ok {
			reg = append(reg, cs.name)
		}
		return true
	})
	sort.Strings(reg)
	return map[string]any{"sess": sess, "topics": topics, "rows": rows, "registry": reg}
}

// canonOf: hub name of an abstract topic (groups and p2p).
func (cw *verifC14World) canonOf(t string) string {
	if strings.HasPrefix(t, "g") {
		return cw.grp[t]
	}
	if strings.HasPrefix(t, "p") && len(t) == 3 {
		return cw.w.users["u"+t[1:2]].P2PName(cw.w.users["u"+t[2:3]])
	}
	return t
}

// probeAfterFault: the store call of a request failed in this round (the request itself was answered or not - the monitors look
// at that); now, quietly and one request at a time: every session attached to the topic leaves it, the idle timer unloads it,
// a member subscribes again. Returns the snapshots taken on the way.
func (cw *verifC14World) probeAfterFault(round int, plan map[string]any, t string, clients []*verifC14Client, pc int,
	hung *[]map[string]any, parkedAll *[]map[string]any, seen map[int]bool) ([]map[string]any, bool) {
	w := cw.w
	var out []map[string]any
	one := func(c *verifC14Client, cs *verifC14Sess, kind, px string) bool {
		fin := make(chan string, 1)
		var gid int64
		go func() {
			atomic.StoreInt64(&gid, verifC14Goid())
			fin <- cw.request(cs, kind, t, false, px)
		}()
		select {
		case id := <-fin:
			deadline := time.Now().Add(1500 * time.Millisecond)
			for time.Now().Before(deadline) {
				cs.mu.Lock()
				for _, e := range cs.ev {
					if e["e"] == "ctrl" && e["id"] == id {
						cs.mu.Unlock()
						return true
					}
				}
				cs.mu.Unlock()
				time.Sleep(50 * time.Microsecond)
			}
			return true // no reply: the monitor says so
		case <-time.After(1500 * time.Millisecond):
			*parkedAll = append(*parkedAll, verifC14Parked(seen)...)
			cs.vs.dead = true
			idx := 0
			if c != nil {
				idx = c.idx
			}
			*hung = append(*hung, map[string]any{"client": idx, "op": "probe:" + kind + ":" + t, "sess": cs.name, "round": round,
				"goid": atomic.LoadInt64(&gid), "clean": atomic.LoadInt32(&cs.clean), "req": kind + ":" + t})
			return false
		}
	}
	snap := func(extra map[string]any) bool {
		err := w.quiesce()
		sn := map[string]any{"round": round, "quiesced": err == nil, "plan": plan, "probe": true}
		for k, v := range extra {
			sn[k] = v
		}
		if err == nil {
			sn["st"] = cw.snapshot()
		} else {
			sn["st"] = map[string]any{"sess": map[string]any{}, "topics": map[string]any{}, "rows": map[string]any{}, "registry": []string{}}
			sn["qerr"] = err.Error()
			sn["why"] = cw.whyNotQuiet()
		}
		out = append(out, sn)
		return err == nil
	}
	canon := cw.canonOf(t)
	// 1. everybody attached leaves (expected: 200)
	if tp := w.hub.topicGet(canon); tp != nil && !tp.isInactive() {
		var att []*verifC14Sess
		for s := range tp.sessions {
			if cs, ok := cw.byPtr[s]; ok && cs.term() == "" && !cs.writerDone() && atomic.LoadInt32(&cs.inDisp) == 0 {
				att = append(att, cs)
			}
		}
		sort.Slice(att, func(i, j int) bool { return att[i].name < att[j].name })
		for _, cs := range att {
			var cl *verifC14Client
			for _, c := range clients {
				if c.cur == cs {
					cl = c
				}
			}
			if !one(cl, cs, "leave", "ok") {
				return out, true
			}
		}
	}
	if w.quiesce() != nil {
		snap(nil)
		return out, true
	}
	// 2. the idle timer unloads the topic
	must := []string{}
	if tp := w.hub.topicGet(canon); tp != nil && !tp.isInactive() && len(tp.sessions) == 0 {
		tp.killTimer.Reset(time.Nanosecond)
		// the actor may serve the quiescence probes before it looks at its timer: give the unload time to reach the hub
		for i := 0; i < 2000 && w.hub.topicGet(canon) == tp; i++ {
			time.Sleep(100 * time.Microsecond)
		}
		must = append(must, t)
	}
	if !snap(map[string]any{"mustUnload": must}) {
		return out, true
	}
	// 3. a member subscribes again
	if pc >= 0 && pc < len(clients) {
		c := clients[pc]
		cw.mu.Lock()
		gone := cw.gone[c.user]
		cw.mu.Unlock()
		if strings.HasPrefix(t, "p") && len(t) == 3 { // a p2p topic of a deleted account is refused for good: nothing to probe
			cw.mu.Lock()
			gone = gone || cw.gone["u"+t[1:2]] || cw.gone["u"+t[2:3]]
			cw.mu.Unlock()
		}
		if cs := c.cur; cs != nil && cs.term() == "" && !cs.writerDone() && !gone {
			px := "norm"
			if strings.HasPrefix(t, "g") {
				for _, row := range memadp.Get().Dump().Topics {
					if row.Name == canon && row.State != "del" && row.State != "deleted" {
						px = "ok"
					}
				}
			}
			if !one(c, cs, "sub", px) {
				return out, true
			}
			if !snap(nil) {
				return out, true
			}
		}
	}
	return out, false
}

// guardedTerminate runs the end of a session's read loop (cleanUp) on behalf of its reader without ever hanging with it:
// a cleanUp that does not return is recorded for THIS session (goroutine id, so that the parked goroutine is attributed).
func (cw *verifC14World) guardedTerminate(c *verifC14Client, cs *verifC14Sess, how, op string, round int,
	hung *[]map[string]any, parkedAll *[]map[string]any, seen map[int]bool) bool {
	fin := make(chan struct{})
	var gid int64
	go func() {
		atomic.StoreInt64(&gid, verifC14Goid())
		cw.terminate(cs, how)
		close(fin)
	}()
	select {
	case <-fin:
		return true
	case <-time.After(1500 * time.Millisecond):
	}
	*parkedAll = append(*parkedAll, verifC14Parked(seen)...)
	cs.vs.dead = true // the World's shutdown must not start a second cleanUp and wait for it
	*hung = append(*hung, map[string]any{"client": c.idx, "op": op, "sess": cs.name, "round": round,
		"goid": atomic.LoadInt64(&gid), "clean": atomic.LoadInt32(&cs.clean), "req": "cleanup:"})
	return false
}

// whyNotQuiet names what keeps the World from being quiescent (channel lengths and atomics only).
func (cw *verifC14World) whyNotQuiet() string {
	w := cw.w
	h := w.hub
	var why []string
	if n := len(h.routeCli) + len(h.routeSrv) + len(h.join) + len(h.unreg) + len(h.meta) + len(h.userStatus); n != 0 {
		why = append(why, "hub_queues")
	}
	if len(globals.usersUpdate) != 0 {
		why = append(why, "user_cache_queue")
	}
	h.topics.Range(func(k, v any) bool {
		t := v.(*Topic)
		a := cw.absCanon(k.(string))
		if len(a) > 3 {
			a = a[:3]
		}
		if t.isDeleted() {
			why = append(why, "topic_deleted_in_hub:"+a)
		} else if t.isInactive() {
			why = append(why, "topic_paused_in_hub:"+a)
		} else if len(t.clientMsg)+len(t.serverMsg)+len(t.meta)+len(t.reg)+len(t.unreg)+len(t.exit) != 0 {
			why = append(why, "topic_queues:"+a)
		}
		return true
	})
	for _, vs := range w.allSess() {
		if len(vs.s.send)+len(vs.s.detach) != 0 {
			st := "session_queue"
			if cs, ok := cw.byPtr[vs.s]; ok {
				if cs.writerDone() {
					st += ":writer_gone"
				}
				if atomic.LoadInt32(&cs.inDisp) == 1 {
					st += ":reader_stuck"
				}
			} else {
				st += ":probe"
			}
			why = append(why, st)
		}
	}
	sort.Strings(why)
	if len(why) > 6 {
		why = why[:6]
	}
	if len(why) == 0 {
		return "probe_unanswered"
	}
	return strings.Join(why, ",")
}

// ---------------------------------------------------------------- goroutine dump

var verifC14GoHdr = regexp.MustCompile(`^goroutine (\d+) \[([^\]]+)\]:`)

type verifC14G struct {
	id    int
	state string
	funcs []string // tinode functions on the stack, innermost first
	top   string   // innermost non-runtime function
}

func verifC14Dump() []verifC14G {
	buf := make([]byte, 1<<22)
	n := runtime.Stack(buf, true)
	var out []verifC14G
	for _, blk := range strings.Split(string(buf[:n]), "\n\n") {
		lines := strings.Split(blk, "\n")
		m := verifC14GoHdr.FindStringSubmatch(lines[0])
		if m == nil {
			continue
		}
		g := verifC14G{state: m[2]}
		g.id, _ = strconv.Atoi(m[1])
		for _, l := range lines[1:] {
			if strings.HasPrefix(l, "\t") || strings.HasPrefix(l, "created by") {
				continue
			}
			fn := l
			if i := strings.LastIndex(fn, "("); i > 0 {
				fn = fn[:i]
			}
			if g.top == "" && !strings.HasPrefix(fn, "runtime.") && !strings.HasPrefix(fn, "sync.") && !strings.HasPrefix(fn, "internal/") && !strings.HasPrefix(fn, "time.") {
				g.top = fn
			}
			if strings.HasPrefix(fn, "github.com/tinode/chat/server.") {
				short := strings.TrimPrefix(fn, "github.com/tinode/chat/server.")
				if !strings.Contains(strings.ToLower(short), "verif") {
					g.funcs = append(g.funcs, short)
				}
			}
		}
		out = append(out, g)
	}
	return out
}

// parked: goroutines blocked inside tinode code other than the idle selects of the actors.
func verifC14Parked(seen map[int]bool) []map[string]any {
	idle := func(g verifC14G) bool {
		if len(g.funcs) == 0 || !strings.HasPrefix(g.top, "github.com/tinode/chat/server.") || strings.Contains(strings.ToLower(g.top), "verif") {
			return true // not blocked inside server code
		}
		st := strings.SplitN(g.state, ",", 2)[0]
		if st == "running" || st == "runnable" || st == "syscall" || st == "sleep" {
			return true
		}
		in := g.funcs[0]
		if st == "select" && (in == "(*Topic).runLocal" || in == "(*Hub).run" || strings.HasPrefix(in, "(*Hub).run.") || in == "userUpdater" || strings.HasPrefix(in, "usersInit") || in == "(*Cluster).run") {
			return true
		}
		return false
	}
	snap := func() map[int]verifC14G {
		m := map[int]verifC14G{}
		for _, g := range verifC14Dump() {
			if !idle(g) {
				m[g.id] = g
			}
		}
		return m
	}
	a := snap()
	if len(a) == 0 {
		return nil
	}
	time.Sleep(60 * time.Millisecond)
	b := snap()
	var out []map[string]any
	for id, g := range a {
		h, ok := b[id]
		if !ok || seen[id] || strings.Join(h.funcs, "<") != strings.Join(g.funcs, "<") {
			continue
		}
		seen[id] = true
		fs := g.funcs
		if len(fs) > 4 {
			fs = fs[:4]
		}
		out = append(out, map[string]any{"id": id, "state": strings.SplitN(g.state, ",", 2)[0], "in": fs[0], "via": strings.Join(fs, "<")})
	}
	sort.Slice(out, func(i, j int) bool { return out[i]["id"].(int) < out[j]["id"].(int) })
	return out
}

// ---------------------------------------------------------------- one run (one World)

type verifC14Plan struct {
	clients []string // user of each client
	rounds  int
	opsPer  int
}

func verifC14GenProgram(rng *rand.Rand, cw *verifC14World, c *verifC14Client, topics []string, n int, owner map[string]string, allowDelUser bool) []verifC14Op {
	var prog []verifC14Op
	mine := []string{}
	for _, t := range topics {
		if strings.HasPrefix(t, "p") && !strings.Contains(t[1:], c.user[1:]) {
			continue
		}
		mine = append(mine, t)
	}
	pick := func() string { return mine[rng.Intn(len(mine))] }
	nap := func() int {
		switch rng.Intn(6) {
		case 0:
			return -1
		case 1:
			return rng.Intn(60)
		}
		return 0
	}
	prog = append(prog, verifC14Op{K: "reconn"})
	for len(prog) < n {
		r := rng.Intn(100)
		t := pick()
		switch {
		case r < 30:
			prog = append(prog, verifC14Op{K: "sub", T: t, Nap: nap()})
		case r < 40:
			prog = append(prog, verifC14Op{K: "leave", T: t, Nap: nap()})
		case r < 45:
			prog = append(prog, verifC14Op{K: "unsub", T: t, Nap: nap()})
		case r < 68:
			prog = append(prog, verifC14Op{K: "pub", T: t, Nap: nap()})
		case r < 76: // subscribe and drop the connection at once, then come back
			prog = append(prog, verifC14Op{K: "sub", T: t}, verifC14Op{K: "disc"}, verifC14Op{K: "reconn", Nap: nap()})
		case r < 80: // leave and drop the connection at once
			prog = append(prog, verifC14Op{K: "leave", T: t}, verifC14Op{K: "disc"}, verifC14Op{K: "reconn", Nap: nap()})
		case r < 84:
			prog = append(prog, verifC14Op{K: "disc", Nap: nap()}, verifC14Op{K: "reconn"})
		case r < 88: // sub / leave / sub burst on one topic
			prog = append(prog, verifC14Op{K: "sub", T: t}, verifC14Op{K: "leave", T: t}, verifC14Op{K: "sub", T: t, Nap: nap()})
		case r < 92:
			if strings.HasPrefix(t, "g") {
				prog = append(prog, verifC14Op{K: "deltopic", T: t, Hard: rng.Intn(5) != 0, Nap: nap()})
			}
		case r < 93:
			if allowDelUser {
				prog = append(prog, verifC14Op{K: "deluser", Hard: rng.Intn(2) == 0})
			}
		default:
			prog = append(prog, verifC14Op{K: "yield"})
		}
	}
	return prog
}

func verifC14Run(t *testing.T, run int, seed int64, rounds, opsPer int, seen map[int]bool) (rec map[string]any, hang bool) {
	rng := rand.New(rand.NewSource(seed))
	w := verifNewWorld(t, verifConfig{}, false)
	cw := &verifC14World{w: w, t: t, byPtr: map[*Session]*verifC14Sess{}, grp: map[string]string{}, grpRev: map[string]string{},
		tokens: map[string]string{}, gone: map[string]bool{}}
	rec = map[string]any{"run": run, "seed": seed, "err": ""}
	fail := func(err string) (map[string]any, bool) {
		rec["err"] = err
		w.close()
		return rec, false
	}
	// ---- setup (single goroutine, every step quiesced)
	atomic.StoreInt32(&verifC14Setup, 1)
	users := []string{"u1", "u2", "u3"}
	for _, u := range users {
		usr := &types.User{Access: types.DefaultAccess{Auth: types.ModeCAuth, Anon: types.ModeNone}, Public: map[string]any{"fn": u}}
		usr.State = types.StateOK
		if _, err := store.Users.Create(usr, nil); err != nil {
			return fail("account: " + err.Error())
		}
		w.users[u] = usr.Uid()
		w.uname[usr.Uid().UserId()] = u
		tok, _, err := store.Store.GetLogicalAuthHandler("token").GenSecret(&auth.Rec{Uid: usr.Uid(), AuthLevel: auth.LevelAuth, Lifetime: auth.Duration(time.Hour)})
		if err != nil {
			return fail("token: " + err.Error())
		}
		cw.tokens[u] = base64.StdEncoding.EncodeToString(tok)
	}
	// clients 1-5 run random programs; 6 and 7 are quiet witnesses (attached to me + both groups, they only publish)
	clientUsers := []string{"u1", "u1", "u2", "u2", "u3", "u2", "u1"}
	const nActive = 5
	clients := make([]*verifC14Client, len(clientUsers))
	syncSess := func() {
		for _, cs := range cw.sess {
			w.sess[cs.name] = cs.vs
		}
	}
	for i, u := range clientUsers {
		clients[i] = &verifC14Client{idx: i + 1, user: u}
		cs, ok := cw.connect(i+1, u)
		if !ok {
			return fail("setup login failed for " + u)
		}
		clients[i].cur = cs
	}
	syncSess()
	if err := w.quiesce(); err != nil {
		return fail("setup: " + err.Error())
	}
	waitReply := func(cs *verifC14Sess, id string) int {
		deadline := time.Now().Add(2 * time.Second)
		for time.Now().Before(deadline) {
			cs.mu.Lock()
			for _, e := range cs.ev {
				if e["e"] == "ctrl" && e["id"] == id {
					cs.mu.Unlock()
					return e["code"].(int)
				}
			}
			cs.mu.Unlock()
			time.Sleep(50 * time.Microsecond)
		}
		return 0
	}
	setupReq := func(cs *verifC14Sess, m map[string]any, id string) int {
		b, _ := json.Marshal(m)
		cs.vs.s.dispatchRaw(b)
		return waitReply(cs, id)
	}
	owner := map[string]string{"g1": "u1", "g2": "u2"}
	ownerClient := map[string]int{"g1": 0, "g2": 2}
	for _, g := range []string{"g1", "g2"} {
		cs := clients[ownerClient[g]].cur
		id := cw.id()
		b, _ := json.Marshal(map[string]any{"sub": map[string]any{"id": id, "topic": "new" + id, "set": map[string]any{"desc": map[string]any{"public": map[string]any{"fn": g}}}}})
		cs.vs.s.dispatchRaw(b)
		if waitReply(cs, id) != 200 {
			return fail("setup: group creation failed")
		}
		if err := w.quiesce(); err != nil {
			return fail("setup: " + err.Error())
		}
		// concrete name: the only new grp key of the owner's subs
		cs.vs.s.subsLock.RLock()
		for tn := range cs.vs.s.subs {
			if strings.HasPrefix(tn, "grp") {
				if _, known := cw.grpRev[tn]; !known {
					cw.grp[g] = tn
					cw.grpRev[tn] = g
				}
			}
		}
		cs.vs.s.subsLock.RUnlock()
		if cw.grp[g] == "" {
			return fail("setup: group name not learned")
		}
		w.topics[g] = cw.grp[g]
		w.tname[cw.grp[g]] = g
	}
	topics := []string{"g1", "g2", "p12", "p13", "me"}
	// everybody becomes a subscriber of both groups; p2p topics are created; then a random subset stays attached
	for i, c := range clients {
		for _, tn := range topics {
			if tn == "me" || (strings.HasPrefix(tn, "p") && !strings.Contains(tn[1:], c.user[1:])) {
				continue
			}
			if strings.HasPrefix(tn, "p") && i%2 == 1 {
				continue
			}
			id := cw.id()
			code := setupReq(c.cur, map[string]any{"sub": map[string]any{"id": id, "topic": cw.addr(c.cur, tn)}}, id)
			if code < 200 || code >= 400 {
				return fail(fmt.Sprintf("setup: sub %s by %s -> %d", tn, c.cur.name, code))
			}
		}
	}
	for _, c := range clients {
		for _, tn := range topics {
			if tn == "me" || (strings.HasPrefix(tn, "p") && !strings.Contains(tn[1:], c.user[1:])) {
				continue
			}
			if c.idx <= nActive && rng.Intn(3) != 0 {
				id := cw.id()
				setupReq(c.cur, map[string]any{"leave": map[string]any{"id": id, "topic": cw.addr(c.cur, tn)}}, id)
			}
		}
		if c.idx > nActive || rng.Intn(2) == 0 {
			id := cw.id()
			setupReq(c.cur, map[string]any{"sub": map[string]any{"id": id, "topic": "me"}}, id)
		}
	}
	if err := w.quiesce(); err != nil {
		return fail("setup: " + err.Error())
	}
	atomic.StoreInt32(&verifC14Setup, 0)
	for _, cs := range cw.sess {
		cs.vs.take()
		cs.add(verifC14Event{"e": "mark", "round": 0})
	}
	snaps := []map[string]any{{"round": 0, "quiesced": true, "plan": map[string]any{}, "st": cw.snapshot()}}

	// ---- rounds
	hungClients := []map[string]any{}
	parkedAll := []map[string]any{}
	bricked := map[string]bool{} // p2p topics whose deletion failed in the store after both participants had unsubscribed
	for round := 1; round <= rounds && !hang; round++ {
		plan := map[string]any{}
		// idle unload: re-arm the real kill timer of idle topics with a short delay (quiescent: the actor is parked in select)
		unl := []string{}
		w.hub.topics.Range(func(k, v any) bool {
			tp := v.(*Topic)
			a := cw.absCanon(k.(string))
			if strings.HasPrefix(a, "?") || tp.isInactive() || len(tp.sessions) != 0 {
				return true
			}
			if rng.Intn(100) < 60 {
				tp.killTimer.Reset(time.Duration(rng.Intn(250)) * time.Microsecond)
				unl = append(unl, a)
			}
			return true
		})
		sort.Strings(unl)
		plan["unload"] = unl
		// programs
		allowDelUser := rng.Intn(100) < 25
		progs := make([][]verifC14Op, len(clients))
		for i, c := range clients {
			if c.idx > nActive {
				progs[i] = []verifC14Op{{K: "yield"}, {K: "pub", T: []string{"g1", "g2"}[rng.Intn(2)], Nap: rng.Intn(200)}, {K: "yield"}}
				continue
			}
			progs[i] = verifC14GenProgram(rng, cw, c, topics, opsPer, owner, allowDelUser && c.user == "u3")
		}
		// staged races: a rendezvous right before two (or three) chosen requests
		stage := rng.Intn(100)
		g := []string{"g1", "g2"}[rng.Intn(2)]
		oc := ownerClient[g]
		others := []int{}
		for i := range clients {
			if clients[i].user != owner[g] && clients[i].idx <= nActive {
				others = append(others, i)
			}
		}
		oth := others[rng.Intn(len(others))]
		oth2 := others[rng.Intn(len(others))]
		ins := func(ci int, at int, ops ...verifC14Op) {
			p := progs[ci]
			if at > len(p) {
				at = len(p)
			}
			progs[ci] = append(append(append([]verifC14Op{}, p[:at]...), ops...), p[at:]...)
		}
		at := 1 + rng.Intn(3)
		faultMethod, probeTopic, probeClient := "", "", -1
		memberOf := func(ci int, tn string) bool {
			return !strings.HasPrefix(tn, "p") || strings.Contains(tn[1:], clients[ci].user[1:])
		}
		switch {
		case stage < 25: // subscribe races with the owner's {del topic}
			rv := &verifC14RV{n: 2, ch: make(chan struct{})}
			ins(oc, at, verifC14Op{K: "deltopic", T: g, Hard: rng.Intn(5) != 0, RV: rv})
			ins(oth, at, verifC14Op{K: "sub", T: g, RV: rv}, verifC14Op{K: []string{"leave", "sub", "pub", "disc"}[rng.Intn(4)], T: g}, verifC14Op{K: "reconn"})
			if oth2 != oth {
				ins(oth2, at, verifC14Op{K: "pub", T: g}, verifC14Op{K: "pub", T: g}, verifC14Op{K: "sub", T: g})
			}
			plan["stage"] = "sub_vs_deltopic:" + g
		case stage < 37: // leave races with the owner's {del topic}
			rv := &verifC14RV{n: 2, ch: make(chan struct{})}
			ins(oc, at, verifC14Op{K: "deltopic", T: g, Hard: true, RV: rv})
			ins(oth, 1, verifC14Op{K: "sub", T: g})
			ins(oth, at+1, verifC14Op{K: "leave", T: g, RV: rv}, verifC14Op{K: "sub", T: g})
			plan["stage"] = "leave_vs_deltopic:" + g
		case stage < 50 && len(unl) > 0: // subscribe races with the idle unload armed above
			tu := unl[rng.Intn(len(unl))]
			if !strings.HasPrefix(tu, "me:") {
				for _, ci := range []int{oth, oc} {
					if strings.HasPrefix(tu, "p") && !strings.Contains(tu[1:], clients[ci].user[1:]) {
						continue
					}
					ins(ci, 1, verifC14Op{K: "sub", T: tu}, verifC14Op{K: []string{"leave", "pub", "disc", "sub"}[rng.Intn(4)], T: tu}, verifC14Op{K: "reconn"})
				}
				plan["stage"] = "sub_vs_unload:" + tu
			}
		case stage < 58: // account deletion races with subscribe / disconnect of the same user's other session
			rv := &verifC14RV{n: 2, ch: make(chan struct{})}
			ins(4, at, verifC14Op{K: "deluser", Hard: rng.Intn(2) == 0, RV: rv})
			ins(oth, at, verifC14Op{K: "sub", T: "p13", RV: rv})
			plan["stage"] = "deluser_vs_sub"
		case stage < 66: // two sessions of one user: unsub evicts the sibling while it leaves / subscribes
			rv := &verifC14RV{n: 2, ch: make(chan struct{})}
			a, b := 2, 3 // both u2
			if g == "g2" {
				a, b = 0, 1 // both u1
			}
			ins(a, 1, verifC14Op{K: "sub", T: g})
			ins(b, 1, verifC14Op{K: "sub", T: g})
			ins(a, at+1, verifC14Op{K: "unsub", T: g, RV: rv})
			ins(b, at+1, verifC14Op{K: []string{"leave", "sub", "pub"}[rng.Intn(3)], T: g, RV: rv}, verifC14Op{K: "sub", T: g})
			plan["stage"] = "unsub_vs_sibling:" + g
		// ---- store faults at the decisive adapter calls (the first call of the method in this round fails)
		case stage < 74: // Topics.Delete fails during the owner's {del topic} of a loaded topic
			faultMethod, probeTopic, probeClient = "TopicDelete", g, map[string]int{"g1": 5, "g2": 6}[g]
			ins(oth, 1, verifC14Op{K: "sub", T: g})
			ins(oc, at+1, verifC14Op{K: "deltopic", T: g, Hard: rng.Intn(4) != 0})
			ins(oth, at+1, verifC14Op{K: []string{"leave", "sub", "pub"}[rng.Intn(3)], T: g}, verifC14Op{K: "sub", T: g}, verifC14Op{K: "leave", T: g})
			plan["stage"] = "fault_deltopic:" + g
		case stage < 79 && !bricked["p12"]: // Topics.Delete fails when the last p2p participant unsubscribes
			faultMethod, probeTopic, probeClient = "TopicDelete", "p12", 0
			rv := &verifC14RV{n: 2, ch: make(chan struct{})}
			ins(0, 1, verifC14Op{K: "sub", T: "p12"}, verifC14Op{K: "unsub", T: "p12", RV: rv}, verifC14Op{K: "sub", T: "p12"})
			ins(2, 1, verifC14Op{K: "sub", T: "p12"}, verifC14Op{K: "unsub", T: "p12", RV: rv}, verifC14Op{K: "leave", T: "p12"})
			plan["stage"] = "fault_p2p_last_unsub:p12"
		case stage < 86: // Subs.Delete / Subs.Update fails during {leave unsub=true}
			faultMethod, probeTopic, probeClient = []string{"SubsDelete", "SubsDelete", "SubsUpdate"}[rng.Intn(3)], g, oth
			ins(oth, 1, verifC14Op{K: "sub", T: g})
			ins(oth, at+1, verifC14Op{K: "unsub", T: g}, verifC14Op{K: []string{"leave", "sub", "pub"}[rng.Intn(3)], T: g}, verifC14Op{K: "sub", T: g})
			plan["stage"] = "fault_unsub:" + g
		case stage < 93: // Topics.Get / Subs.* fails while topicInit loads the topic for a {sub}
			cand := []string{}
			for _, tn := range []string{"g1", "g2", "p12", "p13"} {
				if tp := w.hub.topicGet(cw.canonOf(tn)); tp == nil && !bricked[tn] {
					cand = append(cand, tn)
				}
			}
			for _, tn := range unl {
				if !strings.HasPrefix(tn, "me:") && !bricked[tn] {
					cand = append(cand, tn)
				}
			}
			if len(cand) > 0 {
				tn := cand[rng.Intn(len(cand))]
				if strings.HasPrefix(tn, "p") {
					faultMethod = []string{"TopicGet", "UsersForTopic"}[rng.Intn(2)]
				} else {
					faultMethod = []string{"TopicGet", "SubsForTopic"}[rng.Intn(2)]
				}
				probeTopic = tn
				for _, ci := range []int{oth, oc, oth2} {
					if memberOf(ci, tn) {
						if probeClient < 0 {
							probeClient = ci
						}
						ins(ci, 1, verifC14Op{K: "sub", T: tn}, verifC14Op{K: []string{"leave", "sub", "pub", "disc"}[rng.Intn(4)], T: tn}, verifC14Op{K: "reconn"}, verifC14Op{K: "sub", T: tn})
					}
				}
				plan["stage"] = "fault_init:" + tn
			} else {
				plan["stage"] = "none"
			}
		case stage < 97: // Users.Delete fails during {del user}
			faultMethod, probeTopic, probeClient = "UserDelete", "p13", -1 // no re-subscribe: the account is half deleted
			rv := &verifC14RV{n: 2, ch: make(chan struct{})}
			ins(4, at, verifC14Op{K: "deluser", Hard: rng.Intn(2) == 0, RV: rv})
			ins(oth, at, verifC14Op{K: "sub", T: "p13", RV: rv})
			plan["stage"] = "fault_deluser"
		default:
			plan["stage"] = "none"
		}
		if faultMethod != "" {
			plan["fault"] = faultMethod
			w.hookMu.Lock()
			w.fault = &verifFault{Method: faultMethod, Nth: 1, Mode: "error"}
			w.hookMu.Unlock()
		}
		// slow consumer
		var victim *verifC14Sess
		slowDelay, slowHold := 0, 0
		if rng.Intn(100) < 35 {
			vi := rng.Intn(nActive)
			if cs := clients[vi].cur; cs != nil && cs.term() == "" {
				victim = cs
				slowDelay, slowHold = rng.Intn(300), 150+rng.Intn(700)
				plan["slow"] = cs.name
			}
		}
		for _, cs := range cw.sess {
			if cs.term() == "" {
				cs.add(verifC14Event{"e": "mark", "round": round})
			}
		}
		// ---- go
		// the reader of a session whose write loop is gone runs cleanUp; the harness must not hang with it
		sweepTerminate := func(c *verifC14Client, cs *verifC14Sess) {
			if !cw.guardedTerminate(c, cs, "writer_exit", "sweep:cleanUp", round, &hungClients, &parkedAll, seen) {
				hang = true
			}
		}
		var chaos sync.WaitGroup
		if victim != nil {
			chaos.Add(1)
			go func(cs *verifC14Sess) {
				defer chaos.Done()
				time.Sleep(time.Duration(slowDelay) * time.Microsecond)
				cs.gate.Lock() // the client stops reading: the socket write blocks
				cs.add(verifC14Event{"e": "stall"})
				for i := 0; i < 400; i++ { // its backlog grows to the queue's capacity
					if !cs.vs.s.queueOutBytes(verifC14Filler) || atomic.LoadInt32(&cs.vs.s.terminating) != 0 {
						break
					}
				}
				time.Sleep(time.Duration(slowHold) * time.Microsecond)
				cs.gate.Unlock()
			}(victim)
		}
		for i, c := range clients {
			c.done = make(chan struct{})
			go cw.runProgram(c, progs[i])
		}
		progress := func() int64 {
			n := atomic.LoadInt64(&verifC14Gseq)
			for _, c := range clients {
				select {
				case <-c.done:
					n += 1000
				default:
				}
			}
			return n
		}
		allDone := func() bool {
			for _, c := range clients {
				select {
				case <-c.done:
				default:
					return false
				}
			}
			return true
		}
		var roundParked []map[string]any
		last, lastAt, hardStop := progress(), time.Now(), time.Now().Add(6*time.Second)
		for !allDone() {
			time.Sleep(2 * time.Millisecond)
			if p := progress(); p != last {
				last, lastAt = p, time.Now()
				continue
			}
			if time.Since(lastAt) > 300*time.Millisecond {
				if pk := verifC14Parked(seen); len(pk) > 0 || time.Now().After(hardStop) {
					roundParked = pk
					hang = true
					break
				}
				lastAt = time.Now()
			}
		}
		if hang {
			parkedAll = append(parkedAll, roundParked...)
			for _, c := range clients {
				select {
				case <-c.done:
				default:
					at, _ := c.opAt.Load().(string)
					h := map[string]any{"client": c.idx, "op": at, "sess": "", "round": round, "goid": atomic.LoadInt64(&c.goid)}
					if c.cur != nil {
						h["sess"] = c.cur.name
						h["clean"] = atomic.LoadInt32(&c.cur.clean)
						c.cur.vs.dead = true // nobody will run this session's cleanUp to the end: keep the World's shutdown from waiting for it
						if r, ok := c.cur.curReq.Load().(string); ok {
							h["req"] = r
						}
					}
					hungClients = append(hungClients, h)
				}
			}
		}
		chaos.Wait()
		// the readers of sessions whose write loop has gone notice the closed socket
		{
			for _, c := range clients {
				select {
				case <-c.done:
				default:
					continue // this client's reader is stuck inside the server
				}
				if cs := c.cur; cs != nil && cs.term() == "" {
					// let a released writer reach its queue-limit check
					if cs == victim {
						select {
						case <-cs.vs.done:
						case <-time.After(200 * time.Millisecond):
						}
					}
					if cs.writerDone() {
						sweepTerminate(c, cs)
					}
				}
			}
		}
		syncSess()
		qerr := w.quiesce()
		for tries := 0; tries < 4; tries++ {
			// evictions (account deletion) may have closed more sockets meanwhile: their readers run cleanUp
			again := false
			for _, c := range clients {
				select {
				case <-c.done:
				default:
					continue
				}
				if cs := c.cur; cs != nil && cs.term() == "" && cs.writerDone() {
					sweepTerminate(c, cs)
					again = true
				}
			}
			if !again {
				break
			}
			qerr = w.quiesce()
		}
		sn := map[string]any{"round": round, "quiesced": qerr == nil, "plan": plan}
		if qerr == nil {
			sn["st"] = cw.snapshot()
		} else {
			hang = true
			sn["st"] = map[string]any{"sess": map[string]any{}, "topics": map[string]any{}, "rows": map[string]any{}, "registry": []string{}}
			sn["qerr"] = qerr.Error()
			sn["why"] = cw.whyNotQuiet()
		}
		fired := false
		if faultMethod != "" {
			w.hookMu.Lock()
			fired = w.fault != nil && w.fault.fired
			w.fault = nil
			w.callLog = nil
			w.hookMu.Unlock()
			sn["faultFired"] = fired
		}
		snaps = append(snaps, sn)
		if fired && qerr == nil && !hang {
			// ---- after the failed request the topic must still be usable: a quiet probe (one request at a time)
			psn, phang := cw.probeAfterFault(round, plan, probeTopic, clients, probeClient, &hungClients, &parkedAll, seen)
			snaps = append(snaps, psn...)
			hang = hang || phang
			if strings.HasPrefix(fmt.Sprint(plan["stage"]), "fault_p2p") {
				bricked["p12"] = true
			}
		}
	}
	// ---- the end: every client that is still connected disconnects (one after the other), inside the recorded history:
	// a session whose in-flight slot was never released shows up HERE, with its name, not as an anonymous goroutine
	// left behind by the World's shutdown
	for _, cs := range cw.sess {
		if cs.term() == "" {
			cs.add(verifC14Event{"e": "mark", "round": rounds + 1})
		}
	}
	for _, c := range clients {
		if c.done == nil {
			continue
		}
		select {
		case <-c.done:
		default:
			continue // its reader is stuck inside the server (already recorded)
		}
		if cs := c.cur; cs != nil && cs.term() == "" && !cs.vs.dead {
			if !cw.guardedTerminate(c, cs, "final_disconnect", "final:cleanUp", rounds+1, &hungClients, &parkedAll, seen) {
				hang = true
			}
		}
	}
	syncSess()
	if qerr := w.quiesce(); qerr == nil {
		snaps = append(snaps, map[string]any{"round": rounds + 1, "quiesced": true, "plan": map[string]any{"stage": "final_disconnect"}, "final": true, "st": cw.snapshot()})
	} else if !hang {
		snaps = append(snaps, map[string]any{"round": rounds + 1, "quiesced": false, "plan": map[string]any{"stage": "final_disconnect"}, "final": true,
			"st": map[string]any{"sess": map[string]any{}, "topics": map[string]any{}, "rows": map[string]any{}, "registry": []string{}},
			"qerr": qerr.Error(), "why": cw.whyNotQuiet()})
	}
	parked := append(parkedAll, verifC14Parked(seen)...)
	if parked == nil {
		parked = []map[string]any{}
	}
	// histories
	hist := map[string]any{}
	for _, cs := range cw.sess {
		cs.mu.Lock()
		evs := make([]verifC14Event, len(cs.ev))
		copy(evs, cs.ev)
		cs.mu.Unlock()
		sort.Slice(evs, func(i, j int) bool { return evs[i]["seq"].(int64) < evs[j]["seq"].(int64) })
		hist[cs.name] = map[string]any{"user": cs.user, "client": cs.client, "term": cs.term(), "clean": atomic.LoadInt32(&cs.clean), "ev": evs, "wdone": cs.writerDone()}
	}
	rec["hist"], rec["snaps"], rec["parked"], rec["hung"] = hist, snaps, parked, hungClients
	rec["hungCleanups"] = verifHungCleanups
	w.close()
	return rec, hang
}

func TestVerifC14E2(t *testing.T) {
	outp := os.Getenv("VERIF_OUT")
	if outp == "" {
		t.Skip("VERIF_OUT not set")
	}
	seed, _ := strconv.ParseInt(os.Getenv("VERIF_SEED"), 10, 64)
	runs, _ := strconv.Atoi(os.Getenv("VERIF_C14_RUNS"))
	if runs == 0 {
		runs = 50
	}
	rounds, _ := strconv.Atoi(os.Getenv("VERIF_C14_ROUNDS"))
	if rounds == 0 {
		rounds = 3
	}
	opsPer, _ := strconv.Atoi(os.Getenv("VERIF_C14_OPS"))
	if opsPer == 0 {
		opsPer = 8
	}
	budget, _ := strconv.Atoi(os.Getenv("VERIF_C14_BUDGET_MS"))
	fout, err := os.Create(outp)
	if err != nil {
		t.Fatal(err)
	}
	defer fout.Close()
	bw := bufio.NewWriterSize(fout, 1<<20)
	defer bw.Flush()
	enc := json.NewEncoder(bw)
	seen := map[int]bool{}
	start := time.Now()
	done, setupErrs, hangs := 0, 0, 0
	first, _ := strconv.Atoi(os.Getenv("VERIF_C14_FIRST")) // replay a range of Worlds: runs first..runs (world seed = VERIF_SEED*1000003 + run)
	if first < 1 {
		first = 1
	}
	for run := first; run <= runs; run++ {
		if budget > 0 && time.Since(start) > time.Duration(budget)*time.Millisecond {
			break
		}
		rec, hang := verifC14Run(t, run, seed*1000003+int64(run), rounds, opsPer, seen)
		if os.Getenv("VERIF_C14_SELFTEST") == "1" && run == 1 {
			verifC14Corrupt(rec)
		}
		if e, _ := rec["err"].(string); e != "" {
			setupErrs++
			t.Logf("run %d: setup problem: %s", run, e)
			if setupErrs > 3 {
				t.Fatalf("too many setup problems")
			}
			continue
		}
		if err := enc.Encode(rec); err != nil {
			t.Fatal(err)
		}
		bw.Flush() // a later crash of the server code must not lose the completed runs
		done++
		if hang {
			hangs++ // the stuck goroutines stay parked for good (their world is gone); they are not reported again
		}
	}
	bw.Flush()
	fmt.Printf("VERIF_C14_DONE runs=%d hangs=%d elapsed_ms=%d\n", done, hangs, time.Since(start).Milliseconds())
}

// verifC14Corrupt (self-test of the binding only, VERIF_C14_SELFTEST=1): in the first run it attaches an unknown session to a
// topic of the last snapshot (monitor NoGhostSession must fire) and rewrites the code of one {sub} reply to 299 (binding: reply_class).
func verifC14Corrupt(rec map[string]any) {
	if snaps, ok := rec["snaps"].([]map[string]any); ok {
		for i := len(snaps) - 1; i >= 0; i-- {
			st, _ := snaps[i]["st"].(map[string]any)
			tps, _ := st["topics"].(map[string]any)
			names := make([]string, 0, len(tps))
			for n := range tps {
				names = append(names, n)
			}
			sort.Strings(names)
			done := false
			for _, n := range names {
				tp := tps[n].(map[string]any)
				if tp["active"] == true {
					tp["att"] = append(append([]string{}, tp["att"].([]string)...), "?")
					done = true
					break
				}
			}
			if done {
				break
			}
		}
	}
	hist, _ := rec["hist"].(map[string]any)
	names := make([]string, 0, len(hist))
	for n := range hist {
		names = append(names, n)
	}
	sort.Strings(names)
	for _, n := range names {
		h := hist[n].(map[string]any)
		evs := h["ev"].([]verifC14Event)
		for _, e := range evs {
			if e["e"] != "ctrl" || e["id"] == "" {
				continue
			}
			for _, r := range evs {
				if r["e"] == "req" && r["id"] == e["id"] && r["k"] == "sub" {
					e["code"] = 299
					return
				}
			}
		}
	}
}
