package main

// Verification harness (overlay) for C15 — video/voice call life cycle.
// Extends the World driver (registries in zz_verif_replay_test.go); it only RECORDS:
//   action  C15Note{s,t,seq,event,payload?}   = {note what=call} with an optional payload (offer/answer/ice-candidate carry one)
//   action  C15Timeout{t}                     = the REAL callEstablishmentTimer of the topic is made to expire (only while it is armed:
//                                               a call is being established), and the step lasts until the timer's case of Topic.run has run
//   record  rec["c15"] = {configured, calls:{<p2p topic>:{active,seq,parties,orig,origUid,accepted,content,armed}}, pay:[{s,event,payload}]}
//           (armed = the topic's callEstablishmentTimer is pending)
// The call slot is read from the topic actor's own fields AFTER quiescence (the runner quiesces before every record).

import (
	"encoding/json"
	"os"
	"sort"
	"strings"
	"time"
)

// payloads seen in {info what=call} frames of the current step (filled by C15Note, consumed by the record hook)
var verifC15Pay []map[string]any

func verifC15SessName(w *verifWorld, sid string) string {
	for n, vs := range w.sess {
		if vs.s != nil && vs.s.sid == sid {
			return n
		}
	}
	// a closed session whose abstract name has been taken over by a reconnect: the World's session ids end in "_<name>"
	if i := strings.LastIndex(sid, "_"); i >= 0 && strings.HasPrefix(sid, "vs") {
		return sid[i+1:]
	}
	return "?" + sid
}

func init() {
	verifExtraActions["C15Note"] = func(r *verifRunner, a map[string]any) (string, error) {
		w := r.w
		vs := w.sess[verifStr(a, "s")]
		if vs == nil || vs.dead {
			return "", nil
		}
		note := map[string]any{"topic": w.addr(vs, verifStr(a, "t"), false), "what": "call"}
		if n, ok := verifInt(a, "seq"); ok {
			note["seq"] = n
		}
		if ev := verifStr(a, "event"); ev != "" {
			note["event"] = ev
		}
		if p := verifStr(a, "payload"); p != "" {
			note["payload"] = map[string]any{"sdp": p}
		}
		if err := w.send(vs, map[string]any{"note": note}, false); err != nil {
			return "", err
		}
		// peek (not take) at the frames of this step: which sessions saw which payload
		verifC15Pay = nil
		names := make([]string, 0, len(w.sess))
		for n := range w.sess {
			names = append(names, n)
		}
		sort.Strings(names)
		for _, n := range names {
			x := w.sess[n]
			x.mu.Lock()
			for _, f := range x.frames {
				if m, ok := f["info"].(map[string]any); ok && m["what"] == "call" {
					p := ""
					if pm, ok := m["payload"].(map[string]any); ok {
						p, _ = pm["sdp"].(string)
					} else if m["payload"] != nil {
						b, _ := json.Marshal(m["payload"])
						p = string(b)
					}
					ev, _ := m["event"].(string)
					verifC15Pay = append(verifC15Pay, map[string]any{"s": n, "event": ev, "payload": p})
				}
			}
			x.mu.Unlock()
		}
		return "", nil
	}

	// The shared CallTimeout step resets the timer and quiesces after a fixed 200us; a timer expiry is invisible to the quiescence
	// probes, so on a loaded machine the expiry could land in the NEXT step. Here the step waits (bounded) until the expiry has been
	// handled: the slot is read only at quiescence.
	verifExtraActions["C15Timeout"] = func(r *verifRunner, a map[string]any) (string, error) {
		w := r.w
		tp := w.hub.topicGet(w.canon(verifStr(a, "t")))
		if tp == nil || tp.isInactive() || tp.currentCall == nil || !tp.currentCall.acceptedAt.IsZero() {
			// no call, or the call was accepted: the code has stopped the timer (calls.go:313,381), it cannot expire
			return "", w.quiesce()
		}
		seq := tp.currentCall.seq
		// Only a timer the SERVER has armed can expire: Stop reports whether it was still pending. A timer the code has
		// stopped (or never started) is left alone - the call then stays as it is and the monitors judge that.
		if !tp.callEstablishmentTimer.Stop() {
			return "", w.quiesce()
		}
		tp.callEstablishmentTimer.Reset(time.Nanosecond)
		deadline := time.Now().Add(2 * time.Second)
		for {
			time.Sleep(200 * time.Microsecond)
			if err := w.quiesce(); err != nil {
				return "", err
			}
			if cc := tp.currentCall; cc == nil || cc.seq != seq || time.Now().After(deadline) {
				return "", nil
			}
		}
	}

	verifExtraRecord = append(verifExtraRecord, func(r *verifRunner, rec map[string]any) {
		w := r.w
		calls := map[string]any{}
		for _, tn := range r.b.Cfg.Topics {
			if !strings.HasPrefix(tn, "p") {
				continue
			}
			c := map[string]any{"loaded": false, "active": false, "seq": 0, "parties": []string{}, "orig": "", "origUid": "", "accepted": false, "content": "", "armed": false}
			if tp := w.hub.topicGet(w.canon(tn)); tp != nil && !tp.isInactive() {
				c["loaded"] = true
				// Is the establishment timer pending? Stop reports it; a pending timer is started again with the configured
				// duration (the world is quiescent: the topic actor is parked in its select).
				if tp.callEstablishmentTimer.Stop() {
					c["armed"] = true
					d := time.Duration(globals.callEstablishmentTimeout) * time.Second
					if d <= 0 {
						d = 30 * time.Second
					}
					tp.callEstablishmentTimer.Reset(d)
				}
				if cc := tp.currentCall; cc != nil {
					parties := []string{}
					orig, origUid := "", ""
					for sid, p := range cc.parties {
						n := verifC15SessName(w, sid)
						parties = append(parties, n)
						if p.isOriginator {
							orig, origUid = n, w.absUser(p.uid.UserId())
						}
					}
					sort.Strings(parties)
					content, _ := cc.content.(string)
					c["active"], c["seq"], c["parties"], c["orig"], c["origUid"] = true, cc.seq, parties, orig, origUid
					c["accepted"] = !cc.acceptedAt.IsZero()
					c["content"] = content
				}
			}
			calls[tn] = c
		}
		pay := verifC15Pay
		verifC15Pay = nil
		if pay == nil {
			pay = []map[string]any{}
		}
		out := map[string]any{"configured": len(globals.iceServers) > 0, "timeout": globals.callEstablishmentTimeout, "calls": calls, "pay": pay}

		// Self-test of the binding (never set by tools/props/c15.py in normal runs):
		//  1 = pretend a relayed call event also reached the third user's session s5 (a property-level monitor must fire)
		//  2 = flip the recorded `accepted` bit of the call slot (a divergence must be reported)
		switch os.Getenv("VERIF_C15_SELFTEST") {
		case "1":
			if fr, ok := rec["frames"].(map[string]any); ok {
				for s, l := range fr {
					if s == "s5" {
						continue
					}
					for _, f := range l.([]map[string]any) {
						if f["k"] == "info" && f["what"] == "call" && f["event"] != "hang-up" {
							if l5, ok := fr["s5"].([]map[string]any); ok {
								fr["s5"] = append(l5, f)
							}
						}
					}
				}
			}
		case "2":
			for _, c := range calls {
				cm := c.(map[string]any)
				if cm["active"] == true {
					cm["accepted"] = !(cm["accepted"].(bool))
				}
			}
		}
		rec["c15"] = out
	})
}
