package main

// Verification harness (overlay): C19 recorders.  Go only RECORDS what the real code returns; the verdict
// is computed by TLC (spec/Monitor_C19.tla).  Real functions driven here:
//   parseSearchQuery, rewriteTag (through it, with the real e-mail / phone validators and the real basic
//   authenticator), normalizeTags, filterRestrictedTags, restrictedTagsEqual, Topic.replySetTags and the
//   `fnd` branch of Topic.replyGetSub (store.Users / store.Topics replaced by recording stubs, as
//   topic_test.go does with its mocks).
//
// The basic authenticator is a process-wide singleton that can be initialised once, so the parent test
// re-executes the test binary once per value of its add_to_tags setting (real Init, no field poking).
// Text is shipped as arrays of Unicode code points (TLC cannot index strings).

import (
	"bufio"
	"encoding/json"
	"io"
	"log"
	"math/rand"
	"os"
	"os/exec"
	"sort"
	"strconv"
	"strings"
	"testing"
	"time"

	"github.com/tinode/chat/server/auth"
	"github.com/tinode/chat/server/logs"
	"github.com/tinode/chat/server/store"
	"github.com/tinode/chat/server/store/types"
)

type verifC19Cfg struct {
	Email bool `json:"email"`
	Tel   bool `json:"tel"`
	Basic bool `json:"basic"`
	Login bool `json:"login"`
}

type verifC19Res struct {
	Cfg verifC19Cfg `json:"cfg"`
	Err string      `json:"err"`
	Req [][][]int   `json:"req"`
	Opt [][]int     `json:"opt"`
}

func verifC19CP(s string) []int {
	out := []int{}
	for _, r := range s {
		out = append(out, int(r))
	}
	return out
}

func verifC19CPs(ss []string) [][]int {
	out := [][]int{}
	for _, s := range ss {
		out = append(out, verifC19CP(s))
	}
	return out
}

func verifC19ErrClass(err error) string {
	if err == nil {
		return ""
	}
	m := err.Error()
	switch {
	case strings.HasPrefix(m, "missing operator"):
		return "glued"
	case strings.HasPrefix(m, "invalid operator sequence"):
		return "doubled_comma"
	case strings.HasPrefix(m, "unterminated quoted string"):
		return "unterminated"
	}
	return "other"
}

// verifC19Apply configures the process the way main() would for the given configuration: validators listed in
// globals.validators with their add_to_tags flag (main.go:503).  The basic authenticator was initialised at
// process start with add_to_tags = cfg.Basic.
func verifC19Apply(cfg verifC19Cfg) {
	globals.validators = map[string]credValidator{
		"email": {requiredAuthLvl: []auth.Level{auth.LevelAuth}, addToTags: cfg.Email},
		"tel":   {requiredAuthLvl: []auth.Level{auth.LevelAuth}, addToTags: cfg.Tel},
	}
}

func verifC19Parse(q string, cfg verifC19Cfg) verifC19Res {
	verifC19Apply(cfg)
	req, opt, err := parseSearchQuery(q, "US", cfg.Login)
	r := verifC19Res{Cfg: cfg, Err: verifC19ErrClass(err), Req: [][][]int{}, Opt: verifC19CPs(opt)}
	for _, g := range req {
		r.Req = append(r.Req, verifC19CPs(g))
	}
	return r
}

// all strings of length <= n over alpha, shortest first
func verifC19All(alpha []rune, n int, f func(string)) {
	f("")
	level := [][]rune{{}}
	for l := 1; l <= n; l++ {
		var next [][]rune
		for _, p := range level {
			for _, c := range alpha {
				s := append(append([]rune{}, p...), c)
				f(string(s))
				if l < n {
					next = append(next, s)
				}
			}
		}
		level = next
	}
}

type verifC19Users struct {
	store.UsersPersistenceInterface
	findCalled bool
	req        [][]string
	opt        []string
	activeOnly bool
	updCalled  bool
	updTags    []string
}

func (u *verifC19Users) FindSubs(id types.Uid, required [][]string, optional []string, activeOnly bool) ([]types.Subscription, error) {
	u.findCalled, u.req, u.opt, u.activeOnly = true, required, optional, activeOnly
	return nil, nil
}

func (u *verifC19Users) Update(uid types.Uid, update map[string]interface{}) error {
	u.updCalled = true
	if t, ok := update["Tags"].(types.StringSlice); ok {
		u.updTags = append([]string{}, t...)
	} else if t, ok := update["Tags"].([]string); ok {
		u.updTags = append([]string{}, t...)
	}
	return nil
}

type verifC19Topics struct {
	store.TopicsPersistenceInterface
	u *verifC19Users
}

func (tt *verifC19Topics) Update(topic string, update map[string]interface{}) error {
	return tt.u.Update(types.ZeroUid, update)
}

// verifC19Acct is the store behind the credential / tag histories: one account with its tag list and its validated
// credentials.  UpdateTags mirrors the SQL adapters (db/postgres/adapter.go:1153-1211, db/mysql/adapter.go:1303-1355):
// the set is rewritten and the remaining rows are read back with `var allTags []string` + append, so an EMPTY list
// comes back as a nil slice (the reference adapter harness/server/db/memadp does the same).
type verifC19Acct struct {
	store.UsersPersistenceInterface
	tags    []string
	creds   map[string]bool
	created bool
	nextUid int
}

func (a *verifC19Acct) Create(user *types.User, private interface{}) (*types.User, error) {
	a.nextUid++
	user.SetUid(types.Uid(9000 + a.nextUid))
	user.InitTimes()
	a.created = true
	a.tags = append([]string(nil), user.Tags...)
	return user, nil
}

func (a *verifC19Acct) Delete(id types.Uid, hard bool) error {
	a.created, a.tags = false, nil
	return nil
}

func (a *verifC19Acct) GetAuthUniqueRecord(scheme, unique string) (types.Uid, auth.Level, []byte, time.Time, error) {
	return types.ZeroUid, auth.LevelNone, nil, time.Time{}, nil
}

func (a *verifC19Acct) AddAuthRecord(uid types.Uid, authLvl auth.Level, scheme, unique string, secret []byte, expires time.Time) error {
	return nil
}

// verifC19GrpStore: the topics table behind a group topic created by initTopicNewGrp (same tag list object)
type verifC19GrpStore struct {
	store.TopicsPersistenceInterface
	a *verifC19Acct
}

func (g *verifC19GrpStore) Create(topic *types.Topic, owner types.Uid, private interface{}) error {
	g.a.created = true
	g.a.tags = append([]string(nil), topic.Tags...)
	return nil
}

func (g *verifC19GrpStore) Update(topic string, update map[string]interface{}) error {
	return g.a.Update(types.ZeroUid, update)
}

func (a *verifC19Acct) DelCred(id types.Uid, method, value string) error {
	if !a.creds[method+":"+value] {
		return types.ErrNotFound
	}
	delete(a.creds, method+":"+value)
	return nil
}

func (a *verifC19Acct) GetAllCreds(id types.Uid, method string, validatedOnly bool) ([]types.Credential, error) {
	var out []types.Credential
	for k := range a.creds {
		if m, v, _ := strings.Cut(k, ":"); method == "" || m == method {
			out = append(out, types.Credential{User: id.String(), Method: m, Value: v, Done: true})
		}
	}
	return out, nil
}

func (a *verifC19Acct) UpdateTags(uid types.Uid, add, remove, reset []string) ([]string, error) {
	idx := map[string]bool{}
	if reset != nil {
		add, remove = reset, nil
	} else {
		for _, x := range a.tags {
			idx[x] = true
		}
	}
	for _, x := range add {
		idx[x] = true
	}
	for _, x := range remove {
		delete(idx, x)
	}
	keys := make([]string, 0, len(idx))
	for x := range idx {
		keys = append(keys, x)
	}
	sort.Strings(keys)
	var allTags []string
	for _, x := range keys {
		allTags = append(allTags, x)
	}
	a.tags = append([]string(nil), allTags...)
	return allTags, nil
}

func (a *verifC19Acct) Update(uid types.Uid, update map[string]interface{}) error {
	if t, ok := update["Tags"].(types.StringSlice); ok {
		a.tags = append([]string(nil), t...)
	} else if t, ok := update["Tags"].([]string); ok {
		a.tags = append([]string(nil), t...)
	}
	return nil
}

func verifC19NsMap(ns []string) map[string]bool {
	m := map[string]bool{}
	for _, n := range ns {
		m[n] = true
	}
	return m
}

func verifC19Subsets(v []string, max int) [][]string {
	out := [][]string{{}}
	for i := range v {
		out = append(out, []string{v[i]})
	}
	if max >= 2 {
		for i := range v {
			for j := i + 1; j < len(v); j++ {
				out = append(out, []string{v[i], v[j]})
			}
		}
	}
	return out
}

func TestVerifC19Record(t *testing.T) {
	outPath := os.Getenv("VERIF_OUT")
	if outPath == "" {
		t.Skip("VERIF_OUT not set")
	}
	out, err := os.Create(outPath)
	if err != nil {
		t.Fatal(err)
	}
	defer out.Close()
	for _, basic := range []string{"1", "0"} {
		part := outPath + ".basic" + basic
		cmd := exec.Command(os.Args[0], "-test.run", "^TestVerifC19Child$", "-test.timeout", "1200s")
		cmd.Env = append(os.Environ(), "VERIF_C19_BASIC="+basic, "VERIF_C19_PART="+part)
		if b, err := cmd.CombinedOutput(); err != nil {
			t.Fatalf("child basic=%s failed: %v\n%s", basic, err, string(b))
		}
		fh, err := os.Open(part)
		if err != nil {
			t.Fatal(err)
		}
		if _, err := io.Copy(out, fh); err != nil {
			t.Fatal(err)
		}
		fh.Close()
		os.Remove(part)
	}
}

func TestVerifC19Child(t *testing.T) {
	part := os.Getenv("VERIF_C19_PART")
	if part == "" {
		t.Skip("not a child run")
	}
	basic := os.Getenv("VERIF_C19_BASIC") == "1"
	geti := func(k string, def int) int {
		if v, err := strconv.Atoi(os.Getenv(k)); err == nil {
			return v
		}
		return def
	}
	seed, _ := strconv.ParseInt(os.Getenv("VERIF_SEED"), 10, 64)
	rng := rand.New(rand.NewSource(seed*7919 + 19))
	selftest := os.Getenv("VERIF_C19_SELFTEST")
	n1, n4, n2 := geti("VERIF_C19_L1", 4), geti("VERIF_C19_L4", 6), geti("VERIF_C19_L2", 4)
	l3stride, l3rand, l5rand := geti("VERIF_C19_L3STRIDE", 5), geti("VERIF_C19_L3RAND", 500), geti("VERIF_C19_RAND", 2000)
	tagStride, walks := geti("VERIF_C19_TAGSTRIDE", 3), geti("VERIF_C19_WALKS", 30)

	logs.Info = log.New(io.Discard, "", 0)
	logs.Warn = log.New(io.Discard, "", 0)
	logs.Err = log.New(io.Discard, "", 0)

	// the REAL basic authenticator, initialised the way main() does (main.go:450)
	conf := `{"add_to_tags": false}`
	if basic {
		conf = `{"add_to_tags": true}`
	}
	if err := store.Store.GetAuthHandler("basic").Init(json.RawMessage(conf), "basic"); err != nil {
		t.Fatal(err)
	}
	if store.Store.GetValidator("email") == nil || store.Store.GetValidator("tel") == nil {
		t.Fatal("validators not registered")
	}
	savedVal, savedImm, savedMsk, savedMax, savedHub := globals.validators, globals.immutableTagNS, globals.maskedTagNS, globals.maxTagCount, globals.hub
	savedU, savedT := store.Users, store.Topics
	defer func() {
		globals.validators, globals.immutableTagNS, globals.maskedTagNS, globals.maxTagCount, globals.hub = savedVal, savedImm, savedMsk, savedMax, savedHub
		store.Users, store.Topics = savedU, savedT
	}()

	fh, err := os.Create(part)
	if err != nil {
		t.Fatal(err)
	}
	defer fh.Close()
	w := bufio.NewWriterSize(fh, 1<<20)
	defer w.Flush()
	enc := json.NewEncoder(w)
	nrec := 0
	emit := func(v map[string]any) {
		nrec++
		if err := enc.Encode(v); err != nil {
			t.Fatal(err)
		}
	}

	mk := func(email, tel, login bool) verifC19Cfg {
		return verifC19Cfg{Email: email, Tel: tel, Basic: basic, Login: login}
	}
	emitParse := func(dom, q string, cfgs []verifC19Cfg) {
		res := []verifC19Res{}
		for _, c := range cfgs {
			res = append(res, verifC19Parse(q, c))
		}
		if selftest == "parse" && nrec%97 == 5 {
			res[0].Err = ""
			res[0].Req = append(res[0].Req, [][]int{{122, 122}})
		}
		emit(map[string]any{"op": "parse", "dom": dom, "q": verifC19CP(q), "res": res})
	}

	// ---- L1: every string over the 9-symbol alphabet of DESIGN.md (B instead of b: lower-casing)
	a9 := []rune{'a', 'B', '1', ' ', '\t', ',', '"', ':', 'é'}
	cfgL1 := []verifC19Cfg{mk(true, true, true), mk(false, false, false)}
	if basic {
		cfgL1 = []verifC19Cfg{mk(true, true, true), mk(true, true, false)}
	}
	l1 := n1
	if !basic {
		l1 = n1 - 1
	}
	verifC19All(a9, l1, func(q string) { emitParse("L1", q, cfgL1) })

	// ---- L4: long strings over the 4 symbols that drive the automaton (tokenisation does not depend on the configuration)
	if basic {
		verifC19All([]rune{'a', ' ', ',', '"'}, n4, func(q string) {
			if len([]rune(q)) > l1 {
				emitParse("L4", q, cfgL1[:1])
			}
		})
	}

	// ---- L2: every string over an alphabet in which e-mail addresses can be spelled
	e8 := []rune{'a', '@', '.', '1', '%', ',', ' ', '"'}
	cfgL2 := []verifC19Cfg{mk(true, false, false), mk(false, true, true), mk(false, false, false)}
	if basic {
		cfgL2 = []verifC19Cfg{mk(true, true, true), mk(false, false, true), mk(true, false, false)}
	}
	l2 := n2
	if !basic {
		l2 = n2 - 1
	}
	verifC19All(e8, l2, func(q string) { emitParse("L2", q, cfgL2) })

	// ---- L3: queries composed of realistic terms, all 8 configurations of this process
	var cfgAll []verifC19Cfg
	for i := 0; i < 8; i++ {
		cfgAll = append(cfgAll, mk(i&1 != 0, i&2 != 0, i&4 != 0))
	}
	atoms := []string{"alice", "Alice", "alice@example.com", "Al@Example.com", "o'brien@example.com", "+14155551212", "4155551212",
		"email:alice@example.com", "basic:alice", "tel:+14155551212", "new_york", "a", "rest:x", "x%y", "a.b", "é1"}
	var forms []string
	for _, a := range atoms {
		forms = append(forms, a, `"`+a+`"`)
	}
	forms = append(forms, `"new york"`, `"a,b"`, `""`)
	seps := []string{" ", ",", ", ", " ,", "\t", " , ", "  "}
	// multi-byte runes immediately before a comma / a space / a quote / the end (byte offsets vs rune counts)
	for _, q := range []string{"éa,b", "é,b", "é b", "aé,b é", "münchen flat,house", "MÜNCHEN,Flat house", "flat,münchen", "ü,ü ü", "日本 語,x", "日,本",
		"x 日本語", `"日本",語`, `"é",b`, `"münchen" flat`, `é"b`, `"é"b c`, "éé,,b", "日本,, 語", " é,b ", "\té\t,\tb", "é1,1é ü1", "basic:日本,email:ü@é.de", "ü@é.de,x"} {
		emitParse("L3", q, cfgAll)
	}
	for _, f := range forms {
		emitParse("L3", f, cfgAll)
		emitParse("L3", ","+f, cfgAll[7:])
		emitParse("L3", f+" ,", cfgAll[7:])
	}
	k := int(seed) % l3stride
	for _, f := range forms {
		for _, s := range seps {
			for _, g := range forms {
				k++
				if k%l3stride == 0 {
					emitParse("L3", f+s+g, cfgAll)
				}
			}
		}
	}
	for i := 0; i < l3rand; i++ {
		n := 3 + rng.Intn(3)
		q := forms[rng.Intn(len(forms))]
		for j := 1; j < n; j++ {
			q += seps[rng.Intn(len(seps))] + forms[rng.Intn(len(forms))]
		}
		emitParse("L3", q, []verifC19Cfg{cfgAll[rng.Intn(8)], cfgAll[rng.Intn(8)]})
	}

	// ---- L5: seeded random strings over the whole modelled universe (digits: only 1, so no phone number arises)
	uni := []rune{'a', 'b', 'B', '1', 'é', 'É', ' ', ' ', '\t', ',', ',', '"', '"', ':', '@', '.', '_', '+', '%', '\''}
	for i := 0; i < l5rand; i++ {
		n := 6 + rng.Intn(9)
		rs := make([]rune, n)
		for j := range rs {
			rs[j] = uni[rng.Intn(len(uni))]
		}
		c1, c2 := cfgAll[rng.Intn(8)], cfgAll[rng.Intn(8)]
		// libphonenumber reads long letter/digit runs as vanity numbers (111a1aa11a1aa = +1 212 211 2122); the model
		// tabulates phone numbers, so the phone validator is only switched on when no run can be one
		run, longest := 0, 0
		for _, r := range rs {
			if r == ' ' || r == '\t' || r == ',' {
				run = 0
			} else if run++; run > longest {
				longest = run
			}
		}
		if longest >= 9 {
			c1.Tel, c2.Tel = false, false
		}
		emitParse("L5", string(rs), []verifC19Cfg{c1, c2})
	}

	// ---- handler level: the fnd branch of the real Topic.replyGetSub
	users := &verifC19Users{}
	store.Users = users
	store.Topics = &verifC19Topics{u: users}
	hub := &Hub{routeSrv: make(chan *ServerComMessage, 64), routeCli: make(chan *ClientComMessage, 4)}
	globals.hub = hub
	drainHub := func() {
		for {
			select {
			case <-hub.routeSrv:
			default:
				return
			}
		}
	}
	sess := &Session{sid: "sidC19", uid: types.Uid(7001), subs: map[string]*Subscription{}, send: make(chan any, 16), countryCode: "US"}
	lastCode := func() int {
		code := 0
		for {
			select {
			case m := <-sess.send:
				if sm, ok := m.(*ServerComMessage); ok && sm.Ctrl != nil {
					code = sm.Ctrl.Code
				}
			default:
				return code
			}
		}
	}
	nsSets := [][]string{{}, {"rest"}, {"email"}, {"rest", "email"}}
	fndTags := [][]string{nil, {"ab"}, {"email:a@c.d"}, {"email:o'b@c.d"}, {"rest:x"}, {"email:a@c.d", "rest:x"}, {"rest:x", "rest:y"}}
	fndQueries := []string{"ab", "rest:x", "rest:y ab", "o'b@c.d", "a@c.d", "email:a@c.d", "email:a@c.d,rest:x", `"a`, "", "rest:x,rest:x",
		"AB REST:X", `a "b"`, `"a"b c`, "alice", ",,", `"a b"`, "rest:y,ab rest:x"}
	lvls := []auth.Level{auth.LevelAnon, auth.LevelAuth, auth.LevelRoot}
	lvlName := map[auth.Level]string{auth.LevelAnon: "anon", auth.LevelAuth: "auth", auth.LevelRoot: "root"}
	k = int(seed)
	for _, tags := range fndTags {
		for _, q := range fndQueries {
			for _, msk := range nsSets {
				for _, lvl := range lvls {
					for _, public := range []bool{true, false} {
						for _, email := range []bool{true, false} {
							k++
							if k%tagStride != 0 {
								continue
							}
							cfg := mk(email, true, public)
							verifC19Apply(cfg)
							globals.maskedTagNS = verifC19NsMap(msk)
							uid := types.Uid(7001)
							ft := &Topic{name: "fndC19", xoriginal: "fnd", cat: types.TopicCatFnd, status: topicStatusLoaded,
								perUser: map[types.Uid]perUserData{}, sessions: map[*Session]perSessionData{},
								tags: append([]string{}, tags...)}
							pud := perUserData{modeWant: types.ModeCSelf, modeGiven: types.ModeCSelf}
							if public {
								ft.fndSetPublic(sess, q)
							} else {
								pud.private = q
							}
							ft.perUser[uid] = pud
							sess.authLvl = lvl
							*users = verifC19Users{}
							msg := &ClientComMessage{Get: &MsgClientGet{Id: "g1", Topic: "fnd", MsgGetQuery: MsgGetQuery{What: "sub"}},
								Id: "g1", Original: "fnd", RcptTo: "fndC19", AsUser: uid.UserId(), AuthLvl: int(lvl), Timestamp: time.Now(), sess: sess}
							herr := ft.replyGetSub(sess, uid, lvl, false, msg)
							rec := map[string]any{"op": "fnd", "tags": verifC19CPs(tags), "q": verifC19CP(q), "cfg": cfg, "msk": verifC19CPs(msk),
								"lvl": lvlName[lvl], "called": users.findCalled, "activeOnly": users.activeOnly, "code": lastCode(),
								"herr": herr != nil, "opt": verifC19CPs(users.opt)}
							req := [][][]int{}
							for _, g := range users.req {
								req = append(req, verifC19CPs(g))
							}
							rec["req"] = req
							if selftest == "fnd" && users.findCalled && lvl == auth.LevelAuth {
								rec["activeOnly"] = false
							}
							emit(rec)
						}
					}
				}
			}
		}
	}

	if !basic {
		t.Logf("C19 child basic=%v wrote %d records", basic, nrec)
		return
	}

	// ---- tag lists: the real normalizeTags
	l96 := strings.Repeat("z", 96)
	rawVocab := []string{"ab", " Ab ", "AB", "a", "", "  ", "_ab", "1a", "é1", "É1", "-x", "rest:x", "REST:X", "email:o'b@c.d",
		"ab\t", "a b", nullValue, l96, l96 + "z", " " + l96 + " "}
	emitNorm := func(raw []string, isNil bool, max int) {
		globals.maxTagCount = max
		var in []string
		if !isNil {
			in = append([]string{}, raw...)
		}
		res := normalizeTags(in)
		emit(map[string]any{"op": "normalize", "raw": verifC19CPs(raw), "rawNil": isNil, "max": max,
			"out": verifC19CPs(res), "outNil": res == nil})
	}
	for _, max := range []int{2, 16} {
		emitNorm(nil, true, max)
		emitNorm([]string{}, false, max)
		for _, a := range rawVocab {
			emitNorm([]string{a}, false, max)
			for _, b := range rawVocab {
				emitNorm([]string{a, b}, false, max)
			}
		}
	}
	k = int(seed)
	for _, a := range rawVocab {
		for _, b := range rawVocab {
			for _, c := range rawVocab {
				k++
				if k%(tagStride*4) == 0 {
					emitNorm([]string{a, b, c}, false, 2+14*(k/(tagStride*4)%2))
				}
			}
		}
	}
	// the count limit with many distinct tags
	for _, max := range []int{2, 3, 16} {
		var many []string
		for i := 0; i < 20; i++ {
			many = append(many, "t"+strconv.Itoa(100-i))
		}
		emitNorm(many, false, max)
	}

	// ---- reserved namespaces: the real filterRestrictedTags / restrictedTagsEqual
	tagVocab := []string{"ab", "rest:x", "rest:y", "rest:o'b", "email:a@c.d", "email:o'brien@example.com", "restx:y", "r:x", "email:x%y@c.d"}
	lists := verifC19Subsets(tagVocab, 2)
	k = int(seed)
	for _, old := range lists {
		for _, nw := range lists {
			for _, ns := range nsSets {
				k++
				if k%tagStride != 0 {
					continue
				}
				m := verifC19NsMap(ns)
				o, n := append([]string{}, old...), append([]string{}, nw...)
				eq := restrictedTagsEqual(o, n, m)
				if selftest == "tags" && nrec%53 == 7 {
					eq = !eq
				}
				emit(map[string]any{"op": "restricted", "old": verifC19CPs(old), "new": verifC19CPs(nw), "ns": verifC19CPs(ns), "eq": eq,
					"fold": verifC19CPs(filterRestrictedTags(old, m)), "fnew": verifC19CPs(filterRestrictedTags(nw, m))})
			}
		}
	}

	// ---- handler level: the real Topic.replySetTags, single steps and seeded walks (with server-side additions in between)
	owner, other := types.Uid(7001), types.Uid(7002)
	setRaw := []string{"ab", " Ab ", "a", "_ab", "rest:x", "REST:Y", "rest:o'b", "email:a@c.d", "email:o'brien@example.com", nullValue, "cd"}
	step := func(tp *Topic, as types.Uid, raw []string, isNil bool, imm []string, max int, walk int) {
		globals.immutableTagNS = verifC19NsMap(imm)
		globals.maxTagCount = max
		pre := append([]string{}, tp.tags...)
		var in []string
		if !isNil {
			in = append([]string{}, raw...)
		}
		*users = verifC19Users{}
		msg := &ClientComMessage{Set: &MsgClientSet{Id: "s1", Topic: tp.xoriginal, MsgSetQuery: MsgSetQuery{Tags: in}},
			Id: "s1", Original: tp.xoriginal, RcptTo: tp.name, AsUser: as.UserId(), AuthLvl: int(auth.LevelAuth), Timestamp: time.Now(), sess: sess}
		herr := tp.replySetTags(sess, as, msg)
		drainHub()
		cat := "me"
		if tp.cat == types.TopicCatGrp {
			cat = "grp"
		}
		emit(map[string]any{"op": "settags", "cat": cat, "owner": as == owner, "pre": verifC19CPs(pre), "raw": verifC19CPs(raw), "rawNil": isNil,
			"imm": verifC19CPs(imm), "max": max, "code": lastCode(), "herr": herr != nil, "post": verifC19CPs(tp.tags),
			"stored": users.updCalled, "storedTags": verifC19CPs(users.updTags), "walk": walk})
	}
	newTopic := func(grp bool, tags []string) *Topic {
		tp := &Topic{name: "usr" + owner.String(), xoriginal: "me", cat: types.TopicCatMe, status: topicStatusLoaded,
			perUser: map[types.Uid]perUserData{}, sessions: map[*Session]perSessionData{}, tags: append([]string{}, tags...)}
		if grp {
			tp.name, tp.xoriginal, tp.cat, tp.owner = "grpVerifC19", "grpVerifC19", types.TopicCatGrp, owner
		}
		tp.perUser[owner] = perUserData{modeWant: types.ModeCFull, modeGiven: types.ModeCFull}
		return tp
	}
	preLists := verifC19Subsets([]string{"ab", "rest:x", "rest:o'b", "email:a@c.d", "email:o'brien@example.com", "cd"}, 2)
	rawLists := [][]string{}
	for _, a := range setRaw {
		rawLists = append(rawLists, []string{a})
		for _, b := range setRaw {
			rawLists = append(rawLists, []string{a, b})
		}
	}
	k = int(seed)
	for _, pre := range preLists {
		sort.Strings(pre)
		for _, imm := range nsSets {
			step(newTopic(false, pre), owner, nil, true, imm, 16, 0)
			step(newTopic(true, pre), other, []string{"zz"}, false, imm, 16, 0)
			for _, raw := range rawLists {
				k++
				if k%(tagStride*2) != 0 {
					continue
				}
				step(newTopic(k%4 < 2, pre), owner, raw, false, imm, 16, 0)
			}
		}
	}
	serverTags := []string{"rest:x", "rest:o'b", "email:a@c.d", "email:o'brien@example.com"}
	for wk := 1; wk <= walks; wk++ {
		imm := nsSets[rng.Intn(len(nsSets))]
		max := []int{2, 3, 16}[rng.Intn(3)]
		tp := newTopic(wk%2 == 0, nil)
		for i := 0; i < 25; i++ {
			if rng.Intn(4) == 0 {
				// what store.Users.UpdateTags does for a validated credential (user.go:381,458): the server adds the tag
				st := serverTags[rng.Intn(len(serverTags))]
				have := false
				for _, x := range tp.tags {
					have = have || x == st
				}
				if !have {
					tp.tags = append(tp.tags, st)
					sort.Strings(tp.tags)
				}
				continue
			}
			n := rng.Intn(4)
			raw := []string{}
			// mostly keep what is there and add / drop one
			for _, x := range tp.tags {
				if rng.Intn(5) != 0 {
					raw = append(raw, x)
				}
			}
			for j := 0; j < n; j++ {
				raw = append(raw, setRaw[rng.Intn(len(setRaw))])
			}
			rng.Shuffle(len(raw), func(a, b int) { raw[a], raw[b] = raw[b], raw[a] })
			step(tp, owner, raw, false, imm, max, wk)
		}
	}
	// ---- histories on a live `me` topic through the REAL Topic.handleMeta: {set tags} (replySetTags) and
	// {del what=cred} (replyDelCred -> deleteCred -> real validator.Remove -> store.Users.DelCred / UpdateTags),
	// interleaved with server-side credential validation (simulated: what replySetCred does with the list returned by
	// UpdateTags, topic.go:2951).  After every step: reply code, the STORED tags and the topic's cached t.tags.
	hwalks := geti("VERIF_C19_HWALKS", 40)
	savedAV := globals.authValidators
	globals.authValidators = nil // no credential is *required*: deleteCred goes straight to vld.Remove
	defer func() { globals.authValidators = savedAV }()
	immSets := [][]string{{}, {"rest"}, {"email"}, {"email", "tel"}, {"rest", "email", "tel"}, {"email", "tel"}}
	credVocab := [][2]string{{"email", "a@c.d"}, {"email", "o'brien@example.com"}, {"tel", "+14155551212"}}
	cp := func(x []string) []string { return append([]string{}, x...) }
	var acct *verifC19Acct
	var tp *Topic
	var hImm []string
	var hMax, hWalk, hStep int
	hStart := func(walk int, imm []string, max int, emailIdx bool) {
		hWalk, hStep, hImm, hMax = walk, 0, imm, max
		globals.validators = map[string]credValidator{
			"email": {requiredAuthLvl: []auth.Level{auth.LevelAuth}, addToTags: emailIdx},
			"tel":   {requiredAuthLvl: []auth.Level{auth.LevelAuth}, addToTags: true},
		}
		globals.immutableTagNS = verifC19NsMap(imm)
		globals.maxTagCount = max
		acct = &verifC19Acct{creds: map[string]bool{}}
		store.Users = acct
		tp = newTopic(false, nil)
	}
	hRec := func(kind string) map[string]any {
		hStep++
		return map[string]any{"op": "hist", "walk": hWalk, "step": hStep, "kind": kind, "imm": verifC19CPs(hImm), "max": hMax,
			"raw": [][]int{}, "rawNil": false, "cred": []int{}, "hadCred": false, "indexed": false,
			"storedPre": verifC19CPs(acct.tags), "cachePre": verifC19CPs(tp.tags), "code": 0}
	}
	hEnd := func(rec map[string]any) {
		rec["storedPost"], rec["cachePost"] = verifC19CPs(acct.tags), verifC19CPs(tp.tags)
		emit(rec)
	}
	// a credential is validated: user.go:381,458 add the tag in the store, replySetCred (topic.go:2951) takes the returned list
	hAdd := func(c [2]string) {
		tag := c[0] + ":" + c[1]
		if acct.creds[tag] {
			return
		}
		rec := hRec("serveradd")
		acct.creds[tag] = true
		if globals.validators[c[0]].addToTags {
			if utags, err := acct.UpdateTags(owner, []string{tag}, nil, nil); err == nil && utags != nil {
				tp.tags = utags
			}
		}
		rec["cred"], rec["indexed"] = verifC19CP(tag), globals.validators[c[0]].addToTags
		hEnd(rec)
	}
	// {del what=cred} through the real handleMeta -> replyDelCred -> deleteCred -> validator.Remove / UpdateTags
	hDel := func(c [2]string) bool {
		tag := c[0] + ":" + c[1]
		rec := hRec("delcred")
		had := acct.creds[tag]
		cachePre := cp(tp.tags)
		rec["cred"], rec["hadCred"], rec["indexed"] = verifC19CP(tag), had, globals.validators[c[0]].addToTags
		msg := &ClientComMessage{Del: &MsgClientDel{Id: "d1", Topic: tp.xoriginal, What: "cred", Cred: &MsgCredClient{Method: c[0], Value: c[1]}},
			Id: "d1", Original: tp.xoriginal, RcptTo: tp.name, AsUser: owner.UserId(), AuthLvl: int(auth.LevelAuth), MetaWhat: constMsgDelCred,
			Timestamp: time.Now(), sess: sess}
		tp.handleMeta(msg)
		drainHub()
		rec["code"] = lastCode()
		if selftest == "stalecache" {
			tp.tags = cachePre // simulates a replyDelCred that forgets to refresh the cache (never set in normal runs)
		}
		hEnd(rec)
		return had && !acct.creds[tag]
	}
	// {set tags} through the real handleMeta -> replySetTags
	hSet := func(raw []string) {
		rec := hRec("set")
		rec["raw"] = verifC19CPs(raw)
		msg := &ClientComMessage{Set: &MsgClientSet{Id: "s2", Topic: tp.xoriginal, MsgSetQuery: MsgSetQuery{Tags: cp(raw)}},
			Id: "s2", Original: tp.xoriginal, RcptTo: tp.name, AsUser: owner.UserId(), AuthLvl: int(auth.LevelAuth), MetaWhat: constMsgMetaTags,
			Timestamp: time.Now(), sess: sess}
		tp.handleMeta(msg)
		drainHub()
		rec["code"] = lastCode()
		hEnd(rec)
	}

	// scripted: credential tag present -> {del cred} -> {set tags}, with / without other tags, re-adding the old reserved tag or not
	hw := 0
	for _, imm := range immSets {
		for _, c := range credVocab {
			for _, other := range [][]string{{}, {"ab"}, {"ab", "rest:x"}} {
				for _, second := range []bool{false, true} {
					for _, readd := range []bool{true, false} {
						hw++
						hStart(100000+hw, imm, 16, true)
						if second {
							hAdd(credVocab[(hw+1)%len(credVocab)])
						}
						hAdd(c)
						if len(other) > 0 {
							hSet(append(cp(tp.tags), other...))
						}
						old := cp(tp.tags)
						hDel(c)
						if readd {
							hSet(append(old, "cd")) // the old reserved tag + an ordinary change
							hSet(append(cp(acct.tags), "cd"))
						} else {
							hSet(append(cp(acct.tags), "cd")) // honest: what is left + an ordinary change
							hSet(append(old, "ef"))
						}
					}
				}
			}
		}
	}
	// seeded walks
	for wk := 1; wk <= hwalks; wk++ {
		hStart(wk, immSets[rng.Intn(len(immSets))], []int{3, 16}[rng.Intn(2)], rng.Intn(5) != 0)
		lastDeleted := ""
		for i := 0; i < 30; i++ {
			switch r := rng.Intn(10); {
			case r < 3:
				hAdd(credVocab[rng.Intn(len(credVocab))])
			case r < 6:
				c := credVocab[rng.Intn(len(credVocab))]
				if hDel(c) {
					lastDeleted = c[0] + ":" + c[1]
				}
			default:
				raw := []string{}
				switch m := rng.Intn(4); {
				case m == 0 && lastDeleted != "":
					raw = append(cp(tp.tags), lastDeleted, []string{"cd", "ab"}[rng.Intn(2)])
				case m == 1:
					raw = append(cp(acct.tags), []string{"cd", "ab", " Ab "}[rng.Intn(3)])
				default:
					for _, x := range tp.tags {
						if rng.Intn(5) != 0 {
							raw = append(raw, x)
						}
					}
					for j := rng.Intn(3); j > 0; j-- {
						raw = append(raw, setRaw[rng.Intn(len(setRaw))])
					}
				}
				rng.Shuffle(len(raw), func(a, b int) { raw[a], raw[b] = raw[b], raw[a] })
				hSet(raw)
			}
		}
	}
	// ---- tags given at CREATION time, through the real initTopicNewGrp ({sub topic="new"|"nch" set.tags}) and the real
	// replyCreateUser ({acc user="new" tags}; anonymous scheme, and the real basic authenticator for a few), under
	// configurations whose immutable and masked namespace sets differ; then {set tags} on the created object.
	crStride := geti("VERIF_C19_CRSTRIDE", 3)
	crCfgs := [][2][]string{
		{{"basic", "email", "tel"}, {"rest"}},
		{{"rest"}, {"basic", "email", "tel"}},
		{{"basic", "email", "tel", "rest"}, {"basic", "email", "tel", "rest"}},
		{{}, {"rest"}},
	}
	crVocab := []string{"ab", " Ab ", "AB", "a", "_ab", "geo:x", "rest:x", "REST:Y", "basic:alice", "email:a@c.d", "Email:A@c.d",
		"tel:+14155551212", "email:o'brien@example.com", nullValue, "münchen", "日本"}
	crLists := [][]string{nil, {}}
	for _, a := range crVocab {
		crLists = append(crLists, []string{a})
	}
	for _, a := range crVocab {
		for _, b := range crVocab {
			crLists = append(crLists, []string{a, b})
		}
	}
	for i := 0; i < 150; i++ {
		crLists = append(crLists, []string{crVocab[rng.Intn(len(crVocab))], crVocab[rng.Intn(len(crVocab))], crVocab[rng.Intn(len(crVocab))]})
	}
	savedTopics := store.Topics
	crWalk := 200000
	create := func(kind, scheme, login string, raw []string, imm, msk []string, max int) bool {
		crWalk++
		globals.immutableTagNS, globals.maskedTagNS, globals.maxTagCount = verifC19NsMap(imm), verifC19NsMap(msk), max
		if selftest == "create" {
			globals.immutableTagNS = map[string]bool{} // simulates a creation path that forgets the reserved-namespace check (never set in normal runs)
		}
		verifC19Apply(verifC19Cfg{Email: true, Tel: true, Basic: basic, Login: true})
		acct = &verifC19Acct{creds: map[string]bool{}}
		store.Users = acct
		store.Topics = &verifC19GrpStore{a: acct}
		hWalk, hStep, hImm, hMax = crWalk, 0, imm, max
		var in []string
		if raw != nil {
			in = cp(raw)
		}
		rec := map[string]any{"op": "create", "kind": kind, "scheme": scheme, "imm": verifC19CPs(imm), "msk": verifC19CPs(msk), "max": max,
			"raw": verifC19CPs(raw), "rawNil": raw == nil, "walk": crWalk, "serverTags": [][]int{}, "cache": [][]int{}, "code": 0}
		ok := false
		if kind == "acc" {
			s2 := &Session{sid: "sidC19acc", subs: map[string]*Subscription{}, send: make(chan any, 16), countryCode: "US", lang: "en", remoteAddr: "127.0.0.1"}
			acc := &MsgClientAcc{Id: "a1", User: "new", Scheme: scheme, Tags: in}
			if scheme == "basic" {
				acc.Secret = []byte(login + ":secret123")
				rec["serverTags"] = verifC19CPs([]string{"basic:" + login})
			}
			msg := &ClientComMessage{Acc: acc, Id: "a1", Timestamp: time.Now(), sess: s2}
			replyCreateUser(s2, msg, nil)
			code := 0
			for len(s2.send) > 0 {
				if sm, isMsg := (<-s2.send).(*ServerComMessage); isMsg && sm.Ctrl != nil {
					code = sm.Ctrl.Code
				}
			}
			rec["code"] = code
			ok = code >= 200 && code < 300
			if ok {
				// the account's `me` topic loads the stored tags (init_topic.go:154)
				tp = newTopic(false, acct.tags)
			}
		} else {
			name := "grpVerifC19n" + strconv.Itoa(crWalk)
			tp = &Topic{name: name, xoriginal: map[string]string{"grp": "new", "chn": "nch"}[kind] + "C19", status: topicStatusLoaded,
				perUser: map[types.Uid]perUserData{}, sessions: map[*Session]perSessionData{}}
			sreg := &ClientComMessage{Sub: &MsgClientSub{Id: "n1", Topic: tp.xoriginal, Set: &MsgSetQuery{Tags: in}},
				Id: "n1", Original: tp.xoriginal, RcptTo: name, AsUser: owner.UserId(), AuthLvl: int(auth.LevelAuth), Timestamp: time.Now(), sess: sess}
			err := initTopicNewGrp(tp, sreg, kind == "chn")
			ok = err == nil
			if err == types.ErrPermissionDenied {
				rec["code"] = 403
			} else if err != nil {
				rec["code"] = 500
			} else {
				rec["code"] = 200
				rec["cache"] = verifC19CPs(tp.tags)
			}
		}
		rec["ok"], rec["created"], rec["stored"] = ok, acct.created, verifC19CPs(acct.tags)
		globals.immutableTagNS = verifC19NsMap(imm)
		emit(rec)
		return ok
	}
	follow := func(imm []string) {
		// {set tags} on the created object: an honest change, then a tag of each immutable namespace, then a clean-up
		hSet(append(cp(acct.tags), "cd"))
		for _, ns := range imm {
			hSet(append(cp(acct.tags), ns+":zz"))
		}
		hSet(append(cp(acct.tags), "Geo:Y", " cd "))
		hSet([]string{nullValue})
	}
	k = int(seed)
	for ci, cc := range crCfgs {
		for li, raw := range crLists {
			for ki, kind := range []string{"grp", "chn", "acc"} {
				// every list with one kind (rotating) in the quick tier, with all three in thorough
				if len(raw) >= 2 && (li+ki+int(seed))%crStride != 0 {
					continue
				}
				max := 16
				if len(raw) == 3 && li%2 == 0 {
					max = 2
				}
				if create(kind, map[string]string{"grp": "", "chn": "", "acc": "anonymous"}[kind], "", raw, cc[0], cc[1], max) && (li+ci+ki)%4 == 0 {
					follow(cc[0])
				}
			}
		}
		// the real basic authenticator: the server itself adds basic:<login> when it indexes logins
		for _, raw := range [][]string{nil, {"ab"}, {"basic:alice"}, {"basic:bob", "ab"}, {"email:a@c.d"}, {"rest:x", "geo:x"}} {
			if create("acc", "basic", "alice", raw, cc[0], cc[1], 16) {
				follow(cc[0])
			}
		}
	}
	store.Topics = savedTopics
	t.Logf("C19 child basic=%v wrote %d records", basic, nrec)
}
