package main

// Verification harness (overlay, never written to /repo): C20, session-side topic names and the
// JSON <-> protobuf message converters.
//
// TestVerifC20Names   real Session.expandTopicName / topicNameForUser over pairs of ids and names.
// TestVerifC20Msgs    for every message SHAPE enumerated by TLC from spec/MsgShapes.tla (VERIF_IN) the same
//                     request is decoded through the JSON path of a session (json.Unmarshal into ClientComMessage)
//                     and through the gRPC path (pbx.ClientMsg on the wire -> pbCliDeserialize); the same reply is
//                     rendered as JSON (json.Marshal, Session.serialize) and as protobuf (pbServSerialize, wire).
//                     Both results are projected field by field into normalised texts; TLC (Monitor_C20) compares.
// The recorder only records.  Normalisation = what carries the same meaning is written the same way:
// absent == zero value; timestamps as RFC3339 text of the instant; any-typed payloads as canonical JSON;
// []byte as base64; enums as the JSON word; auth levels through the real auth.ParseAuthLevel.

import (
	"bufio"
	"bytes"
	"encoding/base64"
	"encoding/hex"
	"encoding/json"
	"fmt"
	"io"
	"math/rand"
	"os"
	"sort"
	"strconv"
	"strings"
	"testing"
	"time"

	"google.golang.org/protobuf/proto"
	"google.golang.org/protobuf/reflect/protoreflect"

	"github.com/tinode/chat/pbx"
	"github.com/tinode/chat/server/auth"
	"github.com/tinode/chat/server/logs"
	"github.com/tinode/chat/server/store/types"
)

func verifC20Chars(s string) []string {
	out := []string{}
	for _, r := range s {
		out = append(out, string(r))
	}
	return out
}

func verifC20Bytes(u types.Uid) []int {
	out := make([]int, 8)
	for i := 0; i < 8; i++ {
		out[i] = int((uint64(u) >> (8 * uint(i))) & 0xff)
	}
	return out
}

func verifC20Open(t *testing.T) (func(map[string]any), func()) {
	outPath := os.Getenv("VERIF_OUT")
	if outPath == "" {
		t.Skip("VERIF_OUT not set")
	}
	fh, err := os.Create(outPath)
	if err != nil {
		t.Fatal(err)
	}
	w := bufio.NewWriterSize(fh, 1<<20)
	enc := json.NewEncoder(w)
	enc.SetEscapeHTML(false)
	emit := func(r map[string]any) {
		if err := enc.Encode(r); err != nil {
			t.Fatal(err)
		}
	}
	return emit, func() { w.Flush(); fh.Close() }
}

// ------------------------------------------------------------------------------------------------ names

func TestVerifC20Names(t *testing.T) {
	emit, done := verifC20Open(t)
	defer done()
	logs.Init(io.Discard, "stdFlags")
	defer logs.Init(os.Stderr, "stdFlags")
	seed, _ := strconv.ParseInt(os.Getenv("VERIF_SEED"), 10, 64)
	rng := rand.New(rand.NewSource(seed*104729 + 20))
	nPairs, _ := strconv.Atoi(os.Getenv("VERIF_C20_PAIRS"))
	if nPairs == 0 {
		nPairs = 300
	}
	selftest := os.Getenv("VERIF_C20_SELFTEST")
	sess := &Session{sid: "verifC20"}

	expand := func(asUser, original string) map[string]any {
		msg := &ClientComMessage{Original: original, AsUser: asUser, Id: "1"}
		to, resp := sess.expandTopicName(msg)
		code := 0
		if resp != nil && resp.Ctrl != nil {
			code = resp.Ctrl.Code
		}
		return map[string]any{"ok": resp == nil, "to": verifC20Chars(to), "code": code}
	}
	nameFor := func(name string, uid types.Uid, isChan bool) (res []string) {
		defer func() {
			if r := recover(); r != nil {
				res = []string{"!panic"}
			}
		}()
		return verifC20Chars(topicNameForUser(name, uid, isChan))
	}

	small := []types.Uid{0, 1, 2, 255, 256, 1 << 32, 1<<63 - 1, 1 << 63, ^types.Uid(0), 0x0123456789ABCDEF, 0xFEDCBA9876543210, 0xFF00000000000000}
	type pair struct{ a, b types.Uid }
	pairs := []pair{}
	for _, a := range small {
		for _, b := range small {
			pairs = append(pairs, pair{a, b})
		}
	}
	for i := 0; i < nPairs; i++ {
		a, b := types.Uid(rng.Uint64()), types.Uid(rng.Uint64())
		if i%4 == 0 {
			b = a ^ (types.Uid(1) << uint(rng.Intn(64)))
		}
		pairs = append(pairs, pair{a, b})
	}
	for k, p := range pairs {
		ua, ub := p.a.UserId(), p.b.UserId()
		ab := p.a.P2PName(p.b)
		rec := map[string]any{"op": "sess_p2p", "a": verifC20Bytes(p.a), "b": verifC20Bytes(p.b),
			"ua": verifC20Chars(ua), "ub": verifC20Chars(ub), "ab": verifC20Chars(ab),
			"expA": expand(ua, ub), "expB": expand(ub, ua), "expFull": expand(ua, ab)}
		seenA, seenB := []string{}, []string{}
		rtA, rtB := map[string]any{"ok": false, "to": []string{}, "code": 0}, map[string]any{"ok": false, "to": []string{}, "code": 0}
		if ab != "" {
			seenA, seenB = nameFor(ab, p.a, false), nameFor(ab, p.b, false)
			rtA, rtB = expand(ua, strings.Join(seenA, "")), expand(ub, strings.Join(seenB, ""))
		}
		if selftest == "names" && k == 20 {
			seenA = verifC20Chars(ua)
		}
		rec["seenA"], rec["seenB"], rec["rtA"], rec["rtB"] = seenA, seenB, rtA, rtB
		if p.a != 0 {
			rec["me"] = expand(ua, "me")
			rec["fnd"] = expand(ua, "fnd")
			rec["meSeen"] = nameFor(ua, p.a, false)
			rec["fndSeen"] = nameFor(p.a.FndName(), p.a, false)
		}
		emit(rec)
	}

	asUid := types.Uid(0x1122334455667788)
	as := asUid.UserId()
	bodies := []string{"", "A", "grp", "chn", "grpgrp", "xgrpx", "chngrp", "grpchn", "AbCdEf123-_", types.Uid(77).String(), "GRP"}
	for i := 0; i < 6; i++ {
		bodies = append(bodies, types.Uid(rng.Uint64()).String())
	}
	names := []string{"", "me", "fnd", "sys", "new", "nch", "newabc", "nchabc", "GRPabc", "CHNabc", "xyz", "gr", "usr", "usrBAD", "usr" + types.Uid(9).String()[:10],
		"USR" + types.Uid(9).String(), "usr" + types.Uid(9).String()[:10] + "B", as, "p2p", "p2pXYZ"}
	for _, b := range bodies {
		names = append(names, "grp"+b, "chn"+b)
	}
	for _, s := range names {
		rec := map[string]any{"op": "sess_name", "s": verifC20Chars(s), "as": verifC20Chars(as), "exp": expand(as, s),
			"tn": nameFor(s, asUid, false), "tnChan": nameFor(s, asUid, true)}
		rec["expOfChan"] = expand(as, strings.Join(rec["tnChan"].([]string), ""))
		emit(rec)
	}
}

// ------------------------------------------------------------------------------------------------ messages

type verifC20Node struct {
	P   []string   `json:"p"`
	Pb  []string   `json:"pb"`
	Cls string     `json:"cls"`
	Sel bool       `json:"sel"`
	Req bool       `json:"req"`
	Ev  [][]string `json:"ev"`
}

type verifC20In struct {
	Op      string         `json:"op"`
	Dir     string         `json:"dir"`
	Kind    string         `json:"kind"`
	Nodes   []verifC20Node `json:"nodes"`
	PbOnly  [][]string     `json:"pbonly"`
	Present []int          `json:"present"`
}

type verifC20Schema struct {
	dir, kind string
	nodes     []verifC20Node
	byP       map[string]*verifC20Node // JSON path with every index written as 0
	byPb      map[string]*verifC20Node
	pbonly    map[string]bool
}

func verifC20IsIdx(s string) bool {
	_, err := strconv.Atoi(s)
	return err == nil
}

func verifC20Norm(path []string) string {
	out := make([]string, len(path))
	for i, s := range path {
		if verifC20IsIdx(s) {
			out[i] = "0"
		} else {
			out[i] = s
		}
	}
	return strings.Join(out, ".")
}

func (sc *verifC20Schema) lookupP(path []string) *verifC20Node {
	if n, ok := sc.byP[strings.Join(path, ".")]; ok {
		return n
	}
	return sc.byP[verifC20Norm(path)]
}

func (sc *verifC20Schema) lookupPb(path []string) *verifC20Node {
	if n, ok := sc.byPb[strings.Join(path, ".")]; ok {
		return n
	}
	return sc.byPb[verifC20Norm(path)]
}

var verifC20Times = []int64{1577934245678, 1577934245000, 1, 999, 4102444800123, 1700000000500}
var verifC20Ints = []int{1, 42, 2147483647, 65536}
var verifC20Blobs = [][]byte{[]byte("secret"), {0, 255, 16, 32}, []byte("basic:pa\xc3\xa9ss"), {1}}
var verifC20Jsons = []string{
	`"plain text"`,
	`{"fn":"Alice","photo":{"type":"png","data":"AAEC"},"n":[1,2.5,{"x":null}]}`,
	`42`,
	`[1,"two",{"three":3}]`,
	`true`,
	`"␡"`,
	`{"txt":"hi there","fmt":[{"at":0,"len":2,"tp":"ST"}],"ent":[{"tp":"LN","data":{"url":"https://x.y/?a=1&b=2"}}]}`,
	`1.5e3`,
}
var verifC20Maps = []string{
	`{"mime":"text/x-drafty","replace":":12","n":3,"nested":{"a":[1,2]}}`,
	`{"webrtc":"started","aonly":true}`,
	`{"forwarded":"grpAbCd:17"}`,
}
var verifC20Lists = [][]string{{"tag1", "email:alice@example.com"}, {"é", "tel:+17025550001", "x"}, {"single"}}

func verifC20TimeText(ms int64) string {
	b, _ := json.Marshal(time.UnixMilli(ms).UTC())
	return string(b)
}

// canonical JSON text of a generic value (maps sorted, numbers as Go prints float64 / json.Number)
func verifC20Canon(v any) string {
	var buf bytes.Buffer
	enc := json.NewEncoder(&buf)
	enc.SetEscapeHTML(false)
	if err := enc.Encode(v); err != nil {
		return "!unmarshalable"
	}
	return strings.TrimRight(buf.String(), "\n")
}

func verifC20ParseAny(b []byte) (any, error) {
	var v any
	err := json.Unmarshal(b, &v)
	return v, err
}

func verifC20IsAuthLevel(n *verifC20Node) bool {
	return n.Cls == "enum" && n.P[len(n.P)-1] == "authlevel"
}

// literal for a present leaf: the value for the JSON tree, the value for the protobuf field, the expected projection
func verifC20Lit(n *verifC20Node, salt int) (any, any, string) {
	last := n.P[len(n.P)-1]
	switch n.Cls {
	case "str":
		s := "s" + strconv.Itoa(salt%97) + "_" + last
		if salt%5 == 0 {
			s += " \"é"
		}
		return s, s, verifC20Canon(s)
	case "bool":
		return true, true, "true"
	case "int":
		v := verifC20Ints[salt%len(verifC20Ints)]
		return v, int64(v), strconv.Itoa(v)
	case "time":
		ms := verifC20Times[salt%len(verifC20Times)]
		txt := verifC20TimeText(ms)
		var s string
		json.Unmarshal([]byte(txt), &s)
		return s, ms, txt
	case "bytes":
		b := verifC20Blobs[salt%len(verifC20Blobs)]
		s := base64.StdEncoding.EncodeToString(b)
		return s, b, verifC20Canon(s)
	case "json":
		lit := verifC20Jsons[salt%len(verifC20Jsons)]
		dec := json.NewDecoder(strings.NewReader(lit))
		dec.UseNumber()
		var tree any
		dec.Decode(&tree)
		v, _ := verifC20ParseAny([]byte(lit))
		return tree, []byte(lit), verifC20Canon(v)
	case "jsonmap":
		lit := verifC20Maps[salt%len(verifC20Maps)]
		v, _ := verifC20ParseAny([]byte(lit))
		pbm := map[string][]byte{}
		for k, x := range v.(map[string]any) {
			pbm[k] = []byte(verifC20Canon(x))
		}
		return v, pbm, verifC20Canon(v)
	case "strlist":
		l := verifC20Lists[salt%len(verifC20Lists)]
		arr := make([]any, len(l))
		for i := range l {
			arr[i] = l[i]
		}
		return arr, l, verifC20Canon(arr)
	case "enum":
		e := n.Ev[salt%len(n.Ev)]
		want := verifC20Canon(e[0])
		if verifC20IsAuthLevel(n) {
			want = verifC20Canon(auth.ParseAuthLevel(e[0]).String())
		}
		return e[0], e[1], want
	}
	panic("verifC20Lit: class " + n.Cls)
}

// set a value into a generic JSON tree; numeric segments index arrays
func verifC20SetTree(root map[string]any, path []string, val any) {
	var cur any = root
	for i, seg := range path {
		last := i == len(path)-1
		switch c := cur.(type) {
		case map[string]any:
			if last {
				if val != nil {
					c[seg] = val
				} else if _, ok := c[seg]; !ok {
					c[seg] = map[string]any{}
				}
				return
			}
			nxt, ok := c[seg]
			if !ok {
				if verifC20IsIdx(path[i+1]) {
					nxt = &[]any{}
				} else {
					nxt = map[string]any{}
				}
				c[seg] = nxt
			}
			cur = nxt
		case *[]any:
			idx, _ := strconv.Atoi(seg)
			for len(*c) <= idx {
				*c = append(*c, map[string]any{})
			}
			if last {
				return
			}
			cur = (*c)[idx]
		default:
			panic(fmt.Sprintf("verifC20SetTree: %v at %d", path, i))
		}
	}
}

// set a field of a protobuf message by its path of proto field names
func verifC20SetPb(root protoreflect.Message, path []string, val any) error {
	cur := root
	i := 0
	for i < len(path) {
		fd := cur.Descriptor().Fields().ByName(protoreflect.Name(path[i]))
		if fd == nil {
			return fmt.Errorf("no protobuf field %v in %s", path[:i+1], cur.Descriptor().FullName())
		}
		if fd.IsList() && fd.Kind() == protoreflect.MessageKind {
			lst := cur.Mutable(fd).List()
			if i+1 >= len(path) {
				return nil // the list itself: an empty list does not exist in protobuf
			}
			idx, _ := strconv.Atoi(path[i+1])
			for lst.Len() <= idx {
				lst.AppendMutable()
			}
			cur = lst.Get(idx).Message()
			i += 2
			continue
		}
		if fd.Kind() == protoreflect.MessageKind && !fd.IsMap() {
			cur = cur.Mutable(fd).Message()
			i++
			continue
		}
		if i != len(path)-1 {
			return fmt.Errorf("protobuf path %v continues past a scalar", path)
		}
		switch {
		case fd.IsMap():
			mp := cur.Mutable(fd).Map()
			for k, v := range val.(map[string][]byte) {
				mp.Set(protoreflect.ValueOfString(k).MapKey(), protoreflect.ValueOfBytes(v))
			}
		case fd.IsList():
			l := cur.Mutable(fd).List()
			for _, s := range val.([]string) {
				l.Append(protoreflect.ValueOfString(s))
			}
		default:
			switch fd.Kind() {
			case protoreflect.StringKind:
				cur.Set(fd, protoreflect.ValueOfString(val.(string)))
			case protoreflect.BoolKind:
				cur.Set(fd, protoreflect.ValueOfBool(val.(bool)))
			case protoreflect.Int32Kind:
				cur.Set(fd, protoreflect.ValueOfInt32(int32(val.(int64))))
			case protoreflect.Int64Kind:
				cur.Set(fd, protoreflect.ValueOfInt64(val.(int64)))
			case protoreflect.BytesKind:
				cur.Set(fd, protoreflect.ValueOfBytes(val.([]byte)))
			case protoreflect.EnumKind:
				ev := fd.Enum().Values().ByName(protoreflect.Name(val.(string)))
				if ev == nil {
					return fmt.Errorf("no enum value %v for %v", val, path)
				}
				cur.Set(fd, protoreflect.ValueOfEnum(ev.Number()))
			default:
				return fmt.Errorf("unsupported protobuf kind %v at %v", fd.Kind(), path)
			}
		}
		return nil
	}
	return nil
}

func verifC20Zeroish(txt string) bool {
	switch txt {
	case `""`, "0", "false", "null", "[]", "{}", `"0001-01-01T00:00:00Z"`:
		return true
	}
	return false
}

// field-by-field projection of a JSON text (a rendered ClientComMessage / ServerComMessage)
func verifC20FlattenJSON(sc *verifC20Schema, raw []byte, out map[string]string, unknown *[]string) {
	dec := json.NewDecoder(bytes.NewReader(raw))
	dec.UseNumber()
	var root map[string]any
	if err := dec.Decode(&root); err != nil {
		*unknown = append(*unknown, "!json:"+err.Error())
		return
	}
	var walk func(path []string, v any)
	walk = func(path []string, v any) {
		if v == nil {
			return
		}
		if len(path) == 1 && path[0] == sc.kind {
			for k, x := range v.(map[string]any) {
				walk(append(append([]string{}, path...), k), x)
			}
			return
		}
		n := sc.lookupP(path)
		key := strings.Join(path, ".")
		if n == nil {
			if !verifC20Zeroish(verifC20Canon(v)) {
				*unknown = append(*unknown, "json:"+key)
			}
			return
		}
		switch n.Cls {
		case "obj", "elem":
			m, ok := v.(map[string]any)
			if !ok {
				*unknown = append(*unknown, "json-not-object:"+key)
				return
			}
			out[key] = "{}"
			for k, x := range m {
				walk(append(append([]string{}, path...), k), x)
			}
		case "list":
			arr, ok := v.([]any)
			if !ok {
				*unknown = append(*unknown, "json-not-list:"+key)
				return
			}
			for i, x := range arr {
				walk(append(append([]string{}, path...), strconv.Itoa(i)), x)
			}
		default:
			txt := verifC20Canon(v)
			if n.Cls == "json" || n.Cls == "jsonmap" {
				// canonical form of an any-typed payload: numbers the way Go's float64 prints them
				if g, err := verifC20ParseAny([]byte(txt)); err == nil {
					txt = verifC20Canon(g)
				}
			}
			if verifC20IsAuthLevel(n) {
				if s, ok := v.(string); ok {
					txt = verifC20Canon(auth.ParseAuthLevel(s).String())
				}
			}
			if !verifC20Zeroish(txt) {
				out[key] = txt
			}
		}
	}
	for k, v := range root {
		walk([]string{k}, v)
	}
}

// field-by-field projection of a protobuf message, keyed by the JSON path of the same datum
func verifC20FlattenPb(sc *verifC20Schema, msg protoreflect.Message, out map[string]string, unknown *[]string) {
	jsonPath := func(n *verifC20Node, pbPath []string) string {
		idx := []string{}
		for _, s := range pbPath {
			if verifC20IsIdx(s) {
				idx = append(idx, s)
			}
		}
		res := make([]string, len(n.P))
		k := 0
		for i, s := range n.P {
			if verifC20IsIdx(s) && k < len(idx) {
				res[i] = idx[k]
				k++
			} else {
				res[i] = s
			}
		}
		return strings.Join(res, ".")
	}
	var walk func(m protoreflect.Message, path []string)
	walk = func(m protoreflect.Message, path []string) {
		m.Range(func(fd protoreflect.FieldDescriptor, v protoreflect.Value) bool {
			p := append(append([]string{}, path...), string(fd.Name()))
			if len(p) == 1 && p[0] == sc.kind {
				walk(v.Message(), p)
				return true
			}
			n := sc.lookupPb(p)
			if n == nil && fd.Kind() == protoreflect.MessageKind && !fd.IsMap() && !fd.IsList() {
				walk(v.Message(), p) // structural message without a JSON object of its own
				return true
			}
			if n == nil {
				if sc.pbonly[verifC20Norm(p)] {
					out["(protobuf only)"+strings.Join(p, ".")] = v.String()
				} else {
					*unknown = append(*unknown, "pb:"+strings.Join(p, "."))
				}
				return true
			}
			switch {
			case fd.IsList() && fd.Kind() == protoreflect.MessageKind:
				l := v.List()
				for i := 0; i < l.Len(); i++ {
					ep := append(append([]string{}, p...), strconv.Itoa(i))
					if en := sc.lookupPb(ep); en != nil {
						out[jsonPath(en, ep)] = "{}"
					}
					walk(l.Get(i).Message(), ep)
				}
			case fd.IsMap():
				g := map[string]any{}
				v.Map().Range(func(k protoreflect.MapKey, x protoreflect.Value) bool {
					if val, err := verifC20ParseAny(x.Bytes()); err == nil {
						g[k.String()] = val
					} else {
						g[k.String()] = "!unparseable:" + hex.EncodeToString(x.Bytes())
					}
					return true
				})
				if len(g) > 0 {
					out[jsonPath(n, p)] = verifC20Canon(g)
				}
			case fd.IsList():
				l := v.List()
				arr := []any{}
				for i := 0; i < l.Len(); i++ {
					arr = append(arr, l.Get(i).String())
				}
				if len(arr) > 0 {
					out[jsonPath(n, p)] = verifC20Canon(arr)
				}
			case fd.Kind() == protoreflect.MessageKind:
				out[jsonPath(n, p)] = "{}"
				walk(v.Message(), p)
			default:
				var txt string
				switch fd.Kind() {
				case protoreflect.StringKind:
					txt = verifC20Canon(v.String())
				case protoreflect.BoolKind:
					txt = strconv.FormatBool(v.Bool())
				case protoreflect.Int32Kind, protoreflect.Int64Kind:
					if n.Cls == "time" {
						txt = verifC20TimeText(v.Int())
					} else {
						txt = strconv.FormatInt(v.Int(), 10)
					}
				case protoreflect.BytesKind:
					if n.Cls == "json" {
						if val, err := verifC20ParseAny(v.Bytes()); err == nil {
							txt = verifC20Canon(val)
						} else {
							txt = "!unparseable:" + hex.EncodeToString(v.Bytes())
						}
					} else {
						txt = verifC20Canon(base64.StdEncoding.EncodeToString(v.Bytes()))
					}
				case protoreflect.EnumKind:
					name := string(fd.Enum().Values().ByNumber(v.Enum()).Name())
					txt = "!enum:" + name
					for _, e := range n.Ev {
						if e[1] == name {
							txt = verifC20Canon(e[0])
							if verifC20IsAuthLevel(n) {
								txt = verifC20Canon(auth.ParseAuthLevel(e[0]).String())
							}
						}
					}
				}
				if !verifC20Zeroish(txt) {
					out[jsonPath(n, p)] = txt
				}
			}
			return true
		})
	}
	walk(msg, nil)
}

// every field the protobuf schema defines for this kind is mapped by the spec (or listed as protobuf-only)
func verifC20CheckComplete(t *testing.T, sc *verifC20Schema, root protoreflect.MessageDescriptor) {
	seen := map[string]bool{}
	var walk func(md protoreflect.MessageDescriptor, path []string)
	walk = func(md protoreflect.MessageDescriptor, path []string) {
		fds := md.Fields()
		for i := 0; i < fds.Len(); i++ {
			fd := fds.Get(i)
			p := append(append([]string{}, path...), string(fd.Name()))
			if len(path) == 0 {
				if string(fd.Name()) == sc.kind {
					walk(fd.Message(), p)
					continue
				}
				if fd.ContainingOneof() != nil {
					continue // another kind
				}
			}
			key := strings.Join(p, ".")
			structural := false // a protobuf message with no JSON object of its own (the embedded {get}/{set} query)
			if sc.byPb[key] == nil && fd.Kind() == protoreflect.MessageKind && !fd.IsMap() && !fd.IsList() {
				for k := range sc.byPb {
					structural = structural || strings.HasPrefix(k, key+".")
				}
			}
			if sc.byPb[key] == nil && !sc.pbonly[key] && !structural {
				t.Fatalf("C20 schema (spec/MsgShapes.tla) does not map protobuf field %s of {%s}", key, sc.kind)
			}
			seen[key] = true
			if fd.Kind() == protoreflect.MessageKind && !fd.IsMap() {
				if fd.IsList() {
					p = append(p, "0")
					seen[strings.Join(p, ".")] = true
				}
				if sc.byPb[key] != nil || structural {
					walk(fd.Message(), p)
				}
			}
		}
	}
	walk(root, nil)
	for key := range sc.byPb {
		if !seen[verifC20Norm(strings.Split(key, "."))] {
			t.Fatalf("C20 schema maps %s of {%s} but pbx has no such field", key, sc.kind)
		}
	}
}

func verifC20Diff(a, b map[string]string) []string {
	out := []string{}
	for k, v := range a {
		if b[k] != v {
			out = append(out, k)
		}
	}
	for k := range b {
		if _, ok := a[k]; !ok {
			out = append(out, k)
		}
	}
	sort.Strings(out)
	return out
}

func TestVerifC20Msgs(t *testing.T) {
	inPath := os.Getenv("VERIF_IN")
	if inPath == "" {
		t.Skip("VERIF_IN not set")
	}
	emit, done := verifC20Open(t)
	defer done()
	logs.Init(io.Discard, "stdFlags")
	defer logs.Init(os.Stderr, "stdFlags")
	seed, _ := strconv.ParseInt(os.Getenv("VERIF_SEED"), 10, 64)
	selftest := os.Getenv("VERIF_C20_SELFTEST")

	fin, err := os.Open(inPath)
	if err != nil {
		t.Fatal(err)
	}
	defer fin.Close()
	rd := bufio.NewReaderSize(fin, 1<<20)
	var sc *verifC20Schema
	caseNo := int(seed) * 7
	for {
		line, err := rd.ReadBytes('\n')
		if len(bytes.TrimSpace(line)) > 0 {
			var in verifC20In
			if e := json.Unmarshal(line, &in); e != nil {
				t.Fatal(e)
			}
			switch in.Op {
			case "schema":
				sc = &verifC20Schema{dir: in.Dir, kind: in.Kind, nodes: in.Nodes, byP: map[string]*verifC20Node{},
					byPb: map[string]*verifC20Node{}, pbonly: map[string]bool{}}
				for i := range sc.nodes {
					n := &sc.nodes[i]
					sc.byP[strings.Join(n.P, ".")] = n
					if len(n.Pb) > 0 {
						sc.byPb[strings.Join(n.Pb, ".")] = n
					}
				}
				for _, p := range in.PbOnly {
					sc.pbonly[strings.Join(p, ".")] = true
				}
				if sc.dir == "cli" {
					verifC20CheckComplete(t, sc, (&pbx.ClientMsg{}).ProtoReflect().Descriptor())
				} else {
					verifC20CheckComplete(t, sc, (&pbx.ServerMsg{}).ProtoReflect().Descriptor())
				}
				paths := []string{}
				for _, n := range sc.nodes {
					paths = append(paths, strings.Join(n.P, "."))
				}
				emit(map[string]any{"op": "schema", "dir": sc.dir, "kind": sc.kind, "nodes": paths})
				if sc.dir == "srv" && sc.kind == "ctrl" {
					verifC20Ctors(t, emit, sc)
				}
			case "shape":
				caseNo++
				verifC20Shape(t, emit, sc, in.Present, caseNo, &selftest)
			}
		}
		if err == io.EOF {
			break
		}
		if err != nil {
			t.Fatal(err)
		}
	}
}

func verifC20Shape(t *testing.T, emit func(map[string]any), sc *verifC20Schema, present []int, caseNo int, selftest *string) {
	// present nodes, list elements packed to 0..n-1
	type pnode struct {
		n     *verifC20Node
		p, pb []string
	}
	pn := []pnode{}
	for _, i := range present {
		n := &sc.nodes[i-1]
		pn = append(pn, pnode{n, append([]string{}, n.P...), append([]string{}, n.Pb...)})
	}
	counts := map[string]int{}
	for _, e := range pn {
		if e.n.Cls != "elem" {
			continue
		}
		parent := strings.Join(e.n.P[:len(e.n.P)-1], ".")
		newIdx := strconv.Itoa(counts[parent])
		counts[parent]++
		jpos, ppos := len(e.n.P)-1, len(e.n.Pb)-1
		prefix := strings.Join(e.n.P, ".")
		for k := range pn {
			q := strings.Join(pn[k].n.P, ".")
			if q == prefix || strings.HasPrefix(q, prefix+".") {
				pn[k].p[jpos] = newIdx
				if len(pn[k].pb) > ppos && ppos >= 0 {
					pn[k].pb[ppos] = newIdx
				}
			}
		}
	}

	tree := map[string]any{sc.kind: map[string]any{}}
	var pbRoot protoreflect.Message
	if sc.dir == "cli" {
		pbRoot = (&pbx.ClientMsg{}).ProtoReflect()
		if err := verifC20SetPb(pbRoot, []string{sc.kind}, nil); err != nil {
			t.Fatal(err)
		}
	}
	want := map[string]string{}
	if sc.dir == "cli" {
		want["(decode)"] = `"ok"`
	}
	shape := []string{}
	for k, e := range pn {
		key := strings.Join(e.p, ".")
		shape = append(shape, key)
		switch e.n.Cls {
		case "list":
			continue
		case "obj", "elem":
			verifC20SetTree(tree, e.p, nil)
			want[key] = "{}"
			if pbRoot != nil && len(e.pb) > 0 {
				if err := verifC20SetPb(pbRoot, e.pb, nil); err != nil {
					t.Fatal(err)
				}
			}
		default:
			jv, pv, w := verifC20Lit(e.n, caseNo+k)
			verifC20SetTree(tree, e.p, jv)
			want[key] = w
			if pbRoot != nil && len(e.pb) > 0 {
				if err := verifC20SetPb(pbRoot, e.pb, pv); err != nil {
					t.Fatal(err)
				}
			}
		}
	}
	// *[]any -> []any for marshalling
	var fix func(v any) any
	fix = func(v any) any {
		switch c := v.(type) {
		case map[string]any:
			for k, x := range c {
				c[k] = fix(x)
			}
			return c
		case *[]any:
			arr := *c
			for i := range arr {
				arr[i] = fix(arr[i])
			}
			return arr
		}
		return v
	}
	reqJSON, err := json.Marshal(fix(tree))
	if err != nil {
		t.Fatal(err)
	}

	jf, pf, rf := map[string]string{}, map[string]string{}, map[string]string{}
	unknown := []string{}
	if sc.dir == "cli" {
		// JSON path of a session: dispatchRaw does json.Unmarshal(raw, &msg)
		var j ClientComMessage
		if err := json.Unmarshal(reqJSON, &j); err != nil {
			t.Fatalf("request JSON rejected: %v: %s", err, reqJSON)
		}
		// gRPC path: the message crosses the wire, MessageLoop does pbCliDeserialize(in)
		wire, err := proto.Marshal(pbRoot.Interface())
		if err != nil {
			t.Fatal(err)
		}
		var in pbx.ClientMsg
		if err := proto.Unmarshal(wire, &in); err != nil {
			t.Fatal(err)
		}
		jr, _ := json.Marshal(&j)
		verifC20FlattenJSON(sc, jr, jf, &unknown)
		jf["(decode)"] = `"ok"`
		func() {
			defer func() {
				if r := recover(); r != nil {
					pf = map[string]string{"(decode)": verifC20Canon(fmt.Sprintf("panic: %v", r))}
				}
			}()
			p := pbCliDeserialize(&in)
			pr, _ := json.Marshal(p)
			verifC20FlattenJSON(sc, pr, pf, &unknown)
			pf["(decode)"] = `"ok"`
		}()
		// informational: the plugin direction, ClientComMessage -> pbCliSerialize -> wire -> pbCliDeserialize
		func() {
			defer func() {
				if r := recover(); r != nil {
					rf = map[string]string{"(decode)": verifC20Canon(fmt.Sprintf("panic: %v", r))}
				}
			}()
			if out := pbCliSerialize(&j); out != nil {
				if w2, err := proto.Marshal(out); err == nil {
					var in2 pbx.ClientMsg
					if proto.Unmarshal(w2, &in2) == nil {
						rr, _ := json.Marshal(pbCliDeserialize(&in2))
						verifC20FlattenJSON(sc, rr, rf, &unknown)
						rf["(decode)"] = `"ok"`
					}
				}
			}
		}()
	} else {
		var m ServerComMessage
		if err := json.Unmarshal(reqJSON, &m); err != nil {
			t.Fatalf("reply JSON not constructible: %v: %s", err, reqJSON)
		}
		// JSON rendering of the reply: Session.serialize does json.Marshal(msg)
		jr, _ := json.Marshal(&m)
		// protobuf rendering: pbServSerialize(msg), then the wire
		wire, err := proto.Marshal(pbServSerialize(&m))
		if err != nil {
			t.Fatal(err)
		}
		var got pbx.ServerMsg
		if err := proto.Unmarshal(wire, &got); err != nil {
			t.Fatal(err)
		}
		verifC20FlattenJSON(sc, jr, jf, &unknown)
		verifC20FlattenPb(sc, got.ProtoReflect(), pf, &unknown)
		// informational: what a cluster peer / plugin gets back from pbServDeserialize
		rr, _ := json.Marshal(pbServDeserialize(&got))
		verifC20FlattenJSON(sc, rr, rf, &unknown)
	}
	if len(unknown) > 0 {
		t.Fatalf("C20 schema (spec/MsgShapes.tla) misses fields %v of {%s}: %s", unknown, sc.kind, reqJSON)
	}
	if *selftest == "msgs" && sc.kind == "leave" && pf["leave.topic"] != "" {
		pf["leave.topic"] = pf["leave.topic"] + "x" // self-test of the binding: corrupt one real output
		*selftest = ""
	}

	if pf["(decode)"] != "" && pf["(decode)"] != `"ok"` {
		// the gRPC path did not produce a message at all: that is the one observation, not "every field differs"
		jf = map[string]string{"(decode)": jf["(decode)"]}
		want = map[string]string{"(decode)": want["(decode)"]}
	}
	keys := map[string]bool{}
	for _, m := range []map[string]string{want, jf, pf} {
		for k := range m {
			keys[k] = true
		}
	}
	names := make([]string, 0, len(keys))
	for k := range keys {
		names = append(names, k)
	}
	sort.Strings(names)
	fields := []any{}
	for _, k := range names {
		cls, sel, pbdef := "pbonly", false, true
		if k == "(decode)" {
			cls = "status"
		} else if n := sc.lookupP(strings.Split(k, ".")); n != nil {
			cls, sel, pbdef = n.Cls, n.Sel, len(n.Pb) > 0
		}
		fields = append(fields, map[string]any{"f": k, "cls": cls, "sel": sel, "pbdef": pbdef,
			"want": want[k], "j": jf[k], "p": pf[k]})
	}
	allnodes := []any{}
	for _, e := range pn {
		allnodes = append(allnodes, map[string]any{"f": strings.Join(e.p, "."), "cls": e.n.Cls})
	}
	emit(map[string]any{"op": "msg", "dir": sc.dir, "kind": sc.kind, "shape": shape, "json": string(reqJSON), "allnodes": allnodes,
		"fields": fields, "rt": verifC20Diff(jf, rf)})
}

// {ctrl} replies built by the REAL constructors of datamodel.go with the argument types the real call sites pass
// (topic.go:1655/2669/2712/2811/2907/2989, session.go:1048, user.go:304), rendered both ways like any other reply.
func verifC20Ctors(t *testing.T, emit func(map[string]any), sc *verifC20Schema) {
	ts := time.UnixMilli(1577934245678).UTC()
	req := &ClientComMessage{Id: "id77", Original: "grpVerifC20", Timestamp: ts}
	exp := time.UnixMilli(1700000000500).UTC()
	cases := []struct {
		label string
		msg   *ServerComMessage
	}{
		{"NoContentParamsReply(map[string]string{what:tags})", NoContentParamsReply(req, ts, map[string]string{"what": "tags"})},
		{"NoContentParamsReply(map[string]string{what:creds})", NoContentParamsReply(req, ts, map[string]string{"what": "creds"})},
		{"NoContentParams(map[string]string{what:del})", NoContentParams(req.Id, req.Original, ts, ts, map[string]string{"what": "del"})},
		{"NoContentParamsReply(map[string]any{what:sub})", NoContentParamsReply(req, ts, map[string]any{"what": "sub"})},
		{"InfoUseOtherReply", InfoUseOtherReply(req, "grpOther", ts)},
		{"InfoChallenge", InfoChallenge(req.Id, ts, []byte("challenge\x00\xff"))},
		{"NoErrParams(map[string]any{acs})", NoErrParams(req.Id, req.Original, ts, map[string]any{"acs": &MsgAccessMode{Want: "JRWP", Given: "JRWPS", Mode: "JRWP"}})},
		{"NoErrParamsReply(login)", NoErrParamsReply(req, ts, map[string]any{"user": "usrAQAAAAAAAAA", "authlvl": "auth",
			"token": []byte{1, 2, 3, 250}, "expires": exp, "cred": []string{"email", "tel"}})},
		{"NoErrDeliveredParams(map[string]any{count})", NoErrDeliveredParams(req.Id, req.Original, ts, map[string]any{"count": 3})},
		{"NoErrCreated", NoErrCreated(req.Id, req.Original, ts)},
		{"ErrMalformedReply", ErrMalformedReply(req, ts)},
		{"InfoValidateCredentials", InfoValidateCredentials(req.Id, ts)},
		{"NoErrShutdown", NoErrShutdown(ts)},
	}
	for _, c := range cases {
		jf, pf, rf := map[string]string{}, map[string]string{}, map[string]string{}
		unknown := []string{}
		jr, err := json.Marshal(c.msg)
		if err != nil {
			t.Fatal(err)
		}
		wire, err := proto.Marshal(pbServSerialize(c.msg))
		if err != nil {
			t.Fatal(err)
		}
		var got pbx.ServerMsg
		if err := proto.Unmarshal(wire, &got); err != nil {
			t.Fatal(err)
		}
		verifC20FlattenJSON(sc, jr, jf, &unknown)
		verifC20FlattenPb(sc, got.ProtoReflect(), pf, &unknown)
		rr, _ := json.Marshal(pbServDeserialize(&got))
		verifC20FlattenJSON(sc, rr, rf, &unknown)
		if len(unknown) > 0 {
			t.Fatalf("C20 schema misses fields %v of {ctrl} built by %s", unknown, c.label)
		}
		keys := map[string]bool{}
		for k := range jf {
			keys[k] = true
		}
		for k := range pf {
			keys[k] = true
		}
		names := make([]string, 0, len(keys))
		for k := range keys {
			names = append(names, k)
		}
		sort.Strings(names)
		fields := []any{}
		for _, k := range names {
			n := sc.lookupP(strings.Split(k, "."))
			// the expected projection is the real JSON rendering itself: nothing to bind, only to compare
			fields = append(fields, map[string]any{"f": k, "cls": n.Cls, "sel": false, "pbdef": len(n.Pb) > 0, "want": jf[k], "j": jf[k], "p": pf[k]})
		}
		emit(map[string]any{"op": "msg", "dir": "srv", "kind": "ctrl", "shape": []string{"ctor:" + c.label}, "json": string(jr),
			"allnodes": []any{}, "fields": fields, "rt": verifC20Diff(jf, rf)})
	}
}
