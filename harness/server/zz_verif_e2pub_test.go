package main

// Verification harness (overlay): E2 — CONCURRENT publishers on the real server (no quiescence between requests).
// Several sessions of several users publish to one group topic and one p2p topic at the same time, while other
// sessions attach/detach; the run ends with quiescence. Records per run: every ack (session, content, seq),
// every {data} frame in arrival order per session, the attached-at-the-end table and the stored messages.
// spec/Monitor_E2Pub.tla decides (C01 numbering, C02 per-session order / one copy).

import (
	"bufio"
	"encoding/json"
	"fmt"
	"math/rand"
	"os"
	"sort"
	"strconv"
	"sync"
	"testing"
	"time"

	"github.com/tinode/chat/server/db/memadp"
)

func TestVerifE2Pub(t *testing.T) {
	outp := os.Getenv("VERIF_OUT")
	if outp == "" {
		t.Skip("VERIF_OUT not set")
	}
	runs, _ := strconv.Atoi(os.Getenv("VERIF_E2_RUNS"))
	if runs == 0 {
		runs = 20
	}
	perSess, _ := strconv.Atoi(os.Getenv("VERIF_E2_MSGS"))
	if perSess == 0 {
		perSess = 8
	}
	seed, _ := strconv.ParseInt(os.Getenv("VERIF_SEED"), 10, 64)
	fout, err := os.Create(outp)
	if err != nil {
		t.Fatal(err)
	}
	defer fout.Close()
	bw := bufio.NewWriterSize(fout, 1<<20)
	defer bw.Flush()
	enc := json.NewEncoder(bw)

	users := []string{"u1", "u2", "u3"}
	sessUser := map[string]string{"s1": "u1", "s2": "u2", "s3": "u3", "s4": "u1", "s5": "u2", "s6": "u3"}
	snames := []string{"s1", "s2", "s3", "s4", "s5", "s6"}

	for run := 0; run < runs; run++ {
		rng := rand.New(rand.NewSource(seed*1000 + int64(run)))
		w := verifNewWorld(t, verifConfig{}, false)
		for _, u := range users {
			_ = u
		}
		for _, s := range snames {
			if _, err := w.connect(s, sessUser[s], "auth"); err != nil {
				t.Fatalf("connect: %v", err)
			}
		}
		if err := w.quiesce(); err != nil {
			t.Fatal(err)
		}
		// setup: group g1 owned by u1, everybody subscribed with default access; p2p u1-u2 attached from s1,s2,s4
		r := &verifRunner{w: w, t: t, b: &verifBehaviour{}}
		r.b.Cfg.Users = map[string]string{"u1": "auth", "u2": "auth", "u3": "auth"}
		r.b.Cfg.Sess = sessUser
		r.b.Cfg.Topics = []string{"g1", "p12"}
		setup := []map[string]any{{"a": "NewGrp", "s": "s1", "t": "g1", "mode": []any{"-"}}}
		for _, s := range snames[1:] {
			setup = append(setup, map[string]any{"a": "Sub", "s": s, "t": "g1", "mode": []any{"-"}})
		}
		for _, s := range []string{"s1", "s2", "s4"} {
			setup = append(setup, map[string]any{"a": "Sub", "s": s, "t": "p12", "mode": []any{"-"}})
		}
		for _, a := range setup {
			if _, err := r.step(a); err != nil {
				t.Fatalf("setup %v: %v", a, err)
			}
		}
		for _, vs := range w.sess {
			vs.take()
		}
		verifPush.take()
		// u3 has only R on g1? keep defaults. One user is made write-less in some runs.
		writeless := ""
		if rng.Intn(3) == 0 {
			writeless = "u3"
			if _, err := r.step(map[string]any{"a": "SetOther", "s": "s1", "t": "g1", "u": "u3", "mode": []any{"J", "R", "P"}}); err != nil {
				t.Fatal(err)
			}
			for _, vs := range w.sess {
				vs.take()
			}
		}

		type ack struct {
			S       string `json:"s"`
			T       string `json:"t"`
			Content string `json:"c"`
			Code    int    `json:"code"`
			Seq     int    `json:"seq"`
		}
		var mu sync.Mutex
		var acks []ack
		var wg sync.WaitGroup
		for _, sn := range snames {
			vs := w.sess[sn]
			myTopics := []string{"g1"}
			if sn == "s1" || sn == "s2" || sn == "s4" {
				myTopics = append(myTopics, "p12")
			}
			seedS := rng.Int63()
			wg.Add(1)
			go func(sn string, vs *verifSess, topics []string, sd int64) {
				defer wg.Done()
				lr := rand.New(rand.NewSource(sd))
				for k := 0; k < perSess; k++ {
					tn := topics[lr.Intn(len(topics))]
					content := fmt.Sprintf("%s-%s-%d", sn, tn, k)
					id := fmt.Sprintf("e2-%s-%s-%d", sn, tn, k)
					msg := map[string]any{"pub": map[string]any{"id": id, "topic": w.addr(vs, tn, false), "content": content, "noecho": lr.Intn(4) == 0}}
					b, _ := json.Marshal(msg)
					vs.s.dispatchRaw(b)
					if lr.Intn(3) == 0 {
						time.Sleep(time.Duration(lr.Intn(200)) * time.Microsecond)
					}
				}
			}(sn, vs, myTopics, seedS)
		}
		// a churner: s6 leaves and re-attaches g1 a few times while the others publish
		wg.Add(1)
		go func() {
			defer wg.Done()
			vs := w.sess["s6"]
			for k := 0; k < 3; k++ {
				time.Sleep(time.Duration(rng.Intn(300)) * time.Microsecond)
				b, _ := json.Marshal(map[string]any{"leave": map[string]any{"id": fmt.Sprintf("e2-lv-%d", k), "topic": w.addr(vs, "g1", false)}})
				vs.s.dispatchRaw(b)
				b, _ = json.Marshal(map[string]any{"sub": map[string]any{"id": fmt.Sprintf("e2-sb-%d", k), "topic": w.addr(vs, "g1", false)}})
				vs.s.dispatchRaw(b)
			}
		}()
		wg.Wait()
		if err := w.quiesce(); err != nil {
			t.Fatalf("run %d: %v", run, err)
		}
		// collect
		frames := map[string][]map[string]any{}
		for _, sn := range snames {
			vs := w.sess[sn]
			var l []map[string]any
			for _, f := range vs.take() {
				af := r.absFrame(vs, f)
				switch af["k"] {
				case "ctrl":
					id, _ := af["id"].(string)
					if len(id) > 3 && id[:3] == "e2-" && id[3:5] != "lv" && id[3:5] != "sb" {
						code, _ := af["code"].(int)
						seq := 0
						if p, ok := af["params"].(map[string]any); ok {
							if v, ok := p["seq"].(float64); ok {
								seq = int(v)
							}
						}
						var c, tn string
						fmt.Sscanf(id, "e2-%s", &c)
						// id = e2-<sess>-<topic>-<k>; content = <sess>-<topic>-<k>
						c = id[3:]
						tn, _ = af["topic"].(string)
						mu.Lock()
						acks = append(acks, ack{S: sn, T: tn, Content: c, Code: code, Seq: seq})
						mu.Unlock()
					}
				case "data":
					l = append(l, map[string]any{"t": af["topic"], "seq": af["seq"], "c": af["content"], "from": af["from"]})
				}
			}
			if l == nil {
				l = []map[string]any{}
			}
			frames[sn] = l
		}
		sort.Slice(acks, func(i, j int) bool { return acks[i].Content < acks[j].Content })
		snap := r.snapshot()
		msgs := map[string]any{}
		for _, tn := range []string{"g1", "p12"} {
			var ml []map[string]any
			for _, m := range snap["msgs"].(map[string]any)[tn].([]map[string]any) {
				ml = append(ml, map[string]any{"seq": m["seq"], "c": m["content"], "from": m["from"]})
			}
			if ml == nil {
				ml = []map[string]any{}
			}
			msgs[tn] = ml
		}
		last := map[string]any{}
		for _, tn := range []string{"g1", "p12"} {
			c := snap["cache"].(map[string]any)[tn].(map[string]any)
			l := 0
			if c["loaded"] == true {
				l = c["last"].(int)
			}
			last[tn] = map[string]any{"live": l, "stored": snap["topics"].(map[string]any)[tn].(map[string]any)["seq"]}
		}
		if acks == nil {
			acks = []ack{}
		}
		rec := map[string]any{"op": "e2pub", "run": run, "writeless": writeless, "acks": acks, "frames": frames, "msgs": msgs, "last": last,
			"sent": perSess * len(snames)}
		if err := enc.Encode(rec); err != nil {
			t.Fatal(err)
		}
		w.close()
		memadp.Hook = nil
	}

	// ---- second family: publishes racing the idle unload of the topic (no quiescence between the timer and the requests).
	// Every round: everybody leaves g1 (the server arms the idle timer), the timer is made to expire within 0-300us while two
	// sessions subscribe again and publish at once. A publish may be refused (503/409) or lost with an exiting topic (C14's
	// business); what C01 demands of the ACCEPTED ones is judged: no number twice, none skipped, stored under its number.
	for run := 0; run < runs; run++ {
		rng := rand.New(rand.NewSource(seed*7919 + int64(run)))
		w := verifNewWorld(t, verifConfig{}, false)
		for _, s := range snames[:3] {
			if _, err := w.connect(s, sessUser[s], "auth"); err != nil {
				t.Fatalf("connect: %v", err)
			}
		}
		if err := w.quiesce(); err != nil {
			t.Fatal(err)
		}
		r := &verifRunner{w: w, t: t, b: &verifBehaviour{}}
		r.b.Cfg.Users = map[string]string{"u1": "auth", "u2": "auth", "u3": "auth"}
		r.b.Cfg.Sess = map[string]string{"s1": "u1", "s2": "u2", "s3": "u3"}
		r.b.Cfg.Topics = []string{"g1", "p12"}
		for _, a := range []map[string]any{{"a": "NewGrp", "s": "s1", "t": "g1", "mode": []any{"-"}},
			{"a": "Sub", "s": "s2", "t": "g1", "mode": []any{"-"}}, {"a": "Sub", "s": "s3", "t": "g1", "mode": []any{"-"}}} {
			if _, err := r.step(a); err != nil {
				t.Fatalf("setup %v: %v", a, err)
			}
		}
		for _, vs := range w.sess {
			vs.take()
		}
		type ack struct {
			S       string `json:"s"`
			T       string `json:"t"`
			Content string `json:"c"`
			Code    int    `json:"code"`
			Seq     int    `json:"seq"`
		}
		var acks []ack
		frames := map[string][]map[string]any{}
		for _, sn := range snames {
			frames[sn] = []map[string]any{}
		}
		sent := 0
		for round := 0; round < 12; round++ {
			for _, sn := range snames[:3] {
				if _, err := r.step(map[string]any{"a": "Leave", "s": sn, "t": "g1", "unsub": false}); err != nil {
					t.Fatalf("leave: %v", err)
				}
			}
			tp := w.hub.topicGet(w.canon("g1"))
			var wg sync.WaitGroup
			if tp != nil && tp.killTimer != nil {
				d := time.Duration(rng.Intn(300)) * time.Microsecond
				wg.Add(1)
				go func() { defer wg.Done(); time.Sleep(d / 2); tp.killTimer.Reset(d/2 + time.Nanosecond) }()
			}
			for _, sn := range []string{"s2", "s3"} {
				vs := w.sess[sn]
				d := time.Duration(rng.Intn(300)) * time.Microsecond
				wg.Add(1)
				sent += 2
				go func(sn string, vs *verifSess, d time.Duration, round int) {
					defer wg.Done()
					time.Sleep(d)
					b, _ := json.Marshal(map[string]any{"sub": map[string]any{"id": fmt.Sprintf("e2-sb-%s-%d", sn, round), "topic": w.addr(vs, "g1", false)}})
					vs.s.dispatchRaw(b)
					for k := 0; k < 2; k++ {
						id := fmt.Sprintf("e2-%s-g1-%d-%d", sn, round, k)
						b, _ := json.Marshal(map[string]any{"pub": map[string]any{"id": id, "topic": w.addr(vs, "g1", false), "content": id[3:]}})
						vs.s.dispatchRaw(b)
					}
				}(sn, vs, d, round)
			}
			done := make(chan struct{})
			go func() { wg.Wait(); close(done) }()
			select {
			case <-done:
			case <-time.After(20 * time.Second):
				t.Fatalf("unload race run %d round %d: a dispatch did not return (infrastructure)", run, round)
			}
			if err := w.quiesce(); err != nil {
				t.Fatalf("unload race run %d: %v", run, err)
			}
			for _, sn := range snames[:3] {
				vs := w.sess[sn]
				for _, f := range vs.take() {
					af := r.absFrame(vs, f)
					switch af["k"] {
					case "ctrl":
						id, _ := af["id"].(string)
						if len(id) > 5 && id[:3] == "e2-" && id[3:5] != "sb" {
							code, _ := af["code"].(int)
							seq := 0
							if p, ok := af["params"].(map[string]any); ok {
								if v, ok := p["seq"].(float64); ok {
									seq = int(v)
								}
							}
							acks = append(acks, ack{S: sn, T: "g1", Content: id[3:], Code: code, Seq: seq})
						}
					case "data":
						frames[sn] = append(frames[sn], map[string]any{"t": af["topic"], "seq": af["seq"], "c": af["content"], "from": af["from"]})
					}
				}
			}
			// whoever is still attached re-subscribes idempotently so that the next round starts from "everybody attached or not": leave handles both
			for _, sn := range snames[:3] {
				_, _ = r.step(map[string]any{"a": "Sub", "s": sn, "t": "g1", "mode": []any{"-"}})
			}
			for _, vs := range w.sess {
				vs.take()
			}
		}
		sort.Slice(acks, func(i, j int) bool { return acks[i].Content < acks[j].Content })
		snap := r.snapshot()
		msgs := map[string]any{"p12": []map[string]any{}}
		var ml []map[string]any
		for _, m := range snap["msgs"].(map[string]any)["g1"].([]map[string]any) {
			ml = append(ml, map[string]any{"seq": m["seq"], "c": m["content"], "from": m["from"]})
		}
		if ml == nil {
			ml = []map[string]any{}
		}
		msgs["g1"] = ml
		c := snap["cache"].(map[string]any)["g1"].(map[string]any)
		l := 0
		if c["loaded"] == true {
			l = c["last"].(int)
		}
		last := map[string]any{"g1": map[string]any{"live": l, "stored": snap["topics"].(map[string]any)["g1"].(map[string]any)["seq"]},
			"p12": map[string]any{"live": 0, "stored": 0}}
		if acks == nil {
			acks = []ack{}
		}
		// publishes lost with an exiting topic are not C01's clause: 'sent' is what was answered
		rec := map[string]any{"op": "e2unload", "run": run, "writeless": "", "acks": acks, "frames": frames, "msgs": msgs, "last": last, "sent": len(acks), "issued": sent}
		if err := enc.Encode(rec); err != nil {
			t.Fatal(err)
		}
		w.close()
		memadp.Hook = nil
	}

	// ---- third family: a publish QUEUED at a topic instance that the hub has meanwhile unloaded and replaced (gated, deterministic up
	// to the topic goroutine's own select): the old instance is parked inside an adapter call of a {note}, a publish of an attached
	// session waits in its queue, the idle-timeout request reaches the hub (the message Topic.handleTopicTimeout sends; here it is
	// sent for the parked goroutine: the timer ticked just before the session attached), another session loads a NEW instance and
	// publishes, then the old goroutine is released. What C01 demands: whatever is acknowledged 202 carries a number nobody else got.
	for run := 0; run < runs; run++ {
		w := verifNewWorld(t, verifConfig{}, false)
		for _, s := range snames[:3] {
			if _, err := w.connect(s, sessUser[s], "auth"); err != nil {
				t.Fatalf("connect: %v", err)
			}
		}
		if err := w.quiesce(); err != nil {
			t.Fatal(err)
		}
		r := &verifRunner{w: w, t: t, b: &verifBehaviour{}}
		r.b.Cfg.Users = map[string]string{"u1": "auth", "u2": "auth", "u3": "auth"}
		r.b.Cfg.Sess = map[string]string{"s1": "u1", "s2": "u2", "s3": "u3"}
		r.b.Cfg.Topics = []string{"g1", "p12"}
		for _, a := range []map[string]any{{"a": "NewGrp", "s": "s1", "t": "g1", "mode": []any{"-"}},
			{"a": "Sub", "s": "s2", "t": "g1", "mode": []any{"-"}}, {"a": "Sub", "s": "s3", "t": "g1", "mode": []any{"-"}},
			{"a": "Pub", "s": "s1", "t": "g1", "c": "c1"}, {"a": "Leave", "s": "s1", "t": "g1", "unsub": false}, {"a": "Leave", "s": "s3", "t": "g1", "unsub": false}} {
			if _, err := r.step(a); err != nil {
				t.Fatalf("setup %v: %v", a, err)
			}
		}
		for _, vs := range w.sess {
			vs.take()
		}
		type ack struct {
			S       string `json:"s"`
			T       string `json:"t"`
			Content string `json:"c"`
			Code    int    `json:"code"`
			Seq     int    `json:"seq"`
		}
		s2, s3 := w.sess["s2"], w.sess["s3"]
		raw := func(vs *verifSess, m map[string]any) {
			b, _ := json.Marshal(m)
			vs.s.dispatchRaw(b)
		}
		parked, release := make(chan struct{}), make(chan struct{})
		var once sync.Once
		memadp.PreHook = func(m string) {
			if m == "SubsUpdate" {
				fired := false
				once.Do(func() { fired = true })
				if fired {
					close(parked)
					<-release
				}
			}
		}
		// s2 (attached): a receipt parks the old instance inside the store; its publish then waits in the old instance's queue
		go raw(s2, map[string]any{"note": map[string]any{"topic": w.addr(s2, "g1", false), "what": "recv", "seq": 1}})
		select {
		case <-parked:
		case <-time.After(5 * time.Second):
			memadp.PreHook = nil
			close(release)
			t.Fatalf("gated unload run %d: the note did not reach the store (infrastructure)", run)
		}
		memadp.PreHook = nil
		raw(s2, map[string]any{"pub": map[string]any{"id": "e2-s2-g1-old", "topic": w.addr(s2, "g1", false), "content": "s2-g1-old"}})
		// the idle-timeout request of the old instance reaches the hub
		w.hub.unreg <- &topicUnreg{rcptTo: w.canon("g1")}
		for i := 0; i < 2000 && w.hub.topicGet(w.canon("g1")) != nil; i++ {
			time.Sleep(100 * time.Microsecond)
		}
		// s3 loads a new instance and publishes
		raw(s3, map[string]any{"sub": map[string]any{"id": "e2-sb-s3", "topic": w.addr(s3, "g1", false)}})
		w.waitFrame(s3, "e2-sb-s3", 3*time.Second)
		raw(s3, map[string]any{"pub": map[string]any{"id": "e2-s3-g1-new", "topic": w.addr(s3, "g1", false), "content": "s3-g1-new"}})
		w.waitFrame(s3, "e2-s3-g1-new", 3*time.Second)
		close(release)
		time.Sleep(2 * time.Millisecond)
		if err := w.quiesce(); err != nil {
			t.Fatalf("gated unload run %d: %v", run, err)
		}
		var acks []ack
		frames := map[string][]map[string]any{}
		for _, sn := range snames {
			frames[sn] = []map[string]any{}
		}
		for _, sn := range snames[:3] {
			vs := w.sess[sn]
			for _, f := range vs.take() {
				af := r.absFrame(vs, f)
				if af["k"] == "ctrl" {
					id, _ := af["id"].(string)
					if len(id) > 5 && id[:3] == "e2-" && id[3:5] != "sb" {
						code, _ := af["code"].(int)
						seq := 0
						if p, ok := af["params"].(map[string]any); ok {
							if v, ok := p["seq"].(float64); ok {
								seq = int(v)
							}
						}
						acks = append(acks, ack{S: sn, T: "g1", Content: id[3:], Code: code, Seq: seq})
					}
				}
			}
		}
		snap := r.snapshot()
		var ml []map[string]any
		for _, m := range snap["msgs"].(map[string]any)["g1"].([]map[string]any) {
			ml = append(ml, map[string]any{"seq": m["seq"], "c": m["content"], "from": m["from"]})
		}
		if ml == nil {
			ml = []map[string]any{}
		}
		if acks == nil {
			acks = []ack{}
		}
		rec := map[string]any{"op": "e2unloadgate", "run": run, "acks": acks, "msgs": map[string]any{"g1": ml}}
		if err := enc.Encode(rec); err != nil {
			t.Fatal(err)
		}
		w.close()
		memadp.Hook = nil
	}
}
