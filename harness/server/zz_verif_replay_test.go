package main

// Verification harness (overlay): behaviour replay and trace recording on top of the World.
// Input  (VERIF_IN):  ndjson, one behaviour per line:
//     {"id":"b1","cfg":{"users":{"u1":"auth",...},"sess":{"s1":"u1",...},"topics":["g1","p12"],"maxSubs":3,"calls":false},"steps":[{...},...]}
// Output (VERIF_OUT): ndjson, one line per step:
//     {"b":"b1","i":k,"act":{...},"reply":{...}|null,"frames":{"s1":[...],...},"push":[...],"st":{store,cache,sess},"calls":[adapter methods],"err":""}

import (
	"bufio"
	"encoding/json"
	"fmt"
	"os"
	"sort"
	"strings"
	"sync/atomic"
	"testing"
	"time"

	"github.com/tinode/chat/server/db/memadp"
	"github.com/tinode/chat/server/store/types"
)

type verifBehaviour struct {
	Id  string `json:"id"`
	Cfg struct {
		Users   map[string]string `json:"users"` // abstract user -> level ("auth","anon","root")
		Sess    map[string]string `json:"sess"`  // abstract session -> abstract user
		Topics  []string          `json:"topics"`
		MaxSubs int               `json:"maxSubs"`
		Calls   bool              `json:"calls"`
	} `json:"cfg"`
	Steps []map[string]any `json:"steps"`
}

// Extension points for per-property harness files (zz_verif_cNN_*.go register from init()):
// extra abstract actions, and extra fields added to every recorded step / snapshot.
var verifExtraActions = map[string]func(r *verifRunner, a map[string]any) (string, error){}
var verifExtraRecord = []func(r *verifRunner, rec map[string]any){}

type verifRunner struct {
	nested     map[string]any  // the nested request of a `during` step (see step)
	afterCrash map[string]bool // topic -> a crash happened since the last accepted publish
	w   *verifWorld
	b   *verifBehaviour
	out *json.Encoder
	t   testing.TB
}

func verifSessNum(n string) int {
	v := 0
	for _, c := range n {
		if c >= '0' && c <= '9' {
			v = v*10 + int(c-'0')
		}
	}
	return v
}

func verifStr(m map[string]any, k string) string {
	if v, ok := m[k].(string); ok {
		return v
	}
	return ""
}
func verifBool(m map[string]any, k string) bool {
	v, _ := m[k].(bool)
	return v
}
func verifInt(m map[string]any, k string) (int, bool) {
	if v, ok := m[k].(float64); ok {
		return int(v), true
	}
	return 0, false
}

func (r *verifRunner) sortedKeys(m map[string]string) []string {
	out := make([]string, 0, len(m))
	for k := range m {
		out = append(out, k)
	}
	sort.Strings(out)
	return out
}

// openWorld creates the world, accounts and logged-in sessions of the behaviour's configuration.
func (r *verifRunner) openWorld(keepStore bool) error {
	r.w = verifNewWorld(r.t, verifConfig{MaxSubs: r.b.Cfg.MaxSubs, Calls: r.b.Cfg.Calls}, keepStore)
	return nil
}

func (r *verifRunner) connectAll(prev *verifWorld) error {
	if prev != nil {
		r.w.users, r.w.uname, r.w.topics, r.w.tname = prev.users, prev.uname, prev.topics, prev.tname
	}
	// make sure every configured user has an account (users without sessions get a throw-away session)
	for _, u := range r.sortedKeys(r.b.Cfg.Users) {
		if _, ok := r.w.users[u]; !ok {
			vs, err := r.w.connect("tmp_"+u, u, r.b.Cfg.Users[u])
			if err != nil {
				return err
			}
			r.w.kill(vs)
			delete(r.w.sess, "tmp_"+u)
			if err := r.w.quiesce(); err != nil {
				return err
			}
		}
	}
	for _, s := range r.sortedKeys(r.b.Cfg.Sess) {
		u := r.b.Cfg.Sess[s]
		if _, err := r.w.connect(s, u, r.b.Cfg.Users[u]); err != nil {
			return err
		}
	}
	return r.w.quiesce()
}

// step executes one abstract action; returns the request id (if any) and an infrastructure error.
func (r *verifRunner) step(a map[string]any) (string, error) {
	w := r.w
	act := verifStr(a, "a")
	var vs *verifSess
	if s := verifStr(a, "s"); s != "" {
		vs = w.sess[s]
		if vs == nil || vs.dead {
			if act != "Connect" {
				return "", nil // session not connected: the step is a no-op (recorded as such)
			}
		}
	}
	t := verifStr(a, "t")
	asChan := verifBool(a, "chan")
	if d, ok := a["during"].(map[string]any); ok && r.nested == nil {
		// interleaving gate: when the outer request first reaches adapter method d.method, the nested request d.do is
		// sent on ITS session and run until it is answered (no quiescence: the outer request is parked in the adapter)
		method := verifStr(d, "method")
		nestedAct, _ := d["do"].(map[string]any)
		fired := false
		r.nested = map[string]any{"act": nestedAct, "fired": false, "code": 0, "method": method}
		memadp.PreHook = func(m string) {
			if fired || m != method || nestedAct == nil {
				return
			}
			fired = true
			memadp.PreHook = nil
			nid, _ := r.stepNoQuiesce(nestedAct)
			r.nested["fired"] = true
			r.nested["rid"] = nid
		}
		defer func() { memadp.PreHook = nil }()
	}
	id := w.id()
	withExtra := func(m map[string]any) map[string]any {
		if obo := verifStr(a, "obo"); obo != "" {
			ex := map[string]any{}
			if uid, ok := w.users[obo]; ok {
				ex["obo"] = uid.UserId()
			} else {
				ex["obo"] = obo
			}
			m["extra"] = ex
		}
		return m
	}
	modeArg := func(k string) (string, bool) {
		if l, ok := a[k].([]any); ok { // TLC behaviours carry texts as arrays of 1-char strings
			sb := ""
			for _, x := range l {
				c, _ := x.(string)
				sb += c
			}
			return sb, sb != "-"
		}
		v, ok := a[k].(string)
		return v, ok && v != "-"
	}
	switch act {
	case "NewGrp":
		name := "new" + id
		if asChan {
			name = "nch" + id
		}
		sub := map[string]any{"id": id, "topic": name}
		set := map[string]any{}
		if m, ok := modeArg("mode"); ok {
			set["sub"] = map[string]any{"mode": m}
		}
		desc := map[string]any{"public": map[string]any{"fn": t}}
		if d, ok := a["defacs"].(map[string]any); ok {
			desc["defacs"] = d
		}
		set["desc"] = desc
		if tg, ok := a["tags"].([]any); ok {
			set["tags"] = tg
		}
		sub["set"] = set
		err := w.send(vs, withExtra(map[string]any{"sub": sub}), true)
		// learn the concrete name from the reply
		vs.mu.Lock()
		for _, f := range vs.frames {
			if c, ok := f["ctrl"].(map[string]any); ok && c["id"] == id {
				if tn, ok := c["topic"].(string); ok && (strings.HasPrefix(tn, "grp") || strings.HasPrefix(tn, "chn")) {
					if code, _ := c["code"].(float64); code < 300 {
						g := types.ChnToGrp(tn)
						w.topics[t] = g
						w.tname[g] = t
					}
				}
			}
		}
		vs.mu.Unlock()
		return id, err
	case "Sub":
		sub := map[string]any{"id": id, "topic": w.addr(vs, t, asChan)}
		if m, ok := modeArg("mode"); ok {
			sub["set"] = map[string]any{"sub": map[string]any{"mode": m}}
		}
		if verifBool(a, "bg") {
			sub["bkg"] = true
		}
		if g := verifStr(a, "get"); g != "" {
			sub["get"] = map[string]any{"what": g}
		}
		return id, w.send(vs, withExtra(map[string]any{"sub": sub}), true)
	case "Leave":
		return id, w.send(vs, withExtra(map[string]any{"leave": map[string]any{"id": id, "topic": w.addr(vs, t, asChan), "unsub": verifBool(a, "unsub")}}), true)
	case "SetSelf":
		m, _ := modeArg("mode")
		return id, w.send(vs, withExtra(map[string]any{"set": map[string]any{"id": id, "topic": w.addr(vs, t, asChan), "sub": map[string]any{"mode": m}}}), true)
	case "SetOther":
		sub := map[string]any{}
		if uid, ok := w.users[verifStr(a, "u")]; ok {
			sub["user"] = uid.UserId()
		} else {
			sub["user"] = "usrNOSUCHUSER"
		}
		if m, ok := modeArg("mode"); ok {
			sub["mode"] = m
		}
		return id, w.send(vs, withExtra(map[string]any{"set": map[string]any{"id": id, "topic": w.addr(vs, t, asChan), "sub": sub}}), true)
	case "DelSub":
		del := map[string]any{"id": id, "topic": w.addr(vs, t, asChan), "what": "sub"}
		if uid, ok := w.users[verifStr(a, "u")]; ok {
			del["user"] = uid.UserId()
		}
		return id, w.send(vs, withExtra(map[string]any{"del": del}), true)
	case "DelTopic":
		return id, w.send(vs, withExtra(map[string]any{"del": map[string]any{"id": id, "topic": w.addr(vs, t, asChan), "what": "topic", "hard": verifBool(a, "hard")}}), true)
	case "Pub":
		pub := map[string]any{"id": id, "topic": w.addr(vs, t, asChan), "content": verifStr(a, "c")}
		if verifBool(a, "noecho") {
			pub["noecho"] = true
		}
		if h, ok := a["head"].(map[string]any); ok {
			pub["head"] = h
		}
		return id, w.send(vs, withExtra(map[string]any{"pub": pub}), true)
	case "Note":
		note := map[string]any{"topic": w.addr(vs, t, asChan), "what": verifStr(a, "what")}
		if n, ok := verifInt(a, "seq"); ok {
			note["seq"] = n
		}
		if ev := verifStr(a, "event"); ev != "" {
			note["event"] = ev
		}
		return "", w.send(vs, withExtra(map[string]any{"note": note}), false)
	case "DelMsg":
		var ranges []map[string]any
		if rs, ok := a["ranges"].([]any); ok {
			for _, x := range rs {
				p, _ := x.([]any)
				if len(p) == 2 {
					lo, _ := p[0].(float64)
					hi, _ := p[1].(float64)
					rg := map[string]any{"low": int(lo)}
					if int(hi) != 0 {
						rg["hi"] = int(hi)
					}
					ranges = append(ranges, rg)
				}
			}
		}
		return id, w.send(vs, withExtra(map[string]any{"del": map[string]any{"id": id, "topic": w.addr(vs, t, asChan), "what": "msg",
			"delseq": ranges, "hard": verifBool(a, "hard")}}), true)
	case "Get":
		get := map[string]any{"id": id, "topic": w.addr(vs, t, asChan), "what": verifStr(a, "what")}
		q := map[string]any{}
		for _, k := range []string{"since", "before", "limit"} {
			if n, ok := verifInt(a, k); ok {
				q[k] = n
			}
		}
		if strings.Contains(verifStr(a, "what"), "data") {
			get["data"] = q
		}
		if strings.Contains(verifStr(a, "what"), "del") {
			get["del"] = q
		}
		return id, w.send(vs, withExtra(map[string]any{"get": get}), true)
	case "SetDesc":
		desc := map[string]any{}
		if d, ok := a["defacs"].(map[string]any); ok {
			desc["defacs"] = d
		}
		if m, ok := modeArg("auth"); ok {
			desc["defacs"] = map[string]any{"auth": m}
		}
		if p := verifStr(a, "public"); p != "" && p != "-" {
			desc["public"] = map[string]any{"fn": p}
		}
		if p := verifStr(a, "trusted"); p != "" {
			desc["trusted"] = map[string]any{"v": p}
		}
		if p := verifStr(a, "private"); p != "" {
			desc["private"] = map[string]any{"c": p}
		}
		return id, w.send(vs, withExtra(map[string]any{"set": map[string]any{"id": id, "topic": w.addr(vs, t, asChan), "desc": desc}}), true)
	case "SetTags":
		tags, _ := a["tags"].([]any)
		if tags == nil {
			tags = []any{}
		}
		return id, w.send(vs, withExtra(map[string]any{"set": map[string]any{"id": id, "topic": w.addr(vs, t, asChan), "tags": tags}}), true)
	case "Raw":
		// arbitrary client JSON with placeholders already resolved by the generator
		var m map[string]any
		if err := json.Unmarshal([]byte(verifStr(a, "json")), &m); err != nil {
			return "", w.send(vs, nil, false)
		}
		return verifStr(a, "id"), w.send(vs, m, verifStr(a, "id") != "")
	case "Unload":
		// fire the real idle timer of the topic; only meaningful when no session is attached
		if tp := w.hub.topicGet(w.canon(t)); tp != nil && !tp.isInactive() {
			if len(tp.sessions) == 0 {
				tp.killTimer.Reset(time.Nanosecond)
				w.waitUnloaded(w.canon(t))
			}
		}
		return "", w.quiesce()
	case "Reload":
		// composite: every attached session leaves, the idle timer fires (real unload path), the same sessions re-subscribe
		var names []string
		oboOf := map[string]string{} // session -> user id it is attached on behalf of (root sessions)
		chanOf := map[string]bool{}  // session -> attached as a channel reader
		if tp := w.hub.topicGet(w.canon(t)); tp != nil && !tp.isInactive() {
			for s, pssd := range tp.sessions {
				for n, x := range w.sess {
					if x.s == s {
						names = append(names, n)
						if pssd.isChanSub {
							chanOf[n] = true
						}
						if pssd.uid != s.uid {
							oboOf[n] = pssd.uid.UserId()
						}
					}
				}
			}
		}
		withObo := func(n string, m map[string]any) map[string]any {
			if o, ok := oboOf[n]; ok {
				m["extra"] = map[string]any{"obo": o}
			}
			return m
		}
		sort.Slice(names, func(i, j int) bool { return verifSessNum(names[i]) < verifSessNum(names[j]) })
		for _, n := range names {
			x := w.sess[n]
			if err := w.send(x, withObo(n, map[string]any{"leave": map[string]any{"id": w.id(), "topic": w.addr(x, t, chanOf[n])}}), true); err != nil {
				return "", err
			}
		}
		if tp := w.hub.topicGet(w.canon(t)); tp != nil && !tp.isInactive() && len(tp.sessions) == 0 {
			tp.killTimer.Reset(time.Nanosecond)
			w.waitUnloaded(w.canon(t))
		}
		if err := w.quiesce(); err != nil {
			return "", err
		}
		for _, n := range names {
			x := w.sess[n]
			if err := w.send(x, withObo(n, map[string]any{"sub": map[string]any{"id": w.id(), "topic": w.addr(x, t, chanOf[n])}}), true); err != nil {
				return "", err
			}
		}
		return "", w.quiesce()
	case "CallTimeout":
		if tp := w.hub.topicGet(w.canon(t)); tp != nil && !tp.isInactive() && tp.currentCall != nil {
			tp.callEstablishmentTimer.Reset(time.Nanosecond)
			time.Sleep(200 * time.Microsecond)
		}
		return "", w.quiesce()
	case "BgFire":
		if vs != nil && vs.s.background {
			vs.s.bkgTimer.Reset(time.Nanosecond)
			time.Sleep(200 * time.Microsecond)
		}
		return "", w.quiesce()
	case "Disconnect":
		w.kill(vs)
		return "", w.quiesce()
	case "Connect":
		s := verifStr(a, "s")
		if old := w.sess[s]; old != nil && !old.dead {
			return "", nil
		}
		u := r.b.Cfg.Sess[s]
		_, err := w.connect(s, u, r.b.Cfg.Users[u])
		return "", err
	case "Restart":
		// crash + restart: the old world is abandoned, the store contents stay
		old := w
		if verifBool(a, "clean") {
			old.close()
		} else {
			old.abandon()
		}
		if err := r.openWorld(true); err != nil {
			return "", err
		}
		return "", r.connectAll(old)
	case "Fault":
		n, _ := verifInt(a, "nth")
		if n == 0 {
			n = 1
		}
		w.hookMu.Lock()
		w.fault = &verifFault{Method: verifStr(a, "method"), Nth: n, Mode: verifStr(a, "mode")}
		w.hookMu.Unlock()
		return "", nil
	case "Nop":
		return "", nil
	}
	if f, ok := verifExtraActions[act]; ok {
		return f(r, a)
	}
	return "", fmt.Errorf("unknown action %q", act)
}

// waitUnloaded waits (bounded) until the hub has dropped the topic whose idle timer was just made to expire: the topic actor may
// answer the quiescence probes BEFORE it reads its timer (select picks among ready channels at random), and under machine load a
// fixed pause booked the unload on the next step.
func (w *verifWorld) waitUnloaded(name string) {
	deadline := time.Now().Add(2 * time.Second)
	for w.hub.topicGet(name) != nil && time.Now().Before(deadline) {
		time.Sleep(100 * time.Microsecond)
	}
}

// stepNoQuiesce sends a (nested) request and waits for its reply only.
func (r *verifRunner) stepNoQuiesce(a map[string]any) (string, error) {
	w := r.w
	vs := w.sess[verifStr(a, "s")]
	if vs == nil || vs.dead {
		return "", nil
	}
	t := verifStr(a, "t")
	id := w.id()
	var msg map[string]any
	switch verifStr(a, "a") {
	case "Pub":
		msg = map[string]any{"pub": map[string]any{"id": id, "topic": w.addr(vs, t, false), "content": verifStr(a, "c")}}
	case "Sub":
		msg = map[string]any{"sub": map[string]any{"id": id, "topic": w.addr(vs, t, false)}}
	case "Leave":
		msg = map[string]any{"leave": map[string]any{"id": id, "topic": w.addr(vs, t, false), "unsub": verifBool(a, "unsub")}}
	case "Get":
		msg = map[string]any{"get": map[string]any{"id": id, "topic": w.addr(vs, t, false), "what": verifStr(a, "what")}}
	default:
		return "", nil
	}
	b, _ := json.Marshal(msg)
	done := make(chan struct{})
	go func() { defer close(done); defer func() { recover() }(); vs.s.dispatchRaw(b) }()
	select {
	case <-done:
	case <-time.After(time.Second):
	}
	w.waitFrame(vs, id, 500*time.Millisecond)
	return id, nil
}

// ---------------------------------------------------------------- observation

func (r *verifRunner) absFrame(vs *verifSess, f verifFrame) map[string]any {
	w := r.w
	out := map[string]any{}
	topicOf := func(m map[string]any) {
		if tn, ok := m["topic"].(string); ok {
			a, ch := w.absTopic(vs, tn)
			out["topic"] = a
			out["aschan"] = ch
			out["rawtopic"] = tn
		} else {
			out["topic"] = ""
			out["aschan"] = false
			out["rawtopic"] = ""
		}
	}
	num := func(m map[string]any, k string) int {
		v, _ := m[k].(float64)
		return int(v)
	}
	acs := func(v any) map[string]any {
		m, ok := v.(map[string]any)
		if !ok {
			return nil
		}
		o := map[string]any{}
		for _, k := range []string{"want", "given", "mode"} {
			if s, ok := m[k].(string); ok {
				o[k] = s
			} else {
				o[k] = "-"
			}
		}
		return o
	}
	switch {
	case f["ctrl"] != nil:
		m := f["ctrl"].(map[string]any)
		out["k"] = "ctrl"
		out["id"], _ = m["id"].(string)
		out["code"] = num(m, "code")
		out["text"], _ = m["text"].(string)
		topicOf(m)
		p := map[string]any{}
		if pm, ok := m["params"].(map[string]any); ok {
			for _, k := range []string{"seq", "del", "what", "unsub", "count"} {
				if v, ok := pm[k]; ok {
					p[k] = v
				}
			}
			if a := acs(pm["acs"]); a != nil {
				p["acs"] = a
			}
			if u, ok := pm["user"].(string); ok {
				p["user"] = w.absUser(u)
			}
		}
		out["params"] = p
	case f["data"] != nil:
		m := f["data"].(map[string]any)
		out["k"] = "data"
		topicOf(m)
		fr, _ := m["from"].(string)
		out["from"] = w.absUser(fr)
		out["seq"] = num(m, "seq")
		out["content"] = m["content"]
		h, _ := m["head"].(map[string]any)
		if h == nil {
			h = map[string]any{}
		}
		if sd, ok := h["sender"].(string); ok {
			h["sender"] = w.absUser(sd)
		}
		out["head"] = h
		_, out["deleted"] = m["deleted"]
	case f["pres"] != nil:
		m := f["pres"].(map[string]any)
		out["k"] = "pres"
		topicOf(m)
		src, _ := m["src"].(string)
		if strings.HasPrefix(src, "usr") {
			out["src"] = w.absUser(src)
		} else if src == "" || src == "me" {
			out["src"] = src
		} else {
			out["src"], _ = w.absTopic(vs, src)
		}
		out["what"], _ = m["what"].(string)
		out["seq"] = num(m, "seq")
		out["clear"] = num(m, "clear")
		tg, _ := m["tgt"].(string)
		ac, _ := m["act"].(string)
		out["tgt"], out["act"] = w.absUser(tg), w.absUser(ac)
		if a := acs(m["dacs"]); a != nil {
			out["dacs"] = a
		} else {
			out["dacs"] = map[string]any{"want": "-", "given": "-", "mode": "-"}
		}
		// the same texts as arrays of 1-char strings (TLC cannot index into strings); "-" = not present
		dm := out["dacs"].(map[string]any)
		for _, k := range []string{"want", "given"} {
			arr := []string{}
			if sv, _ := dm[k].(string); sv != "-" {
				for _, c := range sv {
					arr = append(arr, string(c))
				}
			} else {
				arr = []string{"-"}
			}
			out["dacs_"+k] = arr
		}
		ds := [][]int{}
		if l, ok := m["delseq"].([]any); ok {
			for _, x := range l {
				xm, _ := x.(map[string]any)
				ds = append(ds, []int{num(xm, "low"), num(xm, "hi")})
			}
		}
		out["delseq"] = ds
	case f["info"] != nil:
		m := f["info"].(map[string]any)
		out["k"] = "info"
		topicOf(m)
		fr, _ := m["from"].(string)
		out["from"] = w.absUser(fr)
		src, _ := m["src"].(string)
		if strings.HasPrefix(src, "usr") {
			out["src"] = w.absUser(src)
		} else if src == "" {
			out["src"] = ""
		} else {
			out["src"], _ = w.absTopic(vs, src)
		}
		out["what"], _ = m["what"].(string)
		out["seq"] = num(m, "seq")
		out["event"], _ = m["event"].(string)
	case f["meta"] != nil:
		m := f["meta"].(map[string]any)
		out["k"] = "meta"
		out["id"], _ = m["id"].(string)
		topicOf(m)
		if d, ok := m["desc"].(map[string]any); ok {
			dd := map[string]any{"seq": num(d, "seq"), "clear": num(d, "clear"), "read": num(d, "read"), "recv": num(d, "recv"),
				"online": d["online"] == true, "ischan": d["chan"] == true}
			if a := acs(d["acs"]); a != nil {
				dd["acs"] = a
			} else {
				dd["acs"] = map[string]any{"want": "-", "given": "-", "mode": "-"}
			}
			da := map[string]any{"auth": "-", "anon": "-"}
			if x, ok := d["defacs"].(map[string]any); ok {
				for _, k := range []string{"auth", "anon"} {
					if s, ok := x[k].(string); ok {
						da[k] = s
					}
				}
			}
			dd["defacs"] = da
			pub, _ := json.Marshal(d["public"])
			prv, _ := json.Marshal(d["private"])
			tru, _ := json.Marshal(d["trusted"])
			dd["public"], dd["private"], dd["trusted"] = string(pub), string(prv), string(tru)
			out["desc"] = dd
		}
		if l, ok := m["sub"].([]any); ok {
			subs := []map[string]any{}
			for _, x := range l {
				s, _ := x.(map[string]any)
				e := map[string]any{"read": num(s, "read"), "recv": num(s, "recv"), "clear": num(s, "clear"),
					"online": s["online"] == true, "seq": num(s, "seq")}
				if u, ok := s["user"].(string); ok {
					e["user"] = w.absUser(u)
				} else {
					e["user"] = ""
				}
				if tn, ok := s["topic"].(string); ok {
					e["topic"], _ = w.absTopic(vs, tn)
				} else {
					e["topic"] = ""
				}
				if a := acs(s["acs"]); a != nil {
					e["acs"] = a
				} else {
					e["acs"] = map[string]any{"want": "-", "given": "-", "mode": "-"}
				}
				_, e["deleted"] = s["deleted"]
				prv, _ := json.Marshal(s["private"])
				e["private"] = string(prv)
				subs = append(subs, e)
			}
			sort.Slice(subs, func(i, j int) bool {
				return fmt.Sprint(subs[i]["user"], subs[i]["topic"]) < fmt.Sprint(subs[j]["user"], subs[j]["topic"])
			})
			out["sub"] = subs
		}
		if d, ok := m["del"].(map[string]any); ok {
			ds := [][]int{}
			if l, ok := d["delseq"].([]any); ok {
				for _, x := range l {
					xm, _ := x.(map[string]any)
					ds = append(ds, []int{num(xm, "low"), num(xm, "hi")})
				}
			}
			out["del"] = map[string]any{"clear": num(d, "clear"), "delseq": ds}
		}
		if l, ok := m["tags"].([]any); ok {
			out["tags"] = l
		}
	default:
		out["k"] = "raw"
		out["raw"] = fmt.Sprint(f)
	}
	return out
}

func verifState(s types.ObjState) string {
	switch s {
	case types.StateOK:
		return "ok"
	case types.StateSuspended:
		return "susp"
	case types.StateDeleted:
		return "del"
	}
	return "undef"
}

// snapshot projects store rows and loaded-topic caches into abstract names. Only call at quiescence.
func (r *verifRunner) snapshot() map[string]any {
	w := r.w
	d := memadp.Get().Dump()
	users := r.sortedKeys(r.b.Cfg.Users)
	st := map[string]any{}
	topics := map[string]any{}
	subs := map[string]any{}
	csubs := map[string]any{}
	msgs := map[string]any{}
	dlog := map[string]any{}
	cache := map[string]any{}
	for _, tn := range r.b.Cfg.Topics {
		cn := w.canon(tn)
		trow := map[string]any{"ischan": false, "exists": false, "seq": 0, "delId": 0, "owner": "", "auth": []string{}, "anon": []string{}, "state": "undef", "tags": []string{}, "public": "null", "trusted": "null"}
		for _, t := range d.Topics {
			if t.Name == cn && cn != "" {
				pub, _ := json.Marshal(t.Public)
				tru, _ := json.Marshal(t.Trusted)
				tags := t.Tags
				if tags == nil {
					tags = []string{}
				}
				trow = map[string]any{"ischan": t.UseBt, "exists": true, "seq": t.SeqId, "delId": t.DelId, "owner": w.absUser(t.OwnerId),
					"auth": verifModeList(t.AccessAuth), "anon": verifModeList(t.AccessAnon), "state": t.State, "tags": tags,
					"public": string(pub), "trusted": string(tru)}
			}
		}
		topics[tn] = trow
		su := map[string]any{}
		for _, u := range users {
			su[u] = map[string]any{"st": "none", "want": []string{}, "given": []string{}, "read": 0, "recv": 0, "delId": 0, "private": "null"}
		}
		for _, s := range d.Subs {
			if s.Topic == cn && cn != "" {
				u := w.absUser(s.UserId)
				if _, ok := su[u]; !ok {
					continue
				}
				state := "live"
				if s.DeletedAt != nil {
					state = "del"
				}
				prv, _ := json.Marshal(s.Private)
				su[u] = map[string]any{"st": state, "want": verifModeList(s.ModeWant), "given": verifModeList(s.ModeGiven),
					"read": s.ReadSeqId, "recv": s.RecvSeqId, "delId": s.DelId, "private": string(prv)}
			}
		}
		subs[tn] = su
		// channel readers' subscriptions are stored under the chnXXX spelling of the topic name
		cu := map[string]any{}
		for _, u := range users {
			cu[u] = map[string]any{"st": "none", "want": []string{}, "given": []string{}, "read": 0, "recv": 0, "delId": 0, "private": "null"}
		}
		if strings.HasPrefix(cn, "grp") {
			chn := types.GrpToChn(cn)
			for _, s := range d.Subs {
				if s.Topic == chn {
					u := w.absUser(s.UserId)
					if _, ok := cu[u]; !ok {
						continue
					}
					state := "live"
					if s.DeletedAt != nil {
						state = "del"
					}
					cu[u] = map[string]any{"st": state, "want": verifModeList(s.ModeWant), "given": verifModeList(s.ModeGiven),
						"read": s.ReadSeqId, "recv": s.RecvSeqId, "delId": s.DelId, "private": "null"}
				}
			}
		}
		csubs[tn] = cu
		ml := []map[string]any{}
		for _, m := range d.Messages {
			if m.Topic == cn && cn != "" {
				c, _ := json.Marshal(m.Content)
				if cs, ok := m.Content.(string); ok {
					c = []byte(cs)
				}
				h := m.Head
				if h == nil {
					h = map[string]any{}
				}
				ml = append(ml, map[string]any{"seq": m.SeqId, "from": w.absUser(m.FromId), "delId": m.DelId, "content": string(c), "head": h})
			}
		}
		msgs[tn] = ml
		dl := []map[string]any{}
		for _, e := range d.DelLog {
			if e.Topic == cn && cn != "" {
				f := "all"
				if e.DeletedFor != 0 {
					f = w.absUser(e.DeletedForId)
				}
				dl = append(dl, map[string]any{"delId": e.DelId, "for": f, "low": e.Low, "hi": e.Hi})
			}
		}
		dlog[tn] = dl
		// cache projection
		c := map[string]any{"loaded": false}
		if tp := w.hub.topicGet(cn); tp != nil && cn != "" && !tp.isInactive() {
			per := map[string]any{}
			for _, u := range users {
				per[u] = map[string]any{"in": false, "want": []string{}, "given": []string{}, "read": 0, "recv": 0, "delId": 0, "online": 0, "deleted": false, "ischan": false}
			}
			for uid, pud := range tp.perUser {
				u := w.absUser(uid.UserId())
				if _, ok := per[u]; !ok {
					continue
				}
				per[u] = map[string]any{"in": true, "want": verifModeOf(pud.modeWant), "given": verifModeOf(pud.modeGiven), "read": pud.readID, "recv": pud.recvID,
					"delId": pud.delID, "online": pud.online, "deleted": pud.deleted, "ischan": pud.isChan}
			}
			att := []map[string]any{}
			for s, pssd := range tp.sessions {
				name := ""
				for n, vs := range w.sess {
					if vs.s == s {
						name = n
					}
				}
				if name == "" {
					continue
				}
				att = append(att, map[string]any{"s": name, "u": w.absUser(pssd.uid.UserId()), "chan": pssd.isChanSub})
			}
			sort.Slice(att, func(i, j int) bool { return fmt.Sprint(att[i]["s"]) < fmt.Sprint(att[j]["s"]) })
			tags := tp.tags
			if tags == nil {
				tags = []string{}
			}
			call := map[string]any{"active": false, "seq": 0}
			if tp.currentCall != nil {
				call = map[string]any{"active": true, "seq": tp.currentCall.seq}
			}
			c = map[string]any{"loaded": true, "last": tp.lastID, "del": tp.delID, "owner": w.absUser(verifUidStr(tp.owner)),
				"auth": verifModeOf(tp.accessAuth), "anon": verifModeOf(tp.accessAnon), "per": per, "att": att, "ischan": tp.isChan,
				"tags": tags, "readonly": tp.isReadOnly(), "call": call}
		}
		cache[tn] = c
	}
	us := map[string]any{}
	for _, u := range users {
		e := map[string]any{"exists": false, "state": "undef", "tags": []string{}}
		if uid, ok := w.users[u]; ok {
			for _, x := range d.Users {
				if x.Uid == uint64(uid) {
					tags := x.Tags
					if tags == nil {
						tags = []string{}
					}
					e = map[string]any{"exists": true, "state": x.State, "tags": tags}
				}
			}
		}
		us[u] = e
	}
	ss := map[string]any{}
	for _, s := range r.sortedKeys(r.b.Cfg.Sess) {
		vs := w.sess[s]
		e := map[string]any{"live": false, "uid": "", "lvl": "", "subs": []string{}, "bg": false}
		if vs != nil && !vs.dead {
			sl := []string{}
			vs.s.subsLock.RLock()
			for tn := range vs.s.subs {
				a, _ := w.absTopic(vs, tn)
				if tn == vs.s.uid.UserId() {
					a = "me"
				}
				sl = append(sl, a)
			}
			vs.s.subsLock.RUnlock()
			sort.Strings(sl)
			e = map[string]any{"live": atomic.LoadInt32(&vs.s.terminating) == 0, "uid": w.absUser(verifUidStr(vs.s.uid)), "lvl": vs.s.authLvl.String(), "subs": sl, "bg": vs.s.background}
		}
		ss[s] = e
	}
	st["topics"], st["subs"], st["msgs"], st["dlog"], st["cache"], st["users"], st["sess"] = topics, subs, msgs, dlog, cache, us, ss
	st["csubs"] = csubs
	return st
}

func verifUidStr(u types.Uid) string {
	if u.IsZero() {
		return ""
	}
	return u.UserId()
}

func (r *verifRunner) record(i int, a map[string]any, id string, stepErr error) {
	w := r.w
	frames := map[string]any{}
	var reply any
	for _, s := range r.sortedKeys(r.b.Cfg.Sess) {
		l := []map[string]any{}
		if vs := w.sess[s]; vs != nil {
			for _, f := range vs.take() {
				af := r.absFrame(vs, f)
				if id != "" && af["id"] == id && reply == nil && s == verifStr(a, "s") && (af["k"] == "ctrl" || af["k"] == "meta") {
					reply = af
				}
				l = append(l, af)
			}
		}
		frames[s] = l
	}
	pushes := []map[string]any{}
	for _, rc := range verifPush.take() {
		to := []string{}
		for uid := range rc.To {
			to = append(to, w.absUser(uid.UserId()))
		}
		sort.Strings(to)
		tp, _ := w.absTopic(nil, rc.Payload.Topic)
		ch, isch := w.absTopic(nil, rc.Channel)
		if rc.Channel == "" {
			ch = ""
		}
		pushes = append(pushes, map[string]any{"to": to, "what": rc.Payload.What, "topic": tp, "rawtopic": rc.Payload.Topic, "from": w.absUser(rc.Payload.From),
			"seq": rc.Payload.SeqId, "channel": ch, "chanIsChn": isch, "silent": rc.Payload.Silent})
	}
	w.hookMu.Lock()
	calls := w.callLog
	w.callLog = nil
	faultFired := w.fault != nil && (w.fault.fired || w.fault.Mode == "dead")
	if w.fault != nil && w.fault.Mode != "dead" && verifStr(a, "a") != "Fault" {
		w.fault = nil
	}
	w.hookMu.Unlock()
	if calls == nil {
		calls = []string{}
	}
	if r.afterCrash == nil {
		r.afterCrash = map[string]bool{}
	}
	ac := r.afterCrash[verifStr(a, "t")]
	if verifStr(a, "a") == "Restart" || (verifStr(a, "a") == "Fault" && verifStr(a, "mode") == "crash") {
		for _, tn := range r.b.Cfg.Topics {
			r.afterCrash[tn] = true
		}
	}
	if verifStr(a, "a") == "Pub" {
		if rm, ok := reply.(map[string]any); ok {
			if c, _ := rm["code"].(int); c == 202 {
				r.afterCrash[verifStr(a, "t")] = false
			}
		}
	}
	rec := map[string]any{"b": r.b.Id, "i": i, "act": a, "rid": id, "reply": reply, "afterCrash": ac, "frames": frames, "push": pushes,
		"st": r.snapshot(), "calls": calls, "faultFired": faultFired, "err": ""}
	if reply == nil {
		rec["reply"] = map[string]any{"k": "none", "code": 0}
	}
	nested := map[string]any{"fired": false, "code": 0, "act": map[string]any{"a": "none"}, "method": ""}
	if r.nested != nil {
		nested["act"], nested["method"], nested["fired"] = r.nested["act"], r.nested["method"], r.nested["fired"]
		if nid, _ := r.nested["rid"].(string); nid != "" {
			if na, ok := r.nested["act"].(map[string]any); ok {
				if fl, ok := frames[verifStr(na, "s")].([]map[string]any); ok {
					for _, f := range fl {
						if f["id"] == nid {
							if c, ok := f["code"].(int); ok {
								nested["code"] = c
							} else if f["k"] == "meta" {
								nested["code"] = 200
							}
						}
					}
				}
			}
		}
		r.nested = nil
	}
	rec["nested"] = nested
	for _, f := range verifExtraRecord {
		f(r, rec)
	}
	if stepErr != nil {
		rec["err"] = stepErr.Error()
	}
	if err := r.out.Encode(rec); err != nil {
		r.t.Fatal(err)
	}
}

func verifRunBehaviour(t testing.TB, b *verifBehaviour, out *json.Encoder) (err error) {
	r := &verifRunner{b: b, out: out, t: t}
	if err := r.openWorld(false); err != nil {
		return err
	}
	defer func() {
		if r.w != nil {
			r.w.close()
		}
	}()
	if err := r.connectAll(nil); err != nil {
		return fmt.Errorf("setup: %w", err)
	}
	verifPush.take()
	r.w.hookMu.Lock()
	r.w.callLog = nil
	r.w.hookMu.Unlock()
	r.record(0, map[string]any{"a": "Init"}, "", nil)
	for i, a := range b.Steps {
		id, serr := r.step(a)
		if serr == nil {
			serr = r.w.quiesce()
		}
		r.record(i+1, a, id, serr)
		if serr != nil {
			return fmt.Errorf("behaviour %s step %d (%v): %w", b.Id, i+1, a, serr)
		}
	}
	return nil
}

func TestVerifReplay(t *testing.T) {
	in, outp := os.Getenv("VERIF_IN"), os.Getenv("VERIF_OUT")
	if in == "" || outp == "" {
		t.Skip("VERIF_IN / VERIF_OUT not set")
	}
	fin, err := os.Open(in)
	if err != nil {
		t.Fatal(err)
	}
	defer fin.Close()
	fout, err := os.Create(outp)
	if err != nil {
		t.Fatal(err)
	}
	defer fout.Close()
	bw := bufio.NewWriterSize(fout, 1<<20)
	defer bw.Flush()
	enc := json.NewEncoder(bw)
	sc := bufio.NewScanner(fin)
	sc.Buffer(make([]byte, 1<<20), 1<<26)
	n, infra := 0, 0
	for sc.Scan() {
		line := strings.TrimSpace(sc.Text())
		if line == "" {
			continue
		}
		var b verifBehaviour
		if err := json.Unmarshal([]byte(line), &b); err != nil {
			t.Fatalf("bad behaviour line: %v", err)
		}
		n++
		if err := verifRunBehaviour(t, &b, enc); err != nil {
			infra++
			t.Logf("INFRA %v", err)
			if infra >= 8 {
				t.Logf("too many behaviours with infrastructure errors; aborting the replay early")
				break
			}
			if strings.Contains(err.Error(), "PANIC") {
				t.Logf("server panic recorded for behaviour %s", b.Id)
			}
		}
	}
	t.Logf("replayed %d behaviours, %d with infrastructure errors", n, infra)
	if infra > 0 && os.Getenv("VERIF_TOLERATE_INFRA") == "" {
		t.Fatalf("%d behaviours hit infrastructure errors", infra)
	}
}
