//go:build verif

package main

// Account suspension for the World (used by C03's clause "the topic is neither ... nor suspended"):
//   action  Suspend{s:<root session>, u:<user>, on:bool}  = the root session sends {acc user=usrX state="suspended"|"ok"}
//   record  rec["susp"] = {users:[abstract users whose STORED account state is suspended], ro:[topics whose LIVE topic is read-only]}
//   act     a["nopred"] = true on every step taken while some account is suspended (and on the Suspend step itself): TopicCore does not
//           model suspension, such steps are judged by the monitors only (Step returns "not predicted").

import (
	"sort"

	"github.com/tinode/chat/server/db/memadp"
	"github.com/tinode/chat/server/store/types"
)

// suspended users as of the previous record of the same runner (= the pre-state of the current step)
var verifSuspPrev = map[*verifRunner][]string{}

func init() {
	verifExtraActions["Suspend"] = func(r *verifRunner, a map[string]any) (string, error) {
		w := r.w
		vs := w.sess[verifStr(a, "s")]
		if vs == nil || vs.dead {
			return "", nil
		}
		uid, ok := w.users[verifStr(a, "u")]
		if !ok {
			return "", nil
		}
		state := "ok"
		if on, _ := a["on"].(bool); on {
			state = "susp"
		}
		id := w.id()
		return id, w.send(vs, map[string]any{"acc": map[string]any{"id": id, "user": uid.UserId(), "status": state}}, true)
	}

	verifExtraRecord = append(verifExtraRecord, func(r *verifRunner, rec map[string]any) {
		w := r.w
		susp := []string{}
		d := memadp.Get().Dump() // read past the adapter hooks: not an adapter call of the request
		for name, uid := range w.users {
			for _, u := range d.Users {
				if u.UserId == uid.UserId() && u.State == types.StateSuspended.String() {
					susp = append(susp, name)
				}
			}
		}
		sort.Strings(susp)
		ro := []string{}
		for _, tn := range r.b.Cfg.Topics {
			if tp := w.hub.topicGet(w.canon(tn)); tp != nil && tp.isReadOnly() {
				ro = append(ro, tn)
			}
		}
		sort.Strings(ro)
		rec["susp"] = map[string]any{"users": susp, "ro": ro}
		if i, _ := rec["i"].(int); i == 0 {
			delete(verifSuspPrev, r)
		}
		if a, ok := rec["act"].(map[string]any); ok {
			if len(verifSuspPrev[r]) > 0 || verifStr(a, "a") == "Suspend" {
				a["nopred"] = true
			}
		}
		verifSuspPrev[r] = susp
	})
}
