package main

// Verification harness (overlay, never written to /repo): the World.
// An in-process tinode server assembled from the REAL hub/topic/session/user-cache/store-mapper code
// over the in-memory reference adapter memadp, driven one abstract step at a time to quiescence.
// It only RECORDS (requests, frames, push receipts, store rows, projected topic caches);
// the TLA+ monitors decide.

import (
	"container/list"
	"encoding/base64"
	"encoding/json"
	"errors"
	"fmt"
	"io"
	"os"
	"sort"
	"strings"
	"sync"
	"sync/atomic"
	"testing"
	"time"

	"github.com/gorilla/websocket"
	"github.com/tinode/chat/server/auth"
	_ "github.com/tinode/chat/server/auth/basic"
	_ "github.com/tinode/chat/server/auth/code"
	_ "github.com/tinode/chat/server/auth/token"
	"github.com/tinode/chat/server/db/memadp"
	"github.com/tinode/chat/server/logs"
	"github.com/tinode/chat/server/push"
	"github.com/tinode/chat/server/store"
	"github.com/tinode/chat/server/store/types"
)

// ---------------------------------------------------------------- push capture

type verifPushHandler struct {
	ch   chan *push.Receipt
	chn  chan *push.ChannelReq
	mu   sync.Mutex
	rcpt []*push.Receipt
}

var verifPush = &verifPushHandler{ch: make(chan *push.Receipt, 1024), chn: make(chan *push.ChannelReq, 1024)}

func (h *verifPushHandler) Init(json.RawMessage) (bool, error) { return true, nil }
func (h *verifPushHandler) IsReady() bool                      { return true }
func (h *verifPushHandler) Push() chan<- *push.Receipt         { return h.ch }
func (h *verifPushHandler) Channel() chan<- *push.ChannelReq   { return h.chn }
func (h *verifPushHandler) Stop()                              {}
func (h *verifPushHandler) run() {
	for {
		select {
		case r := <-h.ch:
			h.mu.Lock()
			h.rcpt = append(h.rcpt, r)
			h.mu.Unlock()
		case <-h.chn:
		}
	}
}
func (h *verifPushHandler) take() []*push.Receipt {
	h.mu.Lock()
	defer h.mu.Unlock()
	r := h.rcpt
	h.rcpt = nil
	return r
}

// ---------------------------------------------------------------- process-wide init

var verifInitOnce sync.Once

type verifConfig struct {
	MaxSubs int  `json:"maxSubs"`
	Calls   bool `json:"calls"`
}

func verifProcessInit() {
	verifInitOnce.Do(func() {
		if os.Getenv("VERIF_LOG") != "" {
			logs.Init(os.Stderr, "stdFlags")
		} else {
			logs.Init(io.Discard, "stdFlags")
		}
		err := store.Store.Open(1, json.RawMessage(`{"uid_key":"la6YsO+bNX/+XIkOqc5Svw==","max_results":1024,"use_adapter":"memadp","adapters":{"memadp":{}}}`))
		if err != nil {
			panic("verif: store open: " + err.Error())
		}
		if err := store.InitAuthLogicalNames(nil); err != nil {
			panic(err)
		}
		confs := map[string]string{
			"basic": `{"add_to_tags": true, "min_login_length": 2, "min_password_length": 2}`,
			"token": `{"expire_in": 1209600, "serial_num": 1, "key": "wfaY2RgF2S1OQI/ZlK+LSrp1KB2jwAdGAIHQ7JZn+Kc="}`,
			"code":  `{"expire_in": 900, "max_retries": 3, "code_length": 6}`,
		}
		globals.immutableTagNS = map[string]bool{}
		for name, c := range confs {
			h := store.Store.GetLogicalAuthHandler(name)
			if h == nil {
				panic("verif: no auth handler " + name)
			}
			if err := h.Init(json.RawMessage(c), name); err != nil {
				panic("verif: auth init " + name + ": " + err.Error())
			}
			if tags, err := h.RestrictedTags(); err == nil {
				for _, tg := range tags {
					globals.immutableTagNS[tg] = true
				}
			}
		}
		globals.maskedTagNS = map[string]bool{}
		globals.maxMessageSize = 1 << 18
		globals.maxSubscriberCount = 32
		globals.maxTagCount = 16
		globals.defaultCountryCode = "US"
		globals.apiKeySalt, _ = base64.StdEncoding.DecodeString("T713/rYYgW7g4m3vG6zGRh7+FM1t0T8j13koXScOAj4=")
		push.Register("verif", verifPush)
		if _, err := push.Init(json.RawMessage(`[{"name":"verif","config":{}}]`)); err != nil {
			panic(err)
		}
		go verifPush.run()
	})
}

// ---------------------------------------------------------------- sessions

type verifFrame map[string]any

type verifSess struct {
	name   string // abstract name, e.g. "s1"
	user   string // abstract user, e.g. "u1"
	s      *Session
	mu     sync.Mutex
	frames []verifFrame // decoded JSON of everything the write loop would have written
	nfr    int64        // total frames ever received (atomic)
	done   chan struct{}
	dead   bool
	// set by the writer when the server told the session to stop (eviction, account deletion): the connection is closed
	stopped int32
}

// writer plays Session.writeLoop for a socket-less websocket-flavoured session.
func (vs *verifSess) writer() {
	defer close(vs.done)
	s := vs.s
	push := func(m *ServerComMessage) {
		_, data := s.serialize(m)
		vs.record(data)
	}
	for {
		select {
		case msg, ok := <-s.send:
			if !ok {
				return
			}
			switch v := msg.(type) {
			case []*ServerComMessage:
				for _, m := range v {
					push(m)
				}
			case *ServerComMessage:
				push(v)
			default:
				vs.record(v)
			}
		case <-s.bkgTimer.C:
			if s.background {
				s.background = false
				s.onBackgroundTimer()
			}
		case msg := <-s.stop:
			if msg != nil {
				vs.record(msg)
			}
			// the real write loop returns here, which closes the socket; the read loop then ends and runs cleanUp (reapStopped)
			atomic.StoreInt32(&vs.stopped, 1)
			return
		case topic := <-s.detach:
			s.delSub(topic)
		}
	}
}

func (vs *verifSess) record(data any) {
	b, ok := data.([]byte)
	var f verifFrame
	if !ok {
		f = verifFrame{"raw": fmt.Sprint(data)}
	} else if err := json.Unmarshal(b, &f); err != nil {
		f = verifFrame{"raw": string(b)}
	}
	vs.mu.Lock()
	vs.frames = append(vs.frames, f)
	vs.mu.Unlock()
	atomic.AddInt64(&vs.nfr, 1)
}

func (vs *verifSess) take() []verifFrame {
	vs.mu.Lock()
	defer vs.mu.Unlock()
	f := vs.frames
	vs.frames = nil
	return f
}

// ---------------------------------------------------------------- world

type verifWorld struct {
	t       testing.TB
	hub     *Hub
	sess    map[string]*verifSess // by abstract name
	probe   *verifSess
	users   map[string]types.Uid // abstract user -> uid
	uname   map[string]string    // "usrXXX" -> abstract user
	topics  map[string]string    // abstract topic -> concrete canonical name (grpXXX, p2pXXX)
	tname   map[string]string    // concrete -> abstract
	nextID  int
	sidSeq  int
	cfg     verifConfig
	hookMu  sync.Mutex
	fault   *verifFault
	callLog []string
}

type verifFault struct {
	Method string // adapter method name, "" = any
	Nth    int    // 1-based ordinal among matching calls within the current step
	Mode   string // "error" | "crash"
	seen   int
	fired  bool
}

type verifCrash struct{}

// hook counters (verifSink is installed once per process; worlds are sequential)
var verifUsersUpdRecv, verifUsersIOStart, verifUsersIORecv int64

func verifSinkFn(ev string, args ...any) {
	switch ev {
	case "users.upd.recv":
		atomic.AddInt64(&verifUsersUpdRecv, 1)
	case "users.io.start":
		atomic.AddInt64(&verifUsersIOStart, 1)
	case "users.io.recv":
		atomic.AddInt64(&verifUsersIORecv, 1)
	}
	if verifExtraSink != nil {
		verifExtraSink(ev, args...)
	}
}

var verifExtraSink func(ev string, args ...any)

// usersBarrier: the user-cache goroutine is sequential; when it has RECEIVED a later request it has finished the
// earlier ones. Returns false on timeout.
func (w *verifWorld) usersBarrier() bool {
	deadline := time.Now().Add(time.Second)
	for len(globals.usersUpdate) != 0 {
		if time.Now().After(deadline) {
			return false
		}
		time.Sleep(20 * time.Microsecond)
	}
	before := atomic.LoadInt64(&verifUsersUpdRecv)
	select {
	case globals.usersUpdate <- &UserCacheReq{UserId: types.Uid(0x7fffffffffff), Gone: true}:
	default:
		return false
	}
	for atomic.LoadInt64(&verifUsersUpdRecv) <= before {
		if time.Now().After(deadline) {
			return false
		}
		time.Sleep(20 * time.Microsecond)
	}
	return true
}

// usersQuiet: no unread-count IO in flight and everything queued so far has been processed (pushes handed to the handlers).
func (w *verifWorld) usersQuiet() bool {
	for i := 0; i < 3; i++ {
		if !w.usersBarrier() {
			return false
		}
		if atomic.LoadInt64(&verifUsersIOStart) != atomic.LoadInt64(&verifUsersIORecv) {
			time.Sleep(50 * time.Microsecond)
			return false
		}
	}
	// one more barrier: the processing of the last received IO result is complete once a later request is received
	return w.usersBarrier() && len(verifPush.ch) == 0
}

var verifWorldSeq int

func verifNewWorld(t testing.TB, cfg verifConfig, keepStore bool) *verifWorld {
	verifProcessInit()
	if !keepStore {
		memadp.Get().Reset()
	}
	memadp.Hook = nil
	verifPush.take()
	if cfg.MaxSubs > 0 {
		globals.maxSubscriberCount = cfg.MaxSubs
	} else {
		globals.maxSubscriberCount = 32
	}
	if cfg.Calls {
		globals.callEstablishmentTimeout = 30
		globals.iceServers = []iceServer{{Urls: []string{"stun:verif.invalid"}}}
	} else {
		globals.callEstablishmentTimeout = 0
		globals.iceServers = nil
	}
	verifWorldSeq++
	w := &verifWorld{t: t, cfg: cfg, sess: map[string]*verifSess{}, users: map[string]types.Uid{}, uname: map[string]string{},
		topics: map[string]string{}, tname: map[string]string{}}
	h := &Hub{
		topics:     &sync.Map{},
		routeCli:   make(chan *ClientComMessage, 4096),
		routeSrv:   make(chan *ServerComMessage, 4096),
		join:       make(chan *ClientComMessage, 256),
		unreg:      make(chan *topicUnreg, 256),
		rehash:     make(chan bool),
		meta:       make(chan *ClientComMessage, 128),
		userStatus: make(chan *userStatusReq, 128),
		shutdown:   make(chan chan<- bool),
	}
	w.hub = h
	globals.hub = h
	globals.shuttingDown = false
	globals.sessionStore = &SessionStore{lru: list.New(), lifeTime: time.Hour, sessCache: make(map[string]*Session)}
	usersInit()
	go h.run()
	h.join <- &ClientComMessage{RcptTo: "sys", Original: "sys"}
	w.probe = w.rawSession("probe", "")
	memadp.Hook = w.adapterHook
	verifSink = verifSinkFn
	return w
}

// adapterHook: call log + fault plan (error or crash at the n-th matching adapter call of the current step).
func (w *verifWorld) adapterHook(method string, args ...any) error {
	w.hookMu.Lock()
	defer w.hookMu.Unlock()
	w.callLog = append(w.callLog, method)
	f := w.fault
	if f == nil || f.fired || (f.Method != "" && f.Method != method) {
		return nil
	}
	f.seen++
	if f.seen != f.Nth {
		return nil
	}
	f.fired = true
	if f.Mode == "crash" {
		// The process "dies" here: every later adapter call of this world fails too.
		f.fired = false
		f.Nth = f.seen + 1
		f.Method = ""
		f.Mode = "dead"
		return errors.New("verif: process crashed")
	}
	if f.Mode == "dead" {
		f.fired = false
		f.Nth = f.seen + 1
		return errors.New("verif: process crashed")
	}
	return errors.New("verif: injected store fault")
}

func (w *verifWorld) rawSession(name, user string) *verifSess {
	w.sidSeq++
	sid := fmt.Sprintf("vs%d_%d_%s", verifWorldSeq, w.sidSeq, name)
	s, _ := globals.sessionStore.NewSession((*websocket.Conn)(nil), sid)
	s.remoteAddr = "127.0.0.1"
	vs := &verifSess{name: name, user: user, s: s, done: make(chan struct{})}
	go vs.writer()
	return vs
}

// close shuts the world down through the real shutdown path.
func (w *verifWorld) close() {
	memadp.Hook = nil
	for _, vs := range w.sess {
		w.kill(vs)
	}
	w.kill(w.probe)
	globals.shuttingDown = true
	done := make(chan bool)
	select {
	case w.hub.shutdown <- done:
		select {
		case <-done:
		case <-time.After(3 * time.Second):
		}
	case <-time.After(3 * time.Second):
	}
	globals.shuttingDown = false
	// The user-cache goroutine nils the GLOBAL channel when it sees the shutdown request: wait for that to happen
	// before the next world installs its own channel.
	old := globals.usersUpdate
	usersShutdown()
	for i := 0; i < 20000 && globals.usersUpdate != nil && globals.usersUpdate == old; i++ {
		time.Sleep(50 * time.Microsecond)
	}
}

// abandon = crash: nothing is told anything; goroutines of the old world are left to die with their hub.
func (w *verifWorld) abandon() {
	w.hookMu.Lock()
	w.fault = &verifFault{Mode: "dead", Nth: 1}
	w.hookMu.Unlock()
	for _, vs := range w.sess {
		vs.dead = true
	}
	// Give parked actors a way out without touching the store: real shutdown path, but with the store dead.
	go func(h *Hub) {
		done := make(chan bool)
		select {
		case h.shutdown <- done:
			select {
			case <-done:
			case <-time.After(2 * time.Second):
			}
		case <-time.After(2 * time.Second):
		}
	}(w.hub)
	time.Sleep(5 * time.Millisecond)
}

func (w *verifWorld) kill(vs *verifSess) {
	if vs == nil || vs.dead {
		return
	}
	vs.dead = true
	cdone := make(chan struct{})
	go func() {
		defer close(cdone)
		defer func() { recover() }()
		vs.s.cleanUp(false)
	}()
	select {
	case <-cdone:
	case <-time.After(2 * time.Second):
		// a cleanUp that never returns is recorded by the caller as a hang (C14); the harness must not hang with it
		verifHungCleanups++
		return
	}
	select {
	case <-vs.done:
	case <-time.After(2 * time.Second):
	}
}

var verifHungCleanups int

// ---------------------------------------------------------------- quiescence

func (w *verifWorld) allSess() []*verifSess {
	out := []*verifSess{w.probe}
	for _, vs := range w.sess {
		if !vs.dead {
			out = append(out, vs)
		}
	}
	return out
}

func (w *verifWorld) chansEmpty() bool {
	h := w.hub
	if len(h.routeCli)+len(h.routeSrv)+len(h.join)+len(h.unreg)+len(h.meta)+len(h.userStatus) != 0 {
		return false
	}
	if len(globals.usersUpdate) != 0 || len(verifPush.ch) != 0 {
		return false
	}
	ok := true
	h.topics.Range(func(_, v any) bool {
		t := v.(*Topic)
		if len(t.clientMsg)+len(t.serverMsg)+len(t.meta)+len(t.reg)+len(t.unreg)+len(t.exit) != 0 {
			ok = false
			return false
		}
		if t.isInactive() && !t.isDeleted() {
			// still initialising (paused); not quiescent. (deleted topics are about to vanish: wait too)
			ok = false
			return false
		}
		if t.isDeleted() {
			ok = false
			return false
		}
		return true
	})
	if !ok {
		return false
	}
	for _, vs := range w.allSess() {
		if len(vs.s.send)+len(vs.s.detach) != 0 {
			return false
		}
	}
	return true
}

func (w *verifWorld) frameCount() int64 {
	var n int64
	for _, vs := range w.allSess() {
		n += atomic.LoadInt64(&vs.nfr)
	}
	return n
}

// waitProbe waits until the probe session has received a frame carrying the given id.
func (w *verifWorld) waitFrame(vs *verifSess, id string, d time.Duration) bool {
	deadline := time.Now().Add(d)
	for {
		vs.mu.Lock()
		for _, f := range vs.frames {
			for _, k := range []string{"ctrl", "meta"} {
				if m, ok := f[k].(map[string]any); ok && m["id"] == id {
					vs.mu.Unlock()
					return true
				}
			}
		}
		vs.mu.Unlock()
		if time.Now().After(deadline) {
			return false
		}
		time.Sleep(50 * time.Microsecond)
	}
}

func (w *verifWorld) probeAll() bool {
	// hub: a {pub} to a topic that does not exist is answered by the hub itself (202)
	w.nextID++
	id := fmt.Sprintf("probe%d", w.nextID)
	w.hub.routeCli <- &ClientComMessage{Id: id, RcptTo: "grpVerifNoSuchTopic", Original: "grpVerifNoSuchTopic",
		Pub: &MsgClientPub{Id: id, Topic: "grpVerifNoSuchTopic"}, sess: w.probe.s, Timestamp: time.Now()}
	if !w.waitFrame(w.probe, id, 5*time.Second) {
		return false
	}
	// topics: {get desc} placed on the meta channel; the actor answers in order
	var ids []string
	w.hub.topics.Range(func(_, v any) bool {
		t := v.(*Topic)
		if t.isInactive() {
			return true
		}
		w.nextID++
		id := fmt.Sprintf("probe%d", w.nextID)
		msg := &ClientComMessage{Id: id, RcptTo: t.name, Original: t.name, AsUser: types.Uid(1).UserId(), AuthLvl: int(auth.LevelRoot),
			Get: &MsgClientGet{Id: id, Topic: t.name, MsgGetQuery: MsgGetQuery{What: "tags"}}, MetaWhat: constMsgMetaTags,
			sess: w.probe.s, Timestamp: time.Now(), init: true}
		select {
		case t.meta <- msg:
			ids = append(ids, id)
		default:
		}
		return true
	})
	for _, id := range ids {
		if !w.waitFrame(w.probe, id, 5*time.Second) {
			return false
		}
	}
	w.probe.take()
	return true
}

// quiesce: two consecutive stable rounds of (channels empty -> probe every actor -> channels empty, no new frames).
// reapStopped plays the read loop's end for sessions the server has stopped: the socket is closed, cleanUp runs.
func (w *verifWorld) reapStopped() {
	for _, vs := range w.sess {
		if vs != nil && !vs.dead && atomic.LoadInt32(&vs.stopped) == 1 {
			w.kill(vs)
		}
	}
}

func (w *verifWorld) quiesce() error {
	deadline := time.Now().Add(15 * time.Second)
	stable := 0
	for stable < 2 {
		if time.Now().After(deadline) {
			return errors.New("world did not quiesce within 15s")
		}
		w.reapStopped()
		if !w.chansEmpty() {
			stable = 0
			time.Sleep(100 * time.Microsecond)
			continue
		}
		before := w.frameCount()
		if !w.probeAll() {
			stable = 0
			continue
		}
		// probe replies themselves count as frames of the probe session only
		after := w.frameCount()
		_ = before
		_ = after
		if !w.usersQuiet() || !w.chansEmpty() {
			stable = 0
			continue
		}
		var userFrames int64
		for _, vs := range w.sess {
			userFrames += atomic.LoadInt64(&vs.nfr)
		}
		if stable > 0 && userFrames != w.lastUserFrames() {
			stable = 0
		}
		w.setLastUserFrames(userFrames)
		stable++
	}
	return nil
}

var verifLastUF int64

func (w *verifWorld) lastUserFrames() int64     { return verifLastUF }
func (w *verifWorld) setLastUserFrames(n int64) { verifLastUF = n }

// ---------------------------------------------------------------- requests

// send dispatches one client JSON message on a session and waits for its reply (if it has an id), then quiesces.
func (w *verifWorld) send(vs *verifSess, msg map[string]any, wantReply bool) error {
	b, _ := json.Marshal(msg)
	id := ""
	for _, v := range msg {
		if m, ok := v.(map[string]any); ok {
			if s, ok := m["id"].(string); ok {
				id = s
			}
		}
	}
	donech := make(chan any, 1)
	go func() {
		defer func() { donech <- recover() }()
		vs.s.dispatchRaw(b)
	}()
	select {
	case p := <-donech:
		if p != nil {
			return fmt.Errorf("PANIC in dispatch: %v", p)
		}
	case <-time.After(10 * time.Second):
		return errors.New("dispatch blocked for 10s")
	}
	if wantReply && id != "" {
		if !w.waitFrame(vs, id, 5*time.Second) {
			// not fatal here: recorded as "no reply"; the monitors decide what that means
			if err := w.quiesce(); err != nil {
				return err
			}
			return nil
		}
	}
	return w.quiesce()
}

func (w *verifWorld) id() string {
	w.nextID++
	return fmt.Sprintf("r%d", w.nextID)
}

// login creates (or logs into) the account of abstract user `user` on a fresh session named `name`.
func (w *verifWorld) connect(name, user string, lvl string) (*verifSess, error) {
	vs := w.rawSession(name, user)
	w.sess[name] = vs
	if err := w.send(vs, map[string]any{"hi": map[string]any{"id": w.id(), "ver": "0.22", "ua": "verif/1.0 (test)"}}, true); err != nil {
		return nil, err
	}
	// Accounts are created through the real store mapper; sessions log in with a real token
	// (the {acc}/{login basic} paths are exercised by the session-level properties, not here: bcrypt is slow).
	uid, ok := w.users[user]
	if !ok {
		u := &types.User{Access: types.DefaultAccess{Auth: types.ModeCAuth, Anon: types.ModeNone}, Public: map[string]any{"fn": user}}
		u.State = types.StateOK
		if _, err := store.Users.Create(u, nil); err != nil {
			return nil, fmt.Errorf("account creation for %s failed: %v", user, err)
		}
		uid = u.Uid()
		w.users[user] = uid
		w.uname[uid.UserId()] = user
	}
	al := auth.LevelAuth
	if lvl == "root" {
		al = auth.LevelRoot
	} else if lvl == "anon" {
		al = auth.LevelAnon
	}
	tok, _, err := store.Store.GetLogicalAuthHandler("token").GenSecret(&auth.Rec{Uid: uid, AuthLevel: al, Lifetime: auth.Duration(time.Hour)})
	if err != nil {
		return nil, err
	}
	if err := w.send(vs, map[string]any{"login": map[string]any{"id": w.id(), "scheme": "token", "secret": base64.StdEncoding.EncodeToString(tok)}}, true); err != nil {
		return nil, err
	}
	if vs.s.uid != uid {
		return nil, fmt.Errorf("login for %s failed: %v", user, vs.frames)
	}
	if lvl == "anon" {
		vs.s.authLvl = auth.LevelAnon
	}
	vs.take()
	return vs, nil
}

// ---------------------------------------------------------------- naming

func (w *verifWorld) absUser(id string) string {
	if id == "" {
		return ""
	}
	if u, ok := w.uname[id]; ok {
		return u
	}
	return "?" + id
}

// concrete topic name as the given session must address abstract topic t.
func (w *verifWorld) addr(vs *verifSess, t string, asChan bool) string {
	switch {
	case t == "me" || t == "fnd" || t == "sys":
		return t
	case strings.HasPrefix(t, "fnd:") || strings.HasPrefix(t, "me:"):
		// somebody's (possibly another user's) search / self topic by its raw name
		if c := w.canon(t); c != "" {
			return c
		}
		return "fndNOSUCHUSER"
	case strings.HasPrefix(t, "p"): // p12 = p2p between u1 and u2
		a, b := "u"+t[1:2], "u"+t[2:3]
		other := a
		if vs.user == a {
			other = b
		} else if vs.user != b {
			// a third user cannot name somebody else's p2p topic through a user id: use its canonical name
			if c := w.canon(t); c != "" {
				return c
			}
		}
		if uid, ok := w.users[other]; ok {
			return uid.UserId()
		}
		return "usrNOSUCHUSER"
	case strings.HasPrefix(t, "x"): // deliberately ill-addressed
		return "grpVerifUnknown" + t
	default:
		c, ok := w.topics[t]
		if !ok {
			return "grpVerifUnknown" + t
		}
		if asChan {
			return types.GrpToChn(c)
		}
		return c
	}
}

// canonical (hub) name of an abstract topic, "" if unknown
func (w *verifWorld) canon(t string) string {
	switch {
	case t == "sys":
		return "sys"
	case strings.HasPrefix(t, "p"):
		a, ok1 := w.users["u"+t[1:2]]
		b, ok2 := w.users["u"+t[2:3]]
		if !ok1 || !ok2 {
			return ""
		}
		return a.P2PName(b)
	case strings.HasPrefix(t, "me:"):
		if uid, ok := w.users[t[3:]]; ok {
			return uid.UserId()
		}
		return ""
	case strings.HasPrefix(t, "fnd:"):
		if uid, ok := w.users[t[4:]]; ok {
			return uid.FndName()
		}
		return ""
	default:
		return w.topics[t]
	}
}

// abstract name of a concrete topic name as seen in a frame received by vs.
func (w *verifWorld) absTopic(vs *verifSess, name string) (string, bool) {
	if name == "me" || name == "fnd" || name == "sys" || name == "" {
		return name, false
	}
	if strings.HasPrefix(name, "usr") {
		// p2p topic shown as the other user's id
		o := w.absUser(name)
		if vs != nil && strings.HasPrefix(o, "u") && strings.HasPrefix(vs.user, "u") {
			a, b := vs.user[1:], o[1:]
			if a > b {
				a, b = b, a
			}
			return "p" + a + b, false
		}
		return o, false
	}
	if strings.HasPrefix(name, "chn") {
		if a, ok := w.tname[types.ChnToGrp(name)]; ok {
			return a, true
		}
	}
	if a, ok := w.tname[name]; ok {
		return a, false
	}
	if strings.HasPrefix(name, "p2p") {
		for a, b := range w.users {
			for c, d := range w.users {
				if a < c && b.P2PName(d) == name {
					return "p" + a[1:] + c[1:], false
				}
			}
		}
	}
	return "?" + name, false
}

func verifModeList(s string) []string {
	out := []string{}
	if s == "N" || s == "" {
		return out
	}
	for _, r := range s {
		out = append(out, string(r))
	}
	return out
}

func verifModeOf(m types.AccessMode) []string {
	if m == types.ModeInvalid {
		return []string{"I"}
	}
	out := verifModeList((m & types.ModeBitmask).String())
	if m&types.ModeUnset != 0 && m&types.ModeBitmask == 0 {
		return []string{"U"}
	}
	return out
}

func verifSorted(m map[string]bool) []string {
	out := make([]string, 0, len(m))
	for k := range m {
		out = append(out, k)
	}
	sort.Strings(out)
	return out
}
