----------------------------- MODULE AccessMode -----------------------------
(***************************************************************************)
(* Reference semantics of tinode access modes (server/store/types/types.go *)
(* AccessMode).  A mode is a set of one-letter strings.  The code keeps    *)
(* "unset" and "invalid" as extra bits (0x100, 0x100000); the model keeps  *)
(* them as the extra members "U" and "I", so `ModeUnset|ModeJoin` is       *)
(* {"U","J"} exactly as in ParseAcs.  Text is a sequence of 1-char strings *)
(* (TLC cannot index into strings).                                        *)
(*                                                                         *)
(* DEV_ParseStopsAtN = TRUE is the as-built reading of ParseAcs: scanning  *)
(* stops at the first 'N' and whatever follows is accepted unseen.         *)
(* DEV_DeltaSingleCharNoop = TRUE: ApplyDelta accepts any one-character    *)
(* string as "no change" because its loop needs at least two characters.   *)
(***************************************************************************)
EXTENDS Naturals, Sequences, FiniteSets

CONSTANTS DEV_ParseStopsAtN, DEV_DeltaSingleCharNoop

Letters == <<"J", "R", "W", "P", "A", "S", "D", "O">>
Bits    == {"J", "R", "W", "P", "A", "S", "D", "O"}
Unset   == {"U"}
Invalid == {"I"}
None    == {}
Modes   == SUBSET Bits
Mask(m) == m \cap Bits

ToSet(s) == {s[i] : i \in DOMAIN s}

Upper(c) == CASE c = "j" -> "J" [] c = "r" -> "R" [] c = "w" -> "W" [] c = "p" -> "P"
              [] c = "a" -> "A" [] c = "s" -> "S" [] c = "d" -> "D" [] c = "o" -> "O"
              [] c = "n" -> "N" [] OTHER -> c

IsDefined(m) == m # Invalid /\ m # Unset
IsZero(m)    == m = None

\* Named constants of the code
CFull      == Bits
CPublic    == {"J", "R", "W", "P", "S"}
CSelf      == {"J", "P", "S"}
CP2P       == {"J", "R", "W", "P", "A"}
CAuth      == CP2P \cup CPublic
CReadOnly  == {"J", "R"}
CSys       == {"J", "R", "W", "P", "D"}
CChnWriter == {"R", "W", "P", "S"}
CChnReader == {"J", "R", "P"}
CAdmin     == {"O", "A"}
CSharer    == {"O", "A", "S"}

IsJoiner(m)    == "J" \in m
IsOwner(m)     == "O" \in m
IsApprover(m)  == "A" \in m
IsAdmin(m)     == IsOwner(m) \/ IsApprover(m)
IsSharer(m)    == IsAdmin(m) \/ "S" \in m
IsWriter(m)    == "W" \in m
IsReader(m)    == "R" \in m
IsPresencer(m) == "P" \in m
IsDeleter(m)   == "D" \in m

Effective(want, given) == want \cap given

(* MarshalText *)
TextOk(m) == m # Invalid
Text(m) == IF m = None THEN <<"N">> ELSE SelectSeq(Letters, LAMBDA c : c \in m)

(* ParseAcs: [ok, m]; m keeps the "U" marker the way the code keeps ModeUnset or-ed in *)
RECURSIVE ParseFrom(_, _, _)
ParseFrom(s, i, acc) ==
  IF i > Len(s) THEN [ok |-> TRUE, m |-> acc]
  ELSE LET c == Upper(s[i]) IN
       IF c \in Bits THEN ParseFrom(s, i + 1, acc \cup {c})
       ELSE IF c = "N" THEN
              IF acc # Unset THEN [ok |-> FALSE, m |-> Unset]
              ELSE IF DEV_ParseStopsAtN \/ i = Len(s) THEN [ok |-> TRUE, m |-> None]
              ELSE [ok |-> FALSE, m |-> Unset]
       ELSE [ok |-> FALSE, m |-> Unset]
Parse(s) == ParseFrom(s, 1, Unset)

(* UnmarshalText on a target holding `pre`: [ok, m] *)
Unmarshal(pre, s) ==
  LET r == Parse(s) IN
  IF ~r.ok THEN [ok |-> FALSE, m |-> pre]
  ELSE IF r.m # Unset THEN [ok |-> TRUE, m |-> Mask(r.m)] ELSE [ok |-> TRUE, m |-> pre]

BetterThan(grant, want)  == Mask(grant) \ want # {}
BetterEqual(grant, want) == (Mask(grant) \cap want) = want

(* old.Delta(new) *)
Delta(o, n) ==
  LET rem == Mask(o) \ n
      add == Mask(n) \ o
  IN (IF add # {} THEN <<"+">> \o Text(add) ELSE <<>>) \o
     (IF rem # {} THEN <<"-">> \o Text(rem) ELSE <<>>)

SetMin(S) == CHOOSE x \in S : \A y \in S : x <= y

(* ApplyDelta, transcribed loop; `next` is the 1-based position of the sign, 0 = stop *)
RECURSIVE ApplyFrom(_, _, _, _)
ApplyFrom(pre, d, next, m0) ==
  IF next = 0 \/ next + 1 > Len(d) THEN [ok |-> TRUE, m |-> m0]
  ELSE LET ch    == d[next]
           signs == {j \in (next + 1)..Len(d) : d[j] \in {"+", "-"}}
           end   == IF signs = {} THEN 0 ELSE SetMin(signs)
           chunk == IF end = 0 THEN SubSeq(d, next + 1, Len(d)) ELSE SubSeq(d, next + 1, end - 1)
           upd   == Parse(chunk)
       IN IF ~upd.ok THEN [ok |-> FALSE, m |-> pre]
          ELSE IF ch = "+" THEN ApplyFrom(pre, d, end, IF upd.m # Unset THEN m0 \cup Mask(upd.m) ELSE m0)
          ELSE IF ch = "-" THEN ApplyFrom(pre, d, end, IF upd.m # Unset THEN m0 \ Mask(upd.m) ELSE m0)
          ELSE [ok |-> FALSE, m |-> pre]

ApplyDelta(pre, d) ==
  IF d = <<>> \/ d = <<"N">> THEN [ok |-> TRUE, m |-> pre]
  ELSE IF Len(d) = 1 /\ ~DEV_DeltaSingleCharNoop /\ d[1] \notin {"+", "-"} THEN [ok |-> FALSE, m |-> pre]
  ELSE ApplyFrom(pre, d, 1, pre)

HasSign(d) == \E i \in DOMAIN d : d[i] \in {"+", "-"}

ApplyMutation(pre, d) ==
  IF d = <<>> THEN [ok |-> TRUE, m |-> pre]
  ELSE IF HasSign(d) THEN ApplyDelta(pre, d)
  ELSE Unmarshal(pre, d)

(* Alphabets used by the monitors *)
ModeChars  == Bits \cup {"j", "r", "w", "p", "a", "s", "d", "o", "N", "n"}
HasUnknown(s)      == \E i \in DOMAIN s : s[i] \notin ModeChars
HasUnknownDelta(s) == \E i \in DOMAIN s : s[i] \notin (ModeChars \cup {"+", "-"})

(* What notifySubChange puts on the wire for one side (want or given) *)
NotifyText(old, new) ==
  IF IsDefined(new) THEN
     IF IsDefined(old) /\ ~IsZero(old) THEN Delta(old, new) ELSE Text(new)
  ELSE <<"N">>
=============================================================================
