CONSTANTS
  DEV_ParseStopsAtN = FALSE
  DEV_DeltaSingleCharNoop = FALSE
  StrAlphabet = {"J", "O", "j", "N", "n", "+", "-", "x"}
  MaxStr = 4
SPECIFICATION Spec
INVARIANTS FollowerTracksMaster RoundTrip CanonicalUnique DeltaApplies EffectiveIsMeet
PROPERTIES NoteAlwaysAccepted
CHECK_DEADLOCK FALSE
