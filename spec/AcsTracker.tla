----------------------------- MODULE AcsTracker -----------------------------
(***************************************************************************)
(* Design check for C05.  An authoritative topic holds a permission set    *)
(* `m` for some user; every change is announced the way notifySubChange    *)
(* announces it (absolute text when the old value is empty or undefined,   *)
(* a "+X-Y" delta otherwise) and a follower (a user's other session, the   *)
(* cluster proxy of the topic: updateAcsFromPresMsg) applies the text with *)
(* ApplyMutation.  want and given are announced independently by the same  *)
(* rule, so one side is modelled.  All 257 values (256 sets + unset) and   *)
(* all 257*257 changes are explored; the algebraic laws are stated as      *)
(* invariants quantified over every second operand, so TLC's workers       *)
(* evaluate all 256x256 pairs.                                             *)
(***************************************************************************)
EXTENDS AccessMode, TLC

VARIABLES m, f
vars == <<m, f>>

Values == Modes \cup {Unset}

Init == m \in Values /\ f = Mask(m)

Change(n) ==
  /\ f' = ApplyMutation(f, NotifyText(m, n)).m
  /\ m' = n

Next == \E n \in Values : Change(n)
Spec == Init /\ [][Next]_vars

FollowerTracksMaster == f = Mask(m)

NoteAlwaysAccepted == [][ApplyMutation(f, NotifyText(m, m')).ok]_vars

\* Laws of the algebra on the reference operators, for the current m against every b
RoundTrip == m \in Modes => /\ TextOk(m)
                            /\ Parse(Text(m)).ok
                            /\ Mask(Parse(Text(m)).m) = m
                            /\ Unmarshal(Bits, Text(m)) = [ok |-> TRUE, m |-> m]
CanonicalUnique == m \in Modes => \A b \in Modes : (Text(b) = Text(m)) <=> (b = m)
DeltaApplies == m \in Modes => \A b \in Modes :
                    /\ ApplyDelta(m, Delta(m, b)) = [ok |-> TRUE, m |-> b]
                    /\ ApplyMutation(m, Delta(m, b)) = [ok |-> TRUE, m |-> b]
                    /\ (Delta(m, b) = <<>>) <=> (m = b)
EffectiveIsMeet == m \in Modes => \A b \in Modes :
                    /\ Effective(m, b) = Effective(b, m)
                    /\ Effective(m, b) \subseteq m
                    /\ BetterEqual(m, Effective(m, b))
                    /\ (BetterEqual(m, b) <=> b \subseteq m)
                    /\ (BetterThan(m, b) <=> ~(m \subseteq b))

\* Strings: every string of length <= MaxStr over StrAlphabet (evaluated once, as an assumption of the model)
CONSTANTS StrAlphabet, MaxStr
Strs == UNION {[1..k -> StrAlphabet] : k \in 0..MaxStr}
ASSUME StringLaws ==
  \A s \in Strs : \A pre \in {None, CPublic} :
     /\ HasUnknown(s) => Unmarshal(pre, s) = [ok |-> FALSE, m |-> pre]
     /\ HasUnknownDelta(s) => ApplyMutation(pre, s) = [ok |-> FALSE, m |-> pre]
     /\ HasUnknownDelta(s) => ApplyDelta(pre, s) = [ok |-> FALSE, m |-> pre]
     /\ ~Unmarshal(pre, s).ok => Unmarshal(pre, s).m = pre
     /\ ~ApplyMutation(pre, s).ok => ApplyMutation(pre, s).m = pre
     /\ (s = <<>>) => ApplyMutation(pre, s) = [ok |-> TRUE, m |-> pre]
     /\ (\E i \in DOMAIN s : Upper(s[i]) = "N") /\ Len(s) > 1 /\ ~HasSign(s) => ~Unmarshal(pre, s).ok
=============================================================================
