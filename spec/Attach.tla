------------------------------- MODULE Attach -------------------------------
(***************************************************************************)
(* C14 - attach, detach, disconnect and delete race without leaks, hangs   *)
(* or lost replies.  Concurrency skeleton of tinode/chat, one PlusCal      *)
(* process per goroutine of the real server:                               *)
(*                                                                         *)
(*   Reader(s)  Session.readLoop -> dispatch -> subscribe / leave /        *)
(*              publish / del, then cleanUp (session.go 412-428, 617-731,  *)
(*              1180-1235; hdl_websock.go 39-65)                           *)
(*   Writer(s)  Session.writeLoop: detach -> delSub, stop -> exit, write   *)
(*              failure / outbound queue limit -> exit (hdl_websock.go     *)
(*              84-145)                                                    *)
(*   Hub        Hub.run: join (hub.go 153-221), unreg -> topicUnreg        *)
(*              (hub.go 277-291, 394-549)                                  *)
(*   Inst(n,g)  the g-th incarnation of topic n: first topicInit           *)
(*              (init_topic.go 21-132, with the failure drain 61-105),     *)
(*              then Topic.runLocal (topic.go 541-587): registerSession    *)
(*              (333-363), unregisterSession/handleLeaveRequest (300-329,  *)
(*              689-826), replyLeaveUnsub/evictUser (3241-3357), publish   *)
(*              -> broadcastToSessions with dropSessions (1253-1339),      *)
(*              handleTopicTimeout (493-503), handleTopicTermination       *)
(*              (505-539).                                                 *)
(*                                                                         *)
(* Channels: hub.join / hub.unreg have capacity CapHub (the real 256       *)
(* abstracted to 1, 2 or "large" = 9); Topic.exit and Session.stop have    *)
(* their real capacity 1; Topic.reg/unreg/clientMsg/meta and               *)
(* Session.detach are "large" (sequences bounded only by the number of     *)
(* requests).  Session.send is not a queue here: a reply counts as         *)
(* delivered when queueOut accepts it; a slow consumer is the pair         *)
(* (slow[s], Writer gives up) and the topic may drop a slow session while  *)
(* broadcasting.  The bounded wait group is sem[s] (semaphore slot =       *)
(* WaitGroup counter, capacity 1): Add = rs1/rl1 (may block), Done = the   *)
(* macro DoneWG at every place the code calls it, Wait = cu2.              *)
(*                                                                         *)
(* Every Add, Done, possibly blocking send and early return is a label or  *)
(* an alternative of a label.  Grain of atomicity (chosen so that the 2x2   *)
(* instance stays checkable): a channel receive and the handler it starts  *)
(* are one step (hub: join/unreg; topic: reg/unreg/clientMsg/meta/exit,     *)
(* including the reply and the Done at the end of the handler); Add plus    *)
(* the lookup that follows it is one step (nothing else can see the slot    *)
(* in between); Wait + registry removal + unsubAll is one step.  Blocking   *)
(* sends keep their own label (hx: Topic.exit, tk: hub.unreg from the idle  *)
(* timer, if2: topicInit re-queueing to hub.join, cu5: Session.stop, rl3 /  *)
(* rp2: the as-built two-step lookup-then-send of leave / publish, cp2 /    *)
(* cp4: the blocking receives of purgeChannels).                            *)
(* Bounds: MaxReq requests per session, TotalReq in total, MaxGen           *)
(* incarnations per topic name (GenBound checks it is never exhausted).    *)
(* Quiescent = every actor idle at its loop head with empty queues; Final   *)
(* = Quiescent and nobody may ask any more: NextQ adds a stuttering step    *)
(* only there, so TLC's own deadlock check reports every other state       *)
(* without a successor (a reader parked in Add, cleanUp parked in Wait or   *)
(* purgeChannels, topicInit parked on a nil channel, ...).                  *)
(* A session is its own user; Owner(n) owns    *)
(* topic n.  The environment may evict an attached session (owner's        *)
(* {del sub} -> evictUser with a notice), make a client slow, make a       *)
(* topic load fail, and fire an armed idle timer.                          *)
(*                                                                         *)
(* As-built deviations (TRUE = what /repo does today, FALSE = intended):   *)
(*  DEV_ExitAbandonsQueues   handleTopicTermination returns without        *)
(*      draining reg/unreg/clientMsg/meta and detaches sessions            *)
(*      asynchronously (Session.detach), and Session.leave/publish/        *)
(*      unsubAll read Session.subs and send in two steps: requests queued  *)
(*      at, or sent to, a topic that has exited are lost - never           *)
(*      answered, inflightReqs never released.  Intended: removal from     *)
(*      Topic.sessions and Session.subs in one step, queues drained with   *)
(*      503 + Done, lookup+send atomic.                                    *)
(*  DEV_InitDrainNilDone     topicInit's failure drain does                *)
(*      `msg.done <- true` on the nil `done` of hub-originated shutDown    *)
(*      messages (init_topic.go 97-100): parks forever, the deferred Done  *)
(*      never runs.                                                        *)
(*  DEV_InitDeletedSilent    topicInit returns silently when the topic     *)
(*      was marked deleted while loading (init_topic.go 113-116): the      *)
(*      {sub} is never answered, queued requests are abandoned.            *)
(*  DEV_InitFailBlindTopicDel topicInit's failure path deletes the hub     *)
(*      entry by NAME (init_topic.go 63) even when it already belongs to   *)
(*      a newer incarnation.                                               *)
(*  DEV_OwnerDelViaMetaSilent an owner's {del topic} that reaches the hub  *)
(*      while the topic is still loading (owner not yet known) is          *)
(*      forwarded to Topic.meta and dropped by replyDelTopic ("SHOULD NOT  *)
(*      HAPPEN", topic.go 3108-3117) without a reply.                      *)
(*  DEV_PurgeRacesWriter     purgeChannels is `for len(c) > 0 { <-c }`     *)
(*      (session.go 399-409) while the write loop may still receive from   *)
(*      the same channels: the blocking receive can park cleanUp forever.  *)
(*  DEV_StaleTimeoutUnreg    the idle-timeout request carries only the     *)
(*      topic NAME (topic.go 495, hub.go 533-541): when it is handled      *)
(*      after the old incarnation is gone it unloads the next one, with    *)
(*      its sessions attached.                                             *)
(*  DEV_InactiveByeIgnored   a terminating session's unregister reaching   *)
(*      a paused/deleted topic is ignored (handleLeaveRequest returns on   *)
(*      isInactive before remSession).  Harmless while the topic then      *)
(*      exits; but when the owner's {del topic} FAILS in the store the     *)
(*      topic is un-paused and lives on with the dead session attached     *)
(*      and counted online (reproduced by E2 with a Topics.Delete fault).  *)
(*  DEV_DeleteFailLeavesPaused  NOT in the code (hub.go topicUnreg calls   *)
(*      t.markPaused(false) when store.Topics.Delete fails): the bad       *)
(*      variant, kept to show that the design check sees a topic left      *)
(*      paused for good (NoTopicLeftPaused).                               *)
(* Store faults (FaultBudget): a topic load fails (topicInit), the         *)
(* owner's delete fails in the store (hub: 500, topic un-paused, stays),   *)
(* a {leave unsub} fails in the store (500, session stays attached).       *)
(***************************************************************************)
EXTENDS Integers, Sequences, FiniteSets, TLC

CONSTANTS Sessions, Names, MaxGen, MaxReq, TotalReq, Ops, CapHub,
          EvictBudget, SlowBudget, FaultBudget, AllowRefuse, DelByAnyone,
          DEV_ExitAbandonsQueues, DEV_InitDrainNilDone, DEV_InitDeletedSilent,
          DEV_InitFailBlindTopicDel, DEV_OwnerDelViaMetaSilent, DEV_PurgeRacesWriter,
          DEV_StaleTimeoutUnreg, DEV_InactiveByeIgnored, DEV_DeleteFailLeavesPaused

Owner(n) == IF n = "t1" THEN "s1" ELSE "s2"

RD == {<<"rd", s, 0>> : s \in Sessions}
WR == {<<"wr", s, 0>> : s \in Sessions}
HubId == <<"hub", "", 0>>
Instances == {<<"T", n, g>> : n \in Names, g \in 1..MaxGen}
NoMsg == [s |-> "", n |-> "", id |-> 0, k |-> "", late |-> FALSE, g |-> 0]
NoInst == <<"T", "", 0>>
Bye(s, n) == [s |-> s, n |-> n, id |-> 0, k |-> "bye", late |-> FALSE, g |-> 0]

(* --algorithm Attach {
variables
  subs     = [s \in Sessions |-> [n \in Names |-> 0]],   \* Session.subs: name -> incarnation whose channels the Subscription holds
  sem      = [s \in Sessions |-> 0],                      \* inflightReqs: occupied slots (= WaitGroup counter)
  inflNil  = [s \in Sessions |-> FALSE],                  \* s.inflightReqs = nil
  term     = [s \in Sessions |-> FALSE],                  \* Session.terminating
  registry = [s \in Sessions |-> TRUE],                   \* in SessionStore.sessCache
  wdone    = [s \in Sessions |-> FALSE],                  \* writeLoop has returned (socket closed)
  slow     = [s \in Sessions |-> FALSE],                  \* client stopped reading
  detachQ  = [s \in Sessions |-> <<>>],                   \* Session.detach
  stopQ    = [s \in Sessions |-> 0],                      \* Session.stop, capacity 1
  pending  = [s \in Sessions |-> {}],                     \* sub/leave/del requests sent and not yet answered
  nreq     = [s \in Sessions |-> 0],
  hubJoin  = <<>>, hubUnreg = <<>>,
  hubMap   = [n \in Names |-> 0],                         \* Hub.topics
  nextGen  = [n \in Names |-> 1],
  exists   = [n \in Names |-> TRUE],                      \* topic row in the store
  st       = [i \in Instances |-> "none"],                \* none | init | run | dead
  paused   = [i \in Instances |-> FALSE],
  deleted  = [i \in Instances |-> FALSE],
  ownerKnown = [i \in Instances |-> FALSE],               \* Topic.owner assigned (end of load)
  sessions = [i \in Instances |-> {}],                    \* Topic.sessions
  online   = [i \in Instances |-> [s \in Sessions |-> 0]],\* perUser[uid].online
  timer    = [i \in Instances |-> FALSE],                 \* killTimer armed
  regQ     = [i \in Instances |-> <<>>],
  unregQ   = [i \in Instances |-> <<>>],
  cliQ     = [i \in Instances |-> <<>>],
  metaQ    = [i \in Instances |-> <<>>],
  exitQ    = [i \in Instances |-> <<>>],                  \* capacity 1
  joinMsg  = [i \in Instances |-> NoMsg],
  evictB = EvictBudget, slowB = SlowBudget, faultB = FaultBudget,
  bad = {}, wgPanic = FALSE;

define {
  Inactive(i) == paused[i] \/ deleted[i]
  Cur(n) == <<"T", n, hubMap[n]>>
  \* queueOut of the reply to request id of session s (an eviction notice answers the crossing leave)
  Ans(p, s, id) == [p EXCEPT ![s] = {r \in p[s] : r.id # id}]
  AnsAll(p, q) == [s \in Sessions |-> {r \in p[s] : ~\E j \in DOMAIN q : q[j].s = s /\ q[j].id = r.id}]
  AnsLeaves(p, s, n) == [p EXCEPT ![s] = {r \in p[s] : ~(r.n = n /\ r.k \in {"leave", "unsub"})}]
  RelAll(sm, q) == [s \in Sessions |-> IF ~inflNil[s] /\ \E j \in DOMAIN q : q[j].s = s /\ q[j].k # "bye" THEN 0 ELSE sm[s]]
  HasLateSuccess(m) == IF m.late THEN {"SuccessAfterDelete"} ELSE {}
  RECURSIVE SumF(_, _)
  SumF(f, S) == IF S = {} THEN 0 ELSE LET x == CHOOSE x \in S : TRUE IN f[x] + SumF(f, S \ {x})
  MayAsk(s) == nreq[s] < MaxReq /\ SumF(nreq, Sessions) < TotalReq
}

\* if s.inflightReqs != nil { s.inflightReqs.Done() }  (Done on an empty group panics)
macro DoneWG(s) {
  if (~inflNil[s]) {
    if (sem[s] = 0) { wgPanic := TRUE } else { sem[s] := 0 }
  }
}
macro Reply(s, id) { pending := Ans(pending, s, id) }

\* ------------------------------------------------------------------ session read loop
fair process (Reader \in RD)
variables rme = self[2], rq = NoMsg, tg = 0;
{
r0: while (TRUE) {
      either { await wdone[rme]; goto cu1 }                       \* socket closed by the write loop: ReadMessage fails
      or { await ~wdone[rme] /\ MayAsk(rme) /\ "disc" \in Ops;    \* client disconnects
           nreq[rme] := nreq[rme] + 1; goto cu1 }
      or { await ~wdone[rme] /\ MayAsk(rme);
           with (k \in Ops \ {"disc"}, n \in Names) {
             await k = "del" => (DelByAnyone \/ Owner(n) = rme);
             rq := [s |-> rme, n |-> n, id |-> nreq[rme] + 1, k |-> k, late |-> ~exists[n], g |-> 0];
             if (k # "pub") { pending[rme] := pending[rme] \cup {[id |-> nreq[rme] + 1, k |-> k, n |-> n]} };
             nreq[rme] := nreq[rme] + 1;
             if (k = "sub") { goto rs1 } else if (k \in {"leave", "unsub"}) { goto rl1 }
             else if (k = "pub") { goto rp1 } else { goto rd1 }
           }
      }
    };
    \* ---- Session.subscribe
rs1: await sem[rme] = 0;                                          \* inflightReqs.Add(1): blocks while a request is in flight
     if (subs[rme][rq.n] # 0) { Reply(rme, rq.id) }               \* 304 already subscribed; Done
     else if (Len(hubJoin) < CapHub) { hubJoin := Append(hubJoin, rq); sem[rme] := 1 }   \* globals.hub.join <- msg
     else { Reply(rme, rq.id) };                                  \* 503 hub.join full; Done
     rq := NoMsg; goto r0;
    \* ---- Session.leave
rl1: await sem[rme] = 0;                                          \* inflightReqs.Add(1)
     with (g = subs[rme][rq.n]) {                                 \* getSub
       if (g = 0) { Reply(rme, rq.id); rq := NoMsg; goto r0 }     \* Done; 304 / 409 not joined
       else if (~DEV_ExitAbandonsQueues) {                        \* intended: lookup and send are one step
         sem[rme] := 1;
         unregQ[<<"T", rq.n, g>>] := Append(unregQ[<<"T", rq.n, g>>], rq); rq := NoMsg; goto r0 }
       else { sem[rme] := 1; tg := g } };
rl3: unregQ[<<"T", rq.n, tg>>] := Append(unregQ[<<"T", rq.n, tg>>], rq);   \* sub.done <- msg
     rq := NoMsg; tg := 0; goto r0;
    \* ---- Session.publish
rp1: with (g = subs[rme][rq.n]) {
       if (g = 0) { rq := NoMsg; goto r0 }                        \* 409 must attach first
       else if (~DEV_ExitAbandonsQueues) {
         cliQ[<<"T", rq.n, g>>] := Append(cliQ[<<"T", rq.n, g>>], rq); rq := NoMsg; goto r0 }
       else { tg := g } };
rp2: cliQ[<<"T", rq.n, tg>>] := Append(cliQ[<<"T", rq.n, tg>>], rq);       \* sub.broadcast <- msg (select/default)
     rq := NoMsg; tg := 0; goto r0;
    \* ---- Session.del what=topic
rd1: if (Len(hubUnreg) < CapHub) { hubUnreg := Append(hubUnreg, rq) }      \* globals.hub.unreg <- ...
     else { Reply(rme, rq.id) };                                  \* 503 hub.unreg full
     rq := NoMsg; goto r0;
    \* ---- Session.cleanUp
cu1: term[rme] := TRUE;                                           \* atomic.StoreInt32(&s.terminating, 1)
cp1: if (~DEV_PurgeRacesWriter) { detachQ[rme] := <<>>; stopQ[rme] := 0; goto cu2 }
     else if (detachQ[rme] = <<>>) { goto cp3 };                  \* for len(s.detach) > 0
cp2: await detachQ[rme] # <<>>; detachQ[rme] := Tail(detachQ[rme]);  \*   <-s.detach   (blocking receive)
     goto cp1;
cp3: if (stopQ[rme] = 0) { goto cu2 };                            \* for len(s.stop) > 0
cp4: await stopQ[rme] > 0; stopQ[rme] := 0;                       \*   <-s.stop
     goto cp3;
cu2: await sem[rme] = 0;                                          \* inflightReqs.Wait()
     inflNil[rme] := TRUE; registry[rme] := FALSE;                \* inflightReqs = nil; sessionStore.Delete
     unregQ := [i \in Instances |-> IF subs[rme][i[2]] = i[3]     \* unsubAll (subsLock.RLock held over the loop)
                                    THEN Append(unregQ[i], Bye(rme, i[2])) ELSE unregQ[i]];
cu5: await stopQ[rme] = 0; stopQ[rme] := 1;                       \* s.stop <- nil (capacity 1)
}

\* ------------------------------------------------------------------ session write loop
fair process (Writer \in WR)
variables wme = self[2];
{
w0: while (~wdone[wme]) {
      either { await detachQ[wme] # <<>>;                          \* case topic := <-sess.detach: delSub(topic)
               subs[wme][Head(detachQ[wme])] := 0; detachQ[wme] := Tail(detachQ[wme]) }
      or { await stopQ[wme] > 0; stopQ[wme] := 0; wdone[wme] := TRUE }   \* case <-sess.stop: return
      or { await slow[wme]; wdone[wme] := TRUE }                   \* sendMessage fails / outbound queue limit: return, closeWS
      or { await slowB > 0 /\ ~slow[wme] /\ ~term[wme];            \* environment: the client stops reading
           slow[wme] := TRUE; slowB := slowB - 1 }
    }
}

\* ------------------------------------------------------------------ hub
fair process (Hub \in {HubId})
variables hi = NoInst, hd = NoMsg;
{
h0: while (TRUE) {
      either {                                                     \* case join := <-h.join
        await hubJoin # <<>>;
        with (hm = Head(hubJoin)) {
          hubJoin := Tail(hubJoin);
          if (hubMap[hm.n] = 0) {                                  \* new Topic, paused, topicPut, go topicInit
            with (i = <<"T", hm.n, nextGen[hm.n]>>) {
              hubMap[hm.n] := nextGen[hm.n]; nextGen[hm.n] := nextGen[hm.n] + 1;
              st[i] := "init"; paused[i] := TRUE; joinMsg[i] := hm }
          } else if (Inactive(Cur(hm.n))) {                        \* Done, 503 locked
            DoneWG(hm.s); Reply(hm.s, hm.id)
          } else {
            regQ[Cur(hm.n)] := Append(regQ[Cur(hm.n)], hm)        \* t.reg <- join
          }
        }
      } or {                                                       \* case unreg := <-h.unreg
        await hubUnreg # <<>>;
        with (hm = Head(hubUnreg)) {
          hubUnreg := Tail(hubUnreg);
          if (hm.k = "del") {                                      \* topicUnreg(reason = StopDeleted)
            if (hubMap[hm.n] # 0) {
              if (ownerKnown[Cur(hm.n)] /\ Owner(hm.n) = hm.s) {   \* 1.1.1 owner, topic online: markPaused(true) ...
                paused[Cur(hm.n)] := TRUE; hd := hm
              } else {                                             \* 1.1.2 forwarded to the topic
                metaQ[Cur(hm.n)] := Append(metaQ[Cur(hm.n)], hm)
              }
            } else {                                               \* 1.2 topic offline
              if (Owner(hm.n) = hm.s) { exists[hm.n] := FALSE };
              Reply(hm.s, hm.id)
            }
          } else {                                                 \* idle timeout (reason = StopNone)
            if (hubMap[hm.n] # 0 /\ (DEV_StaleTimeoutUnreg \/ hubMap[hm.n] = hm.g)) {
              deleted[Cur(hm.n)] := TRUE; hi := Cur(hm.n); hubMap[hm.n] := 0 }
          }
        };
  hd1:  if (hd # NoMsg) {                                          \* ... store.Topics.Delete (the topic runs on, paused, meanwhile)
          either {
            deleted[Cur(hd.n)] := TRUE; exists[hd.n] := FALSE;
            Reply(hd.s, hd.id); hi := Cur(hd.n); hubMap[hd.n] := 0
          } or {                                                   \* the store refuses: markPaused(false), 500, the topic stays
            await faultB > 0; faultB := faultB - 1;
            paused[Cur(hd.n)] := DEV_DeleteFailLeavesPaused;
            Reply(hd.s, hd.id)
          };
          hd := NoMsg
        };
  hx:   if (hi # NoInst) {                                         \* t.exit <- &shutDown{...}, capacity 1
          await Len(exitQ[hi]) < 1;
          exitQ[hi] := Append(exitQ[hi], [done |-> FALSE]); hi := NoInst }
      }
    }
}

\* ------------------------------------------------------------------ topic incarnation: topicInit, then runLocal
fair process (Inst \in Instances)
variables nm = self[2], gen = self[3], jm = NoMsg;
{
i0: await st[self] = "init"; jm := joinMsg[self]; joinMsg[self] := NoMsg;
    either { await exists[nm]; goto iok }                          \* loaded
    or { await ~exists[nm] \/ faultB > 0;                          \* not found / store error
         if (exists[nm]) { faultB := faultB - 1 } };
if1: if (DEV_InitFailBlindTopicDel \/ hubMap[nm] = gen) { hubMap[nm] := 0 };   \* h.topicDel(join.RcptTo)
     Reply(jm.s, jm.id);                                           \* error to the requester
if2: while (regQ[self] # <<>>) {                                   \* h.join <- (<-t.reg)
       await Len(hubJoin) < CapHub;
       hubJoin := Append(hubJoin, Head(regQ[self])); regQ[self] := Tail(regQ[self]) };
if3: pending := AnsAll(AnsAll(AnsAll(pending, cliQ[self]), unregQ[self]), metaQ[self]);   \* 503 to everything queued
     sem := [s \in Sessions |-> IF s = jm.s /\ ~inflNil[s] THEN 0 ELSE RelAll(sem, unregQ[self])[s]];  \* Done for queued leaves; deferred Done
     cliQ[self] := <<>>; unregQ[self] := <<>>; metaQ[self] := <<>>;
     if (exitQ[self] # <<>>) {                                     \* msg := <-t.exit; msg.done <- true
       await ~DEV_InitDrainNilDone \/ Head(exitQ[self]).done;     \* nil channel: parks forever
       exitQ[self] := Tail(exitQ[self]) };
     st[self] := "dead"; jm := NoMsg; goto idead;
iok: if (deleted[self]) {                                          \* "someone deleted the topic while we were trying to create it"
       if (DEV_InitDeletedSilent) { DoneWG(jm.s); st[self] := "dead"; jm := NoMsg; goto idead }
       else { Reply(jm.s, jm.id); goto if2 }
     } else {
       regQ[self] := Append(regQ[self], jm); jm := NoMsg;          \* t.reg <- join; markPaused(false); go t.run
       paused[self] := FALSE; ownerKnown[self] := TRUE; st[self] := "run" };
t0: while (st[self] = "run") {
      either {                                                     \* case msg := <-t.reg: registerSession
        await regQ[self] # <<>>;
        with (tm = Head(regQ[self])) {
          regQ[self] := Tail(regQ[self]);
          if (Inactive(self)) { Reply(tm.s, tm.id) }               \* 503 locked
          else if (subs[tm.s][nm] # 0) { Reply(tm.s, tm.id) }      \* 304 already subscribed
          else {
            either { timer[self] := FALSE;                         \* handleSubscription succeeded
                     sessions[self] := sessions[self] \cup {tm.s};
                     online[self][tm.s] := online[self][tm.s] + 1;
                     subs[tm.s][nm] := gen;                        \* addSub
                     Reply(tm.s, tm.id); bad := bad \cup HasLateSuccess(tm) }
            or { await AllowRefuse; Reply(tm.s, tm.id);            \* refused (access etc.)
                 timer[self] := (sessions[self] = {}) }
          };
          DoneWG(tm.s)                                             \* inflightReqs.Done()
        }
      } or {                                                       \* case msg := <-t.unreg: unregisterSession
        await unregQ[self] # <<>>;
        with (tm = Head(unregQ[self])) {
          unregQ[self] := Tail(unregQ[self]);
          if (Inactive(self) /\ (tm.k # "bye" \/ DEV_InactiveByeIgnored)) {
            if (tm.k # "bye") { Reply(tm.s, tm.id) }               \* 503 locked; session stays listed
          } else if (tm.k = "unsub") {                             \* replyLeaveUnsub
            if (Owner(nm) = tm.s) { Reply(tm.s, tm.id) }           \* 403 owner cannot unsubscribe
            else {
              either {
                Reply(tm.s, tm.id);                                \* 200, then evictUser(skip = requester)
                if (tm.s \in sessions[self]) {
                  sessions[self] := sessions[self] \ {tm.s}; online[self][tm.s] := 0;
                  if (~DEV_ExitAbandonsQueues) { subs[tm.s][nm] := 0 }
                  else if (~term[tm.s]) { detachQ[tm.s] := Append(detachQ[tm.s], nm) } }
              } or {                                               \* store.Subs.Delete fails: 500, nothing changes
                await faultB > 0; faultB := faultB - 1;
                Reply(tm.s, tm.id)
              } }
          } else if (tm.s \in sessions[self]) {                    \* leave, or whole session dropped (bye)
            sessions[self] := sessions[self] \ {tm.s};
            subs[tm.s][nm] := 0;                                   \* sess.delSub(t.name)
            online[self][tm.s] := online[self][tm.s] - 1;
            if (tm.k # "bye") { Reply(tm.s, tm.id) }
          };                                                       \* else: not attached any more - no reply
          if (tm.k # "bye") { DoneWG(tm.s) };                      \* if msg.init: inflightReqs.Done()
          if (sessions[self] = {}) { timer[self] := TRUE }
        }
      } or {                                                       \* case msg := <-t.clientMsg: publish, broadcast
        await cliQ[self] # <<>>;
        with (tm = Head(cliQ[self])) {
          cliQ[self] := Tail(cliQ[self]);
          if (~Inactive(self)) {
            bad := bad \cup HasLateSuccess(tm);
            with (D \in SUBSET {s \in sessions[self] : slow[s]}) { \* queueOut failed: dropSessions -> unregisterSession(init=false)
              sessions[self] := sessions[self] \ D;
              subs := [s \in Sessions |-> IF s \in D THEN [subs[s] EXCEPT ![nm] = 0] ELSE subs[s]];
              online[self] := [s \in Sessions |-> IF s \in D THEN online[self][s] - 1 ELSE online[self][s]];
              if (D # {} /\ sessions[self] = {}) { timer[self] := TRUE } }
          }
        }
      } or {                                                       \* case meta := <-t.meta: forwarded {del topic}
        await metaQ[self] # <<>>;
        with (tm = Head(metaQ[self])) {
          metaQ[self] := Tail(metaQ[self]);
          if (Owner(nm) = tm.s) {                                  \* replyDelTopic called by owner: "SHOULD NOT HAPPEN"
            if (~DEV_OwnerDelViaMetaSilent) { Reply(tm.s, tm.id) }
          } else {                                                 \* non-owner: replyLeaveUnsub
            Reply(tm.s, tm.id);
            if (tm.s \in sessions[self]) {
              sessions[self] := sessions[self] \ {tm.s}; online[self][tm.s] := 0;
              if (~DEV_ExitAbandonsQueues) { subs[tm.s][nm] := 0 }
              else if (~term[tm.s]) { detachQ[tm.s] := Append(detachQ[tm.s], nm) };
              if (sessions[self] = {}) { timer[self] := TRUE } }
          }
        }
      } or {                                                       \* environment: owner's {del sub} -> evictUser + notice
        await evictB > 0 /\ ~Inactive(self) /\ sessions[self] # {};
        with (s \in sessions[self]) {
          evictB := evictB - 1;
          sessions[self] := sessions[self] \ {s}; online[self][s] := 0;
          pending := AnsLeaves(pending, s, nm);                    \* {ctrl 205 evicted}
          if (~DEV_ExitAbandonsQueues) { subs[s][nm] := 0 }
          else if (~term[s]) { detachQ[s] := Append(detachQ[s], nm) } }
      } or {                                                       \* case <-t.killTimer.C: handleTopicTimeout
        await timer[self]; timer[self] := FALSE;
  tk:   await Len(hubUnreg) < CapHub;                              \* hub.unreg <- &topicUnreg{rcptTo: t.name}
        hubUnreg := Append(hubUnreg, [s |-> "", n |-> nm, id |-> 0, k |-> "timeout", late |-> FALSE, g |-> gen])
      } or {                                                       \* case sd := <-t.exit: handleTopicTermination; return
        await exitQ[self] # <<>>; exitQ[self] := Tail(exitQ[self]);
        if (DEV_ExitAbandonsQueues) {
          detachQ := [s \in Sessions |-> IF s \in sessions[self] /\ ~term[s]     \* s.detachSession(t.name)
                                         THEN Append(detachQ[s], nm) ELSE detachQ[s]]
        } else {
          subs := [s \in Sessions |-> IF s \in sessions[self] THEN [subs[s] EXCEPT ![nm] = 0] ELSE subs[s]];
          pending := AnsAll(AnsAll(AnsAll(AnsAll(pending, regQ[self]), unregQ[self]), cliQ[self]), metaQ[self]);
          sem := RelAll(RelAll(sem, regQ[self]), unregQ[self]);
          regQ[self] := <<>>; unregQ[self] := <<>>; cliQ[self] := <<>>; metaQ[self] := <<>>
        };
        sessions[self] := {}; timer[self] := FALSE; st[self] := "dead"
      }
    };
idead: skip
}
} *)
\* BEGIN TRANSLATION
VARIABLES pc, subs, sem, inflNil, term, registry, wdone, slow, detachQ, stopQ, 
          pending, nreq, hubJoin, hubUnreg, hubMap, nextGen, exists, st, 
          paused, deleted, ownerKnown, sessions, online, timer, regQ, unregQ, 
          cliQ, metaQ, exitQ, joinMsg, evictB, slowB, faultB, bad, wgPanic

(* define statement *)
Inactive(i) == paused[i] \/ deleted[i]
Cur(n) == <<"T", n, hubMap[n]>>

Ans(p, s, id) == [p EXCEPT ![s] = {r \in p[s] : r.id # id}]
AnsAll(p, q) == [s \in Sessions |-> {r \in p[s] : ~\E j \in DOMAIN q : q[j].s = s /\ q[j].id = r.id}]
AnsLeaves(p, s, n) == [p EXCEPT ![s] = {r \in p[s] : ~(r.n = n /\ r.k \in {"leave", "unsub"})}]
RelAll(sm, q) == [s \in Sessions |-> IF ~inflNil[s] /\ \E j \in DOMAIN q : q[j].s = s /\ q[j].k # "bye" THEN 0 ELSE sm[s]]
HasLateSuccess(m) == IF m.late THEN {"SuccessAfterDelete"} ELSE {}
RECURSIVE SumF(_, _)
SumF(f, S) == IF S = {} THEN 0 ELSE LET x == CHOOSE x \in S : TRUE IN f[x] + SumF(f, S \ {x})
MayAsk(s) == nreq[s] < MaxReq /\ SumF(nreq, Sessions) < TotalReq

VARIABLES rme, rq, tg, wme, hi, hd, nm, gen, jm

vars == << pc, subs, sem, inflNil, term, registry, wdone, slow, detachQ, 
           stopQ, pending, nreq, hubJoin, hubUnreg, hubMap, nextGen, exists, 
           st, paused, deleted, ownerKnown, sessions, online, timer, regQ, 
           unregQ, cliQ, metaQ, exitQ, joinMsg, evictB, slowB, faultB, bad, 
           wgPanic, rme, rq, tg, wme, hi, hd, nm, gen, jm >>

ProcSet == (RD) \cup (WR) \cup ({HubId}) \cup (Instances)

Init == (* Global variables *)
        /\ subs = [s \in Sessions |-> [n \in Names |-> 0]]
        /\ sem = [s \in Sessions |-> 0]
        /\ inflNil = [s \in Sessions |-> FALSE]
        /\ term = [s \in Sessions |-> FALSE]
        /\ registry = [s \in Sessions |-> TRUE]
        /\ wdone = [s \in Sessions |-> FALSE]
        /\ slow = [s \in Sessions |-> FALSE]
        /\ detachQ = [s \in Sessions |-> <<>>]
        /\ stopQ = [s \in Sessions |-> 0]
        /\ pending = [s \in Sessions |-> {}]
        /\ nreq = [s \in Sessions |-> 0]
        /\ hubJoin = <<>>
        /\ hubUnreg = <<>>
        /\ hubMap = [n \in Names |-> 0]
        /\ nextGen = [n \in Names |-> 1]
        /\ exists = [n \in Names |-> TRUE]
        /\ st = [i \in Instances |-> "none"]
        /\ paused = [i \in Instances |-> FALSE]
        /\ deleted = [i \in Instances |-> FALSE]
        /\ ownerKnown = [i \in Instances |-> FALSE]
        /\ sessions = [i \in Instances |-> {}]
        /\ online = [i \in Instances |-> [s \in Sessions |-> 0]]
        /\ timer = [i \in Instances |-> FALSE]
        /\ regQ = [i \in Instances |-> <<>>]
        /\ unregQ = [i \in Instances |-> <<>>]
        /\ cliQ = [i \in Instances |-> <<>>]
        /\ metaQ = [i \in Instances |-> <<>>]
        /\ exitQ = [i \in Instances |-> <<>>]
        /\ joinMsg = [i \in Instances |-> NoMsg]
        /\ evictB = EvictBudget
        /\ slowB = SlowBudget
        /\ faultB = FaultBudget
        /\ bad = {}
        /\ wgPanic = FALSE
        (* Process Reader *)
        /\ rme = [self \in RD |-> self[2]]
        /\ rq = [self \in RD |-> NoMsg]
        /\ tg = [self \in RD |-> 0]
        (* Process Writer *)
        /\ wme = [self \in WR |-> self[2]]
        (* Process Hub *)
        /\ hi = [self \in {HubId} |-> NoInst]
        /\ hd = [self \in {HubId} |-> NoMsg]
        (* Process Inst *)
        /\ nm = [self \in Instances |-> self[2]]
        /\ gen = [self \in Instances |-> self[3]]
        /\ jm = [self \in Instances |-> NoMsg]
        /\ pc = [self \in ProcSet |-> CASE self \in RD -> "r0"
                                        [] self \in WR -> "w0"
                                        [] self \in {HubId} -> "h0"
                                        [] self \in Instances -> "i0"]

r0(self) == /\ pc[self] = "r0"
            /\ \/ /\ wdone[rme[self]]
                  /\ pc' = [pc EXCEPT ![self] = "cu1"]
                  /\ UNCHANGED <<pending, nreq, rq>>
               \/ /\ ~wdone[rme[self]] /\ MayAsk(rme[self]) /\ "disc" \in Ops
                  /\ nreq' = [nreq EXCEPT ![rme[self]] = nreq[rme[self]] + 1]
                  /\ pc' = [pc EXCEPT ![self] = "cu1"]
                  /\ UNCHANGED <<pending, rq>>
               \/ /\ ~wdone[rme[self]] /\ MayAsk(rme[self])
                  /\ \E k \in Ops \ {"disc"}:
                       \E n \in Names:
                         /\ k = "del" => (DelByAnyone \/ Owner(n) = rme[self])
                         /\ rq' = [rq EXCEPT ![self] = [s |-> rme[self], n |-> n, id |-> nreq[rme[self]] + 1, k |-> k, late |-> ~exists[n], g |-> 0]]
                         /\ IF k # "pub"
                               THEN /\ pending' = [pending EXCEPT ![rme[self]] = pending[rme[self]] \cup {[id |-> nreq[rme[self]] + 1, k |-> k, n |-> n]}]
                               ELSE /\ TRUE
                                    /\ UNCHANGED pending
                         /\ nreq' = [nreq EXCEPT ![rme[self]] = nreq[rme[self]] + 1]
                         /\ IF k = "sub"
                               THEN /\ pc' = [pc EXCEPT ![self] = "rs1"]
                               ELSE /\ IF k \in {"leave", "unsub"}
                                          THEN /\ pc' = [pc EXCEPT ![self] = "rl1"]
                                          ELSE /\ IF k = "pub"
                                                     THEN /\ pc' = [pc EXCEPT ![self] = "rp1"]
                                                     ELSE /\ pc' = [pc EXCEPT ![self] = "rd1"]
            /\ UNCHANGED << subs, sem, inflNil, term, registry, wdone, slow, 
                            detachQ, stopQ, hubJoin, hubUnreg, hubMap, nextGen, 
                            exists, st, paused, deleted, ownerKnown, sessions, 
                            online, timer, regQ, unregQ, cliQ, metaQ, exitQ, 
                            joinMsg, evictB, slowB, faultB, bad, wgPanic, rme, 
                            tg, wme, hi, hd, nm, gen, jm >>

rs1(self) == /\ pc[self] = "rs1"
             /\ sem[rme[self]] = 0
             /\ IF subs[rme[self]][rq[self].n] # 0
                   THEN /\ pending' = Ans(pending, rme[self], (rq[self].id))
                        /\ UNCHANGED << sem, hubJoin >>
                   ELSE /\ IF Len(hubJoin) < CapHub
                              THEN /\ hubJoin' = Append(hubJoin, rq[self])
                                   /\ sem' = [sem EXCEPT ![rme[self]] = 1]
                                   /\ UNCHANGED pending
                              ELSE /\ pending' = Ans(pending, rme[self], (rq[self].id))
                                   /\ UNCHANGED << sem, hubJoin >>
             /\ rq' = [rq EXCEPT ![self] = NoMsg]
             /\ pc' = [pc EXCEPT ![self] = "r0"]
             /\ UNCHANGED << subs, inflNil, term, registry, wdone, slow, 
                             detachQ, stopQ, nreq, hubUnreg, hubMap, nextGen, 
                             exists, st, paused, deleted, ownerKnown, sessions, 
                             online, timer, regQ, unregQ, cliQ, metaQ, exitQ, 
                             joinMsg, evictB, slowB, faultB, bad, wgPanic, rme, 
                             tg, wme, hi, hd, nm, gen, jm >>

rl1(self) == /\ pc[self] = "rl1"
             /\ sem[rme[self]] = 0
             /\ LET g == subs[rme[self]][rq[self].n] IN
                  IF g = 0
                     THEN /\ pending' = Ans(pending, rme[self], (rq[self].id))
                          /\ rq' = [rq EXCEPT ![self] = NoMsg]
                          /\ pc' = [pc EXCEPT ![self] = "r0"]
                          /\ UNCHANGED << sem, unregQ, tg >>
                     ELSE /\ IF ~DEV_ExitAbandonsQueues
                                THEN /\ sem' = [sem EXCEPT ![rme[self]] = 1]
                                     /\ unregQ' = [unregQ EXCEPT ![<<"T", rq[self].n, g>>] = Append(unregQ[<<"T", rq[self].n, g>>], rq[self])]
                                     /\ rq' = [rq EXCEPT ![self] = NoMsg]
                                     /\ pc' = [pc EXCEPT ![self] = "r0"]
                                     /\ tg' = tg
                                ELSE /\ sem' = [sem EXCEPT ![rme[self]] = 1]
                                     /\ tg' = [tg EXCEPT ![self] = g]
                                     /\ pc' = [pc EXCEPT ![self] = "rl3"]
                                     /\ UNCHANGED << unregQ, rq >>
                          /\ UNCHANGED pending
             /\ UNCHANGED << subs, inflNil, term, registry, wdone, slow, 
                             detachQ, stopQ, nreq, hubJoin, hubUnreg, hubMap, 
                             nextGen, exists, st, paused, deleted, ownerKnown, 
                             sessions, online, timer, regQ, cliQ, metaQ, exitQ, 
                             joinMsg, evictB, slowB, faultB, bad, wgPanic, rme, 
                             wme, hi, hd, nm, gen, jm >>

rl3(self) == /\ pc[self] = "rl3"
             /\ unregQ' = [unregQ EXCEPT ![<<"T", rq[self].n, tg[self]>>] = Append(unregQ[<<"T", rq[self].n, tg[self]>>], rq[self])]
             /\ rq' = [rq EXCEPT ![self] = NoMsg]
             /\ tg' = [tg EXCEPT ![self] = 0]
             /\ pc' = [pc EXCEPT ![self] = "r0"]
             /\ UNCHANGED << subs, sem, inflNil, term, registry, wdone, slow, 
                             detachQ, stopQ, pending, nreq, hubJoin, hubUnreg, 
                             hubMap, nextGen, exists, st, paused, deleted, 
                             ownerKnown, sessions, online, timer, regQ, cliQ, 
                             metaQ, exitQ, joinMsg, evictB, slowB, faultB, bad, 
                             wgPanic, rme, wme, hi, hd, nm, gen, jm >>

rp1(self) == /\ pc[self] = "rp1"
             /\ LET g == subs[rme[self]][rq[self].n] IN
                  IF g = 0
                     THEN /\ rq' = [rq EXCEPT ![self] = NoMsg]
                          /\ pc' = [pc EXCEPT ![self] = "r0"]
                          /\ UNCHANGED << cliQ, tg >>
                     ELSE /\ IF ~DEV_ExitAbandonsQueues
                                THEN /\ cliQ' = [cliQ EXCEPT ![<<"T", rq[self].n, g>>] = Append(cliQ[<<"T", rq[self].n, g>>], rq[self])]
                                     /\ rq' = [rq EXCEPT ![self] = NoMsg]
                                     /\ pc' = [pc EXCEPT ![self] = "r0"]
                                     /\ tg' = tg
                                ELSE /\ tg' = [tg EXCEPT ![self] = g]
                                     /\ pc' = [pc EXCEPT ![self] = "rp2"]
                                     /\ UNCHANGED << cliQ, rq >>
             /\ UNCHANGED << subs, sem, inflNil, term, registry, wdone, slow, 
                             detachQ, stopQ, pending, nreq, hubJoin, hubUnreg, 
                             hubMap, nextGen, exists, st, paused, deleted, 
                             ownerKnown, sessions, online, timer, regQ, unregQ, 
                             metaQ, exitQ, joinMsg, evictB, slowB, faultB, bad, 
                             wgPanic, rme, wme, hi, hd, nm, gen, jm >>

rp2(self) == /\ pc[self] = "rp2"
             /\ cliQ' = [cliQ EXCEPT ![<<"T", rq[self].n, tg[self]>>] = Append(cliQ[<<"T", rq[self].n, tg[self]>>], rq[self])]
             /\ rq' = [rq EXCEPT ![self] = NoMsg]
             /\ tg' = [tg EXCEPT ![self] = 0]
             /\ pc' = [pc EXCEPT ![self] = "r0"]
             /\ UNCHANGED << subs, sem, inflNil, term, registry, wdone, slow, 
                             detachQ, stopQ, pending, nreq, hubJoin, hubUnreg, 
                             hubMap, nextGen, exists, st, paused, deleted, 
                             ownerKnown, sessions, online, timer, regQ, unregQ, 
                             metaQ, exitQ, joinMsg, evictB, slowB, faultB, bad, 
                             wgPanic, rme, wme, hi, hd, nm, gen, jm >>

rd1(self) == /\ pc[self] = "rd1"
             /\ IF Len(hubUnreg) < CapHub
                   THEN /\ hubUnreg' = Append(hubUnreg, rq[self])
                        /\ UNCHANGED pending
                   ELSE /\ pending' = Ans(pending, rme[self], (rq[self].id))
                        /\ UNCHANGED hubUnreg
             /\ rq' = [rq EXCEPT ![self] = NoMsg]
             /\ pc' = [pc EXCEPT ![self] = "r0"]
             /\ UNCHANGED << subs, sem, inflNil, term, registry, wdone, slow, 
                             detachQ, stopQ, nreq, hubJoin, hubMap, nextGen, 
                             exists, st, paused, deleted, ownerKnown, sessions, 
                             online, timer, regQ, unregQ, cliQ, metaQ, exitQ, 
                             joinMsg, evictB, slowB, faultB, bad, wgPanic, rme, 
                             tg, wme, hi, hd, nm, gen, jm >>

cu1(self) == /\ pc[self] = "cu1"
             /\ term' = [term EXCEPT ![rme[self]] = TRUE]
             /\ pc' = [pc EXCEPT ![self] = "cp1"]
             /\ UNCHANGED << subs, sem, inflNil, registry, wdone, slow, 
                             detachQ, stopQ, pending, nreq, hubJoin, hubUnreg, 
                             hubMap, nextGen, exists, st, paused, deleted, 
                             ownerKnown, sessions, online, timer, regQ, unregQ, 
                             cliQ, metaQ, exitQ, joinMsg, evictB, slowB, 
                             faultB, bad, wgPanic, rme, rq, tg, wme, hi, hd, 
                             nm, gen, jm >>

cp1(self) == /\ pc[self] = "cp1"
             /\ IF ~DEV_PurgeRacesWriter
                   THEN /\ detachQ' = [detachQ EXCEPT ![rme[self]] = <<>>]
                        /\ stopQ' = [stopQ EXCEPT ![rme[self]] = 0]
                        /\ pc' = [pc EXCEPT ![self] = "cu2"]
                   ELSE /\ IF detachQ[rme[self]] = <<>>
                              THEN /\ pc' = [pc EXCEPT ![self] = "cp3"]
                              ELSE /\ pc' = [pc EXCEPT ![self] = "cp2"]
                        /\ UNCHANGED << detachQ, stopQ >>
             /\ UNCHANGED << subs, sem, inflNil, term, registry, wdone, slow, 
                             pending, nreq, hubJoin, hubUnreg, hubMap, nextGen, 
                             exists, st, paused, deleted, ownerKnown, sessions, 
                             online, timer, regQ, unregQ, cliQ, metaQ, exitQ, 
                             joinMsg, evictB, slowB, faultB, bad, wgPanic, rme, 
                             rq, tg, wme, hi, hd, nm, gen, jm >>

cp2(self) == /\ pc[self] = "cp2"
             /\ detachQ[rme[self]] # <<>>
             /\ detachQ' = [detachQ EXCEPT ![rme[self]] = Tail(detachQ[rme[self]])]
             /\ pc' = [pc EXCEPT ![self] = "cp1"]
             /\ UNCHANGED << subs, sem, inflNil, term, registry, wdone, slow, 
                             stopQ, pending, nreq, hubJoin, hubUnreg, hubMap, 
                             nextGen, exists, st, paused, deleted, ownerKnown, 
                             sessions, online, timer, regQ, unregQ, cliQ, 
                             metaQ, exitQ, joinMsg, evictB, slowB, faultB, bad, 
                             wgPanic, rme, rq, tg, wme, hi, hd, nm, gen, jm >>

cp3(self) == /\ pc[self] = "cp3"
             /\ IF stopQ[rme[self]] = 0
                   THEN /\ pc' = [pc EXCEPT ![self] = "cu2"]
                   ELSE /\ pc' = [pc EXCEPT ![self] = "cp4"]
             /\ UNCHANGED << subs, sem, inflNil, term, registry, wdone, slow, 
                             detachQ, stopQ, pending, nreq, hubJoin, hubUnreg, 
                             hubMap, nextGen, exists, st, paused, deleted, 
                             ownerKnown, sessions, online, timer, regQ, unregQ, 
                             cliQ, metaQ, exitQ, joinMsg, evictB, slowB, 
                             faultB, bad, wgPanic, rme, rq, tg, wme, hi, hd, 
                             nm, gen, jm >>

cp4(self) == /\ pc[self] = "cp4"
             /\ stopQ[rme[self]] > 0
             /\ stopQ' = [stopQ EXCEPT ![rme[self]] = 0]
             /\ pc' = [pc EXCEPT ![self] = "cp3"]
             /\ UNCHANGED << subs, sem, inflNil, term, registry, wdone, slow, 
                             detachQ, pending, nreq, hubJoin, hubUnreg, hubMap, 
                             nextGen, exists, st, paused, deleted, ownerKnown, 
                             sessions, online, timer, regQ, unregQ, cliQ, 
                             metaQ, exitQ, joinMsg, evictB, slowB, faultB, bad, 
                             wgPanic, rme, rq, tg, wme, hi, hd, nm, gen, jm >>

cu2(self) == /\ pc[self] = "cu2"
             /\ sem[rme[self]] = 0
             /\ inflNil' = [inflNil EXCEPT ![rme[self]] = TRUE]
             /\ registry' = [registry EXCEPT ![rme[self]] = FALSE]
             /\ unregQ' = [i \in Instances |-> IF subs[rme[self]][i[2]] = i[3]
                                               THEN Append(unregQ[i], Bye(rme[self], i[2])) ELSE unregQ[i]]
             /\ pc' = [pc EXCEPT ![self] = "cu5"]
             /\ UNCHANGED << subs, sem, term, wdone, slow, detachQ, stopQ, 
                             pending, nreq, hubJoin, hubUnreg, hubMap, nextGen, 
                             exists, st, paused, deleted, ownerKnown, sessions, 
                             online, timer, regQ, cliQ, metaQ, exitQ, joinMsg, 
                             evictB, slowB, faultB, bad, wgPanic, rme, rq, tg, 
                             wme, hi, hd, nm, gen, jm >>

cu5(self) == /\ pc[self] = "cu5"
             /\ stopQ[rme[self]] = 0
             /\ stopQ' = [stopQ EXCEPT ![rme[self]] = 1]
             /\ pc' = [pc EXCEPT ![self] = "Done"]
             /\ UNCHANGED << subs, sem, inflNil, term, registry, wdone, slow, 
                             detachQ, pending, nreq, hubJoin, hubUnreg, hubMap, 
                             nextGen, exists, st, paused, deleted, ownerKnown, 
                             sessions, online, timer, regQ, unregQ, cliQ, 
                             metaQ, exitQ, joinMsg, evictB, slowB, faultB, bad, 
                             wgPanic, rme, rq, tg, wme, hi, hd, nm, gen, jm >>

Reader(self) == r0(self) \/ rs1(self) \/ rl1(self) \/ rl3(self)
                   \/ rp1(self) \/ rp2(self) \/ rd1(self) \/ cu1(self)
                   \/ cp1(self) \/ cp2(self) \/ cp3(self) \/ cp4(self)
                   \/ cu2(self) \/ cu5(self)

w0(self) == /\ pc[self] = "w0"
            /\ IF ~wdone[wme[self]]
                  THEN /\ \/ /\ detachQ[wme[self]] # <<>>
                             /\ subs' = [subs EXCEPT ![wme[self]][Head(detachQ[wme[self]])] = 0]
                             /\ detachQ' = [detachQ EXCEPT ![wme[self]] = Tail(detachQ[wme[self]])]
                             /\ UNCHANGED <<wdone, slow, stopQ, slowB>>
                          \/ /\ stopQ[wme[self]] > 0
                             /\ stopQ' = [stopQ EXCEPT ![wme[self]] = 0]
                             /\ wdone' = [wdone EXCEPT ![wme[self]] = TRUE]
                             /\ UNCHANGED <<subs, slow, detachQ, slowB>>
                          \/ /\ slow[wme[self]]
                             /\ wdone' = [wdone EXCEPT ![wme[self]] = TRUE]
                             /\ UNCHANGED <<subs, slow, detachQ, stopQ, slowB>>
                          \/ /\ slowB > 0 /\ ~slow[wme[self]] /\ ~term[wme[self]]
                             /\ slow' = [slow EXCEPT ![wme[self]] = TRUE]
                             /\ slowB' = slowB - 1
                             /\ UNCHANGED <<subs, wdone, detachQ, stopQ>>
                       /\ pc' = [pc EXCEPT ![self] = "w0"]
                  ELSE /\ pc' = [pc EXCEPT ![self] = "Done"]
                       /\ UNCHANGED << subs, wdone, slow, detachQ, stopQ, 
                                       slowB >>
            /\ UNCHANGED << sem, inflNil, term, registry, pending, nreq, 
                            hubJoin, hubUnreg, hubMap, nextGen, exists, st, 
                            paused, deleted, ownerKnown, sessions, online, 
                            timer, regQ, unregQ, cliQ, metaQ, exitQ, joinMsg, 
                            evictB, faultB, bad, wgPanic, rme, rq, tg, wme, hi, 
                            hd, nm, gen, jm >>

Writer(self) == w0(self)

h0(self) == /\ pc[self] = "h0"
            /\ \/ /\ hubJoin # <<>>
                  /\ LET hm == Head(hubJoin) IN
                       /\ hubJoin' = Tail(hubJoin)
                       /\ IF hubMap[hm.n] = 0
                             THEN /\ LET i == <<"T", hm.n, nextGen[hm.n]>> IN
                                       /\ hubMap' = [hubMap EXCEPT ![hm.n] = nextGen[hm.n]]
                                       /\ nextGen' = [nextGen EXCEPT ![hm.n] = nextGen[hm.n] + 1]
                                       /\ st' = [st EXCEPT ![i] = "init"]
                                       /\ paused' = [paused EXCEPT ![i] = TRUE]
                                       /\ joinMsg' = [joinMsg EXCEPT ![i] = hm]
                                  /\ UNCHANGED << sem, pending, regQ, wgPanic >>
                             ELSE /\ IF Inactive(Cur(hm.n))
                                        THEN /\ IF ~inflNil[(hm.s)]
                                                   THEN /\ IF sem[(hm.s)] = 0
                                                              THEN /\ wgPanic' = TRUE
                                                                   /\ sem' = sem
                                                              ELSE /\ sem' = [sem EXCEPT ![(hm.s)] = 0]
                                                                   /\ UNCHANGED wgPanic
                                                   ELSE /\ TRUE
                                                        /\ UNCHANGED << sem, 
                                                                        wgPanic >>
                                             /\ pending' = Ans(pending, (hm.s), (hm.id))
                                             /\ regQ' = regQ
                                        ELSE /\ regQ' = [regQ EXCEPT ![Cur(hm.n)] = Append(regQ[Cur(hm.n)], hm)]
                                             /\ UNCHANGED << sem, pending, 
                                                             wgPanic >>
                                  /\ UNCHANGED << hubMap, nextGen, st, paused, 
                                                  joinMsg >>
                  /\ pc' = [pc EXCEPT ![self] = "h0"]
                  /\ UNCHANGED <<hubUnreg, exists, deleted, metaQ, hi, hd>>
               \/ /\ hubUnreg # <<>>
                  /\ LET hm == Head(hubUnreg) IN
                       /\ hubUnreg' = Tail(hubUnreg)
                       /\ IF hm.k = "del"
                             THEN /\ IF hubMap[hm.n] # 0
                                        THEN /\ IF ownerKnown[Cur(hm.n)] /\ Owner(hm.n) = hm.s
                                                   THEN /\ paused' = [paused EXCEPT ![Cur(hm.n)] = TRUE]
                                                        /\ hd' = [hd EXCEPT ![self] = hm]
                                                        /\ metaQ' = metaQ
                                                   ELSE /\ metaQ' = [metaQ EXCEPT ![Cur(hm.n)] = Append(metaQ[Cur(hm.n)], hm)]
                                                        /\ UNCHANGED << paused, 
                                                                        hd >>
                                             /\ UNCHANGED << pending, exists >>
                                        ELSE /\ IF Owner(hm.n) = hm.s
                                                   THEN /\ exists' = [exists EXCEPT ![hm.n] = FALSE]
                                                   ELSE /\ TRUE
                                                        /\ UNCHANGED exists
                                             /\ pending' = Ans(pending, (hm.s), (hm.id))
                                             /\ UNCHANGED << paused, metaQ, hd >>
                                  /\ UNCHANGED << hubMap, deleted, hi >>
                             ELSE /\ IF hubMap[hm.n] # 0 /\ (DEV_StaleTimeoutUnreg \/ hubMap[hm.n] = hm.g)
                                        THEN /\ deleted' = [deleted EXCEPT ![Cur(hm.n)] = TRUE]
                                             /\ hi' = [hi EXCEPT ![self] = Cur(hm.n)]
                                             /\ hubMap' = [hubMap EXCEPT ![hm.n] = 0]
                                        ELSE /\ TRUE
                                             /\ UNCHANGED << hubMap, deleted, 
                                                             hi >>
                                  /\ UNCHANGED << pending, exists, paused, 
                                                  metaQ, hd >>
                  /\ pc' = [pc EXCEPT ![self] = "hd1"]
                  /\ UNCHANGED <<sem, hubJoin, nextGen, st, regQ, joinMsg, wgPanic>>
            /\ UNCHANGED << subs, inflNil, term, registry, wdone, slow, 
                            detachQ, stopQ, nreq, ownerKnown, sessions, online, 
                            timer, unregQ, cliQ, exitQ, evictB, slowB, faultB, 
                            bad, rme, rq, tg, wme, nm, gen, jm >>

hd1(self) == /\ pc[self] = "hd1"
             /\ IF hd[self] # NoMsg
                   THEN /\ \/ /\ deleted' = [deleted EXCEPT ![Cur(hd[self].n)] = TRUE]
                              /\ exists' = [exists EXCEPT ![hd[self].n] = FALSE]
                              /\ pending' = Ans(pending, (hd[self].s), (hd[self].id))
                              /\ hi' = [hi EXCEPT ![self] = Cur(hd[self].n)]
                              /\ hubMap' = [hubMap EXCEPT ![hd[self].n] = 0]
                              /\ UNCHANGED <<paused, faultB>>
                           \/ /\ faultB > 0
                              /\ faultB' = faultB - 1
                              /\ paused' = [paused EXCEPT ![Cur(hd[self].n)] = DEV_DeleteFailLeavesPaused]
                              /\ pending' = Ans(pending, (hd[self].s), (hd[self].id))
                              /\ UNCHANGED <<hubMap, exists, deleted, hi>>
                        /\ hd' = [hd EXCEPT ![self] = NoMsg]
                   ELSE /\ TRUE
                        /\ UNCHANGED << pending, hubMap, exists, paused, 
                                        deleted, faultB, hi, hd >>
             /\ pc' = [pc EXCEPT ![self] = "hx"]
             /\ UNCHANGED << subs, sem, inflNil, term, registry, wdone, slow, 
                             detachQ, stopQ, nreq, hubJoin, hubUnreg, nextGen, 
                             st, ownerKnown, sessions, online, timer, regQ, 
                             unregQ, cliQ, metaQ, exitQ, joinMsg, evictB, 
                             slowB, bad, wgPanic, rme, rq, tg, wme, nm, gen, 
                             jm >>

hx(self) == /\ pc[self] = "hx"
            /\ IF hi[self] # NoInst
                  THEN /\ Len(exitQ[hi[self]]) < 1
                       /\ exitQ' = [exitQ EXCEPT ![hi[self]] = Append(exitQ[hi[self]], [done |-> FALSE])]
                       /\ hi' = [hi EXCEPT ![self] = NoInst]
                  ELSE /\ TRUE
                       /\ UNCHANGED << exitQ, hi >>
            /\ pc' = [pc EXCEPT ![self] = "h0"]
            /\ UNCHANGED << subs, sem, inflNil, term, registry, wdone, slow, 
                            detachQ, stopQ, pending, nreq, hubJoin, hubUnreg, 
                            hubMap, nextGen, exists, st, paused, deleted, 
                            ownerKnown, sessions, online, timer, regQ, unregQ, 
                            cliQ, metaQ, joinMsg, evictB, slowB, faultB, bad, 
                            wgPanic, rme, rq, tg, wme, hd, nm, gen, jm >>

Hub(self) == h0(self) \/ hd1(self) \/ hx(self)

i0(self) == /\ pc[self] = "i0"
            /\ st[self] = "init"
            /\ jm' = [jm EXCEPT ![self] = joinMsg[self]]
            /\ joinMsg' = [joinMsg EXCEPT ![self] = NoMsg]
            /\ \/ /\ exists[nm[self]]
                  /\ pc' = [pc EXCEPT ![self] = "iok"]
                  /\ UNCHANGED faultB
               \/ /\ ~exists[nm[self]] \/ faultB > 0
                  /\ IF exists[nm[self]]
                        THEN /\ faultB' = faultB - 1
                        ELSE /\ TRUE
                             /\ UNCHANGED faultB
                  /\ pc' = [pc EXCEPT ![self] = "if1"]
            /\ UNCHANGED << subs, sem, inflNil, term, registry, wdone, slow, 
                            detachQ, stopQ, pending, nreq, hubJoin, hubUnreg, 
                            hubMap, nextGen, exists, st, paused, deleted, 
                            ownerKnown, sessions, online, timer, regQ, unregQ, 
                            cliQ, metaQ, exitQ, evictB, slowB, bad, wgPanic, 
                            rme, rq, tg, wme, hi, hd, nm, gen >>

if1(self) == /\ pc[self] = "if1"
             /\ IF DEV_InitFailBlindTopicDel \/ hubMap[nm[self]] = gen[self]
                   THEN /\ hubMap' = [hubMap EXCEPT ![nm[self]] = 0]
                   ELSE /\ TRUE
                        /\ UNCHANGED hubMap
             /\ pending' = Ans(pending, (jm[self].s), (jm[self].id))
             /\ pc' = [pc EXCEPT ![self] = "if2"]
             /\ UNCHANGED << subs, sem, inflNil, term, registry, wdone, slow, 
                             detachQ, stopQ, nreq, hubJoin, hubUnreg, nextGen, 
                             exists, st, paused, deleted, ownerKnown, sessions, 
                             online, timer, regQ, unregQ, cliQ, metaQ, exitQ, 
                             joinMsg, evictB, slowB, faultB, bad, wgPanic, rme, 
                             rq, tg, wme, hi, hd, nm, gen, jm >>

if2(self) == /\ pc[self] = "if2"
             /\ IF regQ[self] # <<>>
                   THEN /\ Len(hubJoin) < CapHub
                        /\ hubJoin' = Append(hubJoin, Head(regQ[self]))
                        /\ regQ' = [regQ EXCEPT ![self] = Tail(regQ[self])]
                        /\ pc' = [pc EXCEPT ![self] = "if2"]
                   ELSE /\ pc' = [pc EXCEPT ![self] = "if3"]
                        /\ UNCHANGED << hubJoin, regQ >>
             /\ UNCHANGED << subs, sem, inflNil, term, registry, wdone, slow, 
                             detachQ, stopQ, pending, nreq, hubUnreg, hubMap, 
                             nextGen, exists, st, paused, deleted, ownerKnown, 
                             sessions, online, timer, unregQ, cliQ, metaQ, 
                             exitQ, joinMsg, evictB, slowB, faultB, bad, 
                             wgPanic, rme, rq, tg, wme, hi, hd, nm, gen, jm >>

if3(self) == /\ pc[self] = "if3"
             /\ pending' = AnsAll(AnsAll(AnsAll(pending, cliQ[self]), unregQ[self]), metaQ[self])
             /\ sem' = [s \in Sessions |-> IF s = jm[self].s /\ ~inflNil[s] THEN 0 ELSE RelAll(sem, unregQ[self])[s]]
             /\ cliQ' = [cliQ EXCEPT ![self] = <<>>]
             /\ unregQ' = [unregQ EXCEPT ![self] = <<>>]
             /\ metaQ' = [metaQ EXCEPT ![self] = <<>>]
             /\ IF exitQ[self] # <<>>
                   THEN /\ ~DEV_InitDrainNilDone \/ Head(exitQ[self]).done
                        /\ exitQ' = [exitQ EXCEPT ![self] = Tail(exitQ[self])]
                   ELSE /\ TRUE
                        /\ exitQ' = exitQ
             /\ st' = [st EXCEPT ![self] = "dead"]
             /\ jm' = [jm EXCEPT ![self] = NoMsg]
             /\ pc' = [pc EXCEPT ![self] = "idead"]
             /\ UNCHANGED << subs, inflNil, term, registry, wdone, slow, 
                             detachQ, stopQ, nreq, hubJoin, hubUnreg, hubMap, 
                             nextGen, exists, paused, deleted, ownerKnown, 
                             sessions, online, timer, regQ, joinMsg, evictB, 
                             slowB, faultB, bad, wgPanic, rme, rq, tg, wme, hi, 
                             hd, nm, gen >>

iok(self) == /\ pc[self] = "iok"
             /\ IF deleted[self]
                   THEN /\ IF DEV_InitDeletedSilent
                              THEN /\ IF ~inflNil[(jm[self].s)]
                                         THEN /\ IF sem[(jm[self].s)] = 0
                                                    THEN /\ wgPanic' = TRUE
                                                         /\ sem' = sem
                                                    ELSE /\ sem' = [sem EXCEPT ![(jm[self].s)] = 0]
                                                         /\ UNCHANGED wgPanic
                                         ELSE /\ TRUE
                                              /\ UNCHANGED << sem, wgPanic >>
                                   /\ st' = [st EXCEPT ![self] = "dead"]
                                   /\ jm' = [jm EXCEPT ![self] = NoMsg]
                                   /\ pc' = [pc EXCEPT ![self] = "idead"]
                                   /\ UNCHANGED pending
                              ELSE /\ pending' = Ans(pending, (jm[self].s), (jm[self].id))
                                   /\ pc' = [pc EXCEPT ![self] = "if2"]
                                   /\ UNCHANGED << sem, st, wgPanic, jm >>
                        /\ UNCHANGED << paused, ownerKnown, regQ >>
                   ELSE /\ regQ' = [regQ EXCEPT ![self] = Append(regQ[self], jm[self])]
                        /\ jm' = [jm EXCEPT ![self] = NoMsg]
                        /\ paused' = [paused EXCEPT ![self] = FALSE]
                        /\ ownerKnown' = [ownerKnown EXCEPT ![self] = TRUE]
                        /\ st' = [st EXCEPT ![self] = "run"]
                        /\ pc' = [pc EXCEPT ![self] = "t0"]
                        /\ UNCHANGED << sem, pending, wgPanic >>
             /\ UNCHANGED << subs, inflNil, term, registry, wdone, slow, 
                             detachQ, stopQ, nreq, hubJoin, hubUnreg, hubMap, 
                             nextGen, exists, deleted, sessions, online, timer, 
                             unregQ, cliQ, metaQ, exitQ, joinMsg, evictB, 
                             slowB, faultB, bad, rme, rq, tg, wme, hi, hd, nm, 
                             gen >>

t0(self) == /\ pc[self] = "t0"
            /\ IF st[self] = "run"
                  THEN /\ \/ /\ regQ[self] # <<>>
                             /\ LET tm == Head(regQ[self]) IN
                                  /\ regQ' = [regQ EXCEPT ![self] = Tail(regQ[self])]
                                  /\ IF Inactive(self)
                                        THEN /\ pending' = Ans(pending, (tm.s), (tm.id))
                                             /\ UNCHANGED << subs, sessions, 
                                                             online, timer, 
                                                             bad >>
                                        ELSE /\ IF subs[tm.s][nm[self]] # 0
                                                   THEN /\ pending' = Ans(pending, (tm.s), (tm.id))
                                                        /\ UNCHANGED << subs, 
                                                                        sessions, 
                                                                        online, 
                                                                        timer, 
                                                                        bad >>
                                                   ELSE /\ \/ /\ timer' = [timer EXCEPT ![self] = FALSE]
                                                              /\ sessions' = [sessions EXCEPT ![self] = sessions[self] \cup {tm.s}]
                                                              /\ online' = [online EXCEPT ![self][tm.s] = online[self][tm.s] + 1]
                                                              /\ subs' = [subs EXCEPT ![tm.s][nm[self]] = gen[self]]
                                                              /\ pending' = Ans(pending, (tm.s), (tm.id))
                                                              /\ bad' = (bad \cup HasLateSuccess(tm))
                                                           \/ /\ AllowRefuse
                                                              /\ pending' = Ans(pending, (tm.s), (tm.id))
                                                              /\ timer' = [timer EXCEPT ![self] = (sessions[self] = {})]
                                                              /\ UNCHANGED <<subs, sessions, online, bad>>
                                  /\ IF ~inflNil[(tm.s)]
                                        THEN /\ IF sem[(tm.s)] = 0
                                                   THEN /\ wgPanic' = TRUE
                                                        /\ sem' = sem
                                                   ELSE /\ sem' = [sem EXCEPT ![(tm.s)] = 0]
                                                        /\ UNCHANGED wgPanic
                                        ELSE /\ TRUE
                                             /\ UNCHANGED << sem, wgPanic >>
                             /\ pc' = [pc EXCEPT ![self] = "t0"]
                             /\ UNCHANGED <<detachQ, st, unregQ, cliQ, metaQ, exitQ, evictB, faultB>>
                          \/ /\ unregQ[self] # <<>>
                             /\ LET tm == Head(unregQ[self]) IN
                                  /\ unregQ' = [unregQ EXCEPT ![self] = Tail(unregQ[self])]
                                  /\ IF Inactive(self) /\ (tm.k # "bye" \/ DEV_InactiveByeIgnored)
                                        THEN /\ IF tm.k # "bye"
                                                   THEN /\ pending' = Ans(pending, (tm.s), (tm.id))
                                                   ELSE /\ TRUE
                                                        /\ UNCHANGED pending
                                             /\ UNCHANGED << subs, detachQ, 
                                                             sessions, online, 
                                                             faultB >>
                                        ELSE /\ IF tm.k = "unsub"
                                                   THEN /\ IF Owner(nm[self]) = tm.s
                                                              THEN /\ pending' = Ans(pending, (tm.s), (tm.id))
                                                                   /\ UNCHANGED << subs, 
                                                                                   detachQ, 
                                                                                   sessions, 
                                                                                   online, 
                                                                                   faultB >>
                                                              ELSE /\ \/ /\ pending' = Ans(pending, (tm.s), (tm.id))
                                                                         /\ IF tm.s \in sessions[self]
                                                                               THEN /\ sessions' = [sessions EXCEPT ![self] = sessions[self] \ {tm.s}]
                                                                                    /\ online' = [online EXCEPT ![self][tm.s] = 0]
                                                                                    /\ IF ~DEV_ExitAbandonsQueues
                                                                                          THEN /\ subs' = [subs EXCEPT ![tm.s][nm[self]] = 0]
                                                                                               /\ UNCHANGED detachQ
                                                                                          ELSE /\ IF ~term[tm.s]
                                                                                                     THEN /\ detachQ' = [detachQ EXCEPT ![tm.s] = Append(detachQ[tm.s], nm[self])]
                                                                                                     ELSE /\ TRUE
                                                                                                          /\ UNCHANGED detachQ
                                                                                               /\ subs' = subs
                                                                               ELSE /\ TRUE
                                                                                    /\ UNCHANGED << subs, 
                                                                                                    detachQ, 
                                                                                                    sessions, 
                                                                                                    online >>
                                                                         /\ UNCHANGED faultB
                                                                      \/ /\ faultB > 0
                                                                         /\ faultB' = faultB - 1
                                                                         /\ pending' = Ans(pending, (tm.s), (tm.id))
                                                                         /\ UNCHANGED <<subs, detachQ, sessions, online>>
                                                   ELSE /\ IF tm.s \in sessions[self]
                                                              THEN /\ sessions' = [sessions EXCEPT ![self] = sessions[self] \ {tm.s}]
                                                                   /\ subs' = [subs EXCEPT ![tm.s][nm[self]] = 0]
                                                                   /\ online' = [online EXCEPT ![self][tm.s] = online[self][tm.s] - 1]
                                                                   /\ IF tm.k # "bye"
                                                                         THEN /\ pending' = Ans(pending, (tm.s), (tm.id))
                                                                         ELSE /\ TRUE
                                                                              /\ UNCHANGED pending
                                                              ELSE /\ TRUE
                                                                   /\ UNCHANGED << subs, 
                                                                                   pending, 
                                                                                   sessions, 
                                                                                   online >>
                                                        /\ UNCHANGED << detachQ, 
                                                                        faultB >>
                                  /\ IF tm.k # "bye"
                                        THEN /\ IF ~inflNil[(tm.s)]
                                                   THEN /\ IF sem[(tm.s)] = 0
                                                              THEN /\ wgPanic' = TRUE
                                                                   /\ sem' = sem
                                                              ELSE /\ sem' = [sem EXCEPT ![(tm.s)] = 0]
                                                                   /\ UNCHANGED wgPanic
                                                   ELSE /\ TRUE
                                                        /\ UNCHANGED << sem, 
                                                                        wgPanic >>
                                        ELSE /\ TRUE
                                             /\ UNCHANGED << sem, wgPanic >>
                                  /\ IF sessions'[self] = {}
                                        THEN /\ timer' = [timer EXCEPT ![self] = TRUE]
                                        ELSE /\ TRUE
                                             /\ timer' = timer
                             /\ pc' = [pc EXCEPT ![self] = "t0"]
                             /\ UNCHANGED <<st, regQ, cliQ, metaQ, exitQ, evictB, bad>>
                          \/ /\ cliQ[self] # <<>>
                             /\ LET tm == Head(cliQ[self]) IN
                                  /\ cliQ' = [cliQ EXCEPT ![self] = Tail(cliQ[self])]
                                  /\ IF ~Inactive(self)
                                        THEN /\ bad' = (bad \cup HasLateSuccess(tm))
                                             /\ \E D \in SUBSET {s \in sessions[self] : slow[s]}:
                                                  /\ sessions' = [sessions EXCEPT ![self] = sessions[self] \ D]
                                                  /\ subs' = [s \in Sessions |-> IF s \in D THEN [subs[s] EXCEPT ![nm[self]] = 0] ELSE subs[s]]
                                                  /\ online' = [online EXCEPT ![self] = [s \in Sessions |-> IF s \in D THEN online[self][s] - 1 ELSE online[self][s]]]
                                                  /\ IF D # {} /\ sessions'[self] = {}
                                                        THEN /\ timer' = [timer EXCEPT ![self] = TRUE]
                                                        ELSE /\ TRUE
                                                             /\ timer' = timer
                                        ELSE /\ TRUE
                                             /\ UNCHANGED << subs, sessions, 
                                                             online, timer, 
                                                             bad >>
                             /\ pc' = [pc EXCEPT ![self] = "t0"]
                             /\ UNCHANGED <<sem, detachQ, pending, st, regQ, unregQ, metaQ, exitQ, evictB, faultB, wgPanic>>
                          \/ /\ metaQ[self] # <<>>
                             /\ LET tm == Head(metaQ[self]) IN
                                  /\ metaQ' = [metaQ EXCEPT ![self] = Tail(metaQ[self])]
                                  /\ IF Owner(nm[self]) = tm.s
                                        THEN /\ IF ~DEV_OwnerDelViaMetaSilent
                                                   THEN /\ pending' = Ans(pending, (tm.s), (tm.id))
                                                   ELSE /\ TRUE
                                                        /\ UNCHANGED pending
                                             /\ UNCHANGED << subs, detachQ, 
                                                             sessions, online, 
                                                             timer >>
                                        ELSE /\ pending' = Ans(pending, (tm.s), (tm.id))
                                             /\ IF tm.s \in sessions[self]
                                                   THEN /\ sessions' = [sessions EXCEPT ![self] = sessions[self] \ {tm.s}]
                                                        /\ online' = [online EXCEPT ![self][tm.s] = 0]
                                                        /\ IF ~DEV_ExitAbandonsQueues
                                                              THEN /\ subs' = [subs EXCEPT ![tm.s][nm[self]] = 0]
                                                                   /\ UNCHANGED detachQ
                                                              ELSE /\ IF ~term[tm.s]
                                                                         THEN /\ detachQ' = [detachQ EXCEPT ![tm.s] = Append(detachQ[tm.s], nm[self])]
                                                                         ELSE /\ TRUE
                                                                              /\ UNCHANGED detachQ
                                                                   /\ subs' = subs
                                                        /\ IF sessions'[self] = {}
                                                              THEN /\ timer' = [timer EXCEPT ![self] = TRUE]
                                                              ELSE /\ TRUE
                                                                   /\ timer' = timer
                                                   ELSE /\ TRUE
                                                        /\ UNCHANGED << subs, 
                                                                        detachQ, 
                                                                        sessions, 
                                                                        online, 
                                                                        timer >>
                             /\ pc' = [pc EXCEPT ![self] = "t0"]
                             /\ UNCHANGED <<sem, st, regQ, unregQ, cliQ, exitQ, evictB, faultB, bad, wgPanic>>
                          \/ /\ evictB > 0 /\ ~Inactive(self) /\ sessions[self] # {}
                             /\ \E s \in sessions[self]:
                                  /\ evictB' = evictB - 1
                                  /\ sessions' = [sessions EXCEPT ![self] = sessions[self] \ {s}]
                                  /\ online' = [online EXCEPT ![self][s] = 0]
                                  /\ pending' = AnsLeaves(pending, s, nm[self])
                                  /\ IF ~DEV_ExitAbandonsQueues
                                        THEN /\ subs' = [subs EXCEPT ![s][nm[self]] = 0]
                                             /\ UNCHANGED detachQ
                                        ELSE /\ IF ~term[s]
                                                   THEN /\ detachQ' = [detachQ EXCEPT ![s] = Append(detachQ[s], nm[self])]
                                                   ELSE /\ TRUE
                                                        /\ UNCHANGED detachQ
                                             /\ subs' = subs
                             /\ pc' = [pc EXCEPT ![self] = "t0"]
                             /\ UNCHANGED <<sem, st, timer, regQ, unregQ, cliQ, metaQ, exitQ, faultB, bad, wgPanic>>
                          \/ /\ timer[self]
                             /\ timer' = [timer EXCEPT ![self] = FALSE]
                             /\ pc' = [pc EXCEPT ![self] = "tk"]
                             /\ UNCHANGED <<subs, sem, detachQ, pending, st, sessions, online, regQ, unregQ, cliQ, metaQ, exitQ, evictB, faultB, bad, wgPanic>>
                          \/ /\ exitQ[self] # <<>>
                             /\ exitQ' = [exitQ EXCEPT ![self] = Tail(exitQ[self])]
                             /\ IF DEV_ExitAbandonsQueues
                                   THEN /\ detachQ' = [s \in Sessions |-> IF s \in sessions[self] /\ ~term[s]
                                                                          THEN Append(detachQ[s], nm[self]) ELSE detachQ[s]]
                                        /\ UNCHANGED << subs, sem, pending, 
                                                        regQ, unregQ, cliQ, 
                                                        metaQ >>
                                   ELSE /\ subs' = [s \in Sessions |-> IF s \in sessions[self] THEN [subs[s] EXCEPT ![nm[self]] = 0] ELSE subs[s]]
                                        /\ pending' = AnsAll(AnsAll(AnsAll(AnsAll(pending, regQ[self]), unregQ[self]), cliQ[self]), metaQ[self])
                                        /\ sem' = RelAll(RelAll(sem, regQ[self]), unregQ[self])
                                        /\ regQ' = [regQ EXCEPT ![self] = <<>>]
                                        /\ unregQ' = [unregQ EXCEPT ![self] = <<>>]
                                        /\ cliQ' = [cliQ EXCEPT ![self] = <<>>]
                                        /\ metaQ' = [metaQ EXCEPT ![self] = <<>>]
                                        /\ UNCHANGED detachQ
                             /\ sessions' = [sessions EXCEPT ![self] = {}]
                             /\ timer' = [timer EXCEPT ![self] = FALSE]
                             /\ st' = [st EXCEPT ![self] = "dead"]
                             /\ pc' = [pc EXCEPT ![self] = "t0"]
                             /\ UNCHANGED <<online, evictB, faultB, bad, wgPanic>>
                  ELSE /\ pc' = [pc EXCEPT ![self] = "idead"]
                       /\ UNCHANGED << subs, sem, detachQ, pending, st, 
                                       sessions, online, timer, regQ, unregQ, 
                                       cliQ, metaQ, exitQ, evictB, faultB, bad, 
                                       wgPanic >>
            /\ UNCHANGED << inflNil, term, registry, wdone, slow, stopQ, nreq, 
                            hubJoin, hubUnreg, hubMap, nextGen, exists, paused, 
                            deleted, ownerKnown, joinMsg, slowB, rme, rq, tg, 
                            wme, hi, hd, nm, gen, jm >>

tk(self) == /\ pc[self] = "tk"
            /\ Len(hubUnreg) < CapHub
            /\ hubUnreg' = Append(hubUnreg, [s |-> "", n |-> nm[self], id |-> 0, k |-> "timeout", late |-> FALSE, g |-> gen[self]])
            /\ pc' = [pc EXCEPT ![self] = "t0"]
            /\ UNCHANGED << subs, sem, inflNil, term, registry, wdone, slow, 
                            detachQ, stopQ, pending, nreq, hubJoin, hubMap, 
                            nextGen, exists, st, paused, deleted, ownerKnown, 
                            sessions, online, timer, regQ, unregQ, cliQ, metaQ, 
                            exitQ, joinMsg, evictB, slowB, faultB, bad, 
                            wgPanic, rme, rq, tg, wme, hi, hd, nm, gen, jm >>

idead(self) == /\ pc[self] = "idead"
               /\ TRUE
               /\ pc' = [pc EXCEPT ![self] = "Done"]
               /\ UNCHANGED << subs, sem, inflNil, term, registry, wdone, slow, 
                               detachQ, stopQ, pending, nreq, hubJoin, 
                               hubUnreg, hubMap, nextGen, exists, st, paused, 
                               deleted, ownerKnown, sessions, online, timer, 
                               regQ, unregQ, cliQ, metaQ, exitQ, joinMsg, 
                               evictB, slowB, faultB, bad, wgPanic, rme, rq, 
                               tg, wme, hi, hd, nm, gen, jm >>

Inst(self) == i0(self) \/ if1(self) \/ if2(self) \/ if3(self) \/ iok(self)
                 \/ t0(self) \/ tk(self) \/ idead(self)

Next == (\E self \in RD: Reader(self))
           \/ (\E self \in WR: Writer(self))
           \/ (\E self \in {HubId}: Hub(self))
           \/ (\E self \in Instances: Inst(self))

Spec == /\ Init /\ [][Next]_vars
        /\ \A self \in RD : WF_vars(Reader(self))
        /\ \A self \in WR : WF_vars(Writer(self))
        /\ \A self \in {HubId} : WF_vars(Hub(self))
        /\ \A self \in Instances : WF_vars(Inst(self))

\* END TRANSLATION

\* ------------------------------------------------------------------ properties
Rd(s) == <<"rd", s, 0>>
Wr(s) == <<"wr", s, 0>>
Running(i) == st[i] = "run"
InstIdle(i) == \/ st[i] \in {"none", "dead"}
               \/ /\ st[i] = "run" /\ pc[i] = "t0"
                  /\ regQ[i] = <<>> /\ unregQ[i] = <<>> /\ cliQ[i] = <<>> /\ metaQ[i] = <<>> /\ exitQ[i] = <<>>
SessIdle(s) == /\ pc[Rd(s)] \in {"r0", "Done"}
               /\ pc[Wr(s)] \in {"w0", "Done"}
               /\ ~wdone[s] => (detachQ[s] = <<>> /\ stopQ[s] = 0)
               /\ slow[s] => wdone[s]
               /\ wdone[s] => pc[Rd(s)] = "Done"
               /\ term[s] => pc[Rd(s)] = "Done"
Quiescent == /\ pc[HubId] = "h0" /\ hubJoin = <<>> /\ hubUnreg = <<>>
             /\ \A i \in Instances : InstIdle(i)
             /\ \A s \in Sessions : SessIdle(s)
\* nothing more will be asked: a legitimate final state (TLC's deadlock check then reports every OTHER state without a successor)
Final == Quiescent /\ \A s \in Sessions : pc[Rd(s)] = "Done" \/ ~MayAsk(s)
NextQ == Next \/ (Final /\ UNCHANGED vars)
SpecQ == Init /\ [][NextQ]_vars

Live(s) == ~term[s]

EveryAddMatchedByOneDone ==
  /\ ~wgPanic
  /\ \A s \in Sessions : sem[s] \in 0..1
  /\ Quiescent => \A s \in Sessions : sem[s] = 0
EveryRequestAnswered == Quiescent => \A s \in Sessions : Live(s) => pending[s] = {}
AttachSymmetry ==
  Quiescent => \A s \in Sessions : Live(s) => \A n \in Names :
     /\ subs[s][n] # 0 => /\ Running(<<"T", n, subs[s][n]>>) /\ s \in sessions[<<"T", n, subs[s][n]>>]
                          /\ hubMap[n] = subs[s][n]
     /\ \A g \in 1..MaxGen : (Running(<<"T", n, g>>) /\ s \in sessions[<<"T", n, g>>]) => subs[s][n] = g
TerminatedSessionFullyDetached ==
  Quiescent => \A s \in Sessions : term[s] =>
     /\ ~registry[s]
     /\ \A i \in Instances : Running(i) => (s \notin sessions[i] /\ online[i][s] = 0)
OnlineConsistent ==
  Quiescent => \A i \in Instances : Running(i) => \A s \in Sessions : online[i][s] = IF s \in sessions[i] THEN 1 ELSE 0
DeletedTopicRefuses ==
  /\ "SuccessAfterDelete" \notin bad
  /\ Quiescent => \A n \in Names : ~exists[n] =>
        /\ hubMap[n] = 0 /\ \A g \in 1..MaxGen : ~Running(<<"T", n, g>>)
        /\ \A s \in Sessions : Live(s) => subs[s][n] = 0
\* a topic is never left paused for good (later requests would be refused with 503 forever)
NoTopicLeftPaused == Quiescent => \A i \in Instances : Running(i) => ~paused[i]
NoOrphanTopic == Quiescent => \A i \in Instances : Running(i) => hubMap[i[2]] = i[3]
GenBound == \A n \in Names : nextGen[n] <= MaxGen + 1
=============================================================================
