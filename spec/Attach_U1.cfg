CONSTANTS
  Sessions = {"s1", "s2"}
  Names = {"t1", "t2"}
  MaxGen = 3
  MaxReq = 2
  TotalReq = 3
  Ops = {"sub", "leave", "unsub", "pub", "del", "disc"}
  CapHub = 9
  EvictBudget = 1
  SlowBudget = 1
  FaultBudget = 1
  AllowRefuse = FALSE
  DelByAnyone = FALSE
  DEV_ExitAbandonsQueues = FALSE
  DEV_InitDrainNilDone = FALSE
  DEV_InitDeletedSilent = FALSE
  DEV_InitFailBlindTopicDel = FALSE
  DEV_OwnerDelViaMetaSilent = FALSE
  DEV_PurgeRacesWriter = FALSE
  DEV_StaleTimeoutUnreg = FALSE
  DEV_InactiveByeIgnored = FALSE
  DEV_DeleteFailLeavesPaused = FALSE
SPECIFICATION SpecQ
INVARIANT EveryAddMatchedByOneDone
INVARIANT EveryRequestAnswered
INVARIANT AttachSymmetry
INVARIANT TerminatedSessionFullyDetached
INVARIANT OnlineConsistent
INVARIANT DeletedTopicRefuses
INVARIANT NoOrphanTopic
INVARIANT NoTopicLeftPaused
INVARIANT GenBound
