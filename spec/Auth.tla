-------------------------------- MODULE Auth --------------------------------
(***************************************************************************)
(* C12 - reference semantics of the four secret checkers of tinode/chat,   *)
(* transcribed function by function from                                    *)
(*   server/auth/token/auth_token.go  (Authenticate, GenSecret)             *)
(*   server/auth/code/auth_code.go    (Authenticate, GenSecret)             *)
(*   server/auth/basic/auth_basic.go  (AddRecord, UpdateRecord,             *)
(*                                     Authenticate, IsUnique, DelRecords)  *)
(*   server/api_key.go                (checkAPIKey)                         *)
(* as PURE step operators (state, request) -> [state, reply].  The state    *)
(* machines AuthToken/AuthCode/AuthBasic/AuthApiKey explore them with TLC   *)
(* (design check U1), Monitor_C12 folds the same operators over sequences   *)
(* recorded from the real code (binding).                                   *)
(*                                                                         *)
(* Cryptography is abstracted: Sig(key, fields) is an uninterpreted         *)
(* injective function, modelled as the tuple itself.  Whoever does not hold *)
(* `key` can present only signatures it has seen, or garbage.               *)
(*                                                                         *)
(* DEV_* = TRUE is what the code does today where that differs from the     *)
(* intended behaviour; the design check runs with every DEV_* = FALSE.      *)
(***************************************************************************)
EXTENDS Integers, Sequences, FiniteSets

CONSTANTS
  DEV_CodeNoAgeCheckOnGuess,   \* code.Authenticate never looks at the age of the entry; an over-age code
                               \* stays usable until the next GenSecret garbage-collects it (auth_code.go:98-139,144)
  DEV_LoginLowerNotFold,       \* parseSecret keys accounts by strings.ToLower(login), which is not a case fold:
                               \* logins that differ only in letter case can get different keys (auth_basic.go:65)
  DEV_SerialTruncated16,       \* token.Init accepts any int as serial_num but the token carries it as uint16: serials
                               \* that are equal mod 65536 are indistinguishable (auth_token.go:74,125,157)
  DEV_ApiKeyPanicsOnShortDecode \* checkAPIKey indexes the decoded key without checking its length; base64 skips
                               \* CR/LF, so a 32..35 character key can decode to fewer than 8 bytes (api_key.go:56-64)

\* ------------------------------------------------------------------ time
\* A time is a pair <<hi, lo>> of 16-bit limbs of a uint32 number of seconds (TLC integers are 32-bit signed).
T(n) == <<n \div 65536, n % 65536>>
TBefore(a, b) == a[1] < b[1] \/ (a[1] = b[1] /\ a[2] < b[2])
TPlus1(a) == IF a[2] = 65535 THEN <<a[1] + 1, 0>> ELSE <<a[1], a[2] + 1>>

\* ------------------------------------------------------------------ login token
LevelNone == 0
LevelAnon == 10
LevelAuth == 20
LevelRoot == 30
FeatureValidated == 1
FeatureNoLogin == 2

\* The classes of presented tokens the conformance harness must concretise (every member bit by bit).
TokenClasses == {
  "none",          \* the issued bytes themselves
  "field-bit",     \* one bit of the 18 signed data bytes flipped
  "signature-bit", \* one bit of the 32 signature bytes flipped
  "multi-bit",     \* several bits flipped anywhere in the 50 bytes
  "truncated",     \* every proper prefix
  "extended",      \* the 50 issued bytes followed by a suffix
  "spliced",       \* data of one issued token with the signature of another
  "foreign-key",   \* the same data signed under a key that is not the server's current key
  "wrong-serial",  \* issued under another serial number (same key)
  "expired",       \* correctly signed, expiry not in the future
  "level-above-root", \* correctly signed, authentication level > root
  "random"}        \* arbitrary bytes

Sig(key, fields) == <<"sig", key, fields>>
TokFields(tok) == <<tok.uid, tok.exp, tok.lvl, tok.serial, tok.feat>>

Refuse(e) == [ok |-> FALSE, err |-> e]

\* token.Authenticate (auth_token.go:95-141).  tok.shape: "short" (< 50 bytes), "full" (50), "long" (> 50: the
\* first 50 bytes are used, the rest is ignored).  now is the server clock.
Accept(tok, cfg, now) ==
  IF tok.shape = "short" THEN Refuse("malformed")
  ELSE IF tok.sig # Sig(cfg.key, TokFields(tok)) THEN Refuse("failed")
  ELSE IF tok.lvl > LevelRoot THEN Refuse("malformed")
  ELSE IF tok.serial # cfg.serial THEN Refuse("failed")     \* int(uint16) against the configured int
  ELSE IF TBefore(tok.exp, TPlus1(now)) THEN Refuse("expired")
  ELSE [ok |-> TRUE, err |-> "", uid |-> tok.uid, lvl |-> tok.lvl, feat |-> tok.feat, exp |-> tok.exp]

\* token.GenSecret (auth_token.go:144-167).  rec = [uid, lvl, feat, exp]; exp is the absolute expiry the caller's
\* lifetime works out to (Past stands for a negative lifetime).  Fields are stored as uint16.
Past == <<-1, 0>>
\* token.Init: which serial numbers a configuration may carry
SerialOk(s) == DEV_SerialTruncated16 \/ s \in 0..65535
Issue(cfg, rec) ==
  IF rec.exp[1] < 0 THEN [ok |-> FALSE, err |-> "expired"]
  ELSE LET f == [uid |-> rec.uid, exp |-> rec.exp, lvl |-> rec.lvl % 65536,
                 serial |-> cfg.serial % 65536, feat |-> rec.feat % 65536]
       IN [ok |-> TRUE, err |-> "",
           tok |-> [shape |-> "full", uid |-> f.uid, exp |-> f.exp, lvl |-> f.lvl, serial |-> f.serial,
                    feat |-> f.feat, sig |-> Sig(cfg.key, TokFields(f))]]

\* ------------------------------------------------------------------ reset code (persistent cache entry code:count:uid)
NoEntry == [code |-> 0, count |-> 0, uid |-> "", old |-> FALSE, present |-> FALSE]

\* code.GenSecret (auth_code.go:142-170): garbage-collect every over-age entry of EVERY credential, then INSERT
\* (fails on conflict).  `code` is the fresh code the generator drew.
CodeIssue(pc, cred, uid, code) ==
  LET gc == [c \in DOMAIN pc |-> IF pc[c].present /\ pc[c].old THEN NoEntry ELSE pc[c]] IN
    IF gc[cred].present
      THEN [pc |-> gc, ok |-> FALSE, err |-> "duplicate"]
      ELSE [pc |-> [gc EXCEPT ![cred] = [code |-> code, count |-> 0, uid |-> uid, old |-> FALSE, present |-> TRUE]],
            ok |-> TRUE, err |-> ""]

\* code.Authenticate (auth_code.go:89-139).  guess = 0 never equals an issued code.
CodeGuess(pc, cred, guess, maxRetries) ==
  LET e == pc[cred] IN
    IF ~e.present THEN [pc |-> pc, ok |-> FALSE, err |-> "failed"]
    ELSE IF ~DEV_CodeNoAgeCheckOnGuess /\ e.old THEN [pc |-> pc, ok |-> FALSE, err |-> "failed"]
    ELSE IF e.count >= maxRetries THEN [pc |-> pc, ok |-> FALSE, err |-> "failed"]
    ELSE IF e.code # guess
      \* REPLACE: the row gets a new creation time
      THEN [pc |-> [pc EXCEPT ![cred] = [e EXCEPT !.count = e.count + 1, !.old = FALSE]], ok |-> FALSE, err |-> "failed"]
    ELSE [pc |-> [pc EXCEPT ![cred] = NoEntry], ok |-> TRUE, err |-> "", uid |-> e.uid,
          lvl |-> LevelNone, feat |-> FeatureNoLogin]

\* More than the configured lifetime passes without any write.
CodeAge(pc) == [c \in DOMAIN pc |-> IF pc[c].present THEN [pc[c] EXCEPT !.old = TRUE] ELSE pc[c]]

\* ------------------------------------------------------------------ login + password
\* A login is a record [fam, lk, pol]: fam = its class under "equal regardless of letter case",
\* lk = its class under strings.ToLower (what the code uses as the key), pol = passes checkLoginPolicy.
\* A password is a record [id, pol]: id = its identity as a byte string, pol = passes checkPasswordPolicy.
LoginKey(l) == IF DEV_LoginLowerNotFold THEN l.lk ELSE l.fam

\* recs: set of [uid, key, fam, pw, lvl, expired]  (table `auth`: UNIQUE(uname), UNIQUE(userid, scheme)).
BasicAdd(recs, uid, l, p, lvl, life) ==
  IF ~l.pol \/ ~p.pol THEN [recs |-> recs, ok |-> FALSE, err |-> "policy"]
  ELSE IF \E r \in recs : r.key = LoginKey(l) \/ r.uid = uid THEN [recs |-> recs, ok |-> FALSE, err |-> "duplicate"]
  ELSE LET lv == IF lvl = LevelNone THEN LevelAuth ELSE lvl IN
       [recs |-> recs \cup {[uid |-> uid, key |-> LoginKey(l), fam |-> l.fam, pw |-> p.id, lvl |-> lv,
                             mortal |-> life > 0, expired |-> FALSE]},
        ok |-> TRUE, err |-> "", lvl |-> lv]

BasicAuth(recs, l, p) ==
  IF \E r \in recs : r.key = LoginKey(l)
    THEN LET r == CHOOSE r \in recs : r.key = LoginKey(l) IN
           IF r.expired THEN [ok |-> FALSE, err |-> "expired"]
           ELSE IF r.pw # p.id THEN [ok |-> FALSE, err |-> "failed"]
           ELSE [ok |-> TRUE, err |-> "", uid |-> r.uid, lvl |-> r.lvl, feat |-> 0]
    ELSE [ok |-> FALSE, err |-> "failed"]

\* l.fam = "" (empty login part) means "password only".
BasicUpdate(recs, uid, l, p, life) ==
  IF ~\E r \in recs : r.uid = uid THEN [recs |-> recs, ok |-> FALSE, err |-> "not found"]
  ELSE LET own == CHOOSE r \in recs : r.uid = uid
           same == l.fam = "" \/ LoginKey(l) = own.key IN
    IF ~same /\ ~l.pol THEN [recs |-> recs, ok |-> FALSE, err |-> "policy"]
    ELSE IF ~same /\ \E r \in recs : r.key = LoginKey(l) THEN [recs |-> recs, ok |-> FALSE, err |-> "duplicate"]
    ELSE IF ~p.pol THEN [recs |-> recs, ok |-> FALSE, err |-> "policy"]
    ELSE [recs |-> (recs \ {own}) \cup {[own EXCEPT !.key = IF same THEN own.key ELSE LoginKey(l),
                                                    !.fam = IF same THEN own.fam ELSE l.fam,
                                                    !.pw = p.id, !.mortal = life > 0, !.expired = FALSE]},
          ok |-> TRUE, err |-> ""]

BasicIsUnique(recs, l) ==
  IF ~l.pol THEN [ok |-> FALSE, err |-> "policy"]
  ELSE IF \E r \in recs : r.key = LoginKey(l) THEN [ok |-> FALSE, err |-> "duplicate"]
  ELSE [ok |-> TRUE, err |-> ""]

BasicDel(recs, uid) == {r \in recs : r.uid # uid}
BasicExpire(recs) == {[r EXCEPT !.expired = r.mortal \/ r.expired] : r \in recs}

\* ------------------------------------------------------------------ API key
\* key = [enc, n, ver, body, sig]: enc = "badlen" (DecodedLen(len(text)) # 24), "badb64" (decoder error),
\* "ok"; n = number of decoded bytes (24 unless the text contains CR/LF, which the decoder skips);
\* ver = first byte; body = <<ver, appid, seq, who>>; who = the is-root byte.
CheckApiKey(k, salt) ==
  IF k.enc = "badlen" \/ k.enc = "badb64" THEN [out |-> "invalid", root |-> FALSE]
  ELSE IF DEV_ApiKeyPanicsOnShortDecode /\ k.n = 0 THEN [out |-> "panic", root |-> FALSE]
  ELSE IF k.n = 0 \/ k.ver # 1 THEN [out |-> "invalid", root |-> FALSE]
  ELSE IF DEV_ApiKeyPanicsOnShortDecode /\ k.n < 8 THEN [out |-> "panic", root |-> FALSE]
  ELSE IF k.n < 24 \/ k.sig # Sig(salt, k.body) THEN [out |-> "invalid", root |-> FALSE]
  ELSE [out |-> "valid", root |-> k.body[4] = 1]

IssueApiKey(salt, ver, seq, who) ==
  LET body == <<ver, 0, seq, who>> IN [enc |-> "ok", n |-> 24, ver |-> ver, body |-> body, sig |-> Sig(salt, body)]
=============================================================================
