CONSTANTS
  DEV_CodeNoAgeCheckOnGuess = FALSE
  DEV_LoginLowerNotFold = FALSE
  DEV_SerialTruncated16 = FALSE
  DEV_ApiKeyPanicsOnShortDecode = FALSE
  Salts = {"s1", "s2"}
  AttackerSalt = "sa"
  Vers = {0, 1, 2}
  Seqs = {1}
  Whos = {0, 1, 2}
  MaxKeys = 2
SPECIFICATION Spec
INVARIANTS ApiKeyNeedsSalt ApiKeyRootOnlyIfSigned ApiKeyNeverPanics
CHECK_DEADLOCK FALSE
