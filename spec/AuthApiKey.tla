----------------------------- MODULE AuthApiKey -----------------------------
(***************************************************************************)
(* C12 design check, API keys.  The operator generates keys with the        *)
(* server's salt (keygen), the salt can be replaced; in every reachable     *)
(* state EVERY key a client can present is run through CheckApiKey: any     *)
(* body, with a garbage signature, the signature of any key generated so    *)
(* far (replayed or spliced) or one made with the client's own salt; in     *)
(* every encoding class.                                                    *)
(***************************************************************************)
EXTENDS Auth, TLC

CONSTANTS Salts, AttackerSalt, Vers, Seqs, Whos, MaxKeys

VARIABLES salt, keys
vars == <<salt, keys>>

Init == salt \in Salts /\ keys = {}
Generate(ver, seq, who) == /\ Cardinality(keys) < MaxKeys
                           /\ keys' = keys \cup {[k |-> IssueApiKey(salt, ver, seq, who), salt |-> salt]}
                           /\ UNCHANGED salt
Resalt(s) == s # salt /\ salt' = s /\ UNCHANGED keys
Next == (\E v \in Vers, q \in Seqs, w \in Whos : Generate(v, q, w)) \/ (\E s \in Salts : Resalt(s))
Spec == Init /\ [][Next]_vars

Bodies == {<<v, 0, q, w>> : v \in Vers, q \in Seqs, w \in Whos}
SigsFor(b) == {<<"garbage">>, Sig(AttackerSalt, b)} \cup {i.k.sig : i \in keys}
Encs == {<<"ok", 24>>, <<"badlen", 24>>, <<"badb64", 24>>, <<"ok", 0>>, <<"ok", 3>>, <<"ok", 21>>}
ForAllPresentable(P(_)) ==
  \A b \in Bodies : \A sg \in SigsFor(b) : \A e \in Encs :
     P([enc |-> e[1], n |-> e[2], ver |-> b[1], body |-> b, sig |-> sg])

\* accepted => bit-for-bit a key generated with the CURRENT salt
ApiKeyNeedsSalt ==
  LET P(k) == CheckApiKey(k, salt).out = "valid" =>
                 k.enc = "ok" /\ k.n = 24 /\ \E i \in keys : i.k.body = k.body /\ i.k.sig = k.sig /\ i.salt = salt
  IN ForAllPresentable(P)
\* root only for a key generated as root
ApiKeyRootOnlyIfSigned ==
  LET P(k) == LET r == CheckApiKey(k, salt) IN r.root => r.out = "valid" /\ k.body[4] = 1
  IN ForAllPresentable(P)
\* (as intended) every presented key is answered, none crashes the handler
ApiKeyNeverPanics == LET P(k) == CheckApiKey(k, salt).out # "panic" IN ForAllPresentable(P)

WitnessNeverValid == LET P(k) == CheckApiKey(k, salt).out # "valid" IN ForAllPresentable(P)
=============================================================================
