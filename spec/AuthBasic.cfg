CONSTANTS
  DEV_CodeNoAgeCheckOnGuess = FALSE
  DEV_LoginLowerNotFold = FALSE
  DEV_SerialTruncated16 = FALSE
  DEV_ApiKeyPanicsOnShortDecode = FALSE
  BUids = {"u1", "u2"}
  Families = {"fa", "fb"}
  Variants = {1, 3}
  LowerSplit = {"fb"}
  Passwords = {"p1", "p2"}
  MaxBSteps = 0
  BLives = {0, 1}
SPECIFICATION Spec
INVARIANTS WrongPasswordNever LoginCaseInsensitiveUnique UniqueAnswerIsTrue OneRecordPerUser
CHECK_DEADLOCK FALSE
