------------------------------ MODULE AuthBasic ------------------------------
(***************************************************************************)
(* C12 design check, login + password.  Steps (the same alphabet drives the *)
(* real authenticator):                                                     *)
(*   [a |-> "add",    u, l, p]   basic.AddRecord(uid, "login:password")      *)
(*   [a |-> "auth",   l, p]      basic.Authenticate("login:password")        *)
(*   [a |-> "update", u, l, p]   basic.UpdateRecord (l.fam = "": password    *)
(*                               only)                                       *)
(*   [a |-> "unique", l]         basic.IsUnique                              *)
(*   [a |-> "del",    u]         basic.DelRecords                            *)
(*   [a |-> "expire"]            the lifetime of mortal records passes       *)
(* Logins: Families x Variants, the variants of one family differ only in   *)
(* letter case; LowerSplit = the families in which strings.ToLower does NOT  *)
(* map all variants to one string (variant 1 and 2 get one key, variant 3    *)
(* another one).  The history variable `live` records which login (family,   *)
(* variant) and password each live account was created with.                 *)
(***************************************************************************)
EXTENDS Auth, TLC

CONSTANTS BUids, Families, Variants, LowerSplit, Passwords, MaxBSteps,
          BLives     \* record lifetimes on offer: 0 = never expires, 1 = mortal

VARIABLES recs, live, bsteps, breply
vars == <<recs, live, bsteps, breply>>

LowerKey(f, v) == IF f \in LowerSplit /\ v = 3 THEN f \o "'" ELSE f
Login(f, v) == [fam |-> f, lk |-> LowerKey(f, v), pol |-> TRUE, var |-> v]
BadLogin == [fam |-> "!", lk |-> "!", pol |-> FALSE, var |-> 0]   \* violates the login policy
NoLogin == [fam |-> "", lk |-> "", pol |-> FALSE, var |-> 0]      \* empty login part
Logins == {Login(f, v) : f \in Families, v \in Variants}
Pw(p) == [id |-> p, pol |-> TRUE]
BadPw == [id |-> "!", pol |-> FALSE]                              \* too short
Pws == {Pw(p) : p \in Passwords}

BSteps == [a : {"add"}, u : BUids, l : Logins \cup {BadLogin}, p : Pws \cup {BadPw}, life : BLives]
     \cup [a : {"auth"}, l : Logins \cup {BadLogin}, p : Pws \cup {BadPw}]
     \cup [a : {"update"}, u : BUids, l : Logins \cup {NoLogin, BadLogin}, p : Pws \cup {BadPw}, life : {0}]
     \cup [a : {"unique"}, l : Logins \cup {BadLogin}]
     \cup [a : {"del"}, u : BUids]
     \cup (IF 1 \in BLives THEN [a : {"expire"}] ELSE {})

NoBReply == [a |-> "", ok |-> FALSE, err |-> "", uid |-> "", lvl |-> 0, l |-> NoLogin, p |-> BadPw]

Init == recs = {} /\ live = {} /\ bsteps = 0 /\ breply = NoBReply

BDo(s) ==
  /\ MaxBSteps = 0 \/ bsteps < MaxBSteps            \* MaxBSteps = 0: unbounded (the state space is finite anyway)
  /\ bsteps' = IF MaxBSteps = 0 THEN 0 ELSE bsteps + 1
  /\ CASE s.a = "add" ->
            LET r == BasicAdd(recs, s.u, s.l, s.p, LevelNone, s.life) IN
              /\ recs' = r.recs
              /\ live' = IF r.ok THEN live \cup {[u |-> s.u, fam |-> s.l.fam, var |-> s.l.var, pw |-> s.p.id]} ELSE live
              /\ breply' = [NoBReply EXCEPT !.a = "add", !.ok = r.ok, !.err = r.err]
       [] s.a = "auth" ->
            LET r == BasicAuth(recs, s.l, s.p) IN
              /\ UNCHANGED <<recs, live>>
              /\ breply' = IF r.ok THEN [a |-> "auth", ok |-> TRUE, err |-> "", uid |-> r.uid, lvl |-> r.lvl, l |-> s.l, p |-> s.p]
                                   ELSE [NoBReply EXCEPT !.a = "auth", !.err = r.err, !.l = s.l, !.p = s.p]
       [] s.a = "update" ->
            LET r == BasicUpdate(recs, s.u, s.l, s.p, s.life) IN
              /\ recs' = r.recs
              /\ live' = IF r.ok
                           THEN {IF x.u = s.u THEN [x EXCEPT !.pw = s.p.id,
                                                             !.fam = IF s.l.fam = "" THEN x.fam ELSE s.l.fam,
                                                             !.var = IF s.l.fam = "" THEN x.var ELSE s.l.var]
                                              ELSE x : x \in live}
                           ELSE live
              /\ breply' = [NoBReply EXCEPT !.a = "update", !.ok = r.ok, !.err = r.err]
       [] s.a = "unique" ->
            LET r == BasicIsUnique(recs, s.l) IN
              /\ UNCHANGED <<recs, live>>
              /\ breply' = [NoBReply EXCEPT !.a = "unique", !.ok = r.ok, !.err = r.err, !.l = s.l]
       [] s.a = "del" ->
              /\ recs' = BasicDel(recs, s.u)
              /\ live' = {x \in live : x.u # s.u}
              /\ breply' = [NoBReply EXCEPT !.a = "del", !.ok = TRUE]
       [] OTHER ->
              /\ recs' = BasicExpire(recs)
              /\ UNCHANGED live
              /\ breply' = [NoBReply EXCEPT !.a = "expire"]

Next == \E s \in BSteps : BDo(s)
Spec == Init /\ [][Next]_vars

\* ------------------------------------------------------------------ the property on the model
\* a wrong password or an unknown login never authenticates (and the right one yields the account's user)
WrongPasswordNever ==
  (breply.a = "auth" /\ breply.ok) =>
      \E x \in live : x.fam = breply.l.fam /\ x.pw = breply.p.id /\ x.u = breply.uid
\* login names are unique regardless of letter case
LoginCaseInsensitiveUnique == \A x, y \in live : x.fam = y.fam => x = y
\* IsUnique tells the truth
UniqueAnswerIsTrue == (breply.a = "unique" /\ breply.ok) => ~\E x \in live : x.fam = breply.l.fam
\* one basic record per user
OneRecordPerUser == \A x, y \in live : x.u = y.u => x = y

\* non-vacuity witnesses (expected to be violated)
WitnessNeverAuth == ~(breply.a = "auth" /\ breply.ok)
WitnessNoDuplicate == ~(breply.a = "add" /\ breply.err = "duplicate")
=============================================================================
