CONSTANTS
  DEV_CodeNoAgeCheckOnGuess = TRUE
  DEV_LoginLowerNotFold = TRUE
  DEV_SerialTruncated16 = TRUE
  DEV_ApiKeyPanicsOnShortDecode = TRUE
  BUids = {"u1", "u2", "u3"}
  Families = {"fa", "fb"}
  Variants = {1, 2, 3}
  LowerSplit = {}
  Passwords = {"p1", "p2"}
  MaxBSteps = 8
  BLives = {0}
SPECIFICATION GenSpec
INVARIANTS Emit
CHECK_DEADLOCK FALSE
