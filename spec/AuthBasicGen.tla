----------------------------- MODULE AuthBasicGen -----------------------------
(***************************************************************************)
(* Trace generator for the C12 binding: behaviours of AuthBasic with the    *)
(* sequence of steps kept in `h` (see AuthCodeGen).                          *)
(***************************************************************************)
EXTENDS AuthBasic, Json

VARIABLE h
GenInit == Init /\ h = <<>>
GenNext == \E s \in BSteps : BDo(s) /\ h' = Append(h, s)
GenSpec == GenInit /\ [][GenNext]_<<vars, h>>

Emit == bsteps = MaxBSteps =>
          ndJsonSerialize("c12gen_basic_" \o ToString(TLCGet("stats").traces) \o ".ndjson", <<[steps |-> h]>>)
=============================================================================
