CONSTANTS
  DEV_CodeNoAgeCheckOnGuess = FALSE
  DEV_LoginLowerNotFold = FALSE
  DEV_SerialTruncated16 = FALSE
  DEV_ApiKeyPanicsOnShortDecode = FALSE
  Creds = {"c1", "c2"}
  CodeUids = {"u1", "u2"}
  MaxRetries = 2
  MaxCodes = 3
  MaxSteps = 8
SPECIFICATION Spec
INVARIANTS CodeAtMostOnce CodeDeadAfterMaxWrong CodeAcceptIsIssued
PROPERTIES CodeNotAcceptedWhenOld
CHECK_DEADLOCK FALSE
