------------------------------ MODULE AuthCode ------------------------------
(***************************************************************************)
(* C12 design check, password-reset codes (temporary authentication by a   *)
(* short code kept in the persistent cache, one entry per credential).      *)
(* Steps are records so that the very same alphabet drives the real         *)
(* authenticator:                                                           *)
(*   [a |-> "issue",  c |-> cred, u |-> uid]   code.GenSecret                *)
(*   [a |-> "guess",  c |-> cred, g |-> which] code.Authenticate, which in  *)
(*        "last"  - the code most recently issued for this credential       *)
(*        "prev"  - the one issued before that                              *)
(*        "other" - the code most recently issued for another credential    *)
(*        "wrong" - a string that was never issued                          *)
(*   [a |-> "age"]     more than the configured lifetime passes             *)
(* History variables (not visible to the authenticator): per issued code,   *)
(* how often it was accepted and how many wrong guesses were made against   *)
(* its credential between its issue and each acceptance.                    *)
(***************************************************************************)
EXTENDS Auth, TLC

CONSTANTS Creds, CodeUids, MaxRetries, MaxCodes, MaxSteps

VARIABLES pc,      \* the persistent cache: cred -> entry
          codes,   \* history: sequence of [c, u, acc, wrongs, accWrongs] per successfully issued code (index = code id)
          last,    \* cred -> <<id of last code, id of the one before>> (0 = none)
          nsteps,
          reply    \* the reply of the last step
vars == <<pc, codes, last, nsteps, reply>>

NoReply(e) == [accepted |-> FALSE, ok |-> FALSE, err |-> e, uid |-> "", code |-> 0]   \* accepted: a guess authenticated
GuessKinds == {"last", "prev", "other", "wrong"}
Steps == [a : {"issue"}, c : Creds, u : CodeUids] \cup [a : {"guess"}, c : Creds, g : GuessKinds] \cup [a : {"age"}]

\* which code id a guess refers to (0 = a never-issued string)
OtherCred(c) == CHOOSE d \in Creds : d # c \/ Cardinality(Creds) = 1
GuessId(lst, c, g) ==
  CASE g = "last"  -> lst[c][1]
    [] g = "prev"  -> lst[c][2]
    [] g = "other" -> IF Cardinality(Creds) = 1 THEN 0 ELSE lst[OtherCred(c)][1]
    [] OTHER       -> 0

\* id of the code currently standing for cred c in the history (0 = none issued)
CurId(c) == last[c][1]

Init == /\ pc = [c \in Creds |-> NoEntry]
        /\ codes = <<>>
        /\ last = [c \in Creds |-> <<0, 0>>]
        /\ nsteps = 0
        /\ reply = NoReply("")

DoIssue(s) ==
  LET id == Len(codes) + 1
      r == CodeIssue(pc, s.c, s.u, id) IN
    /\ Len(codes) < MaxCodes
    /\ pc' = r.pc
    /\ reply' = [NoReply(r.err) EXCEPT !.ok = r.ok]
    /\ IF r.ok
         THEN /\ codes' = Append(codes, [c |-> s.c, u |-> s.u, acc |-> 0, wrongs |-> 0, accWrongs |-> -1])
              /\ last' = [last EXCEPT ![s.c] = <<id, last[s.c][1]>>]
         ELSE UNCHANGED <<codes, last>>

DoGuess(s) ==
  LET gid == GuessId(last, s.c, s.g)
      r == CodeGuess(pc, s.c, gid, MaxRetries)
      cur == CurId(s.c) IN
    /\ pc' = r.pc
    /\ reply' = IF r.ok THEN [accepted |-> TRUE, ok |-> TRUE, err |-> "", uid |-> r.uid, code |-> gid] ELSE NoReply(r.err)
    /\ codes' = IF r.ok
                  THEN [codes EXCEPT ![gid].acc = @ + 1, ![gid].accWrongs = codes[gid].wrongs]
                  ELSE IF cur # 0 /\ gid # cur
                    THEN [codes EXCEPT ![cur].wrongs = @ + 1]     \* a wrong guess against the standing code
                    ELSE codes
    /\ UNCHANGED last

DoAge == pc' = CodeAge(pc) /\ reply' = NoReply("") /\ UNCHANGED <<codes, last>>

Do(s) == /\ MaxSteps = 0 \/ nsteps < MaxSteps       \* MaxSteps = 0: unbounded (MaxCodes bounds the history)
         /\ nsteps' = IF MaxSteps = 0 THEN 0 ELSE nsteps + 1
         /\ CASE s.a = "issue" -> DoIssue(s)
              [] s.a = "guess" -> DoGuess(s)
              [] OTHER         -> DoAge

Next == \E s \in Steps : Do(s)
Spec == Init /\ [][Next]_vars

\* ------------------------------------------------------------------ the property on the model
\* a code is accepted at most once
CodeAtMostOnce == \A k \in DOMAIN codes : codes[k].acc <= 1
\* ... and not after MaxRetries wrong guesses against it
CodeDeadAfterMaxWrong == \A k \in DOMAIN codes : codes[k].accWrongs < MaxRetries
\* an acceptance is an acceptance of the standing code of that credential, for the user it was issued for
CodeAcceptIsIssued == reply.accepted => reply.code # 0 /\ codes[reply.code].u = reply.uid
\* (as intended only) an over-age code is not accepted
CodeNotAcceptedWhenOld == [][\A c \in Creds : (pc[c].present /\ pc[c].old /\ ~pc'[c].present /\ reply'.accepted)
                                => DEV_CodeNoAgeCheckOnGuess]_vars

\* non-vacuity witnesses (expected to be violated)
WitnessNeverAccepted == ~reply.accepted
WitnessNeverDead == \A c \in Creds : ~(pc[c].present /\ pc[c].count >= MaxRetries)
=============================================================================
