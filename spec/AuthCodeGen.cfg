CONSTANTS
  DEV_CodeNoAgeCheckOnGuess = TRUE
  DEV_LoginLowerNotFold = TRUE
  DEV_SerialTruncated16 = TRUE
  DEV_ApiKeyPanicsOnShortDecode = TRUE
  Creds = {"c1", "c2"}
  CodeUids = {"u1", "u2"}
  MaxRetries = 3
  MaxCodes = 6
  MaxSteps = 14
SPECIFICATION GenSpec
INVARIANTS Emit
CHECK_DEADLOCK FALSE
