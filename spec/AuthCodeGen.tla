----------------------------- MODULE AuthCodeGen -----------------------------
(***************************************************************************)
(* Trace generator for the C12 binding: behaviours of AuthCode with the     *)
(* sequence of steps kept in `h`.  Run with `-simulate`; every behaviour    *)
(* that reaches MaxSteps steps is written as one ndjson file               *)
(* c12gen_code_<n>.ndjson holding [steps |-> h] (the harness replays the    *)
(* steps into the real code.Authenticate / GenSecret).                      *)
(***************************************************************************)
EXTENDS AuthCode, Json

VARIABLE h
GenInit == Init /\ h = <<>>
GenNext == \E s \in Steps : Do(s) /\ h' = Append(h, s)
GenSpec == GenInit /\ [][GenNext]_<<vars, h>>

Emit == nsteps = MaxSteps =>
          ndJsonSerialize("c12gen_code_" \o ToString(TLCGet("stats").traces) \o ".ndjson", <<[steps |-> h]>>)
=============================================================================
