CONSTANTS
  DEV_CodeNoAgeCheckOnGuess = TRUE
  DEV_LoginLowerNotFold = TRUE
  DEV_SerialTruncated16 = TRUE
  DEV_ApiKeyPanicsOnShortDecode = TRUE
  CodeLen = 6
  CodeWithAge = FALSE
  CodeWithPrev = FALSE
