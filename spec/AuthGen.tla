------------------------------- MODULE AuthGen -------------------------------
(***************************************************************************)
(* Exhaustive input enumerations for the C12 binding, written by TLC as     *)
(* ndjson while it evaluates the ASSUMEs below (no behaviour is explored):  *)
(*  c12gen_classes.ndjson   the token mutation classes of Auth.tla          *)
(*  c12gen_code_exh.ndjson  EVERY sequence of exactly CodeLen steps over    *)
(*                          CodeAlphabet (so every shorter one as a prefix) *)
(*  c12gen_basic_exh.ndjson for every ordered pair (i, j) of case variants  *)
(*                          of one login: create with variant i, create a   *)
(*                          second account with variant j, ask IsUnique and *)
(*                          log in with every variant, right and wrong      *)
(*                          password, and with an unknown login             *)
(***************************************************************************)
EXTENDS Auth, Json, SequencesExt, TLC

CONSTANTS CodeLen, CodeWithAge, CodeWithPrev

Issue1 == [a |-> "issue", c |-> "c1", u |-> "u1"]
G(g) == [a |-> "guess", c |-> "c1", g |-> g]
CodeAlphabet == {Issue1, G("last"), G("wrong")}
                  \cup (IF CodeWithAge THEN {[a |-> "age"]} ELSE {})
                  \cup (IF CodeWithPrev THEN {G("prev")} ELSE {})
CodeSeqs == {[steps |-> s] : s \in [1..CodeLen -> CodeAlphabet]}

L(f, v) == [fam |-> f, lk |-> "", pol |-> TRUE, var |-> v]
Unknown == [fam |-> "fz", lk |-> "", pol |-> TRUE, var |-> 1]
P(p) == [id |-> p, pol |-> TRUE]
Add(u, l, p) == [a |-> "add", u |-> u, l |-> l, p |-> p, life |-> 0]
Au(l, p) == [a |-> "auth", l |-> l, p |-> p]
Uq(l) == [a |-> "unique", l |-> l]
BasicScript(i, j) ==
  <<Uq(L("fa", i)), Add("u1", L("fa", i), P("p1")), Uq(L("fa", j)), Add("u2", L("fa", j), P("p2")),
    Uq(L("fa", 1)), Uq(L("fa", 2)), Uq(L("fa", 3)),
    Au(L("fa", 1), P("p1")), Au(L("fa", 2), P("p1")), Au(L("fa", 3), P("p1")),
    Au(L("fa", j), P("p2")), Au(L("fa", i), P("p3")), Au(Unknown, P("p1")),
    [a |-> "update", u |-> "u1", l |-> L("fa", j), p |-> P("p3"), life |-> 0],
    Au(L("fa", i), P("p1")), Au(L("fa", i), P("p3")),
    [a |-> "del", u |-> "u1"], Au(L("fa", i), P("p3")), Add("u2", L("fa", j), P("p2")), Au(L("fa", i), P("p2"))>>
BasicSeqs == {[steps |-> BasicScript(i, j)] : i, j \in 1..3}
\* a mortal record: log in, let the lifetime pass, log in again
BasicMortal == [steps |-> <<[a |-> "add", u |-> "u1", l |-> L("fa", 1), p |-> P("p1"), life |-> 1],
                            Au(L("fa", 2), P("p1")), [a |-> "expire"], Au(L("fa", 2), P("p1")), Au(L("fa", 1), P("p2"))>>]

ASSUME ndJsonSerialize("c12gen_classes.ndjson", SetToSeq({[cls |-> c] : c \in TokenClasses}))
ASSUME ndJsonSerialize("c12gen_code_exh.ndjson", SetToSeq(CodeSeqs))
ASSUME ndJsonSerialize("c12gen_basic_exh.ndjson", SetToSeq(BasicSeqs) \o <<BasicMortal>>)
=============================================================================
