CONSTANTS
  DEV_CodeNoAgeCheckOnGuess = FALSE
  DEV_LoginLowerNotFold = FALSE
  DEV_ApiKeyPanicsOnShortDecode = FALSE
  DEV_SerialTruncated16 = FALSE
  Keys = {"k1", "k2"}
  AttackerKey = "ka"
  Serials = {1, 2, 65537}
  Uids = {"u1", "u2"}
  Lvls = {20, 40}
  Feats = {0, 2}
  Lives = {1, 2}
  MaxNow = 1
  MaxIssued = 2
  Identities <- MCIdentities
SPECIFICATION Spec
INVARIANTS AcceptOnlyIssuedUnexpired AcceptYieldsIssuedIdentity
CHECK_DEADLOCK FALSE
