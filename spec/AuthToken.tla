------------------------------ MODULE AuthToken ------------------------------
(***************************************************************************)
(* C12 design check, login tokens.  A server with a signing key, a serial  *)
(* number and a clock issues tokens; key and serial can be changed by the   *)
(* operator; time passes.  In every reachable state EVERY token an attacker *)
(* can present is run through Accept: any field combination, with a garbage *)
(* signature, with the signature of any token issued so far (replayed or    *)
(* spliced onto other fields), or signed with the attacker's own key; too   *)
(* short, exact, or extended by a suffix.                                   *)
(***************************************************************************)
EXTENDS Auth, TLC

CONSTANTS Keys, AttackerKey, Serials, Uids, Lvls, Feats, Lives, MaxNow, MaxIssued,
          Identities   \* the <<uid, level, features>> the server issues tokens for (presented tokens range over all combinations)

MCIdentities == {<<"u1", 20, 0>>, <<"u2", 20, 2>>, <<"u1", 40, 0>>}   \* cfg: Identities <- MCIdentities

VARIABLES cfg, now, issued
vars == <<cfg, now, issued>>

Init == /\ cfg \in [key : Keys, serial : {s \in Serials : SerialOk(s)}]
        /\ now = 0
        /\ issued = {}

IssueTok(rec) ==
  LET r == Issue(cfg, rec) IN
    /\ Cardinality(issued) < MaxIssued
    /\ r.ok     \* a negative lifetime issues nothing
    /\ issued' = issued \cup {[tok |-> r.tok, key |-> cfg.key, serial |-> cfg.serial, rec |-> rec]}
    /\ UNCHANGED <<cfg, now>>

Tick == now < MaxNow /\ now' = now + 1 /\ UNCHANGED <<cfg, issued>>
Rekey(k) == k # cfg.key /\ cfg' = [cfg EXCEPT !.key = k] /\ UNCHANGED <<now, issued>>
SetSerial(s) == s # cfg.serial /\ SerialOk(s) /\ cfg' = [cfg EXCEPT !.serial = s] /\ UNCHANGED <<now, issued>>

Recs == {[uid |-> id[1], lvl |-> id[2], feat |-> id[3], exp |-> e] : id \in Identities, e \in {T(now + l) : l \in Lives} \cup {Past}}

Next == \/ \E rec \in Recs : IssueTok(rec)
        \/ Tick
        \/ \E k \in Keys : Rekey(k)
        \/ \E s \in Serials : SetSerial(s)
Spec == Init /\ [][Next]_vars

\* ------------------------------------------------------------------ what can be presented
Shapes == {"short", "full", "long"}
FieldSpace == [uid : Uids, exp : {T(n) : n \in 0..(MaxNow + 3)}, lvl : Lvls,
               serial : {s % 65536 : s \in Serials} \cup Serials, feat : Feats]
SigsFor(f) == {<<"garbage">>, Sig(AttackerKey, TokFields(f))} \cup {i.tok.sig : i \in issued}
Tok(f, sh, sg) == [shape |-> sh, uid |-> f.uid, exp |-> f.exp, lvl |-> f.lvl, serial |-> f.serial,
                   feat |-> f.feat, sig |-> sg]
\* P(t) for every presentable token t
ForAllPresentable(P(_)) == \A f \in FieldSpace : \A sh \in Shapes : \A sg \in SigsFor(f) : P(Tok(f, sh, sg))

Matches(i, t) == TokFields(i.tok) = TokFields(t) /\ i.tok.sig = t.sig

\* accepted => bit-for-bit (fields and signature) a token issued under the CURRENT key and serial, not expired
AcceptOnlyIssuedUnexpired ==
  LET P(t) == Accept(t, cfg, T(now)).ok =>
                /\ t.shape # "short"
                /\ \E i \in issued : Matches(i, t) /\ i.key = cfg.key /\ i.serial = cfg.serial
                /\ TBefore(T(now), t.exp)
  IN ForAllPresentable(P)

\* ... and then yields exactly the identity it was issued for, never above root
AcceptYieldsIssuedIdentity ==
  LET P(t) == LET a == Accept(t, cfg, T(now)) IN a.ok =>
                /\ \A i \in issued : Matches(i, t) => a.uid = i.rec.uid /\ a.lvl = i.rec.lvl /\ a.feat = i.rec.feat
                /\ a.lvl <= LevelRoot
  IN ForAllPresentable(P)

\* non-vacuity witnesses (expected to be VIOLATED when checked; used only while developing / by the self-test)
WitnessNeverAccepts == LET P(t) == ~Accept(t, cfg, T(now)).ok IN ForAllPresentable(P)
WitnessNoExtendedAccepted == LET P(t) == t.shape = "long" => ~Accept(t, cfg, T(now)).ok IN ForAllPresentable(P)
=============================================================================
