-------------------------------- MODULE Call --------------------------------
(***************************************************************************)
(* C15 - peer-to-peer video/voice calls of tinode/chat.                    *)
(*                                                                         *)
(* The world: p2p topic "p12" between the caller/callee users u1 (sessions *)
(* s1, s3) and u2 (sessions s2, s4), a third user u3 (session s5) and a    *)
(* group topic "g1" (for the refusals).  The module is a transcription of  *)
(*   server/topic.go   handlePubBroadcast (head["webrtc"] gate),           *)
(*                     unregisterSession (party leaves), the               *)
(*                     callEstablishmentTimer case of Topic.run            *)
(*   server/calls.go   handleCallInvite, handleCallEvent,                  *)
(*                     maybeEndCallInProgress, terminateCallInProgress     *)
(*   server/session.go note (what="call" routing, detached sessions go     *)
(*                     through the hub for ringing/accept/hang-up only)    *)
(*   server/pres.go    infoCallSubsOffline (the {info} on "me")            *)
(* as ONE function  Step(S, a) = [st, out, opt]  (post-state, predicted    *)
(* outputs, outputs that depend on a real race) per client request, in the *)
(* style of TopicCore, followed by the property monitors of C15, stated    *)
(* over observable things only: (pre-state, request, observation, post-    *)
(* state).  The monitors are evaluated by TLC                              *)
(*   - on every transition of the model   (U1: Call_MC),                   *)
(*   - on every recorded step of the REAL server (Monitor_C15).            *)
(*                                                                         *)
(* Where the actions of DESIGN.md 3.6 are:  Invite = Pub with head.webrtc  *)
(* (ANY non-nil value marks an invitation, topic.go:1072);  Ringing,       *)
(* Accept, Offer/Answer/IceCandidate, HangUp = the branches of CallEvent;  *)
(* Timeout = the "C15Timeout" request (the harness makes the REAL timer    *)
(* expire);  PartyLeaves = "Leave" / "Disconnect" of a party session;      *)
(* StaleOrForeignEvent = every branch of Note / CallEvent that returns     *)
(* Res(S, 0) or Res(S, 409).                                               *)
(*                                                                         *)
(* State S = [live, att, attG, onMe : sets of sessions,                    *)
(*            canW : member -> BOOLEAN,                                    *)
(*            msgs : Seq([from, webrtc, replace, content]) (index = seq),  *)
(*            call : the slot Topic.currentCall,                           *)
(*            armed: Topic.callEstablishmentTimer is pending]              *)
(* The code arms the timer in handleCallInvite and stops it at acceptance  *)
(* and in maybeEndCallInProgress.                                          *)
(***************************************************************************)
EXTENDS Integers, Sequences, FiniteSets, TLC

CONSTANTS Configured,                       \* len(globals.iceServers) > 0  (initVideoCalls enabled)
          DEV_DetachedPartyOutlivesSession, \* TRUE = as built: a callee session that accepted while NOT attached to the topic
                                            \*        is a party the topic never sees leaving (unregisterSession is per attachment)
          FIX_DetachedAcceptRefused         \* FALSE = as built. TRUE = the repair proposed in known_findings_c15.notes.md: "accept" is
                                            \*        taken only from a session attached to the topic (then the deviation above cannot arise)

Sessions == {"s1", "s2", "s3", "s4", "s5"}
SessUser == [s1 |-> "u1", s2 |-> "u2", s3 |-> "u1", s4 |-> "u2", s5 |-> "u3"]
Members == {"u1", "u2"}                     \* the two users of p12
MemberSess == {s \in Sessions : SessUser[s] \in Members}

\* head.webrtc values (calls.go constCallMsg*)
Terminal == {"finished", "declined", "missed", "disconnected"}
\* {note what=call} events (calls.go constCallEvent*)
EvRinging == "ringing"
EvAccept == "accept"
EvHangUp == "hang-up"
Exchange == {"offer", "answer", "ice-candidate"}
Relayed == {EvRinging, EvAccept} \cup Exchange
\* session.go note(): a session that is not attached may send only these (through the hub)
HubEvents == {EvRinging, EvHangUp, EvAccept}

NoCall == [active |-> FALSE, seq |-> 0, orig |-> "", origUid |-> "", parties |-> {}, accepted |-> FALSE]
ReplStr(n) == IF n = 0 THEN "" ELSE ":" \o ToString(n)

InitState(att, attG, onMe) ==
  [live |-> Sessions, att |-> att, attG |-> attG, onMe |-> onMe, canW |-> [u \in Members |-> TRUE],
   msgs |-> <<>>, call |-> NoCall, armed |-> FALSE]

TimerArmed(S) == S.armed
LastId(S) == Len(S.msgs)

NoOut == [code |-> 0, infos |-> {}, data |-> {}]
Res(S, code) == [st |-> S, out |-> [NoOut EXCEPT !.code = code], opt |-> {}]

\* ------------------------------------------------------------------ saveAndBroadcastMessage (topic.go), p12 only
DataTo(S, gone, m, seq) ==
  {[to |-> x, seq |-> seq, from |-> m.from, webrtc |-> m.webrtc, replace |-> m.replace, content |-> m.content] : x \in S.att \ gone}

\* ------------------------------------------------------------------ maybeEndCallInProgress (calls.go:377)
\* kind = head.webrtc of the finalizing message, fromUser = "" for server-initiated endings,
\* gone = sessions whose queueOut drops everything (terminating), leaver = session whose own leave races with the me-routed {info}
EndCall(S, kind, fromUser, gone, leaver, code) ==
  LET c == S.call
      m == [from |-> c.origUid, webrtc |-> kind, replace |-> ReplStr(c.seq), content |-> S.msgs[c.seq].content]
      seq == LastId(S) + 1
      \* t.broadcastToSessions({info what=call event=hang-up}) : attached sessions (all are readers here)
      onTopic == {[to |-> x, ev |-> EvHangUp, seq |-> c.seq, from |-> "", via |-> "topic"] : x \in S.att \ gone}
      \* infoCallSubsOffline(from, every subscriber, hang-up, offlineOnly=true): sessions on "me" that are not attached to the topic
      onMe == {[to |-> x, ev |-> EvHangUp, seq |-> c.seq, from |-> fromUser, via |-> "me"] :
                 x \in {y \in S.onMe \ gone : SessUser[y] \in Members /\ y \notin S.att}}
      \* the leaving session is detached by the topic goroutine while the me-topic goroutine evaluates SkipTopic: either order is real
      race == {[to |-> x, ev |-> EvHangUp, seq |-> c.seq, from |-> fromUser, via |-> "me"] : x \in ({leaver} \cap S.onMe) \ gone}
  IN [st |-> [S EXCEPT !.msgs = Append(S.msgs, m), !.call = NoCall, !.armed = FALSE],     \* callEstablishmentTimer.Stop()
      out |-> [code |-> code, infos |-> onTopic \cup onMe, data |-> DataTo(S, gone, m, seq)],
      opt |-> race]

\* ------------------------------------------------------------------ handleCallEvent (calls.go:241), reached through Topic.handleNoteBroadcast
CallEvent(S, a) ==
  LET s == a.s
      u == SessUser[s]
      c == S.call
  IN
  IF ~c.active THEN Res(S, 0)                                   \* "No call in progress"
  ELSE IF c.seq # a.seq THEN Res(S, 0)                          \* "invalid seq id"
  ELSE IF u \notin Members THEN Res(S, 0)                       \* user not found in topic
  ELSE IF a.event \in {EvRinging, EvAccept} THEN
    IF c.accepted THEN Res(S, 0)                                \* len(parties) != 1
    ELSE IF c.orig = s \/ c.origUid = u THEN Res(S, 0)          \* only from the callee
    ELSE IF FIX_DetachedAcceptRefused /\ a.event = EvAccept /\ s \notin S.att THEN Res(S, 0)
    ELSE LET fwd == {[to |-> x, ev |-> a.event, seq |-> c.seq, from |-> u, via |-> "topic"] : x \in {c.orig} \cap S.live}   \* originator.queueOut
         IN IF a.event = EvRinging THEN [st |-> S, out |-> [NoOut EXCEPT !.infos = fwd], opt |-> {}]
            ELSE \* accept: replacement {data} authored by the originator, callee session becomes a party, timer stopped
              LET m == [from |-> c.origUid, webrtc |-> "accepted", replace |-> ReplStr(c.seq), content |-> S.msgs[c.seq].content]
                  \* infoCallSubsOffline(callee, accept, skipSid = accepting session, offlineOnly=false): the callee's other sessions on "me"
                  others == {[to |-> x, ev |-> EvAccept, seq |-> c.seq, from |-> u, via |-> "me"] :
                               x \in {y \in S.onMe : SessUser[y] = u /\ y # s}}
              IN [st |-> [S EXCEPT !.msgs = Append(S.msgs, m),
                                   !.call = [c EXCEPT !.parties = c.parties \cup {s}, !.accepted = TRUE],
                                   !.armed = FALSE],                                              \* callEstablishmentTimer.Stop()
                  out |-> [code |-> 0, infos |-> fwd \cup others, data |-> DataTo(S, {}, m, LastId(S) + 1)],
                  opt |-> {}]
  ELSE IF a.event \in Exchange THEN
    IF ~c.accepted THEN Res(S, 0)                               \* "call participants expected 2"
    ELSE IF s \notin c.parties THEN Res(S, 0)                   \* "call event from non-party session"
    ELSE [st |-> S,                                             \* forwarded to the other party's session
          out |-> [NoOut EXCEPT !.infos = {[to |-> x, ev |-> a.event, seq |-> c.seq, from |-> u, via |-> "topic"] : x \in (c.parties \ {s}) \cap S.live}],
          opt |-> {}]
  ELSE IF a.event = EvHangUp THEN
    IF c.accepted THEN
      IF s \notin c.parties THEN Res(S, 0)
      ELSE EndCall(S, "finished", u, {}, "", 0)
    ELSE IF u = c.origUid /\ s # c.orig THEN Res(S, 0)          \* the caller's other sessions may not hang up
    ELSE EndCall(S, IF u = c.origUid THEN "missed" ELSE "declined", u, {}, "", 0)
  ELSE Res(S, 0)                                                \* "unexpected call event"

\* ------------------------------------------------------------------ Session.note (session.go:1237) for what="call"
Note(S, a) ==
  LET s == a.s IN
  IF a.t # "p12" THEN Res(S, 0)                                 \* not a p2p topic: silently ignored
  ELSE IF a.seq <= 0 THEN Res(S, 0)
  ELSE IF s \notin MemberSess THEN                              \* a third user's "p12" is another topic by construction (p13), never attached here
    IF a.event \in HubEvents THEN Res(S, 0) ELSE Res(S, 409)
  ELSE IF s \notin S.att /\ a.event \notin HubEvents THEN Res(S, 409)   \* ErrAttachFirst
  ELSE IF a.seq > LastId(S) THEN Res(S, 0)                      \* handleNoteBroadcast: "bogus" id
  ELSE CallEvent(S, a)

\* ------------------------------------------------------------------ Session.publish + Topic.handlePubBroadcast
Pub(S, a) ==
  LET s == a.s
      u == SessUser[s]
      isCall == "head" \in DOMAIN a
  IN
  IF a.t = "g1" THEN
    IF s \notin S.attG THEN Res(S, 409)
    ELSE IF ~isCall THEN Res(S, -1)
    ELSE IF ~Configured THEN Res(S, 501)
    ELSE Res(S, 403)                                            \* t.cat != TopicCatP2P
  ELSE IF s \notin MemberSess \/ s \notin S.att THEN Res(S, 409)
  ELSE IF isCall /\ ~Configured THEN Res(S, 501)
  ELSE IF isCall /\ S.call.active THEN Res(S, 486)              \* ErrCallBusyReply; checked BEFORE the write permission
  ELSE IF ~S.canW[u] THEN Res(S, 403)
  ELSE LET m == [from |-> u, webrtc |-> IF isCall THEN a.head.webrtc ELSE "", replace |-> "", content |-> a.c]
           seq == LastId(S) + 1
           S1 == [S EXCEPT !.msgs = Append(S.msgs, m)]
       IN [st |-> IF isCall   \* handleCallInvite
                  THEN [S1 EXCEPT !.call = [active |-> TRUE, seq |-> seq, orig |-> s, origUid |-> u, parties |-> {s}, accepted |-> FALSE],
                                  !.armed = TRUE]                                                 \* callEstablishmentTimer.Reset(timeout)
                  ELSE S1,
           out |-> [code |-> 202, infos |-> {}, data |-> DataTo(S, {}, m, seq)],
           opt |-> {}]

\* ------------------------------------------------------------------ attach / detach / connection
Detach(S, s) == [S EXCEPT !.att = S.att \ {s}]

Step(S, a) ==
  IF "s" \in DOMAIN a /\ a.s \notin S.live /\ a.a # "Connect" THEN Res(S, 0)      \* the driver skips requests of closed sessions
  ELSE
  CASE a.a = "Pub" -> Pub(S, a)
    [] a.a = "C15Note" -> Note(S, a)
    [] a.a = "C15Timeout" ->                                    \* the driver lets a timer expire only if the server has it pending
         IF ~S.call.active \/ S.call.accepted \/ ~S.armed THEN Res(S, 0)
         ELSE EndCall(S, "missed", "", {}, "", 0)               \* terminateCallInProgress(true)
    [] a.a = "Sub" ->
         IF a.t = "p12" THEN (IF a.s \notin MemberSess THEN Res(S, -1)
                              ELSE IF a.s \in S.att THEN Res(S, 304) ELSE Res([S EXCEPT !.att = S.att \cup {a.s}], 200))
         ELSE IF a.t = "g1" THEN (IF a.s \in S.attG THEN Res(S, 304) ELSE Res([S EXCEPT !.attG = S.attG \cup {a.s}], 200))
         ELSE IF a.t = "me" THEN (IF a.s \in S.onMe THEN Res(S, 304) ELSE Res([S EXCEPT !.onMe = S.onMe \cup {a.s}], 200))
         ELSE Res(S, -1)
    [] a.a = "Leave" ->
         IF a.t = "p12" THEN
           IF a.s \notin S.att THEN Res(S, 304)
           ELSE IF S.call.active /\ a.s \in S.call.parties     \* unregisterSession: the call is terminated BEFORE the session is detached
                THEN LET r == EndCall(S, "disconnected", "", {}, a.s, 200) IN [r EXCEPT !.st = Detach(r.st, a.s)]
                ELSE Res(Detach(S, a.s), 200)
         ELSE IF a.t = "g1" THEN (IF a.s \in S.attG THEN Res([S EXCEPT !.attG = S.attG \ {a.s}], 200) ELSE Res(S, 304))
         ELSE IF a.t = "me" THEN (IF a.s \in S.onMe THEN Res([S EXCEPT !.onMe = S.onMe \ {a.s}], 200) ELSE Res(S, 304))
         ELSE Res(S, -1)
    [] a.a = "Disconnect" ->
         LET s == a.s
             gone(T) == [T EXCEPT !.live = T.live \ {s}, !.att = T.att \ {s}, !.attG = T.attG \ {s}, !.onMe = T.onMe \ {s}]
             party == S.call.active /\ s \in S.call.parties
         IN IF party /\ (s \in S.att \/ ~DEV_DetachedPartyOutlivesSession)
            THEN LET r == EndCall(S, "disconnected", "", {s}, "", 0) IN [r EXCEPT !.st = gone(r.st)]
            ELSE Res(gone(S), 0)
    [] a.a = "Connect" -> Res([S EXCEPT !.live = S.live \cup {a.s}], 0)
    [] a.a = "SetSelf" ->
         IF a.t = "p12" /\ a.s \in S.att /\ ~S.call.active
         THEN Res([S EXCEPT !.canW[SessUser[a.s]] = a.w], -2)
         ELSE Res(S, -1)
    [] OTHER -> Res(S, -1)

\* out.code = -1: request path not modelled (no prediction); -2: state predicted, reply code not compared

(***************************************************************************)
(* Property monitors (C15).  P = state before, a = request, O = what was   *)
(* observed [code, infos, data], Q = state after.  Each returns the names  *)
(* of the violated clauses.  X = [fault |-> an injected store fault fired   *)
(* during this step, lost |-> ids of earlier calls of this history whose   *)
(* ending step was hit by such a fault]: the replacement of an ending that *)
(* the store refused to save cannot exist - everything else still holds:   *)
(* the call ends, the peer is told, the timer is dead, a new call starts.  *)
(***************************************************************************)
If(c, name) == IF c THEN {} ELSE {name}
NoFault == [fault |-> FALSE, lost |-> {}]

IsInvite(a) == a.a = "Pub" /\ "head" \in DOMAIN a /\ "webrtc" \in DOMAIN a.head
IsCallNote(a) == a.a = "C15Note"
Actor(a) == SessUser[a.s]
NewMsgs(P, Q) == IF Len(Q.msgs) > Len(P.msgs) THEN SubSeq(Q.msgs, Len(P.msgs) + 1, Len(Q.msgs)) ELSE <<>>
PrefixKept(P, Q) == Len(Q.msgs) >= Len(P.msgs) /\ SubSeq(Q.msgs, 1, Len(P.msgs)) = P.msgs
Ended(P, Q) == P.call.active /\ (~Q.call.active \/ Q.call.seq # P.call.seq)
Started(P, Q) == Q.call.active /\ (~P.call.active \/ Q.call.seq # P.call.seq)
NoTrace(P, O, Q) == Q.msgs = P.msgs /\ Q.call = P.call /\ O.data = {} /\ O.infos = {}
RangeOf(sq) == {sq[i] : i \in DOMAIN sq}

\* the invitation reaches the call gate of the p2p topic: sent on p12 by an attached session of a participant
AtGate(P, a) == a.t = "p12" /\ a.s \in MemberSess /\ a.s \in P.att
\* everything the property asks of an invitation
MayStart(P, a) == Configured /\ AtGate(P, a) /\ P.canW[Actor(a)] /\ ~P.call.active

M_InviteGate(P, a, O, Q) ==
  (IF IsInvite(a) /\ a.s \in P.live THEN
     If(O.code = 202 => MayStart(P, a), "InviteGate:accepted_only_when_configured_p2p_writer_idle")
     \cup If(~MayStart(P, a) => O.code >= 400, "InviteGate:refusal_is_an_error_reply")
     \cup If(~Configured => ~Started(P, Q), "InviteGate:not_configured_starts_nothing")
     \cup If(O.code # 202 => NoTrace(P, O, Q), "InviteGate:refused_invitation_leaves_no_trace")
     \cup If(AtGate(P, a) /\ Configured /\ P.call.active => O.code = 486 /\ NoTrace(P, O, Q), "InviteGate:busy_486_and_no_trace")
   ELSE {})
  \* a call never starts in any other way
  \cup If(Started(P, Q) => IsInvite(a) /\ O.code = 202 /\ Q.call.seq = Len(Q.msgs) /\ Q.call.orig = a.s /\ Q.call.origUid = Actor(a)
                           /\ Q.call.parties = {a.s} /\ ~Q.call.accepted, "InviteGate:call_starts_only_by_accepted_invitation")

HasEffect(P, O, Q) == O.infos # {} \/ O.data # {} \/ Q.call # P.call \/ Q.msgs # P.msgs

M_RoleGate(P, a, O, Q) ==
  IF ~IsCallNote(a) THEN {} ELSE
  If(a.event \in {EvRinging, EvAccept} /\ HasEffect(P, O, Q)
       => P.call.active /\ Actor(a) \in Members /\ Actor(a) # P.call.origUid /\ a.s # P.call.orig, "RoleGate:ringing_accept_only_from_callee")
  \cup If(a.event \in Exchange /\ HasEffect(P, O, Q)
       => P.call.active /\ P.call.accepted /\ a.s \in P.call.parties, "RoleGate:exchange_only_from_party_sessions_of_accepted_call")
  \* hang-up by role (the property's mechanism "party sessions for offer/answer/candidate and hang-up"): once the call is accepted only
  \* the two party sessions can end it - not the callee's or the caller's other devices -, before that the originating session
  \* (missed) or any session of the callee (declined)
  \cup If(a.event = EvHangUp /\ HasEffect(P, O, Q)
       => P.call.active /\ (IF P.call.accepted THEN a.s \in P.call.parties
                             ELSE a.s = P.call.orig \/ (Actor(a) \in Members /\ Actor(a) # P.call.origUid)),
          "RoleGate:hang_up_only_from_party_sessions_or_callee_before_acceptance")

\* the session an event of `a` has to be relayed to
PeerOf(P, a) == IF a.event \in Exchange THEN {x \in P.call.parties : x # a.s} ELSE {P.call.orig}

M_RelayOnlyToPeer(P, a, O, Q) ==
  \* nobody outside the topic ever sees call traffic
  If(\A i \in O.infos : SessUser[i.to] \in Members, "RelayOnlyToPeer:no_call_info_to_other_users")
  \cup If(\A d \in O.data : SessUser[d.to] \in Members, "RelayOnlyToPeer:no_call_data_to_other_users")
  \cup (IF IsCallNote(a) /\ a.event \in Relayed THEN
          \* relayed on the topic: to the peer session alone
          If(\A i \in O.infos : (i.ev = a.event /\ i.via = "topic") => i.to \in PeerOf(P, a) /\ i.seq = P.call.seq /\ i.from = Actor(a),
             "RelayOnlyToPeer:relayed_to_the_peer_session_alone")
          \* the only other copies are the heads-up to the accepting user's OWN other sessions on "me" (see assumptions)
          \cup If(\A i \in O.infos : (i.ev = a.event /\ i.via # "topic") => a.event = EvAccept /\ i.via = "me" /\ SessUser[i.to] = Actor(a) /\ i.to # a.s,
                  "RelayOnlyToPeer:no_copy_to_third_sessions")
          \cup If(\A i \in O.infos : i.ev \in Relayed => i.ev = a.event, "RelayOnlyToPeer:only_the_event_sent_is_relayed")
        ELSE If(\A i \in O.infos : i.ev \notin Relayed, "RelayOnlyToPeer:relay_without_request"))

\* an event of the right call, from the right role, sent by a session attached to the topic, IS relayed to the peer
\* (whether the server also honours ringing / accept of a callee session that is NOT attached - it does today, through the hub -
\* is not stated by the property: no obligation either way here; the binding covers what the code does)
\* An acceptance whose replacement the store refused to save (X.fault) did not happen: then NOTHING of it may be visible - the
\* call is still being established (and, by timer_pending_exactly_while_unanswered, its timer is still pending).
AcceptFailed(P, a, Q, X) == X.fault /\ IsCallNote(a) /\ a.event = EvAccept /\ ~(Q.call.active /\ Q.call.accepted /\ ~P.call.accepted)
M_Relayed(P, a, O, Q, X) ==
  If(AcceptFailed(P, a, Q, X) => NoTrace(P, O, Q), "Relayed:failed_acceptance_leaves_no_trace")
  \cup
  IF ~(IsCallNote(a) /\ a.t = "p12" /\ a.s \in P.live /\ P.call.active /\ a.seq = P.call.seq /\ a.s \in P.att) THEN {} ELSE
  If(a.event \in {EvRinging, EvAccept} /\ ~P.call.accepted /\ Actor(a) # P.call.origUid /\ ~AcceptFailed(P, a, Q, X)
       => \E i \in O.infos : i.to = P.call.orig /\ i.ev = a.event /\ i.via = "topic", "Relayed:ringing_accept_reach_the_caller_session")
  \cup If(a.event \in Exchange /\ P.call.accepted /\ a.s \in P.call.parties
       => \A x \in (P.call.parties \ {a.s}) \cap P.live : \E i \in O.infos : i.to = x /\ i.ev = a.event /\ i.via = "topic",
          "Relayed:exchange_reaches_the_other_party_session")

M_StaleIgnored(P, a, O, Q) ==
  IF ~IsCallNote(a) THEN {} ELSE
  If(~P.call.active \/ a.seq # P.call.seq => NoTrace(P, O, Q), "StaleIgnored:event_of_other_or_finished_call_ignored")

\* which ending the request asks for (the paths listed by the property)
ExpectedKind(P, a) ==
  CASE IsCallNote(a) /\ a.event = EvHangUp ->
         IF P.call.accepted THEN "finished" ELSE IF Actor(a) = P.call.origUid THEN "missed" ELSE "declined"
    [] a.a = "C15Timeout" -> "missed"
    [] a.a \in {"Leave", "Disconnect"} -> "disconnected"
    [] OTHER -> "none"

TerminalFor(msgs, i) == {j \in DOMAIN msgs : msgs[j].replace = ReplStr(i) /\ msgs[j].webrtc \in Terminal}
AcceptedFor(msgs, i) == {j \in DOMAIN msgs : msgs[j].replace = ReplStr(i) /\ msgs[j].webrtc = "accepted"}
Invitations(msgs) == {i \in DOMAIN msgs : msgs[i].webrtc # "" /\ msgs[i].replace = ""}

\* state part: every started call has exactly one ending in the topic's history, the current call has none yet
EndsOnceState(Q, lost) ==
  \A i \in Invitations(Q.msgs) :
     /\ (IF Q.call.active /\ Q.call.seq = i THEN Cardinality(TerminalFor(Q.msgs, i)) = 0
         ELSE IF i \in lost THEN Cardinality(TerminalFor(Q.msgs, i)) <= 1
         ELSE Cardinality(TerminalFor(Q.msgs, i)) = 1)
     /\ Cardinality(AcceptedFor(Q.msgs, i)) <= 1
     /\ \A j \in AcceptedFor(Q.msgs, i) : \A k \in TerminalFor(Q.msgs, i) : i < j /\ j < k

M_EndsExactlyOnce(P, a, O, Q, X) ==
  If(EndsOnceState(Q, X.lost \cup (IF X.fault /\ Ended(P, Q) THEN {P.call.seq} ELSE {})), "EndsExactlyOnce:one_terminal_replacement_per_started_call")
  \cup If(Q.call.active => Q.call.seq \in Invitations(Q.msgs), "EndsExactlyOnce:current_call_is_a_stored_invitation")
  \cup If(Ended(P, Q) => \/ (X.fault /\ NewMsgs(P, Q) = <<>>)
                         \/ /\ Len(NewMsgs(P, Q)) >= 1
                            /\ LET m == NewMsgs(P, Q)[1] IN m.replace = ReplStr(P.call.seq) /\ m.webrtc = ExpectedKind(P, a)
                            /\ Len(NewMsgs(P, Q)) = 1, "EndsExactlyOnce:ending_kind_matches_path")
  \* the other party's session (attached before and after the step) is told that the call is over
  \cup If(Ended(P, Q) => \A x \in ((P.call.parties \cap P.att) \cap Q.att) \cap Q.live :
                            \E i \in O.infos : i.to = x /\ i.ev = EvHangUp /\ i.seq = P.call.seq, "EndsExactlyOnce:ending_announced_to_the_parties")
  \* the establishment timer runs exactly while a call waits for its answer: it is dead after every ending and after acceptance
  \* (a timer left pending would end a later call as missed), and pending while nobody has answered (else "missed on timeout" never happens)
  \cup If(Q.armed <=> (Q.call.active /\ ~Q.call.accepted), "EndsExactlyOnce:timer_pending_exactly_while_unanswered")
  \cup If((\E m \in RangeOf(NewMsgs(P, Q)) : m.webrtc \in Terminal) => Ended(P, Q), "EndsExactlyOnce:terminal_only_when_a_call_ends")
  \* the listed paths do end the call
  \cup (IF P.call.active THEN
          If(IsCallNote(a) /\ a.event = EvHangUp /\ a.t = "p12" /\ a.seq = P.call.seq /\ a.s \in P.live
               /\ (IF P.call.accepted THEN a.s \in P.call.parties ELSE (a.s = P.call.orig \/ (Actor(a) \in Members /\ Actor(a) # P.call.origUid)))
               => Ended(P, Q), "EndsExactlyOnce:hang_up_ends_the_call")
          \cup If(a.a = "C15Timeout" /\ ~P.call.accepted => Ended(P, Q), "EndsExactlyOnce:timeout_ends_unanswered_call")
          \cup If(a.a = "Leave" /\ a.t = "p12" /\ a.s \in P.call.parties /\ a.s \in P.att => Ended(P, Q), "EndsExactlyOnce:party_leave_ends_the_call")
          \cup If(a.a = "Disconnect" /\ a.s \in P.call.parties /\ a.s \in P.live => Ended(P, Q), "EndsExactlyOnce:party_disconnect_ends_the_call")
        ELSE {})
  \* and nothing else does
  \cup If(Ended(P, Q) => ExpectedKind(P, a) # "none", "EndsExactlyOnce:call_ends_only_on_listed_paths")

M_Replacements(P, a, O, Q) ==
  If(PrefixKept(P, Q), "AcceptAndEndAreReplacements:history_kept")
  \cup If(\A m \in RangeOf(NewMsgs(P, Q)) : m.webrtc \in Terminal \cup {"accepted"}
            => /\ P.call.active
               /\ m.replace = ReplStr(P.call.seq)
               /\ P.call.seq \in DOMAIN P.msgs
               /\ m.content = P.msgs[P.call.seq].content, "AcceptAndEndAreReplacements:reference_and_original_content")
  \cup If(~P.call.accepted /\ Q.call.active /\ Q.call.accepted /\ Q.call.seq = P.call.seq
            => /\ P.call.active /\ IsCallNote(a) /\ a.event = EvAccept
               /\ Len(NewMsgs(P, Q)) = 1 /\ NewMsgs(P, Q)[1].webrtc = "accepted"
               /\ Q.call.parties = P.call.parties \cup {a.s}, "AcceptAndEndAreReplacements:acceptance_published_once")
  \cup If((\E m \in RangeOf(NewMsgs(P, Q)) : m.webrtc = "accepted") => ~P.call.accepted /\ Q.call.accepted /\ Q.call.seq = P.call.seq,
          "AcceptAndEndAreReplacements:accepted_only_at_acceptance")
  \* published to the topic: every session attached throughout the step receives the replacement
  \cup If(\A k \in 1..Len(NewMsgs(P, Q)) : NewMsgs(P, Q)[k].replace # ""
            => \A x \in (P.att \cap Q.att) \cap Q.live :
                 \E d \in O.data : d.to = x /\ d.seq = Len(P.msgs) + k /\ d.replace = NewMsgs(P, Q)[k].replace
                                   /\ d.webrtc = NewMsgs(P, Q)[k].webrtc /\ d.content = NewMsgs(P, Q)[k].content,
          "AcceptAndEndAreReplacements:replacement_published_to_attached_sessions")

M_NewCallAfterEnd(P, a, O, Q) ==
  IF ~IsInvite(a) THEN {} ELSE
  If(MayStart(P, a) /\ a.s \in P.live => O.code = 202 /\ Started(P, Q) /\ Q.call.seq = Len(P.msgs) + 1, "NewCallAfterEnd:idle_topic_accepts_an_invitation")

MonitorsX(P, a, O, Q, X) ==
  M_InviteGate(P, a, O, Q) \cup M_RoleGate(P, a, O, Q) \cup M_RelayOnlyToPeer(P, a, O, Q) \cup M_Relayed(P, a, O, Q, X)
  \cup M_StaleIgnored(P, a, O, Q) \cup M_EndsExactlyOnce(P, a, O, Q, X) \cup M_Replacements(P, a, O, Q) \cup M_NewCallAfterEnd(P, a, O, Q)
Monitors(P, a, O, Q) == MonitorsX(P, a, O, Q, NoFault)
=============================================================================
