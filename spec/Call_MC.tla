------------------------------ MODULE Call_MC ------------------------------
(***************************************************************************)
(* Model-checking / behaviour-generation harness for Call (C15).           *)
(*  - exhaustive mode (U1): every reachable state of the as-intended       *)
(*    model; in each, for EVERY request of the alphabet (every session,    *)
(*    every event, right / wrong / stale / bogus call ids) the monitors of *)
(*    C15 are evaluated on the transition the model predicts               *)
(*    (MonitorsHold), plus state invariants;                               *)
(*  - simulation mode: random behaviours written one file per trace for    *)
(*    replay against the real server (World harness).                      *)
(* The requests are records shaped exactly like the World driver's steps.  *)
(***************************************************************************)
EXTENDS Call, Json

CONSTANTS Kinds,        \* action kinds explored: subset of AllKinds
          MaxSeq,       \* client publishes are generated while the topic has fewer messages than this
          MaxDepth,     \* bound on behaviour length (0 = unbounded; exhaustive mode is bounded by MaxSeq)
          InitAtt, InitAttG, InitOnMe,   \* attachments after the fixed prelude of every behaviour
          MeSessions,   \* sessions that may attach to / leave "me"
          SubSessions, LeaveSessions, DiscSessions, PubSessions,   \* sessions that attach to p12 / leave it / disconnect / publish ordinary messages
          DumpPrefix,   \* "" = do not write behaviours
          RandomWalk    \* TRUE (simulation): draw ONE request per step

AllKinds == {"Sub", "Leave", "Disconnect", "Connect", "SetSelf", "Pub", "Invite", "Note", "Timeout"}
ASSUME Kinds \subseteq AllKinds

VARIABLES st, hist, last
vars == <<st, hist, last>>
StView == st

Events == Relayed \cup {EvHangUp, "bogus"}
GrpSessions == {"s1", "s5"}
Payload(e) == IF e \in Exchange \cup {EvAccept} THEN "sdp-" \o e ELSE ""
\* the invitation's content alternates so that "the original content" is distinguishable between calls
ContentFor(S) == IF LastId(S) % 2 = 0 THEN "c1" ELSE "c2"
\* call ids offered: none (0), beyond the last message ("bogus"), the current call's, every earlier invitation's (stale),
\* and the last message's (an id that names a replacement or an ordinary message)
SeqChoices(S) == {0, LastId(S) + 1, LastId(S), S.call.seq} \cup Invitations(S.msgs)

Acts(S) ==
  LET liveM == MemberSess \cap S.live
      sub == {[a |-> "Sub", s |-> s, t |-> "p12"] : s \in SubSessions \cap liveM}
             \cup {[a |-> "Sub", s |-> s, t |-> "me"] : s \in MeSessions \cap S.live}
             \cup {[a |-> "Sub", s |-> s, t |-> "g1"] : s \in GrpSessions \cap S.live}
      leave == {[a |-> "Leave", s |-> s, t |-> "p12", unsub |-> FALSE] : s \in LeaveSessions \cap S.live}
               \cup {[a |-> "Leave", s |-> s, t |-> "me", unsub |-> FALSE] : s \in MeSessions \cap S.onMe}
               \cup {[a |-> "Leave", s |-> s, t |-> "g1", unsub |-> FALSE] : s \in GrpSessions \cap S.attG}
      disc == {[a |-> "Disconnect", s |-> s] : s \in DiscSessions \cap S.live}
      \* (a name is not re-used while its closed session is still recorded as a party of the current call - possible as built only)
      conn == {[a |-> "Connect", s |-> s] : s \in (Sessions \ S.live) \ S.call.parties}
      setself == {[a |-> "SetSelf", s |-> s, t |-> "p12", mode |-> m[1], w |-> m[2]] :
                    s \in (IF S.call.active THEN {} ELSE S.att), m \in {<<"JRPA", FALSE>>, <<"JRWPA", TRUE>>}}
      pub == {[a |-> "Pub", s |-> s, t |-> "p12", c |-> "c0"] : s \in (IF LastId(S) < MaxSeq THEN PubSessions \cap S.live ELSE {})}
      invite == {[a |-> "Pub", s |-> s, t |-> t, c |-> ContentFor(S), head |-> [webrtc |-> "started"]] :
                   s \in (IF LastId(S) < MaxSeq THEN S.live ELSE {}), t \in {"p12", "g1"}}
      note == {[a |-> "C15Note", s |-> s, t |-> "p12", seq |-> n, event |-> e, payload |-> Payload(e)] :
                 s \in S.live, n \in SeqChoices(S), e \in Events}
              \cup {[a |-> "C15Note", s |-> s, t |-> "g1", seq |-> n, event |-> EvAccept, payload |-> ""] :
                      s \in GrpSessions \cap S.live, n \in {S.call.seq} \ {0}}
      timeout == IF TimerArmed(S) THEN {[a |-> "C15Timeout", t |-> "p12"]} ELSE {}
  IN (IF "Sub" \in Kinds THEN sub ELSE {}) \cup (IF "Leave" \in Kinds THEN leave ELSE {})
     \cup (IF "Disconnect" \in Kinds THEN disc ELSE {}) \cup (IF "Connect" \in Kinds THEN conn ELSE {})
     \cup (IF "SetSelf" \in Kinds THEN setself ELSE {}) \cup (IF "Pub" \in Kinds THEN pub ELSE {})
     \cup (IF "Invite" \in Kinds THEN invite ELSE {}) \cup (IF "Note" \in Kinds THEN note ELSE {})
     \cup (IF "Timeout" \in Kinds THEN timeout ELSE {})

\* simulation: draw the kind first (kinds with large alphabets must not crowd out the rest), then - for call events -
\* whether the id is the current call's, then the instance.  While a call is up most requests are call events; while the
\* topic is idle an invitation that can succeed is drawn often (otherwise walks rarely get a call going).
KindOf(a) == IF a.a = "C15Note" THEN "Note:" \o a.event ELSE IF a.a = "Pub" /\ "head" \in DOMAIN a THEN "Invite" ELSE a.a
PickByKind(S, acts) ==
  LET k == RandomElement({KindOf(a) : a \in acts})
      ofKind == {a \in acts : KindOf(a) = k}
      right == {a \in ofKind : a.a = "C15Note" /\ S.call.active /\ a.seq = S.call.seq /\ a.t = "p12"}
  IN IF right # {} /\ RandomElement(1..3) # 1 THEN RandomElement(right) ELSE RandomElement(ofKind)
RandomAct(S) ==
  LET acts == Acts(S)
      notes == {a \in acts : a.a = "C15Note"}
      goodInv == {a \in acts : KindOf(a) = "Invite" /\ a.t = "p12" /\ a.s \in S.att}
      r == RandomElement(1..10)
      expiry == {a \in acts : a.a = "C15Timeout"}     \* enabled while the call is being established (ringing phase included)
      ring == {a \in notes : a.event = EvRinging /\ a.t = "p12" /\ a.seq = S.call.seq /\ SessUser[a.s] \in Members \ {S.call.origUid}}
  IN IF TimerArmed(S) /\ r <= 2 /\ ring # {} THEN RandomElement(ring)      \* a callee session (attached or not) reports ringing
     ELSE IF S.call.active /\ r <= 6 /\ notes # {} THEN PickByKind(S, notes)
     ELSE IF r = 7 /\ expiry # {} THEN RandomElement(expiry)   \* so that "invited, ringing reported, nobody answers, timer expires" is drawn often
     ELSE IF ~S.call.active /\ r <= 4 /\ goodInv # {} THEN RandomElement(goodInv)
     ELSE PickByKind(S, acts)

Init == st = InitState(InitAtt, InitAttG, InitOnMe) /\ hist = <<>> /\ last = [a |-> "Init"]

Next == /\ (MaxDepth = 0 \/ Len(hist) < MaxDepth)
        /\ \E a \in (IF RandomWalk THEN {RandomAct(st)} ELSE Acts(st)) :
             /\ st' = Step(st, a).st
             /\ hist' = IF DumpPrefix = "" THEN <<>> ELSE Append(hist, a)
             /\ last' = a
Spec == Init /\ [][Next]_vars

\* ------------------------------------------------------------------ U1
\* In every reachable state, for every request of the alphabet:
\*  - the C15 monitors hold on the transition the model predicts (model outputs as the observation),
\*  - also with the race-dependent outputs present,
\*  - and the request is modelled (no silent "not modelled" in the explored alphabet).
U1Hold ==
  \A a \in Acts(st) :
     LET r == Step(st, a)
         tags == Monitors(st, a, r.out, r.st)
         tagsOpt == IF r.opt = {} THEN {} ELSE Monitors(st, a, [r.out EXCEPT !.infos = r.out.infos \cup r.opt], r.st)
     IN /\ (tags = {} \/ (PrintT(<<"MONITOR", tags, a, st>>) /\ FALSE))
        /\ (tagsOpt = {} \/ (PrintT(<<"MONITOR(opt)", tagsOpt, a, st>>) /\ FALSE))
        /\ (r.out.code # -1 \/ (PrintT(<<"NOT MODELLED", a>>) /\ FALSE))

TypeOK ==
  /\ st.live \subseteq Sessions /\ st.att \subseteq MemberSess \cap st.live /\ st.attG \subseteq st.live /\ st.onMe \subseteq st.live
  /\ st.call.active => /\ st.call.orig \in st.call.parties /\ st.call.orig \in st.att
                       /\ SessUser[st.call.orig] = st.call.origUid
                       /\ st.call.seq \in DOMAIN st.msgs
                       /\ Cardinality(st.call.parties) = (IF st.call.accepted THEN 2 ELSE 1)
                       /\ \A x \in st.call.parties \ {st.call.orig} : SessUser[x] \in Members \ {st.call.origUid}
  /\ ~st.call.active => st.call = NoCall
  /\ st.armed = (st.call.active /\ ~st.call.accepted)
\* as intended, a party session is always alive (and the topic hears of its departure)
PartiesAlive == st.call.active => st.call.parties \subseteq st.live
\* with the repair variant a party is always attached
PartiesAttached == st.call.active => st.call.parties \subseteq st.att
EndsOnce == EndsOnceState(st, {})
\* not configured: nothing call-related ever exists
NothingWhenNotConfigured == Configured \/ (~st.call.active /\ Invitations(st.msgs) = {})

\* ------------------------------------------------------------------ simulation output
DumpHist == DumpPrefix = "" \/ hist = <<>> \/
            ndJsonSerialize(DumpPrefix \o ToString(TLCGet("stats").traces) \o ".ndjson", hist)
=============================================================================
