\* U1 (as intended): the invitation gate. Nobody attached at first; attach / leave / re-attach, write permission dropped and
\* restored, invitations from every session in the p2p and in the group topic, hang-ups and accepts so that calls end and restart.
CONSTANTS
  Configured = TRUE
  DEV_DetachedPartyOutlivesSession = FALSE
  FIX_DetachedAcceptRefused = FALSE
  Kinds = {"Sub", "Leave", "SetSelf", "Invite", "Note", "Timeout", "Disconnect"}
  MaxSeq = 3
  MaxDepth = 0
  InitAtt = {}
  InitAttG = {"s1", "s5"}
  InitOnMe = {}
  MeSessions = {"s4"}
  SubSessions = {"s1", "s2", "s3"}
  LeaveSessions = {"s1", "s2"}
  DiscSessions = {"s4"}
  PubSessions = {}
  DumpPrefix = ""
  RandomWalk = FALSE
INIT Init
NEXT Next
VIEW StView
INVARIANT TypeOK
INVARIANT U1Hold
INVARIANT PartiesAlive
INVARIANT EndsOnce
CHECK_DEADLOCK FALSE
