\* U1 quick tier: as Call_U1_gate.cfg with at most 2 invitations accepted and no disconnects.
CONSTANTS
  Configured = TRUE
  DEV_DetachedPartyOutlivesSession = FALSE
  FIX_DetachedAcceptRefused = FALSE
  Kinds = {"Sub", "Leave", "SetSelf", "Invite", "Note", "Timeout", "Disconnect"}
  MaxSeq = 2
  MaxDepth = 0
  InitAtt = {}
  InitAttG = {"s1", "s5"}
  InitOnMe = {}
  MeSessions = {"s4"}
  SubSessions = {"s1", "s2", "s3"}
  LeaveSessions = {"s1", "s2"}
  DiscSessions = {}
  PubSessions = {}
  DumpPrefix = ""
  RandomWalk = FALSE
INIT Init
NEXT Next
VIEW StView
INVARIANT TypeOK
INVARIANT U1Hold
INVARIANT PartiesAlive
INVARIANT EndsOnce
CHECK_DEADLOCK FALSE
