\* U1 (as intended): the whole life cycle. All sessions of caller and callee start attached except s4 (callee's second
\* device: only on "me", so that acceptance from a detached session is covered); sets only shrink (leave / disconnect).
CONSTANTS
  Configured = TRUE
  DEV_DetachedPartyOutlivesSession = FALSE
  FIX_DetachedAcceptRefused = FALSE
  Kinds = {"Leave", "Disconnect", "Pub", "Invite", "Note", "Timeout"}
  MaxSeq = 3
  MaxDepth = 0
  InitAtt = {"s1", "s2", "s3"}
  InitAttG = {"s1", "s5"}
  InitOnMe = {"s3", "s4"}
  MeSessions = {}
  SubSessions = {"s1", "s2", "s3"}
  LeaveSessions = {"s1", "s2"}
  DiscSessions = {"s2", "s4"}
  PubSessions = {"s1"}
  DumpPrefix = ""
  RandomWalk = FALSE
INIT Init
NEXT Next
VIEW StView
INVARIANT TypeOK
INVARIANT U1Hold
INVARIANT PartiesAlive
INVARIANT EndsOnce
CHECK_DEADLOCK FALSE
