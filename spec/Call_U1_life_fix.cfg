\* U1 (repair variant): as Call_U1_life.cfg, but "accept" is taken only from attached sessions - the monitors hold for this design, too.
\* (DEV_DetachedPartyOutlivesSession may then be TRUE or FALSE: no detached session ever becomes a party.)
CONSTANTS
  Configured = TRUE
  DEV_DetachedPartyOutlivesSession = TRUE
  FIX_DetachedAcceptRefused = TRUE
  Kinds = {"Leave", "Disconnect", "Pub", "Invite", "Note", "Timeout"}
  MaxSeq = 3
  MaxDepth = 0
  InitAtt = {"s1", "s2", "s3"}
  InitAttG = {"s1", "s5"}
  InitOnMe = {"s3", "s4"}
  MeSessions = {}
  SubSessions = {"s1", "s2", "s3"}
  LeaveSessions = {"s1", "s2"}
  DiscSessions = {"s2", "s4"}
  PubSessions = {"s1"}
  DumpPrefix = ""
  RandomWalk = FALSE
INIT Init
NEXT Next
VIEW StView
INVARIANT TypeOK
INVARIANT U1Hold
INVARIANT PartiesAlive
INVARIANT PartiesAttached
INVARIANT EndsOnce
CHECK_DEADLOCK FALSE
