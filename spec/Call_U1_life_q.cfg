\* U1 quick tier: as Call_U1_life.cfg with at most 2 client publishes (one call with ordinary traffic before it, or two calls).
CONSTANTS
  Configured = TRUE
  DEV_DetachedPartyOutlivesSession = FALSE
  FIX_DetachedAcceptRefused = FALSE
  Kinds = {"Leave", "Disconnect", "Pub", "Invite", "Note", "Timeout"}
  MaxSeq = 2
  MaxDepth = 0
  InitAtt = {"s1", "s2", "s3"}
  InitAttG = {"s1", "s5"}
  InitOnMe = {"s3", "s4"}
  MeSessions = {}
  SubSessions = {"s1", "s2", "s3"}
  LeaveSessions = {"s1", "s2"}
  DiscSessions = {"s2", "s4"}
  PubSessions = {"s1"}
  DumpPrefix = ""
  RandomWalk = FALSE
INIT Init
NEXT Next
VIEW StView
INVARIANT TypeOK
INVARIANT U1Hold
INVARIANT PartiesAlive
INVARIANT EndsOnce
CHECK_DEADLOCK FALSE
