\* U1 (as intended): calling not configured - every invitation is refused (501) and nothing call-related ever exists.
CONSTANTS
  Configured = FALSE
  DEV_DetachedPartyOutlivesSession = FALSE
  FIX_DetachedAcceptRefused = FALSE
  Kinds = {"Sub", "Leave", "SetSelf", "Pub", "Invite", "Note", "Disconnect"}
  MaxSeq = 2
  MaxDepth = 0
  InitAtt = {"s1"}
  InitAttG = {"s1", "s5"}
  InitOnMe = {}
  MeSessions = {}
  SubSessions = {"s1", "s2", "s3"}
  LeaveSessions = {"s1", "s2"}
  DiscSessions = {"s1"}
  PubSessions = {"s1", "s2"}
  DumpPrefix = ""
  RandomWalk = FALSE
INIT Init
NEXT Next
VIEW StView
INVARIANT TypeOK
INVARIANT U1Hold
INVARIANT NothingWhenNotConfigured
CHECK_DEADLOCK FALSE
