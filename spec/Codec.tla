------------------------------- MODULE Codec -------------------------------
(***************************************************************************)
(* Reference semantics of tinode identifiers and topic names               *)
(* (server/store/types/types.go Uid codecs, P2PName/ParseP2P,              *)
(* GrpToChn/ChnToGrp; server/topic.go topicNameForUser;                    *)
(* server/session.go expandTopicName).                                     *)
(*                                                                         *)
(* An id is a sequence of W bytes, little-endian, exactly what             *)
(* Uid.MarshalBinary produces (W = 8 in the code; the design check runs    *)
(* the same operators with W = 1 and W = 2, which keeps the shape of the   *)
(* algorithm: 8W bits do not fill a whole number of 6-bit / 5-bit          *)
(* characters, so the last character carries pad bits that a canonical     *)
(* text keeps at zero).  A text is a sequence of one-character strings     *)
(* (TLC cannot index into strings).                                        *)
(*                                                                         *)
(* Every decoder exists twice: `...Strict` is the as-intended decoder (a   *)
(* text is accepted iff it is the text the encoder produces for some id),  *)
(* the plain name is the decoder parameterised by the DEV_* constants,     *)
(* TRUE = what the code does today:                                        *)
(*  DEV_B64TrailingBits  base64 texts whose unused low bits of the last    *)
(*                       character are not zero are accepted (Go's         *)
(*                       non-strict decoder): Uid.UnmarshalText, ParseP2P. *)
(*  DEV_B32UpperOnly     ParseUid32 decodes the upper-case alphabet only   *)
(*                       while String32 produces lower case.               *)
(*  DEV_B32Loose         ParseUid32 ignores pad bits, CR/LF and everything *)
(*                       after the first W decoded bytes (base32 has no    *)
(*                       strict mode; UnmarshalBinary takes a prefix).     *)
(*  DEV_ZeroJsonRejected Uid.UnmarshalJSON rejects `""`, the text          *)
(*                       MarshalJSON writes for the zero id.               *)
(*  DEV_P2PLooseParse    ParseP2P accepts any two ids: unordered, equal,   *)
(*                       zero (P2PName never produces such a name).        *)
(***************************************************************************)
EXTENDS Naturals, Sequences, FiniteSets, TLC

CONSTANTS W, DEV_B64TrailingBits, DEV_B32UpperOnly, DEV_B32Loose, DEV_ZeroJsonRejected, DEV_P2PLooseParse

\* ------------------------------------------------------------------ ids
Byte   == 0..255
Zero   == [i \in 1..W |-> 0]
IsZero(id) == id = Zero
Pow2(n) == 2 ^ n
\* numeric form (only usable while 256^W fits TLC's integers: the design check)
IdOfNat(n) == [i \in 1..W |-> (n \div (256 ^ (i - 1))) % 256]
\* uid < u2 on the little-endian byte sequences
Less(a, b) == \E i \in 1..Len(a) : a[i] < b[i] /\ \A j \in (i + 1)..Len(a) : a[j] = b[j]

\* ------------------------------------------------------------------ alphabets
B64Alphabet == <<"A","B","C","D","E","F","G","H","I","J","K","L","M","N","O","P","Q","R","S","T","U","V","W","X","Y","Z",
                 "a","b","c","d","e","f","g","h","i","j","k","l","m","n","o","p","q","r","s","t","u","v","w","x","y","z",
                 "0","1","2","3","4","5","6","7","8","9","-","_">>
B32Upper    == <<"A","B","C","D","E","F","G","H","I","J","K","L","M","N","O","P","Q","R","S","T","U","V","W","X","Y","Z",
                 "2","3","4","5","6","7">>
B32Lower    == <<"a","b","c","d","e","f","g","h","i","j","k","l","m","n","o","p","q","r","s","t","u","v","w","x","y","z",
                 "2","3","4","5","6","7">>
Range(f) == {f[i] : i \in DOMAIN f}
(* character -> value tables, written out (an eager finite function: TLC would re-evaluate a      *)
(* [c \in S |-> CHOOSE ...] definition at every application); AlphabetTablesAgree ties them to   *)
(* the alphabets above and is checked by TLC at start-up.                                         *)
B64Index ==
  ("A" :> 0) @@ ("B" :> 1) @@ ("C" :> 2) @@ ("D" :> 3) @@ ("E" :> 4) @@ ("F" :> 5) @@ ("G" :> 6) @@ ("H" :> 7)
  @@ ("I" :> 8) @@ ("J" :> 9) @@ ("K" :> 10) @@ ("L" :> 11) @@ ("M" :> 12) @@ ("N" :> 13) @@ ("O" :> 14) @@ ("P" :> 15)
  @@ ("Q" :> 16) @@ ("R" :> 17) @@ ("S" :> 18) @@ ("T" :> 19) @@ ("U" :> 20) @@ ("V" :> 21) @@ ("W" :> 22) @@ ("X" :> 23)
  @@ ("Y" :> 24) @@ ("Z" :> 25) @@ ("a" :> 26) @@ ("b" :> 27) @@ ("c" :> 28) @@ ("d" :> 29) @@ ("e" :> 30) @@ ("f" :> 31)
  @@ ("g" :> 32) @@ ("h" :> 33) @@ ("i" :> 34) @@ ("j" :> 35) @@ ("k" :> 36) @@ ("l" :> 37) @@ ("m" :> 38) @@ ("n" :> 39)
  @@ ("o" :> 40) @@ ("p" :> 41) @@ ("q" :> 42) @@ ("r" :> 43) @@ ("s" :> 44) @@ ("t" :> 45) @@ ("u" :> 46) @@ ("v" :> 47)
  @@ ("w" :> 48) @@ ("x" :> 49) @@ ("y" :> 50) @@ ("z" :> 51) @@ ("0" :> 52) @@ ("1" :> 53) @@ ("2" :> 54) @@ ("3" :> 55)
  @@ ("4" :> 56) @@ ("5" :> 57) @@ ("6" :> 58) @@ ("7" :> 59) @@ ("8" :> 60) @@ ("9" :> 61) @@ ("-" :> 62) @@ ("_" :> 63)
B32UIndex ==
  ("A" :> 0) @@ ("B" :> 1) @@ ("C" :> 2) @@ ("D" :> 3) @@ ("E" :> 4) @@ ("F" :> 5) @@ ("G" :> 6) @@ ("H" :> 7)
  @@ ("I" :> 8) @@ ("J" :> 9) @@ ("K" :> 10) @@ ("L" :> 11) @@ ("M" :> 12) @@ ("N" :> 13) @@ ("O" :> 14) @@ ("P" :> 15)
  @@ ("Q" :> 16) @@ ("R" :> 17) @@ ("S" :> 18) @@ ("T" :> 19) @@ ("U" :> 20) @@ ("V" :> 21) @@ ("W" :> 22) @@ ("X" :> 23)
  @@ ("Y" :> 24) @@ ("Z" :> 25) @@ ("2" :> 26) @@ ("3" :> 27) @@ ("4" :> 28) @@ ("5" :> 29) @@ ("6" :> 30) @@ ("7" :> 31)
B32LIndex ==
  ("a" :> 0) @@ ("b" :> 1) @@ ("c" :> 2) @@ ("d" :> 3) @@ ("e" :> 4) @@ ("f" :> 5) @@ ("g" :> 6) @@ ("h" :> 7)
  @@ ("i" :> 8) @@ ("j" :> 9) @@ ("k" :> 10) @@ ("l" :> 11) @@ ("m" :> 12) @@ ("n" :> 13) @@ ("o" :> 14) @@ ("p" :> 15)
  @@ ("q" :> 16) @@ ("r" :> 17) @@ ("s" :> 18) @@ ("t" :> 19) @@ ("u" :> 20) @@ ("v" :> 21) @@ ("w" :> 22) @@ ("x" :> 23)
  @@ ("y" :> 24) @@ ("z" :> 25) @@ ("2" :> 26) @@ ("3" :> 27) @@ ("4" :> 28) @@ ("5" :> 29) @@ ("6" :> 30) @@ ("7" :> 31)
\* case-insensitive base32: value of a character in either alphabet (digits coincide)
B32AnyIndex ==
  ("A" :> 0) @@ ("B" :> 1) @@ ("C" :> 2) @@ ("D" :> 3) @@ ("E" :> 4) @@ ("F" :> 5) @@ ("G" :> 6) @@ ("H" :> 7)
  @@ ("I" :> 8) @@ ("J" :> 9) @@ ("K" :> 10) @@ ("L" :> 11) @@ ("M" :> 12) @@ ("N" :> 13) @@ ("O" :> 14) @@ ("P" :> 15)
  @@ ("Q" :> 16) @@ ("R" :> 17) @@ ("S" :> 18) @@ ("T" :> 19) @@ ("U" :> 20) @@ ("V" :> 21) @@ ("W" :> 22) @@ ("X" :> 23)
  @@ ("Y" :> 24) @@ ("Z" :> 25) @@ ("2" :> 26) @@ ("3" :> 27) @@ ("4" :> 28) @@ ("5" :> 29) @@ ("6" :> 30) @@ ("7" :> 31)
  @@ ("a" :> 0) @@ ("b" :> 1) @@ ("c" :> 2) @@ ("d" :> 3) @@ ("e" :> 4) @@ ("f" :> 5) @@ ("g" :> 6) @@ ("h" :> 7)
  @@ ("i" :> 8) @@ ("j" :> 9) @@ ("k" :> 10) @@ ("l" :> 11) @@ ("m" :> 12) @@ ("n" :> 13) @@ ("o" :> 14) @@ ("p" :> 15)
  @@ ("q" :> 16) @@ ("r" :> 17) @@ ("s" :> 18) @@ ("t" :> 19) @@ ("u" :> 20) @@ ("v" :> 21) @@ ("w" :> 22) @@ ("x" :> 23)
  @@ ("y" :> 24) @@ ("z" :> 25)
IndexAgrees(index, alpha) == DOMAIN index = Range(alpha) /\ \A i \in DOMAIN alpha : index[alpha[i]] = i - 1
ASSUME AlphabetTablesAgree ==
  /\ IndexAgrees(B64Index, B64Alphabet) /\ IndexAgrees(B32UIndex, B32Upper) /\ IndexAgrees(B32LIndex, B32Lower)
  /\ DOMAIN B32AnyIndex = Range(B32Upper) \cup Range(B32Lower)
  /\ \A i \in DOMAIN B32Upper : B32AnyIndex[B32Upper[i]] = i - 1 /\ B32AnyIndex[B32Lower[i]] = i - 1

\* ------------------------------------------------------------------ bit streams
(* A byte sequence is a stream of bits, most significant bit of the first byte first; the     *)
(* text carries the same stream cut into g-bit characters (g = 6: base64, g = 5: base32),     *)
(* the last character filled up with zero "pad" bits.  A window of the stream is read as a     *)
(* number: at most three neighbouring units cover any 8-bit or g-bit window.                   *)
At(seq, i) == IF i \in DOMAIN seq THEN seq[i] ELSE 0
\* the `n` bits starting at 0-based bit offset `off` of a stream of `u`-bit units; needs (off % u) + n <= 3u,
\* true for the three uses: 6 or 5 bits out of bytes, 8 bits out of 6-bit or 5-bit characters
Window(seq, u, off, n) ==
  LET k   == (off \div u) + 1
      x   == (At(seq, k) * Pow2(u) + At(seq, k + 1)) * Pow2(u) + At(seq, k + 2)
      sh  == 3 * u - (off % u) - n
  IN (x \div Pow2(sh)) % Pow2(n)

EncLen(nbytes, g) == (8 * nbytes + g - 1) \div g

\* bytes -> text: character i carries bits g(i-1) .. gi-1 of the stream (zeros past the end)
Encode(bs, g, alpha) ==
  [i \in 1..EncLen(Len(bs), g) |-> alpha[Window(bs, 8, g * (i - 1), g) + 1]]

\* g-bit values -> the first nbytes bytes of the stream
BytesOfVals(vs, g, nbytes) == [i \in 1..nbytes |-> Window(vs, g, 8 * (i - 1), 8)]
\* the bits after the last whole byte (fewer than g of them, all in the last character) are zero
PadBitsZero(vs, g, nbytes) ==
  LET pad == g * Len(vs) - 8 * nbytes IN vs[Len(vs)] % Pow2(pad) = 0

\* Fixed-length decode: [ok, bs].  `loosePad` = pad bits are not looked at.
Decode(txt, g, index, nbytes, loosePad) ==
  IF Len(txt) # EncLen(nbytes, g) THEN [ok |-> FALSE, bs |-> <<>>]
  ELSE IF \E i \in DOMAIN txt : txt[i] \notin DOMAIN index THEN [ok |-> FALSE, bs |-> <<>>]
  ELSE LET vs == [i \in DOMAIN txt |-> index[txt[i]]] IN
       IF ~loosePad /\ ~PadBitsZero(vs, g, nbytes) THEN [ok |-> FALSE, bs |-> <<>>]
       ELSE [ok |-> TRUE, bs |-> BytesOfVals(vs, g, nbytes)]

B64Enc(bs) == Encode(bs, 6, B64Alphabet)
B64DecStrict(txt, nbytes) == Decode(txt, 6, B64Index, nbytes, FALSE)
B64Dec(txt, nbytes)       == Decode(txt, 6, B64Index, nbytes, DEV_B64TrailingBits)
UidB64Len == EncLen(W, 6)          \* uidBase64Unpadded (11)
P2PB64Len == EncLen(2 * W, 6)      \* p2pBase64Unpadded (22)
UidB32Len == EncLen(W, 5)          \* 13

\* ------------------------------------------------------------------ Uid text forms
(* Uid.MarshalText / String *)
MarshalText(id) == IF IsZero(id) THEN <<>> ELSE B64Enc(id)
String(id) == MarshalText(id)

(* Uid.UnmarshalText on a target holding `pre`: [ok, id]; a failed call leaves the target alone *)
UnmarshalWith(pre, txt, dec(_, _)) ==
  LET r == dec(txt, W) IN IF r.ok THEN [ok |-> TRUE, id |-> r.bs] ELSE [ok |-> FALSE, id |-> pre]
UnmarshalText(pre, txt)       == UnmarshalWith(pre, txt, B64Dec)
UnmarshalTextStrict(pre, txt) == UnmarshalWith(pre, txt, B64DecStrict)

(* ParseUid *)
ParseUid(txt)       == UnmarshalText(Zero, txt).id
ParseUidStrict(txt) == UnmarshalTextStrict(Zero, txt).id

(* MarshalJSON / UnmarshalJSON *)
Quote == "\""
MarshalJSON(id) == <<Quote>> \o MarshalText(id) \o <<Quote>>
UnmarshalJSONWith(pre, b, zeroRejected, um(_, _)) ==
  IF ~zeroRejected /\ b = <<Quote, Quote>> THEN [ok |-> TRUE, id |-> Zero]
  ELSE IF Len(b) # UidB64Len + 2 THEN [ok |-> FALSE, id |-> pre]
  ELSE IF b[1] # Quote \/ b[Len(b)] # Quote THEN [ok |-> FALSE, id |-> pre]
  ELSE um(pre, SubSeq(b, 2, Len(b) - 1))
UnmarshalJSON(pre, b)       == UnmarshalJSONWith(pre, b, DEV_ZeroJsonRejected, UnmarshalText)
UnmarshalJSONStrict(pre, b) == UnmarshalJSONWith(pre, b, FALSE, UnmarshalTextStrict)

(* String32: lower-case unpadded base32 of the bytes (zero included: no special case) *)
String32(id) == Encode(id, 5, B32Lower)

(* ParseUid32, as intended: the text String32 writes, in either case *)
ParseUid32Strict(txt) ==
  LET r == Decode(txt, 5, B32AnyIndex, W, FALSE) IN IF r.ok THEN r.bs ELSE Zero

(* ParseUid32, as built: Go's unpadded base32 decoder, then UnmarshalBinary of the result.       *)
(* The decoder drops CR/LF, knows one alphabet, never looks at pad bits, and for a trailing     *)
(* group of 1, 3 or 6 characters yields no bytes at all without an error (measured, Go 1.23).    *)
B32TailBytes == <<0, 0, 1, 0, 2, 3, 0, 4>>   \* index = (number of characters mod 8) + 1
ParseUid32Loose(txt, index) ==
  LET t  == SelectSeq(txt, LAMBDA c : c \notin {"\r", "\n"})
      nb == 5 * (Len(t) \div 8) + B32TailBytes[(Len(t) % 8) + 1]
  IN IF \E i \in DOMAIN t : t[i] \notin DOMAIN index THEN Zero
     ELSE IF nb < W THEN Zero
     ELSE BytesOfVals([i \in DOMAIN t |-> index[t[i]]], 5, W)
ParseUid32(txt) ==
  LET index == IF DEV_B32UpperOnly THEN B32UIndex ELSE B32AnyIndex IN
    IF DEV_B32Loose THEN ParseUid32Loose(txt, index)
    ELSE LET r == Decode(txt, 5, index, W, FALSE) IN IF r.ok THEN r.bs ELSE Zero

\* ------------------------------------------------------------------ prefixed names
Txt3(a, b, c) == <<a, b, c>>
USR == Txt3("u", "s", "r")
GRP == Txt3("g", "r", "p")
CHN == Txt3("c", "h", "n")
P2P == Txt3("p", "2", "p")
FND == Txt3("f", "n", "d")
SYS == Txt3("s", "y", "s")
ME  == <<"m", "e">>
HasPrefix(s, p) == Len(s) >= Len(p) /\ SubSeq(s, 1, Len(p)) = p
Drop(s, n) == SubSeq(s, n + 1, Len(s))

(* PrefixId / UserId / FndName *)
PrefixId(p, id) == IF IsZero(id) THEN <<>> ELSE p \o String(id)
UserId(id)  == PrefixId(USR, id)
FndName(id) == PrefixId(FND, id)

(* ParseUserId *)
ParseUserId(s)       == IF HasPrefix(s, USR) THEN UnmarshalText(Zero, Drop(s, 3)).id ELSE Zero
ParseUserIdStrict(s) == IF HasPrefix(s, USR) THEN UnmarshalTextStrict(Zero, Drop(s, 3)).id ELSE Zero

(* GrpToChn / ChnToGrp / IsChannel: strings.Replace(.., 1) on a checked prefix = swap the prefix *)
GrpToChn(s) == IF HasPrefix(s, GRP) THEN CHN \o Drop(s, 3) ELSE IF HasPrefix(s, CHN) THEN s ELSE <<>>
ChnToGrp(s) == IF HasPrefix(s, CHN) THEN GRP \o Drop(s, 3) ELSE IF HasPrefix(s, GRP) THEN s ELSE <<>>
IsChannel(s) == HasPrefix(s, CHN)

\* ------------------------------------------------------------------ p2p names
(* Uid.P2PName *)
P2PName(a, b) ==
  IF IsZero(a) \/ IsZero(b) \/ a = b THEN <<>>
  ELSE P2P \o B64Enc(IF Less(a, b) THEN a \o b ELSE b \o a)

(* ParseP2P: [ok, u1, u2] *)
ParseP2PWith(s, loosePad, loosePair) ==
  LET no == [ok |-> FALSE, u1 |-> Zero, u2 |-> Zero] IN
  IF ~HasPrefix(s, P2P) THEN no
  ELSE LET r == Decode(Drop(s, 3), 6, B64Index, 2 * W, loosePad) IN
       IF ~r.ok THEN no
       ELSE LET u1 == SubSeq(r.bs, 1, W)  u2 == SubSeq(r.bs, W + 1, 2 * W) IN
            IF ~loosePair /\ (IsZero(u1) \/ ~Less(u1, u2)) THEN no
            ELSE [ok |-> TRUE, u1 |-> u1, u2 |-> u2]
ParseP2P(s)       == ParseP2PWith(s, DEV_B64TrailingBits, DEV_P2PLooseParse)
ParseP2PStrict(s) == ParseP2PWith(s, FALSE, FALSE)

(* P2PNameForUser: [ok, name] *)
P2PNameForUserWith(id, s, parse(_)) ==
  LET r == parse(s) IN
    IF ~r.ok THEN [ok |-> FALSE, name |-> <<>>]
    ELSE [ok |-> TRUE, name |-> IF id = r.u1 THEN UserId(r.u2) ELSE UserId(r.u1)]
P2PNameForUser(id, s) == P2PNameForUserWith(id, s, ParseP2P)

\* ------------------------------------------------------------------ session-side names
(* GetTopicCat: by the first three characters; anything else panics in the code *)
TopicCat(s) ==
  IF Len(s) < 3 THEN "panic"
  ELSE LET p == SubSeq(s, 1, 3) IN
       CASE p = USR -> "me" [] p = P2P -> "p2p" [] p = GRP -> "grp" [] p = CHN -> "grp"
         [] p = FND -> "fnd" [] p = SYS -> "sys" [] OTHER -> "panic"

(* topicNameForUser(name, uid, isChan): routable name -> the name this user sees *)
TopicNameForUser(s, id, isChan) ==
  LET cat == TopicCat(s) IN
  CASE cat = "me"  -> ME
    [] cat = "fnd" -> FND
    [] cat = "p2p" -> P2PNameForUser(id, s).name
    [] cat = "grp" -> IF isChan THEN GrpToChn(s) ELSE s
    [] OTHER -> s

(* Session.expandTopicName: [ok, to, err]; asUser is the sender's "usrXXX" *)
ExpandTopicName(asUser, original) ==
  LET yes(t) == [ok |-> TRUE, to |-> t, err |-> "none"]
      no(e)  == [ok |-> FALSE, to |-> <<>>, err |-> e] IN
  IF original = <<>> THEN no("malformed")
  ELSE IF original = ME THEN yes(asUser)
  ELSE IF original = FND THEN yes(FndName(ParseUserId(asUser)))
  ELSE IF HasPrefix(original, USR) THEN
         LET u1 == ParseUserId(asUser)  u2 == ParseUserId(original) IN
           IF IsZero(u2) THEN no("malformed")
           ELSE IF u2 = u1 THEN no("denied")
           ELSE yes(P2PName(u1, u2))
  ELSE IF ChnToGrp(original) # <<>> THEN yes(ChnToGrp(original))
  ELSE yes(original)
=============================================================================
