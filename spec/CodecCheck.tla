----------------------------- MODULE CodecCheck -----------------------------
(***************************************************************************)
(* Design check (U1) for C20: the reference codec of Codec.tla explored    *)
(* exhaustively for a SCALED id width (W = 1 or 2 bytes).  The state is    *)
(* one test case; the cases form a tree so that TLC's workers share them:  *)
(*   root -> every id (W = 2: high byte, then low byte)                    *)
(*        -> every text over the full 66-character alphabet up to          *)
(*           FullDepth, every text over a 13-character alphabet (both      *)
(*           cases, pad-bit carriers, base32-only-invalid, invalid for     *)
(*           both, LF) up to MaxSmall -- i.e. every too-short, too-long,   *)
(*           bad-alphabet and non-canonical text as well as every valid one*)
(*        -> every ordered pair of PairIds                                 *)
(*        -> every name over NameAlphabet up to MaxName (grp/chn)          *)
(*        -> every would-be prefix over PfxAlphabet up to 4 characters     *)
(* The invariants state C20 on the model.  They are written on the         *)
(* DEV_*-parameterised operators: with all DEV_* = FALSE (the .cfg files)  *)
(* they hold; switching one DEV_* to TRUE makes TLC print the model-level  *)
(* counterexample of that deviation.                                       *)
(***************************************************************************)
EXTENDS Codec

CONSTANTS FullDepth, SmallAlphabet, MaxSmall, PairNats, NameAlphabet, MaxName, PfxAlphabet

VARIABLE c
vars == <<c>>

FullAlphabet == Range(B64Alphabet) \cup {"=", "*"}
Other == [i \in 1..W |-> 170]        \* what a decode target holds beforehand
One   == [i \in 1..W |-> IF i = 1 THEN 1 ELSE 0]
AllByteNats == 0..255
NatOf(id) == IF W = 1 THEN id[1] ELSE id[1] + 256 * id[2]

Init == c = [k |-> "root"]

Next ==
  \/ /\ c.k = "root"
     /\ \/ W = 1 /\ \E b \in Byte : c' = [k |-> "id", id |-> <<b>>]
        \/ W = 2 /\ \E h \in Byte : c' = [k |-> "hi", h |-> h]
        \/ c' = [k |-> "txt", t |-> <<>>, full |-> TRUE]
        \/ c' = [k |-> "txt", t |-> <<>>, full |-> FALSE]
        \/ \E a \in PairNats : c' = [k |-> "pa", a |-> IdOfNat(a)]
        \/ c' = [k |-> "name", t |-> <<>>]
        \/ c' = [k |-> "pfx", t |-> <<>>]
  \/ /\ c.k = "hi"
     /\ \E l \in Byte : c' = [k |-> "id", id |-> <<l, c.h>>]
  \/ /\ c.k = "txt"
     /\ Len(c.t) < (IF c.full THEN FullDepth ELSE MaxSmall)
     /\ \E ch \in (IF c.full THEN FullAlphabet ELSE SmallAlphabet) : c' = [c EXCEPT !.t = Append(@, ch)]
  \/ /\ c.k = "pa"
     /\ \E b \in PairNats : c' = [k |-> "pair", a |-> c.a, b |-> IdOfNat(b)]
  \/ /\ c.k = "name"
     /\ Len(c.t) < MaxName
     /\ \E ch \in NameAlphabet : c' = [c EXCEPT !.t = Append(@, ch)]
  \/ /\ c.k = "pfx"
     /\ Len(c.t) < 4
     /\ \E ch \in PfxAlphabet : c' = [c EXCEPT !.t = Append(@, ch)]
Spec == Init /\ [][Next]_vars

Lower32(t) == [i \in DOMAIN t |-> IF t[i] \in DOMAIN B32UIndex THEN B32Lower[B32UIndex[t[i]] + 1] ELSE t[i]]

\* ------------------------------------------------------------------ every id
IdRoundTrips ==
  c.k = "id" =>
    LET id == c.id IN
      /\ IdOfNat(NatOf(id)) = id
      /\ ParseUid(String(id)) = id
      /\ ~IsZero(id) => /\ UnmarshalText(Other, MarshalText(id)) = [ok |-> TRUE, id |-> id]
                        /\ Len(String(id)) = UidB64Len
                        /\ Len(UserId(id)) = UidB64Len + 3
      /\ UnmarshalJSON(Other, MarshalJSON(id)) = [ok |-> TRUE, id |-> id]
      /\ ParseUid32(String32(id)) = id
      /\ Len(String32(id)) = UidB32Len
      /\ ParseUserId(UserId(id)) = id
      /\ ParseUserId(FndName(id)) = Zero
      /\ IsZero(id) => String(id) = <<>> /\ UserId(id) = <<>>

\* ------------------------------------------------------------------ every text
\* accepted  <=>  it is the text the encoder writes for the decoded id; rejected => zero and target untouched
TextValidOrZero ==
  c.k = "txt" =>
    LET t == c.t
        r == UnmarshalText(Other, t)
        j == UnmarshalJSON(Other, <<Quote>> \o t \o <<Quote>>)
    IN /\ r.ok => B64Enc(r.id) = t
       /\ ~r.ok => r.id = Other /\ ParseUid(t) = Zero
       /\ r.ok => ParseUid(t) = r.id
       /\ ParseUserId(USR \o t) = ParseUid(t)
       /\ ParseUserId(t) = Zero \/ HasPrefix(t, USR)
       /\ j.ok <=> (r.ok \/ t = <<>>)
       /\ j.ok /\ t # <<>> => j.id = r.id
       /\ ~j.ok => j.id = Other

Base32ValidOrZero ==
  c.k = "txt" =>
    LET t == c.t  id == ParseUid32(t) IN
      ~IsZero(id) => Lower32(t) = String32(id)

P2PTextValidOrError ==
  c.k = "txt" =>
    LET s == P2P \o c.t  r == ParseP2P(s) IN
      /\ r.ok => P2PName(r.u1, r.u2) = s
      /\ ~r.ok => IsZero(r.u1) /\ IsZero(r.u2) /\ ~P2PNameForUser(One, s).ok
      /\ ~ParseP2P(c.t).ok \/ HasPrefix(c.t, P2P)

\* ------------------------------------------------------------------ every pair
P2PLaws ==
  c.k = "pair" =>
    LET a == c.a  b == c.b  n == P2PName(a, b) IN
      /\ n = P2PName(b, a)
      /\ (IsZero(a) \/ IsZero(b) \/ a = b) => n = <<>>
      /\ ~(IsZero(a) \/ IsZero(b) \/ a = b) =>
           LET r == ParseP2P(n) IN
             /\ Len(n) = 3 + P2PB64Len
             /\ TopicCat(n) = "p2p"
             /\ r.ok /\ {r.u1, r.u2} = {a, b} /\ Less(r.u1, r.u2)
             /\ P2PNameForUser(a, n) = [ok |-> TRUE, name |-> UserId(b)]
             /\ P2PNameForUser(b, n) = [ok |-> TRUE, name |-> UserId(a)]
             /\ TopicNameForUser(n, a, FALSE) = UserId(b)
             /\ ExpandTopicName(UserId(a), UserId(b)) = [ok |-> TRUE, to |-> n, err |-> "none"]
             /\ ExpandTopicName(UserId(b), TopicNameForUser(n, b, FALSE)).to = n
             /\ ExpandTopicName(UserId(a), n).to = n
      /\ ~IsZero(a) => /\ ExpandTopicName(UserId(a), ME).to = UserId(a)
                       /\ TopicNameForUser(UserId(a), a, FALSE) = ME
                       /\ ExpandTopicName(UserId(a), FND).to = FndName(a)
                       /\ TopicNameForUser(FndName(a), a, FALSE) = FND
                       /\ ~ExpandTopicName(UserId(a), UserId(a)).ok
      /\ ~ExpandTopicName(UserId(a), USR \o <<"x">>).ok

\* ------------------------------------------------------------------ grp / chn spellings
GrpChnLossless ==
  c.k = "name" =>
    LET t == c.t IN
      /\ HasPrefix(t, GRP) => /\ ChnToGrp(GrpToChn(t)) = t
                              /\ IsChannel(GrpToChn(t)) /\ ~IsChannel(t)
                              /\ Drop(GrpToChn(t), 3) = Drop(t, 3)
                              /\ ChnToGrp(t) = t
                              /\ TopicNameForUser(t, One, TRUE) = GrpToChn(t)
                              /\ TopicNameForUser(t, One, FALSE) = t
                              /\ ExpandTopicName(UserId(One), GrpToChn(t)).to = t
                              /\ ExpandTopicName(UserId(One), t).to = t
      /\ HasPrefix(t, CHN) => /\ GrpToChn(ChnToGrp(t)) = t
                              /\ Drop(ChnToGrp(t), 3) = Drop(t, 3)
                              /\ HasPrefix(ChnToGrp(t), GRP)
                              /\ GrpToChn(t) = t
      /\ ~HasPrefix(t, GRP) /\ ~HasPrefix(t, CHN) => GrpToChn(t) = <<>> /\ ChnToGrp(t) = <<>> /\ ~IsChannel(t)

\* ------------------------------------------------------------------ prefixes
PrefixExact ==
  c.k = "pfx" =>
    /\ ParseUserId(c.t \o String(One)) = (IF c.t = USR THEN One ELSE Zero)
    /\ ParseP2P(c.t \o B64Enc(One \o Other)).ok <=> (c.t = P2P)
=============================================================================
