CONSTANTS
  W = 1
  DEV_B64TrailingBits = FALSE
  DEV_B32UpperOnly = FALSE
  DEV_B32Loose = FALSE
  DEV_ZeroJsonRejected = FALSE
  DEV_P2PLooseParse = FALSE
  FullDepth = 3
  SmallAlphabet = {"A", "B", "Q", "a", "b", "q", "2", "7", "0", "-", "=", "*", "\n"}
  MaxSmall = 4
  PairNats <- AllByteNats
  NameAlphabet = {"g", "r", "p", "c", "h", "n", "x"}
  MaxName = 4
  PfxAlphabet = {"u", "s", "r", "U", "p", "2", "x"}
SPECIFICATION Spec
INVARIANTS IdRoundTrips TextValidOrZero Base32ValidOrZero P2PTextValidOrError P2PLaws GrpChnLossless PrefixExact
CHECK_DEADLOCK FALSE
