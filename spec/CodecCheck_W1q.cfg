CONSTANTS
  W = 1
  DEV_B64TrailingBits = FALSE
  DEV_B32UpperOnly = FALSE
  DEV_B32Loose = FALSE
  DEV_ZeroJsonRejected = FALSE
  DEV_P2PLooseParse = FALSE
  FullDepth = 2
  SmallAlphabet = {"A", "B", "Q", "a", "b", "q", "2", "7", "0", "-", "=", "*", "\n"}
  MaxSmall = 4
  PairNats = {0, 1, 2, 3, 4, 5, 6, 7, 8, 15, 16, 17, 31, 32, 63, 64, 65, 100, 127, 128, 129, 170, 171, 200, 254, 255}
  NameAlphabet = {"g", "r", "p", "c", "h", "n", "x"}
  MaxName = 4
  PfxAlphabet = {"u", "s", "r", "U", "p", "2", "x"}
SPECIFICATION Spec
INVARIANTS IdRoundTrips TextValidOrZero Base32ValidOrZero P2PTextValidOrError P2PLaws GrpChnLossless PrefixExact
CHECK_DEADLOCK FALSE
