CONSTANTS
  W = 2
  DEV_B64TrailingBits = FALSE
  DEV_B32UpperOnly = FALSE
  DEV_B32Loose = FALSE
  DEV_ZeroJsonRejected = FALSE
  DEV_P2PLooseParse = FALSE
  FullDepth = 3
  SmallAlphabet = {"A", "B", "Q", "a", "b", "q", "2", "7", "0", "-", "=", "*", "\n"}
  MaxSmall = 5
  PairNats = {0, 1, 2, 3, 127, 128, 255, 256, 257, 511, 512, 4095, 4096, 32767, 32768, 32769, 43690, 43691, 65279, 65280, 65534, 65535}
  NameAlphabet = {"g", "r", "p", "c", "h", "n", "x"}
  MaxName = 6
  PfxAlphabet = {"u", "s", "r", "U", "p", "2", "x"}
SPECIFICATION Spec
INVARIANTS IdRoundTrips TextValidOrZero Base32ValidOrZero P2PTextValidOrError P2PLaws GrpChnLossless PrefixExact
CHECK_DEADLOCK FALSE
