CONSTANTS
  Configs <- Cfg3
  MaxTerm = 2
  MaxCalls = 3
  MaxFails = 2
  MaxDup = 0
  MaxCuts = 0
  DEV_RehashDebounce = FALSE
  DEV_LeaderKeepsAdoptedRing = FALSE
  DEV_SelfExcludedCrash = FALSE
SPECIFICATION Spec
CONSTRAINT Bounded
INVARIANTS TypeOK OneLeaderPerTerm OneVotePerTerm LeaderHasMajorityOfConfigured MinorityLeaderStopsServing HealthConsistent ActiveMatchesFails
PROPERTIES TermMonotone HealthAdopts StaleIgnored
CHECK_DEADLOCK FALSE
