\* Default design check (3 nodes, one term, 3 calls in flight, as intended). tools/props/c17.py writes the
\* configurations it runs itself (exhaustive x/y/z, simulation 3 and 4-5 nodes).
CONSTANTS
  Configs <- Cfg3b
  MaxTerm = 1
  MaxCalls = 3
  MaxFails = 1
  MaxDup = 0
  MaxCuts = 0
  DEV_RehashDebounce = FALSE
  DEV_LeaderKeepsAdoptedRing = FALSE
  DEV_SelfExcludedCrash = FALSE
SPECIFICATION Spec
CONSTRAINT Bounded
INVARIANTS TypeOK OneLeaderPerTerm OneVotePerTerm LeaderHasMajorityOfConfigured MinorityLeaderStopsServing HealthConsistent ActiveMatchesFails
PROPERTIES TermMonotone HealthAdopts StaleIgnored
CHECK_DEADLOCK FALSE
