------------------------------ MODULE Election ------------------------------
(***************************************************************************)
(* Leader election and failover of a tinode cluster,                       *)
(* server/cluster_leader.go (+ ClusterNode.call/callAsync and              *)
(* Cluster.isPartitioned of server/cluster.go), shaped like the code:      *)
(* one action per case of the Cluster.run loop / per step of the two       *)
(* synchronous sub-procedures the loop calls.                              *)
(*                                                                         *)
(*   Tick(n)           case <-ticker.C         (259-284)                   *)
(*     leader:   sendHealthChecks begins       (150-177)  -> busy "ping"   *)
(*     follower: missed++ ; at voteTimeout electLeader begins              *)
(*               (198-221: term++, leader = "", self vote, vote requests   *)
(*               to all nodes)                 -> busy "elect"             *)
(*   Deliver(c)        the RPC request of call c reaches its target:       *)
(*     vote:    case vreq := <-electionVote    (328-342) grant iff         *)
(*              term < req.Term                                            *)
(*     health:  case health := <-healthCheck   (285-326) stale ignored,    *)
(*              higher term / other leader adopted, missed = 0, ring       *)
(*              adopted from the message                                   *)
(*   Reply(c)/Fail(n,m) the caller receives the reply / an error:          *)
(*     vote:    the collection loop of electLeader (230-256)               *)
(*     health:  the per-node bookkeeping of sendHealthChecks (164-176),    *)
(*              then the next call, or the rehash at the end (179-195)     *)
(*   ElectionTimeout(n) case <-timeout.C in electLeader (245-248)          *)
(*   Reconnect(n,m)    ClusterNode.reconnect succeeded (cluster.go:259-267)*)
(*   Cut/Heal          the network partitions / heals                      *)
(*                                                                         *)
(* electLeader and sendHealthChecks run INSIDE the loop goroutine: while   *)
(* they wait, the node serves neither vote requests nor health checks      *)
(* (busy[n].k # "idle"; requests to a busy node simply wait).              *)
(*                                                                         *)
(* Network: every RPC is a record in `calls`.  A request may be delivered  *)
(* late, in any order, more than once (MaxDup) or never; the caller gets   *)
(* at most one outcome per call: the reply of the first delivery, or an    *)
(* error, or nothing at all (the call hangs: net/rpc has no timeout).  An  *)
(* error is always the loss of the connection n -> m: the code closes the  *)
(* rpc client on any error (cluster.go:305-339), so ALL calls pending on   *)
(* it end with an error together (Fail(n,m)) - before or after their       *)
(* requests were handled (lost request / lost reply); requests already on  *)
(* the wire may still arrive later ("orphan").  The peer stays             *)
(* disconnected - calls to it fail at once - until Reconnect.              *)
(* Cut/Heal only restrict which deliveries may happen: a partition is a    *)
(* pattern of losses, it adds no behaviour of the nodes (MaxCuts = 0 in    *)
(* the exhaustive run, > 0 in simulation and in the schedules).            *)
(*                                                                         *)
(* Every step is Step(e) for an explicit event record e, so that the same  *)
(* text is used for the exhaustive design check (Next), for generating     *)
(* schedules (ElectionGen) and for following a trace recorded from the     *)
(* real code (Monitor_C17E).                                               *)
(*                                                                         *)
(* A ring is represented by its member set (ring half of C17: equal member *)
(* set <=> equal signature).                                               *)
(*                                                                         *)
(* As-built deviations (TRUE = what the code does today):                  *)
(*   DEV_RehashDebounce        a follower adopts the leader's ring only on *)
(*                             the second mismatching health check         *)
(*                             (rehashSkipped, 313-326); the flag is not   *)
(*                             cleared by a matching check.                *)
(*   DEV_LeaderKeepsAdoptedRing a newly elected leader advertises the      *)
(*                             signature of the ring it adopted as a       *)
(*                             follower together with its own, never       *)
(*                             updated, activeNodes list (157-162).        *)
(*   DEV_SelfExcludedCrash     adopting a node list that does not contain  *)
(*                             the receiver dereferences c.nodes[self]     *)
(*                             (= nil) in gcProxySessionsForNode           *)
(*                             (cluster.go:1149-1166): the process dies.   *)
(***************************************************************************)
EXTENDS Integers, FiniteSets, TLC

CONSTANTS Configs,      \* set of [n, va, fl]: nodes, vote_after, node_fail_after
          MaxTerm, MaxCalls, MaxFails,    \* bounds (state constraint only)
          MaxDup, MaxCuts,                \* how often a handled request may be delivered again; how many links may be cut
          DEV_RehashDebounce, DEV_LeaderKeepsAdoptedRing, DEV_SelfExcludedCrash

VARIABLES cfg,      \* the configuration of this cluster (constant along a behaviour)
          term,     \* term[n]     c.fo.term
          leader,   \* leader[n]   c.fo.leader (0 = "")
          missed,   \* missed[n]   local `missed` of Cluster.run
          rskip,    \* rskip[n]    local `rehashSkipped` of Cluster.run
          ring,     \* ring[n]     member set of c.ring
          active,   \* active[n]   c.fo.activeNodes
          fails,    \* fails[n][m] c.nodes[m].failCount at n
          conn,     \* conn[n][m]  c.nodes[m].connected at n
          busy,     \* busy[n]     what the loop goroutine of n is doing
          crashed,  \* crashed[n]  the process died (only with DEV_SelfExcludedCrash)
          calls,    \* RPCs in progress
          cut,      \* set of unordered pairs {a,b} that cannot talk
          votes     \* history: <<voter, term, candidate>> of every vote given (self votes included)
vars == <<cfg, term, leader, missed, rskip, ring, active, fails, conn, busy, crashed, calls, cut, votes>>

Nodes == 1..cfg.n
Others(n) == Nodes \ {n}
NodeCount == cfg.n - 1                          \* len(c.nodes)
ExpectVotes == ((NodeCount + 1) \div 2) + 1     \* (nodeCount+1)>>1 + 1   (208-210)

Idle == [k |-> "idle", vts |-> 0, i |-> 0, todo |-> {}, cur |-> 0, rehash |-> FALSE]
IsIdle(n) == busy[n].k = "idle" /\ ~crashed[n]

\* events
Ev(op, n, m, kind, t, o, nx) == [op |-> op, n |-> n, m |-> m, kind |-> kind, t |-> t, o |-> o, nx |-> nx]

VoteCall(n, m, t) == [kind |-> "vote", from |-> n, to |-> m, term |-> t, sig |-> {}, nodes |-> {},
                      st |-> "sent", res |-> FALSE, rterm |-> 0, dups |-> 0]
HealthCall(n, m) == [kind |-> "health", from |-> n, to |-> m, term |-> term[n], sig |-> ring[n], nodes |-> active[n],
                     st |-> "sent", res |-> FALSE, rterm |-> 0, dups |-> 0]

LinkUp(a, b) == {a, b} \notin cut

\* Cluster.isPartitioned (cluster.go:808-819)
IsPartitioned(n) == (cfg.n \div 2) >= Cardinality(active[n])

InitWith(c) ==
  /\ cfg = c
  /\ term = [n \in 1..c.n |-> 0]
  /\ leader = [n \in 1..c.n |-> 0]
  /\ missed = [n \in 1..c.n |-> 0]
  /\ rskip = [n \in 1..c.n |-> FALSE]
  /\ ring = [n \in 1..c.n |-> 1..c.n]              \* failoverInit: everybody alive (97-104)
  /\ active = [n \in 1..c.n |-> 1..c.n]
  /\ fails = [n \in 1..c.n |-> [m \in 1..c.n |-> 0]]
  /\ conn = [n \in 1..c.n |-> [m \in 1..c.n |-> TRUE]]
  /\ busy = [n \in 1..c.n |-> Idle]
  /\ crashed = [n \in 1..c.n |-> FALSE]
  /\ calls = {}
  /\ cut = {}
  /\ votes = {}

Init == \E c \in Configs : InitWith(c)

\* ------------------------------------------------------------ sendHealthChecks
\* The loop over c.nodes (150-177) from the point where the nodes `todo` are still to be visited, `rh` is the
\* rehash flag so far and `fl` the fail counters of n so far.  Nodes that are not connected fail at once
\* (call returns an error without sending); their bookkeeping commutes with everything else and is done
\* at the end.  Go visits the map in an arbitrary order: the next call goes to any connected node, `nx`.
PingLoop(n, todo, rh, fl, base, nx) ==
  LET ct == {m \in todo : conn[n][m]} IN
  IF ct # {}
  THEN /\ nx \in ct
       /\ busy' = [busy EXCEPT ![n] = [Idle EXCEPT !.k = "ping", !.todo = todo \ {nx}, !.cur = nx, !.rehash = rh]]
       /\ calls' = base \cup {HealthCall(n, nx)}
       /\ fails' = [fails EXCEPT ![n] = fl]
       /\ UNCHANGED <<active, ring>>
  ELSE LET fl2 == [m \in Nodes |-> IF m \in todo THEN fl[m] + 1 ELSE fl[m]]
           rh2 == rh \/ \E m \in todo : fl2[m] = cfg.fl
           act == {n} \cup {m \in Others(n) : fl2[m] < cfg.fl}
       IN /\ nx = 0
          /\ busy' = [busy EXCEPT ![n] = Idle]
          /\ calls' = base
          /\ fails' = [fails EXCEPT ![n] = fl2]
          /\ IF rh2 THEN /\ active' = [active EXCEPT ![n] = act]      \* 179-189
                         /\ ring' = [ring EXCEPT ![n] = act]
                    ELSE UNCHANGED <<active, ring>>

\* the health call of n to busy[n].cur returned; ok = no error (164-176)
PingReturn(n, ok, base, nx) ==
  LET m == busy[n].cur
      f == fails[n][m]
      fl == [fails[n] EXCEPT ![m] = IF ok THEN 0 ELSE f + 1]
      rh == busy[n].rehash \/ (IF ok THEN f >= cfg.fl ELSE f + 1 = cfg.fl)
  IN PingLoop(n, busy[n].todo, rh, fl, base, nx)

\* ------------------------------------------------------------ electLeader
\* after the loop variables changed: leave the loop when ~(i < nodeCount /\ voteCount < expectVotes) (230, 251-256)
ElectLoop(n, vts, i) ==
  IF i < NodeCount /\ vts < ExpectVotes
  THEN /\ busy' = [busy EXCEPT ![n] = [Idle EXCEPT !.k = "elect", !.vts = vts, !.i = i]]
       /\ UNCHANGED <<leader, ring>>
  ELSE /\ busy' = [busy EXCEPT ![n] = Idle]
       /\ IF vts >= ExpectVotes
          THEN /\ leader' = [leader EXCEPT ![n] = n]
               /\ IF DEV_LeaderKeepsAdoptedRing THEN UNCHANGED ring
                  ELSE ring' = [ring EXCEPT ![n] = active[n]]
          ELSE UNCHANGED <<leader, ring>>

\* the collection loop of electLeader (232-244) sees the outcome of call c; err = the call failed
CollectVote(n, c, err) ==
  LET b == busy[n]
      behind == ~err /\ ~c.res /\ term[n] < c.rterm      \* "Vote against me. Abandon vote"
      vts == IF err THEN b.vts ELSE IF c.res THEN b.vts + 1 ELSE IF behind THEN 0 ELSE b.vts
      i == IF behind THEN NodeCount + 1 ELSE b.i + 1
  IN ElectLoop(n, vts, i)

\* ------------------------------------------------------------ case <-ticker.C
Tick(n, nx) ==
  /\ IsIdle(n)
  /\ IF leader[n] = n
     THEN /\ PingLoop(n, Others(n), FALSE, fails[n], calls, nx)
          /\ UNCHANGED <<cfg, term, leader, missed, rskip, conn, crashed, cut, votes>>
     ELSE IF missed[n] + 1 < cfg.va
     THEN /\ nx = 0
          /\ missed' = [missed EXCEPT ![n] = @ + 1]
          /\ UNCHANGED <<cfg, term, leader, rskip, ring, active, fails, conn, busy, crashed, calls, cut, votes>>
     ELSE \* electLeader (198-221): new term, vote for myself, ask everybody
          LET t == term[n] + 1
              ct == {m \in Others(n) : conn[n][m]}
          IN /\ nx = 0
             /\ missed' = [missed EXCEPT ![n] = 0]
             /\ term' = [term EXCEPT ![n] = t]
             /\ leader' = [leader EXCEPT ![n] = 0]
             /\ votes' = votes \cup {<<n, t, n>>}
             /\ calls' = calls \cup {VoteCall(n, m, t) : m \in ct}
             \* calls to disconnected nodes complete at once with an error (i++ each); with nobody to ask the
             \* loop is not entered and 1 < expectVotes: no leader
             /\ busy' = IF ct # {}
                        THEN [busy EXCEPT ![n] = [Idle EXCEPT !.k = "elect", !.vts = 1, !.i = NodeCount - Cardinality(ct)]]
                        ELSE busy
             /\ UNCHANGED <<cfg, rskip, ring, active, fails, conn, crashed, cut>>

\* ------------------------------------------------------------ requests reach their target
\* what becomes of the call record once its request was handled
Handled(c, res, rterm) ==
  calls' = (calls \ {c}) \cup
           (CASE c.st = "sent"    -> {[c EXCEPT !.st = "handled", !.res = res, !.rterm = rterm]}
              [] c.st = "handled" -> {[c EXCEPT !.dups = @ + 1]}      \* the caller only ever sees the first reply
              [] c.st = "orphan"  -> {})                               \* nobody waits for it any more

\* case vreq := <-c.fo.electionVote (328-342)
HandleVote(c) ==
  LET m == c.to
      grant == term[m] < c.term
  IN /\ IF grant
        THEN /\ term' = [term EXCEPT ![m] = c.term]
             /\ leader' = [leader EXCEPT ![m] = 0]
             /\ votes' = votes \cup {<<m, c.term, c.from>>}
        ELSE UNCHANGED <<term, leader, votes>>
     /\ Handled(c, grant, IF grant THEN c.term ELSE term[m])
     /\ UNCHANGED <<missed, rskip, ring, active, crashed>>

\* case health := <-c.fo.healthCheck (285-326); the RPC Cluster.Health itself always answers "ok"
HandleHealth(c) ==
  LET m == c.to IN
  /\ Handled(c, TRUE, 0)
  /\ UNCHANGED votes
  /\ IF c.term < term[m]
     THEN UNCHANGED <<term, leader, missed, rskip, ring, active, crashed>>     \* stale leader: ignored (288-292)
     ELSE /\ term' = [term EXCEPT ![m] = c.term]                               \* 294-307
          /\ leader' = [leader EXCEPT ![m] = c.from]
          /\ missed' = [missed EXCEPT ![m] = 0]
          /\ UNCHANGED active
          /\ IF c.sig # ring[m]                                                \* 313-326
             THEN IF DEV_RehashDebounce /\ ~rskip[m]
                  THEN /\ rskip' = [rskip EXCEPT ![m] = TRUE]
                       /\ UNCHANGED <<ring, crashed>>
                  ELSE /\ rskip' = [rskip EXCEPT ![m] = FALSE]
                       /\ ring' = [ring EXCEPT ![m] = c.nodes]                 \* c.rehash(health.Nodes)
                       /\ crashed' = [crashed EXCEPT ![m] = DEV_SelfExcludedCrash /\ m \notin c.nodes]
             ELSE UNCHANGED <<rskip, ring, crashed>>

Deliver(c) ==
  /\ c \in calls
  /\ c.st \in {"sent", "orphan"} \/ (c.st = "handled" /\ c.dups < MaxDup)
  /\ LinkUp(c.from, c.to)
  /\ IsIdle(c.to)
  /\ IF c.kind = "vote" THEN HandleVote(c) ELSE HandleHealth(c)
  /\ UNCHANGED <<cfg, fails, conn, busy, cut>>

\* ------------------------------------------------------------ outcomes reach the caller
\* the reply of call c arrives
Reply(c, nx) ==
  LET n == c.from IN
  /\ c \in calls /\ c.st = "handled"
  /\ LinkUp(n, c.to)
  /\ ~crashed[n]
  /\ IF c.kind = "vote"
     THEN /\ nx = 0
          /\ calls' = calls \ {c}
          /\ IF busy[n].k = "elect" /\ term[n] = c.term
             THEN CollectVote(n, c, FALSE)
             ELSE UNCHANGED <<busy, leader, ring>>               \* the election this vote belonged to is over
          /\ UNCHANGED <<fails, active>>
     ELSE \* a health call is synchronous: its caller is waiting for exactly this call
          /\ busy[n].k = "ping" /\ busy[n].cur = c.to
          /\ PingReturn(n, TRUE, calls \ {c}, nx)
          /\ UNCHANGED leader
  /\ UNCHANGED <<cfg, term, missed, rskip, conn, crashed, cut, votes>>

\* the connection n -> m breaks: every call pending on it ends with an error, the code closes the client
\* (cluster.go:310-321, 327-338); requests that were not handled yet may still arrive ("orphan")
Fail(n, m, nx) ==
  LET mine == {c \in calls : c.from = n /\ c.to = m /\ c.st # "orphan"}
      \* (at most one orphan per (kind, from, to, term) is kept: a further one is simply lost)
      twin(d) == \E o \in calls : o.st = "orphan" /\ o.kind = d.kind /\ o.from = d.from /\ o.to = d.to /\ o.term = d.term
      rest == (calls \ mine) \cup {[c EXCEPT !.st = "orphan"] : c \in {d \in mine : d.st = "sent" /\ ~twin(d)}}
      cur == {c \in mine : c.kind = "vote" /\ c.term = term[n]}
  IN /\ n # m /\ mine # {} /\ ~crashed[n]
     /\ conn' = [conn EXCEPT ![n][m] = FALSE]
     /\ IF busy[n].k = "ping" /\ busy[n].cur = m
        THEN /\ PingReturn(n, FALSE, rest, nx)
             /\ UNCHANGED leader
        ELSE /\ nx = 0
             /\ calls' = rest
             /\ UNCHANGED <<fails, active>>
             /\ IF busy[n].k = "elect" /\ cur # {}
                THEN CollectVote(n, CHOOSE c \in cur : TRUE, TRUE)
                ELSE UNCHANGED <<busy, leader, ring>>
     /\ UNCHANGED <<cfg, term, missed, rskip, crashed, cut, votes>>

\* case <-timeout.C (245-248)
ElectionTimeout(n) ==
  /\ ~crashed[n] /\ busy[n].k = "elect"
  /\ ElectLoop(n, busy[n].vts, NodeCount)
  /\ UNCHANGED <<cfg, term, missed, rskip, active, fails, conn, crashed, calls, cut, votes>>

\* ------------------------------------------------------------ environment
Reconnect(n, m) ==
  /\ n # m /\ ~conn[n][m] /\ LinkUp(n, m)
  /\ ~crashed[n] /\ ~crashed[m]
  /\ busy[n].k # "ping"                   \* (not in the middle of a ping round: see PingLoop)
  /\ conn' = [conn EXCEPT ![n][m] = TRUE]
  /\ UNCHANGED <<cfg, term, leader, missed, rskip, ring, active, fails, busy, crashed, calls, cut, votes>>

Cut(a, b) ==
  /\ a < b /\ {a, b} \notin cut
  /\ Cardinality(cut) < MaxCuts
  /\ cut' = cut \cup {{a, b}}
  /\ UNCHANGED <<cfg, term, leader, missed, rskip, ring, active, fails, conn, busy, crashed, calls, votes>>

Heal(a, b) ==
  /\ a < b /\ {a, b} \in cut
  /\ cut' = cut \ {{a, b}}
  /\ UNCHANGED <<cfg, term, leader, missed, rskip, ring, active, fails, conn, busy, crashed, calls, votes>>

\* ------------------------------------------------------------ events
CallsOf(e) == {c \in calls : c.kind = e.kind /\ c.from = e.n /\ c.to = e.m /\ c.term = e.t /\ (c.st = "orphan") = e.o}

Step(e) ==
  CASE e.op = "tick"      -> Tick(e.n, e.nx)
    [] e.op = "deliver"   -> \E c \in CallsOf(e) : Deliver(c)
    [] e.op = "reply"     -> \E c \in CallsOf(e) : Reply(c, e.nx)
    [] e.op = "fail"      -> Fail(e.n, e.m, e.nx)
    [] e.op = "timeout"   -> ElectionTimeout(e.n)
    [] e.op = "reconnect" -> Reconnect(e.n, e.m)
    [] e.op = "cut"       -> Cut(e.n, e.m)
    [] e.op = "heal"      -> Heal(e.n, e.m)

CallEv(op, c, nx) == Ev(op, c.from, c.to, c.kind, c.term, c.st = "orphan", nx)
Targets == 0..cfg.n
\* every event that could be enabled in the current state
Events ==
  {Ev("tick", n, 0, "", 0, FALSE, nx) : n \in Nodes, nx \in Targets}
  \cup {CallEv("deliver", c, 0) : c \in calls}
  \cup {CallEv("reply", c, nx) : c \in {d \in calls : d.st = "handled"}, nx \in Targets}
  \cup {Ev("fail", c.from, c.to, "", 0, FALSE, nx) : c \in {d \in calls : d.st # "orphan"}, nx \in Targets}
  \cup {Ev("timeout", n, 0, "", 0, FALSE, 0) : n \in {x \in Nodes : busy[x].k = "elect"}}
  \cup {Ev("reconnect", p[1], p[2], "", 0, FALSE, 0) : p \in {q \in Nodes \X Nodes : ~conn[q[1]][q[2]]}}
  \cup {Ev("cut", p[1], p[2], "", 0, FALSE, 0) : p \in {q \in Nodes \X Nodes : q[1] < q[2] /\ MaxCuts > 0}}
  \cup {Ev("heal", p[1], p[2], "", 0, FALSE, 0) : p \in {q \in Nodes \X Nodes : {q[1], q[2]} \in cut}}

Next == \E e \in Events : Step(e)

Spec == Init /\ [][Next]_vars

Bounded ==
  /\ \A n \in Nodes : term[n] <= MaxTerm
  /\ Cardinality(calls) <= MaxCalls
  /\ \A n, m \in Nodes : fails[n][m] <= MaxFails

\* ============================================================ the property
IsLeader(n) == leader[n] = n /\ ~crashed[n]

\* no two nodes that kept their state are leader in the same term
OneLeaderPerTerm == \A a, b \in Nodes : IsLeader(a) /\ IsLeader(b) /\ term[a] = term[b] => a = b

\* a node grants at most one vote per term (its own candidacy counts)
OneVotePerTerm == \A v, w \in votes : v[1] = w[1] /\ v[2] = w[2] => v[3] = w[3]

\* a node's term never decreases
TermMonotone == [][\A n \in Nodes : term'[n] >= term[n]]_vars

\* a leader holds the votes of a strict majority of ALL configured nodes for its term
LeaderHasMajorityOfConfigured ==
  \A n \in Nodes : IsLeader(n) => 2 * Cardinality({v \in Nodes : <<v, term[n], n>> \in votes}) > cfg.n

\* a node that accepts a leader's health check adopts leader, term, node list and ring signature
HealthAdopts ==
  [][\A c \in calls : c.kind = "health" /\ c.term >= term[c.to] /\ Deliver(c) =>
         /\ term'[c.to] = c.term
         /\ leader'[c.to] = c.from
         /\ ring'[c.to] = c.nodes          \* node list
         /\ ring'[c.to] = c.sig            \* ring signature
         /\ ~crashed'[c.to]]_vars

\* stale-term leaders are ignored
StaleIgnored ==
  [][\A c \in calls : c.kind = "health" /\ c.term < term[c.to] /\ Deliver(c) =>
         /\ term'[c.to] = term[c.to] /\ leader'[c.to] = leader[c.to] /\ ring'[c.to] = ring[c.to]
         /\ missed'[c.to] = missed[c.to] /\ active'[c.to] = active[c.to] /\ rskip'[c.to] = rskip[c.to]]_vars

\* a leader that, after the configured number of failed health checks, reaches no more than half of the
\* configured nodes stops serving client requests (isPartitioned -> {ctrl 502}, session.go:596-601)
Reaches(n) == {n} \cup {m \in Others(n) : fails[n][m] < cfg.fl}
MinorityLeaderStopsServing ==
  \A n \in Nodes : IsLeader(n) /\ busy[n].k = "idle" /\ 2 * Cardinality(Reaches(n)) <= cfg.n => IsPartitioned(n)

\* what a leader advertises is consistent: the signature is the signature of the node list
HealthConsistent == \A c \in calls : c.kind = "health" => c.sig = c.nodes

\* the list of nodes a node considers alive is the list of nodes that did not fail too often
ActiveMatchesFails == \A n \in Nodes : busy[n].k # "ping" => active[n] = Reaches(n)

TypeOK ==
  /\ \A n \in Nodes : leader[n] \in 0..cfg.n /\ missed[n] \in 0..cfg.va /\ ring[n] \subseteq Nodes /\ active[n] \subseteq Nodes
  /\ \A n \in Nodes : busy[n].k \in {"idle", "elect", "ping"}
  /\ \A n \in Nodes : busy[n].k = "ping" =>
        Cardinality({c \in calls : c.kind = "health" /\ c.from = n /\ c.to = busy[n].cur /\ c.st # "orphan"}) = 1
  /\ \A n \in Nodes : busy[n].k # "idle" => ~crashed[n]

\* ---- model values for the .cfg files ----
Cfg3 == {[n |-> 3, va |-> 2, fl |-> 2]}
Cfg3b == {[n |-> 3, va |-> 1, fl |-> 1]}
Cfg4 == {[n |-> 4, va |-> 2, fl |-> 2]}
Cfg5 == {[n |-> 5, va |-> 2, fl |-> 2]}
Cfg45 == {[n |-> n, va |-> va, fl |-> fl] : n \in 4..5, va \in 1..2, fl \in 1..2}
CfgSim == {[n |-> n, va |-> va, fl |-> fl] : n \in 3..5, va \in 1..4, fl \in 1..2}
=============================================================================
