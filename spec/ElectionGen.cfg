CONSTANTS
  Configs <- CfgSim
  Depth = 70
  ProgressPct = 80
  MaxTerm = 99
  MaxCalls = 99
  MaxFails = 99
  MaxDup = 1
  MaxCuts = 2
  DEV_RehashDebounce = TRUE
  DEV_LeaderKeepsAdoptedRing = TRUE
  DEV_SelfExcludedCrash = FALSE
INIT GInit
NEXT GNext
INVARIANT Emit
CHECK_DEADLOCK FALSE
