---------------------------- MODULE ElectionGen ----------------------------
(***************************************************************************)
(* Schedule generator for the election half of C17 (use 2 of the spec):    *)
(* TLC -simulate walks random behaviours of Election (as built: DEV_* =    *)
(* TRUE) and writes the sequence of events of each behaviour, with the     *)
(* activity the model expects of every node after each event, to           *)
(* sched_<k>.ndjson.  The Go harness replays the events into the real code.*)
(***************************************************************************)
EXTENDS Election, Sequences, Json

CONSTANTS Depth, ProgressPct
VARIABLE hist

GInit == Init /\ hist = <<>>
\* Uniform choice among all enabled events is dominated by faults (every pending call can fail, every link
\* can be cut) and hardly ever elects anybody.  ProgressPct percent of the steps are therefore taken from the
\* events that make the protocol progress; the rest from all events.
Progress == {e \in Events : e.op \in {"tick", "reply", "reconnect"} \/ (e.op = "deliver" /\ \E c \in CallsOf(e) : c.st # "handled")}
\* (election timeouts cost real time in the replay: they are taken from the last 3 percent only)
Choice == LET r == RandomElement(1..100) IN
          IF r <= ProgressPct /\ (\E e \in Progress : ENABLED Step(e)) THEN Progress
          ELSE IF r <= 97 /\ (\E e \in Events : e.op # "timeout" /\ ENABLED Step(e)) THEN {e \in Events : e.op # "timeout"}
          ELSE Events

GNext == \E e \in Choice :
            /\ Step(e)
            /\ hist' = Append(hist, [op |-> e.op, n |-> e.n, m |-> e.m, kind |-> e.kind, t |-> e.t, o |-> e.o, nx |-> e.nx,
                                     b |-> [n \in Nodes |-> busy'[n].k]])
GSpec == GInit /\ [][GNext]_<<vars, hist>>

Emit == Len(hist) < Depth
        \/ ndJsonSerialize("sched_" \o ToString(TLCGet("stats").traces) \o ".ndjson", <<[cfg |-> cfg, hist |-> hist]>>)
=============================================================================
