-------------------------------- MODULE Files --------------------------------
(***************************************************************************)
(* C16 - out-of-band files (tinode/chat: server/hdl_files.go,              *)
(* server/media/fs/filesys.go, server/media/media.go, server/http.go       *)
(* getAPIKey/getHttpAuth/authHttpRequest, server/api_key.go, the file      *)
(* methods of server/store/store.go and of the database adapter).          *)
(*                                                                         *)
(* The world `w` is what persists: upload records, stored bytes, links of  *)
(* uploads to messages/topics/users, and the messages/topics/users that    *)
(* exist.  Every handler / store call is one pure operator Do<X>(w, args)  *)
(* returning the next world and the answer, transcribed from the code in   *)
(* the order of its checks; the actions of the state machine apply these   *)
(* operators, and Monitor_C16 applies the very same operators to worlds    *)
(* observed on the real server (binding).                                  *)
(*                                                                         *)
(* DEV_* = TRUE is what the code does today, FALSE is what the property    *)
(* asks for.  The design check (U1) runs with all DEV_* = FALSE.           *)
(***************************************************************************)
EXTENDS Integers, Sequences, FiniteSets, TLC

CONSTANTS
  MaxUp,      \* upload records ever created (abstract ids 1..MaxUp, in creation order)
  MaxMsg,     \* messages ever published (ids 1..MaxMsg)
  Topics, Users,
  MaxGc, MaxClock, Grace,
  Methods, Keys, Creds, Places, Sizes, Kinds, Faults, Shapes, Limits, NewaccVals, AsattVals,
  AllowSlow,  \* explore two-phase (in-flight) uploads
  DEV_NewaccNoAuth,          \* largeFileReceive: `uid.IsZero() && topic != "newacc"`: sign-up uploads need no credentials
  DEV_ServeUnfinished,       \* fs.Download does not look at FileDef.Status
  DEV_FinishFailLeavesBytes  \* largeFileReceive dereferences the nil FileDef returned by a failed FinishUpload:
                             \* the handler panics before its "best effort cleanup", the bytes stay

None == "none"
Anon == "anon"

Min(a, b) == IF a < b THEN a ELSE b
Put(f, k, v) == [x \in (DOMAIN f) \cup {k} |-> IF x = k THEN v ELSE f[x]]
Drop(f, ks) == [x \in (DOMAIN f) \ ks |-> f[x]]
EmptyFn == [x \in {} |-> 0]

-----------------------------------------------------------------------------
(* Request classes.                                                        *)

\* api_key.go checkAPIKey: 24 bytes, version 1, HMAC-MD5 over the first 8 bytes with the configured salt.
KeyOk(k) == k \in {"valid", "root"}

\* http.go authHttpRequest + the authenticators. Which user the credentials prove, or Anon.
CredUser(c) ==
  CASE c \in {"token", "sid"} -> "u1"
    [] c \in {"basic", "token2"} -> "u2"
    [] OTHER -> Anon          \* missing, unknownscheme, deadsid, anonsid and every failing one
\* Credentials that make authHttpRequest return an error (as-built status of decodeStoreError).
CredErr(c) ==
  CASE c \in {"garbage", "shorttoken", "nocolon"} -> 400                 \* ErrMalformed
    [] c \in {"expired", "badsig", "badserial", "wrongpw", "nologin"} -> 401  \* ErrExpired / ErrFailed
    [] OTHER -> 0
\* The property's notion: the request carries a valid API key and valid credentials.
Authorised(r) == KeyOk(r.key) /\ CredUser(r.cred) # Anon

Implemented(ep) == IF ep = "upload" THEN {"POST", "PUT", "HEAD", "OPTIONS"} ELSE {"GET", "HEAD", "OPTIONS"}

\* hdl_files.go:207-210: the body is capped by MaxBytesReader *before* getAPIKey/FormValue parse the form:
\* form fields of an oversize request are never seen.
Hidden(ep, place, size) == ep = "upload" /\ place = "form" /\ size = "over"
CredSeen(ep, r) == IF Hidden(ep, r.cplace, r.size) THEN "missing" ELSE r.cred

\* The checks of largeFileServe:49-97 / largeFileReceive:181-233 in order. 0 = passed.
Gate(ep, r) ==
  IF r.method = "OPTIONS" THEN 204                       \* preflight: answered before any security check
  ELSE IF r.method \notin Implemented(ep) THEN 405
  ELSE IF ~(KeyOk(r.key) /\ ~Hidden(ep, r.kplace, r.size)) THEN 403
  ELSE LET c == CredSeen(ep, r) IN
    IF CredErr(c) # 0 THEN CredErr(c)
    ELSE IF CredUser(c) = Anon /\ ~(ep = "upload" /\ r.newacc /\ DEV_NewaccNoAuth) THEN 401
    ELSE 0

\* hdl_files.go:282-302: http.DetectContentType of the first 512 bytes, the part's own Content-Type only
\* when sniffing says application/octet-stream and the type starts with one of allowedMimeTypes.
KindMime(k) ==
  CASE k = "html"     -> "text/html; charset=utf-8"
    [] k = "xml"      -> "text/xml; charset=utf-8"
    [] k = "text"     -> "text/plain; charset=utf-8"
    [] k = "js"       -> "text/plain; charset=utf-8"
    [] k = "json"     -> "text/plain; charset=utf-8"
    [] k = "svg"      -> "text/xml; charset=utf-8"
    [] k = "pdf"      -> "application/pdf"
    [] k = "zip"      -> "application/zip"
    [] k = "png"      -> "image/png"
    [] k = "gif"      -> "image/gif"
    [] k = "jpeg"     -> "image/jpeg"
    [] k = "wav"      -> "audio/wave"
    [] k = "mp4"      -> "video/mp4"
    [] k = "bin"      -> "application/octet-stream"   \* part type application/octet-stream
    [] k = "bin_none" -> "application/octet-stream"   \* no part type
    [] k = "bin_msg"  -> "application/octet-stream"   \* part type message/rfc822: not allowed
    [] k = "bin_junk" -> "application/octet-stream"   \* part type does not parse
    [] k = "bin_html" -> "text/html"                  \* part type text/html
    [] k = "bin_svg"  -> "image/svg+xml"              \* part type image/svg+xml
    [] k = "bin_js"   -> "application/javascript"
    [] k = "bin_png"  -> "image/png"                  \* part type image/png
    [] k = "bin_font" -> "font/woff2"
    [] OTHER          -> None
\* hdl_files.go:142-157 on the types above.
MimeActive(m) == m \notin {"image/png", "image/gif", "image/jpeg", "audio/wave", "video/mp4", "font/woff2"}

ShapeResolves(s) == s \in {"canon", "noext", "bare", "dot_in", "updown", "odd_tail", "query", "dblslash"}

-----------------------------------------------------------------------------
(* The world and the operators on it.                                      *)

World0 == [up |-> EmptyFn, disk |-> EmptyFn, links |-> {}, msgs |-> EmptyFn, topics |-> Topics, users |-> Users]

Ids(ww) == DOMAIN ww.up
Linked(ww, id) == \E l \in ww.links : l.f = id
Collectable(ww, cutoff) == {id \in Ids(ww) : ~Linked(ww, id) /\ ww.up[id].stamp < cutoff}
TargetExists(ww, kind, t) ==
  CASE kind = "msg" -> t \in DOMAIN ww.msgs
    [] kind = "topic" -> t \in ww.topics
    [] kind = "user" -> t \in ww.users

Resp(st) == [status |-> st, served |-> None, mime |-> None, disp |-> FALSE, url |-> 0]
Content(id) == "b" \o ToString(id)
Partial(id) == "p" \o ToString(id)

\* largeFileReceive. `id` is the record id the request will use if it gets that far; r.bytes the file sent.
DoUpload(ww, id, r, now) ==
  LET g == Gate("upload", r)
      rec(st) == [owner |-> CredUser(CredSeen("upload", r)), st |-> st, stamp |-> now,
                  bytes |-> r.bytes, mime |-> KindMime(r.kind)]
      same(st) == [w |-> ww, resp |-> Resp(st)]
  IN
  IF g # 0 THEN same(g)
  ELSE IF r.method = "HEAD" THEN same(200)                                   \* :265
  ELSE IF r.size = "over" THEN same(413)                                     \* :271-276 "request body too large"
  ELSE IF r.kind = "nofile" THEN same(400)                                   \* :277 no part named "file"
  ELSE IF r.kind = "empty" THEN same(500)                                    \* :283 Read of an empty file: EOF
  ELSE CASE r.fault = "create" -> same(500)                                  \* fs.Upload: os.Create fails
         [] r.fault = "start"  -> same(500)                                  \* StartUpload fails: bytes removed
         [] r.fault = "finish" ->                                            \* FinishUpload(true) fails
              IF DEV_FinishFailLeavesBytes
              THEN [w |-> [ww EXCEPT !.up = Put(@, id, rec("started")), !.disk = Put(@, id, r.bytes)], resp |-> Resp(0)]
              ELSE [w |-> [ww EXCEPT !.up = Put(@, id, rec("started"))], resp |-> Resp(500)]
         [] OTHER -> [w |-> [ww EXCEPT !.up = Put(@, id, rec("finished")), !.disk = Put(@, id, r.bytes)],
                      resp |-> [Resp(200) EXCEPT !.url = id]]

\* An upload whose source is slow: fs.Upload has created the file and the 'started' record and is copying.
DoUploadBegin(ww, id, r, now) ==
  [ww EXCEPT !.up = Put(@, id, [owner |-> CredUser(r.cred), st |-> "started", stamp |-> now,
                                 bytes |-> r.bytes, mime |-> KindMime(r.kind)]),
             !.disk = Put(@, id, r.partial)]
InFlight(ww, id) == id \in Ids(ww) /\ ww.up[id].st = "started" /\ id \in DOMAIN ww.disk /\ ww.disk[id] # ww.up[id].bytes
DoUploadEnd(ww, id, now) ==
  [ww EXCEPT !.up[id].st = "finished", !.up[id].stamp = now, !.disk[id] = ww.up[id].bytes]

\* largeFileServe + fs.Download. r.resolves: GetIdFromUrl(url) yields the id of r.target (0 = no record has it).
DoDownload(ww, r) ==
  LET g == Gate("serve", r) IN
  IF g # 0 THEN Resp(g)
  ELSE IF r.method = "HEAD" THEN Resp(200)                                   \* :128 no lookup at all
  ELSE IF ~r.resolves \/ r.target \notin Ids(ww) THEN Resp(404)
  ELSE IF ~DEV_ServeUnfinished /\ ww.up[r.target].st # "finished" THEN Resp(404)
  ELSE IF r.target \notin DOMAIN ww.disk THEN Resp(404)
  ELSE LET m == ww.up[r.target].mime IN
       [status |-> 200, served |-> ww.disk[r.target], mime |-> m, disp |-> (r.asatt \/ MimeActive(m)), url |-> 0]

\* refs: sequence of [id, resolves]: the attachment list after mediaHandler.GetIdFromUrl.
Fids(refs) == LET s == SelectSeq(refs, LAMBDA x : x.resolves) IN [i \in DOMAIN s |-> s[i].id]

\* store.Messages.Save(msg, attachments, _): row first, then adp.FileLinkAttachments("", 0, msg, fids) in one tx.
DoPub(ww, m, t, refs) ==
  LET fids == Fids(refs)
      w1 == [ww EXCEPT !.msgs = Put(@, m, t)]
  IN IF fids = <<>> THEN [w |-> w1, ok |-> TRUE]
     ELSE IF \E i \in DOMAIN fids : fids[i] \notin Ids(ww) THEN [w |-> w1, ok |-> FALSE]   \* foreign key: whole tx rolled back
     ELSE [w |-> [w1 EXCEPT !.links = @ \cup {[f |-> fids[i], k |-> "msg", t |-> m] : i \in DOMAIN fids}], ok |-> TRUE]

\* store.Files.LinkAttachments(topic | usrXXX, 0, attachments): only the first id, replaces the previous link.
DoAvatar(ww, kind, t, refs) ==
  LET fids == Fids(refs) IN
  IF fids = <<>> THEN [w |-> ww, ok |-> TRUE]
  ELSE IF fids[1] \notin Ids(ww) \/ ~TargetExists(ww, kind, t) THEN [w |-> ww, ok |-> FALSE]
  ELSE [w |-> [ww EXCEPT !.links = {l \in @ : ~(l.k = kind /\ l.t = t)} \cup {[f |-> fids[1], k |-> kind, t |-> t]}],
        ok |-> TRUE]

\* store.Messages.DeleteList(topic, delId, 0, {seq}) - hard: content wiped, links dropped.
DoDelMsgHard(ww, m) ==
  [ww EXCEPT !.msgs = Drop(@, {m}), !.links = {l \in @ : ~(l.k = "msg" /\ l.t = m)}]
\* store.Topics.Delete(topic, false, true): messages and links cascade.
DoDelTopic(ww, t) ==
  LET gone == {m \in DOMAIN ww.msgs : ww.msgs[m] = t} IN
  [ww EXCEPT !.topics = @ \ {t}, !.msgs = Drop(@, gone),
             !.links = {l \in @ : ~((l.k = "msg" /\ l.t \in gone) \/ (l.k = "topic" /\ l.t = t))}]
\* store.Users.Delete(uid, true)
DoDelUser(ww, u) ==
  [ww EXCEPT !.users = @ \ {u}, !.links = {l \in @ : ~(l.k = "user" /\ l.t = u)}]
\* store.Files.DeleteUnused(olderThan, limit): records R and their bytes go.
DoGc(ww, R) == [ww EXCEPT !.up = Drop(@, R), !.disk = Drop(@, R)]
GcChoices(ww, cutoff, limit) ==
  LET C == Collectable(ww, cutoff)
      n == IF limit > 0 THEN Min(limit, Cardinality(C)) ELSE Cardinality(C)
  IN {R \in SUBSET C : Cardinality(R) = n}

-----------------------------------------------------------------------------
(* State machine.                                                          *)

VARIABLES w, clock, gcs, nup, nmsg, last
vars == <<w, clock, gcs, nup, nmsg, last>>

Init == /\ w = World0 /\ clock = 0 /\ gcs = 0 /\ nup = 0 /\ nmsg = 0
        /\ last = [op |-> "init"]

ReqBase == [method : Methods, key : Keys, kplace : Places, cred : Creds, cplace : Places]

Upload ==
  /\ nup < MaxUp
  /\ \E b \in ReqBase, sz \in Sizes, kd \in Kinds, na \in NewaccVals, ft \in Faults :
       LET id == nup + 1
           r == [method |-> b.method, key |-> b.key, kplace |-> b.kplace, cred |-> b.cred, cplace |-> b.cplace,
                 size |-> sz, kind |-> kd, newacc |-> na, fault |-> ft, bytes |-> Content(id)]
           res == DoUpload(w, id, r, clock)
       IN /\ w' = res.w
          /\ nup' = IF id \in Ids(res.w) THEN id ELSE nup
          /\ last' = [op |-> "upload", id |-> id, a |-> r, resp |-> res.resp]
  /\ UNCHANGED <<clock, gcs, nmsg>>

UploadBegin ==
  /\ AllowSlow /\ nup < MaxUp
  /\ \E c \in Creds, kd \in Kinds :
       LET id == nup + 1
           r == [method |-> "POST", key |-> "valid", kplace |-> "header", cred |-> c, cplace |-> "header",
                 size |-> "small", kind |-> kd, newacc |-> FALSE, fault |-> "none",
                 bytes |-> Content(id), partial |-> Partial(id)]
       IN /\ Gate("upload", r) = 0 /\ KindMime(kd) # None /\ kd \notin {"nofile", "empty"}
          /\ w' = DoUploadBegin(w, id, r, clock)
          /\ nup' = id
          /\ last' = [op |-> "uploadbegin", id |-> id, a |-> r]
  /\ UNCHANGED <<clock, gcs, nmsg>>

UploadEnd ==
  /\ \E id \in Ids(w) :
       /\ InFlight(w, id)
       /\ w' = DoUploadEnd(w, id, clock)
       /\ last' = [op |-> "uploadend", id |-> id]
  /\ UNCHANGED <<clock, gcs, nup, nmsg>>

Download ==
  /\ \E b \in ReqBase, sh \in Shapes, tg \in 1..MaxUp, aa \in AsattVals :
       LET r == [method |-> b.method, key |-> b.key, kplace |-> b.kplace, cred |-> b.cred, cplace |-> b.cplace,
                 size |-> "small", newacc |-> FALSE, shape |-> sh, resolves |-> ShapeResolves(sh), target |-> tg, asatt |-> aa]
       IN last' = [op |-> "download", a |-> r, resp |-> DoDownload(w, r)]
  /\ UNCHANGED <<w, clock, gcs, nup, nmsg>>

\* attachment lists: ids that exist, existed, or never existed; possibly one URL that resolves to nothing
RefLists == {<<>>} \cup {<<[id |-> i, resolves |-> TRUE]>> : i \in 1..MaxUp}
              \cup {<<[id |-> i, resolves |-> TRUE], [id |-> j, resolves |-> TRUE]>> : i, j \in 1..MaxUp}
              \cup {<<[id |-> i, resolves |-> FALSE], [id |-> j, resolves |-> TRUE]>> : i, j \in 1..MaxUp}

Pub ==
  /\ nmsg < MaxMsg
  /\ \E t \in w.topics, refs \in RefLists :
       LET m == nmsg + 1
           res == DoPub(w, m, t, refs)
       IN /\ w' = res.w /\ nmsg' = m
          /\ last' = [op |-> "pub", m |-> m, t |-> t, refs |-> refs, ok |-> res.ok]
  /\ UNCHANGED <<clock, gcs, nup>>

SetAvatar ==
  /\ \E kind \in {"topic", "user"}, refs \in RefLists :
       \E t \in (IF kind = "topic" THEN Topics ELSE Users) :
         LET res == DoAvatar(w, kind, t, refs) IN
           /\ w' = res.w
           /\ last' = [op |-> "avatar", k |-> kind, t |-> t, refs |-> refs, ok |-> res.ok]
  /\ UNCHANGED <<clock, gcs, nup, nmsg>>

DelMsgHard ==
  /\ \E m \in DOMAIN w.msgs : w' = DoDelMsgHard(w, m) /\ last' = [op |-> "delmsg", m |-> m]
  /\ UNCHANGED <<clock, gcs, nup, nmsg>>

DelMsgSoft ==
  /\ \E m \in DOMAIN w.msgs : last' = [op |-> "softdel", m |-> m]
  /\ UNCHANGED <<w, clock, gcs, nup, nmsg>>

DelTopic ==
  /\ \E t \in w.topics : w' = DoDelTopic(w, t) /\ last' = [op |-> "deltopic", t |-> t]
  /\ UNCHANGED <<clock, gcs, nup, nmsg>>

DelUser ==
  /\ \E u \in w.users : w' = DoDelUser(w, u) /\ last' = [op |-> "deluser", t |-> u]
  /\ UNCHANGED <<clock, gcs, nup, nmsg>>

Tick == /\ clock < MaxClock /\ clock' = clock + 1 /\ last' = [op |-> "tick"]
        /\ UNCHANGED <<w, gcs, nup, nmsg>>

Gc ==
  /\ gcs < MaxGc
  /\ \E lim \in Limits : \E R \in GcChoices(w, clock - Grace, lim) :
       /\ w' = DoGc(w, R)
       /\ last' = [op |-> "gc", cutoff |-> clock - Grace, limit |-> lim, removed |-> R]
  /\ gcs' = gcs + 1
  /\ UNCHANGED <<clock, nup, nmsg>>

Next == Upload \/ UploadBegin \/ UploadEnd \/ Download \/ Pub \/ SetAvatar
        \/ DelMsgHard \/ DelMsgSoft \/ DelTopic \/ DelUser \/ Tick \/ Gc
Spec == Init /\ [][Next]_vars

-----------------------------------------------------------------------------
(* The property on the model.                                              *)

Statuses == {"started", "finished", "failed"}
TypeOK ==
  /\ Ids(w) \subseteq 1..MaxUp /\ DOMAIN w.disk \subseteq 1..MaxUp
  /\ \A id \in Ids(w) : w.up[id].st \in Statuses /\ w.up[id].owner \in Users \cup {Anon} /\ w.up[id].stamp \in 0..MaxClock
  /\ \A l \in w.links : l.f \in 1..MaxUp /\ l.k \in {"msg", "topic", "user"}
  /\ w.topics \subseteq Topics /\ w.users \subseteq Users /\ DOMAIN w.msgs \subseteq 1..MaxMsg

IsReq == last.op \in {"upload", "download"}
Ep(l) == IF l.op = "upload" THEN "upload" ELSE "serve"
MustRefuse(l) ==
  \/ ~Authorised(l.a)
  \/ l.a.method \notin Implemented(Ep(l))
  \/ l.op = "upload" /\ l.a.method \in {"POST", "PUT"} /\ l.a.size = "over"

\* no effect without a valid key and valid credentials; oversize and unimplemented methods refused; refusals have no effect
GateBeforeEffect ==
  [][ (last'.op \in {"upload", "download"} /\ MustRefuse(last'))
        => /\ w' = w
           /\ last'.resp.served = None
           /\ (last'.a.method # "OPTIONS" => last'.resp.status >= 400) ]_vars

\* a download that serves anything serves the bytes and the type of the upload its URL names, saved-not-shown if active
DownloadExact ==
  last.op = "download" /\ last.resp.served # None =>
    /\ last.a.resolves /\ last.a.target \in Ids(w)
    /\ last.resp.served = w.up[last.a.target].bytes
    /\ last.resp.mime = w.up[last.a.target].mime
    /\ (MimeActive(last.resp.mime) => last.resp.disp)
\* ... and an authorised GET of a completed upload's URL is served
DownloadServes ==
  ( /\ last.op = "download" /\ Authorised(last.a) /\ last.a.method = "GET" /\ last.a.shape = "canon"
    /\ last.a.target \in Ids(w) /\ w.up[last.a.target].st = "finished" /\ last.a.target \in DOMAIN w.disk )
  => last.resp.status = 200 /\ last.resp.served = w.up[last.a.target].bytes

UrlNamesOnlyCompletedUpload ==
  last.op = "download" /\ last.resp.served # None =>
    \E id \in Ids(w) : w.up[id].st = "finished" /\ id = last.a.target /\ last.resp.served = w.up[id].bytes

\* while an upload is linked, the record and the bytes stay as they are
LinkedNeverCollected ==
  [][ \A id \in Ids(w) : Linked(w, id) =>
        /\ id \in Ids(w') /\ w'.up[id] = w.up[id]
        /\ (id \in DOMAIN w.disk => id \in DOMAIN w'.disk /\ w'.disk[id] = w.disk[id]) ]_vars

\* attachments listed with an accepted message / avatar update that name existing uploads are linked to it
ListedAreLinked ==
  /\ last.op = "pub" /\ last.ok => \A i \in DOMAIN Fids(last.refs) : [f |-> Fids(last.refs)[i], k |-> "msg", t |-> last.m] \in w.links
  /\ last.op = "avatar" /\ last.ok /\ Fids(last.refs) # <<>> => [f |-> Fids(last.refs)[1], k |-> last.k, t |-> last.t] \in w.links
\* a link lasts as long as its message/topic/user (an avatar link: until the next avatar of the same topic/user)
LinkLastsAsLongAsTarget ==
  [][ \A l \in w.links : \/ l \in w'.links
                         \/ ~TargetExists(w', l.k, l.t)
                         \/ (last'.op = "avatar" /\ last'.ok /\ last'.k = l.k /\ last'.t = l.t) ]_vars

\* a GC run removes min(limit, n) of the n unlinked uploads older than the grace period, with their bytes
UnlinkedCollectedAfterGrace ==
  [][ last'.op = "gc" =>
        LET C == Collectable(w, last'.cutoff)
            R == Ids(w) \ Ids(w')
        IN /\ R \subseteq C
           /\ Cardinality(R) = (IF last'.limit > 0 THEN Min(last'.limit, Cardinality(C)) ELSE Cardinality(C))
           /\ \A id \in R : id \notin DOMAIN w'.disk ]_vars

\* nothing else is ever removed or altered: records/bytes disappear only in a GC run and only if collectable
NothingElseRemoved ==
  [][ /\ \A id \in (Ids(w) \ Ids(w')) \cup ((DOMAIN w.disk) \ (DOMAIN w'.disk)) :
            last'.op = "gc" /\ id \in Collectable(w, last'.cutoff)
      /\ \A id \in Ids(w) \cap Ids(w') : last'.op # "uploadend" => w'.up[id] = w.up[id] ]_vars

\* bytes on disk always belong to a record (no leak), a finished record always has its bytes
DiskMatchesRecords ==
  /\ DOMAIN w.disk \subseteq Ids(w)
  /\ \A id \in Ids(w) : w.up[id].st = "finished" => id \in DOMAIN w.disk /\ w.disk[id] = w.up[id].bytes
\* links only point at existing uploads and existing targets (cascade)
LinksWellFormed ==
  \A l \in w.links : l.f \in Ids(w) /\ TargetExists(w, l.k, l.t)
\* an upload record is only ever owned by a user who proved who they are
OwnerAuthenticated == \A id \in Ids(w) : w.up[id].owner # Anon
=============================================================================
