-------------------------------- MODULE Files --------------------------------
(***************************************************************************)
(* C16 - the state machine over the operators of FilesCore and the         *)
(* property stated on it (design check U1: Files_gate / Files_kinds /      *)
(* Files_lifeA / Files_lifeB / Files_life .cfg, all DEV_* = FALSE).        *)
(***************************************************************************)
EXTENDS FilesCore

-----------------------------------------------------------------------------
(* State machine.  An operation is a record `o` (what is asked); Eff(o) is *)
(* its outcome in the current state.  `last` only remembers the operation  *)
(* (it labels generated histories); the design check runs with a VIEW that *)
(* leaves it out, and states every clause of the property as a predicate   *)
(* over *all* operations possible in the current state, so no clause       *)
(* depends on `last`.                                                      *)

VARIABLES w, gcs, nup, nmsg, last
vars == <<w, gcs, nup, nmsg, last>>
View == <<w, gcs, nup, nmsg>>
\* topics are interchangeable (Files_life.cfg declares them as model values and uses this symmetry)
TopicPerms == Permutations(Topics)

Init == /\ w = World0 /\ gcs = 0 /\ nup = 0 /\ nmsg = 0
        /\ last = [op |-> "init"]

ReqBase == [method : Methods, key : Keys, kplace : Places, cred : Creds, cplace : Places]

UploadReqs(id) ==
  {[method |-> b.method, key |-> b.key, kplace |-> b.kplace, cred |-> b.cred, cplace |-> b.cplace,
    size |-> sz, kind |-> kd, long |-> lg, newacc |-> na, fault |-> ft, bytes |-> Content(id)]
     : b \in ReqBase, sz \in Sizes, kd \in Kinds, lg \in LongVals, na \in NewaccVals, ft \in Faults}
SlowReqs(id) ==
  {[method |-> "POST", key |-> "valid", kplace |-> "header", cred |-> c, cplace |-> "header",
    size |-> "small", kind |-> kd, long |-> TRUE, newacc |-> FALSE, fault |-> "none", bytes |-> Content(id), partial |-> Partial(id)]
     : c \in {x \in Creds : CredUser(x) # Anon}, kd \in {x \in Kinds : x \notin {"nofile", "empty"}}}
DownloadReqs ==
  {[method |-> b.method, key |-> b.key, kplace |-> b.kplace, cred |-> b.cred, cplace |-> b.cplace,
    size |-> "small", newacc |-> FALSE, shape |-> sh, resolves |-> ShapeResolves(sh), target |-> tg, asatt |-> aa]
     \* (targets: ids that exist, existed or never existed; written with Ids(w) so that TLC does not expand the whole
     \*  product as a constant at start-up, which the history generator never needs)
     : b \in ReqBase, sh \in Shapes, tg \in Ids(w) \cup (1..MaxUp), aa \in AsattVals}

\* attachment lists: ids that exist, existed, or never existed; possibly a first URL that resolves to nothing
Ref(i, ok) == [id |-> i, resolves |-> ok]
RefLists == {<<>>} \cup {<<Ref(i, TRUE)>> : i \in 1..MaxUp}
              \cup {<<Ref(i, TRUE), Ref(j, TRUE)>> : i \in 1..MaxUp, j \in 1..MaxUp}
              \cup {<<Ref(i, FALSE), Ref(j, TRUE)>> : i \in 1..MaxUp, j \in 1..MaxUp}
RefListsU == {r \in RefLists : Len(r) < 2 \/ r[1].id < r[2].id \/ (~r[1].resolves /\ r[1].id = r[2].id)}

UploadOps == IF nup < MaxUp THEN {[op |-> "upload", id |-> nup + 1, a |-> r] : r \in UploadReqs(nup + 1)} ELSE {}
SlowOps == IF AllowSlow /\ nup < MaxUp THEN {[op |-> "uploadbegin", id |-> nup + 1, a |-> r] : r \in SlowReqs(nup + 1)} ELSE {}
EndOps == {[op |-> "uploadend", id |-> id] : id \in {i \in Ids(w) : InFlight(w, i)}}
DownloadOps == {[op |-> "download", a |-> r] : r \in DownloadReqs}
PubOps == IF nmsg < MaxMsg THEN {[op |-> "pub", m |-> nmsg + 1, t |-> t, refs |-> refs] : t \in w.topics, refs \in RefListsU} ELSE {}
AvatarOps == {[op |-> "avatar", k |-> "topic", t |-> t, refs |-> refs] : t \in Topics, refs \in RefListsU}
        \cup {[op |-> "avatar", k |-> "user", t |-> t, refs |-> refs] : t \in Users, refs \in RefListsU}
DelOps == {[op |-> "delmsg", m |-> m] : m \in DOMAIN w.msgs} \cup {[op |-> "softdel", m |-> m] : m \in DOMAIN w.msgs}
        \cup {[op |-> "deltopic", t |-> t] : t \in w.topics} \cup {[op |-> "deluser", t |-> u] : u \in w.users}
GcOps == IF gcs < MaxGc      \* MaxGc >= 99: any number of GC runs (not counted)
         THEN UNION {{[op |-> "gc", limit |-> lim, removed |-> R] : R \in GcChoices(w, lim)} : lim \in Limits}
         ELSE {}
TickOps == IF DoTick(w) # w THEN {[op |-> "tick"]} ELSE {}

\* operations that may change the world / all operations
WorldOps == UploadOps \cup SlowOps \cup EndOps \cup PubOps \cup AvatarOps \cup DelOps \cup GcOps
AllOps == WorldOps \cup DownloadOps \cup TickOps

\* outcome: the next world (and ok for link calls)
Eff(o) ==
  CASE o.op = "upload"      -> DoUpload(w, o.id, o.a)
    [] o.op = "uploadbegin" -> [w |-> DoUploadBegin(w, o.id, o.a)]
    [] o.op = "uploadend"   -> [w |-> DoUploadEnd(w, o.id)]
    [] o.op = "pub"         -> DoPub(w, o.m, o.t, o.refs)
    [] o.op = "avatar"      -> DoAvatar(w, o.k, o.t, o.refs)
    [] o.op = "delmsg"      -> [w |-> DoDelMsgHard(w, o.m)]
    [] o.op = "deltopic"    -> [w |-> DoDelTopic(w, o.t)]
    [] o.op = "deluser"     -> [w |-> DoDelUser(w, o.t)]
    [] o.op = "gc"          -> [w |-> DoGc(w, o.removed)]
    [] o.op = "tick"        -> [w |-> DoTick(w)]
    [] OTHER                -> [w |-> w]      \* download, softdel

Step(o) ==
  LET w2 == Eff(o).w IN
    /\ w' = w2
    /\ nup' = IF o.op \in {"upload", "uploadbegin"} /\ o.id \in Ids(w2) THEN o.id ELSE nup
    /\ nmsg' = IF o.op = "pub" THEN o.m ELSE nmsg
    /\ gcs' = IF o.op = "gc" /\ MaxGc < 99 THEN gcs + 1 ELSE gcs
    /\ last' = o

\* Every operation (used to generate histories for the real server).
NextFull == \E o \in AllOps : Step(o)
SpecFull == Init /\ [][NextFull]_vars

\* The design check only needs every reachable *world*: operations that cannot change the world (downloads, soft
\* deletion) are left out of the transition relation, and of the many upload requests one representative per
\* outcome is enough - StepOpsSuffice has TLC check exactly that in every state.  All clauses of the property
\* below quantify over the full operation sets.
StepUploadOps == {o \in UploadOps : /\ o.a.method = "POST" /\ o.a.key = "valid" /\ o.a.kplace = "header"
                                    /\ o.a.cplace = "header" /\ o.a.size = "small"}
StepOps == StepUploadOps \cup SlowOps \cup EndOps \cup PubOps \cup AvatarOps \cup (DelOps \ {o \in DelOps : o.op = "softdel"})
             \cup GcOps \cup TickOps
Next == \E o \in StepOps : Step(o)
Spec == Init /\ [][Next]_vars

-----------------------------------------------------------------------------
(* The property on the model: in every reachable state, for every          *)
(* operation that can be asked there.  Each clause is an operator over one *)
(* operation and its outcome; the named invariants quantify it over all    *)
(* operations; ReqClauses / LifeClauses are the same conjunctions computed *)
(* with one evaluation of each outcome per state (what the cfgs check; a   *)
(* failing clause prints its name).                                        *)

Statuses == {"started", "finished", "failed"}
TypeOK ==
  /\ Ids(w) \subseteq 1..MaxUp /\ DOMAIN w.disk \subseteq 1..MaxUp
  /\ \A id \in Ids(w) : w.up[id].st \in Statuses /\ w.up[id].owner \in Users \cup {Anon} /\ w.up[id].age \in 0..Grace
  /\ \A l \in w.links : l.f \in 1..MaxUp /\ l.k \in {"msg", "topic", "user"}
  /\ w.topics \subseteq Topics /\ w.users \subseteq Users /\ DOMAIN w.msgs \subseteq 1..MaxMsg

MustRefuse(ep, r) ==
  \/ ~Authorised(w, r)
  \/ r.method \notin Implemented(ep)
  \/ ep = "upload" /\ r.method \in {"POST", "PUT"} /\ r.size = "over"

\* ---- requests: r = the request, res = [w, resp] of an upload, resp of a download
\* no effect without a valid key and valid credentials; oversize and unimplemented methods refused; refusals have no effect
C_GateUpload(r, res) ==
  MustRefuse("upload", r) =>
     /\ res.w = w /\ res.resp.served = None /\ res.resp.url = 0
     /\ (r.method # "OPTIONS" => res.resp.status >= 400)
C_GateDownload(r, resp) ==
  MustRefuse("serve", r) => resp.served = None /\ (r.method # "OPTIONS" => resp.status >= 400)
\* an upload answered with a refusal left nothing behind (internal failures stay collectable: C_Unlinked...)
C_RefusedNoEffect(r, res) == res.resp.status >= 400 /\ r.fault = "none" => res.w = w
\* a download that serves anything serves the bytes and the type of the upload its URL names, saved-not-shown if active
C_DownloadExact(r, resp) ==
  resp.served # None =>
      /\ r.resolves /\ r.target \in Ids(w)
      /\ resp.served = w.up[r.target].bytes
      /\ resp.mime = w.up[r.target].mime
      /\ (MimeActive(resp.mime) => resp.disp)
\* ... and an authorised GET of a completed upload's own URL is served
C_DownloadServes(r, resp) ==
  ( /\ Gate(w, "serve", r) = 0 /\ r.method = "GET" /\ r.shape = "canon"
    /\ r.target \in Ids(w) /\ w.up[r.target].st = "finished" )
  => resp.status = 200 /\ resp.served = w.up[r.target].bytes
\* the type kept for an accepted upload is the one detected from its content
C_DetectedType(r, res) == \A id \in Ids(res.w) \ Ids(w) : res.w.up[id].mime = KindMime(r.kind)
\* forced attachment = active(mime) \/ asatt-true: active content is saved whatever asatt says, anything else
\* is saved exactly when the request asks for it
C_AttachmentIffActiveOrAsked(r, resp) ==
  resp.served # None => /\ (MimeActive(resp.mime) => resp.disp)
                        /\ (~MimeActive(resp.mime) => (resp.disp = AsattTrue(r.asatt)))
C_UrlNamesOnlyCompletedUpload(r, resp) ==
  resp.served # None => \E id \in Ids(w) : w.up[id].st = "finished" /\ id = r.target /\ resp.served = w.up[id].bytes

\* ---- world operations: o = the operation, e = Eff(o)
\* while an upload is linked, no operation removes or alters the record or the bytes
C_LinkedNeverCollected(o, e) ==
  \A id \in Ids(w) : Linked(w, id) =>
      /\ id \in Ids(e.w) /\ (o.op \notin {"uploadend", "tick"} => e.w.up[id] = w.up[id])
      /\ (id \in DOMAIN w.disk => id \in DOMAIN e.w.disk /\ (o.op # "uploadend" => e.w.disk[id] = w.disk[id]))
\* attachments listed with an accepted message / avatar update that name existing uploads are linked to it
C_ListedAreLinked(o, e) ==
  LET f == Fids(o.refs) IN
  o.op \in {"pub", "avatar"} /\ e.ok =>
     IF o.op = "pub" THEN \A i \in DOMAIN f : [f |-> f[i], k |-> "msg", t |-> MsgT(o.m)] \in e.w.links
     ELSE f # <<>> => [f |-> f[1], k |-> o.k, t |-> o.t] \in e.w.links
\* a link lasts as long as its message/topic/user (an avatar link: until the next avatar of the same topic/user)
C_LinkLastsAsLongAsTarget(o, e) ==
  \A l \in w.links : \/ l \in e.w.links
                     \/ ~TargetExists(e.w, l.k, l.t)
                     \/ (o.op = "avatar" /\ e.ok /\ o.k = l.k /\ o.t = l.t)
\* a GC run removes min(limit, n) of the n unlinked uploads older than the grace period, with their bytes
C_UnlinkedCollectedAfterGrace(o, e) ==
  o.op = "gc" =>
    LET C == Collectable(w)
        R == Ids(w) \ Ids(e.w)
    IN /\ R \subseteq C
       /\ Cardinality(R) = (IF o.limit > 0 THEN Min(o.limit, Cardinality(C)) ELSE Cardinality(C))
       /\ \A id \in R : id \notin DOMAIN e.w.disk
\* nothing else is ever removed or altered: records/bytes disappear only in a GC run and only if collectable
C_NothingElseRemoved(o, e) ==
  /\ \A id \in (Ids(w) \ Ids(e.w)) \cup ((DOMAIN w.disk) \ (DOMAIN e.w.disk)) : o.op = "gc" /\ id \in Collectable(w)
  /\ \A id \in Ids(w) \cap Ids(e.w) : o.op \notin {"uploadend", "tick"} => e.w.up[id] = w.up[id]
  /\ \A id \in (DOMAIN w.disk) \cap (DOMAIN e.w.disk) : o.op # "uploadend" => e.w.disk[id] = w.disk[id]

\* ---- quantified forms
UpOuts == {[r |-> r, res |-> DoUpload(w, nup + 1, r)] : r \in UploadReqs(nup + 1)}
DownOuts == {[r |-> r, resp |-> DoDownload(w, r)] : r \in DownloadReqs}
\* StepOpsSuffice: every upload request has the outcome of one of StepUploadOps or none, so LifeOps covers all of WorldOps
LifeOps == StepUploadOps \cup SlowOps \cup EndOps \cup PubOps \cup AvatarOps \cup DelOps \cup GcOps \cup TickOps
LifeOuts == {[o |-> o, e |-> Eff(o)] : o \in LifeOps}

GateBeforeEffect == (\A x \in UpOuts : C_GateUpload(x.r, x.res)) /\ (\A x \in DownOuts : C_GateDownload(x.r, x.resp))
RefusedNoEffect == \A x \in UpOuts : C_RefusedNoEffect(x.r, x.res)
DetectedType == \A x \in UpOuts : C_DetectedType(x.r, x.res)
DownloadExact == \A x \in DownOuts : C_DownloadExact(x.r, x.resp)
DownloadServes == \A x \in DownOuts : C_DownloadServes(x.r, x.resp)
AttachmentIffActiveOrAsked == \A x \in DownOuts : C_AttachmentIffActiveOrAsked(x.r, x.resp)
UrlNamesOnlyCompletedUpload == \A x \in DownOuts : C_UrlNamesOnlyCompletedUpload(x.r, x.resp)
LinkedNeverCollected == \A x \in LifeOuts : C_LinkedNeverCollected(x.o, x.e)
ListedAreLinked == \A x \in LifeOuts : C_ListedAreLinked(x.o, x.e)
LinkLastsAsLongAsTarget == \A x \in LifeOuts : C_LinkLastsAsLongAsTarget(x.o, x.e)
UnlinkedCollectedAfterGrace == \A x \in LifeOuts : C_UnlinkedCollectedAfterGrace(x.o, x.e)
NothingElseRemoved == \A x \in LifeOuts : C_NothingElseRemoved(x.o, x.e)

Named(name, x, ok) == ok \/ Print(<<"clause violated", name, x>>, FALSE)
ReqClauses ==
  /\ \A x \in UpOuts :
       /\ Named("GateBeforeEffect", x, C_GateUpload(x.r, x.res))
       /\ Named("RefusedNoEffect", x, C_RefusedNoEffect(x.r, x.res))
       /\ Named("DetectedType", x, C_DetectedType(x.r, x.res))
  /\ \A x \in DownOuts :
       /\ Named("GateBeforeEffect", x, C_GateDownload(x.r, x.resp))
       /\ Named("DownloadExact", x, C_DownloadExact(x.r, x.resp))
       /\ Named("DownloadServes", x, C_DownloadServes(x.r, x.resp))
       /\ Named("AttachmentIffActiveOrAsked", x, C_AttachmentIffActiveOrAsked(x.r, x.resp))
       /\ Named("UrlNamesOnlyCompletedUpload", x, C_UrlNamesOnlyCompletedUpload(x.r, x.resp))
  /\ Named("StepOpsSuffice", nup, nup < MaxUp => {x.res.w : x \in UpOuts} \subseteq {Eff(o).w : o \in StepUploadOps} \cup {w})
LifeClauses ==
  \A x \in LifeOuts :
     /\ Named("LinkedNeverCollected", x, C_LinkedNeverCollected(x.o, x.e))
     /\ Named("ListedAreLinked", x, C_ListedAreLinked(x.o, x.e))
     /\ Named("LinkLastsAsLongAsTarget", x, C_LinkLastsAsLongAsTarget(x.o, x.e))
     /\ Named("UnlinkedCollectedAfterGrace", x, C_UnlinkedCollectedAfterGrace(x.o, x.e))
     /\ Named("NothingElseRemoved", x, C_NothingElseRemoved(x.o, x.e))

\* everything unlinked is collectable once the grace period has passed: never linked, failed, lost its last link
RECURSIVE TickN(_, _)
TickN(ww, n) == IF n = 0 THEN ww ELSE TickN(DoTick(ww), n - 1)
UnlinkedBecomeCollectable ==
  \A id \in Ids(w) : ~Linked(w, id) => id \in Collectable(TickN(w, Grace))
\* bytes on disk always belong to a record (no leak), a finished record always has its bytes
DiskMatchesRecords ==
  /\ DOMAIN w.disk \subseteq Ids(w)
  /\ \A id \in Ids(w) : w.up[id].st = "finished" => id \in DOMAIN w.disk /\ w.disk[id] = w.up[id].bytes
\* links only point at existing uploads and existing targets (cascade)
LinksWellFormed ==
  \A l \in w.links : l.f \in Ids(w) /\ TargetExists(w, l.k, l.t)
\* an upload record is only ever owned by a user who proved who they are
OwnerAuthenticated == \A id \in Ids(w) : w.up[id].owner # Anon
StateClauses == TypeOK /\ UnlinkedBecomeCollectable /\ DiskMatchesRecords /\ LinksWellFormed /\ OwnerAuthenticated
=============================================================================
