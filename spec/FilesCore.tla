------------------------------ MODULE FilesCore ------------------------------
(***************************************************************************)
(* C16 - out-of-band files (tinode/chat: server/hdl_files.go,              *)
(* server/media/fs/filesys.go, server/media/media.go, server/http.go       *)
(* getAPIKey/getHttpAuth/authHttpRequest, server/api_key.go, the file      *)
(* methods of server/store/store.go and of the database adapter).          *)
(*                                                                         *)
(* The world `w` is what persists: upload records, stored bytes, links of  *)
(* uploads to messages/topics/users, and the messages/topics/users that    *)
(* exist.  Every handler / store call is one pure operator Do<X>(w, args)  *)
(* returning the next world and the answer, transcribed from the code in   *)
(* the order of its checks; the actions of the state machine apply these   *)
(* operators, and Monitor_C16 applies the very same operators to worlds    *)
(* observed on the real server (binding).                                  *)
(*                                                                         *)
(* DEV_* = TRUE is what the code does today, FALSE is what the property    *)
(* asks for.  The design check (U1) runs with all DEV_* = FALSE.           *)
(***************************************************************************)
EXTENDS Integers, Sequences, FiniteSets, TLC

CONSTANTS
  MaxUp,      \* upload records ever created (abstract ids 1..MaxUp, in creation order)
  MaxMsg,     \* messages ever published (ids 1..MaxMsg)
  Topics, Users,
  MaxGc, Grace,
  Methods, Keys, Creds, Places, Sizes, Kinds, Faults, Shapes, Limits, NewaccVals, AsattVals, LongVals,
  AllowSlow,  \* explore two-phase (in-flight) uploads
  DEV_NewaccNoAuth,          \* largeFileReceive: `uid.IsZero() && topic != "newacc"`: sign-up uploads need no credentials
  DEV_ServeUnfinished,       \* fs.Download does not look at FileDef.Status
  DEV_SniffPadded,           \* largeFileReceive:282-288 sniffs the whole 512-byte buffer, zero padding included: a file
                             \* shorter than 512 bytes that has no signature is never "text", the uploader's type is taken
  DEV_FinishFailLeavesBytes  \* largeFileReceive dereferences the nil FileDef returned by a failed FinishUpload:
                             \* the handler panics before its "best effort cleanup", the bytes stay

None == "none"
Anon == "anon"

Min(a, b) == IF a < b THEN a ELSE b
Put(f, k, v) == [x \in (DOMAIN f) \cup {k} |-> IF x = k THEN v ELSE f[x]]
Drop(f, ks) == [x \in (DOMAIN f) \ ks |-> f[x]]
EmptyFn == [x \in {} |-> 0]

-----------------------------------------------------------------------------
(* Request classes.                                                        *)

\* api_key.go checkAPIKey: 24 bytes, version 1, HMAC-MD5 over the first 8 bytes with the configured salt.
KeyOk(k) == k \in {"valid", "root"}

\* http.go authHttpRequest + the authenticators. Which user the credentials prove, or Anon.
CredUser(c) ==
  CASE c \in {"token", "sid"} -> "u1"
    [] c \in {"basic", "token2"} -> "u2"
    [] OTHER -> Anon          \* missing, unknownscheme, deadsid, anonsid and every failing one
\* Credentials that make authHttpRequest return an error (as-built status of decodeStoreError).
CredErr(c) ==
  CASE c \in {"garbage", "shorttoken", "nocolon"} -> 400                 \* ErrMalformed
    [] c \in {"expired", "badsig", "badserial", "wrongpw", "nologin"} -> 401  \* ErrExpired / ErrFailed
    [] OTHER -> 0
\* Login and password are checked against the user's auth record, which goes with the user (store.Users.Delete);
\* a signed token / a live session is accepted without looking the user up.
CredErrW(ww, c) == IF c \in {"basic", "wrongpw"} /\ "u2" \notin ww.users THEN 401 ELSE CredErr(c)
\* The property's notion: the request carries a valid API key and valid credentials.
Authorised(ww, r) == KeyOk(r.key) /\ CredUser(r.cred) # Anon /\ CredErrW(ww, r.cred) = 0

Implemented(ep) == IF ep = "upload" THEN {"POST", "PUT", "HEAD", "OPTIONS"} ELSE {"GET", "HEAD", "OPTIONS"}

\* hdl_files.go:207-210: the body is capped by MaxBytesReader *before* getAPIKey/FormValue parse the form:
\* form fields of an oversize request are never seen.
Hidden(ep, place, size) == ep = "upload" /\ place = "form" /\ size = "over"
CredSeen(ep, r) == IF Hidden(ep, r.cplace, r.size) THEN "missing" ELSE r.cred

\* The checks of largeFileServe:49-97 / largeFileReceive:181-233 in order. 0 = passed.
Gate(ww, ep, r) ==
  IF r.method = "OPTIONS" THEN 204                       \* preflight: answered before any security check
  ELSE IF r.method \notin Implemented(ep) THEN 405
  ELSE IF ~(KeyOk(r.key) /\ ~Hidden(ep, r.kplace, r.size)) THEN 403
  ELSE LET c == CredSeen(ep, r) IN
    IF CredErrW(ww, c) # 0 THEN CredErrW(ww, c)
    \* topic=newacc is a form field too: not seen in an oversize request
    ELSE IF CredUser(c) = Anon /\ ~(ep = "upload" /\ r.newacc /\ r.size # "over" /\ DEV_NewaccNoAuth) THEN 401
    ELSE 0

\* hdl_files.go:282-302: http.DetectContentType of the first 512 bytes, the part's own Content-Type only
\* when sniffing says application/octet-stream and the type starts with one of allowedMimeTypes.
KindMime(k) ==
  CASE k = "html"     -> "text/html; charset=utf-8"
    [] k = "xml"      -> "text/xml; charset=utf-8"
    [] k = "text"     -> "text/plain; charset=utf-8"
    [] k = "js"       -> "text/plain; charset=utf-8"
    [] k = "json"     -> "text/plain; charset=utf-8"
    [] k = "svg"      -> "text/xml; charset=utf-8"
    [] k = "pdf"      -> "application/pdf"
    [] k = "zip"      -> "application/zip"
    [] k = "png"      -> "image/png"
    [] k = "gif"      -> "image/gif"
    [] k = "jpeg"     -> "image/jpeg"
    [] k = "wav"      -> "audio/wave"
    [] k = "mp4"      -> "video/mp4"
    [] k = "bin"      -> "application/octet-stream"   \* part type application/octet-stream
    [] k = "bin_none" -> "application/octet-stream"   \* no part type
    [] k = "bin_msg"  -> "application/octet-stream"   \* part type message/rfc822: not allowed
    [] k = "bin_junk" -> "application/octet-stream"   \* part type does not parse
    [] k = "bin_html" -> "text/html"                  \* part type text/html
    [] k = "bin_svg"  -> "image/svg+xml"              \* part type image/svg+xml
    [] k = "bin_js"   -> "application/javascript"
    [] k = "bin_json" -> "application/json"
    [] k = "bin_png"  -> "image/png"                  \* part type image/png
    [] k = "bin_font" -> "font/woff2"
    [] OTHER          -> None
\* The type the uploader claims for the kinds above (Content-Type of the file part in the harness).
ClaimedMime(k) ==
  CASE k = "text" -> "text/plain"
    [] k = "js"   -> "image/gif"
    [] k = "json" -> "application/json"
    [] OTHER      -> KindMime(k)
\* What the handler records: r.long = the file has at least 512 bytes.
RecordedMime(r) ==
  IF DEV_SniffPadded /\ ~r.long /\ r.kind \in {"text", "js", "json"} THEN ClaimedMime(r.kind) ELSE KindMime(r.kind)
\* hdl_files.go:142-157 on the types above.
MimeActive(m) == m \notin {"image/png", "image/gif", "image/jpeg", "audio/wave", "video/mp4", "font/woff2"}

ShapeResolves(s) == s \in {"canon", "noext", "bare", "dot_in", "updown", "odd_tail", "query", "dblslash", "trailslash"}

-----------------------------------------------------------------------------
(* The world and the operators on it.                                      *)

World0 == [up |-> EmptyFn, disk |-> EmptyFn, links |-> {}, msgs |-> EmptyFn, topics |-> Topics, users |-> Users]

Ids(ww) == DOMAIN ww.up
Linked(ww, id) == \E l \in ww.links : l.f = id
\* age = ticks of the clock since the record was last written (FileDef.UpdatedAt), saturating at Grace
Collectable(ww) == {id \in Ids(ww) : ~Linked(ww, id) /\ ww.up[id].age >= Grace}
\* link targets are strings: "m<k>" for message k, the topic's / the user's name otherwise
MsgT(m) == "m" \o ToString(m)
TargetExists(ww, kind, t) ==
  CASE kind = "msg" -> \E m \in DOMAIN ww.msgs : MsgT(m) = t
    [] kind = "topic" -> t \in ww.topics
    [] kind = "user" -> t \in ww.users

Resp(st) == [status |-> st, served |-> None, mime |-> None, disp |-> FALSE, url |-> 0]
Content(id) == "b" \o ToString(id)
Partial(id) == "p" \o ToString(id)

\* largeFileReceive. `id` is the record id the request will use if it gets that far; r.bytes the file sent.
DoUpload(ww, id, r) ==
  LET g == Gate(ww, "upload", r)
      rec(st) == [owner |-> CredUser(CredSeen("upload", r)), st |-> st, age |-> 0,
                  bytes |-> r.bytes, mime |-> RecordedMime(r)]
      same(st) == [w |-> ww, resp |-> Resp(st)]
  IN
  IF g # 0 THEN same(g)
  ELSE IF r.method = "HEAD" THEN same(200)                                   \* :265
  ELSE IF r.size = "over" THEN same(413)                                     \* :271-276 "request body too large"
  ELSE IF r.kind = "nofile" THEN same(400)                                   \* :277 no part named "file"
  ELSE IF r.kind = "empty" THEN same(500)                                    \* :283 Read of an empty file: EOF
  ELSE CASE r.fault = "create" -> same(500)                                  \* fs.Upload: os.Create fails
         [] r.fault = "start"  -> same(500)                                  \* StartUpload fails: bytes removed
         [] r.fault = "finish" ->                                            \* FinishUpload(true) fails
              IF DEV_FinishFailLeavesBytes
              THEN [w |-> [ww EXCEPT !.up = Put(@, id, rec("started")), !.disk = Put(@, id, r.bytes)], resp |-> Resp(0)]
              ELSE [w |-> [ww EXCEPT !.up = Put(@, id, rec("started"))], resp |-> Resp(500)]
         [] OTHER -> [w |-> [ww EXCEPT !.up = Put(@, id, rec("finished")), !.disk = Put(@, id, r.bytes)],
                      resp |-> [Resp(200) EXCEPT !.url = id]]

\* An upload whose source is slow: fs.Upload has created the file and the 'started' record and is copying.
DoUploadBegin(ww, id, r) ==
  [ww EXCEPT !.up = Put(@, id, [owner |-> CredUser(r.cred), st |-> "started", age |-> 0,
                                 bytes |-> r.bytes, mime |-> RecordedMime(r)]),
             !.disk = Put(@, id, r.partial)]
InFlight(ww, id) == id \in Ids(ww) /\ ww.up[id].st = "started" /\ id \in DOMAIN ww.disk /\ ww.disk[id] # ww.up[id].bytes
DoUploadEnd(ww, id) ==
  [ww EXCEPT !.up[id].st = "finished", !.up[id].age = 0, !.disk[id] = ww.up[id].bytes]

\* hdl_files.go:143 `asAttachment, _ := strconv.ParseBool(req.URL.Query().Get("asatt"))`: r.asatt is the raw query
\* value ("<none>" = parameter absent, "<empty>" = `asatt=`); everything ParseBool does not accept counts as false.
AsattTrue(v) == v \in {"1", "t", "T", "TRUE", "true", "True"}

\* largeFileServe + fs.Download. r.resolves: GetIdFromUrl(url) yields the id of r.target (0 = no record has it).
DoDownload(ww, r) ==
  LET g == Gate(ww, "serve", r) IN
  IF g # 0 THEN Resp(g)
  ELSE IF r.method = "HEAD" THEN Resp(200)                                   \* :128 no lookup at all
  ELSE IF ~r.resolves \/ r.target \notin Ids(ww) THEN Resp(404)
  ELSE IF ~DEV_ServeUnfinished /\ ww.up[r.target].st # "finished" THEN Resp(404)
  ELSE IF r.target \notin DOMAIN ww.disk THEN Resp(404)
  ELSE LET m == ww.up[r.target].mime IN
       [status |-> 200, served |-> ww.disk[r.target], mime |-> m, disp |-> (AsattTrue(r.asatt) \/ MimeActive(m)), url |-> 0]

\* refs: sequence of [id, resolves]: the attachment list after mediaHandler.GetIdFromUrl.
Fids(refs) == LET s == SelectSeq(refs, LAMBDA x : x.resolves) IN [i \in DOMAIN s |-> s[i].id]

\* store.Messages.Save(msg, attachments, _): row first, then adp.FileLinkAttachments("", 0, msg, fids) in one tx.
DoPub(ww, m, t, refs) ==
  LET fids == Fids(refs)
      w1 == [ww EXCEPT !.msgs = Put(@, m, t)]
  IN IF fids = <<>> THEN [w |-> w1, ok |-> TRUE]
     ELSE IF \E i \in DOMAIN fids : fids[i] \notin Ids(ww) THEN [w |-> w1, ok |-> FALSE]   \* foreign key: whole tx rolled back
     ELSE [w |-> [w1 EXCEPT !.links = @ \cup {[f |-> fids[i], k |-> "msg", t |-> MsgT(m)] : i \in DOMAIN fids}], ok |-> TRUE]

\* store.Files.LinkAttachments(topic | usrXXX, 0, attachments): only the first id, replaces the previous link.
DoAvatar(ww, kind, t, refs) ==
  LET fids == Fids(refs) IN
  IF fids = <<>> THEN [w |-> ww, ok |-> TRUE]
  ELSE IF fids[1] \notin Ids(ww) \/ ~TargetExists(ww, kind, t) THEN [w |-> ww, ok |-> FALSE]
  ELSE [w |-> [ww EXCEPT !.links = {l \in @ : ~(l.k = kind /\ l.t = t)} \cup {[f |-> fids[1], k |-> kind, t |-> t]}],
        ok |-> TRUE]

\* store.Messages.DeleteList(topic, delId, 0, {seq}) - hard: content wiped, links dropped.
DoDelMsgHard(ww, m) ==
  [ww EXCEPT !.msgs = Drop(@, {m}), !.links = {l \in @ : ~(l.k = "msg" /\ l.t = MsgT(m))}]
\* store.Topics.Delete(topic, false, true): messages and links cascade.
DoDelTopic(ww, t) ==
  LET gone == {m \in DOMAIN ww.msgs : ww.msgs[m] = t} IN
  [ww EXCEPT !.topics = @ \ {t}, !.msgs = Drop(@, gone),
             !.links = {l \in @ : ~((l.k = "msg" /\ l.t \in {MsgT(m) : m \in gone}) \/ (l.k = "topic" /\ l.t = t))}]
\* store.Users.Delete(uid, true)
DoDelUser(ww, u) ==
  [ww EXCEPT !.users = @ \ {u}, !.links = {l \in @ : ~(l.k = "user" /\ l.t = u)}]
\* store.Files.DeleteUnused(olderThan, limit): records R and their bytes go.
DoGc(ww, R) == [ww EXCEPT !.up = Drop(@, R), !.disk = Drop(@, R)]
\* the clock passes one grace-period unit
DoTick(ww) == [ww EXCEPT !.up = [id \in DOMAIN @ |-> [@[id] EXCEPT !.age = Min(@ + 1, Grace)]]]
GcChoices(ww, limit) ==
  LET C == Collectable(ww)
      n == IF limit > 0 THEN Min(limit, Cardinality(C)) ELSE Cardinality(C)
  IN {R \in SUBSET C : Cardinality(R) = n}
=============================================================================
