\* as-built instance used to generate the histories replayed on the real server
CONSTANTS
  HLen = 14
  MaxUp = 3
  MaxMsg = 2
  Topics = {"t1", "t2"}
  Users = {"u1", "u2"}
  MaxGc = 99
  Grace = 1
  Methods = {"GET", "HEAD", "POST", "PUT", "DELETE", "OPTIONS"}
  Keys = {"valid", "missing", "wrongsalt"}
  Creds = {"token", "basic", "sid", "missing", "expired", "garbage", "deadsid"}
  Places = {"header", "query", "form", "cookie"}
  Sizes = {"small", "over"}
  Kinds = {"html", "text", "pdf", "png", "bin", "bin_svg", "bin_json", "jpeg"}
  Faults = {"none", "create", "start", "finish"}
  Shapes = {"canon", "noext", "bare", "dot_in", "dot_out", "absolute", "encslash", "odd_tail", "odd_head"}
  Limits = {1, 100}
  NewaccVals = {TRUE, FALSE}
  AsattVals = {"<none>", "<empty>", "0", "false", "f", "F", "1", "true", "T", "junk"}
  LongVals = {TRUE, FALSE}
  AllowSlow = TRUE
  DEV_NewaccNoAuth = TRUE
  DEV_ServeUnfinished = FALSE
  DEV_SniffPadded = FALSE
  DEV_FinishFailLeavesBytes = FALSE
INIT HInit
NEXT HNext
INVARIANT Emit
CHECK_DEADLOCK FALSE
