------------------------------ MODULE FilesHist ------------------------------
(***************************************************************************)
(* History generator for C16: random behaviours of Files (as built:        *)
(* DEV_* = TRUE in FilesHist.cfg) written as ndjson, one file per          *)
(* behaviour, each line one operation record (`last`).  The Go recorder    *)
(* replays them against the real handlers / store functions.               *)
(* Each step draws the kind of operation (weighted), then one operation of *)
(* that kind, with TLC's seeded RandomElement.                             *)
(***************************************************************************)
EXTENDS Files, Json

CONSTANT HLen
VARIABLE hist
hvars == <<w, gcs, nup, nmsg, last, hist>>

HInit == Init /\ hist = <<>>
Changes(o) == Eff(o).w # w
Serves(o) == DoDownload(w, o.a).served # None
\* One random operation per step: first its kind (weighted), then the operation, drawn component by component
\* with TLC's seeded RandomElement.  Random draws are bound by \E over singleton sets so that each is made once.
Rnd(S) == RandomElement(S)
RndBase(good) ==
  [method |-> Rnd(IF good THEN Methods \cap {"POST", "PUT", "GET"} ELSE Methods),
   key    |-> Rnd(IF good THEN {k \in Keys : KeyOk(k)} ELSE Keys),
   kplace |-> Rnd(Places),
   cred   |-> Rnd(IF good THEN {c \in Creds : CredUser(c) # Anon} ELSE Creds),
   cplace |-> Rnd(Places)]
RndUpload(good) ==
  LET b == RndBase(good) IN
  [method |-> IF good /\ b.method = "GET" THEN "POST" ELSE b.method, key |-> b.key, kplace |-> b.kplace,
   cred |-> b.cred, cplace |-> b.cplace,
   size |-> IF good THEN "small" ELSE Rnd(Sizes), kind |-> Rnd(Kinds), long |-> Rnd(LongVals), newacc |-> Rnd(NewaccVals),
   fault |-> IF good THEN (IF Rnd(1..6) = 1 /\ "finish" \in Faults THEN "finish" ELSE "none") ELSE Rnd(Faults), bytes |-> Content(nup + 1)]
RndDownload(good) ==
  LET b == RndBase(good)
      sh == Rnd(IF good THEN {x \in Shapes : ShapeResolves(x)} ELSE Shapes) IN
  [method |-> IF good THEN "GET" ELSE b.method, key |-> b.key, kplace |-> b.kplace, cred |-> b.cred, cplace |-> b.cplace,
   size |-> "small", newacc |-> FALSE, shape |-> sh, resolves |-> ShapeResolves(sh),
   target |-> Rnd(IF good /\ Ids(w) # {} THEN Ids(w) ELSE 1..MaxUp), asatt |-> Rnd(AsattVals)]
RndOps(k) ==
  CASE k \in 1..3 -> IF nup < MaxUp THEN {[op |-> "upload", id |-> nup + 1, a |-> RndUpload(TRUE)]} ELSE {}
    [] k = 4      -> IF nup < MaxUp THEN {[op |-> "upload", id |-> nup + 1, a |-> RndUpload(FALSE)]} ELSE {}
    [] k = 5      -> SlowOps \cup EndOps
    [] k \in 6..7 -> {[op |-> "download", a |-> RndDownload(TRUE)]}
    [] k = 8      -> {[op |-> "download", a |-> RndDownload(FALSE)]}
    [] k \in 9..10  -> {o \in PubOps : \A i \in DOMAIN o.refs : o.refs[i].id \in Ids(w)}
    [] k = 11      -> PubOps
    [] k \in 12..13 -> {o \in AvatarOps : \A i \in DOMAIN o.refs : o.refs[i].id \in Ids(w)}
    [] k = 14      -> AvatarOps
    [] k = 15     -> {o \in DelOps : o.op = "delmsg"}
    [] k = 16     -> DelOps
    [] k \in 17..19 -> GcOps
    [] k \in 20..21 -> TickOps
HNext ==
  /\ Len(hist) < HLen
  /\ \E k \in {Rnd(1..21)} : \E S \in {RndOps(k)} :
       IF S = {} THEN UNCHANGED hvars
       ELSE \E o \in {Rnd(S)} : Step(o) /\ hist' = Append(hist, o)
HSpec == HInit /\ [][HNext]_hvars

Emit == Len(hist) < HLen \/ ndJsonSerialize("c16_hist_" \o ToString(TLCGet("stats").traces) \o ".ndjson", hist)
=============================================================================
