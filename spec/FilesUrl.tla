------------------------------ MODULE FilesUrl ------------------------------
(***************************************************************************)
(* media.GetIdFromUrl (server/media/media.go:44-55) on URLs given as       *)
(* sequences of one-character strings:                                     *)
(*   dir, fname := path.Split(path.Clean(url))                             *)
(*   if dir != "" && dir != serveUrl { return ZeroUid }                    *)
(*   return ParseUid(regexp(`^[-_A-Za-z0-9]+`).FindString(fname))          *)
(* Names(url) is the 11-character id text that reaches ParseUid, or <<>>.  *)
(* (The whole string is cleaned, query included - that is what the code    *)
(* does with req.URL.String().)                                            *)
(***************************************************************************)
EXTENDS Integers, Sequences

IdChars == {"-", "_", "0", "1", "2", "3", "4", "5", "6", "7", "8", "9",
            "a", "b", "c", "d", "e", "f", "g", "h", "i", "j", "k", "l", "m", "n", "o", "p", "q", "r", "s", "t", "u", "v", "w", "x", "y", "z",
            "A", "B", "C", "D", "E", "F", "G", "H", "I", "J", "K", "L", "M", "N", "O", "P", "Q", "R", "S", "T", "U", "V", "W", "X", "Y", "Z"}

\* segments between slashes
RECURSIVE Segs(_, _, _)
Segs(s, i, cur) ==
  IF i > Len(s) THEN <<cur>>
  ELSE IF s[i] = "/" THEN <<cur>> \o Segs(s, i + 1, <<>>)
  ELSE Segs(s, i + 1, Append(cur, s[i]))

Dot == <<".">>
DotDot == <<".", ".">>

\* path.Clean: drop empty and "." elements, resolve ".." (a rooted path drops leading "..", a relative one keeps them)
RECURSIVE CleanSegs(_, _, _, _)
CleanSegs(segs, i, out, rooted) ==
  IF i > Len(segs) THEN out
  ELSE LET g == segs[i] IN
    IF g = <<>> \/ g = Dot THEN CleanSegs(segs, i + 1, out, rooted)
    ELSE IF g = DotDot THEN
      IF Len(out) > 0 /\ out[Len(out)] # DotDot THEN CleanSegs(segs, i + 1, SubSeq(out, 1, Len(out) - 1), rooted)
      ELSE IF rooted THEN CleanSegs(segs, i + 1, out, rooted)
      ELSE CleanSegs(segs, i + 1, Append(out, g), rooted)
    ELSE CleanSegs(segs, i + 1, Append(out, g), rooted)

RECURSIVE IdPrefix(_, _)
IdPrefix(s, i) == IF i <= Len(s) /\ s[i] \in IdChars THEN <<s[i]>> \o IdPrefix(s, i + 1) ELSE <<>>

ServeSegs == << <<"v", "0">>, <<"f", "i", "l", "e">>, <<"s">> >>    \* serve_url "/v0/file/s/"

Names(url) ==
  IF url = <<>> THEN <<>>                      \* Clean("") = ".": no id
  ELSE LET rooted == url[1] = "/"
           out == CleanSegs(Segs(url, 1, <<>>), 1, <<>>, rooted)
           n == Len(out)
       IN IF n = 0 THEN <<>>                   \* "/" or "."
          ELSE LET dirOk == \/ (~rooted /\ n = 1)                                   \* dir == ""
                            \/ (rooted /\ SubSeq(out, 1, n - 1) = ServeSegs)        \* dir == serveUrl
                   p == IdPrefix(out[n], 1)
               IN IF dirOk /\ Len(p) = 11 THEN p ELSE <<>>

\* hdl_files.go:142-154 on the served Content-Type, as characters
RECURSIVE HasAt(_, _, _)
HasAt(s, sub, i) == i + Len(sub) - 1 <= Len(s) /\ (SubSeq(s, i, i + Len(sub) - 1) = sub \/ HasAt(s, sub, i + 1))
Contains(s, sub) == HasAt(s, sub, 1)
StartsWith(s, sub) == Len(s) >= Len(sub) /\ SubSeq(s, 1, Len(sub)) = sub
\* the property's "active content": HTML, XML, text and application types
ActiveType(ct) ==
  \/ Contains(ct, <<"h", "t", "m", "l">>) \/ Contains(ct, <<"x", "m", "l">>)
  \/ StartsWith(ct, <<"t", "e", "x", "t", "/">>)
  \/ StartsWith(ct, <<"a", "p", "p", "l", "i", "c", "a", "t", "i", "o", "n", "/">>)
=============================================================================
