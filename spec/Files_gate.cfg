\* U1a: every request class against a small world (1 upload): the gate, sizes, kinds, URL shapes.
CONSTANTS
  MaxUp = 1
  MaxMsg = 0
  Topics = {}
  Users = {"u1", "u2"}
  MaxGc = 0
  MaxClock = 0
  Grace = 1
  Methods = {"GET", "HEAD", "POST", "PUT", "OPTIONS", "DELETE", "PATCH", "TRACE"}
  Keys = {"valid", "root", "missing", "wrongsalt", "malformed"}
  Creds = {"token", "basic", "sid", "missing", "garbage", "shorttoken", "expired", "badsig", "wrongpw", "unknownscheme", "deadsid", "anonsid"}
  Places = {"header", "query", "form", "cookie"}
  Sizes = {"small", "limit", "over"}
  Kinds = {"html", "xml", "text", "js", "pdf", "png", "bin", "bin_html", "bin_svg", "bin_msg", "nofile", "empty"}
  Faults = {"none"}
  Shapes = {"canon", "bare", "dot_in", "dot_out", "absolute", "encslash", "odd_tail", "odd_head"}
  Limits = {0}
  NewaccVals = {TRUE, FALSE}
  AsattVals = {TRUE, FALSE}
  AllowSlow = TRUE
  DEV_NewaccNoAuth = FALSE
  DEV_ServeUnfinished = FALSE
  DEV_FinishFailLeavesBytes = FALSE
SPECIFICATION Spec
INVARIANTS TypeOK DownloadExact DownloadServes UrlNamesOnlyCompletedUpload DiskMatchesRecords LinksWellFormed OwnerAuthenticated
PROPERTIES GateBeforeEffect LinkedNeverCollected NothingElseRemoved
CHECK_DEADLOCK FALSE
