\* U1a: every method x key x credentials x placement x size x sign-up flag against the worlds reachable with one upload.
CONSTANTS
  MaxUp = 1
  MaxMsg = 0
  Topics = {}
  Users = {"u1", "u2"}
  MaxGc = 0
  Grace = 1
  Methods = {"GET", "HEAD", "POST", "PUT", "OPTIONS", "DELETE", "PATCH", "TRACE"}
  Keys = {"valid", "root", "missing", "wrongsalt", "malformed"}
  Creds = {"token", "basic", "sid", "missing", "garbage", "shorttoken", "expired", "badsig", "wrongpw", "unknownscheme", "deadsid", "anonsid"}
  Places = {"header", "query", "form", "cookie"}
  Sizes = {"small", "limit", "over"}
  Kinds = {"html"}
  Faults = {"none"}
  Shapes = {"canon"}
  Limits = {100}
  NewaccVals = {TRUE, FALSE}
  AsattVals = {"<none>", "1", "0", "junk"}
  LongVals = {FALSE}
  AllowSlow = TRUE
  DEV_NewaccNoAuth = FALSE
  DEV_ServeUnfinished = FALSE
  DEV_SniffPadded = FALSE
  DEV_FinishFailLeavesBytes = FALSE
SPECIFICATION Spec
VIEW View
INVARIANTS StateClauses ReqClauses LifeClauses
CHECK_DEADLOCK FALSE
