\* U1b: every content kind, URL shape and upload failure (incl. slow uploads) against the worlds reachable with one upload and GC runs.
CONSTANTS
  MaxUp = 1
  MaxMsg = 0
  Topics = {}
  Users = {"u1"}
  MaxGc = 99
  Grace = 1
  Methods = {"GET", "POST"}
  Keys = {"valid", "missing"}
  Creds = {"token", "missing"}
  Places = {"header"}
  Sizes = {"small"}
  Kinds = {"html", "xml", "text", "js", "json", "svg", "pdf", "zip", "png", "gif", "jpeg", "wav", "mp4", "bin", "bin_none", "bin_msg", "bin_junk", "bin_html", "bin_svg", "bin_js", "bin_json", "bin_png", "bin_font", "nofile", "empty"}
  Faults = {"none", "create", "start", "finish"}
  Shapes = {"canon", "noext", "bare", "rel", "dot_in", "updown", "dot_out", "escape", "absolute", "encslash", "encdots", "odd_tail", "odd_head", "query", "queryslash", "dblslash"}
  Limits = {100}
  NewaccVals = {FALSE}
  AsattVals = {"<none>", "<empty>", "0", "false", "f", "F", "1", "true", "T", "junk"}
  LongVals = {TRUE, FALSE}
  AllowSlow = TRUE
  DEV_NewaccNoAuth = FALSE
  DEV_ServeUnfinished = FALSE
  DEV_SniffPadded = FALSE
  DEV_FinishFailLeavesBytes = FALSE
SPECIFICATION Spec
VIEW View
INVARIANTS StateClauses ReqClauses LifeClauses
CHECK_DEADLOCK FALSE
