\* U1b: life cycle, exhaustively: <= 3 uploads, <= 2 messages / topics / users, <= 2 GC runs.
CONSTANTS
  MaxUp = 3
  MaxMsg = 2
  Topics = {"t1", "t2"}
  Users = {"u1", "u2"}
  MaxGc = 2
  MaxClock = 3
  Grace = 1
  Methods = {"GET", "POST", "DELETE"}
  Keys = {"valid", "missing"}
  Creds = {"token", "missing"}
  Places = {"header"}
  Sizes = {"small", "over"}
  Kinds = {"html"}
  Faults = {"none", "start", "finish"}
  Shapes = {"canon", "dot_out"}
  Limits = {1, 100}
  NewaccVals = {TRUE, FALSE}
  AsattVals = {FALSE}
  AllowSlow = TRUE
  DEV_NewaccNoAuth = FALSE
  DEV_ServeUnfinished = FALSE
  DEV_FinishFailLeavesBytes = FALSE
SPECIFICATION Spec
INVARIANTS TypeOK DownloadExact DownloadServes UrlNamesOnlyCompletedUpload ListedAreLinked DiskMatchesRecords LinksWellFormed OwnerAuthenticated
PROPERTIES GateBeforeEffect LinkedNeverCollected LinkLastsAsLongAsTarget UnlinkedCollectedAfterGrace NothingElseRemoved
CHECK_DEADLOCK FALSE
