\* U1e (thorough tier): life cycle, exhaustively: <= 3 uploads, <= 2 messages / topics / users, any number of GC runs (topics symmetric).
CONSTANTS
  MaxUp = 3
  MaxMsg = 2
  Topics = {t1, t2}
  Users = {"u1", "u2"}
  MaxGc = 99
  Grace = 1
  Methods = {"GET", "POST"}
  Keys = {"valid", "missing"}
  Creds = {"token", "missing"}
  Places = {"header"}
  Sizes = {"small"}
  Kinds = {"html"}
  Faults = {"none"}
  Shapes = {"canon", "dot_out"}
  Limits = {1, 100}
  NewaccVals = {TRUE, FALSE}
  AsattVals = {"<none>"}
  LongVals = {FALSE}
  AllowSlow = FALSE
  DEV_NewaccNoAuth = FALSE
  DEV_ServeUnfinished = FALSE
  DEV_SniffPadded = FALSE
  DEV_FinishFailLeavesBytes = FALSE
SPECIFICATION Spec
VIEW View
SYMMETRY TopicPerms
INVARIANTS StateClauses ReqClauses LifeClauses
CHECK_DEADLOCK FALSE
