\* U1d: life cycle, exhaustively: 2 uploads x 1 message x 2 topics x 2 users, any number of GC runs.
CONSTANTS
  MaxUp = 2
  MaxMsg = 1
  Topics = {"t1", "t2"}
  Users = {"u1", "u2"}
  MaxGc = 99
  Grace = 1
  Methods = {"GET", "POST"}
  Keys = {"valid", "missing"}
  Creds = {"token", "missing"}
  Places = {"header"}
  Sizes = {"small"}
  Kinds = {"html"}
  Faults = {"none"}
  Shapes = {"canon", "dot_out"}
  Limits = {1, 100}
  NewaccVals = {TRUE, FALSE}
  AsattVals = {"<none>"}
  LongVals = {FALSE}
  AllowSlow = FALSE
  DEV_NewaccNoAuth = FALSE
  DEV_ServeUnfinished = FALSE
  DEV_SniffPadded = FALSE
  DEV_FinishFailLeavesBytes = FALSE
SPECIFICATION Spec
VIEW View
INVARIANTS StateClauses ReqClauses LifeClauses
CHECK_DEADLOCK FALSE
