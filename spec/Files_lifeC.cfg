\* U1f: life cycle with uploads whose FinishUpload fails (record pending, no bytes): 3 uploads x 1 message x 1 topic x 1 user, any number of GC runs.
CONSTANTS
  MaxUp = 3
  MaxMsg = 1
  Topics = {"t1"}
  Users = {"u1"}
  MaxGc = 99
  Grace = 1
  Methods = {"GET", "POST"}
  Keys = {"valid", "missing"}
  Creds = {"token", "missing"}
  Places = {"header"}
  Sizes = {"small"}
  Kinds = {"html"}
  Faults = {"none", "finish"}
  Shapes = {"canon", "dot_out"}
  Limits = {1, 100}
  NewaccVals = {TRUE, FALSE}
  AsattVals = {"<none>"}
  LongVals = {FALSE}
  AllowSlow = FALSE
  DEV_NewaccNoAuth = FALSE
  DEV_ServeUnfinished = FALSE
  DEV_SniffPadded = FALSE
  DEV_FinishFailLeavesBytes = FALSE
SPECIFICATION Spec
VIEW View
INVARIANTS StateClauses ReqClauses LifeClauses
CHECK_DEADLOCK FALSE
