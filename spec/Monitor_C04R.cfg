CONSTANTS
  DEV_NormalizeInclusive = FALSE
INIT Init
NEXT Next
CHECK_DEADLOCK FALSE
