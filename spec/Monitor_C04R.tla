---------------------------- MODULE Monitor_C04R ----------------------------
(* Verdict and binding for the pure part of C04 over vectors recorded from the REAL sort + RangeSorter.Normalize. *)
EXTENDS Ranges, Json, TLC
Vectors == ndJsonDeserialize("c04r_vectors.ndjson")
NV == Len(Vectors)
VARIABLES cur, bad, div
Check(v) ==
  (IF Union(v.out) # Union(v.raw) THEN {"NormalizeKeepsExactlyTheUnion"} ELSE {})
Diverge(v) ==
  (IF ~IsSorted(v.sorted) THEN {"sort"} ELSE {})
  \cup (IF IsSorted(v.sorted) /\ v.out # Normalize(v.sorted) THEN {"normalize"} ELSE {})
Init == cur = 0 /\ bad = {} /\ div = {}
Next == \E j \in 1..16 :
          LET k == 16 * cur + j IN
            /\ k <= NV
            /\ cur' = k
            /\ bad' = Check(Vectors[k])
            /\ div' = Diverge(Vectors[k])
=============================================================================
