CONSTANTS
  DEV_ParseStopsAtN = FALSE
  DEV_DeltaSingleCharNoop = FALSE
INIT Init
NEXT Next
CHECK_DEADLOCK FALSE
