----------------------------- MODULE Monitor_C05 -----------------------------
(***************************************************************************)
(* Verdict and binding for C05 over vectors recorded from the REAL         *)
(* AccessMode functions (c05_vectors.ndjson, written by the Go harness).   *)
(* `bad` = names of property-level laws that are false on this vector      *)
(* (the verdict); `div` = places where the real output differs from the    *)
(* as-built reference operators of AccessMode.tla (the binding).           *)
(* Vectors are visited as a 16-ary tree so that TLC's workers share them.  *)
(***************************************************************************)
EXTENDS AccessMode, Json, TLC

Vectors == ndJsonDeserialize("c05_vectors.ndjson")
NV == Len(Vectors)

VARIABLES cur, bad, div
vars == <<cur, bad, div>>

S(x) == ToSet(x)     \* JSON arrays arrive as tuples

\* ------------------------------------------------------------------ laws
Upcase(s) == [i \in DOMAIN s |-> Upper(s[i])]
OnlyBitLetters(s) == \A i \in DOMAIN s : Upper(s[i]) \in Bits

CheckRepr(v) ==
  LET m == S(v.m) IN
    (IF v.err THEN {"ReprNoError"} ELSE {})
    \cup (IF Mask(S(v.parsed)) # m THEN {"TextParsesBack"} ELSE {})
    \cup (IF S(v.viaText) # m THEN {"TextRoundTrip"} ELSE {})
    \cup (IF S(v.viaJSON) # m THEN {"JsonRoundTrip"} ELSE {})
    \cup (IF S(v.viaDB) # m THEN {"DbRoundTrip"} ELSE {})
    \cup (IF S(v.viaLower) # m THEN {"LowerCaseSame"} ELSE {})
    \cup (IF v.text # v.str THEN {"OneCanonicalText"} ELSE {})
    \* canonical: the reference parser maps the real text back to m, and no other text form is produced
    \cup (IF ~(Parse(v.text).ok /\ Mask(Parse(v.text).m) = m) THEN {"CanonicalTextMeansM"} ELSE {})
    \cup (IF m = None /\ v.text # <<"N">> THEN {"NoneIsN"} ELSE {})

CheckStringOnTarget(v, unknown) ==
  LET pre == S(v.pre)  post == S(v.post) IN
    (IF unknown /\ (v.ok \/ post # pre) THEN {"UnknownLetterRejected"} ELSE {})
    \cup (IF v.s = <<>> /\ (~v.ok \/ post # pre) THEN {"EmptyMeansNoChange"} ELSE {})
    \cup (IF ~v.ok /\ post # pre THEN {"RejectedLeavesTargetUnchanged"} ELSE {})

CheckUnmarshal(v) ==
  CheckStringOnTarget(v, HasUnknown(v.s))
    \cup (IF v.s # <<>> /\ OnlyBitLetters(v.s) /\ ~(v.ok /\ S(v.post) = S(Upcase(v.s))) THEN {"LettersAnyCase"} ELSE {})
    \cup (IF Upcase(v.s) = <<"N">> /\ ~(v.ok /\ S(v.post) = None) THEN {"NIsNone"} ELSE {})

CheckMutation(v) ==
  CheckStringOnTarget(v, HasUnknownDelta(v.s))
    \cup (IF ~HasSign(v.s) /\ v.s # <<>> /\ OnlyBitLetters(v.s) /\ ~(v.ok /\ S(v.post) = S(Upcase(v.s)))
          THEN {"LettersAnyCase"} ELSE {})

CheckApplyDelta(v) == CheckStringOnTarget(v, HasUnknownDelta(v.s))

CheckParse(v) ==
  (IF HasUnknown(v.s) /\ v.ok THEN {"UnknownLetterRejected"} ELSE {})

CheckDeltaApply(v) ==
  LET a == S(v.a)  b == S(v.b) IN
    (IF ~v.ok THEN {"DeltaApplies"} ELSE {})
    \cup (IF S(v.post) # b THEN {"DeltaAppliedToFirstYieldsSecond"} ELSE {})
    \cup (IF S(v.postMut) # b THEN {"DeltaViaMutationYieldsSecond"} ELSE {})
    \cup (IF (a = b) # (v.d = <<>>) THEN {"EmptyDeltaIffEqual"} ELSE {})

CheckTracker(v) ==
  (IF \E i \in DOMAIN v.steps : S(v.steps[i].fw) # Mask(S(v.steps[i].nw)) \/ S(v.steps[i].fg) # Mask(S(v.steps[i].ng))
   THEN {"FollowerTracksMaster"} ELSE {})

CheckEffective(v) ==
  (IF S(v.mode) # (S(v.want) \cap S(v.given)) THEN {"EffectiveIsIntersection"} ELSE {})

Check(v) ==
  CASE v.op = "repr"       -> CheckRepr(v)
    [] v.op = "parse"      -> CheckParse(v)
    [] v.op = "unmarshal"  -> CheckUnmarshal(v)
    [] v.op = "applydelta" -> CheckApplyDelta(v)
    [] v.op = "mutation"   -> CheckMutation(v)
    [] v.op = "deltaapply" -> CheckDeltaApply(v)
    [] v.op = "tracker"    -> CheckTracker(v)
    [] v.op = "effective"  -> CheckEffective(v)
    [] OTHER               -> {}

\* ------------------------------------------------------------------ binding (real = as-built reference)
DivStr(v, r) == IF v.ok # r.ok \/ S(v.post) # r.m THEN {v.op} ELSE {}

Diverge(v) ==
  CASE v.op = "repr"       -> IF v.text # Text(S(v.m)) THEN {"repr"} ELSE {}
    [] v.op = "text"       -> IF v.err # ~TextOk(S(v.m)) \/ (~v.err /\ v.text # Text(S(v.m))) THEN {"text"} ELSE {}
    [] v.op = "parse"      -> IF v.ok # Parse(v.s).ok \/ S(v.m) # Parse(v.s).m THEN {"parse"} ELSE {}
    [] v.op = "unmarshal"  -> DivStr(v, Unmarshal(S(v.pre), v.s))
    [] v.op = "applydelta" -> DivStr(v, ApplyDelta(S(v.pre), v.s))
    [] v.op = "mutation"   -> DivStr(v, ApplyMutation(S(v.pre), v.s))
    [] v.op = "deltaapply" -> IF v.d # Delta(S(v.a), S(v.b)) \/ v.bt # BetterThan(S(v.a), S(v.b)) \/ v.be # BetterEqual(S(v.a), S(v.b))
                              THEN {"deltaapply"} ELSE {}
    [] v.op = "tracker"    -> IF \E i \in DOMAIN v.steps :
                                    v.steps[i].dw # NotifyText(S(v.steps[i].ow), S(v.steps[i].nw))
                                 \/ v.steps[i].dg # NotifyText(S(v.steps[i].og), S(v.steps[i].ng))
                              THEN {"tracker"} ELSE {}
    [] OTHER               -> {}

Init == cur = 0 /\ bad = {} /\ div = {}
Next == \E j \in 1..16 :
          LET k == 16 * cur + j IN
            /\ k <= NV
            /\ cur' = k
            /\ bad' = Check(Vectors[k])
            /\ div' = Diverge(Vectors[k])
Spec == Init /\ [][Next]_vars
=============================================================================
