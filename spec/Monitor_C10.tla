----------------------------- MODULE Monitor_C10 -----------------------------
(***************************************************************************)
(* Verdict and binding for C10 over traces recorded from the REAL server   *)
(* (c10_trace.ndjson: the World trace projected onto the fields used here; *)
(* one record per step, record i = 0 opens a behaviour).                   *)
(* Every behaviour is walked sequentially (TLC's workers share the         *)
(* behaviours) with the history variable                                   *)
(*   told[o][c] = LAST presence a session of user o received on 'me'       *)
(*                about contact c ({pres what=on|off|gone}, or the online  *)
(*                flag of a {meta sub} entry), "off" before anything.      *)
(*   bad = monitors of the three clauses of C10 that are false on the REAL *)
(*         observation (the verdict)                                       *)
(*   div = components in which the real post-state differs from what       *)
(*         Presence.tla predicts from the real pre-state (the binding).    *)
(***************************************************************************)
EXTENDS PresenceSeq, Json, TLC, SequencesExt

CONSTANTS TopicNames     \* projected topic names: "me:u1", ..., group and p2p topics
Trace == ndJsonDeserialize("c10_trace.ndjson")
NT == Len(Trace)
Starts == {j \in 1..NT : Trace[j].i = 0}

VARIABLES k, told, bad, div
vars == <<k, told, bad, div>>

S2(x) == ToSet(x)
MeName(u) == "me:" \o u
NoTold == [u \in Users |-> [c \in Contacts |-> "off"]]

\* ------------------------------------------------------------------ rows
HasLetter(row, l) == row.st = "live" /\ l \in (S2(row.want) \cap S2(row.given))
HasP(row) == HasLetter(row, "P")
RowOf(rec, t, u) == rec.subs[t][u]
AttOf(rec, t) == S2(rec.att[t])
AttSess(rec, t) == {e.s : e \in AttOf(rec, t)}

\* ------------------------------------------------------------------ history: last told
\* the contact a topic name denotes for observer o: the peer for a p2p topic, the group itself
ContactFor(t, o) == IF t \in P2Ps THEN (IF o \in Ends[t] THEN Peer(t, o) ELSE "") ELSE IF t \in Groups THEN t ELSE ""
RECURSIVE MetaSub(_, _, _)
MetaSub(tl, o, subs) ==
  IF subs = <<>> THEN tl
  ELSE LET c == ContactFor(Head(subs).topic, o) IN
       MetaSub(IF c \in Contacts /\ c # o THEN [tl EXCEPT ![c] = IF Head(subs).online THEN "on" ELSE "off"] ELSE tl, o, Tail(subs))
FrameTold(tl, o, f) ==
  IF f.k = "pres" /\ f.topic = "me" /\ f.what \in {"on", "off", "gone"} /\ f.src \in Contacts /\ f.src # o
    THEN [tl EXCEPT ![f.src] = ToldOf(f.what)]
  ELSE IF f.k = "meta" /\ f.topic = "me" THEN MetaSub(tl, o, f.sub)
  ELSE tl
RECURSIVE FramesTold(_, _, _)
FramesTold(tl, o, fs) == IF fs = <<>> THEN tl ELSE FramesTold(FrameTold(tl, o, Head(fs)), o, Tail(fs))
RECURSIVE SessTold(_, _, _, _)
SessTold(tl, o, ss, rec) ==
  IF ss = <<>> THEN tl
  ELSE SessTold(IF SessUser[Head(ss)] = o THEN FramesTold(tl, o, rec.frames[Head(ss)]) ELSE tl, o, Tail(ss), rec)
\* a contact the observer holds no live subscription to is forgotten (a client drops the contact with the subscription)
LiveContact(rec, o, c) == IF c \in Groups THEN rec.subs[c][o].st = "live"
                          ELSE HasP2P(o, c) /\ rec.subs[P2POf(o, c)][o].st = "live"
Norm(tl, rec) == [o \in Users |-> [c \in Contacts |-> IF LiveContact(rec, o, c) THEN tl[o][c] ELSE "off"]]
ToldAfter(tl, rec) == Norm([o \in Users |-> SessTold(tl[o], o, SessOrder, rec)], rec)

\* ------------------------------------------------------------------ clause (2): never leaks
\* the topic a notification is about, as the recipient r sees it ("" = the recipient's own account / not a subscription topic)
SourceTopic(f, r) ==
  IF f.topic = "me"
  THEN IF f.src \in Users THEN (IF HasP2P(r, f.src) THEN P2POf(r, f.src) ELSE IF f.src = r THEN "" ELSE "?")
       ELSE IF f.src \in SubTopics THEN f.src
       ELSE IF f.src \in {"", "me"} THEN "" ELSE "?"
  ELSE IF f.topic \in SubTopics THEN f.topic ELSE ""
Exempt(f) == f.k = "pres" /\ f.what \in {"acs", "gone", "term"}
Entitled(pre, rec, t, r) == t \in SubTopics /\ (HasP(RowOf(pre, t, r)) \/ HasP(RowOf(rec, t, r)))
LeakTags(pre, rec) ==
  UNION {UNION {
     LET f == rec.frames[s][j]
         r == SessUser[s]
         t == SourceTopic(f, r) IN
     IF f.k \notin {"pres", "info"} \/ Exempt(f) \/ t = "" THEN {}
     ELSE IF t = "?" THEN {"NoLeak|stranger|" \o f.k \o "|" \o f.what \o "|" \o f.topic \o "|?|" \o s}
     ELSE IF Entitled(pre, rec, t, r) THEN {}
     ELSE LET cls == IF RowOf(rec, t, r).st # "live" /\ RowOf(pre, t, r).st # "live" THEN "notsubscribed"
                     ELSE IF ~HasLetter(RowOf(rec, t, r), "J") /\ ~HasLetter(RowOf(pre, t, r), "J") THEN "banned" ELSE "muted"
              mon == IF f.k = "info" /\ f.topic # "me" THEN "NoLeakInfoInTopic" ELSE "NoLeak"
          IN {mon \o "|" \o cls \o "|" \o f.k \o "|" \o f.what \o "|" \o (IF f.topic = "me" THEN "me" ELSE "topic") \o "|" \o t \o "|" \o s}
     : j \in DOMAIN rec.frames[s]} : s \in Sessions}

\* ------------------------------------------------------------------ clause (3): online counter
FgCount(rec, t, u) == Cardinality({e \in AttOf(rec, t) : e.u = u /\ ~e.dbg})
CountTags(rec) ==
  UNION {UNION {
     IF ~rec.loaded[t] THEN {}
     ELSE IF rec.online[t][u] < 0 THEN {"OnlineCountExact|negative|" \o t \o "|" \o u}
     ELSE IF rec.online[t][u] # FgCount(rec, t, u)
       THEN {"OnlineCountExact|" \o (IF rec.online[t][u] > FgCount(rec, t, u) THEN "over" ELSE "under") \o "|" \o t \o "|" \o u}
     ELSE {}
     : u \in Users} : t \in TopicNames}

\* ------------------------------------------------------------------ clause (1): converged at settled points
\* settled: every projected topic without an attached session is unloaded, nobody is still waiting for a background timer
SettledReal(rec) ==
  \A t \in TopicNames : /\ (rec.loaded[t] => AttOf(rec, t) # {})
                        /\ \A e \in AttOf(rec, t) : ~e.dbg
WatchingReal(rec, o) == rec.loaded[MeName(o)] /\ AttOf(rec, MeName(o)) # {}
MeOnlineReal(rec, u) == rec.loaded[MeName(u)] /\ \E e \in AttOf(rec, MeName(u)) : ~e.dbg
MeHasP(rec, u) == HasP(RowOf(rec, MeName(u), u))
ConvTags(rec, tl) ==
  IF ~SettledReal(rec) THEN {}
  ELSE UNION {UNION {
         LET u == Peer(p, o) IN
         IF /\ HasP(RowOf(rec, p, o)) /\ HasP(RowOf(rec, p, u)) /\ MeHasP(rec, o) /\ MeHasP(rec, u) /\ WatchingReal(rec, o)
            /\ ((tl[o][u] = "on") # MeOnlineReal(rec, u))
         THEN {"Converged|" \o (IF tl[o][u] = "on" THEN "stale_on" ELSE "missed_on") \o "|" \o p \o "|" \o o \o "|" \o u} ELSE {}
         : o \in Ends[p]} : p \in P2Ps}
       \cup UNION {UNION {
         IF /\ HasP(RowOf(rec, g, o)) /\ MeHasP(rec, o) /\ WatchingReal(rec, o)
            /\ ((tl[o][g] = "on") # (rec.loaded[g] /\ AttOf(rec, g) # {}))
         THEN {"Converged|" \o (IF tl[o][g] = "on" THEN "stale_on" ELSE "missed_on") \o "|" \o g \o "|" \o o \o "|" \o g} ELSE {}
         : o \in Users} : g \in Groups}

\* ------------------------------------------------------------------ clause (2), exceptions: acs / gone arrive REGARDLESS of P
\* A removal (the user's row of a topic stops being live: {del sub}, {del topic}, {leave unsub}, by anybody) reaches every
\* session of that user that is attached to 'me' as {pres me what=gone src=<contact>} exactly once; a permission change of a
\* live row reaches it as {pres what=acs} exactly once, on 'me' or (a session also attached to the topic) on the topic;
\* a new row (subscription, invitation) is announced by at least one {pres acs}. The session that made the request
\* is exempt (it has its {ctrl}). Whether the contact is enabled in the user's 'me' topic must not matter.
CountFrames(fs, Test(_)) == Cardinality({j \in DOMAIN fs : Test(fs[j])})
NoticeTags(pre, rec) ==
  LET req == rec.act.s IN
  UNION {UNION {
    LET r0 == RowOf(pre, t, u)  r1 == RowOf(rec, t, u)
        c == ContactOf(t, u)
        removed == r0.st = "live" /\ r1.st # "live"
        changed == r0.st = "live" /\ r1.st = "live" /\ (r0.want # r1.want \/ r0.given # r1.given)
        created == r0.st # "live" /\ r1.st = "live"
        watchers == {s \in SessOf(u) : s # req /\ s \in AttSess(pre, MeName(u)) /\ s \in AttSess(rec, MeName(u))}
        onMe(s, w) == CountFrames(rec.frames[s], LAMBDA f : f.k = "pres" /\ f.topic = "me" /\ f.src = c /\ f.what = w)
        onTopic(s, w) == IF s \in AttSess(pre, t)
                         THEN CountFrames(rec.frames[s], LAMBDA f : f.k = "pres" /\ f.topic = t /\ f.src \in {"", u} /\ f.what = w) ELSE 0
        tag(m, w, kd, s) == m \o "|" \o w \o "|" \o kd \o "|" \o t \o "|" \o u \o "|" \o s
    IN IF ~(t \in P2Ps => u \in Ends[t]) THEN {}
       ELSE UNION {
         (IF removed /\ onMe(s, "gone") = 0 THEN {tag("NoticeDelivered", "gone", "missing", s)} ELSE {})
         \cup (IF removed /\ onMe(s, "gone") > 1 THEN {tag("NoticeOnce", "gone", "dup", s)} ELSE {})
         \cup (IF (changed \/ created) /\ onMe(s, "acs") + onTopic(s, "acs") = 0 THEN {tag("NoticeDelivered", "acs", "missing", s)} ELSE {})
         \cup (IF changed /\ onMe(s, "acs") + onTopic(s, "acs") > 1 THEN {tag("NoticeOnce", "acs", "dup", s)} ELSE {})
         : s \in watchers}
    : u \in Users} : t \in SubTopics}

\* nothing else about a DISABLED contact: presence of a contact that the user's 'me' topic holds disabled before and after
\* the step is not forwarded (the P-based NoLeak above covers every other kind of notification)
DisabledTags(pre, rec) ==
  UNION {UNION {
     LET f == rec.frames[s][j]
         u == SessUser[s]
         dis(x) == x.me[u].loaded /\ f.src \in DOMAIN x.me[u].ps /\ ~x.me[u].ps[f.src].en IN
     IF f.k = "pres" /\ f.topic = "me" /\ f.what \in {"on", "off"} /\ f.src \in Contacts /\ dis(pre) /\ dis(rec)
     THEN {"NoLeak|disabled_contact|pres|" \o f.what \o "|me|" \o f.src \o "|" \o s} ELSE {}
     : j \in DOMAIN rec.frames[s]} : s \in Sessions}

\* "idle topics unloaded" must be reachable: when the harness fires the idle timer of a loaded topic without attached
\* sessions, the server must have armed that timer itself (otherwise the topic stays loaded, and online for its
\* members / the user's partners, for ever)
IdleTags(rec) ==
  IF rec.act.a = "Unload" /\ rec.idle.idle /\ ~rec.idle.armed THEN {"Converged|idle_timer_not_armed|" \o rec.idle.t \o "|-|-"} ELSE {}

\* ------------------------------------------------------------------ binding: Presence.tla from the real pre-state
TopOf(rec, tn, x) ==
  IF ~rec.loaded[tn] THEN OffTop
  ELSE [ph |-> "live", ann |-> rec.ann[tn], supd |-> rec.supd[tn], att |-> AttSess(rec, tn), pend |-> {}, cnt |-> [u \in Users |-> rec.online[tn][u]]]
PsOf(rec, u) ==
  [c \in Contacts |-> IF rec.me[u].loaded /\ c \in DOMAIN rec.me[u].ps THEN [l |-> TRUE, on |-> rec.me[u].ps[c].on, en |-> rec.me[u].ps[c].en]
                      ELSE NoEntry]
StateOf(rec, tl) ==
  [bg   |-> [s \in Sessions |-> rec.sess[s].bg],
   sub  |-> [t \in SubTopics |-> [u \in Users |-> [live |-> RowOf(rec, t, u).st = "live", P |-> HasP(RowOf(rec, t, u))]]],
   top  |-> [x \in Actors |-> IF x \in Users THEN TopOf(rec, MeName(x), x) ELSE TopOf(rec, x, x)],
   ps   |-> [u \in Users |-> PsOf(rec, u)],
   told |-> tl,
   zomb |-> [x \in Actors |-> NoZomb]]

SubTopicOrder == GroupOrder \o SetToSeq(P2Ps)
\* permission events of the step, read off the store rows (silent rows first)
RowEvents(pre, rec, a) ==
  LET actor == IF "s" \in DOMAIN a /\ a.s \in Sessions THEN SessUser[a.s] ELSE ""
      one(t, u) ==
        LET r0 == RowOf(pre, t, u)  r1 == RowOf(rec, t, u)
            l0 == r0.st = "live"  l1 == r1.st = "live" IN
        IF ~l0 /\ l1 THEN (IF t \in P2Ps /\ u # actor /\ a.a = "SetOther" THEN <<[k |-> "reinvite", t |-> t, u |-> u, p |-> HasP(r1)]>>
                           ELSE IF a.a = "NewGrp" \/ (t \in P2Ps /\ u # actor) THEN <<[k |-> "row", t |-> t, u |-> u, p |-> HasP(r1)]>>
                           ELSE <<[k |-> "new", t |-> t, u |-> u, p |-> HasP(r1)]>>)
        ELSE IF l0 /\ ~l1 THEN <<[k |-> "gone", t |-> t, u |-> u, p |-> FALSE]>>
        ELSE IF l0 /\ l1 THEN
             (IF HasP(r0) /\ ~HasP(r1) THEN <<[k |-> "mute", t |-> t, u |-> u, p |-> FALSE]>>
              ELSE IF ~HasP(r0) /\ HasP(r1) THEN <<[k |-> "unmute", t |-> t, u |-> u, p |-> TRUE]>> ELSE <<>>)
             \o (IF HasLetter(r0, "J") /\ ~HasLetter(r1, "J") THEN <<[k |-> "evict", t |-> t, u |-> u, p |-> FALSE]>> ELSE <<>>)
        ELSE <<>>
      all == FlattenSeq([i \in DOMAIN SubTopicOrder |-> FlattenSeq([j \in DOMAIN UserOrder |-> one(SubTopicOrder[i], UserOrder[j])])])
  IN SelectSeq(all, LAMBDA e : e.k = "row") \o SelectSeq(all, LAMBDA e : e.k # "row")

NoReplyKinds == {"Unload", "BgFire", "Disconnect", "Connect", "ConnectBg", "Note", "Nop"}
Modelled == {"Sub", "Leave", "NewGrp", "DelTopic", "Disconnect", "Connect", "ConnectBg", "BgFire", "Unload", "SetSelf", "SetOther", "DelSub",
             "Pub", "Note", "DelMsg", "SetDesc", "Get"}
Diverge(pre, rec, tlPre, tlPost) ==
  LET a == rec.act IN
  IF a.a \notin Modelled \/ rec.err # "" THEN {}
  ELSE LET ok == a.a \in NoReplyKinds \/ (rec.code >= 200 /\ rec.code < 300)
           fresh == a.a = "ConnectBg" /\ ~pre.sess[a.sess].live
           r == SeqStep(StateOf(pre, tlPre), a, RowEvents(pre, rec, a), [ok |-> ok, denied |-> rec.code = 403, fresh |-> fresh, tl |-> IF a.t \in TopicNames THEN pre.loaded[a.t] ELSE FALSE,
                                     noname |-> IF a.t \in P2Ps THEN S2(pre.noname[a.t]) ELSE {}])
           post == StateOf(rec, tlPost)
       IN (IF r.left # <<>> THEN {"fuel"} ELSE {})
          \cup (IF r.st.ps # post.ps THEN {"perSubs"} ELSE {})
          \cup (IF \E u \in Users : r.st.top[u] # post.top[u] THEN {"me"} ELSE {})
          \cup (IF \E g \in Groups : r.st.top[g] # post.top[g] THEN {"grp"} ELSE {})
          \cup (IF Norm(r.st.told, rec) # post.told THEN {"told"} ELSE {})
          \cup (IF r.st.bg # post.bg THEN {"bg"} ELSE {})

\* ------------------------------------------------------------------ walk
Init == /\ k \in Starts
        /\ told = ToldAfter(NoTold, Trace[k])
        /\ bad = CountTags(Trace[k])
        /\ div = {}
Next == /\ k < NT
        /\ Trace[k + 1].i # 0
        /\ LET pre == Trace[k]
               rec == Trace[k + 1]
               tl == ToldAfter(told, rec) IN
           /\ k' = k + 1
           /\ told' = tl
           /\ bad' = LeakTags(pre, rec) \cup CountTags(rec) \cup ConvTags(rec, tl) \cup IdleTags(rec) \cup NoticeTags(pre, rec) \cup DisabledTags(pre, rec)
           /\ div' = Diverge(pre, rec, told, tl)
=============================================================================
