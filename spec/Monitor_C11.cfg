CONSTANTS
  Validators = TRUE
  DEV_AccUnknownTmpNoReturn = TRUE
  DEV_NoteCallBadTopicPanics = TRUE
  DEV_DelTopicBadNamePanics = TRUE
  DEV_LeaveOboSilent = TRUE
INIT Init
NEXT Next
CHECK_DEADLOCK FALSE
