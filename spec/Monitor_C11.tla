----------------------------- MODULE Monitor_C11 -----------------------------
(***************************************************************************)
(* Verdict and binding for C11 over sequences recorded from the REAL       *)
(* server (c11_vectors.ndjson, one record per abstract message sequence    *)
(* sent on a fresh session: per message the reply frames, the projected    *)
(* Session.ver / uid / authLvl / attached topics after quiescence, and the *)
(* {data} delivered to the reader of the group topic).                     *)
(*   bad = clauses of the property (Session!Violated) that are false on a  *)
(*         REAL step (pre-state = the real projected state before it), or  *)
(*         on the follow-up probe {get me desc} sent after the sequence;   *)
(*   div = steps at which no outcome allowed by Session.tla (as built)     *)
(*         matches the real reply / state / delivery (binding only).       *)
(* Records are independent: 16-ary tree walk so TLC's workers share them.  *)
(***************************************************************************)
EXTENDS Session, Json

Vectors == ndJsonDeserialize("c11_vectors.ndjson")
NV == Len(Vectors)

VARIABLES cur, bad, div
vars == <<cur, bad, div>>

S(x) == {x[i] : i \in DOMAIN x}     \* JSON arrays arrive as tuples

ObsCodes(s) == {f.code : f \in S(s.fr)}
ObsIds(s)   == {f.id : f \in S(s.fr)}
ObsState(s) == [ver |-> s.ver, uid |-> s.uid, lvl |-> s.lvl, att |-> S(s.att)]
ObsDlv(s)   == {[from |-> d.from, sender |-> d.sender] : d \in S(s.rd)}
Pre(v, k)   == IF k = 1 THEN Proj(InitSt) ELSE ObsState(v.steps[k - 1])

\* ------------------------------------------------------------------ verdict
Tag(names, k) == {n \o "@" \o ToString(k) : n \in names}
\* the reply that handed the client its latest token before step k (real replies: tk = [has, code, user, lvl] of each step)
RECURSIVE PrevTk(_, _)
PrevTk(v, k) == IF k <= 1 THEN NoPtk
                ELSE LET s == v.steps[k - 1] IN
                  IF s.tk.has
                  THEN [code |-> s.tk.code, u |-> s.tk.user, l |-> s.tk.lvl,
                        \* restricted BY HISTORY (what the client presented), not by what the server wrote into the new token
                        r |-> s.m.k = "login" /\ (s.m.sec = "nologin" \/ (s.m.sec = "prev" /\ PrevTk(v, k - 1).r))]
                  ELSE PrevTk(v, k - 1)
StepBad(v, k) == LET s == v.steps[k] IN Violated(Pre(v, k), s.m, ObsCodes(s), ObsState(s), ObsDlv(s), PrevTk(v, k))

ProbeBad(v) ==
  IF ~v.probe.done THEN (IF ~v.died /\ (Len(v.steps) = 0 \/ ~v.steps[Len(v.steps)].panic) THEN {"PreLoginRefused@probe-unanswered"} ELSE {})
  ELSE LET last == Pre(v, Len(v.steps) + 1) IN
    (IF (last.ver = "0" \/ last.uid = "") /\ v.probe.code < 400 THEN {"PreLoginRefused@probe"} ELSE {})
    \cup (IF last.ver # "0" /\ last.uid # "" /\ ~(v.probe.code = 200 /\ v.probe.fn = last.uid) THEN {"ActsAsLoggedInUser@probe"} ELSE {})

Check(v) == UNION {Tag(StepBad(v, k), k) : k \in DOMAIN v.steps} \cup (IF v.died THEN {} ELSE ProbeBad(v))

\* ------------------------------------------------------------------ binding: the real step is one of the model's outcomes
Match(o, s) ==
  LET C == ObsCodes(s) IN
  /\ o.crash = s.panic
  /\ CASE o.rep.code = 0 -> C = {}
       [] o.rep.code = 1 -> C # {}
       [] o.rep.code = 2 -> C # {} /\ \E c \in C : c < 300
       [] o.rep.code = 3 -> C # {} /\ \A c \in C : c >= 300
       [] OTHER          -> C = {o.rep.code}
  /\ (IF o.rep.echo THEN ObsIds(s) \subseteq {s.rid} ELSE ObsIds(s) \subseteq {""})
  /\ Proj(o.st) = ObsState(s)
  /\ o.dlv = ObsDlv(s)
  \* the token the reply handed out: issuing code, owner, level AND its features as decoded from the real token bytes
  /\ (s.tk.has => /\ o.st.tok.code = s.tk.code /\ o.st.tok.u = s.tk.user /\ o.st.tok.l = s.tk.lvl
                  /\ o.st.tok.validated = s.tk.validated /\ o.st.tok.nologin = s.tk.nologin)

RECURSIVE Track(_, _, _)
Track(v, k, ms) ==
  IF k > Len(v.steps) THEN {}
  ELSE LET s == v.steps[k]
           cands == {o \in UNION {Dispatch(x, s.m) : x \in ms} : Match(o, s)}
       IN IF cands = {} THEN {"step" \o ToString(k)} ELSE Track(v, k + 1, {o.st : o \in cands})

\* a sequence during which the server process died: the model (as built) must predict a crash at that message
RECURSIVE Blind(_, _, _)
Blind(msgs, k, ms) == IF k = 0 THEN ms ELSE
  LET prev == Blind(msgs, k - 1, ms) IN {o.st : o \in UNION {Dispatch(x, msgs[k]) : x \in {y \in prev : ~y.crashed}}}
DiedDiv(v) ==
  IF v.at > Len(v.msgs) THEN {"death-at-probe"}
  ELSE IF \E x \in Blind(v.msgs, v.at - 1, {InitSt}) : \E o \in Dispatch(x, v.msgs[v.at]) : o.crash THEN {} ELSE {"death-not-predicted"}

\* sequences of the store-fault family (one adapter call of one message fails) are judged by the clauses only: Session.tla does not
\* model store failures, and every clause is a "never" (a fault may make a request fail, it may never make it grant more)
Faulted(v) == "fam" \in DOMAIN v /\ v.fam = "fault"
Diverge(v) == IF Faulted(v) THEN {} ELSE IF v.died THEN DiedDiv(v) ELSE Track(v, 1, {InitSt})

Init == cur = 0 /\ bad = {} /\ div = {}
Next == \E j \in 1..16 :
          LET k == 16 * cur + j IN
            /\ k <= NV
            /\ cur' = k
            /\ bad' = Check(Vectors[k])
            /\ div' = Diverge(Vectors[k])
Spec == Init /\ [][Next]_vars
=============================================================================
