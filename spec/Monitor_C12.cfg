CONSTANTS
  DEV_CodeNoAgeCheckOnGuess = TRUE
  DEV_LoginLowerNotFold = TRUE
  DEV_SerialTruncated16 = FALSE
  DEV_ApiKeyPanicsOnShortDecode = TRUE
  VectorsFile = "c12_vectors.ndjson"
INIT Init
NEXT Next
CHECK_DEADLOCK FALSE
