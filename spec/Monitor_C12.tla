----------------------------- MODULE Monitor_C12 -----------------------------
(***************************************************************************)
(* Verdict and binding for C12 over what the Go harness recorded from the   *)
(* REAL token / code / basic authenticators and checkAPIKey                 *)
(* (c12_vectors.ndjson).  Per record:                                       *)
(*   bad = property-level monitors that are false on the REAL outcome       *)
(*         (the verdict; "Name#i" = at step i of a recorded sequence)       *)
(*   div = places where the real outcome differs from what the as-built     *)
(*         operators of Auth.tla predict (the binding)                      *)
(* Records are visited as a 16-ary tree so that TLC's workers share them.   *)
(* Bytes arrive as tuples of integers; "the presented bytes are bit for bit *)
(* those of an issued token" is decided here by comparing the tuples.       *)
(***************************************************************************)
EXTENDS Auth, Json, TLC

CONSTANT VectorsFile     \* "c12_vectors.ndjson"
Vectors == ndJsonDeserialize(VectorsFile)
NV == Len(Vectors)

VARIABLES cur, bad, div
vars == <<cur, bad, div>>

At(name, i) == name \o "#" \o ToString(i)

\* ------------------------------------------------------------------ login token
\* [8:uid][4:expires][2:level][2:serial][2:features][32:signature], little endian; indices are 1-based
LE16(b, i) == b[i] + 256 * b[i + 1]
TokExp(b) == <<LE16(b, 11), LE16(b, 9)>>
\* the presented bytes carry, bit for bit, the signed fields and the signature of the issued token v.ref
IsIssuedBytes(v) == Len(v.tok) >= 50 /\ Len(v.ref) = 50 /\ SubSeq(v.tok, 1, 50) = v.ref

CheckToken(v) ==
  IF ~v.ok THEN {}
  ELSE (IF ~IsIssuedBytes(v) THEN {"AcceptOnlyIssued"} ELSE {})
    \cup (IF IsIssuedBytes(v) /\ (v.refKey # v.curKey \/ v.refSerial # v.curSerial)
            THEN {"AcceptOnlyCurrentKeyAndSerial"} ELSE {})
    \* expired already before the call started
    \cup (IF Len(v.tok) >= 50 /\ ~TBefore(v.nowLo, TokExp(v.tok)) THEN {"AcceptOnlyUnexpired"} ELSE {})
    \cup (IF IsIssuedBytes(v) /\ (v.ruid # v.iuid \/ v.rlvl # v.ilvl \/ v.rfeat # v.ifeat)
            THEN {"AcceptYieldsIssuedIdentity"} ELSE {})

\* Abstraction of the presented bytes for Accept: a signature is Sig(key, fields) exactly when the 50 bytes are
\* those of a token signed by the holder of `key` (injectivity of the MAC), garbage otherwise.
AbsTok(v) ==
  IF Len(v.tok) < 50
    THEN [shape |-> "short", uid |-> <<>>, exp |-> <<0, 0>>, lvl |-> 0, serial |-> 0, feat |-> 0, sig |-> <<"garbage">>]
    ELSE LET b == v.tok
             f == [shape |-> IF Len(b) = 50 THEN "full" ELSE "long", uid |-> SubSeq(b, 1, 8), exp |-> TokExp(b),
                   lvl |-> LE16(b, 13), serial |-> LE16(b, 15), feat |-> LE16(b, 17)]
         IN [shape |-> f.shape, uid |-> f.uid, exp |-> f.exp, lvl |-> f.lvl, serial |-> f.serial, feat |-> f.feat,
             sig |-> IF IsIssuedBytes(v) THEN Sig(v.refKey, TokFields(f)) ELSE <<"garbage">>]

DivToken(v) ==
  LET cfg == [key |-> v.curKey, serial |-> v.curSerial]
      lo == Accept(AbsTok(v), cfg, v.nowLo)     \* the clock read by Authenticate lies between nowLo and nowHi
      hi == Accept(AbsTok(v), cfg, v.nowHi)
  IN (IF v.cls \notin TokenClasses THEN {"token-class"} ELSE {})
     \cup (IF v.challenge THEN {"token-challenge"} ELSE {})
     \cup (IF lo.ok = hi.ok /\ lo.err = hi.err
             THEN IF v.ok # lo.ok \/ v.err # lo.err THEN {"token"}
                  ELSE IF v.ok /\ (v.rlvl # lo.lvl \/ v.rfeat # lo.feat \/ v.rexp # lo.exp \/ v.ruid # v.iuid)
                         THEN {"token-identity"} ELSE {}
             ELSE {})

\* The same token presented through the REAL authHttpRequest (header, query, cookie or form): only the user comes back.
CheckHttp(v) ==
  IF ~v.ok THEN {}
  ELSE (IF ~IsIssuedBytes(v) THEN {"AcceptOnlyIssued"} ELSE {})
    \cup (IF IsIssuedBytes(v) /\ (v.refKey # v.curKey \/ v.refSerial # v.curSerial)
            THEN {"AcceptOnlyCurrentKeyAndSerial"} ELSE {})
    \cup (IF Len(v.tok) >= 50 /\ ~TBefore(v.nowLo, TokExp(v.tok)) THEN {"AcceptOnlyUnexpired"} ELSE {})
    \cup (IF IsIssuedBytes(v) /\ v.ruid # v.iuid THEN {"AcceptYieldsIssuedIdentity"} ELSE {})

DivHttp(v) ==
  LET cfg == [key |-> v.curKey, serial |-> v.curSerial]
      lo == Accept(AbsTok(v), cfg, v.nowLo)
      hi == Accept(AbsTok(v), cfg, v.nowHi)
  IN (IF v.cls \notin TokenClasses THEN {"http-class"} ELSE {})
     \cup (IF v.challenge THEN {"http-challenge"} ELSE {})
     \cup (IF lo.ok = hi.ok /\ lo.err = hi.err /\ (v.ok # lo.ok \/ v.err # lo.err \/ (v.ok /\ v.ruid # v.iuid))
             THEN {"httpauth"} ELSE {})

\* ------------------------------------------------------------------ API key
\* [1:version][4:appid][2:sequence][1:isRoot][16:signature]
CheckKey(v) ==
  (IF v.out = "valid" /\ ~(~v.decErr /\ Len(v.ref) = 24 /\ v.dec = v.ref /\ v.refSalt = v.curSalt)
     THEN {"ApiKeyNeedsSalt"} ELSE {})
  \cup (IF v.root /\ ~(v.out = "valid" /\ Len(v.ref) = 24 /\ v.ref[8] = 1) THEN {"ApiKeyRootOnlyIfSigned"} ELSE {})

AbsKey(v) ==
  LET n == Len(v.dec)
      body == IF n >= 8 THEN <<v.dec[1], SubSeq(v.dec, 2, 5), SubSeq(v.dec, 6, 7), v.dec[8]>> ELSE <<0, 0, 0, 0>>
  IN [enc |-> IF (Len(v.txt) \div 4) * 3 # 24 THEN "badlen" ELSE IF v.decErr THEN "badb64" ELSE "ok",
      n |-> n, ver |-> IF n > 0 THEN v.dec[1] ELSE 0, body |-> body,
      sig |-> IF n = 24 /\ v.dec = v.ref THEN Sig(v.refSalt, body) ELSE <<"garbage">>]

DivKey(v) == LET p == CheckApiKey(AbsKey(v), v.curSalt) IN
               IF p.out # v.out \/ p.root # v.root THEN {"apikey"} ELSE {}

\* ------------------------------------------------------------------ reset code: one record = one sequence of steps
CodeCreds == {"c1", "c2"}
CodeInit == [pc |-> [c \in CodeCreds |-> NoEntry],
             hist |-> <<>>,                          \* per really issued code: [c, u, acc, wrongs], from REAL outcomes
             stand |-> [c \in CodeCreds |-> 0],      \* the code really issued last for the credential
             bad |-> {}, div |-> {}]

CodeStep(st, s, i, max) ==
  CASE s.a = "issue" ->
         LET r == CodeIssue(st.pc, s.c, s.u, IF s.id # 0 THEN s.id ELSE Len(st.hist) + 1) IN
           [pc |-> r.pc,
            hist |-> IF s.ok THEN Append(st.hist, [c |-> s.c, u |-> s.u, acc |-> 0, wrongs |-> 0]) ELSE st.hist,
            stand |-> IF s.ok THEN [st.stand EXCEPT ![s.c] = s.id] ELSE st.stand,
            bad |-> st.bad,
            div |-> st.div \cup (IF r.ok # s.ok \/ r.err # s.err \/ (s.ok /\ s.id # Len(st.hist) + 1)
                                   THEN {At("code-issue", i)} ELSE {})]
    [] s.a = "guess" ->
         LET r == CodeGuess(st.pc, s.c, s.gid, max)
             g == s.gid
             std == st.stand[s.c]
             b == IF ~s.ok THEN {}
                  ELSE IF g = 0 THEN {At("CodeAcceptOnlyIssued", i)}
                  ELSE IF st.hist[g].c # s.c THEN {At("CodeAcceptOnlyIssued", i)}
                  ELSE (IF st.hist[g].acc >= 1 THEN {At("CodeAtMostOnce", i)} ELSE {})
                    \cup (IF st.hist[g].wrongs >= max THEN {At("CodeDeadAfterMaxWrong", i)} ELSE {})
                    \cup (IF s.uid # st.hist[g].u \/ ~s.cred THEN {At("CodeAcceptYieldsIssuedUser", i)} ELSE {})
         IN [pc |-> r.pc,
             hist |-> IF s.ok /\ g # 0 THEN [st.hist EXCEPT ![g].acc = @ + 1]
                      ELSE IF ~s.ok /\ std # 0 /\ g # std THEN [st.hist EXCEPT ![std].wrongs = @ + 1]   \* a wrong guess
                      ELSE st.hist,
             stand |-> st.stand,
             bad |-> st.bad \cup b,
             div |-> st.div \cup (IF r.ok # s.ok \/ r.err # s.err
                                       \/ (r.ok /\ s.ok /\ (r.uid # s.uid \/ r.lvl # s.lvl \/ r.feat # s.feat))
                                    THEN {At("code-guess", i)} ELSE {})]
    [] OTHER -> [st EXCEPT !.pc = CodeAge(st.pc)]

RECURSIVE CodeRun(_, _, _, _)
CodeRun(steps, i, st, max) == IF i > Len(steps) THEN st ELSE CodeRun(steps, i + 1, CodeStep(st, steps[i], i, max), max)

\* ------------------------------------------------------------------ login + password: one record = one sequence
BasicInit == [recs |-> {},
              live |-> {},       \* accounts really created and not deleted: [u, fam, pw], from REAL outcomes
              bad |-> {}, div |-> {}]

BasicStep(st, s, i) ==
  CASE s.a = "add" ->
         LET r == BasicAdd(st.recs, s.u, s.l, s.p, LevelNone, s.life) IN
           [recs |-> r.recs,
            live |-> IF s.ok THEN st.live \cup {[u |-> s.u, fam |-> s.l.fam, pw |-> s.p.id]} ELSE st.live,
            \* a second account whose login differs from an existing one at most in letter case
            bad |-> st.bad \cup (IF s.ok /\ \E x \in st.live : x.fam = s.l.fam
                                   THEN {At("LoginCaseInsensitiveUnique", i)} ELSE {}),
            div |-> st.div \cup (IF r.ok # s.ok \/ r.err # s.err \/ (r.ok /\ s.ok /\ r.lvl # s.lvl)
                                   THEN {At("basic-add", i)} ELSE {})]
    [] s.a = "auth" ->
         LET r == BasicAuth(st.recs, s.l, s.p) IN
           [st EXCEPT
              !.bad = @ \cup (IF ~s.ok THEN {}
                              ELSE IF ~\E x \in st.live : x.fam = s.l.fam THEN {At("UnknownLoginNever", i)}
                              ELSE IF ~\E x \in st.live : x.fam = s.l.fam /\ x.pw = s.p.id THEN {At("WrongPasswordNever", i)}
                              ELSE IF ~\E x \in st.live : x.fam = s.l.fam /\ x.pw = s.p.id /\ x.u = s.uid
                                     THEN {At("AuthYieldsAccountUser", i)}
                              ELSE {}),
              !.div = @ \cup (IF r.ok # s.ok \/ r.err # s.err
                                   \/ (r.ok /\ s.ok /\ (r.uid # s.uid \/ r.lvl # s.lvl \/ r.feat # s.feat))
                                THEN {At("basic-auth", i)} ELSE {})]
    [] s.a = "update" ->
         LET r == BasicUpdate(st.recs, s.u, s.l, s.p, s.life) IN
           [recs |-> r.recs,
            live |-> IF s.ok
                       THEN {IF x.u = s.u THEN [x EXCEPT !.pw = s.p.id, !.fam = IF s.l.fam = "" THEN x.fam ELSE s.l.fam]
                                          ELSE x : x \in st.live}
                       ELSE st.live,
            bad |-> st.bad \cup (IF s.ok /\ s.l.fam # "" /\ \E x \in st.live : x.u # s.u /\ x.fam = s.l.fam
                                   THEN {At("LoginCaseInsensitiveUnique", i)} ELSE {}),
            div |-> st.div \cup (IF r.ok # s.ok \/ r.err # s.err THEN {At("basic-update", i)} ELSE {})]
    [] s.a = "unique" ->
         LET r == BasicIsUnique(st.recs, s.l) IN
           [st EXCEPT
              !.bad = @ \cup (IF s.ok /\ \E x \in st.live : x.fam = s.l.fam THEN {At("IsUniqueIgnoresCase", i)} ELSE {}),
              !.div = @ \cup (IF r.ok # s.ok \/ r.err # s.err THEN {At("basic-unique", i)} ELSE {})]
    [] s.a = "del" ->
         [st EXCEPT !.recs = BasicDel(st.recs, s.u),
                    !.live = IF s.ok THEN {x \in st.live : x.u # s.u} ELSE st.live,
                    !.div = @ \cup (IF ~s.ok THEN {At("basic-del", i)} ELSE {})]
    [] OTHER -> [st EXCEPT !.recs = BasicExpire(st.recs)]

RECURSIVE BasicRun(_, _, _)
BasicRun(steps, i, st) == IF i > Len(steps) THEN st ELSE BasicRun(steps, i + 1, BasicStep(st, steps[i], i))

\* ------------------------------------------------------------------ token exchange at login (Session.onLogin)
\* "Secrets cannot outlive their validity": a secret that cannot log in (temporary no-login token) or a login that still misses
\* credentials is answered with a token that expires no later than the presented one, still cannot log in, and does not authenticate
\* the session; a full login gets a token for the same user that lives at most the configured lifetime.
CheckExchange(v) ==
  (IF v.issued /\ ~v.issuedUid THEN {"ExchangeKeepsIdentity"} ELSE {})
  \cup (IF v.issued /\ (v.nologin \/ v.missing) /\ v.issuedExp > v.presentedExp THEN {"ExchangedTokenNeverOutlivesPresented"} ELSE {})
  \cup (IF v.issued /\ v.nologin /\ ~v.issuedNoLogin THEN {"NoLoginTokenStaysNoLogin"} ELSE {})
  \cup (IF (v.nologin \/ v.missing) /\ v.sessionAuthenticated THEN {"RestrictedSecretDoesNotAuthenticate"} ELSE {})
  \cup (IF v.issued /\ v.issuedExp > v.nowHi + v.expireIn THEN {"IssuedLifetimeWithinConfigured"} ELSE {})
\* what the code does beyond that (binding): a full login is authenticated and its token renewed to the configured lifetime
DivExchange(v) ==
  (IF ~v.issued THEN {"exchange-no-token"} ELSE {})
  \cup (IF ~v.nologin /\ ~v.missing /\ (~v.sessionAuthenticated \/ v.issuedExp < v.nowLo + v.expireIn - 1) THEN {"exchange-full-login"} ELSE {})
  \cup (IF v.missing /\ v.code # 300 THEN {"exchange-code"} ELSE {})

\* ------------------------------------------------------------------ dispatch
Result(v) ==
  CASE v.op = "token"  -> [bad |-> CheckToken(v), div |-> DivToken(v)]
    [] v.op = "httpauth" -> [bad |-> CheckHttp(v), div |-> DivHttp(v)]
    [] v.op = "apikey" -> [bad |-> CheckKey(v), div |-> DivKey(v)]
    [] v.op = "exchange" -> [bad |-> CheckExchange(v), div |-> DivExchange(v)]
    [] v.op = "code"   -> LET st == CodeRun(v.steps, 1, CodeInit, v.max) IN [bad |-> st.bad, div |-> st.div]
    [] v.op = "basic"  -> LET st == BasicRun(v.steps, 1, BasicInit) IN [bad |-> st.bad, div |-> st.div]
    \* bcrypt reads the first 72 bytes of a password (assumption of the check, observed here)
    [] v.op = "pw72"   -> [bad |-> IF v.changedWithin72Accepted THEN {"WrongPasswordNever"} ELSE {},
                           div |-> IF v.add72 # "" \/ v.add73 # "toolong" \/ ~v.suffixAccepted THEN {"pw72"} ELSE {}]
    [] v.op = "nocolon" -> [bad |-> IF v.auth = "" THEN {"UnknownLoginNever"} ELSE {},
                            div |-> IF v.auth # "malformed" \/ v.add # "malformed" THEN {"nocolon"} ELSE {}]
    [] OTHER -> [bad |-> {}, div |-> {"unknown-op"}]

Init == cur = 0 /\ bad = {} /\ div = {}
Next == \E j \in 1..16 :
          LET k == 16 * cur + j IN
            /\ k <= NV
            /\ cur' = k
            /\ LET r == Result(Vectors[k]) IN bad' = r.bad /\ div' = r.div
Spec == Init /\ [][Next]_vars
=============================================================================
