CONSTANTS
  Validators = TRUE
  DEV_AccUnknownTmpNoReturn = FALSE
  DEV_NoteCallBadTopicPanics = FALSE
  DEV_DelTopicBadNamePanics = FALSE
  TrackTok = TRUE
  DEV_LeaveOboSilent = FALSE
INIT Init
NEXT Next
CHECK_DEADLOCK FALSE
