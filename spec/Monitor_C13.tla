----------------------------- MODULE Monitor_C13 -----------------------------
(***************************************************************************)
(* Verdict and binding for C13 over inputs sent to the REAL server running *)
(* in child processes (c13_vectors.ndjson).  One record per input:         *)
(*   op = "input":   the abstract message m (k = "-" for raw byte strings  *)
(*                   and free-form mutants), the demand override dem /     *)
(*                   stage given by the input generator for inputs whose   *)
(*                   class it knows by construction ("" = ask Session.tla),*)
(*                   the projected session state before the input, the     *)
(*                   reply frames fr = <<[k, code, id]>>, alive (the child *)
(*                   process survived the input), panic/confirmed (a panic *)
(*                   on the session goroutine was recovered by the harness;*)
(*                   confirmed = "died" when the same input killed a child *)
(*                   that does not recover, like the real read loop),      *)
(*                   hung, by = bystander {get desc me} result;            *)
(*   op = "preview": a message content rendered by the real push payload   *)
(*                   code (drafty.PlainText / drafty.Preview).             *)
(* bad = property-level monitors false on the REAL observation;            *)
(* div = the real reply is none of the outcomes Session.tla (as built)     *)
(*       allows for an un-mutated abstract message (binding).              *)
(***************************************************************************)
EXTENDS Session, Json

Vectors == ndJsonDeserialize("c13_vectors.ndjson")
NV == Len(Vectors)

VARIABLES cur, bad, div
vars == <<cur, bad, div>>

S(x) == {x[i] : i \in DOMAIN x}

\* the model state the observed projection stands for (attachments are the session's own)
ModelSt(p) == [ver |-> p.ver, uid |-> p.uid, lvl |-> p.lvl, att |-> {[t |-> x, u |-> p.uid] : x \in S(p.att)},
               rst |-> FALSE, tok |-> NoTok, crashed |-> FALSE]

Dem(v)   == IF v.dem # "" THEN v.dem ELSE Demand(ModelSt(v.pre), v.m)
Stage(v) == IF v.stage # "" THEN v.stage ELSE IF HandlerStage(ModelSt(v.pre), v.m) THEN "handler" ELSE "pre"

Codes(v)   == {f.code : f \in {g \in S(v.fr) : g.k # "raw"}}
\* the codes that answer THIS request: those of the frames echoing its id when there are any (a frame without id may be the late
\* answer to an earlier id-less request), otherwise all
OwnCodes(v) == LET own == {f.code : f \in {g \in S(v.fr) : g.k # "raw" /\ g.id = v.rid}} IN
               IF v.rid # "" /\ own # {} THEN own ELSE Codes(v)
Ids(v)     == {f.id : f \in {g \in S(v.fr) : g.k # "raw"}}
Dead(v)    == ~v.alive \/ (v.panic /\ v.confirmed # "survived")

CheckInput(v) ==
  (IF Dead(v) THEN {"ProcessAlive"} ELSE {})
  \cup (IF v.hung THEN {"RequestAnswered"} ELSE {})
  \cup (IF v.by.done /\ v.by.code # 200 THEN {"BystanderServed"} ELSE {})
  \cup (IF Dead(v) \/ v.hung THEN {} ELSE
          \* every request other than a note that carries an id is answered by at least one reply; so is every request that
          \* is malformed / unauthorised / out of sequence / ill-addressed, with or without an id
          (IF v.fr = <<>> /\ (Dem(v) = "err" \/ (Dem(v) = "reply" /\ v.rid # "")) THEN {"RequestAnswered"} ELSE {})
          \* malformed / unauthorised / out-of-sequence / ill-addressed requests get an error code (3xx where the model says so)
          \cup (IF Dem(v) = "err" /\ v.fr # <<>> /\ (\E c \in OwnCodes(v) : c < 300) THEN {"BadRequestGetsErrorCode"} ELSE {})
          \* replies echo the request id: no reply carries a foreign id, and a handler-stage reply carries the request's
          \cup (IF \E id \in Ids(v) : id \notin {"", v.rid} THEN {"ReplyEchoesId"} ELSE {})
          \cup (IF Stage(v) = "handler" /\ v.rid # "" /\ Codes(v) # {} /\ v.rid \notin Ids(v) THEN {"ReplyEchoesId"} ELSE {}))

\* op = "race": session A's {sub} (id arid) was held inside topicInit while session B sent requests (ids brids) for the same
\* topic; afr / bfr = the {ctrl}/{meta} frames A and B received.  Every request with an id is answered with ITS id, and
\* nobody receives a reply carrying an id that is not its own.
FrIds(fr) == {f.id : f \in {g \in S(fr) : g.k # "raw"}}
CheckRace(v) ==
  (IF ~v.alive \/ v.panic THEN {"ProcessAlive"} ELSE {})
  \cup (IF v.hung THEN {"RequestAnswered"} ELSE {})
  \cup (IF ~v.alive \/ v.panic \/ v.hung THEN {} ELSE
          (IF v.arid \notin FrIds(v.afr) \/ (\E r \in S(v.brids) : r \notin FrIds(v.bfr)) THEN {"RequestAnswered"} ELSE {})
          \cup (IF (\E id \in FrIds(v.afr) : id \notin {"", v.arid}) \/ (\E id \in FrIds(v.bfr) : id \notin ({""} \cup S(v.brids)))
                THEN {"ReplyEchoesId"} ELSE {}))

Check(v) == CASE v.op = "input"   -> CheckInput(v)
              [] v.op = "race"    -> CheckRace(v)
              [] v.op = "preview" -> (IF v.panic THEN {"ProcessAlive"} ELSE {}) \cup (IF v.hung THEN {"RequestAnswered"} ELSE {})
              [] OTHER            -> {}

\* ------------------------------------------------------------------ binding
CodeMatch(o, v) ==
  LET C == Codes(v) IN
  /\ o.crash = v.panic
  /\ CASE o.rep.code = 0 -> C = {}
       [] o.rep.code = 1 -> C # {}
       [] o.rep.code = 2 -> C # {} /\ \E c \in C : c < 300
       [] o.rep.code = 3 -> C # {} /\ \A c \in C : c >= 300
       [] OTHER          -> C = {o.rep.code}

Diverge(v) ==
  IF v.op # "input" \/ v.src # "model" \/ v.hung THEN {}
  ELSE IF ~v.alive THEN {}      \* the pre-state of an input that killed the process is not known to the parent
  ELSE IF \E o \in Dispatch(ModelSt(v.pre), v.m) : CodeMatch(o, v) THEN {} ELSE {"model"}

Init == cur = 0 /\ bad = {} /\ div = {}
Next == \E j \in 1..16 :
          LET k == 16 * cur + j IN
            /\ k <= NV
            /\ cur' = k
            /\ bad' = Check(Vectors[k])
            /\ div' = Diverge(Vectors[k])
Spec == Init /\ [][Next]_vars
=============================================================================
