----------------------------- MODULE Monitor_C14 -----------------------------
(***************************************************************************)
(* Verdict and binding for C14 over what engine E2 recorded from the REAL  *)
(* server (c14_vectors.ndjson, reshaped from the recorder's output by      *)
(* tools/props/c14.py without judging anything):                           *)
(*   k = "sess"  one session's history: requests (with `ret` = dispatch    *)
(*               returned to the read loop), {ctrl} replies, "gone"        *)
(*               notices, how it ended, whether cleanUp returned           *)
(*   k = "snap"  the attachment tables at a quiescent point: every         *)
(*               session's Session.subs, every loaded topic's              *)
(*               Topic.sessions and perUser.online, the session registry,  *)
(*               the deleted topics                                        *)
(*   k = "run"   goroutines parked inside server code at the end, clients  *)
(*               whose read loop never came back                           *)
(*   k = "race"  one race-detector report (two access sites)               *)
(*   k = "crash" an unrecovered panic / fatal error in SERVER code that    *)
(*               killed the process while the histories ran               *)
(* `bad` = names of property-level monitors false on the observation (the  *)
(* verdict); `div` = observations Attach.tla cannot produce (binding).     *)
(* Vectors are visited as a 16-ary tree so that TLC's workers share them.  *)
(***************************************************************************)
EXTENDS Integers, Sequences, FiniteSets, Json, TLC

Vectors == ndJsonDeserialize("c14_vectors.ndjson")
NV == Len(Vectors)

VARIABLES cur, bad, div
vars == <<cur, bad, div>>

S(x) == {x[i] : i \in DOMAIN x}      \* JSON arrays arrive as tuples
Tracked == {"sub", "leave", "unsub", "deltopic", "deluser"}   \* "every subscribe, leave and delete request"
Success(c) == c >= 200 /\ c < 300

\* ------------------------------------------------------------------ one session's history
IsReq(e) == e.e = "req"
\* the reply to request ev[i]: a {ctrl} with its id; a leave may be answered by the eviction notice for that topic alone
AnsweredAt(ev, i, j) ==
  /\ j > i /\ ev[j].e = "ctrl"
  /\ \/ ev[j].id = ev[i].id
     \/ ev[i].kind \in {"leave", "unsub"} /\ ev[j].text = "evicted" /\ ev[j].t = ev[i].t
Answered(ev, i) == \E j \in DOMAIN ev : AnsweredAt(ev, i, j)

\* every sub/leave/del request the server took from a session that stayed connected is answered
RequestAnswered(v) ==
  v.live => \A i \in DOMAIN v.ev :
     (IsReq(v.ev[i]) /\ v.ev[i].kind \in Tracked /\ v.ev[i].ret) => Answered(v.ev, i)
\* request bookkeeping never blocks a session: dispatch comes back to the read loop for every message
DispatchReturns(v) == \A i \in DOMAIN v.ev : IsReq(v.ev[i]) => v.ev[i].ret
\* ... and cleanUp of a terminated session returns
CleanupReturns(v) == v.clean # 1
\* requests made after a topic's deletion was acknowledged are refused
DeletedTopicRefuses(v) ==
  \A i \in DOMAIN v.ev :
     (IsReq(v.ev[i]) /\ v.ev[i].ad # "" /\ v.ev[i].kind \in {"sub", "leave", "unsub", "pub"}) =>
        ~\E j \in DOMAIN v.ev : j > i /\ v.ev[j].e = "ctrl" /\ v.ev[j].id = v.ev[i].id /\ Success(v.ev[j].code)
\* a session attached to a deleted group topic (and to `me`, where the notice travels) is told the topic is gone
DeletedTopicNotified(v) ==
  \A x \in S(v.gone) :
     \E j \in DOMAIN v.ev : /\ v.ev[j].seq > x.after
                            /\ \/ v.ev[j].e = "pres" /\ v.ev[j].text = "gone" /\ v.ev[j].src = x.t
                               \/ v.ev[j].e = "ctrl" /\ v.ev[j].text = "evicted" /\ v.ev[j].t = x.t

\* after a store fault failed a request, the quiet probe (leave by everybody attached, later a {sub} by a member) gets
\* normal replies: px = "ok" -> 200/304; px = "norm" -> answered, not 503 and not a server error
ProbeAfterFault(v) ==
  \A i \in DOMAIN v.ev :
     (IsReq(v.ev[i]) /\ v.ev[i].px # "") =>
        \E j \in DOMAIN v.ev : /\ j > i /\ v.ev[j].e = "ctrl" /\ v.ev[j].id = v.ev[i].id
                                /\ (v.ev[i].px = "ok" => v.ev[j].code \in {200, 304})
                                /\ (v.ev[i].px = "norm" => v.ev[j].code < 500)

CheckSess(v) ==
  (IF ~RequestAnswered(v) THEN {"RequestAnswered"} ELSE {})
  \cup (IF ~DispatchReturns(v) THEN {"DispatchReturns"} ELSE {})
  \cup (IF ~CleanupReturns(v) THEN {"CleanupReturns"} ELSE {})
  \cup (IF ~DeletedTopicRefuses(v) THEN {"DeletedTopicRefuses"} ELSE {})
  \cup (IF ~DeletedTopicNotified(v) THEN {"DeletedTopicNotified"} ELSE {})
  \cup (IF ~ProbeAfterFault(v) THEN {"ProbeAfterFault"} ELSE {})

\* ------------------------------------------------------------------ a quiescent snapshot
Att(v, t) == UNION {S(x.att) : x \in {y \in S(v.topics) : y.t = t /\ y.active}}
LoadedTopics(v) == {x.t : x \in S(v.topics)}
\* a session lists a topic iff the topic lists the session
AttachSymmetry(v) ==
  \A s \in S(v.sess) : s.live =>
     /\ \A t \in S(s.subs) : s.name \in Att(v, t)
     /\ \A x \in S(v.topics) : (x.active /\ s.name \in S(x.att)) => x.t \in S(s.subs)
\* a terminated session is attached nowhere and is not registered any more
TerminatedDetached(v) ==
  \A s \in S(v.sess) : ~s.live =>
     /\ \A x \in S(v.topics) : s.name \notin S(x.att)
     /\ s.clean = 2 => s.name \notin S(v.registry)
\* online counters equal the number of attached foreground sessions of the user
OnlineRestored(v) == \A x \in S(v.topics) : \A o \in S(x.online) : o.o = o.a
\* nobody but the recorded sessions is attached
NoGhostSession(v) == \A x \in S(v.topics) : "?" \notin S(x.att)
\* a deleted topic is gone from the hub and from every session
DeletedGone(v) ==
  \A d \in S(v.deleted) : /\ d.t \notin LoadedTopics(v)
                          /\ \A s \in S(v.sess) : s.live => d.t \notin S(s.subs)
\* after the probe emptied the topic the idle timer unloads it (it was not left paused / half-deleted)
FaultedTopicUnloads(v) == \A t \in S(v.mustUnload) : t \notin LoadedTopics(v)
CheckSnap(v) ==
  IF ~v.quiesced THEN {"Quiesces"} ELSE
  (IF ~AttachSymmetry(v) THEN {"AttachSymmetry"} ELSE {})
  \cup (IF ~TerminatedDetached(v) THEN {"TerminatedDetached"} ELSE {})
  \cup (IF ~OnlineRestored(v) THEN {"OnlineRestored"} ELSE {})
  \cup (IF ~NoGhostSession(v) THEN {"NoGhostSession"} ELSE {})
  \cup (IF ~DeletedGone(v) THEN {"DeletedGone"} ELSE {})
  \cup (IF ~FaultedTopicUnloads(v) THEN {"FaultedTopicUnloads"} ELSE {})

\* ------------------------------------------------------------------ end of a run; race reports
CheckRun(v) ==
  (IF v.parked # <<>> THEN {"NoParkedGoroutine"} ELSE {})
  \cup (IF v.hung # <<>> THEN {"NoHungClient"} ELSE {})
CheckRace(v) == IF v.protected THEN {"NoProtectedDataRace"} ELSE {}

Check(v) ==
  CASE v.k = "sess" -> CheckSess(v)
    [] v.k = "snap" -> CheckSnap(v)
    [] v.k = "run"  -> CheckRun(v)
    [] v.k = "race" -> CheckRace(v)
    [] v.k = "crash" -> {"NoServerCrash"}      \* an unrecovered panic in server code ended the process: every session hangs
    [] OTHER        -> {}

\* ------------------------------------------------------------------ binding: what Attach.tla can produce
\* Reply classes of Attach.tla (comments at every Reply): the codes the modelled paths send.
ReplyCodes(kind) ==
  \* 401 everywhere: the session's own account was deleted meanwhile (account deletion is outside Attach.tla)
  CASE kind = "sub"      -> {200, 304, 503, 404, 500, 403, 401}   \* attached | already | locked/queue full | load failed (not found, store error) | refused
    [] kind = "leave"    -> {200, 304, 503, 404, 401}              \* left | not joined | locked
    [] kind = "unsub"    -> {200, 304, 403, 409, 503, 404, 500, 401}    \* unsubscribed+evicted | no action | owner/me | attach first | locked | store error
    [] kind = "deltopic" -> {200, 304, 403, 503, 404, 500, 401}    \* deleted | no action | forwarded: unsub classes
    [] kind = "deluser"  -> {200, 500, 401}                        \* deleted | store error
    [] OTHER             -> 0..999
\* at most one subscribe/leave of a session is in flight (Add blocks): their replies come back in request order
Inflight(e) == IsReq(e) /\ e.kind \in {"sub", "leave", "unsub"}
ReqReply(ev) == {p \in (DOMAIN ev) \X (DOMAIN ev) : Inflight(ev[p[1]]) /\ ev[p[2]].e = "ctrl" /\ ev[p[2]].id = ev[p[1]].id}
\* (the hub's refusals release the slot BEFORE they queue the 503 - hub.go 203-206, 213-216 - so a 503 may be overtaken)
InflightOrder(ev) == LET RP == ReqReply(ev) IN \A p, q \in RP : p[1] < q[1] => (p[2] < q[2] \/ ev[p[2]].code = 503)
DivSess(v) ==
  (IF \E i, j \in DOMAIN v.ev : IsReq(v.ev[i]) /\ v.ev[j].e = "ctrl" /\ v.ev[j].id = v.ev[i].id /\ j > i
                                /\ v.ev[j].code \notin ReplyCodes(v.ev[i].kind)
   THEN {"reply_class"} ELSE {})
  \cup (IF ~InflightOrder(v.ev) THEN {"inflight_order"} ELSE {})
  \* a reply never precedes its request; nothing is written after the write loop ended is not modelled (stop frame)
  \cup (IF \E i, j \in DOMAIN v.ev : IsReq(v.ev[i]) /\ v.ev[j].e = "ctrl" /\ v.ev[j].id = v.ev[i].id /\ j < i
        THEN {"reply_before_request"} ELSE {})
Diverge(v) == IF v.k = "sess" THEN DivSess(v) ELSE {}

Init == cur = 0 /\ bad = {} /\ div = {}
Next == \E j \in 1..16 :
          LET k == 16 * cur + j IN
            /\ k <= NV
            /\ cur' = k
            /\ bad' = Check(Vectors[k])
            /\ div' = Diverge(Vectors[k])
Spec == Init /\ [][Next]_vars
=============================================================================
