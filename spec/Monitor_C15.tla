---------------------------- MODULE Monitor_C15 ----------------------------
(***************************************************************************)
(* Verdict and binding for C15 over steps recorded from the REAL server    *)
(* (World harness: real hub / topic actor / sessions / call timer over the *)
(* in-memory adapter).  Input: TraceFile (ndjson), one record per step     *)
(* (i = 0: initial state of a behaviour), a structural projection of the   *)
(* World record made by tools/props/c15.py (selection and renaming only):  *)
(*   [b, i, act, code,                                                     *)
(*    ctrl : <<[to, code]>>,                                               *)
(*    infos: <<[to, ev, seq, from, topic, src]>>    {info what=call}       *)
(*    data : <<[to, topic, seq, from, webrtc, replace, content]>>          *)
(*    pay  : <<[s, event, payload]>>                                       *)
(*    fault: an injected adapter fault fired during this step,             *)
(*    hasFault: the behaviour contains a Fault step,                       *)
(*    st   : [configured, live, att, attG, onMe, per, msgs, call, armed]]   *)
(*   bad = names of C15 monitors (Call.tla) false on the REAL observation  *)
(*         (pre-state, request, frames, post-state)       -> the verdict;  *)
(*   div = components in which the real post-state / outputs differ from   *)
(*         Call!Step(pre, request) of the AS-BUILT model   -> the binding. *)
(* Steps are independent given the logged pre- and post-state: 16-ary tree *)
(* walk shared among TLC's workers.                                        *)
(***************************************************************************)
EXTENDS Call, Json

CONSTANT TraceFile
Trace == ndJsonDeserialize(TraceFile)
NT == Len(Trace)

VARIABLES cur, bad, div
vars == <<cur, bad, div>>

S(x) == {x[i] : i \in DOMAIN x}      \* JSON arrays arrive as tuples

\* ------------------------------------------------------------------ the real state in the model's shape
ProjMsgs(ms) == [i \in DOMAIN ms |-> [from |-> ms[i].from, webrtc |-> ms[i].webrtc, replace |-> ms[i].replace, content |-> ms[i].content]]
ProjCall(c) == IF c.active
               THEN [active |-> TRUE, seq |-> c.seq, orig |-> c.orig, origUid |-> c.origUid, parties |-> S(c.parties), accepted |-> c.accepted]
               ELSE NoCall
\* write permission of a participant: W in want and given; before the topic exists nobody has lost it
CanW(p) == p.st = "none" \/ ("W" \in S(p.want) /\ "W" \in S(p.given))
Proj(st) ==
  [live |-> S(st.live), att |-> S(st.att), attG |-> S(st.attG), onMe |-> S(st.onMe),
   canW |-> [u \in Members |-> CanW(st.per[u])],
   msgs |-> ProjMsgs(st.msgs), call |-> ProjCall(st.call), armed |-> st.armed]
\* stored ids are 1..n without gaps in the explored domain (nothing is deleted): index = id
MsgsShapeOk(st) == \A i \in DOMAIN st.msgs : st.msgs[i].seq = i

\* ------------------------------------------------------------------ the real observation
Via(f) == IF f.topic = "p12" /\ f.src = "" THEN "topic" ELSE IF f.topic = "me" /\ f.src # "" THEN "me" ELSE "odd"
InfoOf(f) == [to |-> f.to, ev |-> f.ev, seq |-> f.seq, from |-> f.from, via |-> Via(f)]
DataOf(f) == [to |-> f.to, seq |-> f.seq, from |-> f.from, webrtc |-> f.webrtc, replace |-> f.replace, content |-> f.content]
P12Data(rec) == SelectSeq(rec.data, LAMBDA f : f.topic = "p12")
MaxOf(ns) == IF ns = {} THEN 0 ELSE CHOOSE n \in ns : \A m \in ns : m <= n
RealCode(rec) ==
  IF rec.act.a = "C15Note" THEN MaxOf({rec.ctrl[i].code : i \in {j \in DOMAIN rec.ctrl : rec.ctrl[j].to = rec.act.s}})
  ELSE rec.code
Obs(rec) == [code |-> RealCode(rec),
             infos |-> {InfoOf(rec.infos[i]) : i \in DOMAIN rec.infos},
             data |-> {DataOf(P12Data(rec)[i]) : i \in DOMAIN P12Data(rec)}]

\* ------------------------------------------------------------------ verdict
\* calls of this behaviour (before step k) whose ending step was hit by an injected store fault
EndedAt(j) == Trace[j - 1].st.call.active /\ (~Trace[j].st.call.active \/ Trace[j].st.call.seq # Trace[j - 1].st.call.seq)
Lost(k) == IF ~Trace[k].hasFault THEN {}
           ELSE {Trace[j - 1].st.call.seq : j \in {x \in (k - Trace[k].i + 1)..(k - 1) : Trace[x].fault /\ EndedAt(x)}}
Check(k) ==
  LET rec == Trace[k] IN
  IF rec.i = 0 THEN If(EndsOnceState(Proj(rec.st), {}), "EndsExactlyOnce:one_terminal_replacement_per_started_call")
  ELSE MonitorsX(Proj(Trace[k - 1].st), rec.act, Obs(rec), Proj(rec.st), [fault |-> rec.fault, lost |-> Lost(k)])

\* ------------------------------------------------------------------ binding
Diverge(k) ==
  LET rec == Trace[k] IN
  (IF rec.st.configured # Configured THEN {"configured"} ELSE {})
  \cup (IF ~MsgsShapeOk(rec.st) THEN {"msgs-shape"} ELSE {})
  \cup
  (IF rec.i = 0 THEN (IF Proj(rec.st) # InitState({}, {}, {}) THEN {"init"} ELSE {})
   ELSE LET pre == Proj(Trace[k - 1].st)
            post == Proj(rec.st)
            a == rec.act
            r == Step(pre, a)
            o == Obs(rec)
        IN IF r.out.code = -1 \/ rec.fault THEN {}       \* request not modelled (prelude: NewGrp, Fault); the outcome under an injected
                                                         \* store fault is judged by the monitors only
           ELSE (IF r.st.live # post.live THEN {"live"} ELSE {})
                \cup (IF r.st.att # post.att THEN {"att"} ELSE {})
                \cup (IF r.st.attG # post.attG THEN {"attG"} ELSE {})
                \cup (IF r.st.onMe # post.onMe THEN {"onMe"} ELSE {})
                \cup (IF r.st.canW # post.canW THEN {"canW"} ELSE {})
                \cup (IF r.st.msgs # post.msgs THEN {"msgs"} ELSE {})
                \cup (IF r.st.call # post.call THEN {"call"} ELSE {})
                \cup (IF r.st.armed # post.armed THEN {"timer"} ELSE {})
                \cup (IF r.out.code # -2 /\ r.out.code # o.code THEN {"code"} ELSE {})
                \cup (IF ~(r.out.infos \subseteq o.infos /\ o.infos \subseteq r.out.infos \cup r.opt) THEN {"infos"} ELSE {})
                \cup (IF r.out.data # o.data THEN {"data"} ELSE {})
                \* every frame once
                \cup (IF Cardinality(o.infos) # Len(rec.infos) \/ Cardinality(o.data) # Len(P12Data(rec)) THEN {"duplicate-frames"} ELSE {})
                \* error replies go to the requester only
                \cup (IF \E i \in DOMAIN rec.ctrl : rec.ctrl[i].code >= 300 /\ ("s" \notin DOMAIN a \/ rec.ctrl[i].to # a.s) THEN {"stray-ctrl"} ELSE {})
                \* offers / answers / candidates are relayed with the payload that was sent
                \cup (IF a.a = "C15Note" /\ a.event \in Exchange
                         /\ \E i \in DOMAIN rec.pay : rec.pay[i].event = a.event /\ rec.pay[i].payload # a.payload THEN {"payload"} ELSE {}))

Init == cur = 0 /\ bad = {} /\ div = {}
Next == \E j \in 1..16 :
          LET k == 16 * cur + j IN
            /\ k <= NT
            /\ cur' = k
            /\ bad' = Check(k)
            /\ div' = Diverge(k)
Spec == Init /\ [][Next]_vars
=============================================================================
