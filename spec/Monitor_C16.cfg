\* binding instance: what the code does today (DEV_* = TRUE); the set-valued constants are not used by the monitor
CONSTANTS
  MaxUp = 3
  MaxMsg = 2
  Topics = {"t1", "t2"}
  Users = {"u1", "u2"}
  MaxGc = 99
  Grace = 1
  Methods = {}
  Keys = {}
  Creds = {}
  Places = {}
  Sizes = {}
  Kinds = {}
  Faults = {}
  Shapes = {}
  Limits = {}
  NewaccVals = {}
  AsattVals = {}
  LongVals = {}
  AllowSlow = TRUE
  DEV_NewaccNoAuth = TRUE
  DEV_ServeUnfinished = FALSE
  DEV_SniffPadded = FALSE
  DEV_FinishFailLeavesBytes = FALSE
INIT Init
NEXT Next
CHECK_DEADLOCK FALSE
