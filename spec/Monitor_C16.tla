----------------------------- MODULE Monitor_C16 -----------------------------
(***************************************************************************)
(* Verdict and binding for C16 over steps recorded from the REAL           *)
(* largeFileReceive / largeFileServe / fs handler / store mapper functions *)
(* (c16_vectors.ndjson, written by harness/server/zz_verif_c16_test.go).   *)
(* Each record is one operation with the observed world before and after   *)
(* (memadp fileuploads / filemsglinks rows, directory listing) and the     *)
(* HTTP answer.                                                            *)
(*   bad = clauses of the property that are false on the REAL observation  *)
(*         (the verdict);                                                  *)
(*   div = places where the real outcome differs from the outcome that the *)
(*         as-built instance of FilesCore (DEV_* = TRUE) predicts from the *)
(*         real world before the step (the binding; not a verdict).        *)
(* Records are visited as a 16-ary tree so that TLC's workers share them.  *)
(***************************************************************************)
EXTENDS FilesCore, FilesUrl, Json

Vectors == ndJsonDeserialize("c16_vectors.ndjson")
NV == Len(Vectors)

VARIABLES cur, bad, div
mvars == <<cur, bad, div>>

Rg(s) == {s[i] : i \in DOMAIN s}     \* JSON arrays arrive as tuples
If(c, name) == IF c THEN {} ELSE {name}

-----------------------------------------------------------------------------
(* Reading a record.                                                       *)

UpIds(snap) == {u.id : u \in Rg(snap.up)}
UpOf(snap, id) == CHOOSE u \in Rg(snap.up) : u.id = id
DiskNames(snap) == {d.name : d \in Rg(snap.disk)}
FileOf(snap, n) == CHOOSE d \in Rg(snap.disk) : d.name = n
LinkSet(snap) == {[f |-> l.f, k |-> l.k, t |-> l.t] : l \in Rg(snap.links)}
IsLinked(snap, id) == \E l \in Rg(snap.links) : l.f = id
HasBytes(snap, u) == u.loc \in DiskNames(snap)
Fields(u) == <<u.id, u.st, u.owner, u.upd, u.mime, u.size, u.loc>>

\* the observed world as a FilesCore world; age = has the clock ticked since UpdatedAt (Grace = 1)
AbsW(snap, tick) ==
  [up |-> [id \in UpIds(snap) |-> LET u == UpOf(snap, id) IN
              [owner |-> u.owner, st |-> u.st, age |-> IF u.upd < tick THEN 1 ELSE 0, bytes |-> u.sent, mime |-> u.mime]],
   disk |-> [id \in {u.id : u \in {x \in Rg(snap.up) : HasBytes(snap, x)}} |-> FileOf(snap, UpOf(snap, id).loc).hash],
   links |-> LinkSet(snap),
   msgs |-> [m \in {x.m : x \in Rg(snap.msgs)} |-> (CHOOSE x \in Rg(snap.msgs) : x.m = m).t],
   topics |-> Rg(snap.topics),
   users |-> Rg(snap.users)]

IsReq(v) == v.o.op \in {"upload", "download"}
Ep(v) == IF v.o.op = "upload" THEN "upload" ELSE "serve"
Status(v) == IF v.resp.panic THEN 0 ELSE v.resp.status
\* size class from the numbers of the request that was really sent
SizeClass(v) == IF v.req.bodylen > v.req.max THEN "over" ELSE IF v.req.bodylen = v.req.max THEN "limit" ELSE "small"
Req(v) == IF v.o.op = "upload" THEN [v.o.a EXCEPT !.size = SizeClass(v), !.long = (v.req.filelen >= 512)] ELSE v.o.a

\* the answer carried file bytes
ServedFile(v) == v.o.op = "download" /\ ~v.resp.panic /\ v.resp.status \in {200, 206} /\ v.resp.bodylen > 0
\* the answer's body is the content of some file that is on the disk (upload or not)
LeakedBytes(v) == v.resp.bodylen > 0 /\ (\E d \in Rg(v.pre.disk) : d.hash = v.resp.bodyhash)

NoEffect(v) ==
  /\ {Fields(u) : u \in Rg(v.pre.up)} = {Fields(u) : u \in Rg(v.post.up)}
  /\ Rg(v.pre.disk) = Rg(v.post.disk)
  /\ LinkSet(v.pre) = LinkSet(v.post)
  /\ ~LeakedBytes(v)
  /\ v.resp.url = ""

\* URL -> which upload it names, by the model of GetIdFromUrl
NamedIn(snap, url) == LET nm == Names(url) IN {u \in Rg(snap.up) : nm # <<>> /\ u.fid = nm}
ModelId(snap, url) == LET k == NamedIn(snap, url) IN
                      IF Names(url) = <<>> THEN 0 ELSE IF k = {} THEN -1 ELSE (CHOOSE u \in k : TRUE).id

-----------------------------------------------------------------------------
(* The property on the real observation.                                   *)

MustRefuseObs(v) ==
  LET a == v.o.a IN
  \/ ~Authorised(AbsW(v.pre, v.tick), a)
  \/ a.method \notin Implemented(Ep(v))
  \/ v.o.op = "upload" /\ a.method \in {"POST", "PUT"} /\ v.req.bodylen > v.req.max

CheckReq(v) ==
  LET a == v.o.a
      named == NamedIn(v.pre, v.url)
  IN
  \* no valid key + valid credentials, unimplemented method, oversize: refused and nothing happened
  If(MustRefuseObs(v) => NoEffect(v) /\ (a.method # "OPTIONS" => ~v.resp.panic /\ v.resp.status >= 400), "GateBeforeEffect")
  \* a refused request has no effect (failures injected into the store are not refusals)
  \cup If((Status(v) >= 400 /\ a.fault \in {"none", ""}) => NoEffect(v), "RefusedNoEffect")
  \cup (IF v.o.op = "upload" THEN
          \* the type recorded for an accepted upload is the detected one
          If(\A u \in Rg(v.post.up) : (u.id \notin UpIds(v.pre) /\ v.req.sniff # "application/octet-stream" /\ v.req.sniff # "")
                                         => u.mime = v.req.sniff, "DetectedTypeRecorded")
        ELSE
          \* served bytes are those of a completed upload, the one the URL names, with its detected type
          If(ServedFile(v) => \E u \in named : /\ u.st = "finished"
                                               /\ v.resp.bodyhash = u.sent /\ v.resp.bodylen = u.sentlen, "UrlNamesOnlyCompletedUpload")
          \cup If(ServedFile(v) => \E u \in named : v.resp.bodyhash = u.sent /\ v.resp.bodylen = u.sentlen /\ v.resp.ctype = u.mime,
                  "DownloadExact")
          \* an authorised GET of the URL that the upload answer gave out is served
          \cup If((/\ Authorised(AbsW(v.pre, v.tick), a) /\ a.method = "GET" /\ a.shape = "canon"
                   /\ \E u \in Rg(v.pre.up) : u.id = a.target /\ u.st = "finished" /\ u.url # "")
                  => Status(v) = 200 /\ ServedFile(v), "DownloadServes")
          \* active content is saved, not displayed
          \* (active by the type served, or by what the content was positively detected to be)
          \cup If(ServedFile(v) /\ (\/ ActiveType(v.resp.ctypech)
                                    \/ \E u \in named : u.sniff \notin {"", "application/octet-stream"} /\ MimeActive(u.sniff))
                  => v.resp.disp = "attachment", "ActiveContentSaved")
          \* ... and content that is not active is saved exactly when the request asks for it (asatt parses as true)
          \cup If(ServedFile(v) /\ ~ActiveType(v.resp.ctypech)
                                /\ ~(\E u \in named : u.sniff \notin {"", "application/octet-stream"} /\ MimeActive(u.sniff))
                  => (v.resp.disp = "attachment") = AsattTrue(a.asatt) /\ v.resp.disp \in {"", "attachment"}, "InertSavedIffAsked"))

Collectible(v) == {u \in Rg(v.pre.up) : ~IsLinked(v.pre, u.id) /\ u.upd < v.older}

TargetGone(snap, l) ==
  CASE l.k = "msg" -> ~\E x \in Rg(snap.msgs) : MsgT(x.m) = l.t
    [] l.k = "topic" -> l.t \notin Rg(snap.topics)
    [] l.k = "user" -> l.t \notin Rg(snap.users)

CheckLife(v) ==
  LET o == v.o
      gone == {u \in Rg(v.pre.up) : u.id \notin UpIds(v.post)}
      goneFiles == DiskNames(v.pre) \ DiskNames(v.post)
      C == Collectible(v)
      isGc == o.op = "gc"
  IN
  \* linked => the record and the bytes survive everything, every GC in particular
  If(\A u \in Rg(v.pre.up) : IsLinked(v.pre, u.id) =>
        /\ u.id \in UpIds(v.post)
        /\ (o.op # "uploadend" => Fields(UpOf(v.post, u.id)) = Fields(u))
        /\ (HasBytes(v.pre, u) => /\ HasBytes(v.post, UpOf(v.post, u.id))
                                  /\ (o.op # "uploadend" => FileOf(v.post, u.loc) = FileOf(v.pre, u.loc))),
     "LinkedNeverCollected")
  \* attachments of an accepted message / the avatar of an accepted update, given by the URL the server handed out
  \cup If((o.op = "pub" /\ v.ok) => \A i \in DOMAIN o.refs :
             (o.refs[i].canon /\ o.refs[i].id \in UpIds(v.pre)) => [f |-> o.refs[i].id, k |-> "msg", t |-> MsgT(o.m)] \in LinkSet(v.post),
          "ListedAreLinked")
  \cup If((o.op = "avatar" /\ v.ok /\ Len(o.refs) = 1 /\ o.t \in (IF o.k = "topic" THEN Rg(v.pre.topics) ELSE Rg(v.pre.users))) =>
             ((o.refs[1].canon /\ o.refs[1].id \in UpIds(v.pre)) => [f |-> o.refs[1].id, k |-> o.k, t |-> o.t] \in LinkSet(v.post)),
          "ListedAreLinked")
  \* a link stays while its message / topic / user exists (avatar: until the next accepted avatar of the same target)
  \cup If(\A l \in LinkSet(v.pre) : \/ l \in LinkSet(v.post)
                                    \/ TargetGone(v.post, l)
                                    \/ (o.op = "avatar" /\ v.ok /\ o.k = l.k /\ o.t = l.t /\ Len(o.refs) > 0),
          "LinkLastsAsLongAsTarget")
  \* a GC run removes min(limit, n) of the n unlinked uploads older than the cut-off, record and bytes
  \cup If(isGc /\ v.ok =>
             /\ gone \subseteq C
             /\ Cardinality(gone) = (IF o.limit > 0 THEN Min(o.limit, Cardinality(C)) ELSE Cardinality(C)),
          "UnlinkedCollectedAfterGrace")
  \* ... judged per upload after every GC run: a record that is gone has no bytes left (whether or not other files
  \* of the batch were already missing), a record that stays keeps the bytes it had
  \cup If(isGc => \A u \in Rg(v.pre.up) :
                     IF u.id \notin UpIds(v.post) THEN u.loc \notin DiskNames(v.post)
                     ELSE HasBytes(v.pre, u) => HasBytes(v.post, UpOf(v.post, u.id)),
          "CollectedWithBytes")
  \* nothing else is removed or altered, on any step
  \cup If(/\ \A u \in gone : isGc /\ u \in C
          /\ \A n \in goneFiles : isGc /\ \E u \in C : u.loc = n
          /\ \A u \in Rg(v.pre.up) : (u.id \in UpIds(v.post) /\ o.op # "uploadend") => Fields(UpOf(v.post, u.id)) = Fields(u)
          /\ \A n \in DiskNames(v.pre) \cap DiskNames(v.post) : o.op # "uploadend" => FileOf(v.post, n) = FileOf(v.pre, n),
          "NothingElseRemoved")

Check(v) == (IF IsReq(v) THEN CheckReq(v) ELSE {}) \cup CheckLife(v)

-----------------------------------------------------------------------------
(* Binding: the as-built FilesCore operators applied to the observed       *)
(* world before the step must give the observed world after it.            *)

ModelRefs(v) == [i \in DOMAIN v.o.refs |-> [id |-> ModelId(v.pre, v.o.refs[i].url), resolves |-> Names(v.o.refs[i].url) # <<>>]]

Diverge(v) ==
  LET o == v.o
      pre == AbsW(v.pre, v.tick)
      post == AbsW(v.post, v.tick2)
      same == If(post = pre, o.op \o ".world")
  IN
  CASE o.op = "upload" ->
         LET exp == DoUpload(pre, o.id, Req(v)) IN
           If(exp.w = post, "upload.world") \cup If(exp.resp.status = Status(v), "upload.status")
           \cup If((exp.resp.url # 0) = (v.resp.url # ""), "upload.url")
    [] o.op = "download" ->
         LET nm == Names(v.url)
             mid == ModelId(v.pre, v.url)
             exp == DoDownload(pre, [o.a EXCEPT !.resolves = (nm # <<>>), !.target = mid])
             served == IF ServedFile(v) THEN v.resp.bodyhash ELSE None
         IN same \cup If(exp.status = Status(v), "download.status")
              \cup If(exp.served = served, "download.bytes")
              \cup If(served # None => (exp.mime = v.resp.ctype /\ exp.disp = (v.resp.disp = "attachment")), "download.headers")
              \* the model of GetIdFromUrl against the real one, and the shape table of FilesCore against the model
              \cup If(mid >= 0 => v.got = mid, "url.model")
              \cup If(mid = -1 => v.got # 0, "url.model")
              \cup If(v.built # <<>> => (ShapeResolves(o.a.shape) = (nm = v.built)), "url.shapetable")
    [] o.op = "uploadbegin" -> If(DoUploadBegin(pre, o.id, o.a) = post, "uploadbegin.world")
    [] o.op = "uploadend" -> IF v.skipped THEN same ELSE If(DoUploadEnd(pre, o.id) = post, "uploadend.world") \cup If(v.ok, "uploadend.ok")
    [] o.op = "pub" ->
         LET exp == DoPub(pre, o.m, o.t, ModelRefs(v)) IN
           If(exp.w = post, "pub.world") \cup If(exp.ok = v.ok, "pub.ok")
           \cup If(\A i \in DOMAIN o.refs : LET mid == ModelId(v.pre, o.refs[i].url) IN (mid >= 0 => o.refs[i].got = mid), "url.model")
    [] o.op = "avatar" ->
         LET exp == DoAvatar(pre, o.k, o.t, ModelRefs(v)) IN
           If(exp.w = post, "avatar.world") \cup If(exp.ok = v.ok, "avatar.ok")
           \cup If(\A i \in DOMAIN o.refs : LET mid == ModelId(v.pre, o.refs[i].url) IN (mid >= 0 => o.refs[i].got = mid), "url.model")
    [] o.op = "delmsg" -> IF v.skipped THEN same ELSE If(DoDelMsgHard(pre, o.m) = post, "delmsg.world") \cup If(v.ok, "delmsg.ok")
    [] o.op = "softdel" -> same
    [] o.op = "deltopic" -> If(DoDelTopic(pre, o.t) = post, "deltopic.world") \cup If(v.ok, "deltopic.ok")
    [] o.op = "deluser" -> If(DoDelUser(pre, o.t) = post, "deluser.world") \cup If(v.ok, "deluser.ok")
    [] o.op = "tick" -> If(DoTick(AbsW(v.pre, v.tick)) = post, "tick.world")
    [] o.op = "gc" -> If(post \in {DoGc(pre, R) : R \in GcChoices(pre, o.limit)}, "gc.world") \cup If(v.ok, "gc.ok")
    [] OTHER -> {"unknown op"}

Init == cur = 0 /\ bad = {} /\ div = {}
Next == \E j \in 1..16 :
          LET k == 16 * cur + j IN
            /\ k <= NV
            /\ cur' = k
            /\ bad' = Check(Vectors[k])
            /\ div' = Diverge(Vectors[k])
Spec == Init /\ [][Next]_mvars
=============================================================================
