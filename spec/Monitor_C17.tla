----------------------------- MODULE Monitor_C17 -----------------------------
(***************************************************************************)
(* Verdict for C17 (and binding of the ring half) over vectors recorded    *)
(* from the REAL code (c17_vectors.ndjson).  op "ring": server/ringhash    *)
(* (Go harness TestVerifC17Ring); op "place"/"gate": the cluster's use of  *)
(* the ring, "gatehist": the TopicMaster gate over a history with ring     *)
(* changes and established sessions (TestVerifC17Place); "elect":          *)
(* election traces (TestVerifC17Elect), see CheckElect.                    *)
(* Ring vectors: one case = one hash function (mode "table": the           *)
(* injected table; mode "crc": the default CRC32, table computed by the    *)
(* harness with hash/crc32), one replica count, a list of lookup keys and  *)
(* several listings (subsets / permutations / one listing with a duplicate *)
(* / the empty listing) of one node universe; per listing the real sorted  *)
(* replica list, the real Get(key) of every key and the real Signature().  *)
(*                                                                         *)
(* `bad` = laws of the property that are false on the real outputs;        *)
(* `div` = places where the real output differs from RingRef's prediction. *)
(* Listings with a duplicate name are not "a set of node names": they take *)
(* part in the binding and in SignatureEqualIffSameRing only.              *)
(***************************************************************************)
EXTENDS RingRef, Json, SequencesExt

Vectors == ndJsonDeserialize("c17_vectors.ndjson")
NV == Len(Vectors)

VARIABLES cur, bad, div
vars == <<cur, bad, div>>

NodeSet(r) == ToSet(r.nodes)
Plain(r) == ~r.dup

\* ------------------------------------------------------------------ laws
CheckRing(v) ==
  LET I == DOMAIN v.rings
      K == DOMAIN v.keys
      g(i) == v.rings[i]
  IN
    (IF \E i, j \in I : /\ Plain(g(i)) /\ Plain(g(j)) /\ NodeSet(g(i)) = NodeSet(g(j))
                        /\ g(i).get # g(j).get
     THEN {"OrderIndependent"} ELSE {})
    \cup
    (IF \E i, j \in I : /\ Plain(g(i)) /\ Plain(g(j)) /\ NodeSet(g(i)) = NodeSet(g(j))
                        /\ g(i).sig # g(j).sig
     THEN {"OrderIndependentSignature"} ELSE {})
    \cup
    (IF \E i \in I : g(i).nodes # <<>> /\ \E k \in K : g(i).get[k] \notin NodeSet(g(i))
     THEN {"Total"} ELSE {})
    \cup
    (IF \E i, j \in I : /\ Plain(g(i)) /\ Plain(g(j)) /\ NodeSet(g(j)) # {}
                        /\ \E n \in NodeSet(g(i)) :
                              /\ NodeSet(g(j)) = NodeSet(g(i)) \ {n}
                              /\ \E k \in K : g(i).get[k] # n /\ g(j).get[k] # g(i).get[k]
     THEN {"MinimalMovementOnRemove"} ELSE {})
    \cup
    (IF \E i, j \in I : /\ Plain(g(i)) /\ Plain(g(j)) /\ NodeSet(g(i)) # {}
                        /\ \E n \in NodeSet(g(j)) \ NodeSet(g(i)) :
                              /\ NodeSet(g(j)) = NodeSet(g(i)) \cup {n}
                              /\ \E k \in K : g(j).get[k] \notin {g(i).get[k], n}
     THEN {"MinimalMovementOnAdd"} ELSE {})
    \cup
    (IF \E i, j \in I : (g(i).sig = g(j).sig) # (g(i).elems = g(j).elems)
     THEN {"SignatureEqualIffSameRing"} ELSE {})
    \cup
    \* nodes with different membership must be able to tell (the signature gate relies on it)
    (IF \E i, j \in I : Plain(g(i)) /\ Plain(g(j)) /\ NodeSet(g(i)) # NodeSet(g(j)) /\ g(i).sig = g(j).sig
     THEN {"DifferentMembersDifferentSignature"} ELSE {})

\* ------------------------------------------------------------------ election traces
\* One vector = one run of 3..5 REAL Cluster values driven by the harness (TestVerifC17Elect):
\* v.init / v.steps[i].obs = the state of every node read from the real structures after event i,
\* v.steps[i].ev = the event with the real message contents and replies.  Only real observations are
\* used here; a failing law is reported as "<Law>@<step>".
At(name, I) == {name \o "@" \o ToString(i) : i \in I}

CheckElect(v) ==
  LET L == Len(v.steps)
      N == v.n
      Nd == 1..N
      S(i) == IF i = 0 THEN v.init ELSE v.steps[i].obs
      E(i) == v.steps[i].ev
      Leads(i, n) == S(i).leader[n] = n /\ ~S(i).crashed[n]
      \* a health check reaches node E(i).m; "accepts" = it is not from a stale term
      IsHealth(i) == E(i).op = "deliver" /\ E(i).kind = "health"
      Accepts(i) == IsHealth(i) /\ E(i).t >= S(i - 1).term[E(i).m] /\ ~S(i - 1).crashed[E(i).m]
      Mismatch(i) == ToSet(S(i - 1).ring[E(i).m]) # ToSet(E(i).hsig)
      Adopted(i) == ToSet(S(i).ring[E(i).m]) = ToSet(E(i).hsig)
      \* votes really given: grants returned by the real Cluster.Vote, and own candidacies (term++ in electLeader)
      Grants == {<<E(i).m, E(i).rterm, E(i).n>> : i \in {j \in 1..L : E(j).op = "deliver" /\ E(j).kind = "vote" /\ E(j).res}}
      SelfVotes == {<<E(i).n, S(i).term[E(i).n], E(i).n>> :
                       i \in {j \in 1..L : E(j).op = "tick" /\ S(j).term[E(j).n] = S(j - 1).term[E(j).n] + 1}}
      GrantsAt(i, who) == {E(j).m : j \in {x \in 1..i : /\ E(x).op = "reply" /\ E(x).kind = "vote" /\ E(x).n = who
                                                          /\ E(x).res /\ E(x).t = S(i).term[who]}}
  IN
    At("OneLeaderPerTerm",
       {j \in 0..L : \E i \in 0..j : \E a, b \in Nd : a # b /\ Leads(i, a) /\ Leads(j, b) /\ S(i).term[a] = S(j).term[b]})
    \cup At("TermMonotone", {i \in 1..L : \E n \in Nd : S(i).term[n] < S(i - 1).term[n]})
    \cup (IF \E x, y \in Grants \cup SelfVotes : x[1] = y[1] /\ x[2] = y[2] /\ x[3] # y[3]
          THEN {"OneVotePerTerm@0"} ELSE {})
    \cup At("LeaderHasMajorityOfConfigured",
            {i \in 1..L : \E n \in Nd : /\ Leads(i, n) /\ ~Leads(i - 1, n)
                                          /\ 2 * Cardinality(GrantsAt(i, n) \cup {n}) <= N})
    \cup At("HealthAdoptsLeaderAndTerm",
            {i \in 1..L : Accepts(i) /\ ~S(i).crashed[E(i).m] /\
                           (S(i).term[E(i).m] # E(i).t \/ S(i).leader[E(i).m] # E(i).hleader)})
    \* the receiver must survive the health check it accepts
    \cup At("HealthAdoptsNoCrash", {i \in 1..L : Accepts(i) /\ S(i).crashed[E(i).m]})
    \* literal reading: after an accepted health check the receiver's ring is the leader's ring
    \cup At("HealthAdoptsRingAtOnce", {i \in 1..L : Accepts(i) /\ ~S(i).crashed[E(i).m] /\ ~Adopted(i)})
    \* debounce tolerated: two accepted mismatching health checks in a row (no other accepted one between
    \* them) must not both leave the receiver with a ring different from the advertised one
    \cup At("HealthAdoptsRingBySecondCheck",
            {j \in 1..L : /\ Accepts(j) /\ ~S(j).crashed[E(j).m] /\ Mismatch(j) /\ ~Adopted(j)
                          /\ \E i \in 1..(j - 1) :
                                /\ Accepts(i) /\ E(i).m = E(j).m /\ Mismatch(i) /\ ~Adopted(i)
                                /\ \A x \in (i + 1)..(j - 1) : ~(Accepts(x) /\ E(x).m = E(j).m)})
    \cup At("StaleIgnored",
            {i \in 1..L : /\ IsHealth(i) /\ E(i).t < S(i - 1).term[E(i).m]
                          /\ LET m == E(i).m IN
                               \/ S(i).term[m] # S(i - 1).term[m] \/ S(i).leader[m] # S(i - 1).leader[m]
                               \/ S(i).ring[m] # S(i - 1).ring[m] \/ S(i).active[m] # S(i - 1).active[m]})
    \cup At("MinorityLeaderStopsServing",
            {i \in 0..L : \E n \in Nd :
                /\ Leads(i, n) /\ S(i).busy[n] = "idle"
                /\ 2 * Cardinality({n} \cup {m \in Nd \ {n} : S(i).fails[n][m] < v.fl}) <= N
                /\ ~(S(i).part[n] /\ S(i).code[n] = 502)})

\* ------------------------------------------------------------------ ring use by the cluster (placement, gate)
\* v.views: nodes of one cluster that built their ring with the real Cluster.rehash from the same member set
\* listed in different orders; per view the real signature, isRemoteTopic and nodeForTopic of every topic.
CheckPlace(v) ==
  LET I == DOMAIN v.views
      K == DOMAIN v.topics
      w(i) == v.views[i]
  IN (IF \E i, j \in I : w(i).sig # w(j).sig THEN {"SameMembersSameSignature"} ELSE {})
     \cup (IF \E k \in K : Cardinality({i \in I : w(i).local[k]}) # 1 THEN {"ExactlyOneOwner"} ELSE {})
     \cup (IF \E k \in K : \E i, j \in I : w(j).local[k] /\ ~w(i).local[k] /\ w(i).fwd[k] # w(j).self
           THEN {"EverybodyRoutesToTheOwner"} ELSE {})

\* v: node A (members v.a) sends Route / TopicMaster requests carrying its ring signature to node B (members v.b)
CheckGate(v) ==
  (IF ToSet(v.a) # ToSet(v.b) /\ ~(v.routeRejected /\ v.masterRejected) THEN {"MismatchRefused"} ELSE {})

\* v.reqs: a history of join/pub/meta/leave requests for two topics that proxy node B sends to master A through
\* the real Cluster.TopicMaster, with ring changes at A (a node removed, re-added) in the middle.  For EVERY request,
\* whether or not the multiplexing session of the (topic, B) pair was already established by an earlier accepted
\* request: it is refused, and nothing reaches the hub or the topic, exactly when the two ring signatures differ
\* ("nodes whose rings differ refuse each other's topic traffic"; once the rings agree again, traffic flows).
\* Equal member sets must also mean equal signatures here (both sides build their rings with Cluster.rehash).
CheckGateHist(v) ==
  LET I == DOMAIN v.reqs
      q(i) == v.reqs[i]
      Differ(i) == q(i).sigA # q(i).sigB
  IN At("MismatchRefused", {i \in I : Differ(i) /\ ~q(i).rejected})
     \cup At("MismatchNothingForwarded", {i \in I : Differ(i) /\ (q(i).reachedHub \/ (q(i).sessionNow /\ ~q(i).hadSession))})
     \cup At("MatchingRingsServed", {i \in I : ~Differ(i) /\ q(i).rejected})
     \cup At("SameMembersSameSignature", {i \in I : (ToSet(q(i).membersA) = ToSet(q(i).membersB)) # ~Differ(i)})

Check(v) == CASE v.op = "ring" -> CheckRing(v)
              [] v.op = "elect" -> CheckElect(v)
              [] v.op = "place" -> CheckPlace(v)
              [] v.op = "gate" -> CheckGate(v)
              [] v.op = "gatehist" -> CheckGateHist(v)
              [] OTHER -> {}

\* ------------------------------------------------------------------ binding
HOf(v, s) == (CHOOSE e \in ToSet(v.tab) : e.s = s).h

DivergeRing(v) ==
  LET H(s) == HOf(v, s)
      one(r) == LET ring == Ring(H, v.r, r.nodes) IN
                  (IF r.elems # ring THEN {"elems"} ELSE {})
                  \cup (IF \E k \in DOMAIN v.keys : r.get[k] # Owner(H, ring, v.keys[k]) THEN {"get"} ELSE {})
  IN UNION {one(v.rings[i]) : i \in DOMAIN v.rings}

Diverge(v) == CASE v.op = "ring" -> DivergeRing(v)
                [] v.op = "gate" -> IF ToSet(v.a) = ToSet(v.b) /\ v.routeRejected THEN {"gate"} ELSE {}
                \* an accepted request is expected to arrive at the (fake) hub / topic of the harness
                [] v.op = "gatehist" -> IF \E i \in DOMAIN v.reqs : v.reqs[i].sigA = v.reqs[i].sigB /\ ~v.reqs[i].rejected /\ ~v.reqs[i].reachedHub
                                        THEN {"gatehist-forward"} ELSE {}
                [] OTHER -> {}    \* election traces are followed with the spec by Monitor_C17E

Init == cur = 0 /\ bad = {} /\ div = {}
Next == \E j \in 1..16 :
          LET k == 16 * cur + j IN
            /\ k <= NV
            /\ cur' = k
            /\ bad' = Check(Vectors[k])
            /\ div' = Diverge(Vectors[k])
Spec == Init /\ [][Next]_vars
=============================================================================
