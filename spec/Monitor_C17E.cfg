CONSTANTS
  Configs <- Cfg3
  MaxTerm = 99
  MaxCalls = 99
  MaxFails = 99
  MaxDup = 1
  MaxCuts = 99
  DEV_RehashDebounce = TRUE
  DEV_LeaderKeepsAdoptedRing = TRUE
  DEV_SelfExcludedCrash = FALSE
INIT MInit
NEXT MNext
CHECK_DEADLOCK FALSE
