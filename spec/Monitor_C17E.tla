---------------------------- MODULE Monitor_C17E ----------------------------
(***************************************************************************)
(* Binding of the election half of C17: every trace recorded from the REAL *)
(* Cluster values (c17_elect.ndjson, Go harness TestVerifC17Elect) is      *)
(* followed with spec/Election.tla as built (DEV_* = TRUE): the recorded   *)
(* event selects the step (Step(e)), and after every step the model's      *)
(* state is compared with the state read from the real structures.         *)
(* `div` = the names of the parts that differ (a divergence, not a         *)
(* verdict; the verdict over the same traces is Monitor_C17!CheckElect).   *)
(* A trace whose event is not enabled in the model stops: the checker      *)
(* reports "stuck" for it (visited steps < recorded steps).                *)
(* All traces are initial states, so TLC's workers share them.             *)
(***************************************************************************)
EXTENDS Election, Json, Sequences, SequencesExt

Traces == ndJsonDeserialize("c17_elect.ndjson")
NT == Len(Traces)

VARIABLES tr, k, div
mvars == <<vars, tr, k, div>>

EvOf(r) == Ev(r.op, r.n, r.m, r.kind, r.t, r.o, r.nx)

\* model state (s = TRUE: the primed one) against the observation o
Diff(o, tm, ld, rg, ac, fa, cn, bz, cr, ms) ==
  LET Nd == 1..cfg.n IN
  (IF \E n \in Nd : tm[n] # o.term[n] THEN {"term"} ELSE {})
  \cup (IF \E n \in Nd : ld[n] # o.leader[n] THEN {"leader"} ELSE {})
  \cup (IF \E n \in Nd : ~o.sigok[n] THEN {"signature"} ELSE {})
  \cup (IF \E n \in Nd : rg[n] # ToSet(o.ring[n]) THEN {"ring"} ELSE {})
  \cup (IF \E n \in Nd : ac[n] # ToSet(o.active[n]) THEN {"active"} ELSE {})
  \cup (IF \E n \in Nd : bz[n].k # "ping" /\ \E m \in Nd \ {n} : fa[n][m] # o.fails[n][m] THEN {"fails"} ELSE {})
  \cup (IF \E n \in Nd : \E m \in Nd \ {n} : cn[n][m] # o.conn[n][m] THEN {"conn"} ELSE {})
  \cup (IF \E n \in Nd : bz[n].k # o.busy[n] THEN {"busy"} ELSE {})
  \cup (IF \E n \in Nd : cr[n] # o.crashed[n] THEN {"crashed"} ELSE {})
  \cup (IF \E n \in Nd : ms[n] # o.missed[n] THEN {"missed"} ELSE {})
  \cup (IF \E n \in Nd : ((cfg.n \div 2) >= Cardinality(ac[n])) # o.part[n] THEN {"partitioned"} ELSE {})
  \cup (IF \E n \in Nd : (o.code[n] = 502) # o.part[n] THEN {"reply502"} ELSE {})

\* the real message / reply of the event against the model's (evaluated in the state BEFORE the step)
DiffMsg(r) ==
  IF r.op = "deliver" /\ r.kind = "vote"
  THEN LET g == term[r.m] < r.t IN
       IF r.res # g \/ r.rterm # (IF g THEN r.t ELSE term[r.m]) THEN {"votereply"} ELSE {}
  ELSE IF r.op = "deliver" /\ r.kind = "health"
  THEN IF \E c \in CallsOf(EvOf(r)) : c.from # r.hleader \/ c.sig # ToSet(r.hsig) \/ c.nodes # ToSet(r.hnodes)
       THEN {"healthmsg"} ELSE {}
  ELSE {}

MInit ==
  /\ tr \in 1..NT
  /\ k = 0
  /\ InitWith([n |-> Traces[tr].n, va |-> Traces[tr].va, fl |-> Traces[tr].fl])
  /\ div = Diff(Traces[tr].init, term, leader, ring, active, fails, conn, busy, crashed, missed)

MNext ==
  /\ k < Len(Traces[tr].steps)
  /\ LET s == Traces[tr].steps[k + 1] IN
       /\ Step(EvOf(s.ev))
       /\ div' = DiffMsg(s.ev) \cup Diff(s.obs, term', leader', ring', active', fails', conn', busy', crashed', missed')
  /\ k' = k + 1
  /\ tr' = tr

MSpec == MInit /\ [][MNext]_mvars
=============================================================================
