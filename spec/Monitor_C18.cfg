\* binding = as-built (every DEV_ TRUE: what the code does today)
CONSTANTS
  DEV_CredUpsertShadowedErr = TRUE
  DEV_PgCredUpsertShadowedErr = TRUE
  DEV_UsersCreateCompensates = TRUE
  DEV_TopicsCreateTwoTx = TRUE
  DEV_DeleteListThreeTx = TRUE
INIT Init
NEXT Next
CHECK_DEADLOCK FALSE
