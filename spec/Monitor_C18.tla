---------------------------- MODULE Monitor_C18 ----------------------------
(***************************************************************************)
(* Verdict and binding for C18 over driver-level traces recorded from the  *)
(* REAL MySQL adapter under the fake database/sql driver, the REAL         *)
(* PostgreSQL adapter under the fake wire-protocol backend, and the real   *)
(* store mappers on top of each: c18_vectors.ndjson, one record per run    *)
(*   dialect, op, level, branch, params, cfg, k, fault, applied, n, nw,    *)
(*   events = <<[c, e, pos, verb, tbl, q, intx, ok, res]>>,                *)
(*   returned_err, open_tx_after, inuse_after.                             *)
(* `bad` = names of property-level monitors that are false on the REAL     *)
(* observation (the verdict).  `div` = places where the real trace differs *)
(* from the execution that TxCore predicts for that operation's program    *)
(* (the binding; as-built, all DEV_ = TRUE).                               *)
(* Records are visited as a 16-ary tree so that TLC's workers share them.  *)
(***************************************************************************)
EXTENDS TxCore, Json

Vectors == ndJsonDeserialize("c18_vectors.ndjson")
NV == Len(Vectors)

VARIABLES cur, bad, div
vars == <<cur, bad, div>>

\* ------------------------------------------------------------------ folding a real trace
A0 == [open |-> {}, ctx |-> {}, ntx |-> 0, pend |-> {}, dur |-> {}, commits |-> 0, rollbacks |-> 0,
       failedCommits |-> 0, lost |-> 0, outside |-> 0, unbracketed |-> 0]

TxOf(a, c) == IF \E x \in a.ctx : x[1] = c THEN (CHOOSE x \in a.ctx : x[1] = c)[2] ELSE 0
Drop(a, c) == [a EXCEPT !.open = @ \ {c}, !.pend = {w \in @ : w.tx # TxOf(a, c)}]

StepEv(a, ev, i) ==
  LET c == ev.c IN
  CASE ev.e = "BEGIN" ->
         IF ev.ok THEN [a EXCEPT !.open = @ \cup {c}, !.ntx = @ + 1, !.ctx = {x \in @ : x[1] # c} \cup {<<c, a.ntx + 1>>},
                                 !.unbracketed = @ + (IF c \in a.open THEN 1 ELSE 0)]
         ELSE a
    [] ev.e = "STMT" ->
         IF ev.ok /\ IsWrite(ev.verb)
         THEN IF c \in a.open
              THEN [a EXCEPT !.pend = @ \cup {[tx |-> TxOf(a, c), verb |-> ev.verb, tbl |-> ev.tbl, at |-> i]}]
              ELSE [a EXCEPT !.dur = @ \cup {[tx |-> 0 - i, verb |-> ev.verb, tbl |-> ev.tbl, at |-> i]}, !.outside = @ + 1]
         ELSE a
    [] ev.e = "COMMIT" ->
         IF c \notin a.open THEN [a EXCEPT !.unbracketed = @ + 1]
         ELSE IF ev.ok THEN [Drop(a, c) EXCEPT !.dur = @ \cup {w \in a.pend : w.tx = TxOf(a, c)}, !.commits = @ + 1]
         ELSE [Drop(a, c) EXCEPT !.failedCommits = @ + 1]
    [] ev.e = "ROLLBACK" ->
         IF ev.ok /\ c \in a.open THEN [Drop(a, c) EXCEPT !.rollbacks = @ + 1] ELSE a
    [] ev.e \in {"LOST", "CLOSE"} ->
         IF c \in a.open THEN [Drop(a, c) EXCEPT !.lost = @ + 1] ELSE a
    [] OTHER -> a

RECURSIVE Fold(_, _, _)
Fold(evs, i, a) == IF i > Len(evs) THEN a ELSE Fold(evs, i + 1, StepEv(a, evs[i], i))

\* ------------------------------------------------------------------ the verdict
Injected(v)   == \E i \in DOMAIN v.events : v.events[i].res = "fault" \/ (v.events[i].res = "late" /\ ~v.events[i].ok)

TxsDurable(a) == {w.tx : w \in a.dur}
WTables(a, T) == {w.tbl : w \in {x \in a.dur : x.tx = T /\ x.verb # "DELETE"}}
DTables(a, T) == {w.tbl : w \in {x \in a.dur : x.tx = T /\ x.verb = "DELETE"}}
\* a later, committed, purely deleting transaction that deletes from every table T1 wrote to undoes T1 (clean-up after a failure)
Compensates(a, T2, T1) == T1 > 0 /\ T2 > T1 /\ WTables(a, T1) # {} /\ WTables(a, T2) = {} /\ WTables(a, T1) \subseteq DTables(a, T2)
RealNetEffect(a)  == {T \in TxsDurable(a) : /\ ~\E T2 \in TxsDurable(a) : Compensates(a, T2, T)
                                         /\ ~\E T1 \in TxsDurable(a) : Compensates(a, T, T1)}
RealFullEffect(v, a) == Cardinality(a.dur) = v.nw /\ a.rollbacks = 0 /\ a.failedCommits = 0 /\ a.lost = 0

\* the first transaction-ending event on connection c after index j is a successful ROLLBACK (or, PostgreSQL, the COMMIT
\* of an aborted transaction block, which the server answers with ROLLBACK)
EndsAfter(v, j, c)  == {m \in DOMAIN v.events : m > j /\ v.events[m].c = c /\ v.events[m].e \in {"COMMIT", "ROLLBACK", "LOST", "CLOSE"}
                                                 /\ (v.events[m].e = "ROLLBACK" => v.events[m].ok)}
RolledBackAfter(v, j) ==
  LET E == EndsAfter(v, j, v.events[j].c) IN
    E # {} /\ LET m == CHOOSE x \in E : \A y \in E : x <= y
              IN v.events[m].e = "ROLLBACK" \/ (v.events[m].e = "COMMIT" /\ v.events[m].res = "rolledback")

Check(v) ==
  LET a == Fold(v.events, 1, A0)
      scope == v.level \in {"adapter", "store"}      \* the quantifier: transactional operations
  IN
    (IF scope /\ ~(RealFullEffect(v, a) \/ RealNetEffect(a) = {}) THEN {"AllOrNothing"} ELSE {})
    \cup (IF scope /\ ~(a.open = {} /\ v.open_tx_after = 0 /\ v.inuse_after = 0) THEN {"NoOpenTxAtReturn"} ELSE {})
    \cup (IF scope /\ ((Injected(v) /\ ~v.returned_err) \/ (~v.returned_err /\ ~RealFullEffect(v, a))) THEN {"FailureReported"} ELSE {})
    \cup (IF scope /\ v.fault \in {"err", "rowserr"}
             /\ \E j \in DOMAIN v.events : v.events[j].res = "fault" /\ v.events[j].e \in {"STMT", "PREP"} /\ v.events[j].intx
                                          /\ ~RolledBackAfter(v, j)
          THEN {"FailureRollsBack"} ELSE {})
    \cup (IF scope /\ ~v.applied
             /\ ~(a.open = {} /\ a.unbracketed = 0 /\ a.ntx = a.commits + a.rollbacks /\ a.failedCommits = 0 /\ a.lost = 0
                  /\ (~v.returned_err => (a.rollbacks = 0 /\ a.commits = a.ntx)))
          THEN {"NoFaultBracketsAndCommit"} ELSE {})
    \cup (IF v.nw >= 2 /\ (a.outside > 0 \/ \E i \in DOMAIN v.events : v.events[i].e = "STMT" /\ v.events[i].ok
                                                  /\ IsWrite(v.events[i].verb) /\ ~v.events[i].intx)
          THEN {"NoWriteOutsideTx"} ELSE {})

\* ------------------------------------------------------------------ the binding
RECURSIVE Proj(_, _)
Proj(evs, i) == IF i > Len(evs) THEN <<>>
                ELSE IF evs[i].e \in {"LOST", "CLOSE"} THEN Proj(evs, i + 1)
                ELSE <<<<evs[i].e, evs[i].verb, evs[i].tbl, evs[i].ok>>>> \o Proj(evs, i + 1)

Diverge(v) ==
  LET op == Prog(v.op, v.params, v.dialect)
      pr == Run(op, v.cfg, v.k, v.fault)
  IN (IF Proj(v.events, 1) # pr.evs THEN {"trace"} ELSE {})
     \cup (IF v.returned_err # pr.opErr THEN {"returned_err"} ELSE {})
     \cup (IF v.open_tx_after # pr.leakedOpen THEN {"open_tx_after"} ELSE {})
     \cup (IF v.inuse_after # pr.leakedConn THEN {"inuse_after"} ELSE {})
     \cup (IF v.applied # pr.hit THEN {"applied"} ELSE {})
     \cup (IF v.fault = "none" /\ (v.n # pr.pos \/ v.nw # Cardinality(pr.dur) + Cardinality(pr.pend)) /\ ~pr.opErr THEN {"baseline"} ELSE {})
     \cup (IF v.fault = "none" /\ ~pr.opErr /\ (v.n # NRoundTrips(op) \/ v.nw # NW(op)) THEN {"program_size"} ELSE {})

Init == cur = 0 /\ bad = {} /\ div = {}
Next == \E j \in 1..16 :
          LET k == 16 * cur + j IN
            /\ k <= NV
            /\ cur' = k
            /\ bad' = Check(Vectors[k])
            /\ div' = Diverge(Vectors[k])
Spec == Init /\ [][Next]_vars
=============================================================================
