CONSTANTS
  DEV_QuoteFlagsBeforeEmit = TRUE
  DEV_GluedAfterAccepted = TRUE
  DEV_RestrictedNeedsValidBody = FALSE
  DEV_DelCredEmptyListIsNil = FALSE
INIT Init
NEXT Next
CHECK_DEADLOCK FALSE
