----------------------------- MODULE Monitor_C19 -----------------------------
(***************************************************************************)
(* Verdict and binding for C19 over vectors recorded from the REAL code    *)
(* (c19_vectors.ndjson, written by harness/server/zz_verif_c19_test.go):   *)
(* parseSearchQuery (+ rewriteTag, validators, basic authenticator),       *)
(* normalizeTags, filterRestrictedTags, restrictedTagsEqual,               *)
(* Topic.replySetTags, the fnd branch of Topic.replyGetSub.                *)
(* `bad` = property-level monitors that are false on the real observation  *)
(* (the verdict; "Name:class", the class is only a signature for triage);  *)
(* `div` = places where the real output differs from the as-built model    *)
(* (Impl / NormalizeTags / RestrictedEqual / SetTags / FndQuery of Query).  *)
(* The monitors use only Sem, InNS/NsTags, TagNormal: none of them depends *)
(* on a DEV_ constant.  Vectors are visited as a 16-ary tree.              *)
(***************************************************************************)
EXTENDS Query, Json, TLC

Vectors == ndJsonDeserialize("c19_vectors.ndjson")
NV == Len(Vectors)

VARIABLES cur, bad, div
vars == <<cur, bad, div>>

S(x) == ToSet(x)     \* JSON arrays arrive as tuples

\* ------------------------------------------------------------------ queries
ErrClass(errs) == IF "glued" \in errs /\ "unterminated" \notin errs THEN "glued"
                  ELSE IF "doubled_comma" \in errs THEN "doubled_comma" ELSE "unterminated"

\* terms of the real result that the client did not write: they were added by rewriting
AddedBy(scan, r) == (S(Flatten(r.req)) \cup S(r.opt)) \ {x.t : x \in scan.terms}

CheckOneParse(q, scan, r) ==
  LET s == SemOf(scan, r.cfg) IN
    \* "rejected" at this level = an error, or no term at all (the only caller answers 400 "empty search query")
    (IF s.errs # {} /\ r.err = "" /\ (r.req # <<>> \/ r.opt # <<>>) THEN {"MalformedQueryRejected:" \o ErrClass(s.errs)} ELSE {})
    \cup (IF s.errs = {} /\ (s.req # {} \/ s.opt # {}) /\ r.err # ""
          THEN {"WellFormedQueryAccepted:" \o (IF QUOTE \in S(q) THEN "quoted_term_" ELSE "") \o "rejected_as_" \o r.err} ELSE {})
    \cup (IF s.errs = {} /\ r.err = "" /\ (ReqSet(r.req) # s.req \/ S(r.opt) # s.opt)
          THEN {"QueryMeansWhatIsDocumented:misparsed"} ELSE {})
    \cup (IF s.errs = {} /\ r.err = "" /\ \E t \in AddedBy(scan, r) :
                \/ StartsWith(t, Str_email \o <<COLON>>) /\ ~r.cfg.email
                \/ StartsWith(t, Str_tel \o <<COLON>>) /\ ~r.cfg.tel
                \/ StartsWith(t, Str_basic \o <<COLON>>) /\ ~(r.cfg.basic /\ r.cfg.login)
          THEN {"RewriteOnlyWhenConfigured:rewrite"} ELSE {})

CheckParse(v) == LET scan == SemScan(v.q) IN UNION {CheckOneParse(v.q, scan, v.res[i]) : i \in DOMAIN v.res}

DivOneParse(toks, r) ==
  LET m == ImplOf(toks, r.cfg) IN
    IF m.err # r.err \/ (m.err = "" /\ (m.req # r.req \/ m.opt # r.opt)) THEN {"parse"} ELSE {}
DivParse(v) == LET toks == ImplTokens(v.q) IN UNION {DivOneParse(toks, v.res[i]) : i \in DOMAIN v.res}

\* ------------------------------------------------------------------ tag lists
CheckNormalize(v) ==
  LET out == v.out
      src == {LowerS(Trim(v.raw[i])) : i \in DOMAIN v.raw}
  IN (IF \E i \in DOMAIN out : out[i] = <<>> \/ IsSpaceCh(out[i][1]) \/ IsSpaceCh(out[i][Len(out[i])])
      THEN {"StoredTagsNormalised:trimmed"} ELSE {})
     \cup (IF \E i \in DOMAIN out : LowerS(out[i]) # out[i] THEN {"StoredTagsNormalised:lower_case"} ELSE {})
     \cup (IF \E i, j \in DOMAIN out : i # j /\ out[i] = out[j] THEN {"StoredTagsNormalised:unique"} ELSE {})
     \cup (IF \E i \in DOMAIN out : out[i] # <<>> /\ ~IsLetter(out[i][1]) /\ ~IsDigit(out[i][1])
           THEN {"StoredTagsNormalised:first_rune"} ELSE {})
     \cup (IF \E i \in DOMAIN out : Len(out[i]) < MinTagLength \/ Len(out[i]) > MaxTagLength
           THEN {"StoredTagsNormalised:length"} ELSE {})
     \cup (IF Len(out) > v.max THEN {"StoredTagsNormalised:count"} ELSE {})
     \cup (IF \E i \in DOMAIN out : out[i] \notin src THEN {"StoredTagsNormalised:invented"} ELSE {})

DivNormalize(v) ==
  IF NormalizeTags([nil |-> v.rawNil, tags |-> v.raw], v.max) # [nil |-> v.outNil, tags |-> v.out] THEN {"normalize"} ELSE {}

NsClass(ts) == IF \A t \in ts : ~IsPrefixed(t) THEN "tag_not_matching_prefixedTagRegexp" ELSE "other"
SymDiff(a, b) == (a \ b) \cup (b \ a)

CheckRestricted(v) ==
  LET nss == S(v.ns)
      changed == UNION {SymDiff(NsTags(S(v.old), ns), NsTags(S(v.new), ns)) : ns \in nss}
  IN (IF v.eq /\ changed # {} THEN {"ImmutableNsUntouchable:" \o NsClass(changed)} ELSE {})
     \cup (IF \E t \in S(v.fold) \cup S(v.fnew) : ~\E ns \in nss : InNS(t, ns) THEN {"FilterOnlyReserved:filter"} ELSE {})

DivRestricted(v) ==
  LET nss == S(v.ns) IN
    (IF v.eq # RestrictedEqual(v.old, v.new, nss) THEN {"restrictedTagsEqual"} ELSE {})
    \cup (IF v.fold # RestrictedFilter(v.old, nss) \/ v.fnew # RestrictedFilter(v.new, nss) THEN {"filterRestrictedTags"} ELSE {})

CheckSetTags(v) ==
  LET imm == S(v.imm)
      changed == UNION {SymDiff(NsTags(S(v.pre), ns), NsTags(S(v.post), ns)) : ns \in imm}
  IN (IF changed # {} THEN {"ImmutableNsUntouchable:" \o NsClass(changed)} ELSE {})
     \cup (IF v.stored /\ ~TagsNormal(v.storedTags, v.max) THEN {"StoredTagsNormalised:set_tags"} ELSE {})
     \cup (IF v.code >= 400 /\ (v.post # v.pre \/ v.stored) THEN {"RejectedChangesNothing:set_tags"} ELSE {})

CodeClass(c) == IF c = 200 THEN "ok" ELSE IF c = 304 THEN "notmodified" ELSE IF c = 403 THEN "denied" ELSE "other"

DivSetTags(v) ==
  IF ~v.owner
  THEN (IF v.code # 403 \/ v.post # v.pre \/ v.stored THEN {"settags_nonowner"} ELSE {})
  ELSE LET r == SetTags(v.pre, [nil |-> v.rawNil, tags |-> v.raw], S(v.imm), v.max) IN
         IF CodeClass(v.code) # r.code \/ v.post # r.tags \/ v.stored # r.stored \/ (v.stored /\ v.storedTags # v.post)
         THEN {"settags"} ELSE {}

\* ------------------------------------------------------------------ fnd
CheckFnd(v) ==
  LET msk == S(v.msk)
      terms == S(Flatten(v.req)) \cup S(v.opt)
      s == Sem(v.q, v.cfg)
      foreign == {t \in terms : (\E ns \in msk : InNS(t, ns)) /\ t \notin S(v.tags)}
  IN (IF v.called /\ foreign # {} THEN {"MaskedNsOnlyOwn:" \o NsClass(foreign)} ELSE {})
     \cup (IF v.called /\ v.lvl # "root" /\ ~v.activeOnly THEN {"ActiveOnlyForNonRoot:fnd"} ELSE {})
     \cup (IF s.errs # {} /\ (v.called \/ v.code < 400) THEN {"MalformedQueryRejected:" \o ErrClass(s.errs)} ELSE {})
     \cup (IF s.errs = {} /\ (s.req # {} \/ s.opt # {}) /\ v.code = 400
           THEN {"WellFormedQueryAccepted:" \o (IF QUOTE \in S(v.q) THEN "quoted_term_" ELSE "") \o "rejected_as_malformed"} ELSE {})
     \cup (IF v.called /\ s.errs = {} /\ (ReqSet(v.req) # s.req \/ S(v.opt) # s.opt)
           THEN {"QueryMeansWhatIsDocumented:store_arguments"} ELSE {})

DivFnd(v) ==
  LET r == FndQuery(v.tags, v.q, v.cfg, S(v.msk), v.lvl = "root")
      out == IF v.called THEN "store" ELSE IF v.code = 403 THEN "denied" ELSE IF v.code = 400 THEN "malformed"
             ELSE IF v.code = 204 THEN "noquery" ELSE "other"
  IN IF out # r.out \/ (v.called /\ (v.req # r.req \/ v.opt # r.opt \/ v.activeOnly # r.activeOnly)) THEN {"fnd"} ELSE {}

\* ------------------------------------------------------------------ histories on a live `me` topic (real handleMeta)
\* kind = "set" ({set tags}), "delcred" ({del what=cred}), "serveradd" (credential validated, simulated)
CheckHist(v) ==
  LET imm == S(v.imm)
      stale == S(v.cachePre) # S(v.storedPre)
      changed == UNION {SymDiff(NsTags(S(v.storedPre), ns), NsTags(S(v.storedPost), ns)) : ns \in imm}
      n == NormalizeTags([nil |-> v.rawNil, tags |-> v.raw], v.max)
      asksReservedChange == \E ns \in imm : NsTags(S(n.tags), ns) # NsTags(S(v.storedPre), ns)
  IN \* a client request never adds or removes a reserved-namespace tag of the STORE
     (IF v.kind = "set" /\ changed # {}
      THEN {"ImmutableNsUntouchable:" \o (IF stale THEN "stale_topic_tag_cache" ELSE NsClass(changed))} ELSE {})
     \* ... and one that does not ask for such a change is not refused for it
     \cup (IF v.kind = "set" /\ v.code = 403 /\ ~n.nil /\ ~asksReservedChange
           THEN {"HonestSetAccepted:" \o (IF stale THEN "stale_topic_tag_cache" ELSE "other")} ELSE {})
     \cup (IF v.kind = "set" /\ v.code >= 400 /\ v.storedPost # v.storedPre THEN {"RejectedChangesNothing:set_tags"} ELSE {})
     \cup (IF v.kind = "set" /\ v.code = 200 /\ ~TagsNormal(v.storedPost, v.max) THEN {"StoredTagsNormalised:set_tags"} ELSE {})
     \* the live topic's cached tags are the stored tags (reported at the step that breaks it)
     \cup (IF ~stale /\ S(v.cachePost) # S(v.storedPost) THEN {"TopicTagCacheMatchesStore:after_" \o v.kind} ELSE {})
     \* deleting a credential removes its tag from the store when the validator indexes it
     \cup (IF v.kind = "delcred" /\ v.hadCred /\ v.indexed /\ v.cred \in S(v.storedPost) THEN {"DelCredRemovesItsTag:delcred"} ELSE {})

DivHist(v) ==
  CASE v.kind = "set" ->
         LET r == SetTags(v.cachePre, [nil |-> v.rawNil, tags |-> v.raw], S(v.imm), v.max) IN
           IF CodeClass(v.code) # r.code \/ v.cachePost # r.tags
              \/ (r.stored /\ v.storedPost # r.tags) \/ (~r.stored /\ v.storedPost # v.storedPre)
           THEN {"hist_set"} ELSE {}
    [] v.kind = "delcred" ->
         LET r == DelCredTags(v.storedPre, v.cachePre, v.cred, v.hadCred, v.indexed)
             code == IF v.code = 200 THEN "ok" ELSE IF v.code = 304 THEN "noaction" ELSE "other" IN
           IF code # r.code \/ v.storedPost # r.stored \/ v.cachePost # r.cache THEN {"hist_delcred"} ELSE {}
    [] OTHER -> {}

\* ------------------------------------------------------------------ tags given at creation time (real initTopicNewGrp / replyCreateUser)
\* stored = the tag list of the created object in the store ({} when nothing was created); serverTags = tags the
\* server itself derives for the account (basic:<login> when the basic authenticator indexes logins)
CheckCreate(v) ==
  LET imm == S(v.imm)
      foreign == UNION {NsTags(S(v.stored), ns) : ns \in imm} \ S(v.serverTags)
      own == {t \in S(v.stored) : t \notin S(v.serverTags)}
      src == {LowerS(Trim(v.raw[i])) : i \in DOMAIN v.raw}
  IN (IF foreign # {} THEN {"CreationStoresNoReservedTag:" \o v.kind} ELSE {})
     \cup (IF ~v.ok /\ v.created THEN {"RejectedChangesNothing:creation_" \o v.kind} ELSE {})
     \cup (IF v.created /\ ~TagsNormal(v.stored, v.max + Len(v.serverTags)) THEN {"StoredTagsNormalised:creation_" \o v.kind} ELSE {})
     \cup (IF own \ src # {} THEN {"StoredTagsNormalised:invented_at_creation"} ELSE {})
     \cup (IF v.ok /\ v.kind # "acc" /\ S(v.cache) # S(v.stored) THEN {"TopicTagCacheMatchesStore:after_create"} ELSE {})

DivCreate(v) ==
  LET r == CreateTags([nil |-> v.rawNil, tags |-> v.raw], S(v.imm), v.max) IN
    IF (r.code = "ok") # v.ok \/ v.ok # v.created
       \/ (v.ok /\ S(v.stored) # S(r.tags) \cup S(v.serverTags))
       \/ (v.ok /\ v.kind # "acc" /\ (v.stored # r.tags \/ v.cache # r.tags))
    THEN {"create"} ELSE {}

Check(v) ==
  CASE v.op = "parse"      -> CheckParse(v)
    [] v.op = "normalize"  -> CheckNormalize(v)
    [] v.op = "restricted" -> CheckRestricted(v)
    [] v.op = "settags"    -> CheckSetTags(v)
    [] v.op = "fnd"        -> CheckFnd(v)
    [] v.op = "hist"       -> CheckHist(v)
    [] v.op = "create"     -> CheckCreate(v)
    [] OTHER               -> {"UnknownVector:op"}

Diverge(v) ==
  CASE v.op = "parse"      -> DivParse(v)
    [] v.op = "normalize"  -> DivNormalize(v)
    [] v.op = "restricted" -> DivRestricted(v)
    [] v.op = "settags"    -> DivSetTags(v)
    [] v.op = "fnd"        -> DivFnd(v)
    [] v.op = "hist"       -> DivHist(v)
    [] v.op = "create"     -> DivCreate(v)
    [] OTHER               -> {}

Init == cur = 0 /\ bad = {} /\ div = {}
Next == \E j \in 1..16 :
          LET k == 16 * cur + j IN
            /\ k <= NV
            /\ cur' = k
            /\ bad' = Check(Vectors[k])
            /\ div' = Diverge(Vectors[k])
Spec == Init /\ [][Next]_vars
=============================================================================
