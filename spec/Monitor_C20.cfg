CONSTANTS
  W = 8
  DEV_B64TrailingBits = FALSE
  DEV_B32UpperOnly = TRUE
  DEV_B32Loose = TRUE
  DEV_ZeroJsonRejected = TRUE
  DEV_P2PLooseParse = TRUE
INIT Init
NEXT Next
CHECK_DEADLOCK FALSE
