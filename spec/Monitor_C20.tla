----------------------------- MODULE Monitor_C20 -----------------------------
(***************************************************************************)
(* Verdict and binding for C20 over vectors recorded from the REAL code    *)
(* (c20_vectors.ndjson, written by the Go harness: store/types Uid, P2P    *)
(* and grp/chn functions, Session.expandTopicName, topicNameForUser, and   *)
(* the JSON / protobuf message paths).                                     *)
(*  `bad` = names of property-level laws that are false on this vector     *)
(*          (the verdict).  They are stated with the Strict (as-intended)  *)
(*          operators of Codec.tla and never depend on a DEV_* constant.   *)
(*  `div` = places where the real output differs from what the DEV_*-      *)
(*          parameterised reference operators predict (the binding).       *)
(* Vectors are visited as a 16-ary tree so that TLC's workers share them.  *)
(* W = 8 here: ids are 8 little-endian bytes, texts are sequences of       *)
(* one-character strings.                                                  *)
(***************************************************************************)
EXTENDS Codec, Json

Vectors == ndJsonDeserialize("c20_vectors.ndjson")
NV == Len(Vectors)

VARIABLES cur, bad, div
vars == <<cur, bad, div>>

Other == [i \in 1..W |-> 170]     \* what the harness puts into a decode target beforehand (0xAA..AA)
If(c, name) == IF c THEN {name} ELSE {}

\* ------------------------------------------------------------------ every form of an id, and back
CheckUid(v) ==
  LET id == v.n  z == IsZero(v.n) IN
       If(v.encErr, "EncodeNoError")
  \cup If(v.viaParse # id, "Base64RoundTrip")
  \cup If(~z /\ ~(v.viaTextOk /\ v.viaText = id), "TextRoundTrip")
  \cup If(~z /\ ~(v.viaJSONOk /\ v.viaJSON = id), "JsonRoundTrip")
  \cup If(z /\ ~(v.viaJSONOk /\ v.viaJSON = id), "JsonRoundTripZero")
  \cup If(v.via32 # id, "Base32RoundTrip")
  \cup If(v.viaUser # id, "UserIdRoundTrip")
  \cup If(~(v.viaBinOk /\ v.viaBin = id), "BinaryRoundTrip")
  \cup If(v.viaHdr # id, "StoreHeaderRoundTrip")
  \cup If(v.viaDb # id, "DatabaseRoundTrip")
  \cup If(v.text # v.str, "OneBase64Text")
  \* the text forms mean this id to the reference decoders too (an encoder and a decoder that are wrong
  \* in the same way would still round-trip)
  \cup If(ParseUidStrict(v.str) # id \/ ParseUserIdStrict(v.userid) # id \/ ParseUid32Strict(v.s32) # id, "TextFormsMeanThisId")

DivUid(v) ==
  LET id == v.n IN
       If(v.str # String(id) \/ v.text # MarshalText(id), "uid.String")
  \cup If(v.json # MarshalJSON(id), "uid.MarshalJSON")
  \cup If(v.s32 # String32(id), "uid.String32")
  \cup If(v.userid # UserId(id) \/ v.fnd # FndName(id) \/ v.grpid # PrefixId(GRP, id), "uid.PrefixId")
  \cup If(v.bin # id, "uid.MarshalBinary")
  \cup If(v.via32 # ParseUid32(String32(id)), "uid.ParseUid32")
  \cup If(v.viaParse # ParseUid(String(id)) \/ v.viaUser # ParseUserId(UserId(id)), "uid.ParseUid")
  \cup If([ok |-> v.viaTextOk, id |-> v.viaText] # UnmarshalText(Other, MarshalText(id)), "uid.UnmarshalText")
  \cup If([ok |-> v.viaJSONOk, id |-> v.viaJSON] # UnmarshalJSON(Other, MarshalJSON(id)), "uid.UnmarshalJSON")

CheckDbInt(v) == If(v.back # v.v, "DatabaseRoundTrip")

\* distinct ids, distinct texts (rows: <<id, base64, base32, usr-name>>)
CheckUidInj(v) ==
  If(\E i, j \in DOMAIN v.rows : i < j /\ v.rows[i][1] # v.rows[j][1] /\
        (v.rows[i][2] = v.rows[j][2] \/ v.rows[i][3] = v.rows[j][3] \/ v.rows[i][4] = v.rows[j][4]), "TextInjective")

\* ------------------------------------------------------------------ texts offered as ids
\* real = [ok, id]: what the real decoder reported / left in its target
\* want = the strict reference decoder on a target holding Other; fresh = the function starts from zero
DecLaws(real, strict, fresh) ==
  LET none == IF fresh THEN Zero ELSE Other IN
       \* not an id: the result is the zero value, or the target is left alone -- never somebody's id
       If(~strict.ok /\ real.id \notin {Zero, none}, "InvalidTextIsZero")
  \cup If(strict.ok /\ ~(real.id = strict.id /\ (fresh \/ real.ok)), "ValidTextDecodes")

CheckDec(v) ==
  LET real == [ok |-> v.ok, id |-> v.out] IN
  CASE v.fn = "UnmarshalText" -> DecLaws(real, UnmarshalTextStrict(Other, v.s), FALSE)
    [] v.fn = "ParseUid"      -> DecLaws(real, UnmarshalTextStrict(Zero, v.s), TRUE)
    [] v.fn = "ParseUserId"   -> DecLaws(real, IF HasPrefix(v.s, USR) THEN UnmarshalTextStrict(Zero, Drop(v.s, 3))
                                               ELSE [ok |-> FALSE, id |-> Zero], TRUE)
    \* the zero id's `""` is judged by JsonRoundTripZero on the uid vectors; here `""` counts as not an id
    [] v.fn \in {"UnmarshalJSON", "JsonDecode"} ->
         DecLaws(real, UnmarshalJSONWith(Other, v.s, TRUE, UnmarshalTextStrict), FALSE)
    [] v.fn = "ParseUid32" ->
         LET any   == Decode(v.s, 5, B32AnyIndex, W, FALSE)    \* canonical in either case
             lower == Decode(v.s, 5, B32LIndex, W, FALSE)      \* the text String32 writes
         IN   If(~any.ok /\ v.out # Zero, "InvalidTextIsZero")
         \cup If(lower.ok /\ v.out # lower.bs, "ValidTextDecodes")
         \cup If(any.ok /\ v.out # Zero /\ v.out # any.bs, "AcceptedTextMeansThatId")
    [] OTHER -> {"UnknownVector"}

DivDec(v) ==
  LET real == [ok |-> v.ok, id |-> v.out] IN
  CASE v.fn = "UnmarshalText" -> If(real # UnmarshalText(Other, v.s), "dec.UnmarshalText")
    [] v.fn = "ParseUid"      -> If(v.out # ParseUid(v.s), "dec.ParseUid")
    [] v.fn = "ParseUserId"   -> If(v.out # ParseUserId(v.s), "dec.ParseUserId")
    [] v.fn = "UnmarshalJSON" -> If(real # UnmarshalJSON(Other, v.s), "dec.UnmarshalJSON")
    [] v.fn = "JsonDecode"    -> If(real # UnmarshalJSON(Other, v.s), "dec.JsonDecode")
    [] v.fn = "ParseUid32"    -> If(v.out # ParseUid32(v.s), "dec.ParseUid32")
    [] OTHER -> {}

\* ------------------------------------------------------------------ p2p names
CheckP2P(v) ==
  LET a == v.a  b == v.b  valid == ~IsZero(v.a) /\ ~IsZero(v.b) /\ v.a # v.b IN
       If(v.ab # v.ba, "P2PSymmetric")
  \cup If(valid /\ v.ab = <<>>, "P2PNameExists")
  \cup If(valid /\ ~(v.ok /\ {v.u1, v.u2} = {a, b}), "P2PDecodesToPair")
  \cup If(valid /\ ~(v.forAok /\ v.forBok /\ ParseUserIdStrict(v.forA) = b /\ ParseUserIdStrict(v.forB) = a
                     /\ v.forA = v.ub /\ v.forB = v.ua), "P2PShowsOther")
  \cup If(valid /\ ~ParseP2PStrict(v.ab).ok, "P2PNameIsCanonical")

DivP2P(v) ==
       If(v.ab # P2PName(v.a, v.b), "p2p.P2PName")
  \cup If([ok |-> v.ok, u1 |-> v.u1, u2 |-> v.u2] # ParseP2P(v.ab), "p2p.ParseP2P")
  \cup If([ok |-> v.forAok, name |-> v.forA] # P2PNameForUser(v.a, v.ab)
          \/ [ok |-> v.forBok, name |-> v.forB] # P2PNameForUser(v.b, v.ab)
          \/ [ok |-> v.forCok, name |-> v.forC] # P2PNameForUser([i \in 1..W |-> 119], v.ab), "p2p.P2PNameForUser")

\* different pairs, different names (rows: <<a, b, name>>)
CheckP2PInj(v) ==
  If(\E i, j \in DOMAIN v.rows : i < j /\ {v.rows[i][1], v.rows[i][2]} # {v.rows[j][1], v.rows[j][2]}
                                 /\ v.rows[i][3] = v.rows[j][3], "P2PNameInjective")

\* texts offered as p2p names: only the name P2PName writes for an (ordered, non-zero, distinct) pair is one
CheckP2PDec(v) ==
  LET strict == ParseP2PStrict(v.s) IN
       If(~strict.ok /\ (v.ok \/ v.nameOk), "P2PInvalidTextRejected")
  \cup If(strict.ok /\ ~(v.ok /\ v.u1 = strict.u1 /\ v.u2 = strict.u2), "P2PValidTextDecodes")
DivP2PDec(v) ==
       If([ok |-> v.ok, u1 |-> v.u1, u2 |-> v.u2] # ParseP2P(v.s), "p2pdec.ParseP2P")
  \cup If([ok |-> v.nameOk, name |-> v.name] # P2PNameForUser(v.who, v.s), "p2pdec.P2PNameForUser")

\* ------------------------------------------------------------------ grp <-> chn
CheckGrpChn(v) ==
       If(HasPrefix(v.s, GRP) /\ ~(v.g2c2g = v.s /\ HasPrefix(v.g2c, CHN) /\ Drop(v.g2c, 3) = Drop(v.s, 3)), "GrpChnLossless")
  \cup If(HasPrefix(v.s, CHN) /\ ~(v.c2g2c = v.s /\ HasPrefix(v.c2g, GRP) /\ Drop(v.c2g, 3) = Drop(v.s, 3)), "GrpChnLossless")
DivGrpChn(v) ==
  If(v.g2c # GrpToChn(v.s) \/ v.c2g # ChnToGrp(v.s) \/ v.isChan # IsChannel(v.s)
     \/ v.g2c2g # ChnToGrp(GrpToChn(v.s)) \/ v.c2g2c # GrpToChn(ChnToGrp(v.s)), "grpchn")

\* ------------------------------------------------------------------ names as a session sees them
Exp(r) == [ok |-> r.ok, to |-> r.to]
ExpModel(r) == [ok |-> r.ok, to |-> r.to]
CodeOf(e) == CASE e = "none" -> 0 [] e = "malformed" -> 400 [] e = "denied" -> 403 [] OTHER -> 999

CheckSessP2P(v) ==
  LET valid == ~IsZero(v.a) /\ ~IsZero(v.b) /\ v.a # v.b IN
       \* the same name whichever of the two users computes it, and it is the p2p name of the pair
       If(valid /\ ~(v.expA.ok /\ v.expB.ok /\ v.expA.to = v.expB.to /\ v.expA.to = v.ab), "ExpandSameForBoth")
  \cup If(valid /\ ~(ParseUserIdStrict(v.seenA) = v.b /\ ParseUserIdStrict(v.seenB) = v.a), "TopicShowsOther")
       \* what a participant is shown expands back to the routable name
  \cup If(valid /\ ~(v.rtA.ok /\ v.rtA.to = v.ab /\ v.rtB.ok /\ v.rtB.to = v.ab), "ShownNameExpandsBack")
DivSessP2P(v) ==
  LET m(as, orig) == ExpandTopicName(as, orig)
      same(r, e) == r.ok = e.ok /\ r.to = e.to /\ r.code = CodeOf(e.err) IN
       If(~same(v.expA, m(v.ua, v.ub)) \/ ~same(v.expB, m(v.ub, v.ua)) \/ ~same(v.expFull, m(v.ua, v.ab)), "sess.expandTopicName")
  \cup If(v.ab # <<>> /\ (v.seenA # TopicNameForUser(v.ab, v.a, FALSE) \/ v.seenB # TopicNameForUser(v.ab, v.b, FALSE)), "sess.topicNameForUser")
  \cup If(v.ab # <<>> /\ (~same(v.rtA, m(v.ua, v.seenA)) \/ ~same(v.rtB, m(v.ub, v.seenB))), "sess.expandShown")
  \cup If(~IsZero(v.a) /\ (~same(v.me, m(v.ua, ME)) \/ ~same(v.fnd, m(v.ua, FND))
                           \/ v.meSeen # ME \/ v.fndSeen # FND), "sess.me_fnd")

CheckSessName(v) ==
  \* a group read as a channel is shown under the chn spelling of the same name, and that expands back
  If(HasPrefix(v.s, GRP) /\ ~(HasPrefix(v.tnChan, CHN) /\ Drop(v.tnChan, 3) = Drop(v.s, 3)
                              /\ v.expOfChan.ok /\ v.expOfChan.to = v.s /\ v.tn = v.s), "ChannelSpellingRoundTrip")
DivSessName(v) ==
  LET e == ExpandTopicName(v.as, v.s)
      id == ParseUserIdStrict(v.as)
      tn(isChan) == IF TopicCat(v.s) = "panic" THEN <<"!panic">> ELSE TopicNameForUser(v.s, id, isChan) IN
       If(~(v.exp.ok = e.ok /\ v.exp.to = e.to /\ v.exp.code = CodeOf(e.err)), "sessname.expandTopicName")
  \cup If(v.tn # tn(FALSE) \/ v.tnChan # tn(TRUE), "sessname.topicNameForUser")

\* ------------------------------------------------------------------ JSON vs protobuf, field by field
\* fields: [f, cls, sel, pbdef, want, j, p]; texts already normalised by the recorder (absent = "")
Structural(f) == f.cls \in {"obj", "elem", "list"}
CheckMsg(v) ==
  IF v.dir = "cli" THEN
       {"GrpcRequestFieldSameAsJson:" \o f.f : f \in {x \in Range(v.fields) : ~Structural(x) /\ x.cls # "status" /\ x.pbdef /\ x.j # x.p}}
  \cup {"GrpcRequestDecodesLikeJson:" \o f.f : f \in {x \in Range(v.fields) : x.cls = "status" /\ x.j # x.p}}
  \cup {"GrpcRequestSelectorSameAsJson:" \o f.f : f \in {x \in Range(v.fields) : Structural(x) /\ x.sel /\ x.pbdef /\ x.j # x.p}}
  ELSE {"ProtobufReplyFieldSameAsJson:" \o f.f : f \in {x \in Range(v.fields) : ~Structural(x) /\ x.pbdef /\ x.j # x.p}}
\* the JSON path itself yields what the shape says (the harness drives the code as intended)
DivMsg(v) ==
  {"msg.want:" \o f.f : f \in {x \in Range(v.fields) : x.j # x.want /\ (v.dir = "cli" \/ ~Structural(x))}}

\* ------------------------------------------------------------------ dispatch
Check(v) ==
  CASE v.op = "uid"       -> CheckUid(v)
    [] v.op = "dbint"     -> CheckDbInt(v)
    [] v.op = "uidinj"    -> CheckUidInj(v)
    [] v.op = "dec"       -> CheckDec(v)
    [] v.op = "p2p"       -> CheckP2P(v)
    [] v.op = "p2pinj"    -> CheckP2PInj(v)
    [] v.op = "p2pdec"    -> CheckP2PDec(v)
    [] v.op = "grpchn"    -> CheckGrpChn(v)
    [] v.op = "sess_p2p"  -> CheckSessP2P(v)
    [] v.op = "sess_name" -> CheckSessName(v)
    [] v.op = "msg"       -> CheckMsg(v)
    [] v.op = "schema"    -> {}
    [] OTHER              -> {"UnknownVector"}

Diverge(v) ==
  CASE v.op = "uid"       -> DivUid(v)
    [] v.op = "dec"       -> DivDec(v)
    [] v.op = "p2p"       -> DivP2P(v)
    [] v.op = "p2pdec"    -> DivP2PDec(v)
    [] v.op = "grpchn"    -> DivGrpChn(v)
    [] v.op = "sess_p2p"  -> DivSessP2P(v)
    [] v.op = "sess_name" -> DivSessName(v)
    [] v.op = "msg"       -> DivMsg(v)
    [] OTHER              -> {}

Init == cur = 0 /\ bad = {} /\ div = {}
Next == \E j \in 1..16 :
          LET k == 16 * cur + j IN
            /\ k <= NV
            /\ cur' = k
            /\ bad' = Check(Vectors[k])
            /\ div' = Diverge(Vectors[k])
Spec == Init /\ [][Next]_vars
=============================================================================
