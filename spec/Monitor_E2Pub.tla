---------------------------- MODULE Monitor_E2Pub ----------------------------
(***************************************************************************)
(* Verdict over runs with CONCURRENT publishers recorded from the real     *)
(* server (e2pub_vectors.ndjson).  The topic actor serialises publishes,   *)
(* so the acknowledgements themselves are the linearisation: the monitor   *)
(* states what C01 and C02 require of any such history.                    *)
(***************************************************************************)
EXTENDS Integers, Sequences, FiniteSets, Json, TLC

Vectors == ndJsonDeserialize("e2pub_vectors.ndjson")
NV == Len(Vectors)
VARIABLES cur, bad, div

ToSet(s) == {s[i] : i \in DOMAIN s}
Sess == {"s1", "s2", "s3", "s4", "s5", "s6"}
TopicsE == {"g1", "p12"}
If(c, n) == IF c THEN {} ELSE {n}

\* a publish queued at a topic instance which the hub has meanwhile unloaded and replaced (gated history, see the harness):
\* whatever was acknowledged carries a number nobody else got, and is stored under it; the store never holds a number twice
CheckGate(v) ==
  LET accepted == {a \in ToSet(v.acks) : a.code = 202}
      stored == v.msgs["g1"] IN
  If(Cardinality({a.seq : a \in accepted}) = Cardinality(accepted), "NoNumberIssuedTwice")
  \cup If(Cardinality({stored[i].seq : i \in DOMAIN stored}) = Len(stored), "NothingStoredTwiceOrUnacknowledged")
  \cup If(\A a \in accepted : \E i \in DOMAIN stored : stored[i].seq = a.seq /\ stored[i].c = a.c, "StoredUnderAcknowledgedNumber")

CheckRun(v) ==
  LET acks == ToSet(v.acks)
      ok(t) == {a \in acks : a.t = t /\ a.code = 202}
  IN
  UNION {
    LET t == tt
        accepted == ok(t)
        seqs == {a.seq : a \in accepted}
        n == Cardinality(accepted)
        stored == ToSet(v.msgs[t])
    IN
    \* C01: numbers 1..n, each exactly once, in the store under the acknowledged number
    If(Cardinality(seqs) = n, "NoNumberIssuedTwice")
    \cup If(seqs = 1..n, "NoNumberSkipped")
    \cup If(\A a \in accepted : \E m \in stored : m.seq = a.seq /\ m.c = a.c, "StoredUnderAcknowledgedNumber")
    \cup If(Cardinality(stored) = n /\ Len(v.msgs[t]) = n, "NothingStoredTwiceOrUnacknowledged")
    \cup If(v.last[t].stored = n /\ (v.last[t].live = 0 \/ v.last[t].live = n), "CountersAtLastNumber")
    \* C02: per session, copies arrive in increasing id order, at most one copy of each, each copy is an acknowledged message
    \cup UNION {
         LET fr == SelectSeq(v.frames[s], LAMBDA f : f.t = t) IN
         If(\A i, j \in DOMAIN fr : i < j => fr[i].seq < fr[j].seq, "CopiesArriveInIncreasingOrderOnceEach")
         \cup If(\A i \in DOMAIN fr : \E a \in accepted : a.seq = fr[i].seq /\ a.c = fr[i].c, "EveryCopyIsAnAcknowledgedMessage")
         : s \in Sess }
    : tt \in TopicsE }
  \* every publish was answered
  \cup If(Cardinality(acks) = v.sent, "EveryPublishAnswered")
  \* a write-less user never gets a message in
  \cup If(v.writeless # "" => \A a \in acks : (a.t = "g1" /\ (a.s = "s3" \/ a.s = "s6")) => a.code # 202, "WritelessNeverAccepted")

Check(v) == IF v.op = "e2unloadgate" THEN CheckGate(v) ELSE CheckRun(v)

Init == cur = 0 /\ bad = {} /\ div = {}
Next == \E j \in 1..16 :
          LET k == 16 * cur + j IN
            /\ k <= NV
            /\ cur' = k
            /\ bad' = Check(Vectors[k])
            /\ div' = {}
=============================================================================
