CONSTANTS
  K = 2
  KBig = 2
  BigAt = 60
  OutFile = "c20_shapes.ndjson"
INIT Init
NEXT Next
CHECK_DEADLOCK FALSE
