----------------------------- MODULE MsgShapes -----------------------------
(***************************************************************************)
(* C20, message part: which optional fields a client request / a server    *)
(* reply has, how the JSON name of each field corresponds to the protobuf  *)
(* field (pbx/model.proto), and the lattice of message SHAPES (which       *)
(* optional fields are present) that the conformance run walks through.    *)
(*                                                                         *)
(* A node is [p, pb, cls, sel, req, ev]:                                   *)
(*   p   path of JSON names from the message root, list elements as "0",   *)
(*       "1" (server/datamodel.go struct tags);                            *)
(*   pb  path of protobuf field names for the same datum, <<>> when the    *)
(*       protobuf schema has no such field (then the property says nothing *)
(*       about it);                                                        *)
(*   cls obj | elem (nested object / list element: carries presence only), *)
(*       str | bool | int | time (JSON RFC3339 text <-> int64 ms) |        *)
(*       bytes (JSON base64 <-> raw) | json (any JSON value <-> its        *)
(*       bytes) | jsonmap (object <-> map<string,bytes>) | strlist | enum; *)
(*   sel TRUE when the mere presence of the (possibly empty) object        *)
(*       selects an action in the session code ({set} desc/sub/cred,       *)
(*       {del} cred);                                                      *)
(*   req TRUE when real traffic always carries the field ({data}.ts);      *)
(*   ev  for enums: <<JSON word, protobuf enum name>> pairs.               *)
(*                                                                         *)
(* Shapes(nodes, k): every set of at most k nodes closed upwards (a field  *)
(* needs its enclosing objects), plus the full message and the full        *)
(* message minus one node (with what it encloses).  PairwiseCovered states *)
(* that for every two nodes all combinations present/absent that the       *)
(* nesting allows occur; TLC checks it and writes the shapes as ndjson     *)
(* for the Go recorder.                                                    *)
(***************************************************************************)
EXTENDS Naturals, Sequences, FiniteSets, TLC, Json, SequencesExt

CONSTANTS K, KBig, BigAt, OutFile   \* kinds with more than BigAt nodes use KBig instead of K

N(p, pb, cls) == [p |-> p, pb |-> pb, cls |-> cls, sel |-> FALSE, req |-> FALSE, ev |-> <<>>]
Sel(n) == [n EXCEPT !.sel = TRUE]
Req(n) == [n EXCEPT !.req = TRUE]
E(p, pb, ev) == [N(p, pb, "enum") EXCEPT !.ev = ev]
\* same JSON and protobuf name
L(jp, pp, name, cls) == N(jp \o <<name>>, pp \o <<name>>, cls)
\* different names
L2(jp, pp, jn, pn, cls) == N(jp \o <<jn>>, pp \o <<pn>>, cls)
\* a JSON field the protobuf schema does not define
JOnly(jp, jn, cls) == N(jp \o <<jn>>, <<>>, cls)

AuthLevels == <<<<"auth", "AUTH">>, <<"anon", "ANON">>, <<"root", "ROOT">>>>
DelWhat    == <<<<"msg", "MSG">>, <<"topic", "TOPIC">>, <<"sub", "SUB">>, <<"user", "USER">>, <<"cred", "CRED">>>>
InfoNote   == <<<<"kp", "KP">>, <<"read", "READ">>, <<"recv", "RECV">>, <<"call", "CALL">>>>
CallEvent  == <<<<"accept", "ACCEPT">>, <<"answer", "ANSWER">>, <<"hang-up", "HANG_UP">>,
                <<"ice-candidate", "ICE_CANDIDATE">>, <<"invite", "INVITE">>, <<"offer", "OFFER">>, <<"ringing", "RINGING">>>>
PresWhat   == <<<<"on", "ON">>, <<"off", "OFF">>, <<"ua", "UA">>, <<"upd", "UPD">>, <<"gone", "GONE">>, <<"acs", "ACS">>,
                <<"term", "TERM">>, <<"msg", "MSG">>, <<"read", "READ">>, <<"recv", "RECV">>, <<"del", "DEL">>, <<"tags", "TAGS">>>>

\* ------------------------------------------------------------------ shared sub-structures
DefAcs(jp, pp, jn, pn) ==
  <<L2(jp, pp, jn, pn, "obj"), L(jp \o <<jn>>, pp \o <<pn>>, "auth", "str"), L(jp \o <<jn>>, pp \o <<pn>>, "anon", "str")>>
\* MsgSetDesc <-> SetDesc, the object itself at jp/pp
SetDescBody(jp, pp) ==
  DefAcs(jp, pp, "defacs", "default_acs")
  \o <<L(jp, pp, "public", "json"), L(jp, pp, "trusted", "json"), L(jp, pp, "private", "json")>>
\* MsgCredClient <-> ClientCred
CredBody(jp, pp) ==
  <<L2(jp, pp, "meth", "method", "str"), L2(jp, pp, "val", "value", "str"),
    L2(jp, pp, "resp", "response", "str"), L(jp, pp, "params", "jsonmap")>>
\* MsgSetQuery <-> SetQuery; sel = presence of desc/sub/cred selects the action ({set} only)
SetQueryBody(jp, pp, sel) ==
  LET mark(n) == IF sel THEN Sel(n) ELSE n IN
  <<mark(L(jp, pp, "desc", "obj"))>> \o SetDescBody(jp \o <<"desc">>, pp \o <<"desc">>)
  \o <<mark(L(jp, pp, "sub", "obj")), L2(jp \o <<"sub">>, pp \o <<"sub">>, "user", "user_id", "str"),
       L(jp \o <<"sub">>, pp \o <<"sub">>, "mode", "str"),
       L(jp, pp, "tags", "strlist"),
       mark(L(jp, pp, "cred", "obj"))>> \o CredBody(jp \o <<"cred">>, pp \o <<"cred">>)
\* MsgGetOpts <-> GetOpts: the session code reads every one of the six in each of desc/sub/data
\* (to use it or to reject the request: replyGetDesc, replyGetSub, replyGetData)
GetOptsBody(jp, pp) ==
  <<L2(jp, pp, "ims", "if_modified_since", "time"), L(jp, pp, "user", "str"), L(jp, pp, "topic", "str"),
    L2(jp, pp, "since", "since_id", "int"), L2(jp, pp, "before", "before_id", "int"), L(jp, pp, "limit", "int")>>
\* MsgGetQuery <-> GetQuery ({get}.del has no protobuf counterpart and is left out)
GetQueryBody(jp, pp) ==
  <<L(jp, pp, "what", "str"),
    L(jp, pp, "desc", "obj")>> \o GetOptsBody(jp \o <<"desc">>, pp \o <<"desc">>)
  \o <<L(jp, pp, "sub", "obj")>> \o GetOptsBody(jp \o <<"sub">>, pp \o <<"sub">>)
  \o <<L(jp, pp, "data", "obj")>> \o GetOptsBody(jp \o <<"data">>, pp \o <<"data">>)
CredList(jp, pp) ==
  <<L(jp, pp, "cred", "list"),
    N(jp \o <<"cred", "0">>, pp \o <<"cred", "0">>, "elem")>> \o CredBody(jp \o <<"cred", "0">>, pp \o <<"cred", "0">>)
  \o <<N(jp \o <<"cred", "1">>, pp \o <<"cred", "1">>, "elem"),
       L2(jp \o <<"cred", "1">>, pp \o <<"cred", "1">>, "meth", "method", "str"),
       L2(jp \o <<"cred", "1">>, pp \o <<"cred", "1">>, "resp", "response", "str")>>
DelSeq(jp, pp, jn, pn) ==
  LET j == jp \o <<jn>>  q == pp \o <<pn>> IN
  <<N(j, q, "list"),
    N(j \o <<"0">>, q \o <<"0">>, "elem"), L(j \o <<"0">>, q \o <<"0">>, "low", "int"), L(j \o <<"0">>, q \o <<"0">>, "hi", "int"),
    N(j \o <<"1">>, q \o <<"1">>, "elem"), L(j \o <<"1">>, q \o <<"1">>, "low", "int")>>
\* MsgAccessMode <-> AccessMode (the cumulative `mode` exists in JSON only)
Acs(jp, pp, jn, pn) ==
  LET j == jp \o <<jn>>  q == pp \o <<pn>> IN
  <<N(j, q, "obj"), L(j, q, "want", "str"), L(j, q, "given", "str"), JOnly(j, "mode", "str")>>
\* MsgLastSeenInfo is flattened into two protobuf fields of the enclosing message
Seen(jp, pp) ==
  <<N(jp \o <<"seen">>, <<>>, "obj"),
    N(jp \o <<"seen", "when">>, pp \o <<"last_seen_time">>, "time"),
    N(jp \o <<"seen", "ua">>, pp \o <<"last_seen_user_agent">>, "str")>>

Extra ==
  <<N(<<"extra">>, <<"extra">>, "obj"), L(<<"extra">>, <<"extra">>, "attachments", "strlist"),
    L2(<<"extra">>, <<"extra">>, "obo", "on_behalf_of", "str"),
    E(<<"extra", "authlevel">>, <<"extra", "auth_level">>, AuthLevels)>>

\* ------------------------------------------------------------------ client requests
Hi == LET j == <<"hi">> IN
  <<L(j, j, "id", "str"), L2(j, j, "ua", "user_agent", "str"), L(j, j, "ver", "str"), L2(j, j, "dev", "device_id", "str"),
    L(j, j, "lang", "str"), L2(j, j, "platf", "platform", "str"), L2(j, j, "bkg", "background", "bool")>>
Acc == LET j == <<"acc">> IN
  <<L(j, j, "id", "str"), L2(j, j, "user", "user_id", "str"), L2(j, j, "tmpscheme", "tmp_scheme", "str"),
    L2(j, j, "tmpsecret", "tmp_secret", "bytes"), L2(j, j, "status", "state", "str"),
    E(<<"acc", "authlevel">>, <<"acc", "auth_level">>, AuthLevels),
    L(j, j, "scheme", "str"), L(j, j, "secret", "bytes"), L(j, j, "login", "bool"), L(j, j, "tags", "strlist"),
    L(j, j, "desc", "obj")>> \o SetDescBody(<<"acc", "desc">>, <<"acc", "desc">>) \o CredList(j, j)
Login == LET j == <<"login">> IN
  <<L(j, j, "id", "str"), L(j, j, "scheme", "str"), L(j, j, "secret", "bytes")>> \o CredList(j, j)
Sub == LET j == <<"sub">> IN
  <<L(j, j, "id", "str"), L(j, j, "topic", "str"),
    L2(j, j, "set", "set_query", "obj")>> \o SetQueryBody(<<"sub", "set">>, <<"sub", "set_query">>, FALSE)
  \o <<L2(j, j, "get", "get_query", "obj")>> \o GetQueryBody(<<"sub", "get">>, <<"sub", "get_query">>)
Leave == LET j == <<"leave">> IN <<L(j, j, "id", "str"), L(j, j, "topic", "str"), L(j, j, "unsub", "bool")>>
Pub == LET j == <<"pub">> IN
  <<L(j, j, "id", "str"), L(j, j, "topic", "str"), L2(j, j, "noecho", "no_echo", "bool"),
    L(j, j, "head", "jsonmap"), L(j, j, "content", "json")>>
\* MsgClientGet embeds MsgGetQuery; the protobuf message nests it as `query`
Get == LET j == <<"get">> IN
  <<L(j, j, "id", "str"), L(j, j, "topic", "str")>> \o GetQueryBody(j, <<"get", "query">>)
Set == LET j == <<"set">> IN
  <<L(j, j, "id", "str"), L(j, j, "topic", "str")>> \o SetQueryBody(j, <<"set", "query">>, TRUE)
Del == LET j == <<"del">> IN
  <<L(j, j, "id", "str"), L(j, j, "topic", "str"), E(<<"del", "what">>, <<"del", "what">>, DelWhat)>>
  \o DelSeq(j, j, "delseq", "del_seq")
  \o <<L2(j, j, "user", "user_id", "str"), Sel(L(j, j, "cred", "obj"))>> \o CredBody(<<"del", "cred">>, <<"del", "cred">>)
  \o <<L(j, j, "hard", "bool")>>
Note == LET j == <<"note">> IN
  <<L(j, j, "topic", "str"), E(<<"note", "what">>, <<"note", "what">>, InfoNote), L2(j, j, "seq", "seq_id", "int"),
    L(j, j, "unread", "int"), E(<<"note", "event">>, <<"note", "event">>, CallEvent), L(j, j, "payload", "json")>>

\* ------------------------------------------------------------------ server replies
Ctrl == LET j == <<"ctrl">> IN
  <<L(j, j, "id", "str"), L(j, j, "topic", "str"), L(j, j, "params", "jsonmap"), L(j, j, "code", "int"),
    L(j, j, "text", "str"), JOnly(j, "ts", "time")>>
Data == LET j == <<"data">> IN
  <<L(j, j, "topic", "str"), L2(j, j, "from", "from_user_id", "str"), Req(L2(j, j, "ts", "timestamp", "time")),
    L2(j, j, "deleted", "deleted_at", "time"), L2(j, j, "seq", "seq_id", "int"), L(j, j, "head", "jsonmap"),
    L(j, j, "content", "json")>>
Pres == LET j == <<"pres">> IN
  <<L(j, j, "topic", "str"), L(j, j, "src", "str"), E(<<"pres", "what">>, <<"pres", "what">>, PresWhat),
    L2(j, j, "ua", "user_agent", "str"), L2(j, j, "seq", "seq_id", "int"), L2(j, j, "clear", "del_id", "int")>>
  \o DelSeq(j, j, "delseq", "del_seq")
  \o <<L2(j, j, "tgt", "target_user_id", "str"), L2(j, j, "act", "actor_user_id", "str")>> \o Acs(j, j, "dacs", "acs")
Info == LET j == <<"info">> IN
  <<L(j, j, "topic", "str"), L(j, j, "src", "str"), L2(j, j, "from", "from_user_id", "str"),
    E(<<"info", "what">>, <<"info", "what">>, InfoNote), L2(j, j, "seq", "seq_id", "int"),
    E(<<"info", "event">>, <<"info", "event">>, CallEvent), L(j, j, "payload", "json")>>
TopicDescBody(j) ==
  <<L2(j, j, "created", "created_at", "time"), L2(j, j, "updated", "updated_at", "time"), L2(j, j, "touched", "touched_at", "time"),
    L(j, j, "state", "str"), L(j, j, "online", "bool"), L2(j, j, "chan", "is_chan", "bool")>>
  \o Seen(j, j) \o DefAcs(j, j, "defacs", "defacs") \o Acs(j, j, "acs", "acs")
  \o <<L2(j, j, "seq", "seq_id", "int"), L2(j, j, "read", "read_id", "int"), L2(j, j, "recv", "recv_id", "int"),
       L2(j, j, "clear", "del_id", "int"), L(j, j, "public", "json"), L(j, j, "trusted", "json"), L(j, j, "private", "json")>>
TopicSubBody(j) ==
  <<L2(j, j, "updated", "updated_at", "time"), L2(j, j, "deleted", "deleted_at", "time"), L(j, j, "online", "bool")>>
  \o Acs(j, j, "acs", "acs")
  \o <<L2(j, j, "read", "read_id", "int"), L2(j, j, "recv", "recv_id", "int"), L(j, j, "public", "json"),
       L(j, j, "trusted", "json"), L(j, j, "private", "json"), L2(j, j, "user", "user_id", "str"), L(j, j, "topic", "str"),
       L2(j, j, "touched", "touched_at", "time"), L2(j, j, "seq", "seq_id", "int"), L2(j, j, "clear", "del_id", "int")>>
  \o Seen(j, j)
Meta == LET j == <<"meta">> IN
  <<L(j, j, "id", "str"), L(j, j, "topic", "str"), JOnly(j, "ts", "time"),
    L(j, j, "desc", "obj")>> \o TopicDescBody(<<"meta", "desc">>)
  \o <<L(j, j, "sub", "list"), N(<<"meta", "sub", "0">>, <<"meta", "sub", "0">>, "elem")>> \o TopicSubBody(<<"meta", "sub", "0">>)
  \o <<N(<<"meta", "sub", "1">>, <<"meta", "sub", "1">>, "elem"),
       L2(<<"meta", "sub", "1">>, <<"meta", "sub", "1">>, "user", "user_id", "str"),
       L(<<"meta", "sub", "1">>, <<"meta", "sub", "1">>, "online", "bool")>>
  \o <<L(j, j, "del", "obj"), L2(<<"meta", "del">>, <<"meta", "del">>, "clear", "del_id", "int")>>
  \o DelSeq(<<"meta", "del">>, <<"meta", "del">>, "delseq", "del_seq")
  \o <<L(j, j, "tags", "strlist"),
       L(j, j, "cred", "list"),
       N(<<"meta", "cred", "0">>, <<"meta", "cred", "0">>, "elem"),
       L2(<<"meta", "cred", "0">>, <<"meta", "cred", "0">>, "meth", "method", "str"),
       L2(<<"meta", "cred", "0">>, <<"meta", "cred", "0">>, "val", "value", "str"),
       L(<<"meta", "cred", "0">>, <<"meta", "cred", "0">>, "done", "bool"),
       N(<<"meta", "cred", "1">>, <<"meta", "cred", "1">>, "elem"),
       L2(<<"meta", "cred", "1">>, <<"meta", "cred", "1">>, "meth", "method", "str"),
       L(<<"meta", "cred", "1">>, <<"meta", "cred", "1">>, "done", "bool")>>

\* protobuf fields with no JSON counterpart (cannot occur in "the same request/reply as JSON")
PbOnly == << <<"acc", "token">>, <<"meta", "desc", "state_at">>, <<"topic">> >>

Kinds ==
  << [dir |-> "cli", kind |-> "hi",    nodes |-> Hi \o Extra],
     [dir |-> "cli", kind |-> "acc",   nodes |-> Acc \o Extra],
     [dir |-> "cli", kind |-> "login", nodes |-> Login \o Extra],
     [dir |-> "cli", kind |-> "sub",   nodes |-> Sub \o Extra],
     [dir |-> "cli", kind |-> "leave", nodes |-> Leave \o Extra],
     [dir |-> "cli", kind |-> "pub",   nodes |-> Pub \o Extra],
     [dir |-> "cli", kind |-> "get",   nodes |-> Get \o Extra],
     [dir |-> "cli", kind |-> "set",   nodes |-> Set \o Extra],
     [dir |-> "cli", kind |-> "del",   nodes |-> Del \o Extra],
     [dir |-> "cli", kind |-> "note",  nodes |-> Note \o Extra],
     [dir |-> "srv", kind |-> "ctrl",  nodes |-> Ctrl],
     [dir |-> "srv", kind |-> "data",  nodes |-> Data],
     [dir |-> "srv", kind |-> "pres",  nodes |-> Pres],
     [dir |-> "srv", kind |-> "info",  nodes |-> Info],
     [dir |-> "srv", kind |-> "meta",  nodes |-> Meta] >>

\* ------------------------------------------------------------------ the shape lattice
IsProperPrefix(a, b) == Len(a) < Len(b) /\ SubSeq(b, 1, Len(a)) = a
Anc(nodes, i)  == {j \in DOMAIN nodes : IsProperPrefix(nodes[j].p, nodes[i].p)}
Desc(nodes, i) == {j \in DOMAIN nodes : IsProperPrefix(nodes[i].p, nodes[j].p)}
ReqSet(nodes)  == {i \in DOMAIN nodes : nodes[i].req}
Eager(f) == f @@ <<>>      \* TLC: turn a lazily evaluated function into a table
\* anc/desc are the tables [i |-> Anc(nodes, i)], [i |-> Desc(nodes, i)]
Up(anc, req, S) == LET T == S \cup req IN T \cup UNION {anc[i] : i \in T}
Without(I, desc, i) == I \ ({i} \cup desc[i])

Shapes(nodes, k) ==
  LET I    == DOMAIN nodes
      anc  == Eager([i \in I |-> Anc(nodes, i)])
      desc == Eager([i \in I |-> Desc(nodes, i)])
      req  == ReqSet(nodes)
  IN {Up(anc, req, {})} \cup {Up(anc, req, {a}) : a \in I}
     \cup (IF k >= 2 THEN {Up(anc, req, {a, b}) : a, b \in I} ELSE {})
     \cup (IF k >= 3 THEN {Up(anc, req, {a, b, d}) : a, b, d \in I} ELSE {})
     \cup {I} \cup {Without(I, desc, i) : i \in {x \in I : req \cap ({x} \cup desc[x]) = {}}}

\* every two optional nodes are seen in every combination of present/absent that the nesting allows
\* (a field cannot be present without its enclosing objects), and every node is absent from an
\* otherwise full message
PairwiseCoveredFor(nodes, sh) ==
  LET I == DOMAIN nodes \ ReqSet(nodes) IN
  /\ \A a, b \in I :
       a # b =>
         /\ \E s \in sh : a \in s /\ b \in s
         /\ \E s \in sh : a \notin s /\ b \notin s
         /\ b \notin Anc(nodes, a) => \E s \in sh : a \in s /\ b \notin s
  /\ \A a \in I : \E s \in sh : a \notin s /\ \A b \in DOMAIN nodes : b \in s \/ b = a \/ b \in Desc(nodes, a)
WellFormed(nodes) ==
  /\ \A i, j \in DOMAIN nodes : nodes[i].p = nodes[j].p => i = j                      \* no duplicate paths
  /\ \A i \in DOMAIN nodes : Len(nodes[i].p) > 2 =>                                  \* every nested node has its parent
        \E j \in DOMAIN nodes : nodes[j].p = SubSeq(nodes[i].p, 1, Len(nodes[i].p) - 1)
  /\ \A i \in DOMAIN nodes : (nodes[i].cls = "enum") <=> (nodes[i].ev # <<>>)
  /\ \A i \in DOMAIN nodes : Desc(nodes, i) # {} => nodes[i].cls \in {"obj", "elem", "list"}

\* ------------------------------------------------------------------ check + emission for the Go recorder
KindOut(q) ==
  LET nodes == Kinds[q].nodes
      k     == IF Len(nodes) > BigAt THEN KBig ELSE K
      sh    == Shapes(nodes, k)
      seq   == SetToSeq(sh)
      order(s) == SelectSeq([i \in DOMAIN nodes |-> i], LAMBDA i : i \in s)
  IN [ok   |-> WellFormed(nodes) /\ (k >= 2 => PairwiseCoveredFor(nodes, sh)),
      stat |-> <<Kinds[q].kind, Len(nodes), Cardinality(sh)>>,
      recs |-> <<[op |-> "schema", dir |-> Kinds[q].dir, kind |-> Kinds[q].kind, nodes |-> nodes, pbonly |-> PbOnly]>>
               \o [x \in DOMAIN seq |-> [op |-> "shape", dir |-> Kinds[q].dir, kind |-> Kinds[q].kind, present |-> order(seq[x])]]]

RECURSIVE Gather(_)
Gather(n) ==
  IF n = 0 THEN [ok |-> TRUE, stats |-> <<>>, recs |-> <<>>]
  ELSE LET g == Gather(n - 1)  o == KindOut(n) IN
         [ok |-> g.ok /\ o.ok, stats |-> Append(g.stats, o.stat), recs |-> g.recs \o o.recs]

ASSUME ShapesCoveredAndEmitted ==
  LET g == Gather(Len(Kinds)) IN
    /\ PrintT(<<"shapes", g.stats>>)
    /\ g.ok
    /\ OutFile = "" \/ ndJsonSerialize(OutFile, g.recs)

VARIABLE done
Init == done = FALSE
Next == done' = TRUE
=============================================================================
