------------------------------ MODULE Presence ------------------------------
(***************************************************************************)
(* The 'me' / group presence protocol of tinode (C10): server/pres.go      *)
(* (procPresReq, presUsersOfInterest, presSubsOffline,                      *)
(* presSingleUserOffline[Offline], loadContacts), server/topic.go          *)
(* (subscriptionReply online accounting, sendSubNotifications,             *)
(* sessToForeground, handleLeaveRequest, handleTopicTimeout, evictUser,    *)
(* notifySubChange mute / unmute), server/hub.go (routeSrv drops messages  *)
(* for topics that are not registered), server/session.go (cleanUp).       *)
(*                                                                         *)
(* Topics are actors.  A user's 'me' topic is named by the user ("u1"), a  *)
(* group by its name ("g1").  Peer-to-peer topics only hold permissions    *)
(* here: no presence message is ever addressed to them (presUsersOfInterest*)
(* addresses the OTHER user's 'me').                                       *)
(* The state is one record S (pure operators below return [st, out, fw]:   *)
(* new state, messages put on hub.routeSrv in order, frames forwarded to   *)
(* sessions), so that the same text serves                                 *)
(*   - the exhaustive design check (Presence_MC: asynchronous, one FIFO     *)
(*     mailbox per destination),                                           *)
(*   - behaviour generation and the binding (Monitor_C10: every request is *)
(*     run to quiescence, as the World harness does with the real server). *)
(*                                                                         *)
(*   S.bg[s]          session-level background flag (declared {hi bkg},    *)
(*                    timer not yet expired)                                *)
(*   S.sub[t][u]      [live, P]: u's subscription to group / p2p topic t    *)
(*                    exists; P in want /\ given                            *)
(*   S.top[x]         actor of 'me' topic / group x:                        *)
(*                    ph  "off" (not registered in the hub), "live",        *)
(*                        "unreg" (idle timer fired: hub.unreg sent, the    *)
(*                        "off" fan-out still to come), "lame" (fan-out     *)
(*                        done, hub has not processed the unreg yet)        *)
(*                    ann isLoaded(): contacts loaded and "on" announced    *)
(*                    supd the actor has a session-update channel           *)
(*                    att attached sessions; pend sessions whose            *)
(*                        background-timer update (supd) is not processed   *)
(*                    cnt[u] perUser[u].online                              *)
(*   S.ps[u][c]       contact table of u's 'me': [l(isted), on, en]         *)
(*   S.told[o][c]     LAST presence ("on"/"off") a session of o was told    *)
(*                    about contact c on 'me' ({pres} or {meta sub}.online) *)
(*   S.zomb[x]        old actor of x that the hub has already forgotten but *)
(*                    which has not done its "off" fan-out yet              *)
(* DEV_* = TRUE is what the code does today.                               *)
(***************************************************************************)
EXTENDS Integers, Sequences, FiniteSets

CONSTANTS Users, UserOrder,      \* abstract users and their order (tuple)
          Sessions, SessOrder, SessUser,
          Groups, GroupOrder,
          P2Ps, Ends,            \* p2p topic names and [P2Ps -> two-element subsets of Users]
          DEV_TwoStepUnload,     \* handleTopicTimeout sends hub.unreg BEFORE the "off" fan-out and keeps serving until the hub reacts
          DEV_P2PUnmuteSilent,   \* notifySubChange: un-muting a p2p subscription does not re-enable the contact (only grp / me branches exist)
          DEV_BgLeaveRace,       \* handleLeaveRequest decrements `online` by the SESSION flag, not by whether this topic counted the session
          DEV_DisconnectClearsBg, \* Session.cleanUp clears `background` before unsubAll: a never-counted session is un-counted
          DEV_UnlistedDisabledOnline \* procPresReq records an unknown sender as ONLINE even when the entry is created disabled
                                     \* (listed entries obey "if we don't care about updates, keep the other user off")
          , DEV_NewGrpNoSupd         \* initTopicNewGrp does not create Topic.supd (initTopicGrp and initTopicMe do): until the group is
                                     \* reloaded, sessions attached in the background never come to the foreground there
          , DEV_GoneUnlistedDropped  \* procPresReq drops "gone" (= off+rem) from a sender that is not in the contact table ("not in list and
                                     \* asked to be removed - ignore"): a user invited WITHOUT P is never told that the subscription is gone
          , DEV_LoadContactsClobbers \* loadContacts (first foreground session) overwrites entries learnt while only background
                                     \* sessions were attached: their online flag drops to false without an "off" to the sessions

Contacts == Users \cup Groups
ContactOrder == UserOrder \o GroupOrder
Actors == Users \cup Groups
SubTopics == Groups \cup P2Ps

NoEntry == [l |-> FALSE, on |-> FALSE, en |-> FALSE]
NoSubP  == [live |-> FALSE, P |-> FALSE]
OffTop  == [ph |-> "off", ann |-> FALSE, supd |-> TRUE, att |-> {}, pend |-> {}, cnt |-> [u \in Users |-> 0]]
FreshTop == [OffTop EXCEPT !.ph = "live"]
NoZomb  == [has |-> FALSE, to |-> <<>>]

InitState ==
  [bg   |-> [s \in Sessions |-> FALSE],
   sub  |-> [t \in SubTopics |-> [u \in Users |-> NoSubP]],
   top  |-> [x \in Actors |-> OffTop],
   ps   |-> [u \in Users |-> [c \in Contacts |-> NoEntry]],
   told |-> [u \in Users |-> [c \in Contacts |-> "off"]],
   zomb |-> [x \in Actors |-> NoZomb]]

Msg(src, what, cmd, wr) == [src |-> src, what |-> what, cmd |-> cmd, wr |-> wr]
Out(dst, src, what, cmd, wr) == [dst |-> dst, m |-> Msg(src, what, cmd, wr)]
Res(S, out) == [st |-> S, out |-> out, fw |-> <<>>]

HasP2P(u, c) == c \in Users /\ c # u /\ \E p \in P2Ps : Ends[p] = {u, c}
P2POf(u, c) == CHOOSE p \in P2Ps : Ends[p] = {u, c}
Peer(p, u) == CHOOSE v \in Ends[p] : v # u
\* the contact under which user u files topic t (pres.go addToPerSubs: p2p topics are indexed by the other user's id)
ContactOf(t, u) == IF t \in P2Ps THEN Peer(t, u) ELSE t
\* u's own subscription behind contact c
CSub(S, u, c) == IF c \in Groups THEN S.sub[c][u] ELSE IF HasP2P(u, c) THEN S.sub[P2POf(u, c)][u] ELSE NoSubP
CLive(S, u, c) == CSub(S, u, c).live
CP(S, u, c) == CSub(S, u, c).live /\ CSub(S, u, c).P

Registered(S, x) == S.top[x].ph # "off"
Serving(S, x) == S.top[x].ph \in {"live", "lame"}
SessOf(u) == {s \in Sessions : SessUser[s] = u}

\* ------------------------------------------------------------------ pres.go:97 procPresReq on a 'me' topic
\* e = perSubs entry of the sender, m = incoming request.  Returns the new entry, what is forwarded to the
\* sessions ("" = nothing) and the reply.
MeProc(e, m) ==
  LET nil == m.what \in {"?none", "?unkn"}
      upd == m.what = "on"
      req == m.what = "?unkn"
      w   == IF nil THEN "" ELSE m.what
      cmd == IF m.what = "gone" THEN "rem" ELSE m.cmd
      \* a disabled entry is kept offline; otherwise the reported status is recorded
      setOn(x) == IF ~x.en THEN [x EXCEPT !.on = FALSE] ELSE IF nil THEN x ELSE [x EXCEPT !.on = upd]
      r == IF e.l
           THEN CASE cmd = "rem" -> [e |-> NoEntry, fwd |-> IF ~e.en /\ w = "off" THEN "" ELSE w, ras |-> "off", rcmd |-> "rem"]
                  [] cmd = ""    -> [e |-> setOn(e), fwd |-> IF ~e.en \/ nil \/ e.on = upd THEN "" ELSE w, ras |-> "on", rcmd |-> ""]
                  [] cmd = "en"  -> [e |-> setOn([e EXCEPT !.en = TRUE]),
                                     fwd |-> IF ~e.en THEN w ELSE IF nil \/ e.on = upd THEN "" ELSE w, ras |-> "on", rcmd |-> ""]
                  [] cmd = "dis" -> [e |-> [e EXCEPT !.en = FALSE, !.on = FALSE],
                                     fwd |-> IF e.en /\ e.on THEN w ELSE "", ras |-> "on", rcmd |-> ""]
           ELSE IF cmd # "rem"
           THEN [e |-> [l |-> TRUE, on |-> upd /\ (DEV_UnlistedDisabledOnline \/ cmd = "en"), en |-> cmd = "en"], fwd |-> IF cmd = "en" THEN w ELSE "", ras |-> "on", rcmd |-> ""]
           ELSE [e |-> e, fwd |-> IF w = "gone" /\ ~DEV_GoneUnlistedDropped THEN w ELSE "", ras |-> "on", rcmd |-> ""]
  IN [e |-> r.e, fwd |-> r.fwd, reply |-> (upd \/ req) /\ m.wr, ras |-> r.ras, rcmd |-> r.rcmd, rwr |-> req]

ToldOf(fwd) == IF fwd = "on" THEN "on" ELSE "off"      \* "off" and "gone" both mean: not online

\* topic.go:1239 handlePresence of actor d for message m taken from its serverMsg channel
Handle(S, d, m) ==
  IF ~Serving(S, d) THEN Res(S, <<>>)                   \* hub.go routeSrv: no such topic -> dropped; inactive topic ignores
  ELSE IF d \in Groups
  THEN \* a group keeps no contact table: it answers "on" to whoever announces itself or asks (procPresReq tail)
       LET upd == m.what = "on"  req == m.what = "?unkn" IN
       Res(S, IF (upd \/ req) /\ m.wr THEN <<Out(m.src, d, "on", "", req)>> ELSE <<>>)
  ELSE LET r == MeProc(S.ps[d][m.src], m)
           fwdNow == r.fwd # "" /\ S.top[d].att # {}
           S1 == [S EXCEPT !.ps[d][m.src] = r.e,
                           !.told[d][m.src] = IF fwdNow THEN ToldOf(r.fwd) ELSE @]
       IN [st |-> S1,
           out |-> IF r.reply THEN <<Out(m.src, d, r.ras, r.rcmd, r.rwr)>> ELSE <<>>,
           fw |-> IF fwdNow THEN <<[o |-> d, src |-> m.src, what |-> r.fwd]>> ELSE <<>>]

\* ------------------------------------------------------------------ announcements
\* pres.go:254 presUsersOfInterest: to EVERY key of perSubs (enabled or not)
MeAnnounce(ps, u, what, cmd, wr) ==
  LET l == SelectSeq(ContactOrder, LAMBDA c : ps[c].l) IN [i \in DOMAIN l |-> Out(l[i], u, what, cmd, wr)]
\* pres.go:432 presSubsOffline: to the 'me' of every subscriber with P
GrpAnnounce(S, g, what, cmd) ==
  LET l == SelectSeq(UserOrder, LAMBDA u : S.sub[g][u].live /\ S.sub[g][u].P) IN [i \in DOMAIN l |-> Out(l[i], g, what, cmd, FALSE)]
\* pres.go:69 loadContacts: every live subscription of u, offline, enabled iff P; other keys stay as they are
LoadContacts(S, u) ==
  [c \in Contacts |-> IF c # u /\ CLive(S, u, c)
                      THEN [l |-> TRUE, on |-> IF DEV_LoadContactsClobbers THEN FALSE ELSE S.ps[u][c].on /\ CP(S, u, c), en |-> CP(S, u, c)]
                      ELSE S.ps[u][c]]
\* {sub me get=sub}: topic.go replyGetSub reports perSubs[c].online for every live subscription
MetaTold(S, u) == [c \in Contacts |-> IF c # u /\ CLive(S, u, c) THEN (IF S.ps[u][c].on THEN "on" ELSE "off") ELSE S.told[u][c]]

\* topic.go:924 sendSubNotifications for a session of user u that counts as online in actor x
SubNotif(S, x, u) ==
  IF S.top[x].ann THEN Res(S, <<>>)
  ELSE IF x \in Users
  THEN LET S1 == [S EXCEPT !.top[x].ann = TRUE]
           S2 == [S1 EXCEPT !.ps[x] = LoadContacts(S1, x)]
       IN Res(S2, MeAnnounce(S2.ps[x], x, "on", "", TRUE))
  ELSE Res([S EXCEPT !.top[x].ann = TRUE], GrpAnnounce(S, x, "on", IF S.sub[x][u].P THEN "en" ELSE ""))

\* ------------------------------------------------------------------ session requests
\* hub.join + topic.go registerSession/subscriptionReply: session s attaches to actor x (own 'me' or a group it belongs to)
Attach(S, s, x) ==
  LET u == SessUser[s]
      fresh == S.top[x].ph = "off"
      S0 == IF fresh THEN [S EXCEPT !.top[x] = FreshTop, !.ps = IF x \in Users THEN [@ EXCEPT ![x] = [c \in Contacts |-> NoEntry]] ELSE @]
            ELSE S
      fg == ~S.bg[s]
      S1 == [S0 EXCEPT !.top[x].att = @ \cup {s}, !.top[x].cnt[u] = IF fg THEN @ + 1 ELSE @]
      r == IF fg THEN SubNotif(S1, x, u) ELSE Res(S1, <<>>)
  IN IF x \in Users THEN [r EXCEPT !.st.told[x] = MetaTold(r.st, x)] ELSE r

\* session.go onBackgroundTimer (session side): the flag flips, every attached actor gets a supd
BgExpire(S, s) ==
  [S EXCEPT !.bg[s] = FALSE,
            !.top = [x \in Actors |-> IF s \in S.top[x].att /\ S.bg[s] /\ S.top[x].supd THEN [S.top[x] EXCEPT !.pend = @ \cup {s}] ELSE S.top[x]]]
\* topic.go:831 sessToForeground (actor side)
ToFg(S, x, s) ==
  LET u == SessUser[s]
      S0 == [S EXCEPT !.top[x].pend = @ \ {s}] IN
  IF s \notin S.top[x].att THEN Res(S0, <<>>)
  ELSE SubNotif([S0 EXCEPT !.top[x].cnt[u] = @ + 1], x, u)

\* topic.go:688 handleLeaveRequest without unsub.  `flag` = value of sess.background the actor reads
Detach(S, s, x, flag) ==
  LET u == SessUser[s]
      counted == IF DEV_BgLeaveRace THEN ~flag ELSE ~flag /\ s \notin S.top[x].pend IN
  [S EXCEPT !.top[x].att = @ \ {s}, !.top[x].pend = @ \ {s},
            !.top[x].cnt[u] = IF counted THEN @ - 1 ELSE @]
\* session.go:411 cleanUp: background := false, then unsubAll
DisconnectFlag(S, s) == IF DEV_DisconnectClearsBg THEN FALSE ELSE S.bg[s]

\* ------------------------------------------------------------------ idle unload (topic.go:493 handleTopicTimeout)
OffFanout(S, x) == IF x \in Users THEN MeAnnounce(S.ps[x], x, "off", "", FALSE) ELSE GrpAnnounce(S, x, "off", "")
Forget(S, x) == [S EXCEPT !.top[x] = OffTop, !.ps = IF x \in Users THEN [@ EXCEPT ![x] = [c \in Contacts |-> NoEntry]] ELSE @]
\* the whole unload as one step (what a sequential run observes; the as-intended design)
UnloadAtomic(S, x) == Res(Forget(S, x), OffFanout(S, x))

\* ------------------------------------------------------------------ permission changes (topic.go:3384 notifySubChange)
\* u loses P on t (own want or somebody else's given; includes bans): "off+dis" about the contact to u's 'me'
Mute(S, t, u) == Res([S EXCEPT !.sub[t][u].P = FALSE], <<Out(u, ContactOf(t, u), "off", "dis", FALSE)>>)
\* u gains P on t
Unmute(S, t, u) ==
  Res([S EXCEPT !.sub[t][u].P = TRUE],
      IF t \in Groups \/ ~DEV_P2PUnmuteSilent THEN <<Out(u, ContactOf(t, u), "?unkn", "en", TRUE)>> ELSE <<>>)
\* new subscription of u to group g (own {sub} or an invitation): "?unkn+en" iff it carries P
JoinGrp(S, g, u, p) ==
  Res([S EXCEPT !.sub[g][u] = [live |-> TRUE, P |-> p]], IF p THEN <<Out(u, g, "?unkn", "en", TRUE)>> ELSE <<>>)
\* subscription of u to group g deleted ({del sub}, {leave unsub}): "gone" to u's 'me', evictUser drops u's sessions and counter
GoneGrp(S, g, u) ==
  Res([S EXCEPT !.sub[g][u] = NoSubP,
                !.top[g].att = @ \ SessOf(u), !.top[g].pend = @ \ SessOf(u), !.top[g].cnt[u] = 0],
      <<Out(u, g, "gone", "", FALSE)>>)
\* new subscription of u to p2p topic p (topic.go:858 sendImmediateSubNotifications, Newsub): pu = P of u, the peer keeps its row
NewP2P(S, p, u, pu) ==
  LET v == Peer(p, u)
      S1 == [S EXCEPT !.sub[p][u] = [live |-> TRUE, P |-> pu]]
      pv == S.sub[p][v].live /\ S.sub[p][v].P IN
  Res(S1, (IF pu THEN <<Out(u, v, "?none", "en", FALSE)>> ELSE <<>>) \o (IF pv THEN <<Out(v, u, "?unkn", "en", TRUE)>> ELSE <<>>))
\* u deletes its p2p subscription: "gone" about the peer to u, plain "off" about u to the peer
GoneP2P(S, p, u) ==
  LET v == Peer(p, u) IN
  Res([S EXCEPT !.sub[p][u] = NoSubP], <<Out(u, v, "gone", "", FALSE), Out(v, u, "off", "", FALSE)>>)

\* ------------------------------------------------------------------ run to quiescence (one global FIFO = hub.routeSrv)
RECURSIVE Quiesce(_, _, _, _)
Quiesce(S, q, fw, fuel) ==
  IF q = <<>> \/ fuel = 0 THEN [st |-> S, fw |-> fw, left |-> q]
  ELSE LET h == Handle(S, Head(q).dst, Head(q).m) IN Quiesce(h.st, Tail(q) \o h.out, fw \o h.fw, fuel - 1)
Run(r) == Quiesce(r.st, r.out, r.fw, 64)
\* composition of request parts inside one critical section: the outputs are queued in order
Then(r, Op(_)) == LET r2 == Op(r.st) IN [st |-> r2.st, out |-> r.out \o r2.out, fw |-> r.fw \o r2.fw]

\* ------------------------------------------------------------------ the three clauses as state predicates
Counted(S, x, s) == s \in S.top[x].att /\ ~S.bg[s] /\ s \notin S.top[x].pend
OnlineCountExact(S) ==
  \A x \in Actors : \A u \in Users :
     /\ S.top[x].cnt[u] >= 0
     /\ S.top[x].cnt[u] = Cardinality({s \in SessOf(u) : Counted(S, x, s)})

\* quiescent and settled: nothing pending anywhere, idle actors unloaded, no background session still waiting
Settled(S) ==
  /\ \A x \in Actors : /\ S.top[x].ph \in {"off", "live"} /\ ~S.zomb[x].has /\ S.top[x].pend = {}
                       /\ (S.top[x].ph = "live" => S.top[x].att # {})
                       /\ \A s \in S.top[x].att : ~S.bg[s]
MeOnline(S, u) == S.top[u].ph = "live" /\ \E s \in S.top[u].att : ~S.bg[s]
GrpOnline(S, g) == S.top[g].ph = "live" /\ S.top[g].att # {}
Watching(S, o) == S.top[o].ph = "live" /\ S.top[o].att # {}
Converged(S) ==
  /\ \A p \in P2Ps : \A o \in Ends[p] :
       LET u == Peer(p, o) IN
       (S.sub[p][o].live /\ S.sub[p][o].P /\ S.sub[p][u].live /\ S.sub[p][u].P /\ Watching(S, o))
          => ((S.told[o][u] = "on") <=> MeOnline(S, u))
  /\ \A g \in Groups : \A o \in Users :
       (S.sub[g][o].live /\ S.sub[g][o].P /\ Watching(S, o)) => ((S.told[o][g] = "on") <=> GrpOnline(S, g))
=============================================================================
