----------------------------- MODULE PresenceSeq -----------------------------
(***************************************************************************)
(* Presence run one client request at a time, each to quiescence — what    *)
(* the World harness does with the real server.  SeqStep maps one abstract *)
(* World step (zz_verif_replay_test.go) plus the permission events of the  *)
(* step onto the operators of Presence.tla.  Used by the behaviour         *)
(* generator (Presence_MC, events guessed from the request) and by the     *)
(* binding (Monitor_C10, events read off the recorded store rows: which    *)
(* permissions change is C05-C08's business, what presence does with the   *)
(* change is C10's).                                                       *)
(*   ev = tuple of [k, t, u, p]:                                           *)
(*     "row"    u's row of t appears silently (peer row of a new p2p       *)
(*              topic, owner row of a new group), p = has P                *)
(*     "new"    u subscribes / is invited to t, p = has P                  *)
(*     "reinvite" u's deleted p2p row is re-created by the peer's {set sub} *)
(*     "gone"   u's subscription to t is deleted                           *)
(*     "mute" / "unmute"   u loses / gains P on t                          *)
(*     "evict"  u's sessions are detached from t (ban)                     *)
(***************************************************************************)
EXTENDS Presence

CONSTANTS DEV_HiBkgIgnored,      \* Session.hello arms the background timer on {hi bkg:true} but never sets Session.background
          DEV_ReinviteNoTopicName, \* anotherUserSub re-creates a deleted p2p subscription's cache entry without topicName: until the topic is
                                 \* reloaded, whatever it addresses to that user's 'me' carries an empty source (no effect on the contact)
          DEV_P2PLastDelSilent   \* {del topic} by the LAST subscriber of a LOADED p2p topic (hub.topicUnreg case 1.1.1): the topic is deleted
                                 \* without any notice; the user's other sessions are not told "gone", 'me' keeps the contact

MeOf(tn) == CHOOSE u \in Users : tn = "me:" \o u
IsMeName(tn) == \E u \in Users : tn = "me:" \o u

\* a = the request, o.tl = the topic the request addresses was loaded before it
ApplyEv(r, e, a, o) ==
  CASE e.k = "row"    -> [r EXCEPT !.st.sub[e.t][e.u] = [live |-> TRUE, P |-> e.p]]
    [] e.k = "new"    -> IF e.t \in Groups THEN Then(r, LAMBDA S : JoinGrp(S, e.t, e.u, e.p))
                         ELSE \* a deleted row revived in a LOADED p2p topic goes through thisUserSub's new-subscription branch: notifySubChange
                              \* (un-muted: "?unkn+en" about the peer, since the p2p case was added there) runs before the Newsub handshake
                              Then(IF o.tl /\ e.p /\ ~DEV_P2PUnmuteSilent
                                   THEN Then(r, LAMBDA S : Res(S, <<Out(e.u, Peer(e.t, e.u), "?unkn", "en", TRUE)>>)) ELSE r,
                                   LAMBDA S : NewP2P(S, e.t, e.u, e.p))
    \* a deleted p2p row re-created by the PEER's {set sub user=X} (anotherUserSub): notifySubChange sees "un-muted" (old mode unset) and,
    \* since the p2p case was added there, asks the user's 'me' to enable the peer and exchange status - unless the re-created cache
    \* entry has no topic name (then the request carries an empty source and is lost)
    [] e.k = "reinvite" -> Then(r, LAMBDA S : Res([S EXCEPT !.sub[e.t][e.u] = [live |-> TRUE, P |-> e.p]],
                                                   IF e.p /\ ~DEV_P2PUnmuteSilent /\ ~DEV_ReinviteNoTopicName
                                                   THEN <<Out(e.u, Peer(e.t, e.u), "?unkn", "en", TRUE)>> ELSE <<>>))
    [] e.k = "gone"   -> IF e.t \in Groups THEN Then(r, LAMBDA S : GoneGrp(S, e.t, e.u))
                         ELSE LET v == Peer(e.t, e.u)
                                  peerLive == r.st.sub[e.t][v].live IN
                              IF o.tl
                              THEN \* loaded topic: replyLeaveUnsub -> notifySubChange, except the last subscriber's {del topic}
                                   IF a.a = "DelTopic" /\ ~peerLive
                                   THEN (IF DEV_P2PLastDelSilent THEN [r EXCEPT !.st.sub[e.t][e.u] = NoSubP]
                                         ELSE Then(r, LAMBDA S : Res([S EXCEPT !.sub[e.t][e.u] = NoSubP], <<Out(e.u, v, "gone", "", FALSE)>>)))
                                   ELSE Then(r, LAMBDA S : GoneP2P(S, e.t, e.u))
                              ELSE \* hub.topicUnreg case 1.2 (topic offline): "gone" to the user; "off" to the peer only if it is still subscribed
                                   Then(r, LAMBDA S : Res([S EXCEPT !.sub[e.t][e.u] = NoSubP],
                                                          <<Out(e.u, v, "gone", "", FALSE)>> \o (IF peerLive THEN <<Out(v, e.u, "off", "", FALSE)>> ELSE <<>>)))
    [] e.k = "mute"   -> Then(r, LAMBDA S : Mute(S, e.t, e.u))
    [] e.k = "unmute" -> Then(r, LAMBDA S : Unmute(S, e.t, e.u))
    [] e.k = "evict"  -> IF e.t \in Groups
                         THEN [r EXCEPT !.st.top[e.t].att = @ \ SessOf(e.u), !.st.top[e.t].pend = @ \ SessOf(e.u), !.st.top[e.t].cnt[e.u] = 0]
                         ELSE r
\* o.noname = users of the addressed p2p topic whose cache entry has no topic name: the messages the event adds for their
\* 'me' about the peer are lost
Masked(r, e, a, o) ==
  LET r2 == ApplyEv(r, e, a, o)
      n == Len(r.out)
      added == SubSeq(r2.out, n + 1, Len(r2.out)) IN
  IF ~DEV_ReinviteNoTopicName \/ e.t \notin P2Ps \/ o.noname = {} THEN r2
  ELSE [r2 EXCEPT !.out = r.out \o SelectSeq(added, LAMBDA x : ~(x.dst \in o.noname /\ x.dst \in Ends[e.t] /\ x.m.src = Peer(e.t, x.dst)
                                                          \* (presSingleUserOffline names the source by t.original(uid); the "off" / "off+dis"
                                                          \*  of presSingleUserOfflineOffline are given the peer's id explicitly)
                                                          /\ x.m.what \in {"?none", "?unkn", "gone"}))]
RECURSIVE ApplyEvs(_, _, _, _)
ApplyEvs(r, ev, a, o) == IF ev = <<>> THEN r ELSE ApplyEvs(Masked(r, Head(ev), a, o), Tail(ev), a, o)

ActorOrder == UserOrder \o GroupOrder
Same(S) == Res(S, <<>>)

\* session.go unsubAll: every actor the session is attached to handles its leave (flag = what the actors read)
RECURSIVE DetachAll(_, _, _, _)
DetachAll(r, xs, s, flag) ==
  IF xs = <<>> THEN r
  ELSE DetachAll(IF s \in r.st.top[Head(xs)].att THEN [r EXCEPT !.st = Detach(r.st, s, Head(xs), flag)] ELSE r, Tail(xs), s, flag)
\* session.go onBackgroundTimer: every attached actor handles the supd
RECURSIVE ToFgAll(_, _, _)
ToFgAll(r, xs, s) ==
  IF xs = <<>> THEN r
  ELSE ToFgAll(IF s \in r.st.top[Head(xs)].pend THEN Then(r, LAMBDA X : ToFg(X, Head(xs), s)) ELSE r, Tail(xs), s)

\* o = [ok, denied, fresh, tl, noname]: tl = the addressed topic was loaded; ok = the reply was a success, denied = it was {ctrl 403} (the binding passes the observed code;
\* the generator assumes success),
\* fresh = the session named by a ConnectBg step was not connected (otherwise the step is a no-op)
SeqStep(S, a, ev, o) ==
  LET r0 == ApplyEvs(Same(S), ev, a, o)
      ok == o.ok IN
  CASE a.a = "Sub" ->
         IF ~ok THEN (IF o.denied /\ a.t \in Groups /\ S.top[a.t].ph = "off"
                      THEN Run([r0 EXCEPT !.st.top[a.t] = FreshTop])   \* hub.join initialises the topic, registerSession refuses: it stays loaded, idle
                      ELSE Run(r0))
         ELSE IF a.t = "me" THEN (IF a.s \in S.top[SessUser[a.s]].att THEN Run(r0) ELSE Run(Then(r0, LAMBDA X : Attach(X, a.s, SessUser[a.s]))))
         ELSE IF a.t \in Groups THEN (IF a.s \in S.top[a.t].att \/ ~r0.st.sub[a.t][SessUser[a.s]].live THEN Run(r0)
                                      ELSE Run(Then(r0, LAMBDA X : Attach(X, a.s, a.t))))
         ELSE Run(r0)
    [] a.a = "NewGrp" -> IF ok /\ a.t \in Groups
                         THEN Run(Then(Then(r0, LAMBDA X : Attach(X, a.s, a.t)), LAMBDA X : Same([X EXCEPT !.top[a.t].supd = ~DEV_NewGrpNoSupd])))
                         ELSE Run(r0)
    [] a.a = "Leave" ->
         LET x == IF a.t = "me" THEN SessUser[a.s] ELSE a.t IN
         IF ok /\ ~a.unsub /\ x \in Actors /\ a.s \in S.top[x].att THEN Run(Then(r0, LAMBDA X : Same(Detach(X, a.s, x, X.bg[a.s]))))
         ELSE Run(r0)
    [] a.a = "Disconnect" ->
         Run(Then(DetachAll(r0, ActorOrder, a.s, DisconnectFlag(S, a.s)), LAMBDA X : Same([X EXCEPT !.bg[a.s] = FALSE])))
    [] a.a = "ConnectBg" -> Run(Same([S EXCEPT !.bg[a.sess] = IF o.fresh THEN (a.force \/ ~DEV_HiBkgIgnored) ELSE @]))
    [] a.a = "BgFire" ->
         IF ~S.bg[a.s] THEN Run(r0)
         ELSE Run(ToFgAll(Same(BgExpire(S, a.s)), ActorOrder, a.s))
    [] a.a = "Unload" ->
         LET x == IF IsMeName(a.t) THEN MeOf(a.t) ELSE a.t IN
         IF x \in Actors /\ S.top[x].ph = "live" /\ S.top[x].att = {} THEN Run(UnloadAtomic(S, x)) ELSE Run(r0)
    [] a.a = "DelTopic" ->
         \* the owner deletes the group: every subscription goes ("gone" events above: handleTopicTermination / presSubsOfflineOffline),
         \* the actor exits without an "off" fan-out
         IF ok /\ a.t \in Groups /\ \A u \in Users : ~r0.st.sub[a.t][u].live
         THEN Run([r0 EXCEPT !.st.top[a.t] = OffTop])
         ELSE Run(r0)
    [] OTHER -> Run(r0)
=============================================================================
